(* Laziness, general statement, part (b): NECESSITY of the pulls.

   [needed cfg C id l k]: let n be the number of Next calls the source (Slice l, id) has received
   after k Next calls on the pipeline C l.  If n >= 1 there is a source l' that answers the first
   n-1 calls like l (same items; same end) but for which the first k results differ: the n-th
   answer was needed to determine the results requested so far.  Together with prefix determinacy
   (GapsLazy.v: the first n answers suffice) this says that n is exactly the amount of the source
   that the k results depend on.

   1. The statement is FALSE for arbitrary pipelines, for two reasons, both inherent in the Go
      code and both harmless:
      (i)  callbacks are opaque: Filter with a predicate that never holds reads its whole source
           although the result (the end) does not depend on any item; no condition on the single
           callbacks helps: Filter (x < 0) over Map (x => 5) behaves the same
           ([necessity_refuted_filter], [necessity_refuted_compose]);
      (ii) combinators do not remember that their source has ended: every Next call after the
           end asks the exhausted source again (Iterator contract: "it is expected that it will
           always return false afterwards") - the source cannot answer anything else, so the call
           is not needed ([necessity_refuted_after_end]).
   2. It is TRUE for every single combinator up to and including the first call that reports the
      end, when the callback is not constant in the sense needed:
        WithPeek (through Next), Map, First      no condition
        Filter keep                              some item satisfies keep
        While f                                  some item satisfies f
        Compact / CompactFunc eq                 every item has an inequivalent one
      There is NO look-ahead anywhere: in particular Compact returns an item as soon as it sees
      it, and Chunk stops after the last item of a full chunk (GapsPulls.chunk_pulls_exact). *)
From Juniper Require Import Common.Base Iter.Syntax Iter.Config Iter.ModelBase Iter.IterModel
  Iter.Spec Iter.Contract Iter.IterProofs Iter.Lazy Iter.GapsLazy Iter.GapsPulls.

(* ---- results of k calls, position by position ---- *)
Lemma nth_expect : forall k (L : list item) j, (j < k)%nat ->
  nth_error (expect L k) j
  = Some (match nth_error L j with Some x => RItem x | None => REnd end).
Proof.
  induction k as [|k IH]; intros L j Hj; [lia|].
  destruct L as [|x t]; destruct j as [|j]; simpl; try reflexivity.
  - rewrite IH by lia. destruct j; reflexivity.
  - apply IH. lia.
Qed.

Lemma expectZ_len_neq D1 D2 k j :
  (j < k)%nat ->
  (length D1 <= j < length D2)%nat \/ (length D2 <= j < length D1)%nat ->
  expect (map IZ D1) k <> expect (map IZ D2) k.
Proof.
  intros Hj Hl He. apply (f_equal (fun r => nth_error r j)) in He.
  rewrite !nth_expect in He by exact Hj. rewrite !nth_error_map in He.
  destruct Hl as [[H1 H2]|[H1 H2]].
  - apply nth_error_None in H1. apply nth_error_Some in H2.
    destruct (nth_error D2 j); [|congruence]. rewrite H1 in He. discriminate.
  - apply nth_error_None in H1. apply nth_error_Some in H2.
    destruct (nth_error D1 j); [|congruence]. rewrite H1 in He. discriminate.
Qed.

Definition needed (cfg : config) (C : list Z -> pz + pl) (id : nat) (l : list Z) (k : nat)
  : Prop :=
  let n := pulls_in (run_iter_cfg cfg (C l) (ksteps k)) id in
  (1 <= n)%nat ->
  exists l', agree_upto (n - 1) l l' /\
             results (run_iter_cfg cfg (C l') (ksteps k))
             <> results (run_iter_cfg cfg (C l) (ksteps k)).

Lemma agree_firstn j (l : list Z) : agree_upto j l (firstn j l).
Proof. intros i Hi. symmetry. apply nth_error_firstn_lt. exact Hi. Qed.
Lemma agree_snoc (l : list Z) y : agree_upto (length l) l (l ++ [y]).
Proof. intros i Hi. symmetry. apply nth_error_app1. exact Hi. Qed.

(* ---- 1. refutations of the unconditional statement ---- *)
Lemma filter_none (l : list Z) : filter (pred_eval (PrNot PrTrue)) l = [].
Proof. induction l as [|x t IH]; simpl; auto. Qed.

Theorem necessity_refuted_filter :
  let C l := inl (ZFilter (PrNot PrTrue) never_fails (ZSrc 0 (SSlice l))) in
  pulls_in (run_iter (C [1; 2; 3]) (ksteps 1)) 0 = 4%nat /\
  (forall l', results (run_iter (C l') (ksteps 1)) = [REnd]) /\
  ~ needed current_cfg C 0 [1; 2; 3] 1.
Proof.
  intros C.
  assert (Hall : forall l', results (run_iter (C l') (ksteps 1)) = [REnd]).
  { intros l'. unfold run_iter, C. rewrite results_den; [|reflexivity|exact I|reflexivity].
    simpl. rewrite filter_none. reflexivity. }
  split; [vm_compute; reflexivity|]. split; [exact Hall|].
  intros Hn. destruct (Hn ltac:(vm_compute; lia)) as (l' & _ & Hd).
  apply Hd. unfold run_iter in Hall. rewrite !Hall. reflexivity.
Qed.

(* every callback takes both values / is not injective on its own, still nothing is needed *)
Lemma filter_map_const (l : list Z) :
  filter (pred_eval (PrLt 0)) (map (fn_eval (FnAffine 0 5)) l) = [].
Proof. induction l as [|x t IH]; simpl; auto. Qed.

Theorem necessity_refuted_compose :
  let C l := inl (ZFilter (PrLt 0) never_fails
                    (ZMap (FnAffine 0 5) never_fails (ZSrc 0 (SSlice l)))) in
  (pred_eval (PrLt 0) (-1) = true /\ pred_eval (PrLt 0) 1 = false) /\
  pulls_in (run_iter (C [1; 2; 3]) (ksteps 1)) 0 = 4%nat /\
  ~ needed current_cfg C 0 [1; 2; 3] 1.
Proof.
  intros C.
  assert (Hall : forall l', results (run_iter (C l') (ksteps 1)) = [REnd]).
  { intros l'. unfold run_iter, C. rewrite results_den; [|reflexivity|exact I|reflexivity].
    simpl. rewrite filter_map_const. reflexivity. }
  split; [split; reflexivity|]. split; [vm_compute; reflexivity|].
  intros Hn. destruct (Hn ltac:(vm_compute; lia)) as (l' & _ & Hd).
  apply Hd. unfold run_iter in Hall. rewrite !Hall. reflexivity.
Qed.

(* after the end: Map asks its exhausted source again; a source that agrees on the first two
   answers (the item, the end) is the same source *)
Theorem necessity_refuted_after_end :
  let C l := inl (ZMap (FnAffine 1 0) never_fails (ZSrc 0 (SSlice l))) in
  pulls_in (run_iter (C [7]) (ksteps 3)) 0 = 3%nat /\ ~ needed current_cfg C 0 [7] 3.
Proof.
  intros C. split; [vm_compute; reflexivity|].
  intros Hn. destruct (Hn ltac:(vm_compute; lia)) as (l' & Ha & Hd).
  assert (Hp : pulls_in (run_iter_cfg current_cfg (C [7]) (ksteps 3)) 0 = 3%nat)
    by (vm_compute; reflexivity).
  rewrite Hp in Ha. apply Hd.
  assert (Hl : l' = [7]).
  { pose proof (Ha 0%nat ltac:(lia)) as H0. pose proof (Ha 1%nat ltac:(lia)) as H1.
    simpl in H0, H1. destruct l' as [|a [|b t]]; simpl in *; try discriminate; congruence. }
  rewrite Hl. reflexivity.
Qed.

(* ---- 2. necessity for the single combinators ---- *)
Section NeedMap.
  Variables (cfg : config) (id : nat).

  Theorem map_needed g fl l k :
    cb_panics fl = false ->
    (1 <= k <= length l + 1)%nat ->
    needed cfg (fun l => inl (ZMap g fl (ZSrc id (SSlice l)))) id l k.
  Proof.
    intros Hfl Hk. unfold needed, pulls_in.
    rewrite (proj1 (map_pulls_exact id cfg g fl l k Hfl)). intros _.
    destruct (Nat.leb_spec k (length l)) as [Hle|Hgt].
    - exists (firstn (k - 1) l). split; [apply agree_firstn|].
      rewrite (proj2 (map_pulls_exact id cfg g fl _ k Hfl)), (proj2 (map_pulls_exact id cfg g fl l k Hfl)).
      apply (expectZ_len_neq _ _ k (k - 1)); [lia|]. left.
      rewrite !map_length, firstn_length. lia.
    - assert (k = S (length l)) by lia. subst k. exists (l ++ [0]).
      replace (S (length l) - 1)%nat with (length l) by lia. split; [apply agree_snoc|].
      rewrite (proj2 (map_pulls_exact id cfg g fl _ _ Hfl)), (proj2 (map_pulls_exact id cfg g fl l _ Hfl)).
      apply (expectZ_len_neq _ _ _ (length l)); [lia|]. right.
      rewrite !map_length, app_length. simpl. lia.
  Qed.

  Theorem peek_needed l k :
    (1 <= k <= length l + 1)%nat ->
    needed cfg (fun l => inl (ZPeek (ZSrc id (SSlice l)))) id l k.
  Proof.
    intros Hk. unfold needed, pulls_in.
    rewrite (proj1 (peek_pulls_exact id cfg l k)). intros _.
    destruct (Nat.leb_spec k (length l)) as [Hle|Hgt].
    - exists (firstn (k - 1) l). split; [apply agree_firstn|].
      rewrite (proj2 (peek_pulls_exact id cfg _ k)), (proj2 (peek_pulls_exact id cfg l k)).
      apply (expectZ_len_neq _ _ k (k - 1)); [lia|]. left. rewrite firstn_length. lia.
    - assert (k = S (length l)) by lia. subst k. exists (l ++ [0]).
      replace (S (length l) - 1)%nat with (length l) by lia. split; [apply agree_snoc|].
      rewrite (proj2 (peek_pulls_exact id cfg _ _)), (proj2 (peek_pulls_exact id cfg l _)).
      apply (expectZ_len_neq _ _ _ (length l)); [lia|]. right. rewrite app_length. simpl. lia.
  Qed.

  Theorem first_needed n l k :
    (k <= Nat.min (Z.to_nat n) (length l) + 1)%nat ->
    needed cfg (fun l => inl (ZFirst n (ZSrc id (SSlice l)))) id l k.
  Proof.
    intros Hk. unfold needed, pulls_in.
    rewrite (proj1 (first_pulls_exact id cfg n l k)). intros Hn.
    set (M := Z.to_nat n) in *.
    destruct (Nat.leb_spec k M) as [HkM|HkM].
    - replace (Nat.min k M) with k by lia.
      destruct (Nat.leb_spec k (length l)) as [Hle|Hgt].
      + exists (firstn (k - 1) l). split; [apply agree_firstn|].
        rewrite (proj2 (first_pulls_exact id cfg n _ k)), (proj2 (first_pulls_exact id cfg n l k)).
        apply (expectZ_len_neq _ _ k (k - 1)); [lia|]. left. fold M.
        rewrite !firstn_length. lia.
      + assert (k = S (length l)) by lia. subst k. exists (l ++ [0]).
        replace (S (length l) - 1)%nat with (length l) by lia. split; [apply agree_snoc|].
        rewrite (proj2 (first_pulls_exact id cfg n _ _)), (proj2 (first_pulls_exact id cfg n l _)).
        apply (expectZ_len_neq _ _ _ (length l)); [lia|]. right. fold M.
        rewrite !firstn_length, app_length. simpl. lia.
    - replace (Nat.min k M) with M in * by lia.
      exists (firstn (M - 1) l). split; [apply agree_firstn|].
      rewrite (proj2 (first_pulls_exact id cfg n _ k)), (proj2 (first_pulls_exact id cfg n l k)).
      apply (expectZ_len_neq _ _ k (M - 1)); [lia|]. left. fold M.
      rewrite !firstn_length. lia.
  Qed.
End NeedMap.

(* ---- Filter ---- *)
Section NeedFilter.
  Variables (cfg : config) (id : nat) (keep : pred).
  Notation kp := (pred_eval keep).

  Lemma filter_pos_0 l : filter_pos keep l 0 = O.
  Proof. destruct l; reflexivity. Qed.

  (* the k-th kept item is the last one read by k calls *)
  Lemma filter_pos_item : forall l k, (1 <= k <= length (filter kp l))%nat ->
    (1 <= filter_pos keep l k <= length l)%nat /\
    length (filter kp (firstn (filter_pos keep l k - 1) l)) = (k - 1)%nat.
  Proof.
    induction l as [|x t IH]; intros k Hk; [simpl in Hk; lia|].
    destruct k as [|k]; [lia|]. cbn [filter_pos]. cbn [filter] in Hk.
    destruct (kp x) eqn:Ex.
    - cbn [length] in Hk. destruct k as [|k].
      + rewrite filter_pos_0. simpl. split; [lia|reflexivity].
      + destruct (IH (S k) ltac:(lia)) as [H1 H2]. split; [simpl; lia|].
        replace (S (filter_pos keep t (S k)) - 1)%nat with (S (filter_pos keep t (S k) - 1)) by lia.
        cbn [firstn filter]. rewrite Ex. cbn [length]. rewrite H2. lia.
    - destruct (IH (S k) Hk) as [H1 H2]. split; [simpl; lia|].
      replace (S (filter_pos keep t (S k)) - 1)%nat with (S (filter_pos keep t (S k) - 1)) by lia.
      cbn [firstn filter]. rewrite Ex. exact H2.
  Qed.

  Lemma filter_pos_end : forall l, filter_pos keep l (S (length (filter kp l))) = S (length l).
  Proof.
    induction l as [|x t IH]; [reflexivity|]. cbn [filter]. destruct (kp x) eqn:Ex.
    - cbn [length filter_pos]. rewrite Ex, IH. reflexivity.
    - cbn [filter_pos]. rewrite Ex, IH. reflexivity.
  Qed.

  Theorem filter_needed fl l k :
    cb_panics fl = false ->
    (exists y, kp y = true) ->
    (1 <= k <= length (filter kp l) + 1)%nat ->
    needed cfg (fun l => inl (ZFilter keep fl (ZSrc id (SSlice l)))) id l k.
  Proof.
    intros Hfl [y Hy] Hk. unfold needed, pulls_in.
    rewrite (proj1 (filter_pulls_all id keep fl Hfl cfg l k)). intros _.
    destruct (Nat.leb_spec k (length (filter kp l))) as [Hle|Hgt].
    - destruct (filter_pos_item l k ltac:(lia)) as [H1 H2].
      exists (firstn (filter_pos keep l k - 1) l). split; [apply agree_firstn|].
      rewrite (proj2 (filter_pulls_all id keep fl Hfl cfg _ k)),
              (proj2 (filter_pulls_all id keep fl Hfl cfg l k)).
      apply (expectZ_len_neq _ _ k (k - 1)); [lia|]. left. rewrite H2. lia.
    - assert (k = S (length (filter kp l))) by lia. subst k. rewrite filter_pos_end.
      exists (l ++ [y]). replace (S (length l) - 1)%nat with (length l) by lia.
      split; [apply agree_snoc|].
      rewrite (proj2 (filter_pulls_all id keep fl Hfl cfg _ _)),
              (proj2 (filter_pulls_all id keep fl Hfl cfg l _)).
      apply (expectZ_len_neq _ _ _ (length (filter kp l))); [lia|]. right.
      rewrite filter_app, app_length. simpl. rewrite Hy. simpl. lia.
  Qed.
End NeedFilter.

(* ---- While ---- *)
Section NeedWhile.
  Variables (cfg : config) (id : nat) (f : pred).
  Notation fp := (pred_eval f).

  Lemma takewhile_firstn : forall (l : list Z) j, (j <= length (takewhile fp l))%nat ->
    takewhile fp (firstn j l) = firstn j l.
  Proof.
    induction l as [|x t IH]; intros j Hj; [destruct j; reflexivity|].
    destruct j as [|j]; [reflexivity|]. cbn [takewhile] in Hj. cbn [firstn takewhile].
    destruct (fp x); [|simpl in Hj; lia]. cbn [length] in Hj. rewrite IH by lia. reflexivity.
  Qed.

  Lemma takewhile_prefix : forall l : list Z,
    takewhile fp l = firstn (length (takewhile fp l)) l.
  Proof.
    induction l as [|x t IH]; [reflexivity|]. cbn [takewhile]. destruct (fp x); [|reflexivity].
    cbn [length firstn]. rewrite <- IH. reflexivity.
  Qed.

  Lemma takewhile_snoc : forall (l : list Z) y, fp y = true ->
    takewhile fp (takewhile fp l ++ [y]) = takewhile fp l ++ [y].
  Proof.
    induction l as [|x t IH]; intros y Hy; [simpl; rewrite Hy; reflexivity|].
    cbn [takewhile]. destruct (fp x) eqn:Ex; [|simpl; rewrite Hy; reflexivity].
    cbn [app takewhile]. rewrite Ex, IH by exact Hy. reflexivity.
  Qed.

  Lemma takewhile_length_le (l : list Z) : (length (takewhile fp l) <= length l)%nat.
  Proof. induction l as [|x t IH]; simpl; [lia|]. destruct (fp x); simpl; lia. Qed.

  Theorem while_needed fl l k :
    cb_panics fl = false ->
    (exists y, fp y = true) ->
    (1 <= k <= length (takewhile fp l) + 1)%nat ->
    needed cfg (fun l => inl (ZWhile f fl (ZSrc id (SSlice l)))) id l k.
  Proof.
    intros Hfl [y Hy] Hk. unfold needed, pulls_in.
    rewrite (proj1 (while_pulls_exact id f cfg fl l k Hfl)). intros _.
    set (t := length (takewhile fp l)) in *.
    assert (Hn : while_pulls f l k = k).
    { unfold while_pulls. fold t. destruct (t <? length l)%nat; lia. }
    rewrite Hn. pose proof (takewhile_length_le l) as Htl. fold t in Htl.
    destruct (Nat.leb_spec k t) as [Hle|Hgt].
    - exists (firstn (k - 1) l). split; [apply agree_firstn|].
      rewrite (proj2 (while_pulls_exact id f cfg fl _ k Hfl)),
              (proj2 (while_pulls_exact id f cfg fl l k Hfl)).
      apply (expectZ_len_neq _ _ k (k - 1)); [lia|]. left.
      rewrite takewhile_firstn by (fold t; lia). rewrite firstn_length. fold t. lia.
    - assert (k = S t) by lia. subst k. exists (takewhile fp l ++ [y]).
      replace (S t - 1)%nat with t by lia. split.
      + rewrite takewhile_prefix at 1. fold t. intros i Hi.
        rewrite nth_error_app1 by (rewrite firstn_length; lia).
        symmetry. apply nth_error_firstn_lt. exact Hi.
      + rewrite (proj2 (while_pulls_exact id f cfg fl _ _ Hfl)),
                (proj2 (while_pulls_exact id f cfg fl l _ Hfl)).
        apply (expectZ_len_neq _ _ _ t); [lia|]. right.
        rewrite takewhile_snoc by exact Hy. rewrite app_length. fold t. simpl. lia.
  Qed.
End NeedWhile.

(* ---- Compact ---- *)
Section NeedCompact.
  Variables (cfg : config) (id : nat) (r : rel).
  Notation eqv := (rel_eval r).
  Notation cf := (compact_from (rel_eval r)).

  Lemma cpos_from_0' prev l : cpos_from r prev l 0 = O.
  Proof. destruct l; reflexivity. Qed.

  Lemma cpos_from_item : forall t prev k, (1 <= k <= length (cf prev t))%nat ->
    (1 <= cpos_from r prev t k <= length t)%nat /\
    length (cf prev (firstn (cpos_from r prev t k - 1) t)) = (k - 1)%nat.
  Proof.
    induction t as [|x t IH]; intros prev k Hk; [simpl in Hk; lia|].
    destruct k as [|k]; [lia|]. cbn [cpos_from]. cbn [compact_from] in Hk.
    destruct (eqv prev x) eqn:Ex.
    - destruct (IH prev (S k) Hk) as [H1 H2]. split; [simpl; lia|].
      replace (S (cpos_from r prev t (S k)) - 1)%nat
        with (S (cpos_from r prev t (S k) - 1)) by lia.
      cbn [firstn compact_from]. rewrite Ex. exact H2.
    - cbn [length] in Hk. destruct k as [|k].
      + rewrite cpos_from_0'. simpl. split; [lia|reflexivity].
      + destruct (IH x (S k) ltac:(lia)) as [H1 H2]. split; [simpl; lia|].
        replace (S (cpos_from r x t (S k)) - 1)%nat with (S (cpos_from r x t (S k) - 1)) by lia.
        cbn [firstn compact_from]. rewrite Ex. cbn [length]. rewrite H2. lia.
  Qed.

  Lemma cpos_from_end : forall t prev, cpos_from r prev t (S (length (cf prev t))) = S (length t).
  Proof.
    induction t as [|x t IH]; intros prev; [reflexivity|]. cbn [compact_from cpos_from].
    destruct (eqv prev x) eqn:Ex.
    - rewrite IH. reflexivity.
    - cbn [length]. rewrite IH. reflexivity.
  Qed.

  Lemma last_default_irrelevant : forall (l : list Z) a d1 d2, last (a :: l) d1 = last (a :: l) d2.
  Proof.
    induction l as [|b l IH]; intros a d1 d2; [reflexivity|].
    change (last (a :: b :: l) d1) with (last (b :: l) d1).
    change (last (a :: b :: l) d2) with (last (b :: l) d2). apply IH.
  Qed.

  (* appending an item that is not equivalent to the last item kept *)
  Lemma cf_snoc : forall t prev y, eqv (last (cf prev t) prev) y = false ->
    cf prev (t ++ [y]) = cf prev t ++ [y].
  Proof.
    induction t as [|x t IH]; intros prev y Hy.
    - simpl in *. rewrite Hy. reflexivity.
    - cbn [app compact_from] in *. destruct (eqv prev x) eqn:Ex.
      + apply IH. exact Hy.
      + cbn [app]. f_equal. apply IH.
        destruct (cf x t) as [|z u] eqn:Ec; [exact Hy|].
        change (last (x :: z :: u) prev) with (last (z :: u) prev) in Hy.
        rewrite (last_default_irrelevant u z x prev). exact Hy.
  Qed.

  Theorem compact_needed l k :
    (forall x, exists y, eqv x y = false) ->
    (1 <= k <= length (spec_compact eqv l) + 1)%nat ->
    needed cfg (fun l => inl (ZCompact r (ZSrc id (SSlice l)))) id l k.
  Proof.
    intros Hnt Hk. unfold needed, pulls_in.
    rewrite (proj1 (compact_pulls_exact id r cfg l k)). intros _.
    destruct l as [|x t].
    - (* empty source: the only call reads the end *)
      simpl in Hk. assert (k = 1%nat) by lia. subst k. exists [0]. split; [intros i Hi; simpl in Hi; lia|].
      rewrite (proj2 (compact_pulls_exact id r cfg _ _)), (proj2 (compact_pulls_exact id r cfg [] _)).
      apply (expectZ_len_neq _ _ _ 0%nat); [lia|]. right. simpl. lia.
    - cbn [spec_compact length] in Hk. destruct k as [|k]; [lia|]. cbn [compact_pos].
      destruct (Nat.leb_spec (S k) (S (length (cf x t)))) as [Hle|Hgt].
      + (* the k-th item yielded is the last item read *)
        exists (firstn (cpos_from r x t k) (x :: t)).
        replace (S (cpos_from r x t k) - 1)%nat with (cpos_from r x t k) by lia.
        split; [apply agree_firstn|].
        rewrite (proj2 (compact_pulls_exact id r cfg _ _)),
                (proj2 (compact_pulls_exact id r cfg (x :: t) _)).
        apply (expectZ_len_neq _ _ _ k); [lia|]. left.
        destruct k as [|k].
        * rewrite cpos_from_0'. simpl. lia.
        * destruct (cpos_from_item t x (S k) ltac:(lia)) as [H1 H2].
          destruct (cpos_from r x t (S k)) as [|c] eqn:Ec; [lia|].
          replace (S c - 1)%nat with c in H2 by lia.
          cbn [firstn spec_compact length]. rewrite H2. lia.
      + (* the call that reports the end *)
        assert (k = S (length (cf x t))) by lia. subst k. rewrite cpos_from_end.
        destruct (Hnt (last (cf x t) x)) as [y Hy].
        exists ((x :: t) ++ [y]).
        replace (S (S (length t)) - 1)%nat with (length (x :: t)) by (simpl; lia).
        split; [apply agree_snoc|].
        rewrite (proj2 (compact_pulls_exact id r cfg _ _)),
                (proj2 (compact_pulls_exact id r cfg (x :: t) _)).
        apply (expectZ_len_neq _ _ _ (S (length (cf x t)))); [lia|]. right.
        cbn [app spec_compact length]. rewrite cf_snoc by exact Hy. rewrite app_length. simpl. lia.
  Qed.
End NeedCompact.

(* ---- Chunk ---- *)
From Juniper Require Import Iter.XSlices.

Lemma expectL_neq (D1 D2 : list (list Z)) k j :
  (j < k)%nat ->
  option_map (@length Z) (nth_error D1 j) <> option_map (@length Z) (nth_error D2 j) ->
  expect (map IL D1) k <> expect (map IL D2) k.
Proof.
  intros Hj Hl He. apply Hl. apply (f_equal (fun r => nth_error r j)) in He.
  rewrite !nth_expect in He by exact Hj. rewrite !nth_error_map in He.
  destruct (nth_error D1 j); destruct (nth_error D2 j); simpl in *; congruence.
Qed.

Lemma skipn_skipn' {A} : forall a b (l : list A), skipn a (skipn b l) = skipn (a + b) l.
Proof.
  intros a b. revert a. induction b as [|b IH]; intros a l.
  - rewrite Nat.add_0_r. reflexivity.
  - destruct l as [|x t]; [rewrite !skipn_nil; reflexivity|].
    replace (a + S b)%nat with (S (a + b)) by lia. simpl. apply IH.
Qed.

Section NeedChunk.
  Variables (cfg : config) (id : nat) (n : Z).
  Hypothesis Hn : 1 <= n.
  Let N := Z.to_nat n.

  (* the j-th chunk *)
  Lemma chunk_nth : forall j (l : list Z),
    nth_error (spec_chunk n l) j
    = if (j * N <? length l)%nat then Some (firstn N (skipn (j * N) l)) else None.
  Proof.
    assert (HN : (1 <= N)%nat) by (unfold N; lia).
    induction j as [|j IH]; intros l.
    - destruct l as [|x t]; [reflexivity|].
      rewrite (spec_chunk_unfold n (x :: t) Hn ltac:(discriminate)). reflexivity.
    - destruct l as [|x t]; [reflexivity|].
      rewrite (spec_chunk_unfold n (x :: t) Hn ltac:(discriminate)). fold N.
      cbn [nth_error]. rewrite IH, skipn_length, skipn_skipn'.
      replace (j * N + N)%nat with (S j * N)%nat by lia.
      destruct (Nat.ltb_spec (j * N) (length (x :: t) - N));
        destruct (Nat.ltb_spec (S j * N) (length (x :: t))); try reflexivity; lia.
  Qed.

  Theorem chunk_needed l k :
    (1 <= k <= length l / N + 1)%nat ->
    needed cfg (fun l => inr (LChunk n (ZSrc id (SSlice l)))) id l k.
  Proof.
    assert (HN : (1 <= N)%nat) by (unfold N; lia).
    intros Hk. unfold needed, pulls_in.
    rewrite (proj1 (chunk_pulls_exact id n Hn cfg l k)). intros _.
    unfold chunk_pulls. fold N. set (m := (length l / N)%nat) in *.
    assert (Hm1 : (m * N <= length l)%nat) by (unfold m; rewrite Nat.mul_comm; apply Nat.mul_div_le; lia).
    assert (Hm2 : (length l < S m * N)%nat)
      by (unfold m; rewrite Nat.mul_comm; apply Nat.mul_succ_div_gt; lia).
    destruct (Nat.leb_spec k m) as [Hle|Hgt].
    - (* a full chunk: its last item is the last item read *)
      assert (HkN : (k * N <= m * N)%nat) by (apply Nat.mul_le_mono_r; exact Hle).
      assert (HkN1 : (1 <= k * N)%nat) by nia.
      exists (firstn (k * N - 1) l). split; [apply agree_firstn|].
      rewrite (proj2 (chunk_pulls_exact id n Hn cfg _ k)),
              (proj2 (chunk_pulls_exact id n Hn cfg l k)).
      apply (expectL_neq _ _ k (k - 1)); [lia|]. rewrite !chunk_nth. fold N.
      rewrite firstn_length.
      assert (Hk1 : ((k - 1) * N + N = k * N)%nat) by nia.
      replace (Nat.min (k * N - 1) (length l)) with (k * N - 1)%nat by lia.
      destruct (Nat.ltb_spec ((k - 1) * N) (length l)); [|lia].
      destruct (Nat.ltb_spec ((k - 1) * N) (k * N - 1)); simpl.
      + rewrite !firstn_length, !skipn_length, firstn_length. intros He. injection He as He. lia.
      + discriminate.
    - (* the call that reads the end *)
      assert (k = S m) by lia. subst k. exists (l ++ [0]).
      replace (length l + (S m - m) - 1)%nat with (length l) by lia.
      split; [apply agree_snoc|].
      rewrite (proj2 (chunk_pulls_exact id n Hn cfg _ _)),
              (proj2 (chunk_pulls_exact id n Hn cfg l _)).
      apply (expectL_neq _ _ _ m); [lia|]. rewrite !chunk_nth. fold N.
      rewrite app_length. cbn [length].
      destruct (Nat.ltb_spec (m * N) (length l + 1)); [|lia].
      destruct (Nat.ltb_spec (m * N) (length l)); simpl.
      + rewrite !firstn_length, !skipn_length, app_length. cbn [length]. intros He.
        injection He as He. lia.
      + discriminate.
  Qed.
End NeedChunk.

(* non-vacuity *)
Example needed_demo :
  needed current_cfg (fun l => inl (ZFilter (PrModEq 2 0) never_fails (ZSrc 0 (SSlice l)))) 0
         [1; 2; 3; 4; 5] 2 /\
  pulls_in (run_iter (inl (ZFilter (PrModEq 2 0) never_fails (ZSrc 0 (SSlice [1; 2; 3; 4; 5]))))
                     (ksteps 2)) 0 = 4%nat.
Proof.
  split; [|vm_compute; reflexivity].
  apply filter_needed; [reflexivity|exists 0; reflexivity|simpl; lia].
Qed.
