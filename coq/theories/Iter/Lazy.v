(* Laziness (C07): exact accounting of the Next calls a combinator makes on its source, per call.
   The source is iterator.Slice: [slice_nx id] is its instrumented Next. *)
From Juniper Require Import Common.Base Iter.Syntax Iter.Config Iter.ModelBase Iter.IterModel
  Iter.StreamModel Iter.Spec Iter.Contract Iter.IterProofs.

Definition slice_nx (id : nat) (a : list Z) : ret Z (list Z) :=
  match a with
  | [] => (End, [], [SevNext id])
  | x :: t => (Item x, t, [SevNext id])
  end.

(* the instrumented Slice source of the model is slice_nx *)
Lemma inext_slice f id a :
  inext (S f) (ISrc id (ISlice a)) =
  let '(o, a', ev) := slice_nx id a in (o, ISrc id (ISlice a'), ev).
Proof. destruct a; reflexivity. Qed.

Notation pulls id k := (repeat (SevNext id) k).

(* Filter: one call pulls the rejected items in front of the item it returns, and that item -
   nothing behind it; at the end: everything left, and the end *)
Lemma ifilter_lazy id keep fl : cb_panics fl = false -> forall n calls a o calls' a' ev,
  (length a < n)%nat -> ifilter (slice_nx id) n keep fl calls a = (o, (calls', a'), ev) ->
  match o with
  | Item x => exists pre, a = pre ++ x :: a' /\ forallb (fun y => negb (pred_eval keep y)) pre = true
                          /\ pred_eval keep x = true /\ ev = pulls id (length pre + 1)
  | End => forallb (fun y => negb (pred_eval keep y)) a = true /\ a' = [] /\
           ev = pulls id (length a + 1)
  | _ => False
  end.
Proof.
  intros Hfl. induction n as [|n IH]; intros calls a o calls' a' ev Hn Hc; [lia|]. simpl in Hc.
  destruct a as [|x t]; simpl in Hc.
  - inv_ret Hc. auto.
  - rewrite (panics_now_false fl calls Hfl) in Hc. destruct (pred_eval keep x) eqn:Ek.
    + inv_ret Hc. exists []. simpl. auto.
    + destruct (ifilter (slice_nx id) n keep fl (S calls) t) as [[o2 [c2 a2]] ev2] eqn:E2.
      simpl in Hc.
      inv_ret Hc. specialize (IH _ t _ _ _ _ ltac:(simpl in Hn; lia) E2).
      destruct o as [y| | | |]; auto.
      * destruct IH as (pre & Ha & Hp & Hk & He). exists (x :: pre). simpl.
        rewrite Ek, Hp, Ha, He. auto.
      * destruct IH as (Hp & Ha & He). simpl. rewrite Ek, Hp, He. auto.
Qed.

(* First n: a call pulls one item while the budget lasts and nothing afterwards *)
Lemma ifirst_lazy id x a o x' a' ev :
  ifirst (slice_nx id) x a = (o, (x', a'), ev) ->
  if x <=? 0 then o = End /\ ev = [] /\ a' = a
  else ev = pulls id 1 /\ x' = x - 1 /\
       match a with [] => o = End | y :: t => o = Item y /\ a' = t end.
Proof.
  unfold ifirst. destruct (x <=? 0).
  - intros Hc. inv_ret Hc. auto.
  - destruct a as [|y t]; simpl; intros Hc; inv_ret Hc; auto.
Qed.

(* Map, While: exactly one pull per call (While: none once it is done) - also when the callback
   panics *)
Lemma imap_lazy id f fl calls a o calls' a' ev :
  imap (slice_nx id) f fl calls a = (o, (calls', a'), ev) -> ev = pulls id 1.
Proof.
  unfold imap. destruct a as [|y t]; simpl; [|destruct (panics_now fl calls)];
    intros Hc; inv_ret Hc; reflexivity.
Qed.

Lemma iwhile_lazy id f fl calls done a o calls' done' a' ev :
  iwhile (slice_nx id) f fl calls done a = (o, (calls', done', a'), ev) ->
  ev = if done then [] else pulls id 1.
Proof.
  unfold iwhile. destruct done; [intros Hc; inv_ret Hc; reflexivity|].
  destruct a as [|y t]; simpl; [intros Hc; inv_ret Hc; reflexivity|].
  destruct (panics_now fl calls); [intros Hc; inv_ret Hc; reflexivity|].
  destruct (pred_eval f y); intros Hc; inv_ret Hc; reflexivity.
Qed.

(* Compact: the duplicates in front of the returned item, and that item *)
Lemma icompact_lazy id r : forall n first prev a o first' prev' a' ev,
  (length a < n)%nat -> icompact (slice_nx id) n r first prev a = (o, (first', prev', a'), ev) ->
  match o with
  | Item x => exists pre, a = pre ++ x :: a' /\
                          (first = true -> pre = []) /\
                          forallb (fun y => rel_eval r prev y) pre = true /\
                          ev = pulls id (length pre + 1) /\ prev' = x
  | End => a' = [] /\ ev = pulls id (length a + 1)
  | _ => False
  end.
Proof.
  induction n as [|n IH]; intros first prev a o first' prev' a' ev Hn Hc; [lia|].
  simpl in Hc. destruct a as [|x t]; simpl in Hc.
  - inv_ret Hc. auto.
  - destruct first.
    + inv_ret Hc. exists []. simpl. auto.
    + destruct (negb (rel_eval r prev x)) eqn:Er.
      * inv_ret Hc. exists []. simpl. split; [reflexivity|]. split; [discriminate|]. auto.
      * apply negb_false_iff in Er.
        destruct (icompact (slice_nx id) n r false prev t) as [[o2 [[f2 p2] a2]] ev2] eqn:E2.
        simpl in Hc. inv_ret Hc. specialize (IH _ _ t _ _ _ _ _ ltac:(simpl in Hn; lia) E2).
        destruct o as [y| | | |]; auto.
        -- destruct IH as (pre & Ha & _ & Hp & He & Hpv). exists (x :: pre). simpl.
           rewrite Er, Hp, Ha, He. split; [reflexivity|]. split; [discriminate|]. auto.
        -- destruct IH as (Ha & He). simpl. rewrite He. auto.
Qed.

(* Chunk size: a call pulls exactly the items of the chunk it returns; one more call (the end)
   only when the source ends inside or right after a chunk *)
Lemma ichunk_loop_lazy id size : forall n chunk a o a' ev,
  (length a < n)%nat -> zlen chunk < size ->
  ichunk_loop (slice_nx id) n size chunk a = (o, a', ev) ->
  match o with
  | Item l => exists taken, l = chunk ++ taken /\ a = taken ++ a' /\
                (zlen l = size /\ ev = pulls id (length taken)
                 \/ zlen l < size /\ a' = [] /\ ev = pulls id (length taken + 1))
  | End => chunk = [] /\ a = [] /\ ev = pulls id 1
  | _ => False
  end.
Proof.
  induction n as [|n IH]; intros chunk a o a' ev Hn Hsz Hc; [lia|]. simpl in Hc.
  destruct a as [|x t]; simpl in Hc.
  - destruct (0 <? zlen chunk) eqn:Ez; inv_ret Hc.
    + exists []. rewrite app_nil_r. split; [reflexivity|]. split; [reflexivity|]. right. auto.
    + destruct chunk as [|c0 ch]; [auto|].
      rewrite zlen_cons in Ez. apply Z.ltb_ge in Ez. pose proof (zlen_nonneg ch). lia.
  - destruct (zlen (chunk ++ [x]) =? size) eqn:Ez.
    + apply Z.eqb_eq in Ez. inv_ret Hc. exists [x]. auto.
    + apply Z.eqb_neq in Ez.
      destruct (ichunk_loop (slice_nx id) n size (chunk ++ [x]) t) as [[o2 a2] ev2] eqn:E2.
      simpl in Hc. inv_ret Hc.
      assert (Hsz' : zlen (chunk ++ [x]) < size).
      { rewrite zlen_app in *. unfold zlen in *. simpl in *. lia. }
      specialize (IH _ t _ _ _ ltac:(simpl in Hn; lia) Hsz' E2).
      destruct o as [l| | | |]; auto.
      * destruct IH as (taken & Hl & Ha & Hcase). exists (x :: taken).
        rewrite Hl, <- app_assoc. split; [reflexivity|]. split; [simpl; rewrite Ha; reflexivity|].
        rewrite Hl, <- app_assoc in Hcase. simpl in *.
        destruct Hcase as [[H1 H2]|(H1 & H2 & H3)]; [left|right]; rewrite ?H2, ?H3; auto.
      * destruct IH as (Hx & _). apply app_eq_nil in Hx. destruct Hx; discriminate.
Qed.

(* Join / Flatten: while the current inner iterator still has items, a call touches no other one *)
Lemma ijoin_lazy {St} (nx : St -> ret Z St) n c tl x c' ev :
  nx c = (Item x, c', ev) -> ijoin nx (S n) (c :: tl) = (Item x, c' :: tl, ev).
Proof. intros H. simpl. rewrite H. reflexivity. Qed.

Lemma iflatten_lazy {St} (nx : St -> ret Z St) n rest c x c' ev :
  nx c = (Item x, c', ev) -> iflatten nx (S n) rest (Some c) = (Item x, (rest, Some c'), ev).
Proof. intros H. simpl. rewrite H. reflexivity. Qed.

(* peekable used through Next only: no look-ahead at all *)
Lemma ipk_next_lazy id a o p' ev :
  ipk_next (slice_nx id) (mkPk false 0 a) = (o, p', ev) -> ev = pulls id 1 /\ pk_has p' = false.
Proof. unfold ipk_next. simpl. destruct a; simpl; intros Hc; inv_ret Hc; auto. Qed.

(* ---- nothing happens before the first Next: construction pulls nothing ---- *)
Theorem no_pull_before_next_iter cfg p :
  run_iter_cfg cfg p (Steps []) = mkRunObs [] [].
Proof. reflexivity. Qed.
Theorem no_pull_before_next_stream cfg p :
  run_stream_cfg cfg p (Steps []) = mkRunObs [] [].
Proof. reflexivity. Qed.

(* ---- cumulative pull count of Filter over a Slice, at run level ---- *)
(* length of the shortest prefix of l that contains k kept items (= index of the k-th kept
   item + 1) *)
Fixpoint kept_pos (keep : Z -> bool) (l : list Z) (k : nat) : nat :=
  match k with
  | O => O
  | S k' =>
      match l with
      | [] => O
      | x :: t => S (if keep x then kept_pos keep t k' else kept_pos keep t k)
      end
  end.

Lemma kept_pos_0 keep l : kept_pos keep l 0 = O.
Proof. destruct l; reflexivity. Qed.

Lemma ifilter_iso {S1 S2} (nx1 : S1 -> ret Z S1) (nx2 : S2 -> ret Z S2) (g : S1 -> S2) keep fl :
  (forall a, nx2 (g a) = let '(o, a', ev) := nx1 a in (o, g a', ev)) ->
  forall n calls a, ifilter nx2 n keep fl calls (g a)
                    = let '(o, (c', a'), ev) := ifilter nx1 n keep fl calls a in (o, (c', g a'), ev).
Proof.
  intros H. induction n as [|n IH]; intros calls a; simpl; [reflexivity|].
  rewrite H. destruct (nx1 a) as [[o a1] ev1]. destruct o as [x| | | |]; try reflexivity.
  destruct (panics_now fl calls); [reflexivity|].
  destruct (pred_eval keep x); [reflexivity|]. rewrite IH.
  destruct (ifilter nx1 n keep fl (S calls) a1) as [[o2 [c2 a2]] ev2]. reflexivity.
Qed.

Lemma count_next_pulls id k : count_next id (pulls id k) = k.
Proof.
  unfold count_next. induction k as [|k IH]; simpl; [reflexivity|].
  rewrite Nat.eqb_refl. simpl. rewrite IH. reflexivity.
Qed.
Lemma count_next_app id a b : count_next id (a ++ b) = (count_next id a + count_next id b)%nat.
Proof. unfold count_next. rewrite filter_app, app_length. reflexivity. Qed.

Lemma kept_pos_skip keep pre x t k :
  forallb (fun y => negb (keep y)) pre = true -> keep x = true ->
  kept_pos keep (pre ++ x :: t) (S k) = (length pre + 1 + kept_pos keep t k)%nat.
Proof.
  induction pre as [|y pre IH]; simpl; intros Hp Hk.
  - rewrite Hk. reflexivity.
  - apply andb_true_iff in Hp. destruct Hp as [Hy Hp]. apply negb_true_iff in Hy.
    rewrite Hy. simpl in IH. rewrite (IH Hp Hk). reflexivity.
Qed.

Lemma istep_filter_slice id keep fl calls a :
  istep (IFilter keep fl calls (ISrc id (ISlice a))) =
  let '(o, (c', a'), ev) := ifilter (slice_nx id) (S (S (S (length a)))) keep fl calls a in
  (o, IFilter keep fl c' (ISrc id (ISlice a')), ev).
Proof.
  unfold istep.
  change (isize (IFilter keep fl calls (ISrc id (ISlice a)))) with (S (S (length a))).
  change (inext (S (S (S (length a)))) (IFilter keep fl calls (ISrc id (ISlice a))))
    with (let '(o, (c', p'), ev) := ifilter (inext (S (S (length a)))) (S (S (S (length a)))) keep
                                      fl calls (ISrc id (ISlice a)) in
          (o, IFilter keep fl c' p', ev)).
  rewrite (ifilter_iso (slice_nx id) (inext (S (S (length a)))) (fun a => ISrc id (ISlice a))
                       keep fl (fun a0 => inext_slice (S (length a)) id a0)).
  destruct (ifilter (slice_nx id) (S (S (S (length a)))) keep fl calls a) as [[o [c1 a1]] ev1].
  reflexivity.
Qed.

(* after k Next calls that all find an item, Filter over Slice l has made exactly
   kept_pos keep l k calls of the source's Next: the index of the k-th kept item + 1 *)
Theorem filter_pulls_exact cfg id keep fl l k :
  cb_panics fl = false ->
  (k <= length (filter (pred_eval keep) l))%nat ->
  let run := run_iter_cfg cfg (inl (ZFilter keep fl (ZSrc id (SSlice l))))
                          (Steps (map CNext (repeat true k))) in
  count_next id (ro_log run) = kept_pos (pred_eval keep) l k /\
  results run = map (fun x => RItem (IZ x)) (firstn k (filter (pred_eval keep) l)).
Proof.
  intros Hfl Hk run. unfold run, run_iter_cfg, results. simpl.
  assert (Hgen : forall k calls a log,
    (k <= length (filter (pred_eval keep) a))%nat ->
    let '(steps, log') := irun_steps (sort_ids [id])
                                     (RZ (IFilter keep fl calls (ISrc id (ISlice a)))) log
                                     (map CNext (repeat true k)) in
    count_next id log' = (count_next id log + kept_pos (pred_eval keep) a k)%nat /\
    map so_res steps = map (fun x => RItem (IZ x)) (firstn k (filter (pred_eval keep) a))).
  { clear - Hfl. induction k as [|k IH]; intros calls a log Hk; simpl.
    - rewrite kept_pos_0. split; [lia|reflexivity].
    - rewrite istep_filter_slice.
      destruct (ifilter (slice_nx id) (S (S (S (length a)))) keep fl calls a)
        as [[o [c1 a1]] ev1] eqn:E.
      pose proof (ifilter_lazy id keep fl Hfl (S (S (S (length a)))) calls a o c1 a1 ev1
                               ltac:(lia) E) as Hl.
      destruct o as [x| | | |]; try (destruct Hl; fail).
      + destruct Hl as (pre & Ha & Hp & Hkx & Hev). simpl.
        assert (Hf : filter (pred_eval keep) a = x :: filter (pred_eval keep) a1).
        { rewrite Ha, filter_app. simpl. rewrite Hkx.
          assert (Hn : filter (pred_eval keep) pre = []).
          { clear - Hp. induction pre as [|y pre IH]; simpl in *; [reflexivity|].
            apply andb_true_iff in Hp. destruct Hp as [Hy Hp]. apply negb_true_iff in Hy.
            rewrite Hy. auto. }
          rewrite Hn. reflexivity. }
        rewrite Hf in Hk. simpl in Hk.
        specialize (IH c1 a1 (log ++ ev1) ltac:(lia)). change (sort_ids [id]) with [id] in *.
        destruct (irun_steps [id] (RZ (IFilter keep fl c1 (ISrc id (ISlice a1)))) (log ++ ev1)
                             (map CNext (repeat true k))) as [steps log'].
        destruct IH as [IH1 IH2]. split.
        * rewrite IH1, count_next_app, Hev, count_next_pulls, Ha.
          rewrite (kept_pos_skip (pred_eval keep) pre x a1 k Hp Hkx). lia.
        * simpl. rewrite Hf. simpl. f_equal. exact IH2.
      + destruct Hl as (Hp & _). exfalso.
        assert (Hn : filter (pred_eval keep) a = []).
        { clear - Hp. induction a as [|y a IH]; simpl in *; [reflexivity|].
          apply andb_true_iff in Hp. destruct Hp as [Hy Hp]. apply negb_true_iff in Hy.
          rewrite Hy. auto. }
        rewrite Hn in Hk. simpl in Hk. lia. }
  specialize (Hgen k O l [] Hk). change (sort_ids [id]) with [id] in *.
  destruct (irun_steps [id] (RZ (IFilter keep fl O (ISrc id (ISlice l)))) []
                       (map CNext (repeat true k))) as [steps log'].
  simpl. exact Hgen.
Qed.
