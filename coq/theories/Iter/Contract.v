(* The contract between a combinator and its inner iterator/stream, and the generic correctness
   lemma of every iterator combinator (and of the four transcriptions shared with streams):
   if the inner Next satisfies the contract for (den, fin, ok), the combinator's Next satisfies it
   for the combinator's own (den, fin, ok).

     den s : the items the state will still yield          fin s : the end has been reported
     ok s  : static well-formedness (chunk sizes >= 1, ...) preserved by every call
     ae    : whether calls may fail at all (false for iterators and for clean streams with a live
             context); a failed call must leave [den] unchanged. *)
From Juniper Require Import Common.Base Iter.Syntax Iter.ModelBase Iter.IterModel Iter.Spec.

Ltac inv_ret H := injection H as ? ? ?; subst.

Section Post.
  Context {A St : Type} (ae : bool).

  Definition post (den : St -> list A) (fin : St -> Prop) (s : St) (o : res A) (s' : St) : Prop :=
    match o with
    | Item x => den s = x :: den s'
    | End => den s = [] /\ den s' = [] /\ fin s'
    | Err _ => ae = true /\ den s' = den s
    | Pan => False
    | Out => True
    end.

  (* results a finished iterator may give *)
  Definition quiet (o : res A) : Prop :=
    match o with Item _ => False | Err _ => ae = true | Pan => False | _ => True end.

  Definition contract (nx : St -> ret A St) (den : St -> list A) (fin ok : St -> Prop) : Prop :=
    forall s o s' ev, ok s -> nx s = (o, s', ev) ->
      ok s' /\ post den fin s o s' /\ (fin s -> fin s' /\ quiet o).

  (* skipping over state that does not change the denotation *)
  Lemma post_shift den fin s1 s2 o s' :
    den s1 = den s2 -> post den fin s2 o s' -> post den fin s1 o s'.
  Proof.
    intros He Hp. destruct o; simpl in *; auto.
    - rewrite He; exact Hp.
    - rewrite He; exact Hp.
    - destruct Hp as [Ha Hd]. split; [exact Ha|]. rewrite Hd; auto.
  Qed.
End Post.

Lemma quiet_pass {A B} ae (o : res A) : quiet ae o -> quiet ae (@pass A B o).
Proof. destruct o; simpl; auto. Qed.

Lemma rel_refl r x : rel_eval r x x = true.
Proof. destruct r; simpl; apply Z.eqb_refl. Qed.

(* ---- list facts used by the combinator lemmas ---- *)
Lemma runs_from_char {A} (same : A -> A -> bool) x t :
  runs_from same x t = (takewhile (same x) t, spec_runs same (dropwhile (same x) t)).
Proof.
  revert x; induction t as [|y t IH]; intros x; simpl; [reflexivity|].
  destruct (same x y) eqn:E.
  - rewrite IH. reflexivity.
  - rewrite IH. simpl. rewrite IH. reflexivity.
Qed.

Lemma spec_runs_cons {A} (same : A -> A -> bool) x t :
  spec_runs same (x :: t) = (x :: takewhile (same x) t) :: spec_runs same (dropwhile (same x) t).
Proof. simpl. rewrite runs_from_char. reflexivity. Qed.

Lemma dropwhile_idem {A} (f : A -> bool) l : dropwhile f (dropwhile f l) = dropwhile f l.
Proof.
  induction l as [|x t IH]; simpl; [reflexivity|].
  destruct (f x) eqn:E; [exact IH|]. simpl. rewrite E. reflexivity.
Qed.

Lemma to_nat_pos x : 0 < x -> Z.to_nat x = S (Z.to_nat (x - 1)).
Proof. intros; lia. Qed.

(* a callback that never panics *)
Lemma panics_now_false fl calls : cb_panics fl = false -> panics_now fl calls = false.
Proof.
  unfold cb_panics, panics_now, fails_now. destruct (fail_panic fl); [|reflexivity].
  destruct (fail_at fl); simpl; [discriminate|reflexivity].
Qed.
Lemma never_panics_now calls : panics_now never_fails calls = false.
Proof. reflexivity. Qed.

Section Generic.
  Context {St : Type} (ae : bool) (nx : St -> ret Z St).
  Variables (den : St -> list Z) (fin ok : St -> Prop).
  Hypothesis Hnx : contract ae nx den fin ok.

  (* ---- peekable ---- *)
  Definition pkden (p : pk St) : list Z :=
    (if pk_has p then [pk_curr p] else []) ++ den (pk_in p).
  Definition pkfin (p : pk St) : Prop := pk_has p = false /\ fin (pk_in p).
  Definition pkok (p : pk St) : Prop := ok (pk_in p).

  Lemma ipk_next_ok : contract ae (ipk_next nx) pkden pkfin pkok.
  Proof.
    unfold contract. intros [has curr s] o p' ev Hok Hc.
    unfold ipk_next, pkden, pkfin, pkok in *. simpl in *.
    destruct has.
    - inv_ret Hc. simpl. split; [exact Hok|]. split; [reflexivity|].
      intros [Hh _]; discriminate.
    - destruct (nx s) as [[o1 s1] ev1] eqn:E. inv_ret Hc. simpl.
      destruct (Hnx _ _ _ _ Hok E) as (Hok1 & Hp & Hf).
      split; [exact Hok1|]. split.
      + destruct o; simpl in *; auto. destruct Hp as (H1 & H2 & H3); auto.
      + intros [_ Hfin]. destruct (Hf Hfin); auto.
  Qed.

  Lemma ipk_peek_ok p o p' ev :
    pkok p -> ipk_peek nx p = (o, p', ev) ->
    pkok p' /\ (pkfin p -> pkfin p' /\ quiet ae o) /\
    match o with
    | Item x => pkden p' = pkden p /\ pk_has p' = true /\ pk_curr p' = x
    | End => pkden p = [] /\ pkden p' = [] /\ pkfin p'
    | Err _ => ae = true /\ pkden p' = pkden p
    | Pan => False
    | Out => True
    end.
  Proof.
    destruct p as [has curr s]. intros Hok Hc. unfold ipk_peek, pkden, pkfin, pkok in *.
    simpl in *. destruct has.
    - inv_ret Hc. simpl. split; [exact Hok|]. split; [intros [Hh _]; discriminate|]. auto.
    - destruct (nx s) as [[o1 s1] ev1] eqn:E.
      destruct (Hnx _ _ _ _ Hok E) as (Hok1 & Hp & Hf).
      destruct o1; inv_ret Hc; simpl in *.
      + split; [exact Hok1|]. split; [|auto]. intros [_ Hfin]. destruct (Hf Hfin) as [_ []].
      + destruct Hp as (Hd & Hd' & Hfin). split; [exact Hok1|]. split; auto.
      + destruct Hp as [Hae Hd]. split; [exact Hok1|]. split; [|auto].
        intros [_ Hfin]; destruct (Hf Hfin); auto.
      + destruct Hp.
      + split; [exact Hok1|]. split; [|auto]. intros [_ Hfin]; destruct (Hf Hfin); auto.
  Qed.

  (* ---- Compact ---- *)
  Definition cden (r : rel) (w : bool * Z * St) : list Z :=
    let '(first, prev, s) := w in
    if first then spec_compact (rel_eval r) (den s) else compact_from (rel_eval r) prev (den s).
  Definition w3fin (w : bool * Z * St) : Prop := fin (snd w).
  Definition w3ok (w : bool * Z * St) : Prop := ok (snd w).

  Lemma icompact_ok n r :
    contract ae (fun w => let '(first, prev, s) := w in icompact nx n r first prev s)
             (cden r) w3fin w3ok.
  Proof.
    unfold contract, w3fin, w3ok.
    induction n as [|n IH]; intros [[first prev] s] o w' ev Hok Hc; simpl in *.
    - inv_ret Hc. simpl. auto.
    - destruct (nx s) as [[o1 s1] ev1] eqn:E.
      destruct (Hnx _ _ _ _ Hok E) as (Hok1 & Hp & Hf).
      destruct o1 as [x| | | |]; simpl in Hp.
      + assert (Hnf : fin s -> False) by (intros Hfin; destruct (Hf Hfin) as [_ []]).
        destruct first.
        * inv_ret Hc. simpl. rewrite Hp. simpl.
          split; [exact Hok1|]. split; [reflexivity|]. intros Hfin; destruct (Hnf Hfin).
        * destruct (negb (rel_eval r prev x)) eqn:Er.
          -- inv_ret Hc. simpl. rewrite Hp. simpl.
             apply negb_true_iff in Er. rewrite Er.
             split; [exact Hok1|]. split; [reflexivity|]. intros Hfin; destruct (Hnf Hfin).
          -- apply negb_false_iff in Er.
             destruct (icompact nx n r false prev s1) as [[o2 w2] ev2] eqn:E2.
             simpl in Hc. inv_ret Hc.
             destruct (IH (false, prev, s1) _ _ _ Hok1 E2) as (Hok2 & Hp2 & Hf2).
             split; [exact Hok2|]. split; [|intros Hfin; destruct (Hnf Hfin)].
             apply (post_shift ae (cden r) _ (false, prev, s) (false, prev, s1)); [|exact Hp2].
             simpl. rewrite Hp. simpl. rewrite Er. reflexivity.
      + inv_ret Hc. simpl. destruct Hp as (Hd & Hd' & Hfin). rewrite Hd, Hd'.
        split; [exact Hok1|]. split; [|auto].
        split; [destruct first; reflexivity|]. split; [destruct first; reflexivity|exact Hfin].
      + inv_ret Hc. simpl. destruct Hp as [Hae Hd]. rewrite Hd.
        split; [exact Hok1|]. split; [auto|].
        intros Hfin; destruct (Hf Hfin); auto.
      + destruct Hp.
      + inv_ret Hc. simpl. split; [exact Hok1|]. split; [auto|].
        intros Hfin; destruct (Hf Hfin); auto.
  Qed.
End Generic.

(* ---- the iterator combinators ---- *)
Section GenericIter.
  Context {St : Type} (ae : bool) (nx : St -> ret Z St).
  Variables (den : St -> list Z) (fin ok : St -> Prop).
  Hypothesis Hnx : contract ae nx den fin ok.

  Definition w2ok {B} (w : B * St) : Prop := ok (snd w).
  Definition w2fin {B} (w : B * St) : Prop := fin (snd w).

  (* Filter (a callback that never panics) *)
  Lemma ifilter_ok n keep fl : cb_panics fl = false ->
    contract ae (fun w => ifilter nx n keep fl (fst w) (snd w))
             (fun w => filter (pred_eval keep) (den (snd w))) w2fin w2ok.
  Proof.
    intros Hfl. unfold contract, w2fin, w2ok.
    induction n as [|n IH]; intros [calls s] o w' ev Hok Hc; simpl in *.
    - inv_ret Hc. simpl. auto.
    - destruct (nx s) as [[o1 s1] ev1] eqn:E.
      destruct (Hnx _ _ _ _ Hok E) as (Hok1 & Hp & Hf).
      destruct o1 as [x| | | |]; simpl in Hp.
      + assert (Hnf : fin s -> False) by (intros Hfin; destruct (Hf Hfin) as [_ []]).
        rewrite (panics_now_false fl calls Hfl) in Hc.
        destruct (pred_eval keep x) eqn:Ek.
        * inv_ret Hc. simpl. rewrite Hp. simpl. rewrite Ek.
          split; [exact Hok1|]. split; [reflexivity|]. intros Hfin; destruct (Hnf Hfin).
        * destruct (ifilter nx n keep fl (S calls) s1) as [[o2 w2] ev2] eqn:E2.
          simpl in Hc. inv_ret Hc.
          destruct (IH (S calls, s1) _ _ _ Hok1 E2) as (Hok2 & Hp2 & Hf2).
          split; [exact Hok2|]. split; [|intros Hfin; destruct (Hnf Hfin)].
          apply (post_shift ae (fun w : nat * St => filter (pred_eval keep) (den (snd w))) _
                            (calls, s) (S calls, s1)); [|exact Hp2].
          simpl. rewrite Hp. simpl. rewrite Ek. reflexivity.
      + inv_ret Hc. simpl. destruct Hp as (Hd & Hd' & Hfin). rewrite Hd, Hd'.
        split; [exact Hok1|]. split; auto.
      + inv_ret Hc. simpl. destruct Hp as [Hae Hd]. rewrite Hd.
        split; [exact Hok1|]. split; [auto|]. intros Hfin; destruct (Hf Hfin); auto.
      + destruct Hp.
      + inv_ret Hc. simpl. split; [exact Hok1|]. split; [auto|].
        intros Hfin; destruct (Hf Hfin); auto.
  Qed.

  (* Map *)
  Lemma imap_ok f fl : cb_panics fl = false ->
    contract ae (fun w => imap nx f fl (fst w) (snd w))
             (fun w => map (fn_eval f) (den (snd w))) w2fin w2ok.
  Proof.
    intros Hfl. unfold contract, imap, w2fin, w2ok. intros [calls s] o w' ev Hok Hc.
    simpl in *. destruct (nx s) as [[o1 s1] ev1] eqn:E.
    destruct (Hnx _ _ _ _ Hok E) as (Hok1 & Hp & Hf).
    destruct o1 as [x| | | |]; simpl in Hp;
      [rewrite (panics_now_false fl calls Hfl) in Hc| | | |]; inv_ret Hc; simpl.
    - rewrite Hp. split; [exact Hok1|]. split; [reflexivity|].
      intros Hfin; destruct (Hf Hfin) as [_ []].
    - destruct Hp as (Hd & Hd' & Hfin). rewrite Hd, Hd'. split; [exact Hok1|]. split; auto.
    - destruct Hp as [Hae Hd]. rewrite Hd. split; [exact Hok1|]. split; [auto|].
      intros Hfin; destruct (Hf Hfin); auto.
    - destruct Hp.
    - split; [exact Hok1|]. split; [auto|]. intros Hfin; destruct (Hf Hfin); auto.
  Qed.

  (* While; state (calls, done, inner) *)
  Definition wden (f : pred) (w : nat * bool * St) : list Z :=
    if snd (fst w) then [] else takewhile (pred_eval f) (den (snd w)).
  Definition wfin (w : nat * bool * St) : Prop := snd (fst w) = true \/ fin (snd w).

  Lemma iwhile_ok f fl : cb_panics fl = false ->
    contract ae (fun w => iwhile nx f fl (fst (fst w)) (snd (fst w)) (snd w)) (wden f) wfin w2ok.
  Proof.
    intros Hfl. unfold contract, iwhile, wden, wfin, w2ok.
    intros [[calls done] s] o w' ev Hok Hc. simpl in *.
    destruct done.
    - inv_ret Hc. simpl. split; [exact Hok|]. split; auto.
    - destruct (nx s) as [[o1 s1] ev1] eqn:E.
      destruct (Hnx _ _ _ _ Hok E) as (Hok1 & Hp & Hf).
      destruct o1 as [x| | | |]; simpl in Hp.
      + rewrite (panics_now_false fl calls Hfl) in Hc.
        destruct (pred_eval f x) eqn:Ef; inv_ret Hc; simpl.
        * rewrite Hp. simpl. rewrite Ef. split; [exact Hok1|]. split; [reflexivity|].
          intros [Hd|Hfin]; [discriminate|]. destruct (Hf Hfin) as [_ []].
        * rewrite Hp. simpl. rewrite Ef. split; [exact Hok1|]. split; auto.
      + inv_ret Hc. simpl. destruct Hp as (Hd & Hd' & Hfin). rewrite Hd, Hd'.
        split; [exact Hok1|]. split; auto.
      + inv_ret Hc. simpl. destruct Hp as [Hae Hd]. rewrite Hd.
        split; [exact Hok1|]. split; [auto|].
        intros [Hdn|Hfin]; [discriminate|]. destruct (Hf Hfin); auto.
      + destruct Hp.
      + inv_ret Hc. simpl. split; [exact Hok1|]. split; [auto|].
        intros [Hdn|Hfin]; [discriminate|]. destruct (Hf Hfin); auto.
  Qed.

  (* First (iterator: needs that calls cannot fail, since x is decremented before the call) *)
  Definition fden (w : Z * St) : list Z := firstn (Z.to_nat (fst w)) (den (snd w)).
  Definition ffin (w : Z * St) : Prop := fst w <= 0 \/ fin (snd w).

  Lemma ifirst_ok :
    ae = false -> contract ae (fun w => ifirst nx (fst w) (snd w)) fden ffin w2ok.
  Proof.
    intros Hae. unfold contract, ifirst, fden, ffin, w2ok. intros [x s] o w' ev Hok Hc.
    simpl in *. destruct (x <=? 0) eqn:Ex.
    - apply Z.leb_le in Ex. inv_ret Hc. simpl.
      replace (Z.to_nat x) with O by lia. simpl. split; [exact Hok|]. split; auto.
    - apply Z.leb_gt in Ex.
      destruct (nx s) as [[o1 s1] ev1] eqn:E. inv_ret Hc.
      destruct (Hnx _ _ _ _ Hok E) as (Hok1 & Hp & Hf). simpl.
      split; [exact Hok1|]. split.
      + destruct o as [y| | | |]; simpl in *; auto.
        * rewrite Hp. rewrite (to_nat_pos x Ex). reflexivity.
        * destruct Hp as (Hd & Hd' & Hfin). rewrite Hd, Hd'.
          rewrite !firstn_nil. auto.
        * destruct Hp as [Ha _]. congruence.
      + intros [Hx|Hfin]; [lia|]. destruct (Hf Hfin) as [Hfin' Hq]. auto.
  Qed.
End GenericIter.

Section GenericIter2.
  Context {St : Type} (ae : bool) (nx : St -> ret Z St).
  Variables (den : St -> list Z) (fin ok : St -> Prop).
  Hypothesis Hnx : contract ae nx den fin ok.

  (* Flatten *)
  Definition flden (w : list St * option St) : list Z :=
    (match snd w with Some c => den c | None => [] end) ++ concat (map den (fst w)).
  Definition flfin (w : list St * option St) : Prop := fst w = [] /\ snd w = None.
  Definition flok (w : list St * option St) : Prop :=
    Forall ok (fst w) /\ match snd w with Some c => ok c | None => True end.

  Lemma iflatten_ok n :
    contract ae (fun w => iflatten nx n (fst w) (snd w)) flden flfin flok.
  Proof.
    unfold contract, flden, flfin, flok.
    induction n as [|n IH]; intros [rest curr] o w' ev Hok Hc; simpl in *.
    - inv_ret Hc. simpl. auto.
    - destruct Hok as [Hokr Hokc]. destruct curr as [c|].
      + destruct (nx c) as [[o1 c1] ev1] eqn:E.
        destruct (Hnx _ _ _ _ Hokc E) as (Hok1 & Hp & Hf).
        assert (Hnf : rest = [] /\ Some c = None -> False) by (intros [_ Hx]; discriminate).
        destruct o1 as [x| | | |]; simpl in Hp.
        * inv_ret Hc. simpl. rewrite Hp. split; [auto|]. split; [reflexivity|].
          intros Hx; destruct (Hnf Hx).
        * destruct (iflatten nx n rest None) as [[o2 w2] ev2] eqn:E2. simpl in Hc. inv_ret Hc.
          destruct (IH (rest, None) _ _ _ (conj Hokr I) E2) as (Hok2 & Hp2 & Hf2).
          split; [exact Hok2|]. split; [|intros Hx; destruct (Hnf Hx)].
          apply (post_shift ae flden _ (rest, Some c) (rest, None)); [|exact Hp2].
          unfold flden; simpl. destruct Hp as (Hd & _). rewrite Hd. reflexivity.
        * inv_ret Hc. simpl. destruct Hp as [Hae Hd]. rewrite Hd.
          split; [auto|]. split; [auto|]. intros Hx; destruct (Hnf Hx).
        * destruct Hp.
        * inv_ret Hc. simpl. split; [auto|]. split; [auto|]. intros Hx; destruct (Hnf Hx).
      + destruct rest as [|c rest'].
        * inv_ret Hc. simpl. split; [auto|]. split; auto.
        * inversion Hokr as [|c0 r0 Hc0 Hr0]; subst.
          destruct (IH (rest', Some c) _ _ _ (conj Hr0 Hc0) Hc) as (Hok2 & Hp2 & Hf2).
          split; [exact Hok2|]. split; [|intros [Hx _]; discriminate].
          apply (post_shift ae flden _ (c :: rest', None) (rest', Some c)); [|exact Hp2].
          reflexivity.
  Qed.

  (* Join *)
  Definition jden (its : list St) : list Z := concat (map den its).
  Definition jfin (its : list St) : Prop := its = [].

  Lemma ijoin_ok n : contract ae (ijoin nx n) jden jfin (Forall ok).
  Proof.
    unfold contract, jden, jfin.
    induction n as [|n IH]; intros its o its' ev Hok Hc; simpl in *.
    - inv_ret Hc. simpl. auto.
    - destruct its as [|c tl].
      + inv_ret Hc. simpl. auto.
      + inversion Hok as [|c0 r0 Hc0 Hr0]; subst.
        destruct (nx c) as [[o1 c1] ev1] eqn:E.
        destruct (Hnx _ _ _ _ Hc0 E) as (Hok1 & Hp & Hf).
        assert (Hnf : c :: tl = [] -> False) by discriminate.
        destruct o1 as [x| | | |]; simpl in Hp.
        * inv_ret Hc. simpl. rewrite Hp. split; [auto|]. split; [reflexivity|].
          intros Hx; destruct (Hnf Hx).
        * destruct (ijoin nx n tl) as [[o2 w2] ev2] eqn:E2. simpl in Hc. inv_ret Hc.
          destruct (IH _ _ _ _ Hr0 E2) as (Hok2 & Hp2 & Hf2).
          split; [exact Hok2|]. split; [|intros Hx; destruct (Hnf Hx)].
          apply (post_shift ae jden _ (c :: tl) tl); [|exact Hp2].
          unfold jden; simpl. destruct Hp as (Hd & _). rewrite Hd. reflexivity.
        * inv_ret Hc. simpl. destruct Hp as [Hae Hd]. rewrite Hd.
          split; [auto|]. split; [auto|]. intros Hx; destruct (Hnf Hx).
        * destruct Hp.
        * inv_ret Hc. simpl. split; [auto|]. split; [auto|]. intros Hx; destruct (Hnf Hx).
  Qed.

  (* Chunk (iterator: a failing call would lose the partial chunk, so calls must not fail) *)
  Lemma ichunk_loop_ok n size : ae = false -> forall chunk s o s' ev,
    ok s -> ichunk_loop nx n size chunk s = (o, s', ev) ->
    ok s' /\
    match o with
    | Item l => chunk_acc size chunk (den s) = l :: chunk_acc size [] (den s')
    | End => chunk_acc size chunk (den s) = [] /\ chunk_acc size [] (den s') = [] /\ fin s'
    | Err _ => False
    | Pan => False
    | Out => True
    end /\ (fin s -> chunk = [] -> fin s' /\ quiet ae o).
  Proof.
    intros Hae. induction n as [|n IH]; intros chunk s o s' ev Hok Hc; simpl in *.
    - inv_ret Hc. simpl. auto.
    - destruct (nx s) as [[o1 s1] ev1] eqn:E.
      destruct (Hnx _ _ _ _ Hok E) as (Hok1 & Hp & Hf).
      destruct o1 as [x| | | |]; simpl in Hp.
      + assert (Hnf : fin s -> False) by (intros Hfin; destruct (Hf Hfin) as [_ []]).
        destruct (zlen (chunk ++ [x]) =? size) eqn:Ez.
        * inv_ret Hc. rewrite Hp. simpl. rewrite Ez.
          split; [exact Hok1|]. split; [reflexivity|]. intros Hfin; destruct (Hnf Hfin).
        * destruct (ichunk_loop nx n size (chunk ++ [x]) s1) as [[o2 s2] ev2] eqn:E2.
          simpl in Hc. inv_ret Hc.
          destruct (IH _ _ _ _ _ Hok1 E2) as (Hok2 & Hp2 & Hf2).
          split; [exact Hok2|]. split; [|intros Hfin; destruct (Hnf Hfin)].
          rewrite Hp. simpl. rewrite Ez. exact Hp2.
      + destruct Hp as (Hd & Hd' & Hfin).
        destruct (0 <? zlen chunk) eqn:Ez; inv_ret Hc; rewrite Hd, Hd'; simpl.
        * split; [exact Hok1|]. split.
          -- destruct chunk; [discriminate Ez|reflexivity].
          -- intros _ Hc0. subst chunk. discriminate Ez.
        * split; [exact Hok1|]. split; [|auto].
          destruct chunk as [|c0 ch]; [auto|].
          rewrite zlen_cons in Ez. apply Z.ltb_ge in Ez. pose proof (zlen_nonneg ch). lia.
      + destruct Hp as [Ha _]. congruence.
      + destruct Hp.
      + inv_ret Hc. split; [exact Hok1|]. split; [auto|].
        intros Hfin _. destruct (Hf Hfin); auto.
  Qed.

  Lemma ichunk_ok n size :
    ae = false -> 0 <= size ->
    contract ae (ichunk nx n size) (fun s => spec_chunk size (den s)) fin ok.
  Proof.
    intros Hae Hsz. unfold contract, ichunk, spec_chunk. intros s o s' ev Hok Hc.
    destruct (size <? 0) eqn:Es; [apply Z.ltb_lt in Es; lia|].
    destruct (ichunk_loop_ok n size Hae [] s o s' ev Hok Hc) as (Hok1 & Hp & Hf).
    split; [exact Hok1|]. split.
    - destruct o; simpl; auto. destruct Hp.
    - intros Hfin. apply Hf; auto.
  Qed.
End GenericIter2.

(* FlattenSlices over any stream/iterator of lists *)
Section GenericFlatSlices.
  Context {Lt : Type} (ae : bool) (nxl : Lt -> ret (list Z) Lt).
  Variables (denl : Lt -> list (list Z)) (finl okl : Lt -> Prop).
  Hypothesis Hnxl : contract ae nxl denl finl okl.

  Definition fsden (w : list Z * Lt) : list Z := fst w ++ concat (denl (snd w)).
  Definition fsfin (w : list Z * Lt) : Prop := fst w = [] /\ finl (snd w).
  Definition fsok (w : list Z * Lt) : Prop := okl (snd w).

  Lemma iflatslices_ok n :
    contract ae (fun w => iflatslices nxl n (fst w) (snd w)) fsden fsfin fsok.
  Proof.
    unfold contract, fsden, fsfin, fsok.
    induction n as [|n IH]; intros [b q] o w' ev Hok Hc; simpl in *.
    - inv_ret Hc. simpl. auto.
    - destruct b as [|x b].
      + destruct (nxl q) as [[o1 q1] ev1] eqn:E.
        destruct (Hnxl _ _ _ _ Hok E) as (Hok1 & Hp & Hf).
        destruct o1 as [l| | | |]; simpl in Hp.
        * destruct (iflatslices nxl n l q1) as [[o2 w2] ev2] eqn:E2. simpl in Hc. inv_ret Hc.
          destruct (IH (l, q1) _ _ _ Hok1 E2) as (Hok2 & Hp2 & Hf2).
          split; [exact Hok2|]. split.
          -- apply (post_shift ae fsden _ ([], q) (l, q1)); [|exact Hp2].
             unfold fsden; simpl. rewrite Hp. reflexivity.
          -- intros [_ Hfin]. destruct (Hf Hfin) as [_ []].
        * inv_ret Hc. simpl. destruct Hp as (Hd & Hd' & Hfin). rewrite Hd, Hd'.
          split; [exact Hok1|]. split; auto.
        * inv_ret Hc. simpl. destruct Hp as [Hae Hd]. rewrite Hd.
          split; [exact Hok1|]. split; [auto|]. intros [_ Hfin]. destruct (Hf Hfin); auto.
        * destruct Hp.
        * inv_ret Hc. simpl. split; [exact Hok1|]. split; [auto|].
          intros [_ Hfin]. destruct (Hf Hfin); auto.
      + inv_ret Hc. simpl. split; [exact Hok|]. split; [reflexivity|].
        intros [Hx _]; discriminate.
  Qed.
End GenericFlatSlices.

(* Runs (iterator version; calls of the inner iterator cannot fail) *)
Section GenericRuns.
  Context {St : Type} (nx : St -> ret Z St).
  Variables (den : St -> list Z) (fin ok : St -> Prop).
  Hypothesis Hnx : contract false nx den fin ok.
  Variable r : rel.
  Notation same := (rel_eval r).
  Notation pkd := (pkden den).
  Notation pkf := (pkfin fin).
  Notation pko := (pkok ok).

  (* what is left for the later runs once the run [cur] is finished *)
  Definition rrest (cur : Z * bool) (p : pk St) : list Z :=
    if snd cur then dropwhile (same (fst cur)) (pkd p) else pkd p.

  Definition rden (k : option nat) (w : runcur * pk St) : list (list Z) :=
    map (take_opt k)
        (spec_runs same (match fst w with Some c => rrest c (snd w) | None => pkd (snd w) end)).
  Definition rfin (w : runcur * pk St) : Prop := pkf (snd w).
  Definition rok (w : runcur * pk St) : Prop := pko (snd w).

  Lemma iruns_inner_ok cur p o cur' p' ev :
    pko p -> iruns_inner nx r cur p = (o, (cur', p'), ev) ->
    pko p' /\ fst cur' = fst cur /\ (pkf p -> pkf p' /\ quiet false o) /\
    match o with
    | Item x => snd cur = true /\ snd cur' = true /\ same (fst cur) x = true /\
                pkd p = x :: pkd p'
    | End => rrest cur' p' = rrest cur p /\ snd cur' = false /\
             (snd cur = true -> takewhile (same (fst cur)) (pkd p) = [])
    | Err _ => False
    | Pan => False
    | Out => True
    end.
  Proof.
    destruct cur as [prev alive]. intros Hok Hc. unfold iruns_inner in Hc.
    destruct alive; simpl in Hc.
    - destruct (ipk_peek nx p) as [[o1 p1] ev1] eqn:E1.
      destruct (ipk_peek_ok false nx den fin ok Hnx _ _ _ _ Hok E1) as (Hok1 & Hf1 & Hp1).
      destruct o1 as [x| | | |].
      + destruct Hp1 as (Hd1 & Hh1 & Hc1).
        destruct (same prev x) eqn:Es.
        * destruct p1 as [has1 curr1 s1]. simpl in Hh1, Hc1. subst has1 curr1.
          unfold ipk_next in Hc. simpl in Hc. inv_ret Hc. simpl.
          split; [exact Hok1|]. split; [reflexivity|]. split.
          -- intros Hfin. destruct (Hf1 Hfin) as [_ []].
          -- split; [reflexivity|]. split; [reflexivity|]. split; [exact Es|].
             rewrite <- Hd1. reflexivity.
        * assert (Hx : pkd p1 = x :: den (pk_in p1)).
          { unfold pkden. rewrite Hh1, Hc1. reflexivity. }
          inv_ret Hc. simpl. split; [exact Hok1|]. split; [reflexivity|]. split.
          -- intros Hfin. destruct (Hf1 Hfin) as [_ []].
          -- unfold rrest; simpl. rewrite <- Hd1.
             rewrite Hx. simpl. rewrite Es. auto.
      + inv_ret Hc. simpl. destruct Hp1 as (Hd & Hd' & Hfin').
        split; [exact Hok1|]. split; [reflexivity|]. split; [auto|].
        unfold rrest; simpl. rewrite Hd, Hd'. auto.
      + destruct Hp1 as [Ha _]. discriminate.
      + destruct Hp1.
      + inv_ret Hc. simpl. split; [exact Hok1|]. split; [reflexivity|]. split; [|exact I].
        intros Hfin. destruct (Hf1 Hfin); auto.
    - inv_ret Hc. simpl. split; [exact Hok|]. split; [reflexivity|]. split; [auto|].
      split; [reflexivity|]. split; [reflexivity|]. intros Hx; discriminate.
  Qed.

  Lemma iruns_drain_ok n : forall cur p o cur' p' ev,
    pko p -> iruns_drain nx n r cur p = (o, (cur', p'), ev) ->
    pko p' /\ (pkf p -> pkf p' /\ quiet false o) /\
    match o with
    | Item _ => False
    | End => pkd p' = rrest cur p
    | Err _ => False
    | Pan => False
    | Out => True
    end.
  Proof.
    induction n as [|n IH]; intros cur p o cur' p' ev Hok Hc; simpl in Hc.
    - inv_ret Hc. simpl. auto.
    - destruct (iruns_inner nx r cur p) as [[o1 [cur1 p1]] ev1] eqn:E1.
      destruct (iruns_inner_ok _ _ _ _ _ _ Hok E1) as (Hok1 & Hc1 & Hf1 & Hp1).
      destruct o1 as [x| | | |].
      + destruct (iruns_drain nx n r cur1 p1) as [[o2 [cur2 p2]] ev2] eqn:E2.
        simpl in Hc. inv_ret Hc.
        destruct (IH _ _ _ _ _ _ Hok1 E2) as (Hok2 & Hf2 & Hp2).
        split; [exact Hok2|]. split.
        * intros Hfin. destruct (Hf1 Hfin) as [_ []].
        * destruct o; auto. rewrite Hp2.
          destruct Hp1 as (Ha & Ha1 & Hs & Hd). unfold rrest. rewrite Ha, Ha1, Hc1, Hd.
          simpl. rewrite Hs. reflexivity.
      + inv_ret Hc. simpl. split; [exact Hok1|]. split; [exact Hf1|].
        destruct Hp1 as (Hr & Ha & _). rewrite <- Hr. unfold rrest. rewrite Ha. reflexivity.
      + destruct Hp1.
      + destruct Hp1.
      + inv_ret Hc. simpl. split; [exact Hok1|]. split; [exact Hf1|]. exact I.
  Qed.

  Lemma take_opt_cons (k : option nat) (x : Z) (l : list Z) :
    k <> Some O -> take_opt k (x :: l) = x :: take_opt (option_map Nat.pred k) l.
  Proof. destruct k as [[|k]|]; simpl; intros H; congruence. Qed.

  Lemma iruns_take_ok n : forall k acc cur p o cur' p' ev,
    pko p -> snd cur = true -> iruns_take nx n r k acc cur p = (o, (cur', p'), ev) ->
    pko p' /\ fst cur' = fst cur /\
    match o with
    | Item l => l = acc ++ take_opt k (takewhile (same (fst cur)) (pkd p)) /\
                rrest cur' p' = dropwhile (same (fst cur)) (pkd p)
    | Out => True
    | _ => False
    end.
  Proof.
    induction n as [|n IH]; intros k acc cur p o cur' p' ev Hok Hal Hc; simpl in Hc.
    - inv_ret Hc. auto.
    - assert (Hgo : forall (Hk : k <> Some O),
                 (let '(o, (cur', p'), ev) := iruns_inner nx r cur p in
                  match o with
                  | Item x => after ev (iruns_take nx n r (option_map Nat.pred k) (acc ++ [x]) cur' p')
                  | End => (Item acc, (cur', p'), ev)
                  | _ => (pass o, (cur', p'), ev)
                  end) = (o, (cur', p'), ev) ->
                 pko p' /\ fst cur' = fst cur /\
                 match o with
                 | Item l => l = acc ++ take_opt k (takewhile (same (fst cur)) (pkd p)) /\
                             rrest cur' p' = dropwhile (same (fst cur)) (pkd p)
                 | Out => True
                 | _ => False
                 end).
      { intros Hk Hc'.
        destruct (iruns_inner nx r cur p) as [[o1 [cur1 p1]] ev1] eqn:E1.
        destruct (iruns_inner_ok _ _ _ _ _ _ Hok E1) as (Hok1 & Hc1 & Hf1 & Hp1).
        destruct o1 as [x| | | |].
        - destruct Hp1 as (_ & Ha1 & Hs & Hd).
          destruct (iruns_take nx n r (option_map Nat.pred k) (acc ++ [x]) cur1 p1)
            as [[o2 [cur2 p2]] ev2] eqn:E2.
          simpl in Hc'. inv_ret Hc'.
          destruct (IH _ _ _ _ _ _ _ _ Hok1 Ha1 E2) as (Hok2 & Hc2 & Hp2).
          split; [exact Hok2|]. split; [congruence|].
          destruct o; auto. destruct Hp2 as [Hl Hr]. rewrite Hc1 in Hl, Hr.
          rewrite Hd. simpl. rewrite Hs. rewrite (take_opt_cons k x _ Hk).
          split; [rewrite Hl, <- app_assoc; reflexivity|exact Hr].
        - inv_ret Hc'. destruct Hp1 as (Hr & Ha & Htw).
          split; [exact Hok1|]. split; [exact Hc1|].
          rewrite (Htw Hal). split.
          + destruct k; simpl; [rewrite firstn_nil|]; rewrite app_nil_r; reflexivity.
          + rewrite Hr. unfold rrest. rewrite Hal. reflexivity.
        - destruct Hp1.
        - destruct Hp1.
        - inv_ret Hc'. simpl. auto. }
      destruct k as [[|k]|].
      + inv_ret Hc. split; [exact Hok|]. split; [reflexivity|].
        simpl. rewrite app_nil_r. split; [reflexivity|].
        unfold rrest. rewrite Hal. reflexivity.
      + apply Hgo; [discriminate|exact Hc].
      + apply Hgo; [discriminate|exact Hc].
  Qed.

  Lemma iruns_ok n k :
    contract false (fun w => iruns nx n r k (fst w) (snd w)) (rden k) rfin rok.
  Proof.
    unfold contract, rok. intros [cur p] o w' ev Hok Hc. simpl in *.
    unfold iruns in Hc.
    assert (Hdr : exists o1 p1 ev1,
               match cur with
               | Some c => let '(o, (_, p'), ev) := iruns_drain nx n r c p in (o, p', ev)
               | None => (End, p, [])
               end = (o1 : res unit, p1, ev1) /\
               pko p1 /\ (pkf p -> pkf p1 /\ quiet false o1) /\
               match o1 with
               | End => pkd p1 = match cur with Some c => rrest c p | None => pkd p end
               | Out => True
               | _ => False
               end).
    { destruct cur as [c|].
      - destruct (iruns_drain nx n r c p) as [[o1 [c1 p1]] ev1] eqn:E1.
        destruct (iruns_drain_ok _ _ _ _ _ _ _ Hok E1) as (Hok1 & Hf1 & Hp1).
        exists o1, p1, ev1. split; [reflexivity|]. split; [exact Hok1|]. split; [exact Hf1|].
        destruct o1; auto.
      - exists End, p, []. split; [reflexivity|]. split; [exact Hok|]. simpl. auto. }
    destruct Hdr as (o1 & p1 & ev1 & Hdr & Hok1 & Hf1 & Hp1). rewrite Hdr in Hc. clear Hdr.
    destruct o1 as [u| | | |]; try (destruct Hp1; fail).
    - destruct (ipk_peek nx p1) as [[o2 p2] ev2] eqn:E2.
      destruct (ipk_peek_ok false nx den fin ok Hnx _ _ _ _ Hok1 E2) as (Hok2 & Hf2 & Hp2).
      assert (Hsh : forall o w', post false (rden k) rfin (None, p1) o w' ->
                                 post false (rden k) rfin (cur, p) o w').
      { intros o0 w0. apply post_shift. unfold rden. simpl. rewrite Hp1. reflexivity. }
      destruct o2 as [x| | | |].
      + destruct (iruns_take nx n r k [] (x, true) p2) as [[o3 [c3 p3]] ev3] eqn:E3.
        inv_ret Hc. simpl.
        destruct (iruns_take_ok n k [] (x, true) p2 _ _ _ _ Hok2 eq_refl E3) as (Hok3 & Hc3 & Hp3).
        split; [exact Hok3|]. split.
        * apply Hsh. unfold rden, rfin.
          destruct o; simpl; auto; try (destruct Hp3; fail).
          destruct Hp3 as [Hl Hr]. simpl in Hl, Hr.
          destruct Hp2 as (Hd2 & Hh2 & Hc2). rewrite <- Hd2.
          assert (Hx : pkd p2 = x :: den (pk_in p2)).
          { unfold pkden. rewrite Hh2, Hc2. reflexivity. }
          rewrite Hx in *. rewrite spec_runs_cons. simpl map.
          simpl in Hl. rewrite rel_refl in Hl. simpl in Hr. rewrite rel_refl in Hr.
          rewrite Hl, Hr. reflexivity.
        * intros Hfin. destruct (Hf1 Hfin) as [Hfin1 _]. destruct (Hf2 Hfin1) as [_ []].
      + inv_ret Hc. simpl. destruct Hp2 as (Hd & Hd' & Hfin2).
        split; [exact Hok2|]. split; [|auto].
        apply (Hsh End (None, p2)). unfold rden, rfin. simpl. rewrite Hd, Hd'. simpl. auto.
      + destruct Hp2 as [Ha _]. discriminate.
      + destruct Hp2.
      + inv_ret Hc. simpl. split; [exact Hok2|]. split; [exact I|].
        intros Hfin. destruct (Hf1 Hfin) as [Hfin1 _]. destruct (Hf2 Hfin1); auto.
    - inv_ret Hc. simpl. split; [exact Hok1|]. split; [exact I|].
      intros Hfin. destruct (Hf1 Hfin); auto.
  Qed.
End GenericRuns.
