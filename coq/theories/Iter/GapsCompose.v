(* Laziness is compositional: a combinator treats an ARBITRARY inner pipeline q exactly like a
   Slice holding q's items.

     log of k Next calls on C(q)  =  log of m Next calls on q alone,
     m = number of Next calls that C makes on its source in k calls on C(Slice (den q))

   for C = WithPeek (through Next), Compact, Filter, First, Map, While, Chunk.  So every source of
   q is asked exactly as often as m stand-alone Next calls on q would ask it - with m given by
   the closed formulas of GapsPulls.v (filter_pos, compact_pos, chunk_pulls, ...), and the m-th
   call of q.Next was needed in the sense of GapsNeed.v.  This lifts the exact accounting and the
   necessity statements from Slice sources to arbitrary inner pipelines, level by level.

   Proof: one generic lemma per transcription - over any inner Next that answers like a Slice
   of its denotation (which every pipeline state does: IterProofs.inext_contract) the combinator
   makes the same calls as over that Slice; the inner calls form a chain of m Next calls on q;
   a chain of Next calls with any sufficient fuels has the log of the stand-alone run
   (GapsLazy.inext_pd). *)
From Juniper Require Import Common.Base Iter.Syntax Iter.Config Iter.ModelBase Iter.IterModel
  Iter.Spec Iter.Contract Iter.IterProofs Iter.Lazy Iter.GapsLazy Iter.GapsPulls.

(* ---- the loops do not depend on their fuel once it is enough ---- *)
Section LoopMono.
  Context {St : Type} (nx : St -> ret Z St).

  Lemma ifilter_mono keep fl : forall n c s o w ev,
    ifilter nx n keep fl c s = (o, w, ev) -> o <> Out ->
    forall d, ifilter nx (n + d) keep fl c s = (o, w, ev).
  Proof.
    induction n as [|n IH]; intros c s o w ev H Hno d; simpl in H;
      [injection H as ? ? ?; subst; congruence|].
    simpl. destruct (nx s) as [[a t] e]. destruct a as [x| | | |]; try exact H.
    destruct (panics_now fl c); [exact H|].
    destruct (pred_eval keep x); [exact H|].
    destruct (ifilter nx n keep fl (S c) t) as [[o3 t3] e3] eqn:E3. simpl in H.
    injection H as ? ? ?; subst.
    rewrite (IH _ _ _ _ _ E3 Hno d). reflexivity.
  Qed.

  Lemma icompact_mono r : forall n fi pv s o w ev,
    icompact nx n r fi pv s = (o, w, ev) -> o <> Out ->
    forall d, icompact nx (n + d) r fi pv s = (o, w, ev).
  Proof.
    induction n as [|n IH]; intros fi pv s o w ev H Hno d; simpl in H; [inv_ret H; congruence|].
    simpl. destruct (nx s) as [[a t] e]. destruct a as [x| | | |]; try exact H.
    destruct fi; [exact H|]. destruct (negb (rel_eval r pv x)); [exact H|].
    destruct (icompact nx n r false pv t) as [[o3 w3] e3] eqn:E3. simpl in H.
    injection H as ? ? ?; subst. rewrite (IH _ _ _ _ _ _ E3 Hno d). reflexivity.
  Qed.

  Lemma ichunk_loop_mono size : forall n chunk s o s' ev,
    ichunk_loop nx n size chunk s = (o, s', ev) -> o <> Out ->
    forall d, ichunk_loop nx (n + d) size chunk s = (o, s', ev).
  Proof.
    induction n as [|n IH]; intros chunk s o s' ev H Hno d; simpl in H; [inv_ret H; congruence|].
    simpl. destruct (nx s) as [[a t] e]. destruct a as [x| | | |]; try exact H.
    destruct (zlen (chunk ++ [x]) =? size); [exact H|].
    destruct (ichunk_loop nx n size (chunk ++ [x]) t) as [[o3 t3] e3] eqn:E3. simpl in H.
    inv_ret H. rewrite (IH _ _ _ _ _ E3 Hno d). reflexivity.
  Qed.

  Lemma stable2 {B} (F : nat -> B) (isout : B -> Prop) :
    (forall n b, F n = b -> ~ isout b -> forall d, F (n + d)%nat = b) ->
    forall n1 n2 b1 b2, F n1 = b1 -> ~ isout b1 -> F n2 = b2 -> ~ isout b2 -> b1 = b2.
  Proof.
    intros Hm n1 n2 b1 b2 H1 Hn1 H2 Hn2. destruct (Nat.le_ge_cases n1 n2) as [Hle|Hle].
    - pose proof (Hm _ _ H1 Hn1 (n2 - n1)%nat) as H.
      replace (n1 + (n2 - n1))%nat with n2 in H by lia. congruence.
    - pose proof (Hm _ _ H2 Hn2 (n1 - n2)%nat) as H.
      replace (n2 + (n1 - n2))%nat with n1 in H by lia. congruence.
  Qed.
End LoopMono.

(* ---- a combinator over an inner Next that answers like a Slice of its denotation ---- *)
Section OverSliceLike.
  Context {St : Type} (nx : St -> ret Z St) (den : St -> list Z) (inv : St -> Prop) (id : nat).
  Hypothesis Hc : forall s o s' ev, inv s -> nx s = (o, s', ev) -> o <> Out ->
    inv s' /\ slice_nx id (den s) = (o, den s', [SevNext id]).

  (* m consecutive inner calls, none of them out of fuel *)
  Inductive cchain : nat -> St -> list sev -> St -> Prop :=
  | cchain_0 s : cchain 0 s [] s
  | cchain_S m s o s1 e1 ev s2 :
      nx s = (o, s1, e1) -> o <> Out -> cchain m s1 ev s2 -> cchain (S m) s (e1 ++ ev) s2.

  Lemma cchain_1 s o s1 e1 : nx s = (o, s1, e1) -> o <> Out -> cchain 1 s e1 s1.
  Proof.
    intros H Hn. rewrite <- (app_nil_r e1). eapply cchain_S; [exact H|exact Hn|constructor].
  Qed.

  Lemma ipk_next_B p o p' ev :
    inv (pk_in p) -> ipk_next nx p = (o, p', ev) -> o <> Out ->
    inv (pk_in p') /\ exists m,
      ipk_next (slice_nx id) (mkPk (pk_has p) (pk_curr p) (den (pk_in p)))
      = (o, mkPk (pk_has p') (pk_curr p') (den (pk_in p')), pulls id m) /\
      cchain m (pk_in p) ev (pk_in p').
  Proof.
    destruct p as [has cu s]. unfold ipk_next. cbn [pk_has pk_curr pk_in]. intros Hi H Hno.
    destruct has.
    - inv_ret H. cbn [pk_has pk_curr pk_in]. split; [exact Hi|]. exists 0%nat.
      split; [reflexivity|constructor].
    - destruct (nx s) as [[a t] e] eqn:E. inv_ret H. cbn [pk_has pk_curr pk_in].
      destruct (Hc _ _ _ _ Hi E Hno) as [Hi' Hs]. split; [exact Hi'|]. exists 1%nat.
      rewrite Hs. split; [reflexivity|eapply cchain_1; eauto].
  Qed.

  Lemma ifilter_B keep fl : forall n c s o c' s' ev,
    inv s -> ifilter nx n keep fl c s = (o, (c', s'), ev) -> o <> Out ->
    inv s' /\ exists m, ifilter (slice_nx id) n keep fl c (den s)
                        = (o, (c', den s'), pulls id m) /\
                        cchain m s ev s'.
  Proof.
    induction n as [|n IH]; intros c s o c' s' ev Hi H Hno; simpl in H; [inv_ret H; congruence|].
    simpl. destruct (nx s) as [[a t] e] eqn:E.
    assert (Ha : a <> Out) by (intros Hx; subst a; inv_ret H; congruence).
    destruct (Hc _ _ _ _ Hi E Ha) as [Hi' Hs]. rewrite Hs.
    destruct a as [x| | | |]; try (inv_ret H; split; [exact Hi'|]; exists 1%nat;
                                   split; [reflexivity|eapply cchain_1; eauto]; fail).
    destruct (panics_now fl c).
    { inv_ret H. split; [exact Hi'|]. exists 1%nat. split; [reflexivity|eapply cchain_1; eauto]. }
    destruct (pred_eval keep x).
    - inv_ret H. split; [exact Hi'|]. exists 1%nat. split; [reflexivity|eapply cchain_1; eauto].
    - destruct (ifilter nx n keep fl (S c) t) as [[o3 [c3 t3]] e3] eqn:E3. simpl in H. inv_ret H.
      destruct (IH _ _ _ _ _ _ Hi' E3 Hno) as (Hi3 & m & Hs3 & C3). split; [exact Hi3|].
      exists (S m). rewrite Hs3. split; [reflexivity|]. eapply cchain_S; eauto.
  Qed.

  Lemma icompact_B r : forall n fi pv s o f' p' s' ev,
    inv s -> icompact nx n r fi pv s = (o, (f', p', s'), ev) -> o <> Out ->
    inv s' /\ exists m, icompact (slice_nx id) n r fi pv (den s)
                        = (o, (f', p', den s'), pulls id m) /\ cchain m s ev s'.
  Proof.
    induction n as [|n IH]; intros fi pv s o f' p' s' ev Hi H Hno; simpl in H;
      [inv_ret H; congruence|].
    simpl. destruct (nx s) as [[a t] e] eqn:E.
    assert (Ha : a <> Out) by (intros Hx; subst a; inv_ret H; congruence).
    destruct (Hc _ _ _ _ Hi E Ha) as [Hi' Hs]. rewrite Hs.
    destruct a as [x| | | |]; try (inv_ret H; split; [exact Hi'|]; exists 1%nat;
                                   split; [reflexivity|eapply cchain_1; eauto]; fail).
    destruct fi.
    - inv_ret H. split; [exact Hi'|]. exists 1%nat. split; [reflexivity|eapply cchain_1; eauto].
    - destruct (negb (rel_eval r pv x)).
      + inv_ret H. split; [exact Hi'|]. exists 1%nat.
        split; [reflexivity|eapply cchain_1; eauto].
      + destruct (icompact nx n r false pv t) as [[o3 [[f3 p3] t3]] e3] eqn:E3. simpl in H.
        inv_ret H. destruct (IH _ _ _ _ _ _ _ _ Hi' E3 Hno) as (Hi3 & m & Hs3 & C3).
        split; [exact Hi3|]. exists (S m). rewrite Hs3. split; [reflexivity|].
        eapply cchain_S; eauto.
  Qed.

  Lemma ifirst_B x s o x' s' ev :
    inv s -> ifirst nx x s = (o, (x', s'), ev) -> o <> Out ->
    inv s' /\ exists m, ifirst (slice_nx id) x (den s) = (o, (x', den s'), pulls id m) /\
                        cchain m s ev s'.
  Proof.
    unfold ifirst. intros Hi H Hno. destruct (x <=? 0).
    - inv_ret H. split; [exact Hi|]. exists 0%nat. split; [reflexivity|constructor].
    - destruct (nx s) as [[a t] e] eqn:E. inv_ret H.
      destruct (Hc _ _ _ _ Hi E Hno) as [Hi' Hs]. rewrite Hs. split; [exact Hi'|].
      exists 1%nat. split; [reflexivity|eapply cchain_1; eauto].
  Qed.

  Lemma imap_B f fl c s o c' s' ev :
    inv s -> imap nx f fl c s = (o, (c', s'), ev) -> o <> Out ->
    inv s' /\ exists m, imap (slice_nx id) f fl c (den s) = (o, (c', den s'), pulls id m) /\
                        cchain m s ev s'.
  Proof.
    unfold imap. intros Hi H Hno. destruct (nx s) as [[a t] e] eqn:E.
    assert (Ha : a <> Out) by (intros Hx; subst a; inv_ret H; congruence).
    destruct (Hc _ _ _ _ Hi E Ha) as [Hi' Hs]. rewrite Hs.
    destruct a; [destruct (panics_now fl c)| | | |]; inv_ret H; (split; [exact Hi'|]);
      exists 1%nat; (split; [reflexivity|eapply cchain_1; eauto]).
  Qed.

  Lemma iwhile_B f fl c d s o c' d' s' ev :
    inv s -> iwhile nx f fl c d s = (o, (c', d', s'), ev) -> o <> Out ->
    inv s' /\ exists m, iwhile (slice_nx id) f fl c d (den s)
                        = (o, (c', d', den s'), pulls id m) /\
                        cchain m s ev s'.
  Proof.
    unfold iwhile. intros Hi H Hno. destruct d.
    - inv_ret H. split; [exact Hi|]. exists 0%nat. split; [reflexivity|constructor].
    - destruct (nx s) as [[a t] e] eqn:E.
      assert (Ha : a <> Out) by (intros Hx; subst a; inv_ret H; congruence).
      destruct (Hc _ _ _ _ Hi E Ha) as [Hi' Hs]. rewrite Hs.
      destruct a as [y| | | |];
        [destruct (panics_now fl c); [|destruct (pred_eval f y)]| | | |]; inv_ret H;
        (split; [exact Hi'|]); exists 1%nat; (split; [reflexivity|eapply cchain_1; eauto]).
  Qed.

  Lemma ichunk_loop_B size : forall n chunk s o s' ev,
    inv s -> ichunk_loop nx n size chunk s = (o, s', ev) -> o <> Out ->
    inv s' /\ exists m, ichunk_loop (slice_nx id) n size chunk (den s) = (o, den s', pulls id m) /\
                        cchain m s ev s'.
  Proof.
    induction n as [|n IH]; intros chunk s o s' ev Hi H Hno; simpl in H; [inv_ret H; congruence|].
    simpl. destruct (nx s) as [[a t] e] eqn:E.
    assert (Ha : a <> Out) by (intros Hx; subst a; inv_ret H; congruence).
    destruct (Hc _ _ _ _ Hi E Ha) as [Hi' Hs]. rewrite Hs.
    destruct a as [x| | | |]; try (inv_ret H; split; [exact Hi'|]; exists 1%nat;
                                   split; [reflexivity|eapply cchain_1; eauto]; fail).
    - destruct (zlen (chunk ++ [x]) =? size).
      + inv_ret H. split; [exact Hi'|]. exists 1%nat.
        split; [reflexivity|eapply cchain_1; eauto].
      + destruct (ichunk_loop nx n size (chunk ++ [x]) t) as [[o3 t3] e3] eqn:E3. simpl in H.
        inv_ret H. destruct (IH _ _ _ _ _ Hi' E3 Hno) as (Hi3 & m & Hs3 & C3).
        split; [exact Hi3|]. exists (S m). rewrite Hs3. split; [reflexivity|].
        eapply cchain_S; eauto.
    - destruct (0 <? zlen chunk); inv_ret H; (split; [exact Hi'|]); exists 1%nat;
        (split; [reflexivity|eapply cchain_1; eauto]).
  Qed.

  Lemma ichunk_B size n s o s' ev :
    inv s -> ichunk nx n size s = (o, s', ev) -> o <> Out ->
    inv s' /\ exists m, ichunk (slice_nx id) n size (den s) = (o, den s', pulls id m) /\
                        cchain m s ev s'.
  Proof.
    unfold ichunk. intros Hi H Hno. destruct (size <? 0).
    - inv_ret H. split; [exact Hi|]. exists 0%nat. split; [reflexivity|constructor].
    - eapply ichunk_loop_B; eauto.
  Qed.
End OverSliceLike.

(* ---- the remaining (loop-free) transcriptions commute with a change of representation ---- *)
Section Iso.
  Context {S1 S2 : Type} (nx1 : S1 -> ret Z S1) (nx2 : S2 -> ret Z S2) (g : S1 -> S2).
  Hypothesis H : forall a, nx2 (g a) = let '(o, a', ev) := nx1 a in (o, g a', ev).

  Lemma ipk_next_iso h c a :
    ipk_next nx2 (mkPk h c (g a))
    = let '(o, p', ev) := ipk_next nx1 (mkPk h c a) in
      (o, mkPk (pk_has p') (pk_curr p') (g (pk_in p')), ev).
  Proof.
    unfold ipk_next. cbn [pk_has pk_curr pk_in]. destruct h; [reflexivity|].
    rewrite H. destruct (nx1 a) as [[o a1] ev1]. reflexivity.
  Qed.
  Lemma ifirst_iso x a :
    ifirst nx2 x (g a) = let '(o, (x', a'), ev) := ifirst nx1 x a in (o, (x', g a'), ev).
  Proof.
    unfold ifirst. destruct (x <=? 0); [reflexivity|]. rewrite H.
    destruct (nx1 a) as [[o a1] ev1]. reflexivity.
  Qed.
  Lemma imap_iso f fl c a :
    imap nx2 f fl c (g a) = let '(o, (c', a'), ev) := imap nx1 f fl c a in (o, (c', g a'), ev).
  Proof.
    unfold imap. rewrite H. destruct (nx1 a) as [[o a1] ev1]. destruct o; try reflexivity.
    destruct (panics_now fl c); reflexivity.
  Qed.
  Lemma iwhile_iso f fl c d a :
    iwhile nx2 f fl c d (g a)
    = let '(o, (c', d', a'), ev) := iwhile nx1 f fl c d a in (o, (c', d', g a'), ev).
  Proof.
    unfold iwhile. destruct d; [reflexivity|]. rewrite H.
    destruct (nx1 a) as [[o a1] ev1]. destruct o as [y| | | |]; try reflexivity.
    destruct (panics_now fl c); [reflexivity|].
    destruct (pred_eval f y); reflexivity.
  Qed.
End Iso.

(* ---- every pipeline state answers like a Slice of its denotation ---- *)
Lemma inext_slice_view F s o s' ev :
  iok s -> inext F s = (o, s', ev) -> o <> Out ->
  iok s' /\ slice_nx 0 (iden s) = (o, iden s', [SevNext 0]).
Proof.
  intros Hok H Hno. destruct (proj1 (inext_contract F) _ _ _ _ Hok H) as (Hok' & Hp & _).
  split; [exact Hok'|]. destruct o as [x| | | |]; simpl in Hp.
  - rewrite Hp. reflexivity.
  - destruct Hp as (H1 & H2 & _). rewrite H1, H2. reflexivity.
  - destruct Hp as [Hx _]. discriminate Hx.
  - destruct Hp.
  - congruence.
Qed.

(* ---- chains of Next calls on a pipeline state, any sufficient fuels ---- *)
Inductive gchain : nat -> ist -> list sev -> ist -> Prop :=
| gchain_0 s : gchain 0 s [] s
| gchain_S m s F o s1 e1 ev s2 :
    inext F s = (o, s1, e1) -> o <> Out -> gchain m s1 ev s2 -> gchain (S m) s (e1 ++ ev) s2.

Lemma cchain_gchain F m s ev s' : cchain (inext F) m s ev s' -> gchain m s ev s'.
Proof. induction 1; [constructor|econstructor; eauto]. Qed.

Lemma gchain_app m1 s e1 s1 : gchain m1 s e1 s1 ->
  forall m2 e2 s2, gchain m2 s1 e2 s2 -> gchain (m1 + m2) s (e1 ++ e2) s2.
Proof.
  induction 1 as [|m s F o sa ea ev sb Hn Hno Hc IH]; intros m2 e2 s2 H2; [exact H2|].
  rewrite <- app_assoc. simpl. econstructor; eauto.
Qed.

(* a chain from a state has the log of the stand-alone run from (a state related to) it *)
Lemma gchain_run ids : forall m s ev s', gchain m s ev s' ->
  forall t log, (forall L, irel L s t) -> iok t ->
  snd (irun_steps ids (RZ t) log (map CNext (repeat true m))) = log ++ ev.
Proof.
  induction 1 as [|m s F o s1 e1 ev s2 Hn Hno Hc IH]; intros t log HR Hok.
  - simpl. rewrite app_nil_r. reflexivity.
  - cbn [repeat map irun_steps irun_next].
    destruct (istep t) as [[o2 t1] e2] eqn:E2.
    pose proof (inext_fuel_enough _ _ _ _ E2) as Hno2.
    destruct (proj1 (inext_contract (S (isize t))) _ _ _ _ Hok E2) as (Hok1 & Hp & _).
    assert (Hsame : o2 = o /\ e2 = e1 /\ forall L, irel L s1 t1).
    { unfold istep in E2.
      destruct (proj1 (inext_pd F (S (isize t))) [] _ _ _ _ _ _ _ _ Hn Hno (HR _) E2)
        as [Hx|(Ho & He & _)]; [congruence|].
      split; [exact Ho|]. split; [exact He|]. intros L.
      destruct (proj1 (inext_pd F (S (isize t))) L _ _ _ _ _ _ _ _ Hn Hno (HR _) E2)
        as [Hx|(_ & _ & HR')]; [congruence|exact HR']. }
    destruct Hsame as (Ho & He & HR'). subst o2 e2.
    assert (Hst : stops (obs_z o) = false).
    { destruct o; simpl in *; try reflexivity; try congruence; try (destruct Hp; fail). }
    rewrite Hst. specialize (IH t1 (log ++ e1) HR' Hok1).
    destruct (irun_steps ids (RZ t1) (log ++ e1) (map CNext (repeat true m))) as [r l].
    simpl in *. rewrite IH, app_assoc. reflexivity.
Qed.

(* ---- k calls on C(q) against k calls on C(Slice (den q)) ---- *)
Definition sl (s : ist) : ist := ISrc 0 (ISlice (iden s)).

Section ComposeRun.
  Variables (Sg : Type) (mk : Sg -> ist -> irun_st).
  Hypothesis Hstep : forall sg s o st' ev, iok s -> irun_next (mk sg s) = (o, st', ev) ->
    exists sg' s' m, st' = mk sg' s' /\ iok s' /\ gchain m s ev s' /\
      irun_next (mk sg (sl s)) = (o, mk sg' (sl s'), pulls 0 m).

  Lemma compose_run ids1 ids2 : forall k sg s log1 log2, iok s -> exists M E s',
    snd (irun_steps ids1 (mk sg s) log1 (map CNext (repeat true k))) = log1 ++ E /\
    gchain M s E s' /\
    snd (irun_steps ids2 (mk sg (sl s)) log2 (map CNext (repeat true k))) = log2 ++ pulls 0 M.
  Proof.
    induction k as [|k IH]; intros sg s log1 log2 Hok.
    - exists 0%nat, [], s. simpl. rewrite !app_nil_r. repeat split. constructor.
    - cbn [repeat map irun_steps].
      destruct (irun_next (mk sg s)) as [[o st'] ev] eqn:E1.
      destruct (Hstep _ _ _ _ _ Hok E1) as (sg' & s' & m & Hst & Hok' & Hc & E2). subst st'.
      rewrite E2. destruct (stops o).
      + exists m, ev, s'. simpl. repeat split; auto.
      + destruct (IH sg' s' (log1 ++ ev) (log2 ++ pulls 0 m) Hok') as (M & E & s'' & H1 & H2 & H3).
        destruct (irun_steps ids1 (mk sg' s') (log1 ++ ev) (map CNext (repeat true k))) as [r1 l1].
        destruct (irun_steps ids2 (mk sg' (sl s')) (log2 ++ pulls 0 m) (map CNext (repeat true k)))
          as [r2 l2].
        simpl in *. exists (m + M)%nat, (ev ++ E), s''. subst l1 l2.
        rewrite <- !app_assoc, repeat_app. repeat split; auto.
        eapply gchain_app; eauto.
  Qed.
End ComposeRun.

(* ---- one step of each combinator over an arbitrary inner state s and over Slice (iden s) ---- *)
Definition isout {A B C} (b : res A * B * C) : Prop := fst (fst b) = Out.

Lemma filter_hstep keep fl (sg : nat) s o st' ev :
  iok s -> irun_next (RZ (IFilter keep fl sg s)) = (o, st', ev) ->
  exists (sg' : nat) s' m, st' = RZ (IFilter keep fl sg' s') /\ iok s' /\ gchain m s ev s' /\
    irun_next (RZ (IFilter keep fl sg (sl s))) = (o, RZ (IFilter keep fl sg' (sl s')), pulls 0 m).
Proof.
  intros Hok H. unfold irun_next in H.
  destruct (istep (IFilter keep fl sg s)) as [[o1 s1] e1] eqn:E. inv_ret H.
  pose proof (inext_fuel_enough _ _ _ _ E) as Hno. rewrite istep_filter in E.
  destruct (ifilter (inext (S (isize s))) (S (S (isize s))) keep fl sg s)
    as [[o2 [c2 p2]] e2] eqn:E2.
  inv_ret E.
  destruct (ifilter_B (inext (S (isize s))) iden iok 0 (inext_slice_view _) keep fl _ _ _ _ _ _ _
                      Hok E2 Hno) as (Hok' & m & Hs & Hc).
  exists c2, p2, m. split; [reflexivity|]. split; [exact Hok'|].
  split; [eapply cchain_gchain; exact Hc|].
  unfold irun_next, sl.
  destruct (istep (IFilter keep fl sg (ISrc 0 (ISlice (iden s))))) as [[o3 s3] e3] eqn:E3.
  pose proof (inext_fuel_enough _ _ _ _ E3) as Hno3. rewrite istep_filter in E3.
  cbn [isize isrc_size] in E3.
  rewrite (ifilter_iso (slice_nx 0) (inext (S (S (length (iden s))))) (fun a => ISrc 0 (ISlice a))
             keep fl (fun a0 => inext_slice (S (length (iden s))) 0 a0)) in E3.
  destruct (ifilter (slice_nx 0) (S (S (S (length (iden s))))) keep fl sg (iden s))
    as [[o4 [c4 a4]] e4] eqn:E4.
  inv_ret E3.
  pose proof (stable2 (fun n => ifilter (slice_nx 0) n keep fl sg (iden s)) isout
                (fun n b => match b with (ob, sb, eb) => fun Hb Hn =>
                   ifilter_mono (slice_nx 0) keep fl n _ _ _ _ _ Hb Hn end)
                _ _ _ _ Hs Hno E4 Hno3) as Heq.
  injection Heq as ? ? ? ?; subst. reflexivity.
Qed.

Lemma compact_hstep r (sg : bool * Z) s o st' ev :
  iok s -> irun_next (RZ (ICompact r (fst sg) (snd sg) s)) = (o, st', ev) ->
  exists (sg' : bool * Z) s' m, st' = RZ (ICompact r (fst sg') (snd sg') s') /\ iok s' /\
    gchain m s ev s' /\
    irun_next (RZ (ICompact r (fst sg) (snd sg) (sl s)))
    = (o, RZ (ICompact r (fst sg') (snd sg') (sl s')), pulls 0 m).
Proof.
  destruct sg as [fi pv]. cbn [fst snd]. intros Hok H. unfold irun_next in H.
  destruct (istep (ICompact r fi pv s)) as [[o1 s1] e1] eqn:E. inv_ret H.
  pose proof (inext_fuel_enough _ _ _ _ E) as Hno. rewrite istep_compact in E.
  destruct (icompact (inext (S (isize s))) (S (S (isize s))) r fi pv s)
    as [[o2 [[f2 p2] q2]] e2] eqn:E2.
  inv_ret E.
  destruct (icompact_B (inext (S (isize s))) iden iok 0 (inext_slice_view _) r _ _ _ _ _ _ _ _ _
                       Hok E2 Hno) as (Hok' & m & Hs & Hc).
  exists (f2, p2), q2, m. cbn [fst snd]. split; [reflexivity|]. split; [exact Hok'|].
  split; [eapply cchain_gchain; exact Hc|].
  unfold irun_next, sl.
  destruct (istep (ICompact r fi pv (ISrc 0 (ISlice (iden s))))) as [[o3 s3] e3] eqn:E3.
  pose proof (inext_fuel_enough _ _ _ _ E3) as Hno3. rewrite istep_compact in E3.
  cbn [isize isrc_size] in E3.
  rewrite (icompact_iso (slice_nx 0) (inext (S (S (length (iden s))))) (fun a => ISrc 0 (ISlice a))
             r (fun a0 => inext_slice (S (length (iden s))) 0 a0)) in E3.
  destruct (icompact (slice_nx 0) (S (S (S (length (iden s))))) r fi pv (iden s))
    as [[o4 [[f4 p4] a4]] e4] eqn:E4.
  inv_ret E3.
  pose proof (stable2 (fun n => icompact (slice_nx 0) n r fi pv (iden s)) isout
                (fun n b => match b with (ob, sb, eb) => fun Hb Hn =>
                   icompact_mono (slice_nx 0) r n _ _ _ _ _ _ Hb Hn end)
                _ _ _ _ Hs Hno E4 Hno3) as Heq.
  injection Heq as ? ? ? ? ?; subst. reflexivity.
Qed.

Lemma chunk_hstep size (sg : unit) s o st' ev :
  iok s -> irun_next (RL (IChunk size s)) = (o, st', ev) ->
  exists (sg' : unit) s' m, st' = RL (IChunk size s') /\ iok s' /\ gchain m s ev s' /\
    irun_next (RL (IChunk size (sl s))) = (o, RL (IChunk size (sl s')), pulls 0 m).
Proof.
  intros Hok H. unfold irun_next in H.
  destruct (ilstep (IChunk size s)) as [[o1 s1] e1] eqn:E. inv_ret H.
  pose proof (ilnext_fuel_enough _ _ _ _ E) as Hno. rewrite ilstep_chunk in E.
  destruct (ichunk (inext (S (2 * isize s))) (S (S (2 * isize s))) size s) as [[o2 p2] e2] eqn:E2.
  inv_ret E.
  destruct (ichunk_B (inext (S (2 * isize s))) iden iok 0 (inext_slice_view _) size _ _ _ _ _
                     Hok E2 Hno) as (Hok' & m & Hs & Hc).
  exists tt, p2, m. split; [reflexivity|]. split; [exact Hok'|].
  split; [eapply cchain_gchain; exact Hc|].
  unfold irun_next, sl.
  destruct (ilstep (IChunk size (ISrc 0 (ISlice (iden s))))) as [[o3 s3] e3] eqn:E3.
  pose proof (ilnext_fuel_enough _ _ _ _ E3) as Hno3. rewrite ilstep_chunk in E3.
  cbn [isize isrc_size] in E3. unfold ichunk in E3, Hs.
  destruct (size <? 0).
  - inv_ret E3. injection Hs as Ho Hd Hp. rewrite <- Ho, <- Hp, <- Hd. reflexivity.
  - rewrite (ichunk_loop_iso (slice_nx 0) (inext (S (2 * S (length (iden s)))))
               (fun a => ISrc 0 (ISlice a)) size
               (fun a0 => inext_slice (2 * S (length (iden s))) 0 a0)) in E3.
    destruct (ichunk_loop (slice_nx 0) (S (S (2 * S (length (iden s))))) size [] (iden s))
      as [[o4 a4] e4] eqn:E4.
    inv_ret E3.
    pose proof (stable2 (fun n => ichunk_loop (slice_nx 0) n size [] (iden s)) isout
                  (fun n b => match b with (ob, sb, eb) => fun Hb Hn =>
                     ichunk_loop_mono (slice_nx 0) size n _ _ _ _ _ Hb Hn end)
                  _ _ _ _ Hs Hno E4 Hno3) as Heq.
    injection Heq as ? ? ?; subst. reflexivity.
Qed.

Lemma peek_hstep (sg : bool * Z) s o st' ev :
  iok s -> irun_next (RZ (IPeek (mkPk (fst sg) (snd sg) s))) = (o, st', ev) ->
  exists (sg' : bool * Z) s' m, st' = RZ (IPeek (mkPk (fst sg') (snd sg') s')) /\ iok s' /\
    gchain m s ev s' /\
    irun_next (RZ (IPeek (mkPk (fst sg) (snd sg) (sl s))))
    = (o, RZ (IPeek (mkPk (fst sg') (snd sg') (sl s'))), pulls 0 m).
Proof.
  destruct sg as [h c]. cbn [fst snd]. intros Hok H. unfold irun_next in H.
  destruct (istep (IPeek (mkPk h c s))) as [[o1 s1] e1] eqn:E. inv_ret H.
  pose proof (inext_fuel_enough _ _ _ _ E) as Hno. rewrite istep_peek in E.
  cbn [pk_has pk_in] in E.
  destruct (ipk_next (inext (S ((if h then 1 else 0) + isize s))) (mkPk h c s))
    as [[o2 p2] e2] eqn:E2.
  inv_ret E.
  destruct (ipk_next_B (inext (S ((if h then 1 else 0) + isize s))) iden iok 0
                       (inext_slice_view _) (mkPk h c s) _ _ _ Hok E2 Hno) as (Hok' & m & Hs & Hc).
  cbn [pk_has pk_curr pk_in] in Hs, Hc, Hok'.
  exists (pk_has p2, pk_curr p2), (pk_in p2), m. cbn [fst snd].
  split; [destruct p2; reflexivity|]. split; [exact Hok'|].
  split; [eapply cchain_gchain; exact Hc|].
  unfold irun_next, sl. rewrite istep_peek. cbn [pk_has pk_in isize isrc_size].
  rewrite (ipk_next_iso (slice_nx 0) (inext (S ((if h then 1 else 0) + S (length (iden s)))))
             (fun a => ISrc 0 (ISlice a))
             (fun a0 => inext_slice ((if h then 1 else 0) + S (length (iden s))) 0 a0)).
  rewrite Hs. reflexivity.
Qed.

Lemma first_hstep (sg : Z) s o st' ev :
  iok s -> irun_next (RZ (IFirst sg s)) = (o, st', ev) ->
  exists (sg' : Z) s' m, st' = RZ (IFirst sg' s') /\ iok s' /\ gchain m s ev s' /\
    irun_next (RZ (IFirst sg (sl s))) = (o, RZ (IFirst sg' (sl s')), pulls 0 m).
Proof.
  intros Hok H. unfold irun_next in H.
  destruct (istep (IFirst sg s)) as [[o1 s1] e1] eqn:E. inv_ret H.
  pose proof (inext_fuel_enough _ _ _ _ E) as Hno. rewrite istep_first in E.
  destruct (ifirst (inext (S (isize s))) sg s) as [[o2 [x2 p2]] e2] eqn:E2. inv_ret E.
  destruct (ifirst_B (inext (S (isize s))) iden iok 0 (inext_slice_view _) _ _ _ _ _ _
                     Hok E2 Hno) as (Hok' & m & Hs & Hc).
  exists x2, p2, m. split; [reflexivity|]. split; [exact Hok'|].
  split; [eapply cchain_gchain; exact Hc|].
  unfold irun_next, sl. rewrite istep_first. cbn [isize isrc_size].
  rewrite (ifirst_iso (slice_nx 0) (inext (S (S (length (iden s))))) (fun a => ISrc 0 (ISlice a))
             (fun a0 => inext_slice (S (length (iden s))) 0 a0)).
  rewrite Hs. reflexivity.
Qed.

Lemma map_hstep g fl (sg : nat) s o st' ev :
  iok s -> irun_next (RZ (IMap g fl sg s)) = (o, st', ev) ->
  exists (sg' : nat) s' m, st' = RZ (IMap g fl sg' s') /\ iok s' /\ gchain m s ev s' /\
    irun_next (RZ (IMap g fl sg (sl s))) = (o, RZ (IMap g fl sg' (sl s')), pulls 0 m).
Proof.
  intros Hok H. unfold irun_next in H.
  destruct (istep (IMap g fl sg s)) as [[o1 s1] e1] eqn:E. inv_ret H.
  pose proof (inext_fuel_enough _ _ _ _ E) as Hno. rewrite istep_map in E.
  destruct (imap (inext (S (isize s))) g fl sg s) as [[o2 [c2 p2]] e2] eqn:E2. inv_ret E.
  destruct (imap_B (inext (S (isize s))) iden iok 0 (inext_slice_view _) _ _ _ _ _ _ _ _
                   Hok E2 Hno) as (Hok' & m & Hs & Hc).
  exists c2, p2, m. split; [reflexivity|]. split; [exact Hok'|].
  split; [eapply cchain_gchain; exact Hc|].
  unfold irun_next, sl. rewrite istep_map. cbn [isize isrc_size].
  rewrite (imap_iso (slice_nx 0) (inext (S (S (length (iden s))))) (fun a => ISrc 0 (ISlice a))
             (fun a0 => inext_slice (S (length (iden s))) 0 a0)).
  rewrite Hs. reflexivity.
Qed.

Lemma while_hstep f fl (sg : nat * bool) s o st' ev :
  iok s -> irun_next (RZ (IWhile f fl (fst sg) (snd sg) s)) = (o, st', ev) ->
  exists (sg' : nat * bool) s' m, st' = RZ (IWhile f fl (fst sg') (snd sg') s') /\ iok s' /\
    gchain m s ev s' /\
    irun_next (RZ (IWhile f fl (fst sg) (snd sg) (sl s)))
    = (o, RZ (IWhile f fl (fst sg') (snd sg') (sl s')), pulls 0 m).
Proof.
  destruct sg as [c d]. cbn [fst snd]. intros Hok H. unfold irun_next in H.
  destruct (istep (IWhile f fl c d s)) as [[o1 s1] e1] eqn:E. inv_ret H.
  pose proof (inext_fuel_enough _ _ _ _ E) as Hno. rewrite istep_while in E.
  destruct (iwhile (inext (S (isize s))) f fl c d s) as [[o2 [[c2 d2] p2]] e2] eqn:E2. inv_ret E.
  destruct (iwhile_B (inext (S (isize s))) iden iok 0 (inext_slice_view _) _ _ _ _ _ _ _ _ _ _
                     Hok E2 Hno) as (Hok' & m & Hs & Hc).
  exists (c2, d2), p2, m. cbn [fst snd]. split; [reflexivity|]. split; [exact Hok'|].
  split; [eapply cchain_gchain; exact Hc|].
  unfold irun_next, sl. rewrite istep_while. cbn [isize isrc_size].
  rewrite (iwhile_iso (slice_nx 0) (inext (S (S (length (iden s))))) (fun a => ISrc 0 (ISlice a))
             (fun a0 => inext_slice (S (length (iden s))) 0 a0)).
  rewrite Hs. reflexivity.
Qed.

(* ---- the theorem ---- *)
Inductive ctx1 :=
| XPeek
| XCompact (r : rel)
| XFilter (f : pred) (fl : failing)
| XFirst (n : Z)
| XMap (g : fn) (fl : failing)
| XWhile (f : pred) (fl : failing)
| XChunk (n : Z).

Definition plug (c : ctx1) (q : pz) : pz + pl :=
  match c with
  | XPeek => inl (ZPeek q)
  | XCompact r => inl (ZCompact r q)
  | XFilter f fl => inl (ZFilter f fl q)
  | XFirst n => inl (ZFirst n q)
  | XMap g fl => inl (ZMap g fl q)
  | XWhile f fl => inl (ZWhile f fl q)
  | XChunk n => inr (LChunk n q)
  end.

Lemma compose_logs (Sg : Type) (mk : Sg -> ist -> irun_st) (sg0 : Sg) cfg (p ps : pz + pl) q k :
  (forall sg s o st' ev, iok s -> irun_next (mk sg s) = (o, st', ev) ->
     exists sg' s' m, st' = mk sg' s' /\ iok s' /\ gchain m s ev s' /\
       irun_next (mk sg (sl s)) = (o, mk sg' (sl s'), pulls 0 m)) ->
  irun_init p = mk sg0 (iinit q) -> irun_init ps = mk sg0 (sl (iinit q)) ->
  dom_z q -> no_panics_z q = true ->
  ro_log (run_iter_cfg cfg p (ksteps k))
  = ro_log (run_iter_cfg cfg (inl q)
              (ksteps (pulls_in (run_iter_cfg cfg ps (ksteps k)) 0))).
Proof.
  intros Hstep Hp Hps Hd Hnp. pose proof (proj1 iinit_ok q Hd Hnp) as Hok.
  unfold pulls_in. rewrite !ro_log_steps, Hp, Hps.
  destruct (compose_run Sg mk Hstep (sort_ids (pipe_ids p)) (sort_ids (pipe_ids ps)) k sg0
                        (iinit q) [] [] Hok) as (M & E & s' & H1 & H2 & H3).
  rewrite H1, H3. simpl app. rewrite count_next_pulls.
  simpl irun_init. symmetry.
  apply (gchain_run _ M (iinit q) E s' H2 (iinit q) []); [|exact Hok].
  intros L. apply (proj1 (irel_refl_both L)).
Qed.

(* C over an arbitrary inner pipeline q (in which nothing panics) pulls from q's sources exactly
   what m stand-alone Next calls on q pull, m = the number of calls C makes on a Slice holding
   q's items - whether or not C's own callback panics *)
Theorem compose_pulls cfg c q k :
  iter_supported_z q = true -> dom_z q -> no_panics_z q = true ->
  let m := pulls_in (run_iter_cfg cfg (plug c (ZSrc 0 (SSlice (den_z q)))) (ksteps k)) 0 in
  ro_log (run_iter_cfg cfg (plug c q) (ksteps k))
  = ro_log (run_iter_cfg cfg (inl q) (ksteps m)).
Proof.
  intros Hs Hd Hnp m. unfold m.
  assert (Hden : iden (iinit q) = den_z q) by (apply (proj1 iinit_den); exact Hs).
  destruct c as [|r|f fl|n|g fl|f fl|n]; cbn [plug].
  - apply (compose_logs (bool * Z) (fun sg s => RZ (IPeek (mkPk (fst sg) (snd sg) s))) (false, 0));
      [intros sg s o st' ev; apply peek_hstep|reflexivity| |exact Hd|exact Hnp].
    unfold sl. rewrite Hden. reflexivity.
  - apply (compose_logs (bool * Z) (fun sg s => RZ (ICompact r (fst sg) (snd sg) s)) (true, 0));
      [intros sg s o st' ev; apply compact_hstep|reflexivity| |exact Hd|exact Hnp].
    unfold sl. rewrite Hden. reflexivity.
  - apply (compose_logs nat (fun sg s => RZ (IFilter f fl sg s)) O);
      [intros sg s o st' ev; apply (filter_hstep f fl sg)|reflexivity| |exact Hd|exact Hnp].
    unfold sl. rewrite Hden. reflexivity.
  - apply (compose_logs Z (fun sg s => RZ (IFirst sg s)) n);
      [intros sg s o st' ev; apply first_hstep|reflexivity| |exact Hd|exact Hnp].
    unfold sl. rewrite Hden. reflexivity.
  - apply (compose_logs nat (fun sg s => RZ (IMap g fl sg s)) O);
      [intros sg s o st' ev; apply (map_hstep g fl sg)|reflexivity| |exact Hd|exact Hnp].
    unfold sl. rewrite Hden. reflexivity.
  - apply (compose_logs (nat * bool) (fun sg s => RZ (IWhile f fl (fst sg) (snd sg) s)) (O, false));
      [intros sg s o st' ev; apply while_hstep|reflexivity| |exact Hd|exact Hnp].
    unfold sl. rewrite Hden. reflexivity.
  - apply (compose_logs unit (fun _ s => RL (IChunk n s)) tt);
      [intros sg s o st' ev; apply (chunk_hstep n sg)|reflexivity| |exact Hd|exact Hnp].
    unfold sl. rewrite Hden. reflexivity.
Qed.

(* in particular the pull counts of every source *)
Corollary compose_pull_counts cfg c q k id :
  iter_supported_z q = true -> dom_z q -> no_panics_z q = true ->
  let m := pulls_in (run_iter_cfg cfg (plug c (ZSrc 0 (SSlice (den_z q)))) (ksteps k)) 0 in
  pulls_in (run_iter_cfg cfg (plug c q) (ksteps k)) id
  = pulls_in (run_iter_cfg cfg (inl q) (ksteps m)) id.
Proof.
  intros Hs Hd Hnp m. unfold pulls_in. rewrite (compose_pulls cfg c q k Hs Hd Hnp). reflexivity.
Qed.

(* with the closed formulas of GapsPulls.v, e.g. Filter over any pipeline: *)
Corollary filter_over_any cfg keep fl q k id :
  iter_supported_z q = true -> dom_z q -> no_panics_z q = true -> cb_panics fl = false ->
  pulls_in (run_iter_cfg cfg (inl (ZFilter keep fl q)) (ksteps k)) id
  = pulls_in (run_iter_cfg cfg (inl q) (ksteps (filter_pos keep (den_z q) k))) id.
Proof.
  intros Hs Hd Hnp Hfl.
  pose proof (compose_pull_counts cfg (XFilter keep fl) q k id Hs Hd Hnp) as H.
  cbn [plug] in H. rewrite H. unfold pulls_in at 2.
  rewrite (proj1 (filter_pulls_all 0 keep fl Hfl cfg (den_z q) k)). reflexivity.
Qed.

(* non-vacuity: Filter over First over Join of two sources *)
Example compose_demo :
  let q := ZFirst 5 (ZJoin [ZSrc 1 (SSlice [1; 2; 3]); ZSrc 2 (SCounter 10)]) in
  den_z q = [1; 2; 3; 0; 1] /\
  filter_pos (PrModEq 2 0) (den_z q) 2 = 4%nat /\
  map (pulls_in (run_iter (inl (ZFilter (PrModEq 2 0) never_fails q)) (ksteps 2))) [1; 2]%nat
  = [4; 1]%nat /\
  map (pulls_in (run_iter (inl q) (ksteps 4))) [1; 2]%nat = [4; 1]%nat.
Proof. vm_compute. repeat split; reflexivity. Qed.

(* ---- necessity at the interface between C and an arbitrary inner pipeline ---- *)
From Juniper Require Import Iter.GapsNeed.

Definition ctx_dom (c : ctx1) : Prop := match c with XChunk n => 1 <= n | _ => True end.
(* the callback of C never panics *)
Definition ctx_nopanic (c : ctx1) : bool :=
  match c with XFilter _ fl | XMap _ fl | XWhile _ fl => negb (cb_panics fl) | _ => true end.

Lemma plug_results cfg c q k :
  iter_supported_z q = true -> dom_z q -> no_panics_z q = true -> ctx_dom c ->
  ctx_nopanic c = true ->
  results (run_iter_cfg cfg (plug c q) (ksteps k))
  = results (run_iter_cfg cfg (plug c (ZSrc 0 (SSlice (den_z q)))) (ksteps k)).
Proof.
  intros Hs Hd Hnp Hc Hcn.
  rewrite !results_den;
    try (destruct c; simpl in *; rewrite ?Hcn; auto; fail).
Qed.

(* C(q) has made m calls of q.Next (compose_pulls); if the m-th answer of a Slice holding q's
   items was needed by C (GapsNeed.v), it was needed by C(q): an inner iterator that answers the
   first m-1 calls like q but differently afterwards changes the first k results *)
Theorem compose_needed cfg c q k :
  iter_supported_z q = true -> dom_z q -> no_panics_z q = true -> ctx_dom c ->
  ctx_nopanic c = true ->
  needed cfg (fun l => plug c (ZSrc 0 (SSlice l))) 0 (den_z q) k ->
  let m := pulls_in (run_iter_cfg cfg (plug c (ZSrc 0 (SSlice (den_z q)))) (ksteps k)) 0 in
  ro_log (run_iter_cfg cfg (plug c q) (ksteps k)) = ro_log (run_iter_cfg cfg (inl q) (ksteps m)) /\
  ((1 <= m)%nat ->
   exists l', agree_upto (m - 1) (den_z q) l' /\
              results (run_iter_cfg cfg (plug c (ZSrc 0 (SSlice l'))) (ksteps k))
              <> results (run_iter_cfg cfg (plug c q) (ksteps k))).
Proof.
  intros Hs Hd Hnp Hc Hcn Hn m. split; [apply compose_pulls; assumption|].
  intros Hm. destruct (Hn Hm) as (l' & Ha & Hr). exists l'. split; [exact Ha|].
  rewrite (plug_results cfg c q k Hs Hd Hnp Hc Hcn). exact Hr.
Qed.
