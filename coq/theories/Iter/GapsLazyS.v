(* Laziness, general statement, part (a) for STREAM pipelines: prefix determinacy, with faults.

   A stream source answers its i-th Next call that carries a live context with an item, the end,
   or an error (a transient error once, a fatal error for ever); a call with an expired context
   is answered with the context error and consumes nothing.  Two pipelines of the same shape
   whose sources give the same first n_id live answers - n_id = the number of Next calls source
   id receives in a run of the first pipeline (calls with an expired context included, which only
   makes the hypothesis stronger) - produce the same observations and the same log (Next AND
   Close events) for every consumer program, whatever fails.

   Same proof as GapsLazy.v; the generic lemmas for peekable, Compact and FlattenSlices are
   shared. *)
From Juniper Require Import Common.Base Iter.Syntax Iter.Config Iter.ModelBase Iter.IterModel
  Iter.StreamModel Iter.Spec Iter.Contract Iter.IterProofs Iter.StreamProofs Iter.GapsLazy.

Section GenericPDS.
  Context {S1 S2 : Type} (nx1 : S1 -> ret Z S1) (nx2 : S2 -> ret Z S2)
          (cl1 : S1 -> list sev) (cl2 : S2 -> list sev)
          (R : list sev -> S1 -> S2 -> Prop).
  Hypothesis Hsim : pd_sim R nx1 nx2.
  Hypothesis Hweak : forall ev L s1 s2, R (ev ++ L) s1 s2 -> R L s1 s2.
  Hypothesis Hcl : forall L s1 s2, R L s1 s2 -> cl2 s2 = cl1 s1.
  Notation Rpk := (Rpk R).

  Lemma sfilter_pd keep fl : forall n1 n2 calls L s1 s2 o c1 s1' ev o2 c2 s2' ev2,
    sfilter nx1 n1 keep fl calls s1 = (o, (c1, s1'), ev) -> o <> Out -> R (ev ++ L) s1 s2 ->
    sfilter nx2 n2 keep fl calls s2 = (o2, (c2, s2'), ev2) ->
    o2 = Out \/ (o2 = o /\ ev2 = ev /\ c2 = c1 /\ R L s1' s2').
  Proof.
    induction n1 as [|n1 IH]; intros n2 calls L s1 s2 o c1 s1' ev o2 c2 s2' ev2 H1 Hno HR H2;
      simpl in H1.
    - inv_ret H1. congruence.
    - destruct n2 as [|n2]; simpl in H2; [inv_ret H2; left; reflexivity|].
      destruct (nx1 s1) as [[a1 t1] e1] eqn:E1. destruct (nx2 s2) as [[a2 t2] e2] eqn:E2.
      destruct a1 as [x| | | |].
      + destruct (fails_now fl calls) eqn:Ef.
        * inv_ret H1.
          destruct (Hsim _ _ _ _ _ _ _ _ _ E1 ltac:(discriminate) HR E2)
            as [Ho|(Ho & He & HR')]; [pd_out H2|].
          subst a2 e2. inv_ret H2. right. repeat split; auto.
        * destruct (pred_eval keep x) eqn:Ek.
          -- inv_ret H1.
             destruct (Hsim _ _ _ _ _ _ _ _ _ E1 Hno HR E2) as [Ho|(Ho & He & HR')];
               [pd_out H2|].
             subst a2 e2. rewrite Ek in H2. inv_ret H2. right. repeat split; auto.
          -- destruct (sfilter nx1 n1 keep fl (S calls) t1) as [[o3 [c3 t3]] e3] eqn:E3.
             simpl in H1. inv_ret H1. rewrite <- app_assoc in HR.
             destruct (Hsim _ _ _ _ _ _ _ _ _ E1 ltac:(discriminate) HR E2)
               as [Ho|(Ho & He & HR')]; [pd_out H2|].
             subst a2 e2. rewrite Ek in H2.
             destruct (sfilter nx2 n2 keep fl (S calls) t2) as [[o4 [c4 t4]] e4] eqn:E4.
             simpl in H2. inv_ret H2.
             destruct (IH _ _ _ _ _ _ _ _ _ _ _ _ _ E3 Hno HR' E4)
               as [Ho|(Ho & He & Hc & HR'')]; [left; exact Ho|].
             right. subst. repeat split; auto.
      + inv_ret H1.
        destruct (Hsim _ _ _ _ _ _ _ _ _ E1 Hno HR E2) as [Ho|(Ho & He & HR')]; [pd_out H2|].
        subst a2 e2. inv_ret H2. right. repeat split; auto.
      + inv_ret H1.
        destruct (Hsim _ _ _ _ _ _ _ _ _ E1 Hno HR E2) as [Ho|(Ho & He & HR')]; [pd_out H2|].
        subst a2 e2. inv_ret H2. right. repeat split; auto.
      + inv_ret H1.
        destruct (Hsim _ _ _ _ _ _ _ _ _ E1 Hno HR E2) as [Ho|(Ho & He & HR')]; [pd_out H2|].
        subst a2 e2. inv_ret H2. right. repeat split; auto.
      + inv_ret H1. congruence.
  Qed.

  Lemma sfirst_pd x L s1 s2 o x1 s1' ev o2 x2 s2' ev2 :
    sfirst nx1 x s1 = (o, (x1, s1'), ev) -> o <> Out -> R (ev ++ L) s1 s2 ->
    sfirst nx2 x s2 = (o2, (x2, s2'), ev2) ->
    o2 = Out \/ (o2 = o /\ ev2 = ev /\ x2 = x1 /\ R L s1' s2').
  Proof.
    unfold sfirst. intros H1 Hno HR H2. destruct (x <=? 0).
    - inv_ret H1. inv_ret H2. right. repeat split; auto.
    - destruct (nx1 s1) as [[a1 t1] e1] eqn:E1. destruct (nx2 s2) as [[a2 t2] e2] eqn:E2.
      assert (Ha1 : a1 <> Out) by (intros Hx; subst a1; inv_ret H1; congruence).
      assert (He1 : ev = e1) by (destruct a1; inv_ret H1; reflexivity).
      rewrite He1 in HR.
      destruct (Hsim _ _ _ _ _ _ _ _ _ E1 Ha1 HR E2) as [Ho|(Ho & He & HR')]; [pd_out H2|].
      subst a2 e2. right. destruct a1; inv_ret H1; inv_ret H2; repeat split; auto.
  Qed.

  Lemma smap_pd f fl calls L s1 s2 o c1 s1' ev o2 c2 s2' ev2 :
    smap nx1 f fl calls s1 = (o, (c1, s1'), ev) -> o <> Out -> R (ev ++ L) s1 s2 ->
    smap nx2 f fl calls s2 = (o2, (c2, s2'), ev2) ->
    o2 = Out \/ (o2 = o /\ ev2 = ev /\ c2 = c1 /\ R L s1' s2').
  Proof.
    unfold smap. intros H1 Hno HR H2.
    destruct (nx1 s1) as [[a1 t1] e1] eqn:E1. destruct (nx2 s2) as [[a2 t2] e2] eqn:E2.
    assert (Ha1 : a1 <> Out) by (intros Hx; subst a1; inv_ret H1; congruence).
    assert (He1 : ev = e1)
      by (destruct a1; [destruct (fails_now fl calls)| | | |]; inv_ret H1; reflexivity).
    rewrite He1 in HR.
    destruct (Hsim _ _ _ _ _ _ _ _ _ E1 Ha1 HR E2) as [Ho|(Ho & He & HR')]; [pd_out H2|].
    subst a2 e2. right.
    destruct a1; [destruct (fails_now fl calls)| | | |]; inv_ret H1; inv_ret H2;
      repeat split; auto.
  Qed.

  Lemma swhile_pd f fl calls item has done L s1 s2 o c1 i1 h1 d1 s1' ev o2 c2 i2 h2 d2 s2' ev2 :
    swhile nx1 f fl calls item has done s1 = (o, (c1, i1, h1, d1, s1'), ev) -> o <> Out ->
    R (ev ++ L) s1 s2 ->
    swhile nx2 f fl calls item has done s2 = (o2, (c2, i2, h2, d2, s2'), ev2) ->
    o2 = Out \/ (o2 = o /\ ev2 = ev /\ c2 = c1 /\ i2 = i1 /\ h2 = h1 /\ d2 = d1 /\ R L s1' s2').
  Proof.
    unfold swhile. intros H1 Hno HR H2. destruct done.
    - inv_ret H1. inv_ret H2. right. repeat split; auto.
    - destruct has.
      + destruct (fails_now fl calls); [|destruct (pred_eval f item)];
          inv_ret H1; inv_ret H2; right; repeat split; auto.
      + destruct (nx1 s1) as [[a1 t1] e1] eqn:E1. destruct (nx2 s2) as [[a2 t2] e2] eqn:E2.
        assert (Ha1 : a1 <> Out) by (intros Hx; subst a1; inv_ret H1; congruence).
        assert (He1 : ev = e1)
          by (destruct a1 as [y| | | |];
              [destruct (fails_now fl calls); [|destruct (pred_eval f y)]| | | |];
              inv_ret H1; reflexivity).
        rewrite He1 in HR.
        destruct (Hsim _ _ _ _ _ _ _ _ _ E1 Ha1 HR E2) as [Ho|(Ho & He & HR')]; [pd_out H2|].
        subst a2 e2. right.
        destruct a1 as [y| | | |];
          [destruct (fails_now fl calls); [|destruct (pred_eval f y)]| | | |];
          inv_ret H1; inv_ret H2; repeat split; auto.
  Qed.

  Notation Ropt := (Ropt R).

  Lemma sflatten_pd live : forall n1 n2 L r1 c1 r2 c2 o r1' c1' ev o2 r2' c2' ev2,
    sflatten nx1 cl1 n1 live r1 c1 = (o, (r1', c1'), ev) -> o <> Out ->
    Forall2 (R (ev ++ L)) r1 r2 -> Ropt (ev ++ L) c1 c2 ->
    sflatten nx2 cl2 n2 live r2 c2 = (o2, (r2', c2'), ev2) ->
    o2 = Out \/ (o2 = o /\ ev2 = ev /\ Forall2 (R L) r1' r2' /\ Ropt L c1' c2').
  Proof.
    induction n1 as [|n1 IH];
      intros n2 L r1 c1 r2 c2 o r1' c1' ev o2 r2' c2' ev2 H1 Hno HF HC H2; simpl in H1.
    - inv_ret H1. congruence.
    - destruct n2 as [|n2]; simpl in H2; [inv_ret H2; left; reflexivity|].
      destruct c1 as [a|]; destruct c2 as [b|]; simpl in HC; try contradiction.
      + destruct (nx1 a) as [[a1 t1] e1] eqn:E1. destruct (nx2 b) as [[a2 t2] e2] eqn:E2.
        destruct a1 as [x| | | |].
        * inv_ret H1.
          destruct (Hsim _ _ _ _ _ _ _ _ _ E1 Hno HC E2) as [Ho|(Ho & He & HR')]; [pd_out H2|].
          subst a2 e2. inv_ret H2. right. repeat split; auto.
          eapply (Forall2_weak R Hweak); eauto.
        * destruct (sflatten nx1 cl1 n1 live r1 None) as [[o3 [r3 c3]] e3] eqn:E3.
          simpl in H1. inv_ret H1. rewrite <- !app_assoc in HC, HF.
          destruct (Hsim _ _ _ _ _ _ _ _ _ E1 ltac:(discriminate) HC E2)
            as [Ho|(Ho & He & HR')]; [pd_out H2|].
          subst a2 e2. rewrite (Hcl _ _ _ HR') in H2.
          destruct (sflatten nx2 cl2 n2 live r2 None) as [[o4 [r4 c4]] e4] eqn:E4.
          simpl in H2. inv_ret H2.
          assert (HF' : Forall2 (R (e3 ++ L)) r1 r2).
          { eapply (Forall2_weak R Hweak (cl1 t1)). eapply (Forall2_weak R Hweak e1).
            exact HF. }
          destruct (IH n2 L r1 None r2 None _ _ _ _ _ _ _ _ E3 Hno HF' I E4)
            as [Ho|(Ho & He & HF'' & HC')]; [left; exact Ho|].
          right. subst. rewrite <- !app_assoc. repeat split; auto.
        * inv_ret H1.
          destruct (Hsim _ _ _ _ _ _ _ _ _ E1 Hno HC E2) as [Ho|(Ho & He & HR')]; [pd_out H2|].
          subst a2 e2. inv_ret H2. right. repeat split; auto.
          eapply (Forall2_weak R Hweak); eauto.
        * inv_ret H1.
          destruct (Hsim _ _ _ _ _ _ _ _ _ E1 Hno HC E2) as [Ho|(Ho & He & HR')]; [pd_out H2|].
          subst a2 e2. inv_ret H2. right. repeat split; auto.
          eapply (Forall2_weak R Hweak); eauto.
        * inv_ret H1. congruence.
      + destruct (negb live).
        * inv_ret H1. inv_ret H2. right. repeat split; auto.
        * destruct r1 as [|a r1]; inversion HF as [|a0 b0 ra rb Hab Hrr]; subst.
          -- inv_ret H1. inv_ret H2. right. repeat split; auto.
          -- exact (IH n2 L r1 (Some a) rb (Some b0) _ _ _ _ _ _ _ _ H1 Hno Hrr Hab H2).
  Qed.

  Lemma Forall2_cl L l1 l2 : Forall2 (R L) l1 l2 -> flat_map cl2 l2 = flat_map cl1 l1.
  Proof.
    induction 1 as [|a b t u Hab Htu IH]; simpl; [reflexivity|].
    rewrite (Hcl _ _ _ Hab), IH. reflexivity.
  Qed.

  Lemma sjoin_pd : forall n1 n2 L l1 l2 o l1' ev o2 l2' ev2,
    sjoin nx1 cl1 n1 l1 = (o, l1', ev) -> o <> Out -> Forall2 (R (ev ++ L)) l1 l2 ->
    sjoin nx2 cl2 n2 l2 = (o2, l2', ev2) ->
    o2 = Out \/ (o2 = o /\ ev2 = ev /\ Forall2 (R L) l1' l2').
  Proof.
    induction n1 as [|n1 IH]; intros n2 L l1 l2 o l1' ev o2 l2' ev2 H1 Hno HF H2; simpl in H1.
    - inv_ret H1. congruence.
    - destruct n2 as [|n2]; simpl in H2; [inv_ret H2; left; reflexivity|].
      destruct l1 as [|a r1]; inversion HF as [|a0 b r1a r2 Hab Hrr]; subst.
      + inv_ret H1. inv_ret H2. right. repeat split; auto.
      + destruct (nx1 a) as [[a1 t1] e1] eqn:E1. destruct (nx2 b) as [[a2 t2] e2] eqn:E2.
        destruct a1 as [x| | | |].
        * inv_ret H1.
          destruct (Hsim _ _ _ _ _ _ _ _ _ E1 Hno Hab E2) as [Ho|(Ho & He & HR')]; [pd_out H2|].
          subst a2 e2. inv_ret H2. right. repeat split; auto.
          constructor; [exact HR'|eapply (Forall2_weak R Hweak); eauto].
        * destruct (sjoin nx1 cl1 n1 r1) as [[o3 r3] e3] eqn:E3.
          simpl in H1. inv_ret H1. rewrite <- !app_assoc in Hab, Hrr.
          destruct (Hsim _ _ _ _ _ _ _ _ _ E1 ltac:(discriminate) Hab E2)
            as [Ho|(Ho & He & HR')]; [pd_out H2|].
          subst a2 e2. rewrite (Hcl _ _ _ HR') in H2.
          destruct (sjoin nx2 cl2 n2 r2) as [[o4 r4] e4] eqn:E4. simpl in H2. inv_ret H2.
          assert (HF' : Forall2 (R (e3 ++ L)) r1 r2).
          { eapply (Forall2_weak R Hweak (cl1 t1)). eapply (Forall2_weak R Hweak e1).
            exact Hrr. }
          destruct (IH _ _ _ _ _ _ _ _ _ _ E3 Hno HF' E4)
            as [Ho|(Ho & He & HF'')]; [left; exact Ho|].
          right. subst. rewrite <- !app_assoc. repeat split; auto.
        * inv_ret H1.
          destruct (Hsim _ _ _ _ _ _ _ _ _ E1 Hno Hab E2) as [Ho|(Ho & He & HR')]; [pd_out H2|].
          subst a2 e2. inv_ret H2. right. repeat split; auto.
          constructor; [exact HR'|eapply (Forall2_weak R Hweak); eauto].
        * inv_ret H1.
          destruct (Hsim _ _ _ _ _ _ _ _ _ E1 Hno Hab E2) as [Ho|(Ho & He & HR')]; [pd_out H2|].
          subst a2 e2. inv_ret H2. right. repeat split; auto.
          constructor; [exact HR'|eapply (Forall2_weak R Hweak); eauto].
        * inv_ret H1. congruence.
  Qed.

  Lemma schunk_pd size : forall n1 n2 chunk L s1 s2 o ch1 s1' ev o2 ch2 s2' ev2,
    schunk nx1 n1 size chunk s1 = (o, (ch1, s1'), ev) -> o <> Out -> R (ev ++ L) s1 s2 ->
    schunk nx2 n2 size chunk s2 = (o2, (ch2, s2'), ev2) ->
    o2 = Out \/ (o2 = o /\ ev2 = ev /\ ch2 = ch1 /\ R L s1' s2').
  Proof.
    induction n1 as [|n1 IH];
      intros n2 chunk L s1 s2 o ch1 s1' ev o2 ch2 s2' ev2 H1 Hno HR H2; simpl in H1.
    - inv_ret H1. congruence.
    - destruct n2 as [|n2]; simpl in H2; [inv_ret H2; left; reflexivity|].
      destruct (nx1 s1) as [[a1 t1] e1] eqn:E1. destruct (nx2 s2) as [[a2 t2] e2] eqn:E2.
      destruct a1 as [x| | | |].
      + destruct (zlen (chunk ++ [x]) =? size) eqn:Ez.
        * inv_ret H1.
          destruct (Hsim _ _ _ _ _ _ _ _ _ E1 ltac:(discriminate) HR E2)
            as [Ho|(Ho & He & HR')]; [pd_out H2|].
          subst a2 e2. rewrite Ez in H2. inv_ret H2. right. repeat split; auto.
        * destruct (schunk nx1 n1 size (chunk ++ [x]) t1) as [[o3 [c3 t3]] e3] eqn:E3.
          simpl in H1. inv_ret H1. rewrite <- app_assoc in HR.
          destruct (Hsim _ _ _ _ _ _ _ _ _ E1 ltac:(discriminate) HR E2)
            as [Ho|(Ho & He & HR')]; [pd_out H2|].
          subst a2 e2. rewrite Ez in H2.
          destruct (schunk nx2 n2 size (chunk ++ [x]) t2) as [[o4 [c4 t4]] e4] eqn:E4.
          simpl in H2. inv_ret H2.
          destruct (IH _ _ _ _ _ _ _ _ _ _ _ _ _ E3 Hno HR' E4) as [Ho|(Ho & He & Hc & HR'')];
            [left; exact Ho|].
          right. subst. repeat split; auto.
      + destruct (0 <? zlen chunk); [destruct (size <? 0)|]; inv_ret H1;
          (destruct (Hsim _ _ _ _ _ _ _ _ _ E1 ltac:(discriminate) HR E2)
            as [Ho|(Ho & He & HR')]; [pd_out H2|]);
          subst a2 e2; inv_ret H2; right; repeat split; auto.
      + inv_ret H1.
        destruct (Hsim _ _ _ _ _ _ _ _ _ E1 ltac:(discriminate) HR E2)
          as [Ho|(Ho & He & HR')]; [pd_out H2|].
        subst a2 e2. inv_ret H2. right. repeat split; auto.
      + inv_ret H1.
        destruct (Hsim _ _ _ _ _ _ _ _ _ E1 ltac:(discriminate) HR E2)
          as [Ho|(Ho & He & HR')]; [pd_out H2|].
        subst a2 e2. inv_ret H2. right. repeat split; auto.
      + inv_ret H1. congruence.
  Qed.

  (* ---- Runs ---- *)
  Lemma sruns_inner_pd r prev : pd_sim Rpk (sruns_inner nx1 r prev) (sruns_inner nx2 r prev).
  Proof.
    intros L p1 p2 o p1' ev o2 p2' ev2 H1 Hno HR H2. unfold sruns_inner in *.
    destruct (ipk_peek nx1 p1) as [[a1 q1] e1] eqn:E1.
    destruct (ipk_peek nx2 p2) as [[a2 q2] e2] eqn:E2.
    destruct a1 as [x| | | |].
    - destruct (rel_eval r prev x) eqn:Er.
      + destruct (ipk_next nx1 q1) as [[a3 q3] e3] eqn:E3. inv_ret H1.
        rewrite <- app_assoc in HR.
        destruct (ipk_peek_pd _ _ _ Hsim _ _ _ _ _ _ _ _ _ E1 ltac:(discriminate) HR E2)
          as [Ho|(Ho & He & HR')]; [pd_out H2|].
        subst a2 e2. rewrite Er in H2.
        destruct (ipk_next nx2 q2) as [[a4 q4] e4] eqn:E4. inv_ret H2.
        destruct (ipk_next_pd _ _ _ Hsim _ _ _ _ _ _ _ _ _ E3 Hno HR' E4)
          as [Ho|(Ho & He & HR'')]; [left; exact Ho|].
        right. subst. repeat split; auto; apply HR''.
      + inv_ret H1.
        destruct (ipk_peek_pd _ _ _ Hsim _ _ _ _ _ _ _ _ _ E1 ltac:(discriminate) HR E2)
          as [Ho|(Ho & He & HR')]; [pd_out H2|].
        subst a2 e2. rewrite Er in H2. inv_ret H2. right. repeat split; auto; apply HR'.
    - inv_ret H1.
      destruct (ipk_peek_pd _ _ _ Hsim _ _ _ _ _ _ _ _ _ E1 Hno HR E2)
        as [Ho|(Ho & He & HR')]; [pd_out H2|].
      subst a2 e2. inv_ret H2. right. repeat split; auto; apply HR'.
    - inv_ret H1.
      destruct (ipk_peek_pd _ _ _ Hsim _ _ _ _ _ _ _ _ _ E1 Hno HR E2)
        as [Ho|(Ho & He & HR')]; [pd_out H2|].
      subst a2 e2. inv_ret H2. right. repeat split; auto; apply HR'.
    - inv_ret H1.
      destruct (ipk_peek_pd _ _ _ Hsim _ _ _ _ _ _ _ _ _ E1 Hno HR E2)
        as [Ho|(Ho & He & HR')]; [pd_out H2|].
      subst a2 e2. inv_ret H2. right. repeat split; auto; apply HR'.
    - inv_ret H1. congruence.
  Qed.

  Lemma sruns_drain_pd r prev : forall n1 n2,
    pd_sim Rpk (sruns_drain nx1 n1 r prev) (sruns_drain nx2 n2 r prev).
  Proof.
    induction n1 as [|n1 IH]; intros n2 L p1 p2 o p1' ev o2 p2' ev2 H1 Hno HR H2; simpl in H1.
    - inv_ret H1. congruence.
    - destruct n2 as [|n2]; simpl in H2; [inv_ret H2; left; reflexivity|].
      destruct (sruns_inner nx1 r prev p1) as [[a1 q1] e1] eqn:E1.
      destruct (sruns_inner nx2 r prev p2) as [[a2 q2] e2] eqn:E2.
      destruct a1 as [x| | | |].
      + destruct (sruns_drain nx1 n1 r prev q1) as [[o3 q3] e3] eqn:E3.
        simpl in H1. inv_ret H1. rewrite <- app_assoc in HR.
        destruct (sruns_inner_pd _ _ _ _ _ _ _ _ _ _ _ E1 ltac:(discriminate) HR E2)
          as [Ho|(Ho & He & HR')]; [pd_out H2|].
        subst a2 e2.
        destruct (sruns_drain nx2 n2 r prev q2) as [[o4 q4] e4] eqn:E4.
        simpl in H2. inv_ret H2.
        destruct (IH _ _ _ _ _ _ _ _ _ _ E3 Hno HR' E4) as [Ho|(Ho & He & HR'')];
          [left; exact Ho|].
        right. subst. repeat split; auto; apply HR''.
      + inv_ret H1.
        destruct (sruns_inner_pd _ _ _ _ _ _ _ _ _ _ _ E1 ltac:(discriminate) HR E2)
          as [Ho|(Ho & He & HR')]; [pd_out H2|].
        subst a2 e2. inv_ret H2. right. repeat split; auto; apply HR'.
      + inv_ret H1.
        destruct (sruns_inner_pd _ _ _ _ _ _ _ _ _ _ _ E1 ltac:(discriminate) HR E2)
          as [Ho|(Ho & He & HR')]; [pd_out H2|].
        subst a2 e2. inv_ret H2. right. repeat split; auto; apply HR'.
      + inv_ret H1.
        destruct (sruns_inner_pd _ _ _ _ _ _ _ _ _ _ _ E1 ltac:(discriminate) HR E2)
          as [Ho|(Ho & He & HR')]; [pd_out H2|].
        subst a2 e2. inv_ret H2. right. repeat split; auto; apply HR'.
      + inv_ret H1. congruence.
  Qed.

  Lemma sruns_take_pd r k prev : forall n1 n2 acc L p1 p2 o acc1 p1' ev o2 acc2 p2' ev2,
    sruns_take nx1 n1 r k acc prev p1 = (o, (acc1, p1'), ev) -> o <> Out ->
    Rpk (ev ++ L) p1 p2 ->
    sruns_take nx2 n2 r k acc prev p2 = (o2, (acc2, p2'), ev2) ->
    o2 = Out \/ (o2 = o /\ ev2 = ev /\ acc2 = acc1 /\ Rpk L p1' p2').
  Proof.
    induction n1 as [|n1 IH];
      intros n2 acc L p1 p2 o acc1 p1' ev o2 acc2 p2' ev2 H1 Hno HR H2; simpl in H1.
    - inv_ret H1. congruence.
    - destruct n2 as [|n2]; simpl in H2; [inv_ret H2; left; reflexivity|].
      destruct (match k with Some k0 => (k0 <=? length acc)%nat | None => false end).
      + inv_ret H1. inv_ret H2. right. repeat split; auto; apply HR.
      + destruct (sruns_inner nx1 r prev p1) as [[a1 q1] e1] eqn:E1.
        destruct (sruns_inner nx2 r prev p2) as [[a2 q2] e2] eqn:E2.
        destruct a1 as [x| | | |].
        * destruct (sruns_take nx1 n1 r k (acc ++ [x]) prev q1) as [[o3 [c3 q3]] e3] eqn:E3.
          simpl in H1. inv_ret H1. rewrite <- app_assoc in HR.
          destruct (sruns_inner_pd _ _ _ _ _ _ _ _ _ _ _ E1 ltac:(discriminate) HR E2)
            as [Ho|(Ho & He & HR')]; [pd_out H2|].
          subst a2 e2.
          destruct (sruns_take nx2 n2 r k (acc ++ [x]) prev q2) as [[o4 [c4 q4]] e4] eqn:E4.
          simpl in H2. inv_ret H2.
          destruct (IH _ _ _ _ _ _ _ _ _ _ _ _ _ E3 Hno HR' E4) as [Ho|(Ho & He & Hc & HR'')];
            [left; exact Ho|].
          right. subst. repeat split; auto; apply HR''.
        * inv_ret H1.
          destruct (sruns_inner_pd _ _ _ _ _ _ _ _ _ _ _ E1 ltac:(discriminate) HR E2)
            as [Ho|(Ho & He & HR')]; [pd_out H2|].
          subst a2 e2. inv_ret H2. right. repeat split; auto; apply HR'.
        * inv_ret H1.
          destruct (sruns_inner_pd _ _ _ _ _ _ _ _ _ _ _ E1 ltac:(discriminate) HR E2)
            as [Ho|(Ho & He & HR')]; [pd_out H2|].
          subst a2 e2. inv_ret H2. right. repeat split; auto; apply HR'.
        * inv_ret H1.
          destruct (sruns_inner_pd _ _ _ _ _ _ _ _ _ _ _ E1 ltac:(discriminate) HR E2)
            as [Ho|(Ho & He & HR')]; [pd_out H2|].
          subst a2 e2. inv_ret H2. right. repeat split; auto; apply HR'.
        * inv_ret H1. congruence.
  Qed.

  (* the consumer's take, as it appears in [sruns] *)
  Lemma stake_pd r k n1 n2 x acc ev0 L q1 q2 o c1 pd1 p1' ev o2 c2 pd2 p2' ev2 :
    (let '(o3, (acc3, p3), ev3) := sruns_take nx1 n1 r k acc x q1 in
     match o3 with
     | Item l => (Item l, (Some x, None, p3), ev0 ++ ev3)
     | _ => (pass o3, (Some x, Some acc3, p3), ev0 ++ ev3)
     end) = (o, (c1, pd1, p1'), ev) -> o <> Out ->
    (forall ev3, ev = ev0 ++ ev3 -> Rpk (ev3 ++ L) q1 q2) ->
    (let '(o3, (acc3, p3), ev3) := sruns_take nx2 n2 r k acc x q2 in
     match o3 with
     | Item l => (Item l, (Some x, None, p3), ev0 ++ ev3)
     | _ => (pass o3, (Some x, Some acc3, p3), ev0 ++ ev3)
     end) = (o2, (c2, pd2, p2'), ev2) ->
    o2 = Out \/ (o2 = o /\ ev2 = ev /\ c2 = c1 /\ pd2 = pd1 /\ Rpk L p1' p2').
  Proof.
    intros H1 Hno HR H2.
    destruct (sruns_take nx1 n1 r k acc x q1) as [[o3 [a3 q3]] e3] eqn:E3.
    destruct (sruns_take nx2 n2 r k acc x q2) as [[o4 [a4 q4]] e4] eqn:E4.
    assert (Ho3 : o3 <> Out) by (intros Hx; subst o3; inv_ret H1; congruence).
    assert (He : ev = ev0 ++ e3) by (destruct o3; inv_ret H1; reflexivity).
    destruct (sruns_take_pd _ _ _ _ _ _ _ _ _ _ _ _ _ _ _ _ _ E3 Ho3 (HR _ He) E4)
      as [Ho|(Ho & He4 & Ha & HR')]; [pd_out H2|].
    subst o4 e4 a4. right.
    destruct o3; inv_ret H1; inv_ret H2; repeat split; auto; apply HR'.
  Qed.

  Lemma sruns_pd r k n1 n2 cur pend L p1 p2 o c1 pd1 p1' ev o2 c2 pd2 p2' ev2 :
    sruns nx1 n1 r k cur pend p1 = (o, (c1, pd1, p1'), ev) -> o <> Out ->
    Rpk (ev ++ L) p1 p2 ->
    sruns nx2 n2 r k cur pend p2 = (o2, (c2, pd2, p2'), ev2) ->
    o2 = Out \/ (o2 = o /\ ev2 = ev /\ c2 = c1 /\ pd2 = pd1 /\ Rpk L p1' p2').
  Proof.
    intros H1 Hno HR H2.
    assert (Hmain :
      (let '(o1, q1, ev1) :=
         match cur with
         | Some prev => sruns_drain nx1 n1 r prev p1
         | None => (End, p1, [])
         end in
       match o1 with
       | End =>
           let '(o0, q0, ev0) := ipk_peek nx1 q1 in
           match o0 with
           | Item x =>
               let '(o3, (acc3, p3), ev3) := sruns_take nx1 n1 r k [] x q0 in
               match o3 with
               | Item l => (Item l, (Some x, None, p3), (ev1 ++ ev0) ++ ev3)
               | _ => (pass o3, (Some x, Some acc3, p3), (ev1 ++ ev0) ++ ev3)
               end
           | _ => (pass o0, (None, None, q0), ev1 ++ ev0)
           end
       | _ => (pass o1, (cur, None, q1), ev1)
       end) = (o, (c1, pd1, p1'), ev) ->
      (let '(o1, q1, ev1) :=
         match cur with
         | Some prev => sruns_drain nx2 n2 r prev p2
         | None => (End, p2, [])
         end in
       match o1 with
       | End =>
           let '(o0, q0, ev0) := ipk_peek nx2 q1 in
           match o0 with
           | Item x =>
               let '(o3, (acc3, p3), ev3) := sruns_take nx2 n2 r k [] x q0 in
               match o3 with
               | Item l => (Item l, (Some x, None, p3), (ev1 ++ ev0) ++ ev3)
               | _ => (pass o3, (Some x, Some acc3, p3), (ev1 ++ ev0) ++ ev3)
               end
           | _ => (pass o0, (None, None, q0), ev1 ++ ev0)
           end
       | _ => (pass o1, (cur, None, q1), ev1)
       end) = (o2, (c2, pd2, p2'), ev2) ->
      o2 = Out \/ (o2 = o /\ ev2 = ev /\ c2 = c1 /\ pd2 = pd1 /\ Rpk L p1' p2')).
    { clear H1 H2. intros H1 H2.
      assert (Hdr : forall oa qa ea ob qb eb M,
        match cur with
        | Some prev => sruns_drain nx1 n1 r prev p1
        | None => (End, p1, [])
        end = (oa, qa, ea) ->
        match cur with
        | Some prev => sruns_drain nx2 n2 r prev p2
        | None => (End, p2, [])
        end = (ob, qb, eb) ->
        oa <> Out -> Rpk (ea ++ M) p1 p2 ->
        ob = Out \/ (ob = oa /\ eb = ea /\ Rpk M qa qb)).
      { intros oa qa ea ob qb eb M Ha Hb Hnoa HRa. destruct cur as [prev|].
        - exact (sruns_drain_pd _ _ _ _ _ _ _ _ _ _ _ _ _ Ha Hnoa HRa Hb).
        - inv_ret Ha. inv_ret Hb. right. auto. }
      destruct (match cur with
                | Some prev => sruns_drain nx1 n1 r prev p1
                | None => (End, p1, [])
                end) as [[oa qa] ea] eqn:Ea.
      destruct (match cur with
                | Some prev => sruns_drain nx2 n2 r prev p2
                | None => (End, p2, [])
                end) as [[ob qb] eb] eqn:Eb.
      destruct oa as [u| | | |].
      - inv_ret H1. congruence.
      - destruct (ipk_peek nx1 qa) as [[a1 q1] e1] eqn:E1.
        destruct a1 as [x| | | |].
        + assert (Hev : exists e3, ev = (ea ++ e1) ++ e3).
          { destruct (sruns_take nx1 n1 r k [] x q1) as [[o3 [a3 q3]] e3] eqn:E3.
            exists e3. destruct o3; inv_ret H1; reflexivity. }
          destruct Hev as [e3 Hev]. rewrite Hev, <- !app_assoc in HR.
          destruct (Hdr _ _ _ _ _ _ _ eq_refl eq_refl ltac:(discriminate) HR)
            as [Ho|(Ho & He & HR')]; [pd_out H2|].
          subst ob eb. destruct (ipk_peek nx2 qb) as [[a2 q2] e2] eqn:E2.
          destruct (ipk_peek_pd _ _ _ Hsim _ _ _ _ _ _ _ _ _ E1 ltac:(discriminate) HR' E2)
            as [Ho|(Ho & He & HR'')]; [pd_out H2|].
          subst a2 e2.
          eapply (stake_pd r k n1 n2 x [] (ea ++ e1) L q1 q2); [exact H1|exact Hno| |exact H2].
          intros ev3 He3. rewrite Hev in He3. apply app_inv_head in He3. subst ev3. exact HR''.
        + inv_ret H1. rewrite <- app_assoc in HR.
          destruct (Hdr _ _ _ _ _ _ _ eq_refl eq_refl ltac:(discriminate) HR)
            as [Ho|(Ho & He & HR')]; [pd_out H2|].
          subst ob eb. destruct (ipk_peek nx2 qb) as [[a2 q2] e2] eqn:E2.
          destruct (ipk_peek_pd _ _ _ Hsim _ _ _ _ _ _ _ _ _ E1 ltac:(discriminate) HR' E2)
            as [Ho|(Ho & He & HR'')]; [pd_out H2|].
          subst a2 e2. inv_ret H2. right. repeat split; auto; apply HR''.
        + inv_ret H1. rewrite <- app_assoc in HR.
          destruct (Hdr _ _ _ _ _ _ _ eq_refl eq_refl ltac:(discriminate) HR)
            as [Ho|(Ho & He & HR')]; [pd_out H2|].
          subst ob eb. destruct (ipk_peek nx2 qb) as [[a2 q2] e2] eqn:E2.
          destruct (ipk_peek_pd _ _ _ Hsim _ _ _ _ _ _ _ _ _ E1 ltac:(discriminate) HR' E2)
            as [Ho|(Ho & He & HR'')]; [pd_out H2|].
          subst a2 e2. inv_ret H2. right. repeat split; auto; apply HR''.
        + inv_ret H1. rewrite <- app_assoc in HR.
          destruct (Hdr _ _ _ _ _ _ _ eq_refl eq_refl ltac:(discriminate) HR)
            as [Ho|(Ho & He & HR')]; [pd_out H2|].
          subst ob eb. destruct (ipk_peek nx2 qb) as [[a2 q2] e2] eqn:E2.
          destruct (ipk_peek_pd _ _ _ Hsim _ _ _ _ _ _ _ _ _ E1 ltac:(discriminate) HR' E2)
            as [Ho|(Ho & He & HR'')]; [pd_out H2|].
          subst a2 e2. inv_ret H2. right. repeat split; auto; apply HR''.
        + inv_ret H1. congruence.
      - inv_ret H1.
        destruct (Hdr _ _ _ _ _ _ L eq_refl eq_refl ltac:(discriminate) HR)
          as [Ho|(Ho & He & HR')]; [pd_out H2|].
        subst ob eb. inv_ret H2. right. repeat split; auto; apply HR'.
      - inv_ret H1.
        destruct (Hdr _ _ _ _ _ _ L eq_refl eq_refl ltac:(discriminate) HR)
          as [Ho|(Ho & He & HR')]; [pd_out H2|].
        subst ob eb. inv_ret H2. right. repeat split; auto; apply HR'.
      - inv_ret H1. congruence. }
    unfold sruns in H1, H2. destruct pend as [acc|]; [destruct cur as [prev|]|].
    - eapply (stake_pd r k n1 n2 prev acc [] L p1 p2); [exact H1|exact Hno| |exact H2].
      intros ev3 He3. simpl in He3. subst ev3. exact HR.
    - exact (Hmain H1 H2).
    - exact (Hmain H1 H2).
  Qed.
End GenericPDS.

From Juniper Require Import Iter.Events Iter.StreamEvents.

(* ---- stream sources: the answers to Next calls with a live context ---- *)
Fixpoint ssrc_resp (s : ssrc) (i : nat) : res Z :=
  match i with
  | O => fst (ssrc_next true s)
  | S i' => ssrc_resp (snd (ssrc_next true s)) i'
  end.

(* does the source ignore the context?  Such a source answers a Next with an expired context
   exactly like a live one; every other source answers the context error and stays as it is. *)
Definition ssrc_nc (s : ssrc) : bool :=
  match s with SSScriptNC _ => true | _ => false end.

Lemma ssrc_nc_next live a : ssrc_nc (snd (ssrc_next live a)) = ssrc_nc a.
Proof.
  unfold ssrc_next. destruct a as [i|evs|evs]; simpl.
  - destruct (negb live); [reflexivity|]. destruct (isrc_next i) as [o i']. reflexivity.
  - destruct (negb live); [reflexivity|]. destruct (script_next evs) as [o evs']. reflexivity.
  - destruct (script_next evs) as [o evs']. reflexivity.
Qed.
Lemma ssrc_next_nc live a : ssrc_nc a = true -> ssrc_next live a = ssrc_next true a.
Proof. destruct a as [i|evs|evs]; simpl; intros H; try discriminate. reflexivity. Qed.
Lemma ssrc_next_expired a : ssrc_nc a = false -> ssrc_next false a = (Err ctx_err, a).
Proof. destruct a as [i|evs|evs]; simpl; intros H; try discriminate; reflexivity. Qed.

(* two sources agree for n calls: both look at the context or both ignore it, and their first n
   answers to calls with a live context are the same *)
Definition sagree (n : nat) (a b : ssrc) : Prop :=
  ssrc_nc b = ssrc_nc a /\ forall i, (i < n)%nat -> ssrc_resp a i = ssrc_resp b i.

Lemma sagree_le n m a b : (m <= n)%nat -> sagree n a b -> sagree m a b.
Proof. intros Hle [Hk H]. split; [exact Hk|]. intros i Hi. apply H. lia. Qed.
Lemma sagree_refl n a : sagree n a a.
Proof. split; [reflexivity|]. intros i _. reflexivity. Qed.

Lemma ssrc_next_agree live n a b :
  sagree (S n) a b ->
  fst (ssrc_next live b) = fst (ssrc_next live a) /\
  sagree n (snd (ssrc_next live a)) (snd (ssrc_next live b)).
Proof.
  intros H.
  assert (Hlive : fst (ssrc_next true b) = fst (ssrc_next true a) /\
                  sagree n (snd (ssrc_next true a)) (snd (ssrc_next true b))).
  { destruct H as [Hk H]. split.
    - symmetry. exact (H O ltac:(lia)).
    - split; [rewrite !ssrc_nc_next; exact Hk|]. intros i Hi. exact (H (S i) ltac:(lia)). }
  destruct live; [exact Hlive|].
  destruct (ssrc_nc a) eqn:Ka.
  - (* both ignore the context: the call is a live call *)
    assert (Kb : ssrc_nc b = true) by (destruct H as [Hk _]; congruence).
    rewrite (ssrc_next_nc false a Ka), (ssrc_next_nc false b Kb). exact Hlive.
  - (* both look at it: the context error, nothing consumed *)
    assert (Kb : ssrc_nc b = false) by (destruct H as [Hk _]; congruence).
    rewrite (ssrc_next_expired a Ka), (ssrc_next_expired b Kb). simpl.
    split; [reflexivity|]. eapply sagree_le; [|exact H]. lia.
Qed.

(* ---- the relation on stream states ---- *)
Fixpoint srel (L : list sev) (s1 s2 : sst) {struct s1} : Prop :=
  match s1, s2 with
  | TSrc id a, TSrc id2 b => id2 = id /\ sagree (count_next id L) a b
  | TPeek p, TPeek q =>
      pk_has q = pk_has p /\ pk_curr q = pk_curr p /\ srel L (pk_in p) (pk_in q)
  | TCompact r f pv p, TCompact r2 f2 pv2 q => r2 = r /\ f2 = f /\ pv2 = pv /\ srel L p q
  | TFilter k fl c p, TFilter k2 fl2 c2 q => k2 = k /\ fl2 = fl /\ c2 = c /\ srel L p q
  | TFirst x p, TFirst x2 q => x2 = x /\ srel L p q
  | TFlatten r c, TFlatten r2 c2 =>
      all2 (srel L) r r2 /\
      match c, c2 with
      | Some a, Some b => srel L a b
      | None, None => True
      | _, _ => False
      end
  | TJoin l, TJoin l2 => all2 (srel L) l l2
  | TMap g fl c p, TMap g2 fl2 c2 q => g2 = g /\ fl2 = fl /\ c2 = c /\ srel L p q
  | TWhile g fl c it h d p, TWhile g2 fl2 c2 it2 h2 d2 q =>
      g2 = g /\ fl2 = fl /\ c2 = c /\ it2 = it /\ h2 = h /\ d2 = d /\ srel L p q
  | TFlattenSlices b q, TFlattenSlices b2 q2 => b2 = b /\ slrel L q q2
  | _, _ => False
  end
with slrel (L : list sev) (q1 q2 : slst) {struct q1} : Prop :=
  match q1, q2 with
  | TChunk n ch p, TChunk n2 ch2 q => n2 = n /\ ch2 = ch /\ srel L p q
  | TRuns r k c pd p, TRuns r2 k2 c2 pd2 q =>
      r2 = r /\ k2 = k /\ c2 = c /\ pd2 = pd /\
      pk_has q = pk_has p /\ pk_curr q = pk_curr p /\ srel L (pk_in p) (pk_in q)
  | _, _ => False
  end.

Lemma srel_weak_both ev L :
  (forall s1 s2, srel (ev ++ L) s1 s2 -> srel L s1 s2) /\
  (forall q1 q2, slrel (ev ++ L) q1 q2 -> slrel L q1 q2).
Proof.
  apply sst_size_ind. intros n IH1 IH2. split.
  - intros s1 Hs s2 H.
    destruct s1 as [id a|p|r f pv p|k fl c p|x p|rest curr|its|g fl c p|g fl c it h d p|b q];
      destruct s2 as [id2 a2|p2|r2 f2 pv2 p2|k2 fl2 c2 p2|x2 p2|rest2 curr2|its2|g2 fl2 c2 p2
                     |g2 fl2 c2 it2 h2 d2 p2|b2 q2];
      cbn [srel slrel] in H; try contradiction; simpl in Hs; cbn [srel slrel].
    + destruct H as [Hid Ha]. split; [exact Hid|].
      eapply sagree_le; [|exact Ha]. apply count_next_app_le.
    + destruct H as (H1 & H2 & H3). repeat split; auto; try (apply IH1; [lia|exact H3]).
    + destruct H as (H1 & H2 & H3 & H4). repeat split; auto; try (apply IH1; [lia|exact H4]).
    + destruct H as (H1 & H2 & H3 & H4). repeat split; auto; try (apply IH1; [lia|exact H4]).
    + destruct H as (H1 & H2). split; auto; try (apply IH1; [lia|exact H2]).
    + destruct H as (H1 & H2). split.
      * eapply all2_impl_in; [|exact H1]. intros x y Hx Hxy. apply IH1; [|exact Hxy].
        pose proof (lsm_in (fun c => S (S (ssize c))) rest x Hx). simpl in *. lia.
      * destruct curr as [a|]; destruct curr2 as [b|]; auto. apply IH1; [lia|exact H2].
    + eapply all2_impl_in; [|exact H]. intros x y Hx Hxy. apply IH1; [|exact Hxy].
      pose proof (lsm_in (fun c => S (ssize c)) its x Hx). simpl in *. lia.
    + destruct H as (H1 & H2 & H3 & H4). repeat split; auto; try (apply IH1; [lia|exact H4]).
    + destruct H as (H1 & H2 & H3 & H4 & H5 & H6 & H7).
      repeat split; auto; try (apply IH1; [lia|exact H7]).
    + destruct H as (H1 & H2). split; auto; try (apply IH2; [lia|exact H2]).
  - intros q1 Hq q2 H.
    destruct q1 as [sz ch p|r k c pd p]; destruct q2 as [sz2 ch2 p2|r2 k2 c2 pd2 p2];
      cbn [srel slrel] in H; try contradiction; simpl in Hq; cbn [srel slrel].
    + destruct H as (H1 & H2 & H3). repeat split; auto; try (apply IH1; [lia|exact H3]).
    + destruct H as (H1 & H2 & H3 & H4 & H5 & H6 & H7).
      repeat split; auto; try (apply IH1; [lia|exact H7]).
Qed.

Lemma srel_weak ev L s1 s2 : srel (ev ++ L) s1 s2 -> srel L s1 s2.
Proof. apply (proj1 (srel_weak_both ev L)). Qed.

Lemma all2_flat_map {A} (P : A -> A -> Prop) (f : A -> list sev) l1 l2 :
  (forall x y, In x l1 -> P x y -> f y = f x) -> all2 P l1 l2 -> flat_map f l2 = flat_map f l1.
Proof.
  revert l2. induction l1 as [|x t IH]; intros [|y u] Hi H; simpl in *; auto; try contradiction.
  destruct H as [H1 H2]. rewrite (Hi x y (or_introl eq_refl) H1), (IH u); auto.
Qed.

(* related states are closed by the same Close calls *)
Lemma srel_close_both L :
  (forall s1 s2, srel L s1 s2 -> sclose s2 = sclose s1) /\
  (forall q1 q2, slrel L q1 q2 -> slclose q2 = slclose q1).
Proof.
  apply sst_size_ind. intros n IH1 IH2. split.
  - intros s1 Hs s2 H.
    destruct s1 as [id a|p|r f pv p|k fl c p|x p|rest curr|its|g fl c p|g fl c it h d p|b q];
      destruct s2 as [id2 a2|p2|r2 f2 pv2 p2|k2 fl2 c2 p2|x2 p2|rest2 curr2|its2|g2 fl2 c2 p2
                     |g2 fl2 c2 it2 h2 d2 p2|b2 q2];
      cbn [srel slrel] in H; try contradiction; simpl in Hs; cbn [sclose slclose].
    + destruct H as [Hid _]. congruence.
    + destruct H as (_ & _ & H3). apply IH1; [lia|exact H3].
    + destruct H as (_ & _ & _ & H4). apply IH1; [lia|exact H4].
    + destruct H as (_ & _ & _ & H4). apply IH1; [lia|exact H4].
    + destruct H as (_ & H2). apply IH1; [lia|exact H2].
    + destruct H as (_ & H2). destruct curr as [a|]; destruct curr2 as [b|]; try contradiction;
        [apply IH1; [lia|exact H2]|reflexivity].
    + eapply all2_flat_map; [|exact H]. intros x y Hx Hxy. apply IH1; [|exact Hxy].
      pose proof (lsm_in (fun c => S (ssize c)) its x Hx). simpl in *. lia.
    + destruct H as (_ & _ & _ & H4). apply IH1; [lia|exact H4].
    + destruct H as (_ & _ & _ & _ & _ & _ & H7). apply IH1; [lia|exact H7].
    + destruct H as (_ & H2). apply IH2; [lia|exact H2].
  - intros q1 Hq q2 H.
    destruct q1 as [sz ch p|r k c pd p]; destruct q2 as [sz2 ch2 p2|r2 k2 c2 pd2 p2];
      cbn [srel slrel] in H; try contradiction; simpl in Hq; cbn [sclose slclose].
    + destruct H as (_ & _ & H3). apply IH1; [lia|exact H3].
    + destruct H as (_ & _ & _ & _ & _ & _ & H7). apply IH1; [lia|exact H7].
Qed.

(* ---- the master theorem for streams: any context, any two fuels ---- *)
Theorem snext_pd live : forall f1 f2,
  pd_sim srel (snext f1 live) (snext f2 live) /\ pd_sim slrel (slnext f1 live) (slnext f2 live).
Proof.
  induction f1 as [|f IH]; intros f2.
  - split; intros L s1 s2 o s1' ev o2 s2' ev2 H1 Hno; simpl in H1; inv_ret H1; congruence.
  - destruct f2 as [|g].
    { split; intros L s1 s2 o s1' ev o2 s2' ev2 H1 Hno HR H2; simpl in H2; inv_ret H2;
        left; reflexivity. }
    destruct (IH g) as [IHz IHl].
    assert (Hw : forall ev L s1 s2, srel (ev ++ L) s1 s2 -> srel L s1 s2) by exact srel_weak.
    assert (Hcl : forall L s1 s2, srel L s1 s2 -> sclose s2 = sclose s1)
      by (intros L0; exact (proj1 (srel_close_both L0))).
    split; intros L s1 s2 o s1' ev o2 s2' ev2 H1 Hno HR H2.
    + destruct s1 as [id a|p|r fi pv p|k fl c p|x p|rest curr|its|fn fl c p|fn fl c it h d p
                     |b q];
        destruct s2 as [id2 a2|p2|r2 fi2 pv2 p2|k2 fl2 c2 p2|x2 p2|rest2 curr2|its2|fn2 fl2 c2 p2
                       |fn2 fl2 c2 it2 h2 d2 p2|b2 q2];
        cbn [srel slrel] in HR; try contradiction; cbn [snext] in H1, H2.
      * (* source *)
        destruct HR as [Hid Ha]. subst id2.
        destruct (ssrc_next live a) as [oa a'] eqn:Ea.
        destruct (ssrc_next live a2) as [ob b'] eqn:Eb.
        injection H1 as Eo1 Es1 Ee1. injection H2 as Eo2 Es2 Ee2.
        subst o s1' ev o2 s2' ev2. simpl in Ha. rewrite count_next_cons_same in Ha.
        destruct (ssrc_next_agree live _ _ _ Ha) as [Hf Hr]. rewrite Ea, Eb in Hf, Hr.
        simpl in Hf, Hr. right. cbn [srel].
        split; [exact Hf|]. split; [reflexivity|]. split; [reflexivity|exact Hr].
      * (* peek *)
        destruct (ipk_next (snext f live) p) as [[a1 q1] e1] eqn:E1.
        destruct (ipk_next (snext g live) p2) as [[a2 q2] e2] eqn:E2. inv_ret H1. inv_ret H2.
        destruct (ipk_next_pd _ _ _ IHz _ _ _ _ _ _ _ _ _ E1 Hno HR E2)
          as [Ho|(Ho & He & HR')]; [left; exact Ho|right; auto].
      * (* compact *)
        destruct HR as (Hr & Hfi & Hpv & HR). subst r2 fi2 pv2.
        destruct (icompact (snext f live) (S f) r fi pv p) as [[a1 [[f3 p3] q1]] e1] eqn:E1.
        destruct (icompact (snext g live) (S g) r fi pv p2) as [[a2 [[f4 p4] q2]] e2] eqn:E2.
        inv_ret H1. inv_ret H2.
        destruct (icompact_pd _ _ _ IHz _ _ _ _ _ _ _ _ _ _ _ _ _ _ _ _ _ _ E1 Hno HR E2)
          as [Ho|(Ho & He & Hf & Hp & HR')]; [left; exact Ho|right]. subst. repeat split; auto.
      * (* filter *)
        destruct HR as (Hk & Hfl & Hc & HR). subst k2 fl2 c2.
        destruct (sfilter (snext f live) (S f) k fl c p) as [[a1 [c3 q1]] e1] eqn:E1.
        destruct (sfilter (snext g live) (S g) k fl c p2) as [[a2 [c4 q2]] e2] eqn:E2.
        inv_ret H1. inv_ret H2.
        destruct (sfilter_pd _ _ _ IHz _ _ _ _ _ _ _ _ _ _ _ _ _ _ _ _ E1 Hno HR E2)
          as [Ho|(Ho & He & Hc & HR')]; [left; exact Ho|right]. subst. repeat split; auto.
      * (* first *)
        destruct HR as (Hx & HR). subst x2.
        destruct (sfirst (snext f live) x p) as [[a1 [x3 q1]] e1] eqn:E1.
        destruct (sfirst (snext g live) x p2) as [[a2 [x4 q2]] e2] eqn:E2.
        inv_ret H1. inv_ret H2.
        destruct (sfirst_pd _ _ _ IHz _ _ _ _ _ _ _ _ _ _ _ _ E1 Hno HR E2)
          as [Ho|(Ho & He & Hx & HR')]; [left; exact Ho|right]. subst. repeat split; auto.
      * (* flatten *)
        destruct HR as (HF & HC). apply all2_Forall2 in HF.
        destruct (sflatten (snext f live) sclose (S f) live rest curr)
          as [[a1 [r3 c3]] e1] eqn:E1.
        destruct (sflatten (snext g live) sclose (S g) live rest2 curr2)
          as [[a2 [r4 c4]] e2] eqn:E2.
        inv_ret H1. inv_ret H2.
        destruct (sflatten_pd _ _ _ _ _ IHz Hw Hcl _ _ _ _ _ _ _ _ _ _ _ _ _ _ _ _ E1 Hno HF HC E2)
          as [Ho|(Ho & He & HF' & HC')]; [left; exact Ho|right]. subst.
        repeat split; auto. apply all2_Forall2. exact HF'.
      * (* join *)
        apply all2_Forall2 in HR.
        destruct (sjoin (snext f live) sclose (S f) its) as [[a1 r3] e1] eqn:E1.
        destruct (sjoin (snext g live) sclose (S g) its2) as [[a2 r4] e2] eqn:E2.
        inv_ret H1. inv_ret H2.
        destruct (sjoin_pd _ _ _ _ _ IHz Hw Hcl _ _ _ _ _ _ _ _ _ _ _ E1 Hno HR E2)
          as [Ho|(Ho & He & HF')]; [left; exact Ho|right]. subst.
        repeat split; auto. apply all2_Forall2. exact HF'.
      * (* map *)
        destruct HR as (Hk & Hfl & Hc & HR). subst fn2 fl2 c2.
        destruct (smap (snext f live) fn fl c p) as [[a1 [c3 q1]] e1] eqn:E1.
        destruct (smap (snext g live) fn fl c p2) as [[a2 [c4 q2]] e2] eqn:E2.
        inv_ret H1. inv_ret H2.
        destruct (smap_pd _ _ _ IHz _ _ _ _ _ _ _ _ _ _ _ _ _ _ E1 Hno HR E2)
          as [Ho|(Ho & He & Hc & HR')]; [left; exact Ho|right]. subst. repeat split; auto.
      * (* while *)
        destruct HR as (Hk & Hfl & Hc & Hit & Hh & Hd & HR). subst fn2 fl2 c2 it2 h2 d2.
        destruct (swhile (snext f live) fn fl c it h d p)
          as [[a1 [[[[c3 i3] h3] d3] q1]] e1] eqn:E1.
        destruct (swhile (snext g live) fn fl c it h d p2)
          as [[a2 [[[[c4 i4] h4] d4] q2]] e2] eqn:E2.
        inv_ret H1. inv_ret H2.
        destruct (swhile_pd _ _ _ IHz _ _ _ _ _ _ _ _ _ _ _ _ _ _ _ _ _ _ _ _ _ _ _ E1 Hno HR E2)
          as [Ho|(Ho & He & Hc & Hi & Hh & Hd & HR')]; [left; exact Ho|right]. subst.
        repeat split; auto.
      * (* flatten slices *)
        destruct HR as (Hb & HR). subst b2.
        destruct (iflatslices (slnext f live) (S f) b q) as [[a1 [b3 q1]] e1] eqn:E1.
        destruct (iflatslices (slnext g live) (S g) b q2) as [[a2 [b4 q3]] e2] eqn:E2.
        inv_ret H1. inv_ret H2.
        destruct (iflatslices_pd _ _ _ IHl _ _ _ _ _ _ _ _ _ _ _ _ _ _ E1 Hno HR E2)
          as [Ho|(Ho & He & Hb & HR')]; [left; exact Ho|right]. subst. repeat split; auto.
    + destruct s1 as [sz ch p|r k c pd p]; destruct s2 as [sz2 ch2 p2|r2 k2 c2 pd2 p2];
        cbn [srel slrel] in HR; try contradiction; cbn [slnext] in H1, H2.
      * destruct HR as (Hs & Hch & HR). subst sz2 ch2.
        destruct (schunk (snext f live) (S f) sz ch p) as [[a1 [c3 q1]] e1] eqn:E1.
        destruct (schunk (snext g live) (S g) sz ch p2) as [[a2 [c4 q2]] e2] eqn:E2.
        inv_ret H1. inv_ret H2.
        destruct (schunk_pd _ _ _ IHz _ _ _ _ _ _ _ _ _ _ _ _ _ _ _ E1 Hno HR E2)
          as [Ho|(Ho & He & Hc & HR')]; [left; exact Ho|right]. subst. repeat split; auto.
      * destruct HR as (Hr & Hk & Hc & Hpd & HR). subst r2 k2 c2 pd2.
        destruct (sruns (snext f live) (S f) r k c pd p) as [[a1 [[c3 d3] q1]] e1] eqn:E1.
        destruct (sruns (snext g live) (S g) r k c pd p2) as [[a2 [[c4 d4] q2]] e2] eqn:E2.
        inv_ret H1. inv_ret H2.
        destruct (sruns_pd _ _ _ IHz _ _ _ _ _ _ _ _ _ _ _ _ _ _ _ _ _ _ _ E1 Hno HR E2)
          as [Ho|(Ho & He & Hc & Hd & HR')]; [left; exact Ho|right]. subst.
        destruct HR' as (Hh & Hcu & HR'). repeat split; auto.
Qed.

(* ---- consumer programs ---- *)
Definition qrel (L : list sev) (s1 s2 : srun_st) : Prop :=
  match s1, s2 with
  | QZ a, QZ b => srel L a b
  | QL a, QL b => slrel L a b
  | _, _ => False
  end.

Lemma qrel_weak ev L s1 s2 : qrel (ev ++ L) s1 s2 -> qrel L s1 s2.
Proof.
  destruct s1; destruct s2; simpl; auto;
    [apply (proj1 (srel_weak_both ev L))|apply (proj2 (srel_weak_both ev L))].
Qed.

Lemma qrel_close L s1 s2 : qrel L s1 s2 -> srun_close s2 = srun_close s1.
Proof.
  destruct s1; destruct s2; simpl; try contradiction;
    [apply (proj1 (srel_close_both L))|apply (proj2 (srel_close_both L))].
Qed.

Lemma srun_next_pd live L s1 s2 o s1' ev :
  srun_next live s1 = (o, s1', ev) -> qrel (ev ++ L) s1 s2 ->
  exists s2', srun_next live s2 = (o, s2', ev) /\ qrel L s1' s2'.
Proof.
  intros H1 HR. destruct s1 as [a|a]; destruct s2 as [b|b]; simpl in HR; try contradiction;
    simpl in *.
  - destruct (sstep live a) as [[o1 a1] e1] eqn:E1.
    destruct (sstep live b) as [[o2 b1] e2] eqn:E2.
    inv_ret H1. pose proof (snext_fuel_enough _ _ _ _ _ E1) as Hn1.
    pose proof (snext_fuel_enough _ _ _ _ _ E2) as Hn2. unfold sstep in E1, E2.
    destruct (proj1 (snext_pd live _ _) _ _ _ _ _ _ _ _ _ E1 Hn1 HR E2)
      as [Ho|(Ho & He & HR')]; [congruence|].
    subst. exists (QZ b1). split; [reflexivity|exact HR'].
  - destruct (slstep live a) as [[o1 a1] e1] eqn:E1.
    destruct (slstep live b) as [[o2 b1] e2] eqn:E2.
    inv_ret H1. pose proof (slnext_fuel_enough _ _ _ _ _ E1) as Hn1.
    pose proof (slnext_fuel_enough _ _ _ _ _ E2) as Hn2. unfold slstep in E1, E2.
    destruct (proj2 (snext_pd live _ _) _ _ _ _ _ _ _ _ _ E1 Hn1 HR E2)
      as [Ho|(Ho & He & HR')]; [congruence|].
    subst. exists (QL b1). split; [reflexivity|exact HR'].
Qed.

Lemma srun_steps_log ids : forall ops s log steps log',
  srun_steps ids s log ops = (steps, log') -> exists E, log' = log ++ E.
Proof.
  induction ops as [|op ops IH]; intros s log steps log' H; simpl in H.
  - injection H as Hs Hl. exists []. rewrite app_nil_r. symmetry. exact Hl.
  - destruct op as [live|].
    + destruct (srun_next live s) as [[o s1] ev1] eqn:E. destruct (stops o).
      * injection H as Hs Hl. exists ev1. symmetry. exact Hl.
      * destruct (srun_steps ids s1 (log ++ ev1) ops) as [r l] eqn:E2.
        injection H as Hs Hl. destruct (IH _ _ _ _ E2) as [E' HE].
        exists (ev1 ++ E'). rewrite <- Hl, HE, app_assoc. reflexivity.
    + destruct (srun_steps ids s (log ++ srun_close s) ops) as [r l] eqn:E2.
      injection H as Hs Hl. destruct (IH _ _ _ _ E2) as [E' HE].
      exists (srun_close s ++ E'). rewrite <- Hl, HE, app_assoc. reflexivity.
Qed.

Lemma srun_steps_pd ids : forall ops s1 s2 log steps E,
  srun_steps ids s1 log ops = (steps, log ++ E) -> qrel E s1 s2 ->
  srun_steps ids s2 log ops = (steps, log ++ E).
Proof.
  induction ops as [|op ops IH]; intros s1 s2 log steps E H HR; simpl in H; simpl.
  - exact H.
  - destruct op as [live|].
    + destruct (srun_next live s1) as [[o s1'] ev1] eqn:E1. destruct (stops o) eqn:Es.
      * injection H as H Hl. apply app_inv_head in Hl. subst E steps.
        rewrite <- (app_nil_r ev1) in HR.
        destruct (srun_next_pd _ _ _ _ _ _ _ E1 HR) as (s2' & E2 & _). rewrite E2, Es.
        reflexivity.
      * destruct (srun_steps ids s1' (log ++ ev1) ops) as [r l] eqn:E3.
        injection H as H Hl. subst steps l.
        destruct (srun_steps_log _ _ _ _ _ _ E3) as [E' HE]. rewrite <- app_assoc in HE.
        apply app_inv_head in HE. subst E.
        destruct (srun_next_pd _ _ _ _ _ _ _ E1 HR) as (s2' & E2 & HR'). rewrite E2, Es.
        rewrite app_assoc in E3. rewrite (IH _ _ _ _ _ E3 HR'). rewrite <- app_assoc.
        reflexivity.
    + destruct (srun_steps ids s1 (log ++ srun_close s1) ops) as [r l] eqn:E3.
      injection H as H Hl. subst steps l.
      destruct (srun_steps_log _ _ _ _ _ _ E3) as [E' HE]. rewrite <- app_assoc in HE.
      apply app_inv_head in HE. subst E.
      rewrite (qrel_close _ _ _ HR). apply qrel_weak in HR.
      rewrite app_assoc in E3. rewrite (IH _ _ _ _ _ E3 HR). rewrite <- app_assoc.
      reflexivity.
Qed.

(* ---- pipelines that differ only in their sources ---- *)
(* the answer of source s to its (i+1)-th Next call with a live context *)
Definition stream_answer (s : source) (i : nat) : res Z := ssrc_resp (ssrc_init s) i.

(* sources that agree for the first (n id) calls: the same attitude to the context (src_nc:
   the source never looks at it) and the same first (n id) answers to calls with a live context.
   (Without the first condition the run could tell them apart by a call with an expired context:
   [stream_prefix_determinacy_kind_refuted].) *)
Definition ssrc_agree (n : nat -> nat) (id : nat) (s s2 : source) : Prop :=
  src_nc s2 = src_nc s /\
  forall i, (i < n id)%nat -> stream_answer s i = stream_answer s2 i.
Definition spipe_agree (n : nat -> nat) := pipe_agree_with (ssrc_agree n).

Lemma ssrc_nc_init s : ssrc_nc (ssrc_init s) = src_nc s.
Proof. destruct s; reflexivity. Qed.

Lemma sinit_rel L :
  (forall p1 p2, pz_agree_with (ssrc_agree (fun id => count_next id L)) p1 p2 ->
                 srel L (sinit p1) (sinit p2)) /\
  (forall q1 q2, pl_agree_with (ssrc_agree (fun id => count_next id L)) q1 q2 ->
                 slrel L (slinit q1) (slinit q2)).
Proof.
  apply pipe_ind.
  - intros id s [id2 s2| | | | | | | | |]; simpl; auto.
    intros [Hid [Hk Ha]]. split; [exact Hid|]. split; [rewrite !ssrc_nc_init; exact Hk|exact Ha].
  - intros p IH [|q| | | | | | | |]; simpl; auto.
  - intros r p IH [| |r2 q| | | | | | |]; simpl; auto. intros [H1 H2]. auto.
  - intros f fl p IH [| | |f2 fl2 q| | | | | |]; simpl; auto. intros (H1 & H2 & H3). auto.
  - intros n p IH [| | | |n2 q| | | | |]; simpl; auto. intros [H1 H2]. auto.
  - intros ps IH [| | | | |qs| | | |]; simpl; auto. intros H. split; [|exact I].
    eapply all2_map; [|exact H]. exact IH.
  - intros ps IH [| | | | | |qs| | |]; simpl; auto. intros H.
    eapply all2_map; [|exact H]. exact IH.
  - intros f fl p IH [| | | | | | |f2 fl2 q| |]; simpl; auto. intros (H1 & H2 & H3). auto.
  - intros f fl p IH [| | | | | | | |f2 fl2 q|]; simpl; auto.
    intros (H1 & H2 & H3). repeat split; auto.
  - intros q IH [| | | | | | | | |q2]; simpl; auto.
  - intros n p IH [n2 q|]; simpl; auto. intros [H1 H2]. auto.
  - intros r k p IH [|r2 k2 q]; simpl; auto. intros (H1 & H2 & H3). repeat split; auto.
Qed.

(* ---- (a) prefix determinacy for streams, run level ---- *)
Theorem stream_prefix_determinacy cfg p1 p2 ops :
  spipe_agree (pulls_in (run_stream_cfg cfg p1 (Steps ops))) p1 p2 ->
  run_stream_cfg cfg p2 (Steps ops) = run_stream_cfg cfg p1 (Steps ops).
Proof.
  unfold pulls_in, run_stream_cfg, spipe_agree. intros Hag.
  destruct (srun_steps (sort_ids (pipe_ids p1)) (srun_init p1) [] ops) as [steps log] eqn:E1.
  simpl in Hag.
  assert (Hids : pipe_ids p2 = pipe_ids p1).
  { destruct p1 as [a|a]; destruct p2 as [b|b]; simpl in Hag; try contradiction; simpl;
      [eapply (proj1 (agree_ids _))|eapply (proj2 (agree_ids _))]; exact Hag. }
  assert (HR : qrel log (srun_init p1) (srun_init p2)).
  { destruct p1 as [a|a]; destruct p2 as [b|b]; simpl in Hag; try contradiction; simpl;
      [apply (proj1 (sinit_rel log))|apply (proj2 (sinit_rel log))]; exact Hag. }
  rewrite Hids.
  change log with ([] ++ log) in E1.
  rewrite (srun_steps_pd _ _ _ _ _ _ _ E1 HR). reflexivity.
Qed.

Theorem stream_unread_irrelevant cfg p ops g :
  (forall id s, src_nc (g id s) = src_nc s) ->
  (forall id s i, (i < pulls_in (run_stream_cfg cfg p (Steps ops)) id)%nat ->
                  stream_answer s i = stream_answer (g id s) i) ->
  run_stream_cfg cfg (pipe_resrc g p) (Steps ops) = run_stream_cfg cfg p (Steps ops).
Proof.
  intros Hk Hg. apply stream_prefix_determinacy. unfold spipe_agree.
  assert (Hg' : forall id s,
            ssrc_agree (pulls_in (run_stream_cfg cfg p (Steps ops))) id s (g id s))
    by (intros id s; split; [apply Hk|intros i Hi; apply Hg; exact Hi]).
  destruct p as [p|q]; simpl;
    [apply (proj1 (resrc_agree _ g Hg'))|apply (proj2 (resrc_agree _ g Hg'))].
Qed.

(* non-vacuity: a transient error, an expired context and a Close; the script is cut after the
   events that were read and continued differently *)
Definition spd_demo : pz + pl :=
  inr (LChunk 2 (ZFilter (PrLt 10) never_fails
         (ZSrc 0 (SScript [EvItem 1; EvTransient 9; EvItem 20; EvItem 2; EvItem 3; EvFatal 7])))).
Definition spd_demo2 : pz + pl :=
  inr (LChunk 2 (ZFilter (PrLt 10) never_fails
         (ZSrc 0 (SScript [EvItem 1; EvTransient 9; EvItem 20; EvItem 2; EvItem 3; EvItem 5])))).
Definition spd_ops : list cop := [CNext true; CNext false; CNext true; CClose].

Example spd_demo_run :
  map so_res (ro_steps (run_stream spd_demo (Steps spd_ops)))
  = [RErr 9; RErr (-1); RItem (IL [1; 2]); RUnit] /\
  pulls_in (run_stream spd_demo (Steps spd_ops)) 0%nat = 5%nat.
Proof. vm_compute. split; reflexivity. Qed.

Example spd_demo_same :
  run_stream spd_demo2 (Steps spd_ops) = run_stream spd_demo (Steps spd_ops).
Proof.
  apply stream_prefix_determinacy. unfold spipe_agree, spd_demo, spd_demo2.
  cbn [pipe_agree_with pl_agree_with pz_agree_with].
  repeat split. intros i Hi.
  assert (H5 : pulls_in (run_stream spd_demo (Steps spd_ops)) 0%nat = 5%nat)
    by (vm_compute; reflexivity).
  assert (Hi' : (i < 5)%nat) by (rewrite <- H5; exact Hi). clear Hi H5.
  repeat (destruct i as [|i]; [reflexivity|]). lia.
Qed.

(* the same over a source that ignores the context: the call with the expired context reads on
   (it completes the chunk), and still only what was read matters *)
Definition spd_nc_demo : pz + pl :=
  inr (LChunk 2 (ZFilter (PrLt 10) never_fails
         (ZSrc 0 (SScriptNC [EvItem 1; EvTransient 9; EvItem 20; EvItem 2; EvItem 3; EvFatal 7])))).
Definition spd_nc_demo2 : pz + pl :=
  inr (LChunk 2 (ZFilter (PrLt 10) never_fails
         (ZSrc 0 (SScriptNC [EvItem 1; EvTransient 9; EvItem 20; EvItem 2; EvFatal 8])))).
Definition spd_nc_ops : list cop := [CNext true; CNext false; CClose].

Example spd_nc_demo_run :
  map so_res (ro_steps (run_stream spd_nc_demo (Steps spd_nc_ops)))
  = [RErr 9; RItem (IL [1; 2]); RUnit] /\
  pulls_in (run_stream spd_nc_demo (Steps spd_nc_ops)) 0%nat = 4%nat.
Proof. vm_compute. split; reflexivity. Qed.

Example spd_nc_demo_same :
  run_stream spd_nc_demo2 (Steps spd_nc_ops) = run_stream spd_nc_demo (Steps spd_nc_ops).
Proof.
  apply stream_prefix_determinacy. unfold spipe_agree, spd_nc_demo, spd_nc_demo2.
  cbn [pipe_agree_with pl_agree_with pz_agree_with].
  split; [reflexivity|]. split; [reflexivity|]. split; [reflexivity|]. split; [reflexivity|].
  split; [reflexivity|]. intros i Hi.
  assert (H4 : pulls_in (run_stream spd_nc_demo (Steps spd_nc_ops)) 0%nat = 4%nat)
    by (vm_compute; reflexivity).
  assert (Hi' : (i < 4)%nat) by (rewrite <- H4; exact Hi). clear Hi H4.
  repeat (destruct i as [|i]; [reflexivity|]). lia.
Qed.

(* The condition "same attitude to the context" in [ssrc_agree] cannot be dropped: a source that
   looks at the context and one that ignores it, with the same script, give the same answers to
   calls with a live context, and a single call with an expired context tells them apart. *)
Theorem stream_prefix_determinacy_kind_refuted :
  exists p1 p2 ops,
    pipe_agree_with
      (fun id s s2 => forall i, (i < pulls_in (run_stream p1 (Steps ops)) id)%nat ->
                                stream_answer s i = stream_answer s2 i) p1 p2 /\
    run_stream p2 (Steps ops) <> run_stream p1 (Steps ops).
Proof.
  exists (inl (ZSrc 0 (SScript [EvItem 1]))), (inl (ZSrc 0 (SScriptNC [EvItem 1]))),
         [CNext false].
  split.
  - cbn [pipe_agree_with pz_agree_with]. split; [reflexivity|]. intros i Hi.
    assert (H1 : pulls_in (run_stream (inl (ZSrc 0 (SScript [EvItem 1]))) (Steps [CNext false]))
                          0%nat = 1%nat) by (vm_compute; reflexivity).
    assert (Hi' : (i < 1)%nat) by (rewrite <- H1; exact Hi). clear Hi H1.
    destruct i as [|i]; [reflexivity|lia].
  - vm_compute. discriminate.
Qed.

(* ---- no combinator looks at the context itself ----
   States none of whose parts looks at the context: every source ignores it (SSScriptNC) and
   there is no Flatten (whose outer stream is a FromIterator).  On such a state a Next with an
   expired context IS a Next with a live context: same result, same source events, same
   successor.  So any check of the context inside a combinator (say filterStream.Next looking at
   ctx.Err() after a successful inner Next, and dropping the item it has just pulled) would
   contradict this theorem. *)
Fixpoint sblind (s : sst) : Prop :=
  match s with
  | TSrc _ src => ssrc_nc src = true
  | TPeek p => sblind (pk_in p)
  | TCompact _ _ _ p | TFilter _ _ _ p | TFirst _ p | TMap _ _ _ p | TWhile _ _ _ _ _ _ p =>
      sblind p
  | TFlatten _ _ => False
  | TJoin rem => all_p sblind rem
  | TFlattenSlices _ q => slblind q
  end
with slblind (q : slst) : Prop :=
  match q with
  | TChunk _ _ p => sblind p
  | TRuns _ _ _ _ p => sblind (pk_in p)
  end.

Definition brel (L : list sev) (s1 s2 : sst) : Prop := s2 = s1 /\ sblind s1.
Definition blrel (L : list sev) (q1 q2 : slst) : Prop := q2 = q1 /\ slblind q1.

Lemma Rpk_brel_refl L (p : pk sst) : sblind (pk_in p) -> Rpk brel L p p.
Proof. intros H. split; [reflexivity|]. split; [reflexivity|]. split; [reflexivity|exact H]. Qed.
Lemma Rpk_brel_inv L (p1 p2 : pk sst) : Rpk brel L p1 p2 -> p2 = p1 /\ sblind (pk_in p1).
Proof.
  destruct p1 as [h1 c1 i1]; destruct p2 as [h2 c2 i2]. intros (H1 & H2 & H3 & H4).
  simpl in *. subst. split; [reflexivity|exact H4].
Qed.
Lemma Forall2_brel_refl L l : all_p sblind l -> Forall2 (brel L) l l.
Proof.
  induction l as [|x t IH]; simpl; intros H; constructor.
  - split; [reflexivity|exact (proj1 H)].
  - apply IH. exact (proj2 H).
Qed.
Lemma Forall2_brel_inv L l1 l2 : Forall2 (brel L) l1 l2 -> l2 = l1 /\ all_p sblind l1.
Proof.
  induction 1 as [|x y t u [Hxy Hb] Ht [IH1 IH2]]; simpl; [auto|].
  subst. split; [reflexivity|split; assumption].
Qed.

Theorem snext_blind : forall f1 f2,
  pd_sim brel (snext f1 false) (snext f2 true) /\
  pd_sim blrel (slnext f1 false) (slnext f2 true).
Proof.
  induction f1 as [|f IH]; intros f2.
  - split; intros L s1 s2 o s1' ev o2 s2' ev2 H1 Hno; simpl in H1; inv_ret H1; congruence.
  - destruct f2 as [|g].
    { split; intros L s1 s2 o s1' ev o2 s2' ev2 H1 Hno HR H2; simpl in H2; inv_ret H2;
        left; reflexivity. }
    destruct (IH g) as [IHz IHl].
    assert (Hw : forall ev L s1 s2, brel (ev ++ L) s1 s2 -> brel L s1 s2)
      by (intros ev0 L0 a b Hab; exact Hab).
    assert (Hcl : forall (L : list sev) s1 s2, brel L s1 s2 -> sclose s2 = sclose s1)
      by (intros L0 a b [Hab _]; rewrite Hab; reflexivity).
    split; intros L s1 s2 o s1' ev o2 s2' ev2 H1 Hno [Heq HB] H2; subst s2.
    + destruct s1 as [id a|p|r fi pv p|k fl c p|x p|rest curr|its|fn fl c p|fn fl c it h d p
                     |b q]; cbn [sblind slblind] in HB; cbn [snext] in H1, H2.
      * (* source: it ignores the context *)
        rewrite (ssrc_next_nc false a HB) in H1.
        pose proof (ssrc_nc_next true a) as Hk.
        destruct (ssrc_next true a) as [oa a'] eqn:Ea.
        injection H1 as Eo1 Es1 Ee1. injection H2 as Eo2 Es2 Ee2.
        subst o s1' ev o2 s2' ev2. simpl in Hk. right.
        split; [reflexivity|]. split; [reflexivity|]. split; [reflexivity|].
        cbn [sblind]. rewrite Hk. exact HB.
      * (* peek *)
        destruct (ipk_next (snext f false) p) as [[a1 q1] e1] eqn:E1.
        destruct (ipk_next (snext g true) p) as [[a2 q2] e2] eqn:E2. inv_ret H1. inv_ret H2.
        assert (HR : Rpk brel (ev ++ L) p p) by (apply Rpk_brel_refl; exact HB).
        destruct (ipk_next_pd _ _ _ IHz _ _ _ _ _ _ _ _ _ E1 Hno HR E2)
          as [Ho|(Ho & He & HR')]; [left; exact Ho|right].
        destruct (Rpk_brel_inv _ _ _ HR') as [Hq Hb]. subst. repeat split; auto.
      * (* compact *)
        destruct (icompact (snext f false) (S f) r fi pv p) as [[a1 [[f3 p3] q1]] e1] eqn:E1.
        destruct (icompact (snext g true) (S g) r fi pv p) as [[a2 [[f4 p4] q2]] e2] eqn:E2.
        inv_ret H1. inv_ret H2.
        assert (HR : brel (ev ++ L) p p) by (split; [reflexivity|exact HB]).
        destruct (icompact_pd _ _ _ IHz _ _ _ _ _ _ _ _ _ _ _ _ _ _ _ _ _ _ E1 Hno HR E2)
          as [Ho|(Ho & He & Hf & Hp & [Hq Hb])]; [left; exact Ho|right]. subst.
        repeat split; auto.
      * (* filter *)
        destruct (sfilter (snext f false) (S f) k fl c p) as [[a1 [c3 q1]] e1] eqn:E1.
        destruct (sfilter (snext g true) (S g) k fl c p) as [[a2 [c4 q2]] e2] eqn:E2.
        inv_ret H1. inv_ret H2.
        assert (HR : brel (ev ++ L) p p) by (split; [reflexivity|exact HB]).
        destruct (sfilter_pd _ _ _ IHz _ _ _ _ _ _ _ _ _ _ _ _ _ _ _ _ E1 Hno HR E2)
          as [Ho|(Ho & He & Hc & [Hq Hb])]; [left; exact Ho|right]. subst. repeat split; auto.
      * (* first *)
        destruct (sfirst (snext f false) x p) as [[a1 [x3 q1]] e1] eqn:E1.
        destruct (sfirst (snext g true) x p) as [[a2 [x4 q2]] e2] eqn:E2.
        inv_ret H1. inv_ret H2.
        assert (HR : brel (ev ++ L) p p) by (split; [reflexivity|exact HB]).
        destruct (sfirst_pd _ _ _ IHz _ _ _ _ _ _ _ _ _ _ _ _ E1 Hno HR E2)
          as [Ho|(Ho & He & Hx & [Hq Hb])]; [left; exact Ho|right]. subst. repeat split; auto.
      * (* flatten: its outer stream looks at the context *)
        destruct HB.
      * (* join *)
        destruct (sjoin (snext f false) sclose (S f) its) as [[a1 r3] e1] eqn:E1.
        destruct (sjoin (snext g true) sclose (S g) its) as [[a2 r4] e2] eqn:E2.
        inv_ret H1. inv_ret H2.
        assert (HR : Forall2 (brel (ev ++ L)) its its) by (apply Forall2_brel_refl; exact HB).
        destruct (sjoin_pd _ _ _ _ _ IHz Hw Hcl _ _ _ _ _ _ _ _ _ _ _ E1 Hno HR E2)
          as [Ho|(Ho & He & HF')]; [left; exact Ho|right].
        destruct (Forall2_brel_inv _ _ _ HF') as [Hq Hb]. subst. repeat split; auto.
      * (* map *)
        destruct (smap (snext f false) fn fl c p) as [[a1 [c3 q1]] e1] eqn:E1.
        destruct (smap (snext g true) fn fl c p) as [[a2 [c4 q2]] e2] eqn:E2.
        inv_ret H1. inv_ret H2.
        assert (HR : brel (ev ++ L) p p) by (split; [reflexivity|exact HB]).
        destruct (smap_pd _ _ _ IHz _ _ _ _ _ _ _ _ _ _ _ _ _ _ E1 Hno HR E2)
          as [Ho|(Ho & He & Hc & [Hq Hb])]; [left; exact Ho|right]. subst. repeat split; auto.
      * (* while *)
        destruct (swhile (snext f false) fn fl c it h d p)
          as [[a1 [[[[c3 i3] h3] d3] q1]] e1] eqn:E1.
        destruct (swhile (snext g true) fn fl c it h d p)
          as [[a2 [[[[c4 i4] h4] d4] q2]] e2] eqn:E2.
        inv_ret H1. inv_ret H2.
        assert (HR : brel (ev ++ L) p p) by (split; [reflexivity|exact HB]).
        destruct (swhile_pd _ _ _ IHz _ _ _ _ _ _ _ _ _ _ _ _ _ _ _ _ _ _ _ _ _ _ _ E1 Hno HR E2)
          as [Ho|(Ho & He & Hc & Hi & Hh & Hd & [Hq Hb])]; [left; exact Ho|right]. subst.
        repeat split; auto.
      * (* flatten slices *)
        destruct (iflatslices (slnext f false) (S f) b q) as [[a1 [b3 q1]] e1] eqn:E1.
        destruct (iflatslices (slnext g true) (S g) b q) as [[a2 [b4 q3]] e2] eqn:E2.
        inv_ret H1. inv_ret H2.
        assert (HR : blrel (ev ++ L) q q) by (split; [reflexivity|exact HB]).
        destruct (iflatslices_pd _ _ _ IHl _ _ _ _ _ _ _ _ _ _ _ _ _ _ E1 Hno HR E2)
          as [Ho|(Ho & He & Hb & [Hq Hbl])]; [left; exact Ho|right]. subst. repeat split; auto.
    + destruct s1 as [sz ch p|r k c pd p]; cbn [sblind slblind] in HB; cbn [slnext] in H1, H2.
      * destruct (schunk (snext f false) (S f) sz ch p) as [[a1 [c3 q1]] e1] eqn:E1.
        destruct (schunk (snext g true) (S g) sz ch p) as [[a2 [c4 q2]] e2] eqn:E2.
        inv_ret H1. inv_ret H2.
        assert (HR : brel (ev ++ L) p p) by (split; [reflexivity|exact HB]).
        destruct (schunk_pd _ _ _ IHz _ _ _ _ _ _ _ _ _ _ _ _ _ _ _ E1 Hno HR E2)
          as [Ho|(Ho & He & Hc & [Hq Hb])]; [left; exact Ho|right]. subst. repeat split; auto.
      * destruct (sruns (snext f false) (S f) r k c pd p) as [[a1 [[c3 d3] q1]] e1] eqn:E1.
        destruct (sruns (snext g true) (S g) r k c pd p) as [[a2 [[c4 d4] q2]] e2] eqn:E2.
        inv_ret H1. inv_ret H2.
        assert (HR : Rpk brel (ev ++ L) p p) by (apply Rpk_brel_refl; exact HB).
        destruct (sruns_pd _ _ _ IHz _ _ _ _ _ _ _ _ _ _ _ _ _ _ _ _ _ _ _ E1 Hno HR E2)
          as [Ho|(Ho & He & Hc & Hd & HR')]; [left; exact Ho|right].
        destruct (Rpk_brel_inv _ _ _ HR') as [Hq Hb]. subst. repeat split; auto.
Qed.

(* one consumer step: the same fuel on both sides, so the two calls are equal outright *)
Lemma sstep_blind s : sblind s ->
  sstep false s = sstep true s /\ sblind (snd (fst (sstep true s))).
Proof.
  intros HB.
  destruct (sstep false s) as [[o1 s1] e1] eqn:E1.
  destruct (sstep true s) as [[o2 s2] e2] eqn:E2.
  pose proof (snext_fuel_enough _ _ _ _ _ E1) as Hn1.
  pose proof (snext_fuel_enough _ _ _ _ _ E2) as Hn2. unfold sstep in E1, E2.
  assert (HR : brel (e1 ++ []) s s) by (split; [reflexivity|exact HB]).
  destruct (proj1 (snext_blind _ _) _ _ _ _ _ _ _ _ _ E1 Hn1 HR E2)
    as [Ho|(Ho & He & [Hs Hb])]; [congruence|].
  subst. split; [reflexivity|exact Hb].
Qed.
Lemma slstep_blind q : slblind q ->
  slstep false q = slstep true q /\ slblind (snd (fst (slstep true q))).
Proof.
  intros HB.
  destruct (slstep false q) as [[o1 q1] e1] eqn:E1.
  destruct (slstep true q) as [[o2 q2] e2] eqn:E2.
  pose proof (slnext_fuel_enough _ _ _ _ _ E1) as Hn1.
  pose proof (slnext_fuel_enough _ _ _ _ _ E2) as Hn2. unfold slstep in E1, E2.
  assert (HR : blrel (e1 ++ []) q q) by (split; [reflexivity|exact HB]).
  destruct (proj2 (snext_blind _ _) _ _ _ _ _ _ _ _ _ E1 Hn1 HR E2)
    as [Ho|(Ho & He & [Hs Hb])]; [congruence|].
  subst. split; [reflexivity|exact Hb].
Qed.

Definition qblind (s : srun_st) : Prop :=
  match s with QZ s => sblind s | QL q => slblind q end.

Lemma srun_next_blind live s : qblind s ->
  srun_next live s = srun_next true s /\ qblind (snd (fst (srun_next true s))).
Proof.
  intros HB. destruct s as [s|q]; simpl in *.
  - destruct (sstep_blind s HB) as [He Hb].
    destruct live; [|rewrite He]; destruct (sstep true s) as [[o s1] e1]; simpl in *; auto.
  - destruct (slstep_blind q HB) as [He Hb].
    destruct live; [|rewrite He]; destruct (slstep true q) as [[o q1] e1]; simpl in *; auto.
Qed.

Lemma ssrc_init_nc s : src_nc s = true -> ssrc_nc (ssrc_init s) = true.
Proof. intros H. rewrite ssrc_nc_init. exact H. Qed.

Lemma sinit_blind :
  (forall p, ctx_blind_z p -> sblind (sinit p)) /\
  (forall q, ctx_blind_l q -> slblind (slinit q)).
Proof.
  apply pipe_ind; simpl; intros; auto.
  - apply ssrc_init_nc. assumption.
  - induction H as [|x t Hx Ht IH]; simpl in *; [exact I|]. destruct H0 as [H1 H2]. split; auto.
Qed.

(* the consumer program with every context live *)
Definition op_live (op : cop) : cop := match op with CNext _ => CNext true | CClose => CClose end.

Lemma srun_steps_blind ids : forall ops s log,
  qblind s -> srun_steps ids s log ops = srun_steps ids s log (map op_live ops).
Proof.
  induction ops as [|op ops IH]; intros s log HB; simpl; [reflexivity|].
  destruct op as [live|]; simpl.
  - destruct (srun_next_blind live s HB) as [He Hb]. rewrite He.
    destruct (srun_next true s) as [[o s1] ev1]. simpl in Hb.
    destruct (stops o); [reflexivity|]. rewrite (IH s1 (log ++ ev1) Hb). reflexivity.
  - rewrite (IH s (log ++ srun_close s) HB). reflexivity.
Qed.

(* Pipelines none of whose parts looks at the context (every source an SScriptNC, no Flatten):
   the contexts of the consumer's calls are irrelevant - results, pull counts after every step
   and the event log are those of the same program with live contexts. *)
Theorem stream_blind_live cfg p ops :
  ctx_blind p ->
  run_stream_cfg cfg p (Steps ops) = run_stream_cfg cfg p (Steps (map op_live ops)).
Proof.
  intros HB. unfold run_stream_cfg.
  rewrite (srun_steps_blind (sort_ids (pipe_ids p)) ops (srun_init p) []); [reflexivity|].
  destruct p as [p|q]; simpl in *; [apply (proj1 sinit_blind)|apply (proj2 sinit_blind)];
    exact HB.
Qed.

(* non-vacuity, and the mutation this excludes: Filter over a context-ignoring source; the two
   calls with an expired context deliver the items they pull (2 is filtered out on the way) *)
Definition blind_demo : pz + pl :=
  inl (ZFilter (PrModEq 2 1) never_fails
         (ZSrc 0 (SScriptNC [EvItem 1; EvItem 2; EvItem 3; EvTransient 9; EvItem 5]))).
Example blind_demo_run :
  ctx_blind blind_demo /\
  map so_res (ro_steps (run_stream blind_demo
                          (Steps [CNext false; CNext false; CNext true; CNext false;
                                  CNext false])))
  = [RItem (IZ 1); RItem (IZ 3); RErr 9; RItem (IZ 5); REnd].
Proof. split; [vm_compute; reflexivity|vm_compute; reflexivity]. Qed.

(* ---- the reducers over such pipelines: an expired context changes nothing ---- *)
Lemma sreduce_loop_blind {A} (f : A -> Z -> cbres A) : forall n acc s,
  sblind s -> sreduce_loop n false f acc s = sreduce_loop n true f acc s.
Proof.
  induction n as [|n IH]; intros acc s HB; simpl; [reflexivity|].
  destruct (sstep_blind s HB) as [He Hb]. rewrite He.
  destruct (sstep true s) as [[o s1] ev1]. simpl in Hb.
  destruct o; try reflexivity. destruct (f acc x); try reflexivity.
  rewrite (IH _ _ Hb). reflexivity.
Qed.

Lemma slast_loop_blind n0 : forall k buf i s,
  sblind s -> slast_loop k false n0 buf i s = slast_loop k true n0 buf i s.
Proof.
  induction k as [|k IH]; intros buf i s HB; simpl; [reflexivity|].
  destruct (sstep_blind s HB) as [He Hb]. rewrite He.
  destruct (sstep true s) as [[o s1] ev1]. simpl in Hb.
  destruct o; try reflexivity. destruct (n0 =? 0); [reflexivity|].
  destruct (zset buf (Z.rem i n0) x); [|reflexivity]. rewrite (IH _ _ _ Hb). reflexivity.
Qed.

Lemma sone_body_blind s : sblind s -> sone_body false s = sone_body true s.
Proof.
  intros HB. unfold sone_body.
  destruct (sstep_blind s HB) as [He Hb]. rewrite He.
  destruct (sstep true s) as [[o s1] ev1]. simpl in Hb.
  destruct o; try reflexivity.
  destruct (sstep_blind s1 Hb) as [He1 _]. rewrite He1. reflexivity.
Qed.

Theorem stream_blind_live_reduce cfg p r live :
  ctx_blind_z p ->
  run_stream_cfg cfg (inl p) (Reduce r live) = run_stream_cfg cfg (inl p) (Reduce r true).
Proof.
  intros HB. destruct live; [reflexivity|].
  pose proof (proj1 sinit_blind p HB) as Hs.
  unfold run_stream_cfg, srun_reduce.
  destruct r as [|n| |fl| |others]; try reflexivity.
  - unfold scollect, sreduce. rewrite (sreduce_loop_blind _ _ _ _ Hs). reflexivity.
  - unfold slast. rewrite (sreduce_loop_blind _ _ _ _ Hs), (slast_loop_blind _ _ _ _ _ Hs).
    reflexivity.
  - unfold sone. rewrite (sone_body_blind _ Hs). reflexivity.
  - unfold sreduce. rewrite (sreduce_loop_blind _ _ _ _ Hs). reflexivity.
Qed.

Lemma op_live_nexts lives : map op_live (map CNext lives) = map CNext (repeat true (length lives)).
Proof. induction lives as [|b t IH]; simpl; [reflexivity|]. rewrite IH. reflexivity. Qed.

(* ... so a failure-free pipeline of that kind never reports the context error: whatever the
   contexts, k calls deliver the denotation and then the end *)
Theorem stream_blind_steps_den cfg p lives :
  ctx_blind p -> okp false p ->
  results (run_stream_cfg cfg p (Steps (map CNext lives))) = expect (den p) (length lives).
Proof.
  intros HB Hok. rewrite (stream_blind_live cfg p _ HB), op_live_nexts.
  apply stream_steps_den. exact Hok.
Qed.
