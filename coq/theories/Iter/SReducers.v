(* Stream reducers: on failure-free pipelines they compute what the iterator versions compute
   (C07); on pipelines with faults they either return an error or a value that is correct
   whatever the failing sources would have delivered next (C08). *)
From Juniper Require Import Common.Base Iter.Syntax Iter.Config Iter.ModelBase Iter.IterModel
  Iter.StreamModel Iter.Spec Iter.Contract Iter.FatalSim Iter.IterProofs Iter.StreamProofs
  Iter.StreamFatal Iter.Reducers Iter.SContract.

(* one Next of a possibly faulty pipeline state, seen through its scrubbed version *)
Lemma sstep_fatal k live s : sok true (scrub k s) ->
  exists o s' ev, sstep live s = (o, s', ev) /\
    ((exists e, o = Err e) \/
     (sok true (scrub k s') /\
      match o with
      | Item x => sden (scrub k s) = x :: sden (scrub k s') /\ (ssize s' < ssize s)%nat
      | End => sden (scrub k s) = []
      | _ => False
      end)).
Proof.
  intros Hok. destruct (sstep live s) as [[o s'] ev] eqn:E. exists o, s', ev.
  split; [reflexivity|].
  pose proof (snext_fuel_enough _ _ _ _ _ E) as Hno. unfold sstep in E.
  destruct (proj1 (snext_size live (S (ssize s))) _ _ _ _ E) as [Hd _].
  destruct (proj1 (snext_sim k live (S (ssize s))) _ _ _ _ E) as [Hi [Ha|(e & He & Hin)]].
  - destruct (snext_contract true live ltac:(auto) (S (ssize s))) as [Hz _].
    destruct (Hz _ _ _ _ Hok Ha) as (Hok1 & Hp & _).
    destruct o as [x| |e| |]; simpl in Hp.
    + right. auto.
    + right. destruct Hp as (H1 & _). auto.
    + left. eauto.
    + destruct Hp.
    + congruence.
  - left. eauto.
Qed.

(* the same for a failure-free state and a live context: never an error *)
Lemma sstep_clean s : sok false s ->
  exists o s' ev, sstep true s = (o, s', ev) /\ sok false s' /\
    match o with
    | Item x => sden s = x :: sden s' /\ (ssize s' < ssize s)%nat
    | End => sden s = []
    | _ => False
    end.
Proof.
  intros Hok. destruct (sstep true s) as [[o s'] ev] eqn:E. exists o, s', ev.
  split; [reflexivity|].
  pose proof (snext_fuel_enough _ _ _ _ _ E) as Hno. unfold sstep in E.
  destruct (proj1 (snext_size true (S (ssize s))) _ _ _ _ E) as [Hd _].
  destruct (snext_contract false true ltac:(discriminate) (S (ssize s))) as [Hz _].
  destruct (Hz _ _ _ _ Hok E) as (Hok1 & Hp & _). split; [exact Hok1|].
  destruct o as [x| |e| |]; simpl in Hp.
  - auto.
  - destruct Hp as (H1 & _). exact H1.
  - destruct Hp as [Hx _]. discriminate Hx.
  - exact Hp.
  - congruence.
Qed.

(* a reducer outcome: an error, or the value v *)
Definition err_or {A} (o : res A) (v : A) : Prop := (exists e, o = Err e) \/ o = Item v.

(* the reduction function computes g or returns an error - it does not panic *)
Lemma sreduce_loop_fatal {A} k live (f : A -> Z -> cbres A) (g : A -> Z -> A) :
  (forall a x, f a x = CbOk (g a x) \/ exists e, f a x = CbErr e) -> forall n acc s,
  sok true (scrub k s) -> (ssize s < n)%nat ->
  exists o s' ev, sreduce_loop n live f acc s = (o, s', ev) /\
                  err_or o (fold_left g (sden (scrub k s)) acc).
Proof.
  intros Hfg. induction n as [|n IH]; intros acc s Hok Hn; [lia|]. simpl.
  destruct (sstep_fatal k live s Hok) as (o & s1 & ev1 & E & [(e & He)|[Hok1 Hp]]); rewrite E.
  - subst o. simpl. do 3 eexists. split; [reflexivity|]. left. eauto.
  - destruct o as [x| | | |]; try (destruct Hp; fail).
    + destruct Hp as [Hd Hs]. destruct (Hfg acc x) as [Hf|[e Hf]]; rewrite Hf.
      * destruct (IH (g acc x) s1 Hok1 ltac:(lia)) as (o2 & s' & ev & E2 & H2).
        rewrite E2. simpl. do 3 eexists. split; [reflexivity|]. rewrite Hd. exact H2.
      * do 3 eexists. split; [reflexivity|]. left. eauto.
    + do 3 eexists. split; [reflexivity|]. right. rewrite Hp. reflexivity.
Qed.

Lemma sreduce_loop_clean {A} (f : A -> Z -> cbres A) (g : A -> Z -> A) :
  (forall a x, f a x = CbOk (g a x)) -> forall n acc s,
  sok false s -> (ssize s < n)%nat ->
  exists s' ev, sreduce_loop n true f acc s = (Item (fold_left g (sden s) acc), s', ev).
Proof.
  intros Hfg. induction n as [|n IH]; intros acc s Hok Hn; [lia|]. simpl.
  destruct (sstep_clean s Hok) as (o & s1 & ev1 & E & Hok1 & Hp). rewrite E.
  destruct o as [x| | | |]; try (destruct Hp; fail).
  - destruct Hp as [Hd Hs]. rewrite Hfg.
    destruct (IH (g acc x) s1 Hok1 ltac:(lia)) as (s' & ev & E2).
    rewrite E2. simpl. rewrite Hd. eauto.
  - rewrite Hp. eauto.
Qed.

(* closing - by defer or explicitly - does not change the result *)
Lemma reducer_close_res cfg {A} (o : res A) s' ev :
  exists ev', reducer_close cfg (o, s', ev) = (o, s', ev').
Proof.
  unfold reducer_close, deferred_close, explicit_close.
  destruct (cfg_defer_close cfg); [eauto|]. destruct o; eauto.
Qed.

(* Reduce with +: a reduction function that does not fail / that may return an error *)
Lemma ssum_step_clean fl : fail_at fl = None ->
  forall a x, ssum_step fl a x = CbOk (S (fst a), snd a + x).
Proof. intros Hfl a x. unfold ssum_step. rewrite (fails_never fl _ Hfl). reflexivity. Qed.
Lemma ssum_step_nopanic fl : cb_panics fl = false ->
  forall a x, ssum_step fl a x = CbOk (S (fst a), snd a + x) \/ exists e, ssum_step fl a x = CbErr e.
Proof.
  intros Hfl a x. unfold ssum_step, cb_fail. destruct (fails_now fl (fst a)) eqn:Ef; [|auto].
  right. unfold cb_panics in Hfl. unfold fails_now in Ef.
  destruct (fail_panic fl); [|eauto]. destruct (fail_at fl); [discriminate Hfl|discriminate Ef].
Qed.

Lemma slast_loop_fatal k live n : 1 <= n -> forall j buf i s,
  sok true (scrub k s) -> (ssize s < j)%nat -> 0 <= i -> zlen buf = n ->
  exists o s' ev, slast_loop j live n buf i s = (o, s', ev) /\
                  err_or o (fold_left (ring_push n) (sden (scrub k s)) (buf, i)).
Proof.
  intros Hn. induction j as [|j IH]; intros buf i s Hok Hj Hi Hlen; [lia|]. simpl.
  destruct (sstep_fatal k live s Hok) as (o & s1 & ev1 & E & [(e & He)|[Hok1 Hp]]); rewrite E.
  - subst o. simpl. do 3 eexists. split; [reflexivity|]. left. eauto.
  - destruct o as [x| | | |]; try (destruct Hp; fail).
    + destruct Hp as [Hd Hs].
      destruct (n =? 0) eqn:E0; [apply Z.eqb_eq in E0; lia|].
      pose proof (Z.rem_bound_pos i n Hi ltac:(lia)) as Hb.
      unfold zset. destruct ((Z.rem i n <? 0) || (zlen buf <=? Z.rem i n)) eqn:Eb.
      { apply orb_true_iff in Eb. destruct Eb as [Eb|Eb];
          [apply Z.ltb_lt in Eb|apply Z.leb_le in Eb]; lia. }
      destruct (IH (upd buf (Z.to_nat (Z.rem i n)) x) (i + 1) s1 Hok1 ltac:(lia) ltac:(lia))
        as (o2 & s' & ev & E2 & H2).
      { unfold zlen in *. rewrite upd_length. exact Hlen. }
      rewrite E2. simpl. do 3 eexists. split; [reflexivity|]. rewrite Hd. exact H2.
    + do 3 eexists. split; [reflexivity|]. right. rewrite Hp. reflexivity.
Qed.

Lemma slast_loop_clean n : 1 <= n -> forall j buf i s,
  sok false s -> (ssize s < j)%nat -> 0 <= i -> zlen buf = n ->
  exists s' ev,
    slast_loop j true n buf i s = (Item (fold_left (ring_push n) (sden s) (buf, i)), s', ev).
Proof.
  intros Hn. induction j as [|j IH]; intros buf i s Hok Hj Hi Hlen; [lia|]. simpl.
  destruct (sstep_clean s Hok) as (o & s1 & ev1 & E & Hok1 & Hp). rewrite E.
  destruct o as [x| | | |]; try (destruct Hp; fail).
  - destruct Hp as [Hd Hs].
    destruct (n =? 0) eqn:E0; [apply Z.eqb_eq in E0; lia|].
    pose proof (Z.rem_bound_pos i n Hi ltac:(lia)) as Hb.
    unfold zset. destruct ((Z.rem i n <? 0) || (zlen buf <=? Z.rem i n)) eqn:Eb.
    { apply orb_true_iff in Eb. destruct Eb as [Eb|Eb];
        [apply Z.ltb_lt in Eb|apply Z.leb_le in Eb]; lia. }
    destruct (IH (upd buf (Z.to_nat (Z.rem i n)) x) (i + 1) s1 Hok1 ltac:(lia) ltac:(lia))
      as (s' & ev & E2).
    { unfold zlen in *. rewrite upd_length. exact Hlen. }
    rewrite E2. simpl. rewrite Hd. eauto.
  - rewrite Hp. eauto.
Qed.

Definition one_res (l : list Z) : robs :=
  match l with
  | [x] => RVal [x]
  | [] => RErr err_empty
  | _ => RErr err_more_than_one
  end.

Lemma sone_body_clean s : sok false s ->
  exists o s' ev, sone_body true s = (o, s', ev) /\ obs_val o = one_res (sden s).
Proof.
  intros Hok. unfold sone_body.
  destruct (sstep_clean s Hok) as (o & s1 & ev1 & E & Hok1 & Hp). rewrite E.
  destruct o as [x| | | |]; try (destruct Hp; fail).
  - destruct Hp as [Hd _]. rewrite Hd.
    destruct (sstep_clean s1 Hok1) as (o2 & s2 & ev2 & E2 & Hok2 & Hp2). rewrite E2.
    destruct o2 as [y| | | |]; try (destruct Hp2; fail).
    + destruct Hp2 as [Hd2 _]. rewrite Hd2. do 3 eexists. split; reflexivity.
    + rewrite Hp2. do 3 eexists. split; reflexivity.
  - rewrite Hp. do 3 eexists. split; reflexivity.
Qed.

Lemma sone_body_fatal k live s : sok true (scrub k s) ->
  exists o s' ev, sone_body live s = (o, s', ev) /\
    ((exists e, obs_val o = RErr e) \/ obs_val o = one_res (sden (scrub k s))).
Proof.
  intros Hok. unfold sone_body.
  destruct (sstep_fatal k live s Hok) as (o & s1 & ev1 & E & [(e & He)|[Hok1 Hp]]); rewrite E.
  - subst o. do 3 eexists. split; [reflexivity|]. left. simpl. eauto.
  - destruct o as [x| | | |]; try (destruct Hp; fail).
    + destruct Hp as [Hd _]. rewrite Hd.
      destruct (sstep_fatal k live s1 Hok1) as (o2 & s2 & ev2 & E2 & [(e & He)|[Hok2 Hp2]]);
        rewrite E2.
      * subst o2. do 3 eexists. split; [reflexivity|]. left. simpl. eauto.
      * destruct o2 as [y| | | |]; try (destruct Hp2; fail).
        -- destruct Hp2 as [Hd2 _]. rewrite Hd2. do 3 eexists. split; [reflexivity|].
           right. reflexivity.
        -- rewrite Hp2. do 3 eexists. split; [reflexivity|]. right. reflexivity.
    + rewrite Hp. do 3 eexists. split; [reflexivity|]. right. reflexivity.
Qed.

(* ---- run level: failure-free pipelines, live context (C07) ---- *)
Section StreamRunsClean.
  Variables (cfg : config) (p : pz).
  Hypothesis Hc : okz false p.

  Ltac sinit_facts :=
    pose proof (proj1 (sinit_ok false) _ Hc) as Hok; pose proof (proj1 sinit_den p) as Hden.

  Theorem stream_collect_den :
    results (run_stream_cfg cfg (inl p) (Reduce RCollect true)) = [RVal (den_z p)].
  Proof.
    sinit_facts. unfold results, run_stream_cfg, srun_reduce, scollect, sreduce.
    destruct (sreduce_loop_clean (fun out x => CbOk (out ++ [x])) (fun out x => out ++ [x])
                                 ltac:(reflexivity) (sred_fuel (sinit p)) [] (sinit p) Hok
                                 ltac:(unfold sred_fuel; lia)) as (s' & ev & E).
    rewrite E. destruct (reducer_close_res cfg (Item (fold_left (fun out x => out ++ [x])
                                                               (sden (sinit p)) [])) s' ev)
      as [ev' Hrc].
    rewrite Hrc, fold_snoc, Hden. reflexivity.
  Qed.

  (* a reduction function that never fails *)
  Theorem stream_sum_den fl : fail_at fl = None ->
    results (run_stream_cfg cfg (inl p) (Reduce (RSum fl) true))
    = [RVal [fold_left Z.add (den_z p) 0]].
  Proof.
    intros Hfl. sinit_facts. unfold results, run_stream_cfg, srun_reduce, sreduce.
    destruct (sreduce_loop_clean (ssum_step fl) _ (ssum_step_clean fl Hfl)
                                 (sred_fuel (sinit p)) (O, 0) (sinit p) Hok
                                 ltac:(unfold sred_fuel; lia)) as (s' & ev & E).
    rewrite E.
    match goal with |- context [reducer_close cfg (Item ?v, s', ev)] =>
      destruct (reducer_close_res cfg (Item v) s' ev) as [ev' Hrc] end.
    rewrite Hrc. simpl. rewrite fold_sum_snd, Hden. reflexivity.
  Qed.

  Theorem stream_one_den :
    results (run_stream_cfg cfg (inl p) (Reduce ROne true)) = [one_res (den_z p)].
  Proof.
    sinit_facts. unfold results, run_stream_cfg, srun_reduce, sone.
    destruct (sone_body_clean (sinit p) Hok) as (o & s' & ev & E & Ho).
    destruct (reducer_close_res cfg o s' ev) as [ev' Hrc].
    destruct (cfg_one_closes cfg); rewrite E, ?Hrc; simpl;
      rewrite Ho, Hden; reflexivity.
  Qed.

  Theorem stream_last_den n : (cfg_last_guard cfg = true \/ 1 <= n) ->
    results (run_stream_cfg cfg (inl p) (Reduce (RLast n) true))
    = [RVal (lastn (Z.to_nat n) (den_z p))].
  Proof.
    intros Hg. sinit_facts.
    unfold results, run_stream_cfg, srun_reduce, slast.
    destruct (cfg_last_guard cfg && (n <=? 0)) eqn:Eg.
    - apply andb_true_iff in Eg. destruct Eg as [_ En]. apply Z.leb_le in En.
      destruct (sreduce_loop_clean (fun (u : unit) _ => CbOk u) (fun (u : unit) _ => u)
                                   ltac:(reflexivity) (sred_fuel (sinit p)) tt (sinit p) Hok
                                   ltac:(unfold sred_fuel; lia)) as (s' & ev & E).
      rewrite E. destruct (reducer_close_res cfg (Item (@nil Z)) s' ev) as [ev' Hrc].
      rewrite Hrc. replace (Z.to_nat n) with O by lia. rewrite lastn_zero. reflexivity.
    - assert (Hn : 1 <= n).
      { destruct Hg as [Hg|Hg]; [|exact Hg]. rewrite Hg in Eg. simpl in Eg.
        apply Z.leb_gt in Eg. lia. }
      destruct (n <? 0) eqn:E0; [apply Z.ltb_lt in E0; lia|].
      destruct (slast_loop_clean n Hn (sred_fuel (sinit p)) (zrepeat 0 n) 0 (sinit p) Hok
                                 ltac:(unfold sred_fuel; lia) ltac:(lia)
                                 ltac:(apply zlen_repeat; lia)) as (s' & ev & E).
      rewrite E.
      pose proof (ring_inv_fold n (sden (sinit p)) Hn [] _ (ring_inv_init n Hn)) as Hinv.
      simpl in Hinv.
      destruct (fold_left (ring_push n) (sden (sinit p)) (zrepeat 0 n, 0)) as [buf i] eqn:Ef.
      rewrite (last_finish_spec n (sden (sinit p)) buf i Hn Hinv), Hden.
      destruct (reducer_close_res cfg (Item (lastn (Z.to_nat n) (den_z p))) s' ev) as [ev' Hrc].
      rewrite Hrc. reflexivity.
  Qed.
End StreamRunsClean.

(* ---- run level: any pipeline in the documented domain, any context (C08) ---- *)
Section StreamRunsFaulty.
  Variables (cfg : config) (p : pz) (live : bool) (k : list sevent).
  Hypothesis Hd : dom_z p.
  Hypothesis Hnp : no_panics_z p = true.
  Hypothesis Hk : script_ok k.

  Ltac finit_facts :=
    pose proof (proj1 (sinit_ok true) _ (proj1 (scrub_ok k Hk) p Hd Hnp)) as Hok;
    rewrite (proj1 (sinit_scrub k)) in Hok;
    pose proof (proj1 sinit_den (pz_scrub k p)) as Hden;
    rewrite (proj1 (sinit_scrub k)) in Hden.

  (* every reducer returns an error, or the value it would return if the failing sources had
     continued with k - whatever k is *)
  Theorem stream_collect_fatal :
    (exists e, results (run_stream_cfg cfg (inl p) (Reduce RCollect live)) = [RErr e]) \/
    results (run_stream_cfg cfg (inl p) (Reduce RCollect live)) = [RVal (den_z (pz_scrub k p))].
  Proof.
    finit_facts. unfold results, run_stream_cfg, srun_reduce, scollect, sreduce.
    destruct (sreduce_loop_fatal k live (fun out x => CbOk (out ++ [x]))
                                 (fun out x => out ++ [x]) ltac:(intros; left; reflexivity)
                                 (sred_fuel (sinit p)) []
                                 (sinit p) Hok ltac:(unfold sred_fuel; lia))
      as (o & s' & ev & E & [(e & He)|He]); rewrite E; subst o;
      match goal with |- context [reducer_close cfg (?o, s', ev)] =>
        destruct (reducer_close_res cfg o s' ev) as [ev' Hrc] end; rewrite Hrc; simpl.
    - left. eauto.
    - right. rewrite fold_snoc, Hden. reflexivity.
  Qed.

  (* the reduction function may return an error too (it does not panic) *)
  Theorem stream_sum_fatal fl : cb_panics fl = false ->
    (exists e, results (run_stream_cfg cfg (inl p) (Reduce (RSum fl) live)) = [RErr e]) \/
    results (run_stream_cfg cfg (inl p) (Reduce (RSum fl) live))
    = [RVal [fold_left Z.add (den_z (pz_scrub k p)) 0]].
  Proof.
    intros Hfl. finit_facts. unfold results, run_stream_cfg, srun_reduce, sreduce.
    destruct (sreduce_loop_fatal k live (ssum_step fl) _ (ssum_step_nopanic fl Hfl)
                                 (sred_fuel (sinit p)) (O, 0)
                                 (sinit p) Hok ltac:(unfold sred_fuel; lia))
      as (o & s' & ev & E & [(e & He)|He]); rewrite E; subst o;
      match goal with |- context [reducer_close cfg (?o, s', ev)] =>
        destruct (reducer_close_res cfg o s' ev) as [ev' Hrc] end; rewrite Hrc; simpl.
    - left. eauto.
    - right. rewrite fold_sum_snd, Hden. reflexivity.
  Qed.

  Theorem stream_one_fatal :
    (exists e, results (run_stream_cfg cfg (inl p) (Reduce ROne live)) = [RErr e]) \/
    results (run_stream_cfg cfg (inl p) (Reduce ROne live)) = [one_res (den_z (pz_scrub k p))].
  Proof.
    finit_facts. unfold results, run_stream_cfg, srun_reduce, sone.
    destruct (sone_body_fatal k live (sinit p) Hok) as (o & s' & ev & E & Ho).
    assert (Hres : forall lg, map so_res [mkStepObs (obs_val o) lg] = [obs_val o]) by reflexivity.
    destruct (reducer_close_res cfg o s' ev) as [ev' Hrc].
    destruct (cfg_one_closes cfg); rewrite E, ?Hrc; simpl;
      (destruct Ho as [(e & He)|He]; rewrite He; [left; eauto|right; rewrite Hden; reflexivity]).
  Qed.

  Theorem stream_last_fatal n : (cfg_last_guard cfg = true \/ 1 <= n) ->
    (exists e, results (run_stream_cfg cfg (inl p) (Reduce (RLast n) live)) = [RErr e]) \/
    results (run_stream_cfg cfg (inl p) (Reduce (RLast n) live))
    = [RVal (lastn (Z.to_nat n) (den_z (pz_scrub k p)))].
  Proof.
    intros Hg. finit_facts.
    unfold results, run_stream_cfg, srun_reduce, slast.
    destruct (cfg_last_guard cfg && (n <=? 0)) eqn:Eg.
    - apply andb_true_iff in Eg. destruct Eg as [_ En]. apply Z.leb_le in En.
      destruct (sreduce_loop_fatal k live (fun (u : unit) _ => CbOk u) (fun (u : unit) _ => u)
                                   ltac:(intros; left; reflexivity) (sred_fuel (sinit p)) tt
                                   (sinit p) Hok ltac:(unfold sred_fuel; lia))
        as (o & s' & ev & E & [(e & He)|He]); rewrite E; subst o;
        match goal with |- context [reducer_close cfg (?o, s', ev)] =>
          destruct (reducer_close_res cfg o s' ev) as [ev' Hrc] end; rewrite Hrc; simpl.
      + left. eauto.
      + right. replace (Z.to_nat n) with O by lia. rewrite lastn_zero. reflexivity.
    - assert (Hn : 1 <= n).
      { destruct Hg as [Hg|Hg]; [|exact Hg]. rewrite Hg in Eg. simpl in Eg.
        apply Z.leb_gt in Eg. lia. }
      destruct (n <? 0) eqn:E0; [apply Z.ltb_lt in E0; lia|].
      destruct (slast_loop_fatal k live n Hn (sred_fuel (sinit p)) (zrepeat 0 n) 0 (sinit p) Hok
                                 ltac:(unfold sred_fuel; lia) ltac:(lia)
                                 ltac:(apply zlen_repeat; lia))
        as (o & s' & ev & E & [(e & He)|He]); rewrite E; subst o.
      + destruct (reducer_close_res cfg (@Err (list Z) e) s' ev) as [ev' Hrc].
        simpl. rewrite Hrc. simpl. left. eauto.
      + right.
        pose proof (ring_inv_fold n (sden (scrub k (sinit p))) Hn [] _ (ring_inv_init n Hn))
          as Hinv. simpl in Hinv.
        destruct (fold_left (ring_push n) (sden (scrub k (sinit p))) (zrepeat 0 n, 0))
          as [buf i] eqn:Ef.
        rewrite (last_finish_spec n _ buf i Hn Hinv), Hden.
        match goal with |- context [reducer_close cfg (?o, s', ev)] =>
          destruct (reducer_close_res cfg o s' ev) as [ev' Hrc] end.
        rewrite Hrc. reflexivity.
  Qed.
End StreamRunsFaulty.

(* stream.Last with n = 0 before the repair: panics for every input *)
Theorem stream_last_n0_refuted :
  exists p, okz false p /\
    results (run_stream_cfg original_cfg (inl p) (Reduce (RLast 0) true))
    <> [RVal (lastn (Z.to_nat 0) (den_z p))].
Proof.
  exists (ZSrc 0 (SSlice [7; 8])). split; [exact I|]. vm_compute. discriminate.
Qed.

(* a failed call of a pipeline without unretryable faults leaves the denotation unchanged *)
Lemma failed_call_costs_nothing live f s e s' ev :
  sok true s -> snext f live s = (Err e, s', ev) -> sok true s' /\ sden s' = sden s.
Proof.
  intros Hok Hc.
  destruct (snext_contract true live ltac:(auto) f) as [Hz _].
  destruct (Hz _ _ _ _ Hok Hc) as (Hok1 & Hp & _). simpl in Hp. destruct Hp as [_ Hd]. auto.
Qed.

(* non-vacuity examples for C08 *)
Example retry_example :
  results (run_stream (inr (LChunk 2 (ZSrc 0 (SScript [EvItem 1; EvTransient 9; EvItem 2;
                                                       EvItem 3]))))
                      (Steps (map CNext [true; false; true; true; true])))
  = [RErr 9; RErr (-1); RItem (IL [1; 2]); RItem (IL [3]); REnd].
Proof. vm_compute. reflexivity. Qed.

Example fatal_example :
  results (run_stream (inl (ZFilter (PrLt 10) never_fails
                              (ZSrc 0 (SScript [EvItem 1; EvItem 2; EvFatal 7; EvItem 3]))))
                      (Steps (map CNext [true; true; true; true])))
  = [RItem (IZ 1); RItem (IZ 2); RErr 7; RErr 7].
Proof. vm_compute. reflexivity. Qed.

(* runs of pipelines without unretryable faults are never cut short by a panic *)
Lemma srun_steps_complete ids : forall lives s log,
  sstate_ok true s ->
  length (fst (srun_steps ids s log (map CNext lives ++ [CClose]))) = S (length lives).
Proof.
  induction lives as [|b lives IH]; intros s log Hok; simpl.
  - destruct (srun_steps ids s (log ++ srun_close s) []) as [r l] eqn:E. simpl in E.
    injection E as ? ?; subst. reflexivity.
  - destruct (srun_next b s) as [[o s1] ev1] eqn:E.
    destruct (srun_next_spec true b s o s1 ev1 ltac:(auto) Hok E) as [Hok1 Hp].
    destruct o as [x| |e| | | |]; try (destruct Hp; fail); simpl;
      specialize (IH s1 (log ++ ev1) Hok1);
      destruct (srun_steps ids s1 (log ++ ev1) (map CNext lives ++ [CClose])) as [r l];
      simpl in *; rewrite IH; reflexivity.
Qed.

Theorem stream_steps_complete cfg p lives :
  okp true p ->
  length (ro_steps (run_stream_cfg cfg p (Steps (map CNext lives ++ [CClose]))))
  = S (length lives).
Proof.
  intros Hok. unfold run_stream_cfg.
  pose proof (srun_steps_complete (sort_ids (pipe_ids p)) lives (srun_init p) []
                (srun_init_ok true p Hok)) as H.
  destruct (srun_steps (sort_ids (pipe_ids p)) (srun_init p) [] (map CNext lives ++ [CClose]))
    as [steps log]. exact H.
Qed.

(* No run is ever cut short, whatever the pipeline and its faults: a step that panics is
   recovered by the consumer (observation RPanic), and the fuel of the model is always enough. *)
Lemma srun_next_goes_on live s o s' ev : srun_next live s = (o, s', ev) -> stops o = false.
Proof.
  destruct s as [s|q]; simpl.
  - destruct (sstep live s) as [[o1 s1] ev1] eqn:E. intros Hc. inv_ret Hc.
    pose proof (snext_fuel_enough _ _ _ _ _ E) as Hno. destruct o1; try reflexivity. congruence.
  - destruct (slstep live q) as [[o1 q1] ev1] eqn:E. intros Hc. inv_ret Hc.
    pose proof (slnext_fuel_enough _ _ _ _ _ E) as Hno. destruct o1; try reflexivity. congruence.
Qed.

Lemma srun_steps_length ids : forall ops s log,
  length (fst (srun_steps ids s log ops)) = length ops.
Proof.
  induction ops as [|op ops IH]; intros s log; simpl; [reflexivity|]. destruct op as [live|].
  - destruct (srun_next live s) as [[o s1] ev1] eqn:E.
    rewrite (srun_next_goes_on _ _ _ _ _ E).
    specialize (IH s1 (log ++ ev1)).
    destruct (srun_steps ids s1 (log ++ ev1) ops) as [r l]. simpl in *. rewrite IH. reflexivity.
  - specialize (IH s (log ++ srun_close s)).
    destruct (srun_steps ids s (log ++ srun_close s) ops) as [r l]. simpl in *.
    rewrite IH. reflexivity.
Qed.

Theorem stream_steps_complete_all cfg p ops :
  length (ro_steps (run_stream_cfg cfg p (Steps ops))) = length ops.
Proof.
  unfold run_stream_cfg.
  pose proof (srun_steps_length (sort_ids (pipe_ids p)) ops (srun_init p) []) as H.
  destruct (srun_steps (sort_ids (pipe_ids p)) (srun_init p) [] ops) as [steps log]. exact H.
Qed.
