(* xslices.Chunk and xslices.Runs (/repo/xslices/xslices.go), transcribed with slice indices, and
   their agreement with the iterator/stream versions (C07).  xslices.Runs as it is loses a leading
   run of length one; [cfg_xs_runs_fixed] selects the repaired loop. *)
From Juniper Require Import Common.Base Iter.Syntax Iter.Config Iter.Spec Iter.Contract.

(* s[lo:hi] with Go's bounds check *)
Definition cslice (s : list Z) (lo hi : Z) : result (list Z) :=
  if (0 <=? lo) && (lo <=? hi) && (hi <=? zlen s) then Ok (zslice s lo hi) else Panic PIndex.

Fixpoint collect_res {A} (l : list (result A)) : result (list A) :=
  match l with
  | [] => Ok []
  | Ok a :: t => match collect_res t with Ok r => Ok (a :: r) | Panic c => Panic c end
  | Panic c :: _ => Panic c
  end.

(* func Chunk: out := make([][]T, (len(s)+chunkSize-1)/chunkSize); out[i] = s[i*cs : min((i+1)*cs, len)] *)
Definition xs_chunk (n : Z) (s : list Z) : result (list (list Z)) :=
  if n =? 0 then Panic PDivZero
  else
    let cnt := Z.quot (zlen s + n - 1) n in
    if cnt <? 0 then Panic PNeg
    else collect_res
           (map (fun i : nat =>
                   let start := Z.of_nat i * n in
                   let e := (Z.of_nat i + 1) * n in
                   cslice s start (if zlen s <? e then zlen s else e))
                (seq 0 (Z.to_nat cnt))).

(* func Runs: the loop `for i := 1; i < len(s); i++`; [rest] = s[i:], [prev] = s[i-1] *)
Fixpoint xs_runs_loop (same : Z -> Z -> bool) (s rest : list Z) (prev : Z)
         (i start e : Z) (runs : list (list Z)) : Z * Z * list (list Z) :=
  match rest with
  | [] => (start, e, runs)
  | y :: rest' =>
      if same prev y
      then xs_runs_loop same s rest' y (i + 1) start (i + 1) runs
      else xs_runs_loop same s rest' y (i + 1) i (i + 1) (runs ++ [zslice s start e])
  end.

(* fixed = false: the original `end := 0 ... if end > 0`;
   fixed = true : the repair in /repo, `end := 1 ... if len(s) > 0` *)
Definition xs_runs (fixed : bool) (same : Z -> Z -> bool) (s : list Z) : list (list Z) :=
  match s with
  | [] => []
  | x :: t =>
      let '(start, e, runs) := xs_runs_loop same s t x 1 0 (if fixed then 1 else 0) [] in
      if (if fixed then true else 0 <? e)
      then runs ++ [zslice s start (zlen s)]
      else runs
  end.

(* the confirmed defect *)
Example xs_runs_defect_1 : xs_runs false Z.eqb [1; 2; 2] = [[]; [2; 2]].
Proof. reflexivity. Qed.
Example xs_runs_defect_2 : xs_runs false Z.eqb [1] = [].
Proof. reflexivity. Qed.
Example xs_runs_fixed_1 : xs_runs true Z.eqb [1; 2; 2] = [[1]; [2; 2]].
Proof. reflexivity. Qed.
Example xs_chunk_ex : xs_chunk 2 [1; 2; 3; 4; 5] = Ok [[1; 2]; [3; 4]; [5]].
Proof. reflexivity. Qed.
Example xs_chunk_neg : xs_chunk (-2) [1; 2] = Ok [].       (* documented to panic; it does not *)
Proof. reflexivity. Qed.

(* ---- Runs ---- *)
(* runs by comparing ADJACENT elements (what xslices.Runs does) *)
Fixpoint adj_from (same : Z -> Z -> bool) (prev : Z) (l : list Z) : list Z * list (list Z) :=
  match l with
  | [] => ([], [])
  | y :: t =>
      if same prev y
      then let '(c, rs) := adj_from same y t in (y :: c, rs)
      else let '(c, rs) := adj_from same y t in ([], (y :: c) :: rs)
  end.
Definition spec_runs_adj (same : Z -> Z -> bool) (l : list Z) : list (list Z) :=
  match l with
  | [] => []
  | x :: t => let '(c, rs) := adj_from same x t in (x :: c) :: rs
  end.

Lemma zslice_prefix (P rest : list Z) start :
  0 <= start <= zlen P -> zslice (P ++ rest) start (zlen P) = skipn (Z.to_nat start) P.
Proof.
  intros H. unfold zslice, zlen in *. rewrite skipn_app.
  replace (Z.to_nat start - length P)%nat with O by lia. simpl.
  rewrite firstn_app.
  assert (Hl : length (skipn (Z.to_nat start) P) = Z.to_nat (Z.of_nat (length P) - start)).
  { rewrite skipn_length. lia. }
  rewrite <- Hl, firstn_all, Nat.sub_diag. simpl. apply app_nil_r.
Qed.

Lemma skipn_snoc (P : list Z) y k : (k <= length P)%nat -> skipn k (P ++ [y]) = skipn k P ++ [y].
Proof.
  intros H. rewrite skipn_app. replace (k - length P)%nat with O by lia. reflexivity.
Qed.

Lemma xs_runs_loop_fixed same s : forall rest P prev start runs,
  s = P ++ rest -> 0 <= start <= zlen P ->
  (let '(st', _, runs') := xs_runs_loop same s rest prev (zlen P) start (zlen P) runs in
   runs' ++ [zslice s st' (zlen s)])
  = runs ++ (let '(c, rs) := adj_from same prev rest in
             (skipn (Z.to_nat start) P ++ c) :: rs).
Proof.
  induction rest as [|y rest IH]; intros P prev start runs Hs Hst; simpl.
  - rewrite app_nil_r in Hs. subst s. rewrite <- (app_nil_r P) at 1.
    rewrite zslice_prefix by exact Hst. rewrite app_nil_r. reflexivity.
  - assert (Hs' : s = (P ++ [y]) ++ rest) by (rewrite <- app_assoc; exact Hs).
    assert (Hz : zlen (P ++ [y]) = zlen P + 1) by (rewrite zlen_app; reflexivity).
    destruct (same prev y).
    + specialize (IH (P ++ [y]) y start runs Hs' ltac:(lia)).
      rewrite Hz in IH. rewrite IH.
      destruct (adj_from same y rest) as [c rs].
      rewrite skipn_snoc by (unfold zlen in *; lia). rewrite <- app_assoc. reflexivity.
    + specialize (IH (P ++ [y]) y (zlen P)
                     (runs ++ [zslice s start (zlen P)]) Hs' ltac:(pose proof (zlen_nonneg P); lia)).
      rewrite Hz in IH. rewrite IH.
      destruct (adj_from same y rest) as [c rs].
      rewrite Hs at 1. rewrite zslice_prefix by exact Hst.
      rewrite <- app_assoc. simpl. rewrite app_nil_r.
      assert (Hsk : skipn (Z.to_nat (zlen P)) (P ++ [y]) = [y]).
      { unfold zlen. rewrite Nat2Z.id, skipn_app, skipn_all, Nat.sub_diag. reflexivity. }
      rewrite Hsk. reflexivity.
Qed.

(* the repaired xslices.Runs computes the adjacent-comparison runs *)
Theorem xs_runs_fixed_adj same s : xs_runs true same s = spec_runs_adj same s.
Proof.
  destruct s as [|x t]; [reflexivity|]. unfold xs_runs, spec_runs_adj.
  pose proof (xs_runs_loop_fixed same (x :: t) t [x] x 0 [] eq_refl
                                 ltac:(unfold zlen; simpl; lia)) as H.
  change (zlen [x]) with 1 in H.
  destruct (xs_runs_loop same (x :: t) t x 1 0 1 []) as [[st' e'] runs'].
  rewrite H. simpl. destruct (adj_from same x t) as [c rs]. reflexivity.
Qed.

(* for an equivalence, comparing with the previous element or with the first element of the run
   is the same; rel_eval is an equivalence for every rel *)
Definition rel_key (r : rel) (x : Z) : Z := match r with RelEq => x | RelDiv d => Z.div x d end.
Lemma rel_eval_key r a b : rel_eval r a b = (rel_key r a =? rel_key r b).
Proof. destruct r; reflexivity. Qed.
Lemma rel_eval_trans r a b c : rel_eval r a b = true -> rel_eval r a c = rel_eval r b c.
Proof. rewrite !rel_eval_key. intros H. apply Z.eqb_eq in H. rewrite H. reflexivity. Qed.

Lemma adj_from_runs_from r : forall l first prev,
  rel_eval r first prev = true ->
  adj_from (rel_eval r) prev l = runs_from (rel_eval r) first l.
Proof.
  induction l as [|y t IH]; intros first prev H; simpl; [reflexivity|].
  rewrite (rel_eval_trans r first prev y H).
  destruct (rel_eval r prev y) eqn:E.
  - rewrite (IH first y); [reflexivity|]. rewrite (rel_eval_trans r first prev y H). exact E.
  - rewrite (IH y y (rel_refl r y)). reflexivity.
Qed.

Lemma spec_runs_adj_eq r l : spec_runs_adj (rel_eval r) l = spec_runs (rel_eval r) l.
Proof.
  destruct l as [|x t]; [reflexivity|]. simpl.
  rewrite (adj_from_runs_from r t x x (rel_refl r x)). reflexivity.
Qed.

(* xslices.Runs (repaired) = what iterator.Runs / stream.Runs yield when every run is drained *)
Theorem xs_runs_agree_fixed r s :
  xs_runs true (rel_eval r) s = den_l (LRuns r None (ZSrc 0 (SSlice s))).
Proof.
  rewrite xs_runs_fixed_adj, spec_runs_adj_eq. simpl.
  rewrite map_ext with (g := fun l => l) by reflexivity. rewrite map_id. reflexivity.
Qed.

(* ... and as it is in /repo it does not *)
Theorem xs_runs_agree_refuted :
  exists r s, xs_runs false (rel_eval r) s <> den_l (LRuns r None (ZSrc 0 (SSlice s))).
Proof. exists RelEq, [1; 2; 2]. vm_compute. discriminate. Qed.

Definition xs_runs_cfg (cfg : config) := xs_runs (cfg_xs_runs_fixed cfg).

(* ---- Chunk ---- *)
Lemma chunk_acc_unfold n : 1 <= n -> forall (l acc : list Z),
  zlen acc < n ->
  chunk_acc n acc l =
  if (length acc + length l <? Z.to_nat n)%nat
  then match acc ++ l with [] => [] | _ => [acc ++ l] end
  else (acc ++ firstn (Z.to_nat n - length acc) l)
       :: chunk_acc n [] (skipn (Z.to_nat n - length acc) l).
Proof.
  intros Hn. induction l as [|x t IH]; intros acc Ha; simpl.
  - destruct (length acc + 0 <? Z.to_nat n)%nat eqn:E.
    + rewrite app_nil_r. destruct acc; reflexivity.
    + apply Nat.ltb_ge in E. unfold zlen in Ha. lia.
  - destruct (zlen (acc ++ [x]) =? n) eqn:Ez.
    + apply Z.eqb_eq in Ez. rewrite zlen_app in Ez. unfold zlen in Ez, Ha. simpl in Ez.
      destruct (length acc + S (length t) <? Z.to_nat n)%nat eqn:E;
        [apply Nat.ltb_lt in E; lia|].
      replace (Z.to_nat n - length acc)%nat with 1%nat by lia. reflexivity.
    + apply Z.eqb_neq in Ez. rewrite zlen_app in Ez. unfold zlen in Ez, Ha. simpl in Ez.
      rewrite IH by (rewrite zlen_app; unfold zlen; simpl; lia).
      rewrite app_length. simpl.
      replace (length acc + 1 + length t)%nat with (length acc + S (length t))%nat by lia.
      destruct (length acc + S (length t) <? Z.to_nat n)%nat.
      * rewrite <- app_assoc. reflexivity.
      * replace (Z.to_nat n - length acc)%nat with (S (Z.to_nat n - (length acc + 1))) by lia.
        simpl. rewrite <- app_assoc. reflexivity.
Qed.

Lemma spec_chunk_unfold n (l : list Z) : 1 <= n -> l <> [] ->
  spec_chunk n l = firstn (Z.to_nat n) l :: spec_chunk n (skipn (Z.to_nat n) l).
Proof.
  intros Hn Hl. unfold spec_chunk. rewrite (chunk_acc_unfold n Hn l []) by (unfold zlen; simpl; lia).
  simpl. rewrite Nat.sub_0_r. destruct (length l <? Z.to_nat n)%nat eqn:E.
  - apply Nat.ltb_lt in E. rewrite firstn_all2, skipn_all2 by lia.
    destruct l; [congruence|reflexivity].
  - reflexivity.
Qed.

Definition xs_cnt (n : Z) (s : list Z) : nat := Z.to_nat (Z.quot (zlen s + n - 1) n).
Definition xs_piece (n : Z) (s : list Z) (i : nat) : list Z :=
  let e := (Z.of_nat i + 1) * n in
  zslice s (Z.of_nat i * n) (if zlen s <? e then zlen s else e).

Lemma xs_cnt_nil n : 1 <= n -> xs_cnt n [] = O.
Proof.
  intros Hn. unfold xs_cnt, zlen. simpl. rewrite Z.quot_div_nonneg by lia.
  rewrite Z.div_small by lia. reflexivity.
Qed.

Lemma xs_cnt_cons n s : 1 <= n -> s <> [] -> xs_cnt n s = S (xs_cnt n (skipn (Z.to_nat n) s)).
Proof.
  intros Hn Hs. unfold xs_cnt.
  assert (HL : 1 <= zlen s) by (destruct s; [congruence|rewrite zlen_cons; pose proof (zlen_nonneg s); lia]).
  rewrite !Z.quot_div_nonneg by (pose proof (zlen_nonneg (skipn (Z.to_nat n) s)); lia).
  assert (Hsk : zlen (skipn (Z.to_nat n) s) = Z.max 0 (zlen s - n)).
  { unfold zlen. rewrite skipn_length. lia. }
  rewrite Hsk. destruct (Z_lt_ge_dec (zlen s) n) as [Hc|Hc].
  - replace (Z.max 0 (zlen s - n)) with 0 by lia.
    replace ((0 + n - 1) / n) with 0 by (symmetry; apply Z.div_small; lia).
    replace ((zlen s + n - 1) / n) with 1; [reflexivity|].
    apply (Z.div_unique_pos _ _ _ (zlen s - 1)); lia.
  - replace (Z.max 0 (zlen s - n)) with (zlen s - n) by lia.
    replace (zlen s + n - 1) with ((zlen s - n + n - 1) + 1 * n) by lia.
    rewrite Z.div_add by lia.
    assert (0 <= (zlen s - n + n - 1) / n) by (apply Z.div_pos; lia). lia.
Qed.

Lemma skipn_skipn' {A} a b (l : list A) : skipn a (skipn b l) = skipn (a + b) l.
Proof.
  revert l. induction b as [|b IH]; intros l; simpl.
  - rewrite Nat.add_0_r. reflexivity.
  - rewrite Nat.add_succ_r. destruct l as [|x t]; simpl; [apply skipn_nil|apply IH].
Qed.

Lemma xs_piece_shift n s i : 1 <= n -> n <= zlen s ->
  xs_piece n s (S i) = xs_piece n (skipn (Z.to_nat n) s) i.
Proof.
  intros Hn HL. unfold xs_piece, zslice.
  assert (Hsk : zlen (skipn (Z.to_nat n) s) = zlen s - n).
  { unfold zlen in *. rewrite skipn_length. lia. }
  rewrite Hsk, skipn_skipn'.
  replace (Z.to_nat (Z.of_nat i * n) + Z.to_nat n)%nat with (Z.to_nat (Z.of_nat (S i) * n)) by nia.
  f_equal.
  destruct (zlen s <? (Z.of_nat (S i) + 1) * n) eqn:E1;
    destruct (zlen s - n <? (Z.of_nat i + 1) * n) eqn:E2;
    try apply Z.ltb_lt in E1; try apply Z.ltb_ge in E1;
    try apply Z.ltb_lt in E2; try apply Z.ltb_ge in E2; nia.
Qed.

Lemma xs_pieces_spec n : 1 <= n -> forall k s, (length s <= k)%nat ->
  map (xs_piece n s) (seq 0 (xs_cnt n s)) = spec_chunk n s.
Proof.
  intros Hn. induction k as [|k IH]; intros s Hk.
  - destruct s; [|simpl in Hk; lia]. rewrite xs_cnt_nil by exact Hn. reflexivity.
  - destruct s as [|x t] eqn:Es; [rewrite xs_cnt_nil by exact Hn; reflexivity|].
    rewrite <- Es in *. assert (Hne : s <> []) by (subst s; discriminate).
    rewrite (xs_cnt_cons n s Hn Hne), (spec_chunk_unfold n s Hn Hne). simpl.
    f_equal.
    + unfold xs_piece, zslice. change (Z.of_nat 0) with 0.
      rewrite Z.mul_0_l, Z.add_0_l, Z.mul_1_l, Z.sub_0_r. change (Z.to_nat 0) with O.
      cbn [skipn].
      destruct (zlen s <? n) eqn:E.
      * apply Z.ltb_lt in E. unfold zlen in *. rewrite Nat2Z.id.
        rewrite firstn_all, firstn_all2 by lia. reflexivity.
      * reflexivity.
    + rewrite <- seq_shift, map_map.
      destruct (Z_lt_ge_dec (zlen s) n) as [Hc|Hc].
      * assert (Hsk : skipn (Z.to_nat n) s = []) by (apply skipn_all2; unfold zlen in Hc; lia).
        rewrite Hsk, xs_cnt_nil by exact Hn. reflexivity.
      * rewrite <- (IH (skipn (Z.to_nat n) s)).
        -- apply map_ext. intros i. apply xs_piece_shift; lia.
        -- rewrite skipn_length. lia.
Qed.

Lemma collect_res_ok {A B} (f : A -> result B) (g : A -> B) l :
  (forall x, In x l -> f x = Ok (g x)) -> collect_res (map f l) = Ok (map g l).
Proof.
  induction l as [|x t IH]; simpl; intros H; [reflexivity|].
  rewrite (H x (or_introl eq_refl)), IH by auto. reflexivity.
Qed.

(* xslices.Chunk = the chunks iterator.Chunk / stream.Chunk yield, for every size >= 1 *)
Theorem xs_chunk_agree n s : 1 <= n -> xs_chunk n s = Ok (den_l (LChunk n (ZSrc 0 (SSlice s)))).
Proof.
  intros Hn. unfold xs_chunk. simpl.
  destruct (n =? 0) eqn:E0; [apply Z.eqb_eq in E0; lia|].
  assert (Hq : 0 <= Z.quot (zlen s + n - 1) n).
  { rewrite Z.quot_div_nonneg by (pose proof (zlen_nonneg s); lia).
    apply Z.div_pos; pose proof (zlen_nonneg s); lia. }
  destruct (Z.quot (zlen s + n - 1) n <? 0) eqn:Ec; [apply Z.ltb_lt in Ec; lia|].
  fold (xs_cnt n s). rewrite <- (xs_pieces_spec n Hn (length s) s (le_n _)).
  apply collect_res_ok. intros i Hi. apply in_seq in Hi. unfold cslice, xs_piece.
  assert (Hb : Z.of_nat i * n <= zlen s).
  { unfold xs_cnt in Hi. rewrite Z.quot_div_nonneg in Hi by (pose proof (zlen_nonneg s); lia).
    assert (Z.of_nat i < (zlen s + n - 1) / n) by lia.
    assert (Hm : n * ((zlen s + n - 1) / n) <= zlen s + n - 1)
      by (apply Z.mul_div_le; lia).
    nia. }
  destruct (zlen s <? (Z.of_nat i + 1) * n) eqn:E; [apply Z.ltb_lt in E|apply Z.ltb_ge in E].
  - replace ((0 <=? Z.of_nat i * n) && (Z.of_nat i * n <=? zlen s) && (zlen s <=? zlen s))
      with true; [reflexivity|].
    symmetry. rewrite !andb_true_iff, !Z.leb_le. lia.
  - replace ((0 <=? Z.of_nat i * n) && (Z.of_nat i * n <=? (Z.of_nat i + 1) * n)
             && ((Z.of_nat i + 1) * n <=? zlen s)) with true; [reflexivity|].
    symmetry. rewrite !andb_true_iff, !Z.leb_le. nia.
Qed.
