(* Event logs of the stream model (C09): which Close calls reach the sources, that no source is
   closed twice or used after its Close.  Log predicates, the event contract of one call and its
   composition, the generic lemmas per transcription. *)
From Juniper Require Import Common.Base Iter.Syntax Iter.ModelBase Iter.IterModel
  Iter.StreamModel Iter.Contract.

Definition ev_id (e : sev) : nat := match e with SevNext i | SevClose i => i end.
(* ids closed / touched by a list of events *)
Definition cids (ev : list sev) : list nat :=
  flat_map (fun e => match e with SevClose i => [i] | SevNext _ => [] end) ev.
Definition tids (ev : list sev) : list nat := map ev_id ev.

(* once an id has been closed it is never touched again (no Next, no second Close) *)
Fixpoint log_ok (l : list sev) : Prop :=
  match l with
  | [] => True
  | e :: t => match e with SevClose i => ~ In i (tids t) | SevNext _ => True end /\ log_ok t
  end.

Lemma cids_app a b : cids (a ++ b) = cids a ++ cids b.
Proof. unfold cids. apply flat_map_app. Qed.
Lemma tids_app a b : tids (a ++ b) = tids a ++ tids b.
Proof. unfold tids. apply map_app. Qed.
Lemma cids_in_tids ev x : In x (cids ev) -> In x (tids ev).
Proof.
  induction ev as [|e t IH]; simpl; [auto|]. destruct e as [i|i]; simpl; intros H; auto.
  destruct H as [H|H]; auto.
Qed.

Lemma log_ok_app l1 l2 :
  log_ok l1 -> log_ok l2 -> (forall x, In x (cids l1) -> ~ In x (tids l2)) -> log_ok (l1 ++ l2).
Proof.
  induction l1 as [|e t IH]; simpl; intros H1 H2 Hd; [exact H2|].
  destruct H1 as [Ha Hb]. split.
  - destruct e as [i|i]; [exact I|]. rewrite tids_app, in_app_iff. intros [Hx|Hx]; [auto|].
    apply (Hd i); simpl; auto.
  - apply IH; auto. intros x Hx. apply Hd. destruct e; simpl; auto.
Qed.

Lemma log_ok_closes ids : NoDup ids -> log_ok (map SevClose ids).
Proof.
  intros Hn. induction Hn as [|x t Hx Ht IH]; simpl; [exact I|]. split; [|exact IH].
  unfold tids. rewrite map_map. simpl. rewrite map_id. exact Hx.
Qed.

Lemma cids_closes ids : cids (map SevClose ids) = ids.
Proof. induction ids as [|x t IH]; simpl; [reflexivity|]. rewrite IH. reflexivity. Qed.
Lemma tids_closes ids : tids (map SevClose ids) = ids.
Proof. unfold tids. rewrite map_map. simpl. apply map_id. Qed.

(* no id is closed twice *)
Lemma log_ok_nodup_cids l : log_ok l -> NoDup (cids l).
Proof.
  induction l as [|e t IH]; simpl; [intros _; constructor|intros [Ha Hb]].
  destruct e as [i|i]; simpl; [auto|]. constructor; [|auto].
  intros Hx. apply Ha. apply cids_in_tids. exact Hx.
Qed.

(* list facts *)
Lemma NoDup_app_sub {A} (a b c : list A) :
  NoDup (a ++ b) -> NoDup c -> incl c b -> NoDup (a ++ c).
Proof.
  induction a as [|x a IH]; simpl; intros H Hc Hi; [exact Hc|].
  inversion H as [|x0 l0 Hx Hn]; subst. constructor; [|apply IH; auto].
  rewrite in_app_iff in *. intros [H1|H1]; apply Hx; auto.
Qed.

Lemma NoDup_app_l {A} (a b : list A) : NoDup (a ++ b) -> NoDup a.
Proof.
  induction a as [|x a IH]; simpl; intros H; [constructor|].
  inversion H as [|x0 l0 Hx Hn]; subst. constructor; [|auto].
  intros H1. apply Hx. apply in_or_app. auto.
Qed.
Lemma NoDup_app_r {A} (a b : list A) : NoDup (a ++ b) -> NoDup b.
Proof. induction a as [|x a IH]; simpl; intros H; [exact H|]. inversion H; auto. Qed.
Lemma NoDup_app_disj {A} (a b : list A) x : NoDup (a ++ b) -> In x a -> ~ In x b.
Proof.
  induction a as [|y a IH]; simpl; intros H Ha; [destruct Ha|].
  inversion H as [|x0 l0 Hx Hn]; subst. destruct Ha as [Ha|Ha].
  - subst. intros Hb. apply Hx. apply in_or_app. auto.
  - apply IH; auto.
Qed.

(* ---- the event contract of one call ---- *)
Section EventRel.
  Context {St : Type} (all opn : St -> list nat).

  (* s --ev--> s' : ids are neither invented nor duplicated; the log is well formed; an open
     source stays open or is closed; whatever is touched is open afterwards or closed *)
  Definition evrel (s : St) (ev : list sev) (s' : St) : Prop :=
    NoDup (all s) ->
    NoDup (cids ev ++ all s') /\ incl (cids ev ++ all s') (all s) /\
    incl (tids ev) (all s) /\ log_ok ev /\
    incl (opn s) (cids ev ++ opn s') /\ incl (tids ev) (cids ev ++ opn s').

  Lemma evrel_refl s : evrel s [] s.
  Proof.
    intros Hn. simpl. split; [exact Hn|]. split; [apply incl_refl|].
    split; [intros x []|]. split; [exact I|]. split; [apply incl_refl|intros x []].
  Qed.

  Lemma evrel_trans s ev1 s1 ev2 s2 :
    evrel s ev1 s1 -> evrel s1 ev2 s2 -> evrel s (ev1 ++ ev2) s2.
  Proof.
    intros H1 H2 Hn. destruct (H1 Hn) as (A1 & A2 & A3 & A4 & A5 & A6).
    pose proof (NoDup_app_r _ _ A1) as Hn1.
    destruct (H2 Hn1) as (B1 & B2 & B3 & B4 & B5 & B6).
    rewrite cids_app, tids_app, <- !app_assoc.
    split; [apply NoDup_app_sub with (b := all s1); auto|].
    split.
    { intros x Hx. apply A2. rewrite in_app_iff in *. destruct Hx as [Hx|Hx]; auto. }
    split.
    { intros x Hx. rewrite in_app_iff in Hx. destruct Hx as [Hx|Hx]; [auto|].
      apply A2. apply in_or_app. right. apply B3. exact Hx. }
    split.
    { apply log_ok_app; auto. intros x Hx Hx2.
      apply (NoDup_app_disj _ _ x A1 Hx). apply B3. exact Hx2. }
    split.
    { intros x Hx. specialize (A5 x Hx). rewrite in_app_iff in *.
      destruct A5 as [Hc|Ho]; [auto|]. right. apply B5. exact Ho. }
    { intros x Hx. rewrite in_app_iff in Hx. destruct Hx as [Hx|Hx].
      - specialize (A6 x Hx). rewrite in_app_iff in *.
        destruct A6 as [Hc|Ho]; [auto|]. right. apply B5. exact Ho.
      - rewrite in_app_iff. right. apply B6. exact Hx. }
  Qed.
End EventRel.

(* ---- chains of inner calls: what a single-child combinator does ---- *)
Section Chain.
  Context {A St : Type} (nx : St -> ret A St).

  Inductive chain : St -> list sev -> St -> Prop :=
  | chain_nil s : chain s [] s
  | chain_step s o s1 ev1 ev2 s2 :
      nx s = (o, s1, ev1) -> chain s1 ev2 s2 -> chain s (ev1 ++ ev2) s2.

  Lemma chain_one s o s1 ev1 : nx s = (o, s1, ev1) -> chain s ev1 s1.
  Proof. intros H. rewrite <- (app_nil_r ev1). eapply chain_step; [exact H|constructor]. Qed.

  Lemma chain_app s ev1 s1 ev2 s2 : chain s ev1 s1 -> chain s1 ev2 s2 -> chain s (ev1 ++ ev2) s2.
  Proof.
    induction 1 as [|s o sa eva evb sb Hn Hc IH]; intros H2; [exact H2|].
    rewrite <- app_assoc. eapply chain_step; [exact Hn|]. apply IH. exact H2.
  Qed.

  Lemma chain_evrel (all opn : St -> list nat) :
    (forall s o s' ev, nx s = (o, s', ev) -> evrel all opn s ev s') ->
    forall s ev s', chain s ev s' -> evrel all opn s ev s'.
  Proof.
    intros Hnx s ev s' Hc. induction Hc as [|s o s1 ev1 ev2 s2 Hn Hc IH].
    - apply evrel_refl.
    - eapply evrel_trans; [eapply Hnx; exact Hn|exact IH].
  Qed.
End Chain.

(* every single-child transcription only performs a chain of inner calls *)
Section ChainLemmas.
  Context {St : Type} (nx : St -> ret Z St).
  Notation chain := (chain nx).

  Lemma ipk_next_chain p o p' ev : ipk_next nx p = (o, p', ev) -> chain (pk_in p) ev (pk_in p').
  Proof.
    destruct p as [has curr s]. unfold ipk_next. simpl. destruct has.
    - intros Hc. inv_ret Hc. constructor.
    - destruct (nx s) as [[o1 s1] ev1] eqn:E. intros Hc. inv_ret Hc. simpl.
      eapply chain_one. exact E.
  Qed.

  Lemma ipk_peek_chain p o p' ev : ipk_peek nx p = (o, p', ev) -> chain (pk_in p) ev (pk_in p').
  Proof.
    destruct p as [has curr s]. unfold ipk_peek. simpl. destruct has.
    - intros Hc. inv_ret Hc. constructor.
    - destruct (nx s) as [[o1 s1] ev1] eqn:E. intros Hc.
      destruct o1; inv_ret Hc; simpl; eapply chain_one; exact E.
  Qed.

  Lemma icompact_chain n r : forall first prev s o first' prev' s' ev,
    icompact nx n r first prev s = (o, (first', prev', s'), ev) -> chain s ev s'.
  Proof.
    induction n as [|n IH]; intros first prev s o first' prev' s' ev Hc; simpl in Hc.
    - inv_ret Hc. constructor.
    - destruct (nx s) as [[o1 s1] ev1] eqn:E.
      destruct o1 as [x| | | |]; try (inv_ret Hc; eapply chain_one; exact E).
      destruct first; [inv_ret Hc; eapply chain_one; exact E|].
      destruct (negb (rel_eval r prev x)); [inv_ret Hc; eapply chain_one; exact E|].
      destruct (icompact nx n r false prev s1) as [[o2 [[f2 pr2] s2]] ev2] eqn:E2.
      simpl in Hc. inv_ret Hc. eapply chain_step; [exact E|]. eapply IH. exact E2.
  Qed.

  Lemma sfilter_chain n keep fl : forall calls s o calls' s' ev,
    sfilter nx n keep fl calls s = (o, (calls', s'), ev) -> chain s ev s'.
  Proof.
    induction n as [|n IH]; intros calls s o calls' s' ev Hc; simpl in Hc.
    - inv_ret Hc. constructor.
    - destruct (nx s) as [[o1 s1] ev1] eqn:E.
      destruct o1 as [x| | | |]; try (inv_ret Hc; eapply chain_one; exact E).
      destruct (fails_now fl calls); [inv_ret Hc; eapply chain_one; exact E|].
      destruct (pred_eval keep x); [inv_ret Hc; eapply chain_one; exact E|].
      destruct (sfilter nx n keep fl (S calls) s1) as [[o2 [c2 s2]] ev2] eqn:E2.
      simpl in Hc. inv_ret Hc. eapply chain_step; [exact E|]. eapply IH. exact E2.
  Qed.

  Lemma sfirst_chain x s o x' s' ev : sfirst nx x s = (o, (x', s'), ev) -> chain s ev s'.
  Proof.
    unfold sfirst. destruct (x <=? 0).
    - intros Hc. inv_ret Hc. constructor.
    - destruct (nx s) as [[o1 s1] ev1] eqn:E. intros Hc.
      destruct o1; inv_ret Hc; eapply chain_one; exact E.
  Qed.

  Lemma smap_chain f fl calls s o calls' s' ev :
    smap nx f fl calls s = (o, (calls', s'), ev) -> chain s ev s'.
  Proof.
    unfold smap. destruct (nx s) as [[o1 s1] ev1] eqn:E. intros Hc.
    destruct o1; try (inv_ret Hc; eapply chain_one; exact E).
    destruct (fails_now fl calls); inv_ret Hc; eapply chain_one; exact E.
  Qed.

  Lemma swhile_chain f fl calls item has done s o calls' item' has' done' s' ev :
    swhile nx f fl calls item has done s = (o, (calls', item', has', done', s'), ev) ->
    chain s ev s'.
  Proof.
    unfold swhile. destruct done.
    - intros Hc. inv_ret Hc. constructor.
    - destruct has.
      + destruct (fails_now fl calls); [intros Hc; inv_ret Hc; constructor|].
        destruct (pred_eval f item); intros Hc; inv_ret Hc; constructor.
      + destruct (nx s) as [[o1 s1] ev1] eqn:E.
        destruct o1 as [x| | | |]; try (intros Hc; inv_ret Hc; eapply chain_one; exact E).
        destruct (fails_now fl calls); [intros Hc; inv_ret Hc; eapply chain_one; exact E|].
        destruct (pred_eval f x); intros Hc; inv_ret Hc; eapply chain_one; exact E.
  Qed.

  Lemma schunk_chain n size : forall chunk s o chunk' s' ev,
    schunk nx n size chunk s = (o, (chunk', s'), ev) -> chain s ev s'.
  Proof.
    induction n as [|n IH]; intros chunk s o chunk' s' ev Hc; simpl in Hc.
    - inv_ret Hc. constructor.
    - destruct (nx s) as [[o1 s1] ev1] eqn:E.
      destruct o1 as [x| | | |]; try (inv_ret Hc; eapply chain_one; exact E).
      + destruct (zlen (chunk ++ [x]) =? size); [inv_ret Hc; eapply chain_one; exact E|].
        destruct (schunk nx n size (chunk ++ [x]) s1) as [[o2 [c2 s2]] ev2] eqn:E2.
        simpl in Hc. inv_ret Hc. eapply chain_step; [exact E|]. eapply IH. exact E2.
      + destruct (0 <? zlen chunk); [destruct (size <? 0)|]; inv_ret Hc;
          eapply chain_one; exact E.
  Qed.

  Lemma sruns_inner_chain r prev p o p' ev :
    sruns_inner nx r prev p = (o, p', ev) -> chain (pk_in p) ev (pk_in p').
  Proof.
    unfold sruns_inner. destruct (ipk_peek nx p) as [[o1 p1] ev1] eqn:E1.
    pose proof (ipk_peek_chain _ _ _ _ E1) as C1.
    destruct o1 as [x| | | |]; try (intros Hc; inv_ret Hc; exact C1).
    destruct (rel_eval r prev x); [|intros Hc; inv_ret Hc; exact C1].
    destruct (ipk_next nx p1) as [[o2 p2] ev2] eqn:E2.
    pose proof (ipk_next_chain _ _ _ _ E2) as C2.
    intros Hc. inv_ret Hc. eapply chain_app; eauto.
  Qed.

  Lemma sruns_drain_chain n r prev : forall p o p' ev,
    sruns_drain nx n r prev p = (o, p', ev) -> chain (pk_in p) ev (pk_in p').
  Proof.
    induction n as [|n IH]; intros p o p' ev Hc; simpl in Hc.
    - inv_ret Hc. constructor.
    - destruct (sruns_inner nx r prev p) as [[o1 p1] ev1] eqn:E1.
      pose proof (sruns_inner_chain _ _ _ _ _ _ E1) as C1.
      destruct o1 as [x| | | |]; try (inv_ret Hc; exact C1).
      destruct (sruns_drain nx n r prev p1) as [[o2 p2] ev2] eqn:E2.
      simpl in Hc. inv_ret Hc. eapply chain_app; [exact C1|]. eapply IH. exact E2.
  Qed.

  Lemma sruns_take_chain n r k prev : forall acc p o acc' p' ev,
    sruns_take nx n r k acc prev p = (o, (acc', p'), ev) -> chain (pk_in p) ev (pk_in p').
  Proof.
    induction n as [|n IH]; intros acc p o acc' p' ev Hc; simpl in Hc.
    - inv_ret Hc. constructor.
    - destruct (match k with Some k0 => (k0 <=? length acc)%nat | None => false end).
      + inv_ret Hc. constructor.
      + destruct (sruns_inner nx r prev p) as [[o1 p1] ev1] eqn:E1.
        pose proof (sruns_inner_chain _ _ _ _ _ _ E1) as C1.
        destruct o1 as [x| | | |]; try (inv_ret Hc; exact C1).
        destruct (sruns_take nx n r k (acc ++ [x]) prev p1) as [[o2 [a2 p2]] ev2] eqn:E2.
        simpl in Hc. inv_ret Hc. eapply chain_app; [exact C1|]. eapply IH. exact E2.
  Qed.

  Lemma sruns_chain n r k cur pend p o cur' pend' p' ev :
    sruns nx n r k cur pend p = (o, (cur', pend', p'), ev) -> chain (pk_in p) ev (pk_in p').
  Proof.
    assert (Htake : forall x acc p2 ev0,
      chain (pk_in p) ev0 (pk_in p2) ->
      (let '(o3, (acc3, p3), ev3) := sruns_take nx n r k acc x p2 in
       match o3 with
       | Item l => (Item l, (Some x, None, p3), ev0 ++ ev3)
       | _ => (pass o3, (Some x, Some acc3, p3), ev0 ++ ev3)
       end) = (o, (cur', pend', p'), ev) -> chain (pk_in p) ev (pk_in p')).
    { intros x acc p2 ev0 C0 Hc.
      destruct (sruns_take nx n r k acc x p2) as [[o3 [acc3 p3]] ev3] eqn:E3.
      pose proof (sruns_take_chain _ _ _ _ _ _ _ _ _ _ E3) as C3.
      destruct o3; inv_ret Hc; eapply chain_app; eauto. }
    assert (Hmain :
      (let '(o1, p1, ev1) :=
         match cur with
         | Some prev => sruns_drain nx n r prev p
         | None => (End, p, [])
         end in
       match o1 with
       | End =>
           let '(o2, p2, ev2) := ipk_peek nx p1 in
           match o2 with
           | Item x =>
               let '(o3, (acc3, p3), ev3) := sruns_take nx n r k [] x p2 in
               match o3 with
               | Item l => (Item l, (Some x, None, p3), (ev1 ++ ev2) ++ ev3)
               | _ => (pass o3, (Some x, Some acc3, p3), (ev1 ++ ev2) ++ ev3)
               end
           | _ => (pass o2, (None, None, p2), ev1 ++ ev2)
           end
       | _ => (pass o1, (cur, None, p1), ev1)
       end) = (o, (cur', pend', p'), ev) -> chain (pk_in p) ev (pk_in p')).
    { intros Hc.
      assert (Hdr : exists o1 p1 ev1,
                 match cur with
                 | Some prev => sruns_drain nx n r prev p
                 | None => (End, p, [])
                 end = (o1 : res unit, p1, ev1) /\ chain (pk_in p) ev1 (pk_in p1)).
      { destruct cur as [prev|].
        - destruct (sruns_drain nx n r prev p) as [[o1 p1] ev1] eqn:E1.
          exists o1, p1, ev1. split; [reflexivity|]. eapply sruns_drain_chain. exact E1.
        - exists End, p, []. split; [reflexivity|constructor]. }
      destruct Hdr as (o1 & p1 & ev1 & Hdr & C1). rewrite Hdr in Hc. clear Hdr.
      destruct o1 as [u| | | |]; try (inv_ret Hc; exact C1).
      destruct (ipk_peek nx p1) as [[o2 p2] ev2] eqn:E2.
      pose proof (ipk_peek_chain _ _ _ _ E2) as C2.
      assert (C12 : chain (pk_in p) (ev1 ++ ev2) (pk_in p2)) by (eapply chain_app; eauto).
      destruct o2 as [x| | | |]; try (inv_ret Hc; exact C12).
      eapply Htake; [exact C12|exact Hc]. }
    unfold sruns. destruct pend as [acc|]; [destruct cur as [prev|]|].
    - intros Hc. eapply (Htake prev acc p []); [constructor|exact Hc].
    - exact Hmain.
    - exact Hmain.
  Qed.
End ChainLemmas.

Section ChainFS.
  Context {Lt : Type} (nxl : Lt -> ret (list Z) Lt).
  Lemma iflatslices_chain n : forall b q o b' q' ev,
    iflatslices nxl n b q = (o, (b', q'), ev) -> chain nxl q ev q'.
  Proof.
    induction n as [|n IH]; intros b q o b' q' ev Hc; simpl in Hc.
    - inv_ret Hc. constructor.
    - destruct b as [|x b]; [|inv_ret Hc; constructor].
      destruct (nxl q) as [[o1 q1] ev1] eqn:E.
      destruct o1 as [l| | | |]; try (inv_ret Hc; eapply chain_one; exact E).
      destruct (iflatslices nxl n l q1) as [[o2 [b2 q2]] ev2] eqn:E2.
      simpl in Hc. inv_ret Hc. eapply chain_step; [exact E|]. eapply IH. exact E2.
  Qed.
End ChainFS.

(* ---- Flatten and Join: several inner streams, closed when they end ---- *)
Lemma NoDup_sub_frame {A} (x a f : list A) :
  NoDup x -> incl x a -> NoDup (a ++ f) -> NoDup (x ++ f).
Proof.
  induction x as [|y x IH]; simpl; intros Hx Hi Hn; [eapply NoDup_app_r; exact Hn|].
  inversion Hx as [|y0 x0 Hy Hx']; subst. constructor.
  - rewrite in_app_iff. intros [H|H]; [auto|].
    apply (NoDup_app_disj _ _ y Hn); [apply Hi; simpl; auto|exact H].
  - apply IH; auto. intros z Hz. apply Hi. simpl. auto.
Qed.

Section MultiChild.
  Context {St : Type} (nx : St -> ret Z St) (cl : St -> list sev).
  Variables (all opn : St -> list nat).
  Hypothesis Hcl : forall c, cl c = map SevClose (opn c).
  Hypothesis Hsub : forall c, incl (opn c) (all c).
  Hypothesis Hond : forall c, NoDup (all c) -> NoDup (opn c).
  Hypothesis Hnx : forall s o s' ev, nx s = (o, s', ev) -> evrel all opn s ev s'.

  (* an inner call seen from a state that holds other ids F (of which G are open) *)
  Lemma frame6 c ev c' F G :
    evrel all opn c ev c' -> NoDup (all c ++ F) -> incl G F ->
    NoDup (cids ev ++ all c' ++ F) /\ incl (cids ev ++ all c' ++ F) (all c ++ F) /\
    incl (tids ev) (all c ++ F) /\ log_ok ev /\
    incl (opn c ++ G) (cids ev ++ opn c' ++ G) /\ incl (tids ev) (cids ev ++ opn c' ++ G).
  Proof.
    intros Hev Hn HG. destruct (Hev (NoDup_app_l _ _ Hn)) as (A1 & A2 & A3 & A4 & A5 & A6).
    split. { rewrite app_assoc. eapply NoDup_sub_frame; eauto. }
    split. { rewrite app_assoc. intros x Hx. rewrite in_app_iff in *.
             destruct Hx as [Hx|Hx]; [left; apply A2; exact Hx|right; exact Hx]. }
    split. { intros x Hx. apply in_or_app. left. apply A3. exact Hx. }
    split; [exact A4|].
    split. { intros x Hx. rewrite app_assoc. rewrite in_app_iff in *.
             destruct Hx as [Hx|Hx]; [left; apply A5; exact Hx|right; exact Hx]. }
    { intros x Hx. rewrite app_assoc. apply in_or_app. left. apply A6. exact Hx. }
  Qed.

  (* closing an inner stream and dropping it *)
  Lemma close6 c F G :
    NoDup (all c ++ F) -> incl G F ->
    NoDup (cids (cl c) ++ F) /\ incl (cids (cl c) ++ F) (all c ++ F) /\
    incl (tids (cl c)) (all c ++ F) /\ log_ok (cl c) /\
    incl (opn c ++ G) (cids (cl c) ++ G) /\ incl (tids (cl c)) (cids (cl c) ++ G).
  Proof.
    intros Hn HG. rewrite Hcl, cids_closes, tids_closes.
    pose proof (Hond c (NoDup_app_l _ _ Hn)) as Ho.
    split. { eapply NoDup_sub_frame; eauto. }
    split. { intros x Hx. rewrite in_app_iff in *.
             destruct Hx as [Hx|Hx]; [left; apply Hsub; exact Hx|right; exact Hx]. }
    split. { intros x Hx. apply in_or_app. left. apply Hsub. exact Hx. }
    split; [apply log_ok_closes; exact Ho|].
    split; [apply incl_refl|]. intros x Hx. apply in_or_app. left. exact Hx.
  Qed.

  (* Flatten *)
  Definition flall (w : list St * option St) : list nat :=
    (match snd w with Some c => all c | None => [] end) ++ flat_map all (fst w).
  Definition flopn (w : list St * option St) : list nat :=
    match snd w with Some c => opn c | None => [] end.

  Lemma sflatten_ev n live : forall rest curr o rest' curr' ev,
    sflatten nx cl n live rest curr = (o, (rest', curr'), ev) ->
    evrel flall flopn (rest, curr) ev (rest', curr').
  Proof.
    induction n as [|n IH]; intros rest curr o rest' curr' ev Hc; simpl in Hc.
    - inv_ret Hc. apply evrel_refl.
    - destruct curr as [c|].
      + destruct (nx c) as [[o1 c1] ev1] eqn:E.
        assert (Hstep : evrel flall flopn (rest, Some c) ev1 (rest, Some c1)).
        { intros Hn. unfold flall, flopn in *. simpl in *.
          destruct (frame6 c ev1 c1 (flat_map all rest) [] (Hnx _ _ _ _ E) Hn
                           ltac:(intros x []))
            as (A1 & A2 & A3 & A4 & A5 & A6).
          repeat rewrite app_nil_r in A5. repeat rewrite app_nil_r in A6.
          repeat rewrite app_nil_r.
          split; [exact A1|]. split; [exact A2|]. split; [exact A3|]. split; [exact A4|].
          split; [exact A5|exact A6]. }
        destruct o1 as [x| | | |]; try (inv_ret Hc; exact Hstep).
        destruct (sflatten nx cl n live rest None) as [[o2 [r2 c2]] ev2] eqn:E2.
        simpl in Hc. inv_ret Hc.
        assert (Hclose : evrel flall flopn (rest, Some c1) (cl c1) (rest, None)).
        { intros Hn. unfold flall, flopn in *. simpl in *.
          destruct (close6 c1 (flat_map all rest) [] Hn ltac:(intros x []))
            as (A1 & A2 & A3 & A4 & A5 & A6).
          repeat rewrite app_nil_r in A5. repeat rewrite app_nil_r in A6.
          repeat rewrite app_nil_r.
          split; [exact A1|]. split; [exact A2|]. split; [exact A3|]. split; [exact A4|].
          split; [exact A5|exact A6]. }
        rewrite <- app_assoc.
        eapply evrel_trans; [exact Hstep|]. eapply evrel_trans; [exact Hclose|].
        eapply IH. exact E2.
      + destruct live; simpl in Hc; [|inv_ret Hc; apply evrel_refl].
        destruct rest as [|c rest0]; [inv_ret Hc; apply evrel_refl|].
        assert (Hget : evrel flall flopn (c :: rest0, None) [] (rest0, Some c)).
        { intros Hn. unfold flall, flopn in *. simpl in *.
          split; [exact Hn|]. split; [apply incl_refl|]. split; [intros x []|].
          split; [exact I|]. split; intros x []. }
        rewrite <- (app_nil_l ev). eapply evrel_trans; [exact Hget|]. eapply IH. exact Hc.
  Qed.

  (* Join *)
  Definition jall (its : list St) : list nat := flat_map all its.
  Definition jopn (its : list St) : list nat := flat_map opn its.

  Lemma jopn_sub its : incl (jopn its) (jall its).
  Proof.
    unfold jopn, jall. induction its as [|c tl IH]; simpl; [apply incl_refl|].
    intros x Hx. rewrite in_app_iff in *. destruct Hx as [Hx|Hx]; [left; apply Hsub|right]; auto.
  Qed.

  Lemma sjoin_ev n : forall its o its' ev,
    sjoin nx cl n its = (o, its', ev) -> evrel jall jopn its ev its'.
  Proof.
    induction n as [|n IH]; intros its o its' ev Hc; simpl in Hc.
    - inv_ret Hc. apply evrel_refl.
    - destruct its as [|c tl]; [inv_ret Hc; apply evrel_refl|].
      destruct (nx c) as [[o1 c1] ev1] eqn:E.
      assert (Hstep : evrel jall jopn (c :: tl) ev1 (c1 :: tl)).
      { intros Hn. unfold jall, jopn in *. simpl in *.
        exact (frame6 c ev1 c1 (flat_map all tl) (flat_map opn tl) (Hnx _ _ _ _ E) Hn
                      (jopn_sub tl)). }
      destruct o1 as [x| | | |]; try (inv_ret Hc; exact Hstep).
      destruct (sjoin nx cl n tl) as [[o2 its2] ev2] eqn:E2.
      simpl in Hc. inv_ret Hc.
      assert (Hclose : evrel jall jopn (c1 :: tl) (cl c1) tl).
      { intros Hn. unfold jall, jopn in *. simpl in *.
        exact (close6 c1 (flat_map all tl) (flat_map opn tl) Hn (jopn_sub tl)). }
      rewrite <- app_assoc.
      eapply evrel_trans; [exact Hstep|]. eapply evrel_trans; [exact Hclose|].
      eapply IH. exact E2.
  Qed.
End MultiChild.
