(* Shared syntax of iterator/stream pipelines: the Go harness builds the same pipeline from the
   same description with the real juniper combinators (harness/pipes.go), the Coq models give it
   meaning (Iter/IterModel.v, Iter/StreamModel.v).  Definitions only. *)
From Juniper Require Import Common.Base.

(* user callbacks, as small closed families so that Go and Coq can agree on them *)
Inductive pred :=
| PrTrue
| PrModEq (m r : Z)        (* x mod m = r  (Z.modulo, m > 0; harness uses ((x%m)+m)%m) *)
| PrLt (c : Z)             (* x < c *)
| PrNot (p : pred).

Inductive fn := FnAffine (a b : Z).            (* x => a*x + b *)

Inductive rel :=                                 (* equivalences for Compact/Runs *)
| RelEq
| RelDiv (d : Z).          (* floor(x/d) = floor(y/d), d > 0 (Z.div; harness uses floor division) *)

Definition pred_eval (p : pred) (x : Z) : bool :=
  (fix ev p := match p with
               | PrTrue => true
               | PrModEq m r => Z.modulo x m =? r
               | PrLt c => x <? c
               | PrNot q => negb (ev q)
               end) p.
Definition fn_eval (f : fn) (x : Z) : Z := match f with FnAffine a b => a * x + b end.
Definition rel_eval (r : rel) (x y : Z) : bool :=
  match r with RelEq => x =? y | RelDiv d => Z.div x d =? Z.div y d end.

(* a callback may fail: the k-th invocation (0-based, counted per callback instance) does not
   return a result.  fail_panic = false: it returns error code fail_err (streams only - an
   iterator callback cannot return an error, iterators ignore such a record altogether);
   fail_panic = true: it panics (streams and iterators; fail_err is not used).  Every other
   invocation succeeds. *)
Record failing := mkFailing { fail_at : option nat; fail_err : Z; fail_panic : bool }.
Definition never_fails : failing := mkFailing None 0 false.

(* sources.  Every source carries an id; the harness instruments it (pull counter, Next/Close log). *)
Inductive sevent :=
| EvItem (x : Z)
| EvTransient (e : Z)      (* Next returns error e once; the following Next proceeds *)
| EvFatal (e : Z)          (* Next returns error e now and on every later call *)
| EvPanic.                 (* Next panics once; the following Next proceeds with the rest of the
                              script *)

Inductive source :=
| SSlice (l : list Z)                (* iterator.Slice / stream.FromIterator(iterator.Slice) *)
| SCounter (n : Z)                   (* iterator.Counter(n) *)
| SRepeat (x n : Z)                  (* iterator.Repeat(x, n) *)
| SEmpty
| SChan (l : list Z)                 (* iterator.Chan / stream.Chan over a closed channel holding l *)
| SScript (evs : list sevent)        (* streams only: scripted source; after the script: End forever.
                                        A Next whose context is expired returns the context error
                                        and consumes nothing. *)
| SScriptNC (evs : list sevent)      (* streams only: scripted source that never looks at the
                                        context: a Next with an expired context behaves exactly
                                        like a live one (returns the next scripted event and
                                        consumes it).  Slice-backed streams that do not check
                                        ctx, channel-backed streams whose select picks the ready
                                        item. *)
| SError (e : Z).                    (* streams only: stream.Error(err), "a Stream that
                                        immediately produces err from Next": EVERY Next returns
                                        the error e - first call or later, live or expired
                                        context (errorStream.Next does not look at it), before
                                        or after Close -, nothing else ever; Close does
                                        nothing. *)

(* pipelines yielding Z (pz) and pipelines yielding lists of Z (pl) *)
Inductive pz :=
| ZSrc (id : nat) (s : source)
| ZPeek (p : pz)                               (* WithPeek, used through Next only here *)
| ZCompact (r : rel) (p : pz)                  (* CompactFunc (RelEq: Compact) *)
| ZFilter (f : pred) (fl : failing) (p : pz)
| ZFirst (n : Z) (p : pz)
| ZFlatten (ps : list pz)                      (* Flatten over a Slice of the inner pipelines *)
| ZJoin (ps : list pz)
| ZMap (f : fn) (fl : failing) (p : pz)
| ZWhile (f : pred) (fl : failing) (p : pz)
| ZFlattenSlices (p : pl)                      (* stream only *)
with pl :=
| LChunk (n : Z) (p : pz)
| LRuns (r : rel) (take : option nat) (p : pz).
  (* Runs; each inner run handed out is consumed at once by the harness: completely (take = None)
     or only its first k items (take = Some k) before the outer Next is called again. *)

(* what the consumer does *)
Inductive cop :=
| CNext (live : bool)      (* one Next call; live = false: with an already-expired context (streams) *)
| CClose.                  (* streams only *)

Inductive reducer :=
| RCollect
| RLast (n : Z)
| ROne
| RSum (fl : failing)      (* Reduce with + from 0; the k-th invocation of the reduction function
                              fails as [fl] says (error: streams only; panic: both) *)
| REqualSelf               (* Equal(p, p') on two independent copies of the pipeline *)
| REqual (others : list pz). (* iterator.Equal(p, others...) on independent pipelines (iterators only) *)

Inductive program :=
| Steps (ops : list cop)
| Reduce (r : reducer) (live : bool).

(* observations *)
Inductive item := IZ (x : Z) | IL (l : list Z).
Inductive robs :=
| RItem (i : item)
| REnd
| RErr (e : Z)             (* error code: script/callback codes are > 0; context error = -1;
                              ErrEmpty = -2; ErrMoreThanOne = -3 *)
| RPanic
| RUnit                    (* Close returned *)
| RVal (l : list Z)        (* reducer results: Collect/Last: the list; One: [x]; Sum: [s]; Equal: [0/1] *)
| RBad.

Inductive sev := SevNext (id : nat) | SevClose (id : nat).

(* one observation per consumer step: result, and the number of Next calls each source has
   received so far (sources listed by increasing id) *)
Record step_obs := mkStepObs { so_res : robs; so_pulls : list Z }.
Record run_obs := mkRunObs { ro_steps : list step_obs; ro_log : list sev }.
