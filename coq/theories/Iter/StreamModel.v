(* Layer M for the sequential part of package stream (/repo/stream/stream.go; everything except
   Pipe, Batch/BatchFunc and Merge): every Next and Close transcribed with the fields of its Go
   struct, including the state that survives a failed call.  Executable, total, no proofs.

   Same shape as IterModel.v.  [nx] is `s.inner.Next(ctx)` for the context of the current call
   (live or already expired - the flag is fixed during one top-level call), [cl] is
   `s.inner.Close()` and returns the source events it causes.

   Conventions fixed with the Go harness:
   * every source is wrapped in an instrumented stream that logs SevNext id for EVERY Next call
     (also calls that return End, an error or the context error) and SevClose id for every Close
     call, although Close of iteratorStream/chanStream/emptyStream does nothing;
   * SSlice/SCounter/SRepeat/SEmpty are stream.FromIterator(iterator.X): Next checks ctx.Err()
     first and then consumes nothing;
   * SScript checks the context first like FromIterator; SScriptNC never looks at the context:
     its Next with an expired context returns (and consumes) the next scripted event exactly as
     with a live one.  No combinator looks at the context itself (only FromIterator does, hence
     also the outer stream of ZFlatten), so over SScriptNC sources an expired context is noticed
     only by Flatten when it asks its outer stream for the next inner stream;
   * SError e is stream.Error(err) (wrapped in the instrumented stream like every source): every
     Next returns err - never an item, never End, never the context error (errorStream.Next does
     not look at the context) -, Close does nothing;
   * SChan is stream.Chan over a closed channel.  With an expired context its `select` has two
     ready arms and Go picks either at random, so the harness never uses expired contexts with
     SChan sources; the model (arbitrarily) answers like FromIterator in that case;
   * ZFlatten ps = stream.Flatten(stream.FromIterator(iterator.Slice(inner streams))): the outer
     stream is not instrumented, answers the context error when the context is expired, and its
     Close does nothing (so inner streams never handed out are never closed);
   * LRuns: the harness consumes each run handed out through the run's Next (same context as the
     step), never calls Close on a run, and is a retrying consumer: when an inner Next fails the
     step reports that error, the items already taken from the run are kept, and the following
     step continues with the same run (no outer Next); a step that completes reports all items
     taken from the run;
   * panics: a callback whose [failing] record has fail_panic = true panics at its k-th
     invocation instead of returning the error, a scripted source panics at an EvPanic event
     (its Next call is logged like every other, the event is consumed).  No combinator recovers:
     the result of every Next on the way out is [Pan], and the state returned with it is what
     the fields hold at that moment - filterStream/mapStream have pulled the item and lost it,
     whileStream has stored it (item, has = true: the callback is asked again next time),
     firstStream.x is decremented only after a successful inner Next, chunkStream.chunk,
     peekable.curr/has, compactStream.prev/first, flattenStream.curr, joinStream.remaining,
     runsStream.curr are as they were before the inner call.  The consumer (the harness)
     recovers a panicking Next, records RPanic for the step and goes on; a panic inside the
     Next of a run handed out by Runs is treated by the retrying consumer like an error (the
     items taken so far are kept, the following step continues with the same run);
   * reducers close by `defer s.Close()`: the Close also runs when a panic passes through, the
     observation is RPanic (the harness recovers around the reducer call). *)
From Juniper Require Import Common.Base Iter.Syntax Iter.Config Iter.ModelBase Iter.IterModel.

Definition ctx_err : Z := -1.
Definition err_empty : Z := -2.
Definition err_more_than_one : Z := -3.

(* ---- sources ---- *)
Inductive ssrc :=
| SSIter (s : isrc)              (* FromIterator(...) / Chan *)
| SSScript (evs : list sevent)
| SSScriptNC (evs : list sevent). (* scripted source whose Next never looks at the context *)

(* stream.Error(err): `func (s errorStream[T]) Next(ctx) (T, error) { var zero T; return zero,
   s.err }` and an empty Close.  Its runtime state is the context-ignoring script that consists
   of the one unretryable error: [script_next] answers a fatal event without consuming it, so
   every Next returns Err e and leaves the state as it was, whatever the context - the Go method
   word for word ([serror_next] below, the C07_stream_error theorems of Properties/C07.v). *)
Definition error_script (e : Z) : list sevent := [EvFatal e].

Definition ssrc_init (s : source) : ssrc :=
  match s with
  | SScript evs => SSScript evs
  | SScriptNC evs => SSScriptNC evs
  | SError e => SSScriptNC (error_script e)
  | _ => SSIter (isrc_init s)
  end.

(* one Next of a script: the head event is consumed unless it is a fatal error *)
Definition script_next (evs : list sevent) : res Z * list sevent :=
  match evs with
  | [] => (End, [])
  | EvItem x :: t => (Item x, t)
  | EvTransient e :: t => (Err e, t)
  | EvFatal e :: _ => (Err e, evs)
  | EvPanic :: t => (Pan, t)
  end.

(* FromIterator/Chan (SSIter) and SScript look at the context first: expired => the context
   error, nothing consumed.  SScriptNC never looks at it: [live] is ignored. *)
Definition ssrc_next (live : bool) (s : ssrc) : res Z * ssrc :=
  match s with
  | SSIter i =>
      if negb live then (Err ctx_err, s)
      else let '(o, i') := isrc_next i in (opt_res o, SSIter i')
  | SSScript evs =>
      if negb live then (Err ctx_err, s)
      else let '(o, evs') := script_next evs in (o, SSScript evs')
  | SSScriptNC evs => let '(o, evs') := script_next evs in (o, SSScriptNC evs')
  end.

Definition ssrc_size (s : ssrc) : nat :=
  match s with
  | SSIter i => isrc_size i
  | SSScript evs | SSScriptNC evs => length evs
  end.

Section Combinators.
  Context {St : Type} (nx : St -> ret Z St) (cl : St -> list sev).

  (* peekable.Next, peekable.Peek, compactStream.Next, flattenSlicesStream.Next are, statement for
     statement, the iterator versions with `err != nil` in place of `!ok` (Peek stores nothing
     unless it got an item): the transcriptions ipk_next, ipk_peek, icompact, iflatslices of
     IterModel.v are used for them. *)

  (* filterStream.Next; [calls] = number of invocations of keep so far *)
  Fixpoint sfilter (n : nat) (keep : pred) (fl : failing) (calls : nat) (s : St)
    : ret Z (nat * St) :=
    match n with
    | O => (Out, (calls, s), [])
    | S n' =>
        let '(o, s', ev) := nx s in
        match o with
        | Item x =>
            if fails_now fl calls then (fail_res fl, (S calls, s'), ev)
            else if pred_eval keep x then (Item x, (S calls, s'), ev)
            else after ev (sfilter n' keep fl (S calls) s')
        | _ => (pass o, (calls, s'), ev)
        end
    end.

  (* firstStream.Next: x is decremented only when the inner Next succeeded *)
  Definition sfirst (x : Z) (s : St) : ret Z (Z * St) :=
    if x <=? 0 then (End, (x, s), [])
    else let '(o, s', ev) := nx s in
         match o with
         | Item y => (Item y, (x - 1, s'), ev)
         | _ => (pass o, (x, s'), ev)
         end.

  (* flattenStream.Next; the outer stream is FromIterator(Slice(rest)) *)
  Fixpoint sflatten (n : nat) (live : bool) (rest : list St) (curr : option St)
    : ret Z (list St * option St) :=
    match n with
    | O => (Out, (rest, curr), [])
    | S n' =>
        match curr with
        | None =>
            if negb live then (Err ctx_err, (rest, None), [])
            else match rest with
                 | [] => (End, ([], None), [])
                 | c :: rest' => sflatten n' live rest' (Some c)
                 end
        | Some c =>
            let '(o, c', ev) := nx c in
            match o with
            | Item x => (Item x, (rest, Some c'), ev)
            | End => after (ev ++ cl c') (sflatten n' live rest None)   (* s.curr.Close() *)
            | _ => (pass o, (rest, Some c'), ev)
            end
        end
    end.
  (* flattenStream.Close: the current inner stream, then the (no-op) outer Close *)
  Definition sflatten_close (curr : option St) : list sev :=
    match curr with Some c => cl c | None => [] end.

  (* joinStream.Next *)
  Fixpoint sjoin (n : nat) (rem : list St) : ret Z (list St) :=
    match n with
    | O => (Out, rem, [])
    | S n' =>
        match rem with
        | [] => (End, [], [])
        | c :: tl =>
            let '(o, c', ev) := nx c in
            match o with
            | Item x => (Item x, c' :: tl, ev)
            | End => after (ev ++ cl c') (sjoin n' tl)              (* s.remaining[0].Close() *)
            | _ => (pass o, c' :: tl, ev)
            end
        end
    end.
  Definition sjoin_close (rem : list St) : list sev := flat_map cl rem.

  (* mapStream.Next *)
  Definition smap (f : fn) (fl : failing) (calls : nat) (s : St) : ret Z (nat * St) :=
    let '(o, s', ev) := nx s in
    match o with
    | Item x =>
        if fails_now fl calls then (fail_res fl, (S calls, s'), ev)
        else (Item (fn_eval f x), (S calls, s'), ev)
    | _ => (pass o, (calls, s'), ev)
    end.

  (* whileStream.Next; state (calls, item, has, done, inner) *)
  Definition swhile (f : pred) (fl : failing) (calls : nat) (item : Z) (has done : bool) (s : St)
    : ret Z (nat * Z * bool * bool * St) :=
    if done then (End, (calls, item, has, done, s), [])
    else
      let '(o, (item1, has1, s1), ev) :=
        if has then (Item item, (item, has, s), [])
        else let '(o, s', ev) := nx s in
             match o with
             | Item x => (Item x, (x, true, s'), ev)
             | Pan => (Pan, (item, false, s'), ev)          (* nothing was assigned *)
             | _ => (o, (0, false, s'), ev)
             end in
      match o with
      | Item _ =>
          if fails_now fl calls then (fail_res fl, (S calls, item1, has1, false, s1), ev)
          else if pred_eval f item1 then (Item item1, (S calls, item1, false, false, s1), ev)
          else (End, (S calls, item1, has1, true, s1), ev)
      | _ => (pass o, (calls, item1, has1, false, s1), ev)
      end.

  (* chunkStream.Next; state (chunk, inner).  make([]T, 0, chunkSize) panics for a negative size,
     but only when a chunk is handed out. *)
  Fixpoint schunk (n : nat) (size : Z) (chunk : list Z) (s : St) : ret (list Z) (list Z * St) :=
    match n with
    | O => (Out, (chunk, s), [])
    | S n' =>
        let '(o, s', ev) := nx s in
        match o with
        | Item x =>
            let chunk' := chunk ++ [x] in
            if zlen chunk' =? size then (Item chunk', ([], s'), ev)
            else after ev (schunk n' size chunk' s')
        | End =>
            if 0 <? zlen chunk
            then if size <? 0 then (Pan, (chunk, s'), ev) else (Item chunk, ([], s'), ev)
            else (End, (chunk, s'), ev)
        | _ => (pass o, (chunk, s'), ev)
        end
    end.

  (* runsInnerStream.Next with parent != nil (no run is ever closed while it is current: the
     harness never closes runs, runsStream.Next closes the run and forgets it at once) *)
  Definition sruns_inner (r : rel) (prev : Z) (p : pk St) : ret Z (pk St) :=
    let '(o, p1, ev) := ipk_peek nx p in
    match o with
    | Item x =>
        if rel_eval r prev x
        then let '(o2, p2, ev2) := ipk_next nx p1 in (o2, p2, ev ++ ev2)
        else (End, p1, ev)
    | _ => (pass o, p1, ev)
    end.

  (* `for { _, err := s.curr.Next(ctx); if err == End { break } else if err != nil { return } }` *)
  Fixpoint sruns_drain (n : nat) (r : rel) (prev : Z) (p : pk St) : ret unit (pk St) :=
    match n with
    | O => (Out, p, [])
    | S n' =>
        let '(o, p', ev) := sruns_inner r prev p in
        match o with
        | Item _ => after ev (sruns_drain n' r prev p')
        | _ => (pass o, p', ev)
        end
    end.

  (* the harness' consumption of the current run (harness/pipes.go runsTaken): call the run's Next
     until it reports End or [k] items have been taken from this run in total; [acc] = the items
     taken so far (kept when a call fails) *)
  Fixpoint sruns_take (n : nat) (r : rel) (k : option nat) (acc : list Z) (prev : Z) (p : pk St)
    : ret (list Z) (list Z * pk St) :=
    match n with
    | O => (Out, (acc, p), [])
    | S n' =>
        if match k with Some k => (k <=? length acc)%nat | None => false end
        then (Item acc, (acc, p), [])
        else
          let '(o, p', ev) := sruns_inner r prev p in
          match o with
          | Item x => after ev (sruns_take n' r k (acc ++ [x]) prev p')
          | End => (Item acc, (acc, p'), ev)
          | _ => (pass o, (acc, p'), ev)
          end
    end.

  (* one step of the consumer of a stream of runs.  [cur] = prev of runsStream.curr (or nil),
     [pend] = Some acc while the consumer is in the middle of the current run (an inner Next
     failed after the items acc had been taken).
       pend = None  : runsStream.Next (drain the old run, Close it, Peek), then take;
       pend = Some acc : continue taking from the same run, no outer Next. *)
  Definition sruns (n : nat) (r : rel) (k : option nat) (cur : option Z) (pend : option (list Z))
             (p : pk St) : ret (list Z) (option Z * option (list Z) * pk St) :=
    let take (x : Z) (acc : list Z) (p2 : pk St) (ev0 : list sev) :=
      let '(o3, (acc3, p3), ev3) := sruns_take n r k acc x p2 in
      match o3 with
      | Item l => (Item l, (Some x, None, p3), ev0 ++ ev3)
      | _ => (pass o3, (Some x, Some acc3, p3), ev0 ++ ev3)
      end in
    match pend, cur with
    | Some acc, Some prev => take prev acc p []
    | _, _ =>
        let '(o1, p1, ev1) :=
          match cur with
          | Some prev => sruns_drain n r prev p
          | None => (End, p, [])
          end in
        match o1 with
        | End =>
            (* s.curr.Close(); s.curr = nil; item, err := s.inner.Peek(ctx) *)
            let '(o2, p2, ev2) := ipk_peek nx p1 in
            match o2 with
            | Item x => take x [] p2 (ev1 ++ ev2)
            | _ => (pass o2, (None, None, p2), ev1 ++ ev2)
            end
        | _ => (pass o1, (cur, None, p1), ev1)
        end
    end.
End Combinators.

(* ---- pipeline states ---- *)
Inductive sst :=
| TSrc (id : nat) (s : ssrc)
| TPeek (p : pk sst)
| TCompact (r : rel) (first : bool) (prev : Z) (p : sst)
| TFilter (keep : pred) (fl : failing) (calls : nat) (p : sst)
| TFirst (x : Z) (p : sst)
| TFlatten (rest : list sst) (curr : option sst)
| TJoin (rem : list sst)
| TMap (f : fn) (fl : failing) (calls : nat) (p : sst)
| TWhile (f : pred) (fl : failing) (calls : nat) (item : Z) (has done : bool) (p : sst)
| TFlattenSlices (buffer : list Z) (q : slst)
with slst :=
| TChunk (size : Z) (chunk : list Z) (p : sst)
| TRuns (r : rel) (take : option nat) (cur : option Z) (pend : option (list Z)) (p : pk sst).

Definition b2n (b : bool) : nat := if b then 1%nat else 0%nat.

(* fuel measure *)
Fixpoint ssize (s : sst) : nat :=
  match s with
  | TSrc _ src => S (ssrc_size src)
  | TPeek p => S (b2n (pk_has p) + ssize (pk_in p))
  | TCompact _ _ _ p => S (ssize p)
  | TFilter _ _ _ p => S (ssize p)
  | TFirst _ p => S (ssize p)
  | TFlatten rest curr =>
      S (S (list_sum_map (fun c => S (S (ssize c))) rest
         + match curr with Some c => S (ssize c) | None => O end))
  | TJoin rem => S (list_sum_map (fun c => S (ssize c)) rem)
  | TMap _ _ _ p => S (ssize p)
  | TWhile _ _ _ _ has _ p => S (b2n has + ssize p)
  | TFlattenSlices b q => S (S (length b + slsize q))
  end
with slsize (q : slst) : nat :=
  match q with
  | TChunk _ chunk p => S (length chunk + 2 * ssize p)
  | TRuns r _ cur pend p =>
      S (S (match pend with Some acc => S (length acc) | None => O end
            + (runs_w r (option_map (fun prev => (prev, true)) cur) (pk_has p) (pk_curr p)
               + 3 * ssize (pk_in p))))
  end.

(* Close: the Close calls that reach the instrumented sources, in order *)
Fixpoint sclose (s : sst) : list sev :=
  match s with
  | TSrc id _ => [SevClose id]
  | TPeek p => sclose (pk_in p)
  | TCompact _ _ _ p | TFilter _ _ _ p | TFirst _ p | TMap _ _ _ p | TWhile _ _ _ _ _ _ p =>
      sclose p
  | TFlatten _ curr => match curr with Some c => sclose c | None => [] end
  | TJoin rem => flat_map sclose rem
  | TFlattenSlices _ q => slclose q
  end
with slclose (q : slst) : list sev :=
  match q with
  | TChunk _ _ p => sclose p
  | TRuns _ _ _ _ p => sclose (pk_in p)
  end.

Fixpoint snext (fuel : nat) (live : bool) (s : sst) {struct fuel} : ret Z sst :=
  match fuel with
  | O => (Out, s, [])
  | S f =>
      match s with
      | TSrc id src =>
          let '(o, src') := ssrc_next live src in (o, TSrc id src', [SevNext id])
      | TPeek p => let '(o, p', ev) := ipk_next (snext f live) p in (o, TPeek p', ev)
      | TCompact r first prev p =>
          let '(o, (first', prev', p'), ev) := icompact (snext f live) fuel r first prev p in
          (o, TCompact r first' prev' p', ev)
      | TFilter keep fl calls p =>
          let '(o, (calls', p'), ev) := sfilter (snext f live) fuel keep fl calls p in
          (o, TFilter keep fl calls' p', ev)
      | TFirst x p =>
          let '(o, (x', p'), ev) := sfirst (snext f live) x p in (o, TFirst x' p', ev)
      | TFlatten rest curr =>
          let '(o, (rest', curr'), ev) := sflatten (snext f live) sclose fuel live rest curr in
          (o, TFlatten rest' curr', ev)
      | TJoin rem =>
          let '(o, rem', ev) := sjoin (snext f live) sclose fuel rem in (o, TJoin rem', ev)
      | TMap g fl calls p =>
          let '(o, (calls', p'), ev) := smap (snext f live) g fl calls p in
          (o, TMap g fl calls' p', ev)
      | TWhile g fl calls item has done p =>
          let '(o, (calls', item', has', done', p'), ev) :=
            swhile (snext f live) g fl calls item has done p in
          (o, TWhile g fl calls' item' has' done' p', ev)
      | TFlattenSlices b q =>
          let '(o, (b', q'), ev) := iflatslices (slnext f live) fuel b q in
          (o, TFlattenSlices b' q', ev)
      end
  end
with slnext (fuel : nat) (live : bool) (q : slst) {struct fuel} : ret (list Z) slst :=
  match fuel with
  | O => (Out, q, [])
  | S f =>
      match q with
      | TChunk size chunk p =>
          let '(o, (chunk', p'), ev) := schunk (snext f live) fuel size chunk p in
          (o, TChunk size chunk' p', ev)
      | TRuns r take cur pend p =>
          let '(o, (cur', pend', p'), ev) := sruns (snext f live) fuel r take cur pend p in
          (o, TRuns r take cur' pend' p', ev)
      end
  end.

(* ---- construction ---- *)
Fixpoint sinit (p : pz) : sst :=
  match p with
  | ZSrc id s => TSrc id (ssrc_init s)
  | ZPeek p => TPeek (mkPk false 0 (sinit p))
  | ZCompact r p => TCompact r true 0 (sinit p)
  | ZFilter f fl p => TFilter f fl O (sinit p)
  | ZFirst n p => TFirst n (sinit p)
  | ZFlatten ps => TFlatten (map sinit ps) None
  | ZJoin ps => TJoin (map sinit ps)
  | ZMap f fl p => TMap f fl O (sinit p)
  | ZWhile f fl p => TWhile f fl O 0 false false (sinit p)
  | ZFlattenSlices q => TFlattenSlices [] (slinit q)
  end
with slinit (q : pl) : slst :=
  match q with
  | LChunk n p => TChunk n [] (sinit p)
  | LRuns r take p => TRuns r take None None (mkPk false 0 (sinit p))
  end.

Definition sstep (live : bool) (s : sst) : ret Z sst := snext (S (ssize s)) live s.
Definition slstep (live : bool) (q : slst) : ret (list Z) slst := slnext (S (slsize q)) live q.

(* ---- reducers ---- *)

(* func Reduce without its defer; the reduction function returns a value, an error or panics *)
Fixpoint sreduce_loop {A : Type} (n : nat) (live : bool) (f : A -> Z -> cbres A) (acc : A)
         (s : sst) : ret A sst :=
  match n with
  | O => (Out, s, [])
  | S n' =>
      let '(o, s', ev) := sstep live s in
      match o with
      | Item x =>
          match f acc x with
          | CbOk acc' => after ev (sreduce_loop n' live f acc' s')
          | CbErr e => (Err e, s', ev)                     (* return acc, err *)
          | CbPanic => (Pan, s', ev)
          end
      | End => (Item acc, s', ev)
      | _ => (pass o, s', ev)
      end
  end.

(* `defer s.Close()`: runs on every way out, panics included *)
Definition deferred_close {A} (x : ret A sst) : ret A sst :=
  let '(o, s', ev) := x in (o, s', ev ++ sclose s').

(* the breaking variant: `s.Close()` written out before every return instead of the defer - a
   panic passing through skips it *)
Definition explicit_close {A} (x : ret A sst) : ret A sst :=
  let '(o, s', ev) := x in
  match o with Pan => (o, s', ev) | _ => (o, s', ev ++ sclose s') end.

(* how the reducers that close do it in configuration [cfg] *)
Definition reducer_close (cfg : config) {A} (x : ret A sst) : ret A sst :=
  if cfg_defer_close cfg then deferred_close x else explicit_close x.

Definition sreduce {A : Type} (cfg : config) (n : nat) (live : bool) (f : A -> Z -> cbres A)
           (acc : A) (s : sst) : ret A sst := reducer_close cfg (sreduce_loop n live f acc s).

(* func Collect: the same loop as Reduce with append *)
Definition scollect (cfg : config) (n : nat) (live : bool) (s : sst) : ret (list Z) sst :=
  sreduce cfg n live (fun out x => CbOk (out ++ [x])) [] s.

Fixpoint slast_loop (k : nat) (live : bool) (n : Z) (buf : list Z) (i : Z) (s : sst)
  : ret (list Z * Z) sst :=
  match k with
  | O => (Out, s, [])
  | S k' =>
      let '(o, s', ev) := sstep live s in
      match o with
      | Item x =>
          if n =? 0 then (Pan, s', ev)
          else match zset buf (Z.rem i n) x with
               | Some buf' => after ev (slast_loop k' live n buf' (i + 1) s')
               | None => (Pan, s', ev)
               end
      | End => (Item (buf, i), s', ev)
      | _ => (pass o, s', ev)
      end
  end.

Definition slast (cfg : config) (k : nat) (live : bool) (n : Z) (s : sst) : ret (list Z) sst :=
  reducer_close cfg
    (if cfg_last_guard cfg && (n <=? 0)
     then let '(o, s', ev) := sreduce_loop k live (fun (u : unit) _ => CbOk u) tt s in
          match o with Item _ => (Item [], s', ev) | _ => (pass o, s', ev) end
     else if n <? 0 then (Pan, s, [])
     else let '(o, s', ev) := slast_loop k live n (zrepeat 0 n) 0 s in
          match o with
          | Item (buf, i) => (last_finish n buf i, s', ev)
          | _ => (pass o, s', ev)
          end).

(* func One: had no Close before the repair *)
Definition sone_body (live : bool) (s : sst) : ret (list Z) sst :=
  let '(o1, s1, ev1) := sstep live s in
  match o1 with
  | Item x =>
      let '(o2, s2, ev2) := sstep live s1 in
      match o2 with
      | Item _ => (Err err_more_than_one, s2, ev1 ++ ev2)
      | End => (Item [x], s2, ev1 ++ ev2)
      | _ => (pass o2, s2, ev1 ++ ev2)
      end
  | End => (Err err_empty, s1, ev1)
  | _ => (pass o1, s1, ev1)
  end.
Definition sone (cfg : config) (live : bool) (s : sst) : ret (list Z) sst :=
  if cfg_one_closes cfg then reducer_close cfg (sone_body live s) else sone_body live s.

(* ---- runners ---- *)
Inductive srun_st := QZ (s : sst) | QL (q : slst).
Definition srun_init (p : pz + pl) : srun_st :=
  match p with inl p => QZ (sinit p) | inr q => QL (slinit q) end.
Definition srun_next (live : bool) (s : srun_st) : robs * srun_st * list sev :=
  match s with
  | QZ s => let '(o, s', ev) := sstep live s in (obs_z o, QZ s', ev)
  | QL q => let '(o, q', ev) := slstep live q in (obs_l o, QL q', ev)
  end.
Definition srun_close (s : srun_st) : list sev :=
  match s with QZ s => sclose s | QL q => slclose q end.

Fixpoint srun_steps (ids : list nat) (s : srun_st) (log : list sev) (ops : list cop)
  : list step_obs * list sev :=
  match ops with
  | [] => ([], log)
  | CClose :: t =>
      let log' := log ++ srun_close s in
      let '(r, l) := srun_steps ids s log' t in (mkStepObs RUnit (pulls_of ids log') :: r, l)
  | CNext live :: t =>
      let '(o, s', ev) := srun_next live s in
      let log' := log ++ ev in
      let so := mkStepObs o (pulls_of ids log') in
      if stops o then ([so], log')
      else let '(r, l) := srun_steps ids s' log' t in (so :: r, l)
  end.

Definition sred_fuel (s : sst) : nat := S (ssize s).

Definition srun_reduce (cfg : config) (p : pz) (r : reducer) (live : bool) : robs * list sev :=
  let s := sinit p in
  match r with
  | RCollect => let '(o, _, ev) := scollect cfg (sred_fuel s) live s in (obs_val o, ev)
  | RLast n => let '(o, _, ev) := slast cfg (sred_fuel s) live n s in (obs_val o, ev)
  | ROne => let '(o, _, ev) := sone cfg live s in (obs_val o, ev)
  | RSum fl => let '(o, _, ev) := sreduce cfg (sred_fuel s) live (ssum_step fl) (O, 0) s in
               (obs_val (match o with Item a => Item [snd a] | _ => pass o end), ev)
  | REqualSelf | REqual _ => (RBad, [])            (* package stream has no Equal *)
  end.

Definition run_stream_cfg (cfg : config) (p : pz + pl) (prog : program) : run_obs :=
  match prog with
  | Steps ops =>
      let '(steps, log) := srun_steps (sort_ids (pipe_ids p)) (srun_init p) [] ops in
      mkRunObs steps log
  | Reduce r live =>
      match p with
      | inl z =>
          let '(o, log) := srun_reduce cfg z r live in
          mkRunObs [mkStepObs o (pulls_of (sort_ids (pz_ids z)) log)] log
      | inr _ => mkRunObs [mkStepObs RBad []] []
      end
  end.

Definition run_stream : pz + pl -> program -> run_obs := run_stream_cfg current_cfg.
