(* Definitions shared by the iterator model (IterModel.v) and the stream model (StreamModel.v):
   call results, the runtime state of the iterator-backed sources, event-log bookkeeping.
   Definitions only, no proofs. *)
From Juniper Require Import Common.Base Iter.Syntax.

(* Result of one Next call inside the models.
     Item x : (x, true) / (x, nil)
     End    : (_, false) / (_, stream.End)
     Err e  : (_, err), streams only
     Pan    : the call panicked (Chunk with a negative size, a panicking callback, a scripted
              source's EvPanic).  No combinator recovers anything: the panic passes through
              every Next on the way out, and the state a model call returns together with Pan
              is what the combinator's fields hold at that moment
     Out    : the model ran out of fuel (never happens with the fuel used by the runners:
              Proofs: [inext_fuel_enough], [snext_fuel_enough]) *)
Inductive res (A : Type) : Type := Item (x : A) | End | Err (e : Z) | Pan | Out.
Arguments Item {A} x.
Arguments End {A}.
Arguments Err {A} e.
Arguments Pan {A}.
Arguments Out {A}.

(* propagate a non-item result unchanged through a combinator of another element type *)
Definition pass {A B} (r : res A) : res B :=
  match r with
  | Item _ => Out
  | End => End
  | Err e => Err e
  | Pan => Pan
  | Out => Out
  end.

(* what a model call returns: result, new state, source events emitted during the call (in order) *)
Definition ret (A S : Type) : Type := (res A * S * list sev)%type.

(* prefix the events of an earlier part of the same call *)
Definition after {A S} (ev : list sev) (x : ret A S) : ret A S :=
  let '(o, s, ev2) := x in (o, s, ev ++ ev2).

(* ---- iterator-backed sources (iterator.Slice/Counter/Repeat/Empty/Chan) ---- *)
Inductive isrc :=
| ISlice (a : list Z)          (* sliceIterator.a; also a closed channel holding a *)
| ICounter (i n : Z)           (* counterIterator *)
| IRepeat (item x : Z)         (* repeatIterator *)
| IEmpty.

Fixpoint script_items (evs : list sevent) : list Z :=
  match evs with
  | [] => []
  | EvItem x :: t => x :: script_items t
  | _ :: t => script_items t
  end.

(* SScript/SScriptNC/SError are stream-only sources; the iterator reading keeps their items only. *)
Definition isrc_init (s : source) : isrc :=
  match s with
  | SSlice l => ISlice l
  | SCounter n => ICounter 0 n
  | SRepeat x n => IRepeat x n
  | SEmpty => IEmpty
  | SChan l => ISlice l
  | SScript evs => ISlice (script_items evs)
  | SScriptNC evs => ISlice (script_items evs)
  | SError _ => ISlice []
  end.

Definition isrc_next (s : isrc) : option Z * isrc :=
  match s with
  | ISlice [] => (None, s)
  | ISlice (x :: a) => (Some x, ISlice a)
  | ICounter i n => if n <=? i then (None, s) else (Some i, ICounter (i + 1) n)
  | IRepeat item x => if x <=? 0 then (None, s) else (Some item, IRepeat item (x - 1))
  | IEmpty => (None, s)
  end.

(* number of items an iterator-backed source still holds *)
Definition isrc_size (s : isrc) : nat :=
  match s with
  | ISlice a => length a
  | ICounter i n => Z.to_nat (n - i)
  | IRepeat _ x => Z.to_nat x
  | IEmpty => O
  end.

Definition opt_res (o : option Z) : res Z := match o with Some x => Item x | None => End end.

(* ---- source ids of a pipeline, pull counts from the log ---- *)
Fixpoint pz_ids (p : pz) : list nat :=
  match p with
  | ZSrc id _ => [id]
  | ZPeek p | ZCompact _ p | ZFilter _ _ p | ZFirst _ p | ZMap _ _ p | ZWhile _ _ p => pz_ids p
  | ZFlatten ps | ZJoin ps => flat_map pz_ids ps
  | ZFlattenSlices q => pl_ids q
  end
with pl_ids (q : pl) : list nat :=
  match q with
  | LChunk _ p => pz_ids p
  | LRuns _ _ p => pz_ids p
  end.

Definition pipe_ids (p : pz + pl) : list nat :=
  match p with inl p => pz_ids p | inr q => pl_ids q end.

(* insertion into a strictly increasing list (duplicates dropped) *)
Fixpoint ins_id (x : nat) (l : list nat) : list nat :=
  match l with
  | [] => [x]
  | y :: t => if (x <? y)%nat then x :: l else if (x =? y)%nat then l else y :: ins_id x t
  end.
Definition sort_ids (l : list nat) : list nat := fold_right ins_id [] l.

Definition is_next_of (id : nat) (e : sev) : bool :=
  match e with SevNext j => (j =? id)%nat | SevClose _ => false end.
Definition is_close_of (id : nat) (e : sev) : bool :=
  match e with SevClose j => (j =? id)%nat | SevNext _ => false end.

Definition count_next (id : nat) (log : list sev) : nat := length (filter (is_next_of id) log).
Definition count_close (id : nat) (log : list sev) : nat := length (filter (is_close_of id) log).

(* so_pulls: every source id of the pipeline, increasing, with its number of Next calls so far *)
Definition pulls_of (ids : list nat) (log : list sev) : list Z :=
  map (fun id => Z.of_nat (count_next id log)) ids.

(* callbacks: the k-th invocation (0-based) of a [failing] callback fails ... *)
Definition fails_now (fl : failing) (calls : nat) : bool :=
  match fail_at fl with Some k => (k =? calls)%nat | None => false end.
(* ... by panicking or (streams only) by returning its error *)
Definition fail_res {A} (fl : failing) : res A :=
  if fail_panic fl then Pan else Err (fail_err fl).
(* iterator callbacks cannot return an error: a [failing] record that does not panic is ignored *)
Definition panics_now (fl : failing) (calls : nat) : bool := fail_panic fl && fails_now fl calls.

(* result of one invocation of a reduction function (Reduce) *)
Inductive cbres (A : Type) : Type := CbOk (a : A) | CbErr (e : Z) | CbPanic.
Arguments CbOk {A} a.
Arguments CbErr {A} e.
Arguments CbPanic {A}.
Definition cb_fail {A} (fl : failing) : cbres A :=
  if fail_panic fl then CbPanic else CbErr (fail_err fl).
(* Reduce with +: the accumulator of the model carries the number of invocations so far *)
Definition ssum_step (fl : failing) (a : nat * Z) (x : Z) : cbres (nat * Z) :=
  if fails_now fl (fst a) then cb_fail fl else CbOk (S (fst a), snd a + x).
Definition isum_step (fl : failing) (a : nat * Z) (x : Z) : option (nat * Z) :=
  if panics_now fl (fst a) then None else Some (S (fst a), snd a + x).

(* peekable[T]{inner, curr, has} (same shape in package iterator and package stream) *)
Record pk (St : Type) : Type := mkPk { pk_has : bool; pk_curr : Z; pk_in : St }.
Arguments mkPk {St} _ _ _.
Arguments pk_has {St} _.
Arguments pk_curr {St} _.
Arguments pk_in {St} _.

(* runsIterator.curr / runsStream.curr: nil, or the inner run handed out last:
   (prev, parent != nil) *)
Definition runcur : Type := option (Z * bool).

(* fuel weight of the peeked item of a Runs state: 1 if it belongs to the run being handed out
   (it only has to be drained), 2 if it will start a new run *)
Definition runs_w (r : rel) (cur : runcur) (has : bool) (curr : Z) : nat :=
  if has
  then match cur with
       | Some (prev, true) => if rel_eval r prev curr then 1%nat else 2%nat
       | _ => 2%nat
       end
  else 0%nat.
