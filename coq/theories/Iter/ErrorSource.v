(* stream.Error(err) (source SError e of Iter/Syntax.v): what the constructor itself produces (C07)
   and what every sequential combinator and reducer makes of it (C08).

   errorStream.Next returns err on every call and never looks at its context; Close does nothing.
   No combinator and no reducer of package stream has anything to work with, so each of them has
   to hand E itself to its caller - at the first Next, at every later one, with a live or an
   expired context, before and after Close - and may neither end the stream, nor invent an item,
   nor replace the error (by the context error, say), nor panic.

   [perr fl p]: the pipeline p reaches a stream.Error(e) with its first inner Next:
     the source itself; Peek, Compact, Filter, Map, While, FlattenSlices(Chunk), FlattenSlices(Runs)
     over such a pipeline (callbacks arbitrary: they are never invoked); First n with n >= 1
     (First 0 never asks); Join whose FIRST stream is such a pipeline (the others are never
     reached, whatever they are); Flatten likewise, when fl = true.
   The outer stream of a Flatten is a FromIterator, which answers the context error to a Next
   with an expired context before any inner stream is asked, so for pipelines with a Flatten
   (fl = true) the theorems are about programs whose Next calls have live contexts; for
   Flatten-free ones (fl = false) about all programs.

   Proof: the states such a pipeline can be in ([fwd]) are closed under Next and every Next on
   them returns Err e; [fwd] carries a bound on the nesting depth, which is the fuel needed. *)
From Juniper Require Import Common.Base Iter.Syntax Iter.Config Iter.ModelBase Iter.IterModel
  Iter.StreamModel Iter.Spec Iter.IterProofs Iter.StreamProofs Iter.SReducers.

(* the Go method, word for word: `var zero T; return zero, s.err` - for either context, and
   the state is what it was *)
Lemma serror_next : forall live e,
  ssrc_next live (ssrc_init (SError e)) = (Err e, ssrc_init (SError e)).
Proof. intros live e. reflexivity. Qed.

Section ErrorSource.
  Variable e : Z.

  (* ---- pipelines ---- *)
  Inductive perr (fl : bool) : pz -> Prop :=
  | PESrc id : perr fl (ZSrc id (SError e))
  | PEPeek p : perr fl p -> perr fl (ZPeek p)
  | PECompact r p : perr fl p -> perr fl (ZCompact r p)
  | PEFilter f cb p : perr fl p -> perr fl (ZFilter f cb p)
  | PEFirst n p : 1 <= n -> perr fl p -> perr fl (ZFirst n p)
  | PEFlatten p ps : fl = true -> perr fl p -> perr fl (ZFlatten (p :: ps))
  | PEJoin p ps : perr fl p -> perr fl (ZJoin (p :: ps))
  | PEMap f cb p : perr fl p -> perr fl (ZMap f cb p)
  | PEWhile f cb p : perr fl p -> perr fl (ZWhile f cb p)
  | PEFlatChunk n p : perr fl p -> perr fl (ZFlattenSlices (LChunk n p))
  | PEFlatRuns r k p : perr fl p -> perr fl (ZFlattenSlices (LRuns r k p)).

  Inductive perr_l (fl : bool) : pl -> Prop :=
  | PEChunk n p : perr fl p -> perr_l fl (LChunk n p)
  | PERuns r k p : perr fl p -> perr_l fl (LRuns r k p).

  Definition perr_p (fl : bool) (p : pz + pl) : Prop :=
    match p with inl p => perr fl p | inr q => perr_l fl q end.

  (* ---- states; the index bounds the nesting depth ---- *)
  Inductive fwd (fl : bool) : nat -> sst -> Prop :=
  | FSrc id : fwd fl 1 (TSrc id (ssrc_init (SError e)))
  | FPeek n c s : fwd fl n s -> fwd fl (S n) (TPeek (mkPk false c s))
  | FCompact n r first prev s : fwd fl n s -> fwd fl (S n) (TCompact r first prev s)
  | FFilter n keep cb calls s : fwd fl n s -> fwd fl (S n) (TFilter keep cb calls s)
  | FFirst n x s : 1 <= x -> fwd fl n s -> fwd fl (S n) (TFirst x s)
  | FFlattenCur n rest c : (1 <= n)%nat -> fwd fl n c -> fwd fl (S n) (TFlatten rest (Some c))
  | FFlattenNew n rest c : (1 <= n)%nat -> fl = true -> fwd fl n c -> fwd fl (S n) (TFlatten (c :: rest) None)
  | FJoin n c tl : fwd fl n c -> fwd fl (S n) (TJoin (c :: tl))
  | FMap n g cb calls s : fwd fl n s -> fwd fl (S n) (TMap g cb calls s)
  | FWhile n g cb calls item s : fwd fl n s -> fwd fl (S n) (TWhile g cb calls item false false s)
  | FFlatChunk n size chunk s :
      fwd fl n s -> fwd fl (S (S n)) (TFlattenSlices [] (TChunk size chunk s))
  | FFlatRuns n r take c s :
      fwd fl n s -> fwd fl (S (S n)) (TFlattenSlices [] (TRuns r take None None (mkPk false c s))).

  Inductive lfwd (fl : bool) : nat -> slst -> Prop :=
  | LFChunk n size chunk s : fwd fl n s -> lfwd fl (S n) (TChunk size chunk s)
  | LFRuns n r take c s : fwd fl n s -> lfwd fl (S n) (TRuns r take None None (mkPk false c s)).

  Lemma fwd_pos fl n s : fwd fl n s -> (1 <= n)%nat.
  Proof. intros H. destruct H; lia. Qed.

  Lemma fwd_size fl n s : fwd fl n s -> (n <= ssize s)%nat.
  Proof.
    intros H. induction H as [id|n c s H IH|n r first prev s H IH|n keep cb calls s H IH
                             |n x s Hx H IH|n rest c Hn H IH|n rest c Hn Hfl H IH|n c tl H IH
                             |n g cb calls s H IH|n g cb calls item s H IH
                             |n size chunk s H IH|n r take c s H IH];
      cbn [ssize slsize pk_has pk_in pk_curr b2n ssrc_init error_script ssrc_size length];
      unfold list_sum_map; cbn [fold_right]; lia.
  Qed.

  Lemma lfwd_size fl n q : lfwd fl n q -> (n <= slsize q)%nat.
  Proof.
    intros H. destruct H as [n size chunk s H|n r take c s H]; apply fwd_size in H;
      cbn [slsize pk_has pk_in pk_curr]; lia.
  Qed.

  (* flattenStream.Next when the inner Next fails with e (any inner stream type) *)
  Lemma sflatten_cur_err {St} (nx : St -> ret Z St) cl k live rest c c' ev :
    nx c = (Err e, c', ev) ->
    sflatten nx cl (S k) live rest (Some c) = (Err e, (rest, Some c'), ev).
  Proof. intros E. cbn [sflatten]. rewrite E. reflexivity. Qed.

  Lemma sflatten_new_err {St} (nx : St -> ret Z St) cl k rest c c' ev :
    (1 <= k)%nat -> nx c = (Err e, c', ev) ->
    sflatten nx cl (S k) true (c :: rest) None = (Err e, (rest, Some c'), ev).
  Proof.
    intros Hk E. destruct k as [|k]; [lia|]. cbn [sflatten negb]. rewrite E. reflexivity.
  Qed.

  (* one Next *)
  Lemma fwd_next fl live : (fl = true -> live = true) -> forall n s, fwd fl n s ->
    forall f, (n <= f)%nat -> exists s' ev, snext f live s = (Err e, s', ev) /\ fwd fl n s'.
  Proof.
    intros Hlive n s H.
    induction H as [id|n c s H IH|n r first prev s H IH|n keep cb calls s H IH
                   |n x s Hx H IH|n rest c Hn H IH|n rest c Hn Hfl H IH|n c tl H IH
                   |n g cb calls s H IH|n g cb calls item s H IH
                   |n size chunk s H IH|n r take c s H IH];
      intros f Hf; (destruct f as [|f]; [lia|]).
    - (* the source *)
      cbn [snext]. rewrite serror_next. eexists; eexists; split; [reflexivity|constructor].
    - destruct (IH f ltac:(lia)) as (s' & ev & E & Hs').
      cbn [snext]. unfold ipk_next. cbn [pk_has pk_in pk_curr]. rewrite E.
      eexists; eexists; split; [reflexivity|constructor; exact Hs'].
    - destruct (IH f ltac:(lia)) as (s' & ev & E & Hs').
      cbn [snext icompact]. rewrite E. cbn [pass].
      eexists; eexists; split; [reflexivity|constructor; exact Hs'].
    - destruct (IH f ltac:(lia)) as (s' & ev & E & Hs').
      cbn [snext sfilter]. rewrite E. cbn [pass].
      eexists; eexists; split; [reflexivity|constructor; exact Hs'].
    - destruct (IH f ltac:(lia)) as (s' & ev & E & Hs').
      cbn [snext]. unfold sfirst. replace (x <=? 0) with false by (symmetry; apply Z.leb_gt; lia).
      rewrite E. cbn [pass].
      eexists; eexists; split; [reflexivity|constructor; assumption].
    - (* Flatten with a current inner stream *)
      destruct (IH f ltac:(lia)) as (s' & ev & E & Hs').
      cbn [snext]. rewrite (sflatten_cur_err _ sclose f live rest c s' ev E).
      eexists; eexists; split; [reflexivity|constructor; assumption].
    - (* Flatten before its first inner stream: live context *)
      pose proof (Hlive Hfl) as Hl. subst live.
      destruct (IH f ltac:(lia)) as (s' & ev & E & Hs').
      cbn [snext].
      rewrite (sflatten_new_err _ sclose f rest c s' ev ltac:(lia) E).
      eexists; eexists; split; [reflexivity|apply FFlattenCur; assumption].
    - destruct (IH f ltac:(lia)) as (s' & ev & E & Hs').
      cbn [snext sjoin]. rewrite E. cbn [pass].
      eexists; eexists; split; [reflexivity|constructor; exact Hs'].
    - destruct (IH f ltac:(lia)) as (s' & ev & E & Hs').
      cbn [snext]. unfold smap. rewrite E. cbn [pass].
      eexists; eexists; split; [reflexivity|constructor; exact Hs'].
    - destruct (IH f ltac:(lia)) as (s' & ev & E & Hs').
      cbn [snext]. unfold swhile. rewrite E. cbn [pass].
      eexists; eexists; split; [reflexivity|constructor; exact Hs'].
    - (* FlattenSlices over Chunk *)
      destruct f as [|f]; [lia|]. destruct (IH f ltac:(lia)) as (s' & ev & E & Hs').
      cbn [snext iflatslices slnext schunk]. rewrite E. cbn [pass].
      eexists; eexists; split; [reflexivity|constructor; exact Hs'].
    - (* FlattenSlices over Runs *)
      destruct f as [|f]; [lia|]. destruct (IH f ltac:(lia)) as (s' & ev & E & Hs').
      cbn [snext iflatslices slnext]. unfold sruns, ipk_peek. cbn [pk_has pk_in pk_curr].
      rewrite E. cbn [pass app].
      eexists; eexists; split; [reflexivity|constructor; exact Hs'].
  Qed.

  Lemma lfwd_next fl live : (fl = true -> live = true) -> forall n q, lfwd fl n q ->
    forall f, (n <= f)%nat -> exists q' ev, slnext f live q = (Err e, q', ev) /\ lfwd fl n q'.
  Proof.
    intros Hlive n q H f Hf. destruct H as [n size chunk s H|n r take c s H];
      (destruct f as [|f]; [lia|]);
      destruct (fwd_next fl live Hlive n s H f ltac:(lia)) as (s' & ev & E & Hs').
    - cbn [slnext schunk]. rewrite E. cbn [pass].
      eexists; eexists; split; [reflexivity|constructor; exact Hs'].
    - cbn [slnext]. unfold sruns, ipk_peek. cbn [pk_has pk_in pk_curr]. rewrite E. cbn [pass app].
      eexists; eexists; split; [reflexivity|constructor; exact Hs'].
  Qed.

  (* ---- runs ---- *)
  Definition rfwd (fl : bool) (n : nat) (s : srun_st) : Prop :=
    match s with QZ s => fwd fl n s | QL q => lfwd fl n q end.

  Lemma rfwd_next fl live n s : (fl = true -> live = true) -> rfwd fl n s ->
    exists s' ev, srun_next live s = (RErr e, s', ev) /\ rfwd fl n s'.
  Proof.
    intros Hlive H. destruct s as [s|q]; cbn [rfwd srun_next] in *.
    - unfold sstep.
      destruct (fwd_next fl live Hlive n s H (S (ssize s))) as (s' & ev & E & Hs').
      { apply fwd_size in H. lia. }
      rewrite E. eexists; eexists; split; [reflexivity|exact Hs'].
    - unfold slstep.
      destruct (lfwd_next fl live Hlive n q H (S (slsize q))) as (q' & ev & E & Hq').
      { apply lfwd_size in H. lia. }
      rewrite E. eexists; eexists; split; [reflexivity|exact Hq'].
  Qed.

  (* what the consumer sees of a program: every Next fails with e, every Close returns *)
  Definition error_answer (o : cop) : robs :=
    match o with CNext _ => RErr e | CClose => RUnit end.

  (* a Next with an expired context *)
  Definition expired_next (o : cop) : Prop := o = CNext false.

  Lemma srun_steps_fwd fl ids n : forall ops s log,
    rfwd fl n s -> (fl = true -> Forall (fun o => ~ expired_next o) ops) ->
    map so_res (fst (srun_steps ids s log ops)) = map error_answer ops.
  Proof.
    induction ops as [|o ops IH]; intros s log Hs Hops; [reflexivity|].
    assert (Hops' : fl = true -> Forall (fun o => ~ expired_next o) ops).
    { intros Hfl. specialize (Hops Hfl). inversion Hops; assumption. }
    destruct o as [live|]; cbn [srun_steps].
    - assert (Hlive : fl = true -> live = true).
      { intros Hfl. specialize (Hops Hfl). inversion Hops as [|? ? Ho _]; subst.
        destruct live; [reflexivity|]. exfalso. apply Ho. reflexivity. }
      destruct (rfwd_next fl live n s Hlive Hs) as (s' & ev & E & Hs'). rewrite E.
      cbn [stops].
      destruct (srun_steps ids s' (log ++ ev) ops) as [r l] eqn:Er. cbn [fst map so_res error_answer].
      f_equal. specialize (IH s' (log ++ ev) Hs' Hops'). rewrite Er in IH. exact IH.
    - destruct (srun_steps ids s (log ++ srun_close s) ops) as [r l] eqn:Er.
      cbn [fst map so_res error_answer]. f_equal.
      specialize (IH s (log ++ srun_close s) Hs Hops'). rewrite Er in IH. exact IH.
  Qed.

  (* ---- initial states ---- *)
  Lemma sinit_fwd fl p : perr fl p -> exists n, fwd fl n (sinit p).
  Proof.
    intros H. induction H as [id|p H [n IH]|r p H [n IH]|f cb p H [n IH]|k p Hk H [n IH]
                             |p ps Hfl H [n IH]|p ps H [n IH]|f cb p H [n IH]|f cb p H [n IH]
                             |k p H [n IH]|r k p H [n IH]]; cbn [sinit slinit map].
    - exists 1%nat. constructor.
    - exists (S n). constructor; exact IH.
    - exists (S n). constructor; exact IH.
    - exists (S n). constructor; exact IH.
    - exists (S n). constructor; assumption.
    - exists (S n). apply FFlattenNew; try assumption. apply (fwd_pos _ _ _ IH).
    - exists (S n). constructor; exact IH.
    - exists (S n). constructor; exact IH.
    - exists (S n). constructor; exact IH.
    - exists (S (S n)). constructor; exact IH.
    - exists (S (S n)). constructor; exact IH.
  Qed.

  Lemma srun_init_fwd fl p : perr_p fl p -> exists n, rfwd fl n (srun_init p).
  Proof.
    destruct p as [p|q]; cbn [perr_p srun_init rfwd]; intros H.
    - apply sinit_fwd. exact H.
    - destruct H as [k p H|r k p H]; destruct (sinit_fwd fl p H) as [n Hn];
        exists (S n); cbn [slinit]; constructor; exact Hn.
  Qed.

  (* ---- C08: every combinator over stream.Error(e) reports e itself ---- *)
  Theorem error_source_program : forall cfg fl p ops,
    perr_p fl p -> (fl = true -> Forall (fun o => ~ expired_next o) ops) ->
    results (run_stream_cfg cfg p (Steps ops)) = map error_answer ops.
  Proof.
    intros cfg fl p ops Hp Hops. destruct (srun_init_fwd fl p Hp) as [n Hn].
    unfold results, run_stream_cfg.
    pose proof (srun_steps_fwd fl (sort_ids (pipe_ids p)) n ops (srun_init p) [] Hn Hops) as H.
    destruct (srun_steps (sort_ids (pipe_ids p)) (srun_init p) [] ops) as [steps log].
    exact H.
  Qed.

  (* ---- ... and so does every reducer ---- *)
  Definition error_reducer (cfg : config) (r : reducer) : Prop :=
    match r with
    | RCollect | ROne | RSum _ => True
    | RLast n => cfg_last_guard cfg = true \/ 0 <= n
    | REqualSelf | REqual _ => False            (* package stream has no Equal *)
    end.

  Lemma fwd_sstep fl live n s : (fl = true -> live = true) -> fwd fl n s ->
    exists s' ev, sstep live s = (Err e, s', ev).
  Proof.
    intros Hlive H. unfold sstep.
    destruct (fwd_next fl live Hlive n s H (S (ssize s))) as (s' & ev & E & _).
    { apply fwd_size in H. lia. }
    eauto.
  Qed.

  Theorem error_source_reduce : forall cfg fl p r live,
    perr fl p -> (fl = true -> live = true) -> error_reducer cfg r ->
    results (run_stream_cfg cfg (inl p) (Reduce r live)) = [RErr e].
  Proof.
    intros cfg fl p r live Hp Hlive Hr. destruct (sinit_fwd fl p Hp) as [n Hn].
    destruct (fwd_sstep fl live n (sinit p) Hlive Hn) as (s' & ev & E).
    unfold results, run_stream_cfg, srun_reduce.
    destruct r as [|k| |cb| |others]; cbn [error_reducer] in Hr; try contradiction.
    - unfold scollect, sreduce, sred_fuel. cbn [sreduce_loop]. rewrite E. cbn [pass].
      destruct (reducer_close_res cfg (@Err (list Z) e) s' ev) as [ev' Hrc]. rewrite Hrc.
      reflexivity.
    - unfold slast, sred_fuel.
      destruct (cfg_last_guard cfg && (k <=? 0)) eqn:Eg.
      + cbn [sreduce_loop]. rewrite E. cbn [pass].
        destruct (reducer_close_res cfg (@Err (list Z) e) s' ev) as [ev' Hrc]. rewrite Hrc.
        reflexivity.
      + assert (Hk : (k <? 0) = false).
        { apply Z.ltb_ge. destruct Hr as [Hg|Hk]; [|exact Hk].
          rewrite Hg in Eg. cbn [andb] in Eg. apply Z.leb_gt in Eg. lia. }
        rewrite Hk. cbn [slast_loop]. rewrite E. cbn [pass].
        destruct (reducer_close_res cfg (@Err (list Z) e) s' ev) as [ev' Hrc]. rewrite Hrc.
        reflexivity.
    - unfold sone, sone_body. rewrite E. cbn [pass].
      destruct (cfg_one_closes cfg); [|reflexivity].
      destruct (reducer_close_res cfg (@Err (list Z) e) s' ev) as [ev' Hrc]. rewrite Hrc.
      reflexivity.
    - unfold sreduce, sred_fuel. cbn [sreduce_loop]. rewrite E. cbn [pass].
      destruct (reducer_close_res cfg (@Err (nat * Z) e) s' ev) as [ev' Hrc]. rewrite Hrc.
      reflexivity.
  Qed.

  (* ---- C07: the constructor itself ---- *)
  Theorem error_stream_results : forall cfg id ops,
    results (run_stream_cfg cfg (inl (ZSrc id (SError e))) (Steps ops)) = map error_answer ops.
  Proof.
    intros cfg id ops. apply (error_source_program cfg false); [constructor|discriminate].
  Qed.

  (* the calls that reach the (instrumented) stream: one Next per Next, one Close per Close *)
  Definition error_event (id : nat) (o : cop) : sev :=
    match o with CNext _ => SevNext id | CClose => SevClose id end.

  Lemma error_stream_steps_log ids id : forall ops log,
    snd (srun_steps ids (QZ (TSrc id (ssrc_init (SError e)))) log ops)
    = log ++ map (error_event id) ops.
  Proof.
    induction ops as [|o ops IH]; intros log; cbn [srun_steps snd map]; [symmetry; apply app_nil_r|].
    destruct o as [live|].
    - cbn [srun_next]. unfold sstep. cbn [ssize snext]. rewrite serror_next. cbn [obs_z stops].
      specialize (IH (log ++ [SevNext id])).
      destruct (srun_steps ids (QZ (TSrc id (ssrc_init (SError e)))) (log ++ [SevNext id]) ops)
        as [r l]. cbn [snd] in *. rewrite IH, <- app_assoc. reflexivity.
    - cbn [srun_close sclose]. specialize (IH (log ++ [SevClose id])).
      destruct (srun_steps ids (QZ (TSrc id (ssrc_init (SError e)))) (log ++ [SevClose id]) ops)
        as [r l]. cbn [snd] in *. rewrite IH, <- app_assoc. reflexivity.
  Qed.

  Theorem error_stream_log : forall cfg id ops,
    ro_log (run_stream_cfg cfg (inl (ZSrc id (SError e))) (Steps ops)) = map (error_event id) ops.
  Proof.
    intros cfg id ops. unfold run_stream_cfg. cbn [srun_init sinit].
    pose proof (error_stream_steps_log (sort_ids (pipe_ids (inl (ZSrc id (SError e))))) id ops [])
      as H.
    destruct (srun_steps (sort_ids (pipe_ids (inl (ZSrc id (SError e)))))
                         (QZ (TSrc id (ssrc_init (SError e)))) [] ops) as [steps log].
    cbn [snd app] in H. cbn [ro_log]. exact H.
  Qed.
End ErrorSource.

(* the faults-vocabulary of C08 knows the source: its code is the pipeline's fault code, it never
   looks at the context, and scrubbing it leaves the continuation k alone *)
Lemma error_source_vocabulary : forall id e k,
  pz_codes (ZSrc id (SError e)) = [e] /\
  ctx_blind_z (ZSrc id (SError e)) /\
  den_z (ZSrc id (SError e)) = [] /\
  pz_scrub k (ZSrc id (SError e)) = ZSrc id (SScriptNC k) /\
  ~ okz true (ZSrc id (SError e)).
Proof. intros id e k. repeat split. intros H. exact H. Qed.

(* non-vacuity, by computation: each combinator and each reducer directly over stream.Error(7),
   Next with live and expired contexts, after Close; a Join / Flatten whose first stream is the
   failing one; and what is NOT covered: First 0 never asks, a Flatten with an expired context
   answers the context error before asking *)
Example error_source_examples :
  let E := ZSrc 0 (SError 7) in
  let prog := Steps [CNext true; CNext false; CNext true; CClose; CNext true] in
  let want := [RErr 7; RErr 7; RErr 7; RUnit; RErr 7] in
  map (fun p => results (run_stream p prog))
    [inl E; inl (ZPeek E); inl (ZCompact RelEq E); inl (ZFilter PrTrue never_fails E);
     inl (ZFirst 2 E); inl (ZJoin [E; ZSrc 1 (SSlice [1; 2])]); inl (ZMap (FnAffine 1 0) never_fails E);
     inl (ZWhile PrTrue never_fails E); inl (ZFlattenSlices (LChunk 2 E));
     inl (ZFlattenSlices (LRuns RelEq None E)); inr (LChunk 3 E); inr (LRuns RelEq (Some 1%nat) E)]
  = repeat want 12 /\
  map (fun r => results (run_stream (inl (ZMap (FnAffine 2 1) never_fails E)) (Reduce r false)))
    [RCollect; RLast 0; RLast 2; ROne; RSum never_fails]
  = repeat [RErr 7] 5 /\
  results (run_stream (inl (ZFlatten [E; ZSrc 1 (SSlice [1])])) (Steps [CNext true; CNext true]))
  = [RErr 7; RErr 7] /\
  results (run_stream (inl (ZFlatten [E])) (Steps [CNext false; CNext true; CNext false]))
  = [RErr (-1); RErr 7; RErr 7] /\
  results (run_stream (inl (ZFirst 0 E)) (Steps [CNext true])) = [REnd] /\
  results (run_stream (inl (ZJoin [ZSrc 1 (SSlice [1]); E])) (Steps [CNext true; CNext true; CNext true]))
  = [RItem (IZ 1); RErr 7; RErr 7].
Proof. vm_compute. repeat split; reflexivity. Qed.
