(* The statement-level translation of the methods of xheap.PriorityQueue (Generated/ImpPQ.v, regenerated from
   container/xheap/xheap.go on every run by tools/gofacts/imp.go) computes, on every queue whose length and
   generation are far from the int64 limits, exactly what the hand-written model Heap/Model.v (Section PQ)
   computes: same result, same panic class, same new state (array, generation, the map m).  The translated
   methods call the translated heap functions of Generated/ImpHeap.v, already shown equal to the model's in
   Translated/ImpHeapOK.v, and the map primitives gomapget / gomapdel of Translated/GoImp.v, shown here to be
   the model's m_get / m_del.
   Stdlib only; no axioms. *)
From Coq Require Import ZifyBool Permutation.
From Juniper Require Import Common.Base Heap.Model Heap.Lemmas Heap.Proofs.
From Juniper Require Import Translated.GoImp Generated.ImpHeap Generated.ImpPQ Translated.ImpHeapOK.
Open Scope Z_scope.

(* ---- the map primitives are the model's association-list functions ---- *)
Section MapOK.
  Context {K : Type} (keqb : K -> K -> bool).

  Lemma gomap_find_ok (m : list (K * Z)) (k : K) : gomap_find keqb m k = m_get keqb m k.
  Proof.
    induction m as [|[k' v] r IH]; cbn [gomap_find m_get]; [reflexivity|].
    destruct (keqb k k'); [reflexivity|exact IH].
  Qed.

  Lemma gomapdel_ok (k : K) (m : list (K * Z)) : gomapdel keqb k m = m_del keqb k m.
  Proof.
    induction m as [|[k' v] r IH]; cbn [gomapdel m_del]; [reflexivity|].
    destruct (keqb k k'); [exact IH|]. rewrite IH. reflexivity.
  Qed.

  (* v, ok := m[k] in the model's words *)
  Lemma gomapget_ok (m : list (K * Z)) (k : K) :
    gomapget keqb m k = match m_get keqb m k with Some v => (v, true) | None => (0, false) end.
  Proof. unfold gomapget. rewrite gomap_find_ok. reflexivity. Qed.

  Lemma gomap_ops_ok :
    (forall (m : list (K * Z)) (k : K), gomap_find keqb m k = m_get keqb m k) /\
    (forall (k : K) (m : list (K * Z)), gomapdel keqb k m = m_del keqb k m).
  Proof. split; [exact gomap_find_ok|exact gomapdel_ok]. Qed.
End MapOK.

(* ---- the methods, on one queue ---- *)
Section PQOK.
  Context {K P : Type} (keqb : K -> K -> bool) (kzero : K) (pzero : P) (pless : P -> P -> bool).
  Implicit Types (q : pq K P) (k : K) (p : P).

  Lemma gi_PQ_Len_ok q : gi_PQ_Len q = Ok (pq_len q).
  Proof. reflexivity. Qed.

  Lemma gi_PQ_Contains_ok k q : gi_PQ_Contains keqb k q = Ok (pq_contains keqb k q).
  Proof.
    unfold gi_PQ_Contains, pq_contains. rewrite gomapget_ok.
    destruct (m_get keqb (hs q) k) as [v|]; reflexivity.
  Qed.

  Lemma gi_PQ_Peek_ok q : gi_PQ_Peek q = pq_peek q.
  Proof. unfold gi_PQ_Peek, pq_peek. rb. rewrite gi_Peek_ok. reflexivity. Qed.

  Lemma gi_PQ_Priority_ok k q : gi_PQ_Priority keqb pzero k q = pq_priority keqb pzero k q.
  Proof.
    unfold gi_PQ_Priority, pq_priority. rb. rewrite gomapget_ok.
    destruct (m_get keqb (hs q) k) as [idx|]; [|reflexivity].
    rewrite gi_Item_ok. reflexivity.
  Qed.

  Lemma gi_PQ_Update_ok k p q : small q -> gi_PQ_Update keqb pless k p q = pq_update keqb pless k p q.
  Proof.
    intros Hs. unfold gi_PQ_Update, pq_update. rewrite gomapget_ok.
    destruct (m_get keqb (hs q) k) as [idx|]; rewrite !rbind_ret.
    - apply gi_UpdateAt_ok. exact Hs.
    - apply gi_Push_ok. exact Hs.
  Qed.

  Lemma gi_PQ_Pop_ok q : small q -> gi_PQ_Pop keqb kzero pzero pless q = pq_pop keqb kzero pzero pless q.
  Proof.
    intros Hs. unfold gi_PQ_Pop, pq_pop. rb. rewrite gi_Pop_ok by exact Hs.
    destruct (pop (kpzero kzero pzero) (kpless pless) (kp_index keqb) q) as [[x q']|c]; cbn [rbind]; [|reflexivity].
    cbv zeta. rewrite gomapdel_ok. reflexivity.
  Qed.

  Lemma gi_PQ_Remove_ok k q : small q ->
    gi_PQ_Remove keqb kzero pzero pless k q = pq_remove keqb kzero pzero pless k q.
  Proof.
    intros Hs. unfold gi_PQ_Remove, pq_remove. rb. rewrite gomapget_ok.
    destruct (m_get keqb (hs q) k) as [i|]; cbn [negb]; [|reflexivity].
    rewrite gi_RemoveAt_ok by exact Hs.
    destruct (remove_at (kpzero kzero pzero) (kpless pless) (kp_index keqb) i q) as [q'|c]; cbn [rbind]; [|reflexivity].
    cbv zeta. rewrite gomapdel_ok. reflexivity.
  Qed.

  (* ---- one state: what "the translated source agrees with the model" means ---- *)
  Definition gi_pq_agrees q : Prop :=
    gi_PQ_Len q = Ok (pq_len q) /\
    (forall k p, gi_PQ_Update keqb pless k p q = pq_update keqb pless k p q) /\
    gi_PQ_Pop keqb kzero pzero pless q = pq_pop keqb kzero pzero pless q /\
    gi_PQ_Peek q = pq_peek q /\
    (forall k, gi_PQ_Contains keqb k q = Ok (pq_contains keqb k q)) /\
    (forall k, gi_PQ_Priority keqb pzero k q = pq_priority keqb pzero k q) /\
    (forall k, gi_PQ_Remove keqb kzero pzero pless k q = pq_remove keqb kzero pzero pless k q).

  Lemma gi_pq_agrees_small q : small q -> gi_pq_agrees q.
  Proof.
    intros Hs. unfold gi_pq_agrees.
    split; [apply gi_PQ_Len_ok|].
    split; [intros k p; apply gi_PQ_Update_ok; exact Hs|].
    split; [apply gi_PQ_Pop_ok; exact Hs|].
    split; [apply gi_PQ_Peek_ok|].
    split; [intros k; apply gi_PQ_Contains_ok|].
    split; [intros k; apply gi_PQ_Priority_ok|].
    intros k. apply gi_PQ_Remove_ok. exact Hs.
  Qed.

  (* ---- lengths: what one method does to the length of the array (any less, any key type) ---- *)

  Lemma push_len (x : K * P) q q' :
    push (kpless pless) (kp_index keqb) x q = Ok q' -> zlen (ha q') = zlen (ha q) + 1.
  Proof.
    intros E. destruct (push_spec (kpless pless) (kp_index keqb) x q) as [c' [E' [Hsw _]]].
    rewrite E' in E. injection E as <-. cbn [ha].
    apply swaps_len in Hsw. cbn [fst] in Hsw. rewrite Hsw. apply zlen_snoc.
  Qed.

  Lemma update_at_len i (x : K * P) q q' :
    update_at (kpless pless) (kp_index keqb) i x q = Ok q' -> zlen (ha q') = zlen (ha q).
  Proof.
    intros E. destruct (zget (ha q) i) as [old|] eqn:E0.
    - destruct (update_at_spec (kpless pless) (kp_index keqb) q i x old E0) as [c' [E' [Hsw _]]].
      rewrite E' in E. injection E as <-. cbn [ha].
      apply swaps_len in Hsw. cbn [fst] in Hsw. rewrite Hsw. apply zlen_upd.
    - rewrite update_at_bad in E by exact E0. discriminate.
  Qed.

  Lemma cut_core_len (a : list (K * P)) (s : imap K) i lst :
    zlen (fst (cut_core (kp_index keqb) a s i lst)) <= zlen a.
  Proof.
    unfold cut_core, cut. cbn [fst]. unfold zlen. rewrite firstn_length, upd_length. lia.
  Qed.

  Lemma pop_len (x : K * P) q q' :
    pop (kpzero kzero pzero) (kpless pless) (kp_index keqb) q = Ok (x, q') -> zlen (ha q') <= zlen (ha q).
  Proof.
    intros E. destruct (zget (ha q) 0) as [item|] eqn:E0.
    - destruct (pop_spec (kpzero kzero pzero) (kpless pless) (kp_index keqb) q item E0) as [lst [c' [_ [E' [Hsw _]]]]].
      rewrite E' in E. injection E as _ <-. cbn [ha].
      apply swaps_len in Hsw. rewrite Hsw. apply cut_core_len.
    - unfold pop in E. rewrite E0 in E. discriminate.
  Qed.

  Lemma remove_at_len i q q' :
    remove_at (kpzero kzero pzero) (kpless pless) (kp_index keqb) i q = Ok q' -> zlen (ha q') <= zlen (ha q).
  Proof.
    intros E. destruct (zget (ha q) i) as [x|] eqn:E0.
    - destruct (remove_at_spec (kpzero kzero pzero) (kpless pless) (kp_index keqb) q i x E0)
        as [lst [c' [_ [E' [Hsw _]]]]].
      rewrite E' in E. injection E as <-. cbn [ha].
      apply swaps_len in Hsw. rewrite Hsw. apply cut_core_len.
    - unfold remove_at in E.
      destruct (zget (ha q) (zlen (ha q) - 1)); [|discriminate].
      rewrite zset_None in E; [discriminate|]. apply zget_None_iff in E0. lia.
  Qed.

  Lemma pq_update_len k p q q' : pq_update keqb pless k p q = Ok q' -> zlen (ha q') <= zlen (ha q) + 1.
  Proof.
    unfold pq_update. destruct (m_get keqb (hs q) k) as [idx|]; intros E.
    - apply update_at_len in E. lia.
    - apply push_len in E. lia.
  Qed.

  Lemma pq_pop_len k q q' : pq_pop keqb kzero pzero pless q = Ok (k, q') -> zlen (ha q') <= zlen (ha q).
  Proof.
    unfold pq_pop.
    destruct (pop (kpzero kzero pzero) (kpless pless) (kp_index keqb) q) as [[x q1]|c] eqn:E;
      cbn [Heap.Model.rbind]; intros E'; [|discriminate].
    injection E' as _ <-. cbn [ha]. apply pop_len in E. exact E.
  Qed.

  Lemma pq_remove_len k q q' : pq_remove keqb kzero pzero pless k q = Ok q' -> zlen (ha q') <= zlen (ha q).
  Proof.
    unfold pq_remove. destruct (m_get keqb (hs q) k) as [i|]; intros E.
    - destruct (remove_at (kpzero kzero pzero) (kpless pless) (kp_index keqb) i q) as [q1|c] eqn:E1;
        cbn [Heap.Model.rbind] in E; [|discriminate].
      injection E as <-. cbn [ha]. apply remove_at_len in E1. exact E1.
    - injection E as <-. lia.
  Qed.

  (* the de-duplicating loop of NewPriorityQueue keeps at most the items it is given *)
  Lemma pq_filter_len : forall (l : list (K * P)) (m : imap K) (acc : list (K * P)),
      zlen (snd (pq_filter keqb l m acc)) <= zlen acc + zlen l.
  Proof.
    induction l as [|x r IH]; intros m acc; cbn [pq_filter].
    - cbn [snd]. pose proof (zlen_nonneg (@nil (K * P))). lia.
    - rewrite zlen_cons. destruct (m_get keqb m (fst x)).
      + specialize (IH m acc). lia.
      + specialize (IH (m_set keqb (fst x) (-1) m) (acc ++ [x])). rewrite zlen_snoc in IH. lia.
  Qed.

  Lemma pq_new_len (initial : list (K * P)) q :
    pq_new keqb pless initial = Ok q -> zlen (ha q) <= zlen initial /\ hgen q = 0.
  Proof.
    unfold pq_new. pose proof (pq_filter_len initial [] []) as Hf.
    destruct (pq_filter keqb initial [] []) as [m filtered]. cbn [snd] in Hf.
    destruct (new_spec (kpless pless) (kp_index keqb) filtered m) as [c1 [Hsw [E' _]]].
    intros E. rewrite E' in E. injection E as <-. cbn [ha hgen].
    apply swaps_len in Hsw. cbn [fst] in Hsw. change (zlen (@nil (K * P))) with 0 in Hf.
    split; [lia|reflexivity].
  Qed.
End PQOK.

(* ---- every state a history reaches (xheap.PriorityQueue[int, int], Heap/Model.v qstep) ---- *)
Section QHist.
  Variable pless : Z -> Z -> bool.
  Notation qstep := (qstep pless).
  Notation qinit := (qinit pless).
  Notation qrun_state := (qrun_state pless).
  Notation qrun_state_from := (qrun_state_from pless).

  (* one operation: the length grows by at most one, so does the generation *)
  Lemma qstep_bound s o :
    zlen (ha (qq (fst (qstep s o)))) <= zlen (ha (qq s)) + 1 /\
    hgen (qq (fst (qstep s o))) <= hgen (qq s) + 1.
  Proof.
    destruct o; cbv beta iota zeta delta [Model.qstep].
    - destruct (pq_update Z.eqb pless k p (qq s)) as [q'|c] eqn:E; cbn [fst qq]; [|lia].
      pose proof (pq_update_len _ _ _ _ _ _ E). apply pq_update_gen in E. lia.
    - destruct (pq_pop Z.eqb 0 0 pless (qq s)) as [[k q']|c] eqn:E; cbn [fst qq]; [|lia].
      pose proof (pq_pop_len _ _ _ _ _ _ _ E). apply pq_pop_gen in E. lia.
    - destruct (pq_peek (qq s)); cbn [fst]; lia.
    - cbn [fst]. lia.
    - destruct (pq_priority Z.eqb 0 k (qq s)); cbn [fst]; lia.
    - destruct (pq_remove Z.eqb 0 0 pless k (qq s)) as [q'|c] eqn:E; cbn [fst qq]; [|lia].
      pose proof (pq_remove_len _ _ _ _ _ _ _ E).
      apply pq_remove_gen in E. destruct E as [[_ ->]|[_ Eg]]; lia.
    - cbn [fst]. lia.
    - unfold pq_grow, grow. destruct (n <? 0); cbn [fst qq]; lia.
    - cbn [fst qq]. lia.
    - destruct (nth_error (qits s) j) as [it|]; [|cbn [fst]; lia].
      destruct (pq_iter_next (qq s) it). cbn [fst qq]. lia.
    - destruct (pq_iterate_all (qq s)) as [[l|c]|]; cbn [fst]; lia.
  Qed.

  Lemma qrun_bound ops : forall s,
    zlen (ha (qq (qrun_state_from s ops))) <= zlen (ha (qq s)) + Z.of_nat (length ops) /\
    hgen (qq (qrun_state_from s ops)) <= hgen (qq s) + Z.of_nat (length ops).
  Proof.
    induction ops as [|o ops IH]; intros s; cbn [Model.qrun_state_from length]; [lia|].
    specialize (IH (fst (qstep s o))). pose proof (qstep_bound s o). lia.
  Qed.

  (* NewPriorityQueue never fails (Heap/Proofs.v qnew_ok), so qinit is never the dummy state: no hypothesis
     on initial beyond its length is needed *)
  Lemma qinit_bound initial :
    zlen (ha (qq (qinit initial))) <= zlen initial /\ hgen (qq (qinit initial)) = 0.
  Proof.
    destruct (qinit_eq pless initial) as [q [E [Ei _]]]. rewrite Ei. cbn [qq].
    unfold qnew in E. exact (pq_new_len Z.eqb pless initial q E).
  Qed.

  Theorem pq_small_on_histories initial ops :
    zlen initial < 2^60 -> Z.of_nat (length ops) < 2^60 -> small (qq (qrun_state initial ops)).
  Proof.
    change (2^60) with 1152921504606846976. intros Hi Ho.
    unfold small. change (2^61) with 2305843009213693952. change (2^62) with 4611686018427387904.
    destruct (qgen_inv_reach pless initial ops) as [Hg0 _].
    pose proof (qrun_bound ops (qinit initial)) as [Hl Hg]. fold (qrun_state initial ops) in Hl, Hg.
    pose proof (qinit_bound initial) as [Hl0 Hgi]. lia.
  Qed.

  (* after EVERY history of fewer than 2^60 calls on a queue built by NewPriorityQueue from fewer than 2^60
     items, every method of the translated source returns the result, panics with the class, and leaves the
     state (array, generation, map) that the model's function does *)
  Theorem translated_pq_agrees_on_histories : forall initial ops,
      zlen initial < 2^60 -> Z.of_nat (length ops) < 2^60 ->
      gi_pq_agrees Z.eqb 0 0 pless (qq (qrun_state initial ops)).
  Proof.
    intros initial ops Hi Ho. apply gi_pq_agrees_small. apply pq_small_on_histories; assumption.
  Qed.
End QHist.
