(* The synchronisation census (see tools/gofacts/census.go) that the model Conc/Pipe.v was written against:
   per transcribed Go function, the bag of channel operations, select arms, goroutine starts, timer/context/
   sync/atomic calls in its body. Generated/Census.v is re-extracted from the Go source on every run; a function
   that gains or loses such an operation no longer matches, and the obligation below fails: the model then has
   to be re-read against the new code (and this record updated by hand or tools/mkcensus_expected.py). *)
From Coq Require Import String List ZArith.
From Juniper Require Import Generated.Census.
Import ListNotations.
Open Scope string_scope.
Open Scope Z_scope.

(* stream/stream.go: func Pipe *)
Lemma census_C10_stream_stream_Pipe_ok : census_C10_stream_stream_Pipe =
  [("makechan", 3)].
Proof. reflexivity. Qed.

(* stream/stream.go: func (PipeSender) Send *)
Lemma census_C10_stream_stream_PipeSender_Send_ok : census_C10_stream_stream_PipeSender_Send =
  [("arm:default", 1);
   ("arm:recv", 4);
   ("arm:send", 1);
   ("call:.Done", 1);
   ("call:.Err", 1);
   ("select", 2)].
Proof. reflexivity. Qed.

(* stream/stream.go: func (PipeSender) TrySend *)
Lemma census_C10_stream_stream_PipeSender_TrySend_ok : census_C10_stream_stream_PipeSender_TrySend =
  [("arm:default", 2);
   ("arm:recv", 3);
   ("arm:send", 1);
   ("call:.Done", 1);
   ("call:.Err", 1);
   ("select", 2)].
Proof. reflexivity. Qed.

(* stream/stream.go: func (PipeSender) Close *)
Lemma census_C10_stream_stream_PipeSender_Close_ok : census_C10_stream_stream_PipeSender_Close =
  [("close", 1)].
Proof. reflexivity. Qed.

(* stream/stream.go: func (pipeStream) Next *)
Lemma census_C10_stream_stream_pipeStream_Next_ok : census_C10_stream_stream_pipeStream_Next =
  [("arm:default", 1);
   ("arm:recv", 4);
   ("call:.Done", 1);
   ("call:.Err", 1);
   ("select", 2)].
Proof. reflexivity. Qed.

(* stream/stream.go: func (pipeStream) Close *)
Lemma census_C10_stream_stream_pipeStream_Close_ok : census_C10_stream_stream_pipeStream_Close =
  [("close", 1)].
Proof. reflexivity. Qed.

Definition census_expected_C10 : Prop :=
  census_C10_stream_stream_Pipe =
  [("makechan", 3)]
  /\ census_C10_stream_stream_PipeSender_Send =
  [("arm:default", 1);
   ("arm:recv", 4);
   ("arm:send", 1);
   ("call:.Done", 1);
   ("call:.Err", 1);
   ("select", 2)]
  /\ census_C10_stream_stream_PipeSender_TrySend =
  [("arm:default", 2);
   ("arm:recv", 3);
   ("arm:send", 1);
   ("call:.Done", 1);
   ("call:.Err", 1);
   ("select", 2)]
  /\ census_C10_stream_stream_PipeSender_Close =
  [("close", 1)]
  /\ census_C10_stream_stream_pipeStream_Next =
  [("arm:default", 1);
   ("arm:recv", 4);
   ("call:.Done", 1);
   ("call:.Err", 1);
   ("select", 2)]
  /\ census_C10_stream_stream_pipeStream_Close =
  [("close", 1)].

Lemma census_C10_ok : census_expected_C10.
Proof. unfold census_expected_C10. repeat split; reflexivity. Qed.
