(* The synchronisation census (see tools/gofacts/census.go) that the model Conc/Cond.v was written against:
   per transcribed Go function, the bag of channel operations, select arms, goroutine starts, timer/context/
   sync/atomic calls in its body. Generated/Census.v is re-extracted from the Go source on every run; a function
   that gains or loses such an operation no longer matches, and the obligation below fails: the model then has
   to be re-read against the new code (and this record updated by hand or tools/mkcensus_expected.py). *)
From Coq Require Import String List ZArith.
From Juniper Require Import Generated.Census.
Import ListNotations.
Open Scope string_scope.
Open Scope Z_scope.

(* xsync/xsync.go: func NewContextCond *)
Lemma census_C16_xsync_xsync_NewContextCond_ok : census_C16_xsync_xsync_NewContextCond =
  [("makechan", 1)].
Proof. reflexivity. Qed.

(* xsync/xsync.go: func (ContextCond) Broadcast *)
Lemma census_C16_xsync_xsync_ContextCond_Broadcast_ok : census_C16_xsync_xsync_ContextCond_Broadcast =
  [("call:.Lock", 1);
   ("call:.Unlock", 1);
   ("close", 1);
   ("makechan", 1)].
Proof. reflexivity. Qed.

(* xsync/xsync.go: func (ContextCond) Signal *)
Lemma census_C16_xsync_xsync_ContextCond_Signal_ok : census_C16_xsync_xsync_ContextCond_Signal =
  [("arm:default", 1);
   ("arm:send", 1);
   ("call:.RLock", 1);
   ("call:.RUnlock", 1);
   ("select", 1)].
Proof. reflexivity. Qed.

(* xsync/xsync.go: func (ContextCond) Wait *)
Lemma census_C16_xsync_xsync_ContextCond_Wait_ok : census_C16_xsync_xsync_ContextCond_Wait =
  [("arm:recv", 2);
   ("call:.Done", 1);
   ("call:.Err", 1);
   ("call:.Lock", 1);
   ("call:.RLock", 1);
   ("call:.RUnlock", 1);
   ("call:.Unlock", 1);
   ("select", 1)].
Proof. reflexivity. Qed.

Definition census_expected_C16 : Prop :=
  census_C16_xsync_xsync_NewContextCond =
  [("makechan", 1)]
  /\ census_C16_xsync_xsync_ContextCond_Broadcast =
  [("call:.Lock", 1);
   ("call:.Unlock", 1);
   ("close", 1);
   ("makechan", 1)]
  /\ census_C16_xsync_xsync_ContextCond_Signal =
  [("arm:default", 1);
   ("arm:send", 1);
   ("call:.RLock", 1);
   ("call:.RUnlock", 1);
   ("select", 1)]
  /\ census_C16_xsync_xsync_ContextCond_Wait =
  [("arm:recv", 2);
   ("call:.Done", 1);
   ("call:.Err", 1);
   ("call:.Lock", 1);
   ("call:.RLock", 1);
   ("call:.RUnlock", 1);
   ("call:.Unlock", 1);
   ("select", 1)].

Lemma census_C16_ok : census_expected_C16.
Proof. unfold census_expected_C16. repeat split; reflexivity. Qed.
