(* The synchronisation census (see tools/gofacts/census.go) that the model Conc/ParDo.v was written against:
   per transcribed Go function, the bag of channel operations, select arms, goroutine starts, timer/context/
   sync/atomic calls in its body. Generated/Census.v is re-extracted from the Go source on every run; a function
   that gains or loses such an operation no longer matches, and the obligation below fails: the model then has
   to be re-read against the new code (and this record updated by hand or tools/mkcensus_expected.py). *)
From Coq Require Import String List ZArith.
From Juniper Require Import Generated.Census.
Import ListNotations.
Open Scope string_scope.
Open Scope Z_scope.

(* parallel/parallel.go: func Do *)
Lemma census_C13_parallel_parallel_Do_ok : census_C13_parallel_parallel_Do =
  [("call:.Add", 1);
   ("call:.Done", 1);
   ("call:.Wait", 1);
   ("call:atomic.AddInt64", 1);
   ("call:runtime.GOMAXPROCS", 1);
   ("go", 1)].
Proof. reflexivity. Qed.

(* parallel/parallel.go: func DoContext *)
Lemma census_C13_parallel_parallel_DoContext_ok : census_C13_parallel_parallel_DoContext =
  [("call:.Err", 2);
   ("call:.Go", 1);
   ("call:.Wait", 1);
   ("call:atomic.AddInt64", 1);
   ("call:errgroup.WithContext", 1);
   ("call:runtime.GOMAXPROCS", 1)].
Proof. reflexivity. Qed.

(* parallel/parallel.go: func Map *)
Lemma census_C13_parallel_parallel_Map_ok : census_C13_parallel_parallel_Map =
  [].
Proof. reflexivity. Qed.

(* parallel/parallel.go: func MapContext *)
Lemma census_C13_parallel_parallel_MapContext_ok : census_C13_parallel_parallel_MapContext =
  [].
Proof. reflexivity. Qed.

Definition census_expected_C13 : Prop :=
  census_C13_parallel_parallel_Do =
  [("call:.Add", 1);
   ("call:.Done", 1);
   ("call:.Wait", 1);
   ("call:atomic.AddInt64", 1);
   ("call:runtime.GOMAXPROCS", 1);
   ("go", 1)]
  /\ census_C13_parallel_parallel_DoContext =
  [("call:.Err", 2);
   ("call:.Go", 1);
   ("call:.Wait", 1);
   ("call:atomic.AddInt64", 1);
   ("call:errgroup.WithContext", 1);
   ("call:runtime.GOMAXPROCS", 1)]
  /\ census_C13_parallel_parallel_Map =
  []
  /\ census_C13_parallel_parallel_MapContext =
  [].

Lemma census_C13_ok : census_expected_C13.
Proof. unfold census_expected_C13. repeat split; reflexivity. Qed.
