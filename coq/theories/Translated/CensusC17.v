(* The synchronisation census (see tools/gofacts/census.go) that the model Conc/Group.v was written against:
   per transcribed Go function, the bag of channel operations, select arms, goroutine starts, timer/context/
   sync/atomic calls in its body. Generated/Census.v is re-extracted from the Go source on every run; a function
   that gains or loses such an operation no longer matches, and the obligation below fails: the model then has
   to be re-read against the new code (and this record updated by hand or tools/mkcensus_expected.py). *)
From Coq Require Import String List ZArith.
From Juniper Require Import Generated.Census.
Import ListNotations.
Open Scope string_scope.
Open Scope Z_scope.

(* xsync/xsync.go: func NewGroup *)
Lemma census_C17_xsync_xsync_NewGroup_ok : census_C17_xsync_xsync_NewGroup =
  [("call:context.WithCancel", 1)].
Proof. reflexivity. Qed.

(* xsync/xsync.go: func (Group) spawn *)
Lemma census_C17_xsync_xsync_Group_spawn_ok : census_C17_xsync_xsync_Group_spawn =
  [("call:.Add", 1);
   ("call:.Done", 1);
   ("call:.Err", 1);
   ("call:.RLock", 1);
   ("call:.RUnlock", 2);
   ("go", 1)].
Proof. reflexivity. Qed.

(* xsync/xsync.go: func (Group) Do *)
Lemma census_C17_xsync_xsync_Group_Do_ok : census_C17_xsync_xsync_Group_Do =
  [].
Proof. reflexivity. Qed.

(* xsync/xsync.go: func (Group) Periodic *)
Lemma census_C17_xsync_xsync_Group_Periodic_ok : census_C17_xsync_xsync_Group_Periodic =
  [("arm:recv", 2);
   ("call:.Done", 1);
   ("call:.Err", 1);
   ("call:.Reset", 1);
   ("call:.Stop", 1);
   ("call:time.NewTimer", 1);
   ("select", 1)].
Proof. reflexivity. Qed.

(* xsync/xsync.go: func (Group) Trigger *)
Lemma census_C17_xsync_xsync_Group_Trigger_ok : census_C17_xsync_xsync_Group_Trigger =
  [("arm:default", 1);
   ("arm:recv", 2);
   ("arm:send", 1);
   ("call:.Done", 1);
   ("call:.Err", 1);
   ("makechan", 1);
   ("select", 2)].
Proof. reflexivity. Qed.

(* xsync/xsync.go: func (Group) PeriodicOrTrigger *)
Lemma census_C17_xsync_xsync_Group_PeriodicOrTrigger_ok : census_C17_xsync_xsync_Group_PeriodicOrTrigger =
  [("arm:default", 1);
   ("arm:recv", 3);
   ("arm:send", 1);
   ("call:.Done", 1);
   ("call:.Err", 1);
   ("call:.Reset", 2);
   ("call:.Stop", 2);
   ("call:time.NewTimer", 1);
   ("makechan", 1);
   ("recv", 1);
   ("select", 2)].
Proof. reflexivity. Qed.

(* xsync/xsync.go: func (Group) Stop *)
Lemma census_C17_xsync_xsync_Group_Stop_ok : census_C17_xsync_xsync_Group_Stop =
  [("call:.Lock", 1);
   ("call:.Unlock", 1);
   ("call:cancel", 1)].
Proof. reflexivity. Qed.

(* xsync/xsync.go: func (Group) StopAndWait *)
Lemma census_C17_xsync_xsync_Group_StopAndWait_ok : census_C17_xsync_xsync_Group_StopAndWait =
  [("call:.Stop", 1);
   ("call:.Wait", 1)].
Proof. reflexivity. Qed.

Definition census_expected_C17 : Prop :=
  census_C17_xsync_xsync_NewGroup =
  [("call:context.WithCancel", 1)]
  /\ census_C17_xsync_xsync_Group_spawn =
  [("call:.Add", 1);
   ("call:.Done", 1);
   ("call:.Err", 1);
   ("call:.RLock", 1);
   ("call:.RUnlock", 2);
   ("go", 1)]
  /\ census_C17_xsync_xsync_Group_Do =
  []
  /\ census_C17_xsync_xsync_Group_Periodic =
  [("arm:recv", 2);
   ("call:.Done", 1);
   ("call:.Err", 1);
   ("call:.Reset", 1);
   ("call:.Stop", 1);
   ("call:time.NewTimer", 1);
   ("select", 1)]
  /\ census_C17_xsync_xsync_Group_Trigger =
  [("arm:default", 1);
   ("arm:recv", 2);
   ("arm:send", 1);
   ("call:.Done", 1);
   ("call:.Err", 1);
   ("makechan", 1);
   ("select", 2)]
  /\ census_C17_xsync_xsync_Group_PeriodicOrTrigger =
  [("arm:default", 1);
   ("arm:recv", 3);
   ("arm:send", 1);
   ("call:.Done", 1);
   ("call:.Err", 1);
   ("call:.Reset", 2);
   ("call:.Stop", 2);
   ("call:time.NewTimer", 1);
   ("makechan", 1);
   ("recv", 1);
   ("select", 2)]
  /\ census_C17_xsync_xsync_Group_Stop =
  [("call:.Lock", 1);
   ("call:.Unlock", 1);
   ("call:cancel", 1)]
  /\ census_C17_xsync_xsync_Group_StopAndWait =
  [("call:.Stop", 1);
   ("call:.Wait", 1)].

Lemma census_C17_ok : census_expected_C17.
Proof. unfold census_expected_C17. repeat split; reflexivity. Qed.
