(* The synchronisation census (see tools/gofacts/census.go) that the model Conc/ParMap.v was written against:
   per transcribed Go function, the bag of channel operations, select arms, goroutine starts, timer/context/
   sync/atomic calls in its body. Generated/Census.v is re-extracted from the Go source on every run; a function
   that gains or loses such an operation no longer matches, and the obligation below fails: the model then has
   to be re-read against the new code (and this record updated by hand or tools/mkcensus_expected.py). *)
From Coq Require Import String List ZArith.
From Juniper Require Import Generated.Census.
Import ListNotations.
Open Scope string_scope.
Open Scope Z_scope.

(* parallel/parallel.go: func MapIterator *)
Lemma census_C14_parallel_parallel_MapIterator_ok : census_C14_parallel_parallel_MapIterator =
  [("call:.Lock", 1);
   ("call:.Unlock", 1);
   ("call:.Wait", 1);
   ("call:atomic.AddUint32", 1);
   ("call:runtime.GOMAXPROCS", 1);
   ("call:sync.NewCond", 1);
   ("close", 2);
   ("go", 2);
   ("makechan", 2);
   ("range", 1);
   ("send", 2)].
Proof. reflexivity. Qed.

(* parallel/parallel.go: func (mapIterator) Next *)
Lemma census_C14_parallel_parallel_mapIterator_Next_ok : census_C14_parallel_parallel_mapIterator_Next =
  [("call:.Lock", 1);
   ("call:.Signal", 1);
   ("call:.Unlock", 1);
   ("recv", 1)].
Proof. reflexivity. Qed.

(* parallel/parallel.go: func MapStream *)
Lemma census_C14_parallel_parallel_MapStream_ok : census_C14_parallel_parallel_MapStream =
  [("arm:recv", 4);
   ("arm:send", 2);
   ("call:.Done", 3);
   ("call:.Err", 3);
   ("call:.Go", 2);
   ("call:atomic.AddUint32", 1);
   ("call:context.WithCancel", 1);
   ("call:errgroup.WithContext", 1);
   ("call:runtime.GOMAXPROCS", 1);
   ("close", 2);
   ("makechan", 3);
   ("range", 1);
   ("select", 3);
   ("send", 1)].
Proof. reflexivity. Qed.

(* parallel/parallel.go: func (mapStream) Next *)
Lemma census_C14_parallel_parallel_mapStream_Next_ok : census_C14_parallel_parallel_mapStream_Next =
  [("arm:recv", 2);
   ("call:.Done", 1);
   ("call:.Err", 1);
   ("call:.Wait", 1);
   ("select", 1);
   ("send", 1)].
Proof. reflexivity. Qed.

(* parallel/parallel.go: func (mapStream) Close *)
Lemma census_C14_parallel_parallel_mapStream_Close_ok : census_C14_parallel_parallel_mapStream_Close =
  [("call:.Wait", 1);
   ("call:cancel", 1)].
Proof. reflexivity. Qed.

Definition census_expected_C14 : Prop :=
  census_C14_parallel_parallel_MapIterator =
  [("call:.Lock", 1);
   ("call:.Unlock", 1);
   ("call:.Wait", 1);
   ("call:atomic.AddUint32", 1);
   ("call:runtime.GOMAXPROCS", 1);
   ("call:sync.NewCond", 1);
   ("close", 2);
   ("go", 2);
   ("makechan", 2);
   ("range", 1);
   ("send", 2)]
  /\ census_C14_parallel_parallel_mapIterator_Next =
  [("call:.Lock", 1);
   ("call:.Signal", 1);
   ("call:.Unlock", 1);
   ("recv", 1)]
  /\ census_C14_parallel_parallel_MapStream =
  [("arm:recv", 4);
   ("arm:send", 2);
   ("call:.Done", 3);
   ("call:.Err", 3);
   ("call:.Go", 2);
   ("call:atomic.AddUint32", 1);
   ("call:context.WithCancel", 1);
   ("call:errgroup.WithContext", 1);
   ("call:runtime.GOMAXPROCS", 1);
   ("close", 2);
   ("makechan", 3);
   ("range", 1);
   ("select", 3);
   ("send", 1)]
  /\ census_C14_parallel_parallel_mapStream_Next =
  [("arm:recv", 2);
   ("call:.Done", 1);
   ("call:.Err", 1);
   ("call:.Wait", 1);
   ("select", 1);
   ("send", 1)]
  /\ census_C14_parallel_parallel_mapStream_Close =
  [("call:.Wait", 1);
   ("call:cancel", 1)].

Lemma census_C14_ok : census_expected_C14.
Proof. unfold census_expected_C14. repeat split; reflexivity. Qed.
