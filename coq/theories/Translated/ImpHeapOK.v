(* The statement-level translation of internal/heap/heap.go (Generated/ImpHeap.v, regenerated from the Go source
   on every run by tools/gofacts/imp.go) computes, on every heap whose length and generation are far from the
   int64 limits, exactly what the hand-written model Heap/Model.v computes: same result, same panic class, same
   new state (array, generation, state of the indexChanged closure).  The translated code wraps EVERY int
   operation at 64 bits and runs its loops with goloop; the model uses plain Z arithmetic and structural
   fixpoints: these lemmas are also the proof that no wrap and no fuel exhaustion can happen.
   Stdlib only; no axioms. *)
From Coq Require Import ZifyBool Permutation.
From Juniper Require Import Common.Base Heap.Model Heap.Lemmas Heap.Proofs Translated.GoImp Generated.ImpHeap.
Open Scope Z_scope.

Ltac wr1 :=
  match goal with
  | |- context [wadd ?a ?b] => rewrite (wadd_id a b) by (apply int64_iff; lia)
  | |- context [wsub ?a ?b] => rewrite (wsub_id a b) by (apply int64_iff; lia)
  | |- context [wmul ?a ?b] => rewrite (wmul_id a b) by (apply int64_iff; lia)
  end.
Ltac wr := repeat wr1.

(* the model and the primitives each define the same bind *)
Lemma rbind_same A B : @Heap.Model.rbind A B = @GoImp.rbind A B.
Proof. reflexivity. Qed.
Ltac rb := change (@Heap.Model.rbind) with (@GoImp.rbind) in *.

Lemma rbind_ret {A} (r : result A) : rbind r (fun x => Ok x) = r.
Proof. destruct r; reflexivity. Qed.

Lemma goloop_S {S R} f (body : S -> result (ctl S R)) s :
  goloop (Datatypes.S f) body s =
  match body s with
  | Panic c => Panic c
  | Ok (CNext s') => goloop f body s'
  | Ok (CBreak s') => Ok (CBreak s')
  | Ok (CRet r) => Ok (CRet r)
  end.
Proof. reflexivity. Qed.

Lemma zget_zset_some {A} (l : list A) i x y : zget l i = Some x -> zset l i y = Some (upd l (Z.to_nat i) y).
Proof. intros H. apply zset_ok. eapply zget_Some_range; eauto. Qed.

Lemma zget_zset_none {A} (l : list A) i y : zget l i = None -> zset l i y = None.
Proof. intros H. apply zset_None. apply zget_None_iff in H. lia. Qed.

Lemma zset_Some_inv {A} (l l' : list A) i y :
  zset l i y = Some l' -> 0 <= i < zlen l /\ l' = upd l (Z.to_nat i) y.
Proof.
  unfold zset. destruct (i <? 0) eqn:E1; cbn [orb]; [discriminate|].
  destruct (zlen l <=? i) eqn:E2; [discriminate|]. intros H. injection H as <-. split; [lia|reflexivity].
Qed.

Lemma goslice_ok {A} (l : list A) lo hi : 0 <= lo <= hi -> hi <= zlen l -> goslice l lo hi = Ok (zslice l lo hi).
Proof.
  intros H1 H2. unfold goslice.
  destruct (0 <=? lo) eqn:E1; [|lia]. destruct (lo <=? hi) eqn:E2; [|lia].
  destruct (hi <=? zlen l) eqn:E3; [|lia]. reflexivity.
Qed.

(* ---- parent, children, Len: no state, no precondition for safety ---- *)

Lemma gi_heap_parent_safe i : exists v, gi_heap_parent i = Ok v.
Proof. unfold gi_heap_parent, goquo. cbn [Z.eqb rbind]. eauto. Qed.

Lemma gi_heap_children_safe i : exists v, gi_heap_children i = Ok v.
Proof. unfold gi_heap_children. eauto. Qed.

Lemma gi_Heap_Len_safe {T IS} (h : heap T IS) : exists v, gi_Heap_Len h = Ok v.
Proof. unfold gi_Heap_Len. eauto. Qed.

(* indices the library computes with: at most 2^61 in absolute value, so that i*2+2 and i-1 stay inside int64 *)
Definition idx (i : Z) : Prop := - 2^61 <= i <= 2^61.

Lemma gi_heap_parent_ok i : idx i -> gi_heap_parent i = Ok (parent i).
Proof.
  unfold idx. change (2^61) with 2305843009213693952. intros Hi.
  unfold gi_heap_parent, goquo, parent. cbn [Z.eqb rbind]. wr.
  rewrite wrap64_id; [reflexivity|]. apply int64_iff.
  pose proof (Z.quot_lt_upper_bound (i - 1) 2 2305843009213693952) as U.
  destruct (Z_le_gt_dec 0 (i - 1)) as [P|N].
  - pose proof (Z.quot_pos (i - 1) 2 P). pose proof (Z.quot_le_upper_bound (i - 1) 2 2305843009213693952). lia.
  - pose proof (Z.quot_opp_l (i - 1) 2). pose proof (Z.quot_pos (- (i - 1)) 2).
    pose proof (Z.quot_le_upper_bound (- (i - 1)) 2 2305843009213693952). lia.
Qed.

Lemma gi_heap_children_ok i : idx i -> gi_heap_children i = Ok (children i).
Proof.
  unfold idx. change (2^61) with 2305843009213693952. intros Hi.
  unfold gi_heap_children, children. wr.
  match goal with |- Ok (?a, ?b) = Ok (?c, ?d) => replace a with c by lia; replace b with d by lia; reflexivity end.
Qed.

Section OK.
  Context {T IS : Type} (zero : T) (less : T -> T -> bool) (on_index : T -> Z -> IS -> IS).
  Notation heap := (heap T IS).
  Notation core := (core T IS).
  Implicit Types (h : heap) (a : list T).

  Notation notify := (notify on_index).
  Notation less_at := (less_at less).
  Notation swap := (swap on_index).
  Notation percolate_up := (percolate_up less on_index).
  Notation percolate_down := (percolate_down less on_index).
  Notation up := (up less on_index).
  Notation down := (down less on_index).
  Notation heapify := (heapify less on_index).
  Notation notify_loop := (notify_loop on_index).

  (* the part of a heap the loops of the model work on, and a heap rebuilt around a result of theirs *)
  Definition core_of h : core := (ha h, hs h).
  Definition heap_of (g : Z) (c : core) : heap := mkHeap (fst c) g (snd c).
  (* a model result on the core, as a result on the heap with generation g *)
  Definition lift (g : Z) (r : result core) : result heap :=
    match r with Ok c => Ok (heap_of g c) | Panic p => Panic p end.

  Lemma core_heap g (c : core) : core_of (heap_of g c) = c.
  Proof. destruct c; reflexivity. Qed.
  Lemma heap_core h : heap_of (hgen h) (core_of h) = h.
  Proof. destruct h; reflexivity. Qed.

  (* arrays short enough that every index into them (and one past) is an idx *)
  Definition fits a : Prop := zlen a <= 2^61.
  (* the range precondition of the exported methods; every heap a history shorter than 2^60 reaches has it *)
  Definition small h : Prop := zlen (ha h) < 2^61 /\ 0 <= hgen h < 2^62.

  Lemma gi_Len_ok h : gi_Heap_Len h = Ok (len h).
  Proof. reflexivity. Qed.

  (* ---- notifyIndexChanged, less, swap: every heap, every index ---- *)

  Lemma gi_notify_ok i h : gi_Heap_notify on_index i h = lift (hgen h) (notify i (core_of h)).
  Proof.
    unfold gi_Heap_notify, Model.notify, goget, core_of. cbn [fst snd].
    destruct (zget (ha h) i) as [x|]; reflexivity.
  Qed.

  Lemma gi_less_ok i j h : gi_Heap_less less i j h = less_at (core_of h) i j.
  Proof.
    unfold gi_Heap_less, Model.less_at, goget, core_of. cbn [fst snd].
    destruct (zget (ha h) i) as [x|]; cbn [rbind]; [|reflexivity].
    destruct (zget (ha h) j) as [y|]; reflexivity.
  Qed.

  Lemma gi_swap_ok i j h : gi_Heap_swap on_index i j h = lift (hgen h) (swap i j (core_of h)).
  Proof.
    unfold gi_Heap_swap, Model.swap, core_of. cbn [fst snd]. unfold goget at 1 2.
    destruct (zget (ha h) j) as [y|] eqn:Gj; cbn [rbind].
    2:{ destruct (zget (ha h) i); reflexivity. }
    destruct (zget (ha h) i) as [x|] eqn:Gi; cbn [rbind]; [|reflexivity]. cbv zeta.
    pose proof (zget_Some_range _ _ _ Gi) as Ri. pose proof (zget_Some_range _ _ _ Gj) as Rj.
    unfold goset at 1. rewrite (zget_zset_some _ _ _ y Gi). cbn [rbind ha hgen hs].
    unfold goset at 1. rewrite zset_ok by (rewrite zlen_upd; exact Rj). cbn [rbind ha hgen hs].
    set (a2 := upd (upd (ha h) (Z.to_nat i) y) (Z.to_nat j) x).
    assert (Hj2 : zget a2 j = Some x).
    { unfold a2. apply zget_upd_same. rewrite zlen_upd. exact Rj. }
    assert (Hi2 : zget a2 i = Some y).
    { unfold a2. destruct (Z.eq_dec i j) as [E|E].
      - subst j. rewrite Gi in Gj. injection Gj as ->. apply zget_upd_same. rewrite zlen_upd. exact Ri.
      - rewrite zget_upd_other by lia. apply zget_upd_same. exact Ri. }
    unfold gi_Heap_notify, goget. cbn [rbind ha hgen hs]. rewrite Hi2. cbn [rbind ha hgen hs].
    rewrite Hj2. cbn [rbind]. reflexivity.
  Qed.

  Lemma notify_fst i c c' : notify i c = Ok c' -> fst c' = fst c.
  Proof.
    unfold Model.notify. destruct (zget (fst c) i); [|discriminate]. intros H. injection H as <-. reflexivity.
  Qed.

  Lemma swap_length i j c c' : swap i j c = Ok c' -> length (fst c') = length (fst c).
  Proof.
    unfold Model.swap. destruct (zget (fst c) i); [|discriminate]. destruct (zget (fst c) j); [|discriminate].
    intros H. injection H as <-. cbn [fst]. rewrite !upd_length. reflexivity.
  Qed.

  Lemma swap_range i j c c' : swap i j c = Ok c' -> 0 <= i < zlen (fst c) /\ 0 <= j < zlen (fst c).
  Proof.
    unfold Model.swap. destruct (zget (fst c) i) eqn:Gi; [|discriminate].
    destruct (zget (fst c) j) eqn:Gj; [|discriminate]. intros _.
    split; eapply zget_Some_range; eassumption.
  Qed.

  Lemma less_at_range (c : core) i j b : less_at c i j = Ok b -> 0 <= i < zlen (fst c) /\ 0 <= j < zlen (fst c).
  Proof.
    unfold Model.less_at. destruct (zget (fst c) i) eqn:Gi; [|discriminate].
    destruct (zget (fst c) j) eqn:Gj; [|discriminate]. intros _.
    split; eapply zget_Some_range; eassumption.
  Qed.

  Lemma up_length : forall f i c c', percolate_up f i c = Ok c' -> length (fst c') = length (fst c).
  Proof.
    induction f as [|f IH]; intros i c c'; cbn [Model.percolate_up]; destruct (0 <? i).
    - discriminate.
    - intros H; injection H as <-; reflexivity.
    - destruct (less_at c i (parent i)) as [b|p]; cbn [Heap.Model.rbind]; [|discriminate].
      destruct b.
      + destruct (swap i (parent i) c) as [c1|p] eqn:Es; cbn [Heap.Model.rbind]; [|discriminate].
        intros H. apply IH in H. apply swap_length in Es. congruence.
      + cbn [Heap.Model.rbind]. apply IH.
    - intros H; injection H as <-; reflexivity.
  Qed.

  Lemma down_length : forall f i c c', percolate_down f i c = Ok c' -> length (fst c') = length (fst c).
  Proof.
    induction f as [|f IH]; intros i c c'; cbn [Model.percolate_down]; [discriminate|].
    unfold children. destruct (zlen (fst c) <=? i * 2 + 1).
    { intros H; injection H as <-; reflexivity. }
    destruct (zlen (fst c) <=? i * 2 + 2).
    - destruct (less_at c (i * 2 + 1) i) as [b|p]; cbn [Heap.Model.rbind]; [|discriminate].
      destruct b; [|intros H; injection H as <-; reflexivity].
      destruct (swap (i * 2 + 1) i c) as [c1|p] eqn:Es; cbn [Heap.Model.rbind]; [|discriminate].
      intros H. apply IH in H. apply swap_length in Es. congruence.
    - destruct (less_at c (i * 2 + 2) (i * 2 + 1)) as [b|p]; cbn [Heap.Model.rbind]; [|discriminate].
      destruct (less_at c (if b then i * 2 + 2 else i * 2 + 1) i) as [b2|p]; cbn [Heap.Model.rbind]; [|discriminate].
      destruct b2; [|intros H; injection H as <-; reflexivity].
      destruct (swap (if b then i * 2 + 2 else i * 2 + 1) i c) as [c1|p] eqn:Es; cbn [Heap.Model.rbind]; [|discriminate].
      intros H. apply IH in H. apply swap_length in Es. congruence.
  Qed.

  (* what every loop of the translation does with the value goloop hands back *)
  Definition loop_post (c_ : ctl (heap * Z) heap) : result heap :=
    match c_ with
    | CRet r_ => Ok r_
    | CNext (h, i) | CBreak (h, i) => Ok h
    end.

  (* ---- percolateUp ---- *)

  (* the loop body of gi_Heap_percolateUp, copied from Generated/ImpHeap.v; up_unfold fails if they part *)
  Definition up_body : heap * Z -> result (ctl (heap * Z) heap) := fun '(h, i) =>
    if (i >? 0)
    then rbind (gi_heap_parent i) (fun c1_ =>
    let p := c1_ in
    rbind (gi_Heap_less less i p h) (fun c2_ =>
    rbind (if c2_
    then rbind (gi_Heap_swap on_index i p h) (fun h =>
    Ok h)
    else Ok h) (fun h =>
    let i := p in
    Ok (CNext (h, i)))))
    else Ok (CBreak (h, i)).

  Lemma gi_percolateUp_unfold i h :
    gi_Heap_percolateUp less on_index i h = rbind (goloop (S (length (ha h))) up_body (h, i)) loop_post.
  Proof. reflexivity. Qed.

  (* one turn of the loop, in the model's words *)
  Lemma up_body_eq h i : idx i ->
    up_body (h, i) =
    if 0 <? i
    then rbind (less_at (core_of h) i (parent i)) (fun b =>
         rbind (lift (hgen h) (if b then swap i (parent i) (core_of h) else Ok (core_of h))) (fun h' =>
         Ok (CNext (h', parent i))))
    else Ok (CBreak (h, i)).
  Proof.
    intros Hi. unfold up_body. rewrite Z.gtb_ltb. destruct (0 <? i); [|reflexivity].
    rewrite gi_heap_parent_ok by exact Hi. cbn [rbind]. cbv zeta. rewrite gi_less_ok.
    destruct (less_at (core_of h) i (parent i)) as [b|p]; cbn [rbind]; [|reflexivity].
    destruct b.
    - rewrite rbind_ret, gi_swap_ok. reflexivity.
    - cbn [lift]. rewrite heap_core. reflexivity.
  Qed.

  (* n turns are enough from any i <= n (parent i < i), and then both sides do the same; from an i at or
     beyond the end of a non-empty array both sides panic at the first comparison.  The one corner left out:
     i > 0 on an EMPTY array, where Go panics with index out of range and the model, whose fuel is the length,
     reports fuel exhaustion (POther); Push, RemoveAt and UpdateAt never call percolateUp that way. *)
  Lemma up_loop : forall n i h, idx i ->
      (i <= Z.of_nat n \/ (zlen (ha h) <= i /\ (1 <= n)%nat)) ->
      rbind (goloop (S n) up_body (h, i)) loop_post = lift (hgen h) (percolate_up n i (core_of h)).
  Proof.
    induction n as [|n IH]; intros i h Hi Hn; rewrite goloop_S, up_body_eq by exact Hi;
      cbn [Model.percolate_up]; destruct (Z.ltb_spec 0 i) as [Hpos|Hle].
    - lia.
    - cbn [rbind loop_post lift]. rewrite heap_core. reflexivity.
    - rb.
      destruct (less_at (core_of h) i (parent i)) as [b|p] eqn:El; cbn [rbind]; [|reflexivity].
      apply less_at_range in El. cbn [core_of fst] in El.
      assert (Hin : i <= Z.of_nat (S n)) by lia.
      pose proof (parent_spec i Hpos) as [Hp _].
      assert (Hip : idx (parent i)) by (unfold idx in *; lia).
      rb.
      destruct b.
      + destruct (swap i (parent i) (core_of h)) as [c1|p] eqn:Es; cbn [lift rbind]; [|reflexivity].
        apply swap_length in Es. cbn [core_of fst] in Es.
        rewrite (IH (parent i) (heap_of (hgen h) c1) Hip) by (left; lia).
        cbn [heap_of hgen]. rewrite core_heap. reflexivity.
      + cbn [lift rbind]. rewrite heap_core.
        rewrite (IH (parent i) h Hip) by (left; lia). reflexivity.
    - cbn [rbind loop_post lift]. rewrite heap_core. reflexivity.
  Qed.

  Lemma gi_percolateUp_ok i h : idx i -> (i <= 0 \/ 0 < zlen (ha h)) ->
    gi_Heap_percolateUp less on_index i h = lift (hgen h) (up i (core_of h)).
  Proof.
    intros Hi Hn. rewrite gi_percolateUp_unfold. unfold Model.up. cbn [core_of fst].
    apply (up_loop (length (ha h)) i h Hi). unfold zlen in *. lia.
  Qed.

  (* the corner excluded above, exactly: on an empty array and i > 0 the Go code panics with index out of range
     at h.less(i, p); the model's [up], whose fuel is the length 0, reports POther.  Unreachable from the
     exported methods (Push appends first; RemoveAt and UpdateAt have written a[i] before). *)
  Lemma percolateUp_empty_corner g (s : IS) i : 0 < i -> idx i ->
    gi_Heap_percolateUp less on_index i (mkHeap [] g s) = Panic PIndex /\ up i ([], s) = Panic POther.
  Proof.
    intros Hpos Hi. split.
    - rewrite gi_percolateUp_unfold. cbn [ha length]. rewrite goloop_S, up_body_eq by exact Hi.
      destruct (Z.ltb_spec 0 i) as [_|H]; [|lia].
      unfold Model.less_at, core_of. cbn [ha hs fst].
      assert (E : zget (@nil T) i = None) by (apply zget_None_iff; right; cbn; lia).
      rewrite E. reflexivity.
    - unfold Model.up. cbn [fst length Model.percolate_up].
      destruct (Z.ltb_spec 0 i) as [_|H]; [reflexivity|lia].
  Qed.

  (* ---- percolateDown ---- *)

  (* the loop body of gi_Heap_percolateDown, copied from Generated/ImpHeap.v *)
  Definition down_body : heap * Z -> result (ctl (heap * Z) heap) := fun '(h, i) =>
    rbind (gi_heap_children i) (fun c1_ =>
    let '(left_v, right_v) := c1_ in
    if (left_v >=? (zlen (ha h)))
    then Ok (CRet h)
    else if (right_v >=? (zlen (ha h)))
    then rbind (gi_Heap_less less left_v i h) (fun c2_ =>
    if c2_
    then rbind (gi_Heap_swap on_index left_v i h) (fun h =>
    let i := left_v in
    Ok (CNext (h, i)))
    else Ok (CRet h))
    else let least := left_v in
    rbind (gi_Heap_less less right_v left_v h) (fun c3_ =>
    rbind (if c3_
    then let least := right_v in
    Ok least
    else Ok least) (fun least =>
    rbind (gi_Heap_less less least i h) (fun c4_ =>
    if c4_
    then rbind (gi_Heap_swap on_index least i h) (fun h =>
    let i := least in
    Ok (CNext (h, i)))
    else Ok (CRet h))))).

  Lemma gi_percolateDown_unfold i h :
    gi_Heap_percolateDown less on_index i h =
    rbind (goloop (S (S (length (ha h)))) down_body (h, i)) loop_post.
  Proof. reflexivity. Qed.

  (* one turn of the loop, in the model's words *)
  Lemma down_body_eq h i : idx i ->
    down_body (h, i) =
    let lc := i * 2 + 1 in
    let rc := i * 2 + 2 in
    let swap_to := fun j =>
      rbind (lift (hgen h) (swap j i (core_of h))) (fun h' => Ok (CNext (h', j))) in
    if zlen (ha h) <=? lc then Ok (CRet h)
    else if zlen (ha h) <=? rc then
      rbind (less_at (core_of h) lc i) (fun b => if b then swap_to lc else Ok (CRet h))
    else
      rbind (less_at (core_of h) rc lc) (fun b =>
      let least := if b then rc else lc in
      rbind (less_at (core_of h) least i) (fun b2 => if b2 then swap_to least else Ok (CRet h))).
  Proof.
    intros Hi. unfold down_body. rewrite gi_heap_children_ok by exact Hi. unfold children. cbn [rbind]. cbv zeta.
    rewrite !Z.geb_leb.
    destruct (zlen (ha h) <=? i * 2 + 1); [reflexivity|].
    destruct (zlen (ha h) <=? i * 2 + 2).
    - rewrite gi_less_ok. destruct (less_at (core_of h) (i * 2 + 1) i) as [b|p]; cbn [rbind]; [|reflexivity].
      destruct b; [|reflexivity]. rewrite gi_swap_ok. reflexivity.
    - rewrite gi_less_ok.
      destruct (less_at (core_of h) (i * 2 + 2) (i * 2 + 1)) as [b|p]; cbn [rbind]; [|reflexivity].
      destruct b; cbn [rbind]; rewrite gi_less_ok.
      + destruct (less_at (core_of h) (i * 2 + 2) i) as [b2|p]; cbn [rbind]; [|reflexivity].
        destruct b2; [|reflexivity]. rewrite gi_swap_ok. reflexivity.
      + destruct (less_at (core_of h) (i * 2 + 1) i) as [b2|p]; cbn [rbind]; [|reflexivity].
        destruct b2; [|reflexivity]. rewrite gi_swap_ok. reflexivity.
  Qed.

  Lemma percolate_down_S f i (c : core) :
    percolate_down (S f) i c =
    let lc := i * 2 + 1 in
    let rc := i * 2 + 2 in
    if zlen (fst c) <=? lc then Ok c
    else if zlen (fst c) <=? rc then
      rbind (less_at c lc i) (fun b => if b then rbind (swap lc i c) (percolate_down f lc) else Ok c)
    else
      rbind (less_at c rc lc) (fun b =>
      let least := if b then rc else lc in
      rbind (less_at c least i) (fun b2 =>
      if b2 then rbind (swap least i c) (percolate_down f least) else Ok c)).
  Proof. reflexivity. Qed.

  (* one turn on both sides, given that the rest of the loop agrees from the child the turn moves to *)
  Lemma down_unroll n m i h : idx i ->
    (forall (c' : core) j, (j = i * 2 + 1 \/ j = i * 2 + 2) -> 0 <= i -> j < zlen (ha h) ->
        length (fst c') = length (ha h) ->
        rbind (goloop m down_body (heap_of (hgen h) c', j)) loop_post = lift (hgen h) (percolate_down n j c')) ->
    rbind (goloop (S m) down_body (h, i)) loop_post = lift (hgen h) (percolate_down (S n) i (core_of h)).
  Proof.
    intros Hi Hrest. rewrite goloop_S, down_body_eq, percolate_down_S by exact Hi. cbv zeta.
    assert (Hgo : forall j, (j = i * 2 + 1 \/ j = i * 2 + 2) -> j < zlen (ha h) ->
      rbind match rbind (lift (hgen h) (swap j i (core_of h))) (fun h' => Ok (CNext (h', j))) with
            | Ok (CNext s') => goloop m down_body s'
            | Ok (CBreak s') => Ok (CBreak s')
            | Ok (CRet r) => Ok (CRet r)
            | Panic c => Panic c
            end loop_post =
      lift (hgen h) (rbind (swap j i (core_of h)) (percolate_down n j))).
    { intros j Hj Hjl. destruct (swap j i (core_of h)) as [c1|p] eqn:Es; cbn [lift rbind]; [|reflexivity].
      pose proof (swap_range _ _ _ _ Es) as [_ Ri]. apply swap_length in Es. cbn [core_of fst] in Es, Ri.
      apply Hrest; [exact Hj|lia|exact Hjl|exact Es]. }
    cbn [core_of fst].
    destruct (Z.leb_spec (zlen (ha h)) (i * 2 + 1)) as [H1|H1].
    { cbn [rbind loop_post lift]. change (ha h, hs h) with (core_of h). rewrite heap_core. reflexivity. }
    change (ha h, hs h) with (core_of h).
    destruct (Z.leb_spec (zlen (ha h)) (i * 2 + 2)) as [H2|H2].
    - destruct (less_at (core_of h) (i * 2 + 1) i) as [b|p]; cbn [rbind lift]; [|reflexivity].
      destruct b.
      + apply Hgo; [left; reflexivity|lia].
      + cbn [rbind loop_post lift]. rewrite heap_core. reflexivity.
    - destruct (less_at (core_of h) (i * 2 + 2) (i * 2 + 1)) as [b|p]; cbn [rbind lift]; [|reflexivity].
      destruct (less_at (core_of h) (if b then i * 2 + 2 else i * 2 + 1) i) as [b2|p]; cbn [rbind lift]; [|reflexivity].
      destruct b2.
      + destruct b; apply Hgo; [right; reflexivity|lia|left; reflexivity|lia].
      + cbn [rbind loop_post lift]. rewrite heap_core. reflexivity.
  Qed.

  (* n + 1 turns are enough from any i with len <= i + n (the index at least doubles); a negative i panics at
     the first comparison on both sides.  The translation runs with any fuel m >= n. *)
  Lemma down_loop : forall n m i h, (n <= m)%nat -> fits (ha h) -> idx i ->
      (i < 0 \/ zlen (ha h) <= i + Z.of_nat n) ->
      rbind (goloop (S m) down_body (h, i)) loop_post = lift (hgen h) (percolate_down (S n) i (core_of h)).
  Proof.
    induction n as [|n IH]; intros m i h Hm Hf Hi Hn; apply down_unroll; try exact Hi;
      intros c' j Hj Hi0 Hjl Hlen.
    - exfalso. lia.
    - destruct m as [|m]; [lia|].
      assert (Hz : zlen (fst c') = zlen (ha h)) by (unfold zlen; rewrite Hlen; reflexivity).
      pose proof (IH m j (heap_of (hgen h) c')) as E. cbn [heap_of ha hgen] in E. rewrite core_heap in E.
      apply E.
      + lia.
      + unfold fits in *. rewrite Hz. exact Hf.
      + unfold idx, fits in *. lia.
      + right. rewrite Hz. lia.
  Qed.

  Lemma gi_percolateDown_ok i h : fits (ha h) -> idx i ->
    gi_Heap_percolateDown less on_index i h = lift (hgen h) (down i (core_of h)).
  Proof.
    intros Hf Hi. rewrite gi_percolateDown_unfold. unfold Model.down. cbn [core_of fst].
    apply (down_loop (length (ha h)) (S (length (ha h))) i h); [lia|exact Hf|exact Hi|].
    unfold zlen. lia.
  Qed.

  (* ---- the exported methods ---- *)

  Lemma zlen_zslice_le {A} (l : list A) lo hi : zlen (zslice l lo hi) <= zlen l.
  Proof. unfold zslice, zlen. rewrite firstn_length, skipn_length. lia. Qed.

  Lemma small_vals h : small h -> zlen (ha h) < 2305843009213693952 /\ 0 <= hgen h < 4611686018427387904.
  Proof. intros H. exact H. Qed.

  Lemma fits_val a : fits a <-> zlen a <= 2305843009213693952.
  Proof. reflexivity. Qed.

  Lemma idx_val i : idx i <-> -2305843009213693952 <= i <= 2305843009213693952.
  Proof. reflexivity. Qed.

  Lemma gi_Push_ok x h : small h -> gi_Heap_Push less on_index x h = push less on_index x h.
  Proof.
    intros Hs. apply small_vals in Hs. destruct Hs as [Hl Hg]. pose proof (zlen_nonneg (ha h)) as Hn.
    unfold gi_Heap_Push, Model.push. cbv zeta. rb. cbn [ha hgen hs]. rewrite zlen_snoc. wr.
    rewrite gi_notify_ok. unfold core_of; cbn [ha hgen hs].
    destruct (notify (zlen (ha h) + 1 - 1) (ha h ++ [x], hs h)) as [c|p] eqn:En; cbn [lift rbind]; [|reflexivity].
    apply notify_fst in En. cbn [fst] in En.
    cbn [heap_of ha]. rewrite En, zlen_snoc. wr.
    rewrite gi_percolateUp_ok;
      [|apply idx_val; lia|right; cbn [heap_of ha]; rewrite En, zlen_snoc; lia].
    cbn [heap_of hgen]. rewrite core_heap.
    destruct (up (zlen (ha h) + 1 - 1) c) as [c'|p]; cbn [lift rbind]; [|reflexivity].
    cbn [heap_of ha hgen hs]. wr. reflexivity.
  Qed.

  Lemma gi_Peek_ok h : gi_Heap_Peek h = peek h.
  Proof. unfold gi_Heap_Peek, peek, goget. destruct (zget (ha h) 0); reflexivity. Qed.

  Lemma gi_Item_ok i h : gi_Heap_Item i h = item i h.
  Proof. unfold gi_Heap_Item, item, goget. destruct (zget (ha h) i); reflexivity. Qed.

  Lemma gi_Pop_ok h : small h -> gi_Heap_Pop zero less on_index h = pop zero less on_index h.
  Proof.
    intros Hs. apply small_vals in Hs. destruct Hs as [Hl Hg]. pose proof (zlen_nonneg (ha h)) as Hn.
    unfold gi_Heap_Pop, Model.pop. cbv zeta. rb.
    unfold goget at 1. destruct (zget (ha h) 0) as [it|] eqn:G0; cbn [rbind]; [|reflexivity].
    pose proof (zget_Some_range _ _ _ G0) as R0. wr.
    unfold goget at 1. destruct (zget (ha h) (zlen (ha h) - 1)) as [lst|] eqn:Gl; cbn [rbind]; [|reflexivity].
    unfold goset at 1. rewrite (zget_zset_some _ _ _ lst G0). cbn [rbind ha hgen hs]. rewrite zlen_upd. wr.
    unfold goset at 1. rewrite zset_ok by (rewrite zlen_upd; lia). cbn [rbind ha hgen hs]. rewrite !zlen_upd. wr.
    rewrite goslice_ok by (rewrite ?zlen_upd; lia). cbn [rbind ha hgen hs]. rewrite Z.gtb_ltb.
    set (a3 := zslice (upd (upd (ha h) (Z.to_nat 0) lst) (Z.to_nat (zlen (ha h) - 1)) zero) 0 (zlen (ha h) - 1)).
    assert (Ha3 : fits a3).
    { apply fits_val. pose proof (zlen_zslice_le (upd (upd (ha h) (Z.to_nat 0) lst) (Z.to_nat (zlen (ha h) - 1)) zero) 0 (zlen (ha h) - 1)) as L.
      rewrite !zlen_upd in L. fold a3 in L. lia. }
    assert (Hrest : forall c : core, fst c = a3 ->
      rbind (gi_Heap_percolateDown less on_index 0 (heap_of (hgen h) c))
            (fun h0 => Ok (it, mkHeap (ha h0) (wadd (hgen h0) 1) (hs h0))) =
      rbind (down 0 c) (fun c' => Ok (it, mkHeap (fst c') (hgen h + 1) (snd c')))).
    { intros c Hc. rewrite gi_percolateDown_ok; [|cbn [heap_of ha]; rewrite Hc; exact Ha3|apply idx_val; lia].
      cbn [heap_of hgen]. rewrite core_heap.
      destruct (down 0 c) as [c'|p]; cbn [lift rbind]; [|reflexivity].
      cbn [heap_of ha hgen hs]. wr. reflexivity. }
    destruct (0 <? zlen a3).
    - rewrite rbind_ret, gi_notify_ok. unfold core_of; cbn [ha hgen hs].
      destruct (notify 0 (a3, hs h)) as [c|p] eqn:En; cbn [lift rbind]; [|reflexivity].
      apply notify_fst in En. cbn [fst] in En. apply Hrest. exact En.
    - cbn [rbind]. apply (Hrest (a3, hs h)). reflexivity.
  Qed.

  Lemma gi_RemoveAt_ok i h : small h ->
    gi_Heap_RemoveAt zero less on_index i h = remove_at zero less on_index i h.
  Proof.
    intros Hs. apply small_vals in Hs. destruct Hs as [Hl Hg]. pose proof (zlen_nonneg (ha h)) as Hn.
    unfold gi_Heap_RemoveAt, Model.remove_at. cbv zeta. rb. wr.
    unfold goget at 1. destruct (zget (ha h) (zlen (ha h) - 1)) as [lst|] eqn:Gl; cbn [rbind]; [|reflexivity].
    pose proof (zget_Some_range _ _ _ Gl) as Rl.
    unfold goset at 1. destruct (zset (ha h) i lst) as [a1|] eqn:S1; cbn [rbind]; [|reflexivity].
    apply zset_Some_inv in S1. destruct S1 as [Ri ->]. cbn [ha hgen hs]. rewrite zlen_upd. wr.
    unfold goset at 1. rewrite zset_ok by (rewrite zlen_upd; lia). cbn [rbind ha hgen hs]. rewrite !zlen_upd. wr.
    rewrite goslice_ok by (rewrite ?zlen_upd; lia). cbn [rbind ha hgen hs].
    set (a3 := zslice (upd (upd (ha h) (Z.to_nat i) lst) (Z.to_nat (zlen (ha h) - 1)) zero) 0 (zlen (ha h) - 1)).
    assert (Ha3 : zlen a3 <= zlen (ha h)).
    { pose proof (zlen_zslice_le (upd (upd (ha h) (Z.to_nat i) lst) (Z.to_nat (zlen (ha h) - 1)) zero) 0 (zlen (ha h) - 1)) as L.
      rewrite !zlen_upd in L. exact L. }
    destruct (Z.ltb_spec i (zlen a3)) as [Hi3|Hi3].
    - rewrite gi_notify_ok. unfold core_of; cbn [ha hgen hs].
      destruct (notify i (a3, hs h)) as [c|p] eqn:En; cbn [lift rbind]; [|reflexivity].
      apply notify_fst in En. cbn [fst] in En.
      rewrite gi_percolateUp_ok; [|apply idx_val; lia|right; cbn [heap_of ha]; rewrite En; lia].
      cbn [heap_of hgen]. rewrite core_heap.
      destruct (up i c) as [c1|p] eqn:Eu; cbn [lift rbind]; [|reflexivity].
      apply up_length in Eu.
      assert (Hz : zlen (fst c1) = zlen a3) by (unfold zlen; rewrite Eu, En; reflexivity).
      rewrite gi_percolateDown_ok;
        [|cbn [heap_of ha]; apply fits_val; rewrite Hz; lia|apply idx_val; lia].
      cbn [heap_of hgen]. rewrite core_heap.
      destruct (down i c1) as [c2|p]; cbn [lift rbind]; [|reflexivity].
      cbn [heap_of ha hgen hs]. wr. reflexivity.
    - cbn [rbind ha hgen hs fst snd]. wr. reflexivity.
  Qed.

  Lemma gi_UpdateAt_ok i x h : small h ->
    gi_Heap_UpdateAt less on_index i x h = update_at less on_index i x h.
  Proof.
    intros Hs. apply small_vals in Hs. destruct Hs as [Hl Hg]. pose proof (zlen_nonneg (ha h)) as Hn.
    unfold gi_Heap_UpdateAt, Model.update_at. cbv zeta. rb.
    unfold goset at 1. destruct (zset (ha h) i x) as [a1|] eqn:S1; cbn [rbind]; [|reflexivity].
    apply zset_Some_inv in S1. destruct S1 as [Ri ->].
    rewrite gi_notify_ok. unfold core_of; cbn [ha hgen hs].
    destruct (notify i (upd (ha h) (Z.to_nat i) x, hs h)) as [c|p] eqn:En; cbn [lift rbind]; [|reflexivity].
    apply notify_fst in En. cbn [fst] in En.
    assert (Hzc : zlen (fst c) = zlen (ha h)) by (rewrite En; apply zlen_upd).
    rewrite gi_percolateUp_ok; [|apply idx_val; lia|right; cbn [heap_of ha]; lia].
    cbn [heap_of hgen]. rewrite core_heap.
    destruct (up i c) as [c1|p] eqn:Eu; cbn [lift rbind]; [|reflexivity].
    apply up_length in Eu.
    assert (Hz : zlen (fst c1) = zlen (ha h)) by (unfold zlen in *; rewrite Eu; exact Hzc).
    rewrite gi_percolateDown_ok;
      [|cbn [heap_of ha]; apply fits_val; rewrite Hz; lia|apply idx_val; lia].
    cbn [heap_of hgen]. rewrite core_heap.
    destruct (down i c1) as [c2|p]; cbn [lift rbind]; [|reflexivity].
    cbn [heap_of ha hgen hs]. wr. reflexivity.
  Qed.

  (* ---- New ---- *)

  (* the two loop bodies of gi_Heap_New, copied from Generated/ImpHeap.v *)
  Definition new_body1 : heap * Z -> result (ctl (heap * Z) heap) := fun '(h, i) =>
    if (i >=? 0)
    then rbind (gi_Heap_percolateDown less on_index i h) (fun h =>
    let i := (wsub i 1) in
    Ok (CNext (h, i)))
    else Ok (CBreak (h, i)).

  Definition new_body2 (initial0_ : list T) : heap * Z -> result (ctl (heap * Z) heap) := fun '(h, i) =>
    if (i <? zlen initial0_)
    then rbind (gi_Heap_notify on_index i h) (fun h =>
    let i := (i + 1) in
    Ok (CNext (h, i)))
    else Ok (CBreak (h, i)).

  Lemma gi_New_unfold initial s0 :
    gi_Heap_New less on_index initial s0 =
    rbind (goquo (zlen initial) 2) (fun q1_ =>
    rbind (goloop (S (length initial)) new_body1 (mkHeap initial 0 s0, wsub q1_ 1)) (fun c_ =>
    match c_ with
    | CRet r_ => Ok r_
    | CNext (h, i) | CBreak (h, i) =>
        rbind (goloop (S (length initial)) (new_body2 initial) (h, 0)) loop_post
    end)).
  Proof. reflexivity. Qed.

  (* for i := k-1; i >= 0; i-- { percolateDown(i) } is heapify k, and leaves i = -1 *)
  Lemma heapify_loop : forall k m h, (k <= m)%nat -> fits (ha h) -> Z.of_nat k <= 2^61 ->
      goloop (S m) new_body1 (h, Z.of_nat k - 1) =
      match heapify k (core_of h) with
      | Ok c' => Ok (CBreak (heap_of (hgen h) c', -1))
      | Panic p => Panic p
      end.
  Proof.
    induction k as [|k IH]; intros m h Hm Hf Hk; rewrite goloop_S; unfold new_body1 at 1; rewrite Z.geb_leb.
    - cbn [Z.of_nat Z.sub Z.opp Z.add Z.leb Z.compare Model.heapify]. rewrite heap_core. reflexivity.
    - rewrite fits_val in Hf. change (2^61) with 2305843009213693952 in *.
      replace (Z.of_nat (S k) - 1) with (Z.of_nat k) by lia.
      destruct (Z.leb_spec 0 (Z.of_nat k)) as [_|Hneg]; [|lia].
      rewrite gi_percolateDown_ok; [|exact Hf|apply idx_val; lia].
      cbn [Model.heapify]. rb.
      destruct (down (Z.of_nat k) (core_of h)) as [c1|p] eqn:Ed; cbn [lift rbind]; [|reflexivity].
      cbv zeta. wr.
      apply down_length in Ed. cbn [core_of fst] in Ed.
      destruct m as [|m]; [lia|].
      pose proof (IH m (heap_of (hgen h) c1)) as E. cbn [heap_of ha hgen] in E. rewrite core_heap in E.
      apply E; [lia| |lia].
      apply fits_val. unfold zlen in *. rewrite Ed. exact Hf.
  Qed.

  (* for i := range initial { notify(i) } from i, with n = len - i turns left, is notify_loop n i *)
  Lemma notify_loop_ok (initial0_ : list T) : forall n m i h, (n <= m)%nat -> i + Z.of_nat n = zlen initial0_ ->
      goloop (S m) (new_body2 initial0_) (h, i) =
      match notify_loop n i (core_of h) with
      | Ok c' => Ok (CBreak (heap_of (hgen h) c', zlen initial0_))
      | Panic p => Panic p
      end.
  Proof.
    induction n as [|n IH]; intros m i h Hm Hi; rewrite goloop_S; unfold new_body2 at 1.
    - destruct (Z.ltb_spec i (zlen initial0_)) as [H|H]; [lia|].
      cbn [Model.notify_loop]. rewrite heap_core. f_equal. f_equal. f_equal. lia.
    - destruct (Z.ltb_spec i (zlen initial0_)) as [H|H]; [|lia].
      rewrite gi_notify_ok. cbn [Model.notify_loop]. rb.
      destruct (notify i (core_of h)) as [c1|p]; cbn [lift rbind]; [|reflexivity].
      cbv zeta. destruct m as [|m]; [lia|].
      pose proof (IH m (i + 1) (heap_of (hgen h) c1)) as E. cbn [heap_of hgen] in E. rewrite core_heap in E.
      apply E; lia.
  Qed.

  Lemma gi_New_ok initial s0 : zlen initial < 2^61 ->
    gi_Heap_New less on_index initial s0 = new less on_index initial s0.
  Proof.
    change (2^61) with 2305843009213693952. intros Hl. pose proof (zlen_nonneg initial) as Hn.
    rewrite gi_New_unfold. unfold Model.new, goquo. cbn [Z.eqb rbind]. rb.
    assert (Hq : 0 <= Z.quot (zlen initial) 2 <= zlen initial).
    { rewrite Z.quot_div_nonneg by lia. pose proof (Z_div_mod_eq_full (zlen initial) 2).
      pose proof (Z.mod_pos_bound (zlen initial) 2). lia. }
    rewrite wrap64_id by (apply int64_iff; lia). wr.
    replace (Z.quot (zlen initial) 2 - 1) with (Z.of_nat (Z.to_nat (Z.quot (zlen initial) 2)) - 1) by lia.
    rewrite heapify_loop;
      [|unfold zlen in *; lia|apply fits_val; cbn [ha]; lia|change (2^61) with 2305843009213693952; lia].
    unfold core_of. cbn [ha hgen hs].
    destruct (heapify (Z.to_nat (Z.quot (zlen initial) 2)) (initial, s0)) as [c1|p]; cbn [rbind]; [|reflexivity].
    rewrite (notify_loop_ok initial (length initial) (length initial) 0) by (unfold zlen; lia).
    cbn [heap_of hgen]. rewrite core_heap.
    destruct (notify_loop (length initial) 0 c1) as [c2|p]; cbn [rbind loop_post]; reflexivity.
  Qed.

  (* ---- one state: what "the translated source agrees with the model" means ---- *)
  Definition gi_heap_agrees h : Prop :=
    gi_Heap_Len h = Ok (len h) /\
    (forall x, gi_Heap_Push less on_index x h = push less on_index x h) /\
    gi_Heap_Pop zero less on_index h = pop zero less on_index h /\
    gi_Heap_Peek h = peek h /\
    (forall i, gi_Heap_RemoveAt zero less on_index i h = remove_at zero less on_index i h) /\
    (forall i, gi_Heap_Item i h = item i h) /\
    (forall i x, gi_Heap_UpdateAt less on_index i x h = update_at less on_index i x h) /\
    (* the unexported helpers, for every index (in the array or not) *)
    (forall i, gi_Heap_notify on_index i h = lift (hgen h) (notify i (core_of h))) /\
    (forall i j, gi_Heap_less less i j h = less_at (core_of h) i j) /\
    (forall i j, gi_Heap_swap on_index i j h = lift (hgen h) (swap i j (core_of h))) /\
    (forall i, idx i -> (i <= 0 \/ 0 < zlen (ha h)) ->
               gi_Heap_percolateUp less on_index i h = lift (hgen h) (up i (core_of h))) /\
    (forall i, idx i -> gi_Heap_percolateDown less on_index i h = lift (hgen h) (down i (core_of h))).

  Lemma gi_heap_agrees_small h : small h -> gi_heap_agrees h.
  Proof.
    intros Hs. unfold gi_heap_agrees.
    split; [apply gi_Len_ok|].
    split; [intros x; apply gi_Push_ok; exact Hs|].
    split; [apply gi_Pop_ok; exact Hs|].
    split; [apply gi_Peek_ok|].
    split; [intros i; apply gi_RemoveAt_ok; exact Hs|].
    split; [intros i; apply gi_Item_ok|].
    split; [intros i x; apply gi_UpdateAt_ok; exact Hs|].
    split; [intros i; apply gi_notify_ok|].
    split; [intros i j; apply gi_less_ok|].
    split; [intros i j; apply gi_swap_ok|].
    split; [intros i Hi Hn; apply gi_percolateUp_ok; assumption|].
    intros i Hi. apply gi_percolateDown_ok; [|exact Hi].
    apply small_vals in Hs. apply fits_val. lia.
  Qed.
End OK.

(* ---- every state a history reaches (xheap.Heap[int], Heap/Model.v hstep) ---- *)
Section Hist.
  Variable less : Z -> Z -> bool.
  Notation hstep := (hstep less).
  Notation hinit := (hinit less).
  Notation hrun_state := (hrun_state less).
  Notation hrun_state_from := (hrun_state_from less).

  Lemma perm_zlen {A} (l l' : list A) : Permutation l l' -> zlen l = zlen l'.
  Proof. intros H. apply Permutation_length in H. unfold zlen. lia. Qed.

  (* one operation: the length grows by at most one, so does the generation *)
  Lemma hstep_bound s o :
    zlen (ha (hh (fst (hstep s o)))) <= zlen (ha (hh s)) + 1 /\
    hgen (hh (fst (hstep s o))) <= hgen (hh s) + 1.
  Proof.
    destruct o;
      try (rewrite hstep_hh_same by exact I; lia).
    - destruct (hstep_push less s x) as [h' [E [Hg [Hp _]]]]. rewrite E. cbn [fst hh].
      apply perm_zlen in Hp. rewrite zlen_cons in Hp. lia.
    - destruct (zget (ha (hh s)) 0) as [x|] eqn:E0.
      + destruct (hstep_pop less s x E0) as [h' [E [Hg [Hp _]]]]. rewrite E. cbn [fst hh].
        apply perm_zlen in Hp. rewrite zlen_cons in Hp. lia.
      + apply zget0_nil in E0. rewrite hstep_pop_empty by exact E0. cbn [fst]. lia.
  Qed.

  Lemma hrun_bound ops : forall s,
    zlen (ha (hh (hrun_state_from s ops))) <= zlen (ha (hh s)) + Z.of_nat (length ops) /\
    hgen (hh (hrun_state_from s ops)) <= hgen (hh s) + Z.of_nat (length ops).
  Proof.
    induction ops as [|o ops IH]; intros s; cbn [Model.hrun_state_from length]; [lia|].
    specialize (IH (fst (hstep s o))). pose proof (hstep_bound s o). lia.
  Qed.

  Theorem small_on_histories initial ops :
    zlen initial < 2^60 -> Z.of_nat (length ops) < 2^60 -> small (hh (hrun_state initial ops)).
  Proof.
    change (2^60) with 1152921504606846976. intros Hi Ho.
    unfold small. change (2^61) with 2305843009213693952. change (2^62) with 4611686018427387904.
    destruct (hgen_inv_reach less initial ops) as [Hg0 _].
    pose proof (hrun_bound ops (hinit initial)) as [Hl Hg]. fold (hrun_state initial ops) in Hl, Hg.
    destruct (hinit_eq less initial) as [h0 [_ [E [G0 [Hp _]]]]]. rewrite E in Hl, Hg. cbn [hh] in Hl, Hg.
    apply perm_zlen in Hp. lia.
  Qed.

  (* after EVERY history of fewer than 2^60 calls on a heap built from fewer than 2^60 items, every method of
     the translated source returns the result, panics with the class, and leaves the state that the model's
     function does *)
  Theorem translated_heap_agrees_on_histories : forall initial ops,
      zlen initial < 2^60 -> Z.of_nat (length ops) < 2^60 ->
      gi_heap_agrees 0 less no_index (hh (hrun_state initial ops)).
  Proof.
    intros initial ops Hi Ho. apply gi_heap_agrees_small. apply small_on_histories; assumption.
  Qed.

  (* and the history starts where the translated New leaves it *)
  Theorem translated_heap_new_agrees : forall initial,
      zlen initial < 2^60 -> gi_Heap_New less no_index initial tt = hnew less initial.
  Proof.
    intros initial Hi. unfold hnew. apply gi_New_ok.
    change (2^60) with 1152921504606846976 in Hi. change (2^61) with 2305843009213693952. lia.
  Qed.
End Hist.
