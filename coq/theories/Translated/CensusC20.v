(* The synchronisation census (see tools/gofacts/census.go) that the model Conc/XTime.v was written against:
   per transcribed Go function, the bag of channel operations, select arms, goroutine starts, timer/context/
   sync/atomic calls in its body. Generated/Census.v is re-extracted from the Go source on every run; a function
   that gains or loses such an operation no longer matches, and the obligation below fails: the model then has
   to be re-read against the new code (and this record updated by hand or tools/mkcensus_expected.py). *)
From Coq Require Import String List ZArith.
From Juniper Require Import Generated.Census.
Import ListNotations.
Open Scope string_scope.
Open Scope Z_scope.

(* xtime/xtime.go: func SleepContext *)
Lemma census_C20_xtime_xtime_SleepContext_ok : census_C20_xtime_xtime_SleepContext =
  [("arm:recv", 2);
   ("call:.Done", 1);
   ("call:.Err", 1);
   ("call:.Stop", 1);
   ("call:time.NewTimer", 1);
   ("call:time.Until", 1);
   ("select", 1)].
Proof. reflexivity. Qed.

(* xtime/xtime.go: func NewJitterTicker *)
Lemma census_C20_xtime_xtime_NewJitterTicker_ok : census_C20_xtime_xtime_NewJitterTicker =
  [("call:.Lock", 1);
   ("call:.Unlock", 1);
   ("makechan", 1)].
Proof. reflexivity. Qed.

(* xtime/xtime.go: func (JitterTicker) schedule *)
Lemma census_C20_xtime_xtime_JitterTicker_schedule_ok : census_C20_xtime_xtime_JitterTicker_schedule =
  [("arm:default", 1);
   ("arm:send", 1);
   ("call:.Lock", 1);
   ("call:.Stop", 1);
   ("call:.Unlock", 1);
   ("call:time.AfterFunc", 1);
   ("call:time.Duration", 1);
   ("call:time.Now", 1);
   ("select", 1)].
Proof. reflexivity. Qed.

(* xtime/xtime.go: func (JitterTicker) Reset *)
Lemma census_C20_xtime_xtime_JitterTicker_Reset_ok : census_C20_xtime_xtime_JitterTicker_Reset =
  [("call:.Lock", 1);
   ("call:.Unlock", 1)].
Proof. reflexivity. Qed.

(* xtime/xtime.go: func (JitterTicker) Stop *)
Lemma census_C20_xtime_xtime_JitterTicker_Stop_ok : census_C20_xtime_xtime_JitterTicker_Stop =
  [("call:.Lock", 1);
   ("call:.Stop", 1);
   ("call:.Unlock", 1)].
Proof. reflexivity. Qed.

Definition census_expected_C20 : Prop :=
  census_C20_xtime_xtime_SleepContext =
  [("arm:recv", 2);
   ("call:.Done", 1);
   ("call:.Err", 1);
   ("call:.Stop", 1);
   ("call:time.NewTimer", 1);
   ("call:time.Until", 1);
   ("select", 1)]
  /\ census_C20_xtime_xtime_NewJitterTicker =
  [("call:.Lock", 1);
   ("call:.Unlock", 1);
   ("makechan", 1)]
  /\ census_C20_xtime_xtime_JitterTicker_schedule =
  [("arm:default", 1);
   ("arm:send", 1);
   ("call:.Lock", 1);
   ("call:.Stop", 1);
   ("call:.Unlock", 1);
   ("call:time.AfterFunc", 1);
   ("call:time.Duration", 1);
   ("call:time.Now", 1);
   ("select", 1)]
  /\ census_C20_xtime_xtime_JitterTicker_Reset =
  [("call:.Lock", 1);
   ("call:.Unlock", 1)]
  /\ census_C20_xtime_xtime_JitterTicker_Stop =
  [("call:.Lock", 1);
   ("call:.Stop", 1);
   ("call:.Unlock", 1)].

Lemma census_C20_ok : census_expected_C20.
Proof. unfold census_expected_C20. repeat split; reflexivity. Qed.
