(* The statement-level translation of container/deque/deque.go (Generated/ImpDeque.v, regenerated from the Go
   source on every run by tools/gofacts/imp.go) computes, on every well-formed deque, exactly what the hand-written
   model Deque/Model.v computes: same result, same panic class, same new state.  Together with
   Deque.Proofs.reach_inv (every state reachable from the zero value is well formed) this carries the theorems of
   C04/C15 from the model to the translated source.  The translated code wraps EVERY int operation at 64 bits;
   the model wraps only where C04 depends on it: these lemmas are also the proof that the other wraps cannot
   happen.  Stdlib only; no axioms. *)
From Coq Require Import ZifyBool.
From Juniper Require Import Common.Base Deque.Model Deque.Spec Deque.Proofs Translated.GoImp Generated.Params Generated.ImpDeque.
Open Scope Z_scope.

(* iterator generations below 2^62: a history would need 2^61 operations to get there *)
Definition genok {T} (d : deque T) : Prop := 0 <= gen d < 2^62.

Ltac wr1 :=
  match goal with
  | |- context [wadd ?a ?b] => rewrite (wadd_id a b) by (apply int64_iff; lia)
  | |- context [wsub ?a ?b] => rewrite (wsub_id a b) by (apply int64_iff; lia)
  | |- context [wmul ?a ?b] => rewrite (wmul_id a b) by (apply int64_iff; lia)
  end.
Ltac wr := change (wneg 1) with (-1) in *; repeat wr1.
(* the buffer of a record rebuilt around the same slice *)
Ltac sbuf :=
  repeat match goal with
  | |- context [buf (mkDeque (arr ?d) ?f ?b ?g)] => change (buf (mkDeque (arr d) f b g)) with (buf d)
  | |- context [buf (mkDeque (Some ?l) ?f ?b ?g)] => change (buf (mkDeque (Some l) f b g)) with l
  end.

Lemma alloc_max_val : alloc_max = 140737488355328.
Proof. reflexivity. Qed.

Section ListFacts.
  Context {A : Type}.
  Lemma firstn_repeat (z : A) k m : (k <= m)%nat -> firstn k (repeat z m) = repeat z k.
  Proof.
    revert m; induction k as [|k IH]; intros [|m] H; simpl; try reflexivity; try lia.
    f_equal. apply IH. lia.
  Qed.
  Lemma skipn_repeat (z : A) k m : (k <= m)%nat -> skipn k (repeat z m) = repeat z (m - k).
  Proof.
    revert m; induction k as [|k IH]; intros [|m] H; simpl; try reflexivity; try lia.
    apply IH. lia.
  Qed.
  (* firstn k (s ++ z^m) = s ++ z^(k-|s|) when |s| <= k <= |s| + m *)
  Lemma firstn_app_repeat (z : A) s k m :
    (length s <= k)%nat -> (k <= length s + m)%nat ->
    firstn k (s ++ repeat z m) = s ++ repeat z (k - length s).
  Proof.
    intros H1 H2. rewrite firstn_app, firstn_all2 by lia. f_equal. apply firstn_repeat. lia.
  Qed.
End ListFacts.

Section OK.
  Context {T : Type} (zero : T) (minSize : Z).
  Hypothesis Hmin : 1 <= minSize <= alloc_max.
  Notation deque := (deque T).
  Implicit Types d : deque.

  Lemma wf_ranges d : wf d -> capok d ->
    0 <= cap d <= alloc_max /\ -1 <= back d < Z.max 1 (cap d) /\ 0 <= front d < Z.max 1 (cap d) /\
    0 <= len d <= cap d.
  Proof.
    intros Hwf Hc. pose proof (wf_cases d Hwf) as H. pose proof (cap_nonneg d) as Hn.
    unfold capok in Hc. lia.
  Qed.

  Lemma gi_Len_ok d : wf d -> capok d -> gi_Deque_Len d = Ok (len d).
  Proof.
    intros Hwf Hc. pose proof (wf_cases d Hwf) as H. pose proof (wf_ranges d Hwf Hc) as R.
    rewrite alloc_max_val in R.
    unfold gi_Deque_Len, len. change (wneg 1) with (-1). fold (cap d).
    destruct (isnil d || (back d =? -1)) eqn:E; [reflexivity|].
    assert (back d <> -1) by (destruct (isnil d); cbn in E; [discriminate|lia]).
    destruct (front d <=? back d) eqn:E2; wr; reflexivity.
  Qed.

  (* Len has no side effect and never panics: the translator may evaluate it early (flag safe) *)
  Lemma gi_Deque_Len_safe d : exists v, gi_Deque_Len d = Ok v.
  Proof.
    unfold gi_Deque_Len.
    destruct (isnil d || (back d =? wneg 1)); [eauto|]. destruct (front d <=? back d); eauto.
  Qed.

  Lemma gi_positiveMod_ok l m : m <> 0 -> int64 (Z.rem l m + m) ->
    gi_positiveMod l m = Ok (positive_mod l m).
  Proof.
    intros Hm Hr. unfold gi_positiveMod, positive_mod, gorem, rbind.
    destruct (Z.eqb_spec m 0) as [E|E]; [contradiction|]. cbv zeta.
    destruct (Z.rem l m <? 0); [|reflexivity]. rewrite wadd_id by exact Hr. reflexivity.
  Qed.

  Lemma zslice_full (l : list T) : zslice l 0 (zlen l) = l.
  Proof. unfold zslice, zlen. rewrite Z.sub_0_r, Nat2Z.id. cbn [Z.to_nat skipn]. apply firstn_all. Qed.

  Lemma goslice_ok (l : list T) lo hi : 0 <= lo <= hi -> hi <= zlen l -> goslice l lo hi = Ok (zslice l lo hi).
  Proof.
    intros H1 H2. unfold goslice.
    destruct (0 <=? lo) eqn:E1; [|lia]. destruct (lo <=? hi) eqn:E2; [|lia].
    destruct (hi <=? zlen l) eqn:E3; [|lia]. reflexivity.
  Qed.

  Lemma zrepeat_len n : 0 <= n -> length (zrepeat zero n) = Z.to_nat n.
  Proof. intros; unfold zrepeat; apply repeat_length. Qed.

  (* the second copy of the wrapped case: copy(newA[len(s4):], s5) after copy(newA, s4) *)
  Lemma gocopy_two (s4 s5 : list T) n :
    0 <= n -> zlen s4 + zlen s5 <= n ->
    gocopy_at (gocopy (zrepeat zero n) s4) (zlen s4) s5 =
    Ok (firstn (Z.to_nat n) ((s4 ++ s5) ++ zrepeat zero n)).
  Proof.
    intros Hn Hl. pose proof (zlen_nonneg s4) as H4. pose proof (zlen_nonneg s5) as H5.
    rewrite gocopy_zeros by exact Hn. unfold zrepeat, zlen in *.
    rewrite firstn_app_repeat by lia.
    unfold gocopy_at.
    assert (E : zlen (s4 ++ repeat zero (Z.to_nat n - length s4)) = n).
    { unfold zlen. rewrite app_length, repeat_length. lia. }
    rewrite E.
    destruct (0 <=? Z.of_nat (length s4)) eqn:E1; [|lia].
    destruct (Z.of_nat (length s4) <=? n) eqn:E2; [|lia]. cbn [andb]. f_equal.
    rewrite Nat2Z.id.
    rewrite firstn_app, firstn_all, Nat.sub_diag, firstn_O, app_nil_r.
    rewrite skipn_app, skipn_all, Nat.sub_diag. cbn [skipn app].
    unfold gocopy. rewrite repeat_length.
    rewrite (firstn_all2 s5) by lia.
    rewrite skipn_repeat by lia.
    rewrite <- app_assoc. rewrite firstn_app, (firstn_all2 s4) by lia. f_equal.
    rewrite firstn_app_repeat by lia. reflexivity.
  Qed.

  Lemma gi_resize_ok n d : wf d -> capok d -> genok d -> len d <= n ->
    gi_Deque_resize zero n d = resize zero n d.
  Proof.
    intros Hwf Hc Hg Hn. pose proof (wf_cases d Hwf) as H. pose proof (wf_ranges d Hwf Hc) as R.
    rewrite alloc_max_val in R. unfold genok in Hg. change (2^62) with 4611686018427387904 in Hg.
    unfold gi_Deque_resize, resize. rewrite gi_Len_ok by assumption. cbn [rbind].
    unfold gomake. destruct (make_ok n) eqn:Hmk; cbn [negb rbind]; [|reflexivity].
    apply make_ok_iff in Hmk. rewrite alloc_max_val in Hmk.
    unfold window. change (wneg 1) with (-1). fold (cap d).
    destruct (isnil d || (back d =? -1)) eqn:E; cbn [negb rbind].
    - cbn [arr front back gen]. wr. f_equal. f_equal. f_equal.
      cbn [app]. unfold zrepeat. symmetry. apply firstn_all2. rewrite repeat_length. lia.
    - assert (Hb : back d <> -1) by (destruct (isnil d); cbn in E; [discriminate|lia]).
      destruct (front d <=? back d) eqn:E2.
      + wr. rewrite goslice_ok by (fold (cap d); lia). cbn [rbind arr front back gen]. wr.
        rewrite gocopy_zeros by lia. reflexivity.
      + wr. rewrite goslice_ok by (fold (cap d); lia). cbn [rbind].
        rewrite goslice_ok by (fold (cap d); lia). cbn [rbind].
        pose proof (zlen_zslice (buf d) (front d) (cap d)) as L4.
        pose proof (zlen_zslice (buf d) 0 (back d + 1)) as L5. fold (cap d) in L4, L5.
        replace (cap d - front d) with (zlen (zslice (buf d) (front d) (cap d))) by lia.
        rewrite gocopy_two by lia. cbn [rbind arr front back gen]. wr. reflexivity.
  Qed.

  Lemma rbind_ret {A} (r : result A) : rbind r (fun x => Ok x) = r.
  Proof. destruct r; reflexivity. Qed.

  (* resize for any requested length: make fails, or the request covers the contents *)
  Lemma gi_resize_any n d : wf d -> capok d -> genok d -> (make_ok n = true -> len d <= n) ->
    gi_Deque_resize zero n d = resize zero n d.
  Proof.
    intros Hwf Hc Hg Hn. destruct (make_ok n) eqn:Hmk.
    - apply gi_resize_ok; auto.
    - unfold gi_Deque_resize, resize. rewrite gi_Len_ok by assumption. cbn [rbind].
      unfold gomake. rewrite Hmk. reflexivity.
  Qed.

  Lemma resize_post n d d' : wf d -> len d <= n -> resize zero n d = Ok d' ->
    wf d' /\ capok d' /\ cap d' = n /\ gen d' = gen d + 1 /\ len d' = len d.
  Proof.
    intros Hwf Hn Hr. destruct (make_ok n) eqn:Hmk.
    - destruct (resize_ok zero n d Hwf Hn Hmk) as (d1 & E & W & _ & _ & L & C & G).
      rewrite Hr in E. injection E as <-. apply make_ok_iff in Hmk. unfold capok. repeat split; try assumption; lia.
    - rewrite (resize_fail zero n d Hmk) in Hr. discriminate.
  Qed.

  Notation maybe_expand := (maybe_expand zero minSize deque_growMul).

  Lemma gi_maybeExpand_ok d : wf d -> capok d -> genok d ->
    gi_Deque_maybeExpand zero minSize d = maybe_expand d.
  Proof.
    intros Hwf Hc Hg. pose proof (wf_ranges d Hwf Hc) as R. rewrite alloc_max_val in R, Hmin.
    unfold gi_Deque_maybeExpand, Model.maybe_expand. rewrite gi_Len_ok by assumption. cbn [rbind].
    rewrite rbind_ret. fold (cap d). destruct (len d =? cap d); [|reflexivity].
    rewrite rbind_ret. unfold wmul, deque_growMul. apply gi_resize_any; auto.
    intros _. rewrite wrap64_small by lia. lia.
  Qed.

  Lemma maybe_expand_post d d' : wf d -> capok d -> maybe_expand d = Ok d' ->
    wf d' /\ capok d' /\ gen d <= gen d' <= gen d + 1 /\ len d' = len d /\ 0 < cap d'.
  Proof.
    intros Hwf Hc. pose proof (wf_ranges d Hwf Hc) as R. rewrite alloc_max_val in R, Hmin.
    unfold Model.maybe_expand, deque_growMul. destruct (Z.eqb_spec (len d) (cap d)) as [E|E].
    - intros Hr. apply resize_post in Hr; [|assumption|rewrite wrap64_small by lia; lia].
      destruct Hr as (W & C & Cp & G & L). rewrite wrap64_small in Cp by lia.
      repeat split; try assumption; lia.
    - intros E'. injection E' as <-. repeat split; try assumption; lia.
  Qed.

  Lemma gi_Grow_ok n d : wf d -> capok d -> genok d -> int64 n ->
    gi_Deque_Grow zero n d = grow zero n d.
  Proof.
    intros Hwf Hc Hg Hn. pose proof (wf_ranges d Hwf Hc) as R. rewrite alloc_max_val in R.
    unfold int64 in Hn; change (2^63) with 9223372036854775808 in Hn.
    unfold gi_Deque_Grow, grow. rewrite gi_Len_ok by assumption. cbn [rbind]. cbv zeta.
    rewrite rbind_ret. fold (cap d). rewrite (wrap64_small n) by lia. wr.
    destruct (Z.ltb_spec (cap d - len d) n) as [Hlt|Hge]; [|reflexivity].
    rewrite rbind_ret. unfold wadd. apply gi_resize_any; auto.
    intros Hmk. apply make_ok_iff in Hmk. rewrite alloc_max_val in Hmk.
    destruct (Z_lt_le_dec (cap d + n) 9223372036854775808) as [Hs|Hb].
    - rewrite wrap64_small in * by lia. lia.
    - rewrite wrap64_high in Hmk by lia. lia.
  Qed.

  Lemma gi_Shrink_ok n d : wf d -> capok d -> genok d -> int64 n ->
    gi_Deque_Shrink zero n d = shrink zero n d.
  Proof.
    intros Hwf Hc Hg Hn. pose proof (wf_ranges d Hwf Hc) as R. rewrite alloc_max_val in R.
    unfold int64 in Hn; change (2^63) with 9223372036854775808 in Hn.
    unfold gi_Deque_Shrink, shrink. destruct (Z.ltb_spec n 0) as [Hneg|Hpos]; [reflexivity|].
    rewrite gi_Len_ok by assumption. cbn [rbind]. rewrite rbind_ret. fold (cap d). wr.
    rewrite Z.gtb_ltb. destruct (Z.ltb_spec n (cap d - len d)) as [Hlt|Hge]; [|reflexivity].
    rewrite rbind_ret. unfold wadd. apply gi_resize_any; auto.
    intros _. rewrite wrap64_small by lia. lia.
  Qed.

  Lemma zget_zset_some {A} (l : list A) i x y : zget l i = Some x -> zset l i y = Some (upd l (Z.to_nat i) y).
  Proof. intros H. apply zset_ok. eapply zget_Some_range; eauto. Qed.
  Lemma zget_zset_none {A} (l : list A) i y : zget l i = None -> zset l i y = None.
  Proof. intros H. apply zset_none. apply zget_none_inv. exact H. Qed.

  Notation push_front := (push_front zero minSize deque_growMul).
  Notation push_back := (push_back zero minSize deque_growMul).

  Lemma gi_PushFront_ok x d : wf d -> capok d -> genok d ->
    gi_Deque_PushFront zero minSize x d = push_front x d.
  Proof.
    intros Hwf Hc Hg. unfold gi_Deque_PushFront, Model.push_front.
    rewrite gi_maybeExpand_ok by assumption.
    destruct (maybe_expand d) as [d'|c] eqn:E; cbn [rbind]; [|reflexivity].
    destruct (maybe_expand_post d d' Hwf Hc E) as (W & C & G & L & P).
    pose proof (wf_ranges d' W C) as R. rewrite alloc_max_val in R.
    unfold genok in Hg. change (2^62) with 4611686018427387904 in Hg.
    fold (cap d'). destruct (Z.eqb_spec (cap d') 0) as [Z0|NZ]; [lia|]. wr.
    rewrite gi_positiveMod_ok;
      [|exact NZ|apply int64_iff; pose proof (Z.rem_bound_abs (front d' - 1) (cap d') NZ); lia].
    cbn [rbind]. cbv zeta. sbuf. cbn [arr front back gen].
    unfold goset. destruct (zset (buf d') (positive_mod (front d' - 1) (cap d')) x) as [l|]; cbn [rbind]; [|reflexivity].
    destruct (back d' =? -1); cbn [rbind arr front back gen]; wr; reflexivity.
  Qed.

  Lemma gi_PushBack_ok x d : wf d -> capok d -> genok d ->
    gi_Deque_PushBack zero minSize x d = push_back x d.
  Proof.
    intros Hwf Hc Hg. unfold gi_Deque_PushBack, Model.push_back.
    rewrite gi_maybeExpand_ok by assumption.
    destruct (maybe_expand d) as [d'|c] eqn:E; cbn [rbind]; [|reflexivity].
    destruct (maybe_expand_post d d' Hwf Hc E) as (W & C & G & L & P).
    pose proof (wf_ranges d' W C) as R. rewrite alloc_max_val in R.
    unfold genok in Hg. change (2^62) with 4611686018427387904 in Hg.
    fold (cap d'). destruct (Z.eqb_spec (cap d') 0) as [Z0|NZ]; [lia|]. change (wneg 1) with (-1).
    destruct (back d' =? -1); cbn [rbind]; sbuf; cbn [arr front back gen].
    - unfold goset. destruct (zset (buf d') (front d') x) as [l|]; cbn [rbind arr front back gen]; wr; reflexivity.
    - unfold gorem. destruct (Z.eqb_spec (cap d') 0) as [Z0|_]; [lia|]. cbn [rbind]. sbuf. cbn [arr front back gen]. wr.
      unfold goset. destruct (zset (buf d') (Z.rem (back d' + 1) (cap d')) x) as [l|]; cbn [rbind arr front back gen]; wr; reflexivity.
  Qed.

  Lemma gi_PopFront_ok d : wf d -> capok d -> genok d -> gi_Deque_PopFront zero d = pop_front zero d.
  Proof.
    intros Hwf Hc Hg. pose proof (wf_ranges d Hwf Hc) as R. rewrite alloc_max_val in R.
    unfold genok in Hg. change (2^62) with 4611686018427387904 in Hg.
    unfold gi_Deque_PopFront, pop_front. rewrite gi_Len_ok by assumption. cbn [rbind]. cbv zeta.
    destruct (len d =? 0); [reflexivity|]. unfold goget.
    destruct (zget (buf d) (front d)) as [it|] eqn:G; cbn [rbind].
    - pose proof (zget_Some_range _ _ _ G) as Rg. fold (cap d) in Rg.
      unfold goset. rewrite (zget_zset_some _ _ _ zero G). cbn [rbind]. sbuf. cbn [arr front back gen]. rewrite ?zlen_upd.
      change (wneg 1) with (-1). destruct (len d =? 1); wr; [reflexivity|].
      unfold gorem. fold (cap d). destruct (Z.eqb_spec (cap d) 0) as [Z0|_]; [lia|].
      cbn [rbind arr front back gen]. wr. reflexivity.
    - reflexivity.
  Qed.

  Lemma gi_PopBack_ok d : wf d -> capok d -> genok d -> gi_Deque_PopBack zero d = pop_back zero d.
  Proof.
    intros Hwf Hc Hg. pose proof (wf_ranges d Hwf Hc) as R. rewrite alloc_max_val in R.
    unfold genok in Hg. change (2^62) with 4611686018427387904 in Hg.
    unfold gi_Deque_PopBack, pop_back. rewrite gi_Len_ok by assumption. cbn [rbind]. cbv zeta.
    destruct (len d =? 0); [reflexivity|]. unfold goget.
    destruct (zget (buf d) (back d)) as [it|] eqn:G; cbn [rbind].
    - pose proof (zget_Some_range _ _ _ G) as Rg. fold (cap d) in Rg.
      unfold goset. rewrite (zget_zset_some _ _ _ zero G). cbn [rbind]. sbuf. cbn [arr front back gen]. rewrite ?zlen_upd.
      change (wneg 1) with (-1). destruct (len d =? 1); wr; [reflexivity|].
      fold (cap d). rewrite gi_positiveMod_ok;
        [|lia|apply int64_iff; assert (NZ : cap d <> 0) by lia; pose proof (Z.rem_bound_abs (back d - 1) (cap d) NZ); lia].
      cbn [rbind arr front back gen]. wr. reflexivity.
    - reflexivity.
  Qed.

  Lemma gi_Front_ok d : gi_Deque_Front d = peek_front d.
  Proof.
    unfold gi_Deque_Front, peek_front. change (wneg 1) with (-1). destruct (back d =? -1); [reflexivity|].
    rewrite rbind_ret. reflexivity.
  Qed.

  Lemma gi_Back_ok d : gi_Deque_Back d = peek_back d.
  Proof. unfold gi_Deque_Back, peek_back. rewrite rbind_ret. reflexivity. Qed.

  Lemma gi_Item_ok i d : wf d -> capok d -> gi_Deque_Item i d = item i d.
  Proof.
    intros Hwf Hc. pose proof (wf_ranges d Hwf Hc) as R. rewrite alloc_max_val in R.
    unfold gi_Deque_Item, item. rewrite gi_Len_ok by assumption. cbn [rbind]. rewrite Z.geb_leb.
    destruct (Z.ltb_spec i 0) as [Hn|Hn]; cbn [orb]; [reflexivity|].
    destruct (Z.leb_spec (len d) i) as [Hl|Hl]; [reflexivity|].
    unfold gorem. fold (cap d). destruct (Z.eqb_spec (cap d) 0) as [Z0|_]; [lia|]. cbn [rbind]. cbv zeta.
    rewrite rbind_ret. wr. reflexivity.
  Qed.

  Lemma gi_Set_ok i x d : wf d -> capok d -> genok d -> gi_Deque_Set i x d = set i x d.
  Proof.
    intros Hwf Hc Hg. pose proof (wf_ranges d Hwf Hc) as R. rewrite alloc_max_val in R.
    unfold genok in Hg. change (2^62) with 4611686018427387904 in Hg.
    unfold gi_Deque_Set, set. rewrite gi_Len_ok by assumption. cbn [rbind]. rewrite Z.geb_leb.
    destruct (Z.ltb_spec i 0) as [Hn|Hn]; cbn [orb]; [reflexivity|].
    destruct (Z.leb_spec (len d) i) as [Hl|Hl]; [reflexivity|].
    unfold gorem. fold (cap d). destruct (Z.eqb_spec (cap d) 0) as [Z0|_]; [lia|]. cbn [rbind]. cbv zeta. wr.
    unfold goset. destruct (zset (buf d) (Z.rem (front d + i) (cap d)) x) as [l|]; cbn [rbind arr front back gen]; wr; reflexivity.
  Qed.

  (* Next returns (zero, false) at the end; the model returns None *)
  Definition lift_next (r : result (option T) * Model.iter) : result ((T * bool) * Model.iter) :=
    match r with
    | (Panic c, _) => Panic c
    | (Ok None, it) => Ok ((zero, false), it)
    | (Ok (Some x), it) => Ok ((x, true), it)
    end.

  Lemma gi_Next_ok d it : wf d -> capok d ->
    gi_dequeIterator_Next zero d it = lift_next (iter_next d it).
  Proof.
    intros Hwf Hc. pose proof (wf_ranges d Hwf Hc) as R. rewrite alloc_max_val in R.
    unfold gi_dequeIterator_Next, iter_next, lift_next.
    destruct (negb (it_gen it =? gen d)); [reflexivity|].
    rewrite gi_Len_ok by assumption. cbn [rbind].
    destruct (len d =? 0); [reflexivity|]. destruct (it_done it) eqn:Dn; [reflexivity|].
    unfold goget. destruct (zget (buf d) (it_i it)) as [x|] eqn:G; cbn [rbind]; [|reflexivity].
    pose proof (zget_Some_range _ _ _ G) as Rg. fold (cap d) in Rg. cbv zeta.
    destruct (it_i it =? back d); cbn [rbind it_i it_done it_gen];
      unfold gorem; fold (cap d); (destruct (Z.eqb_spec (cap d) 0) as [Z0|_]; [lia|]);
      cbn [rbind it_i it_done it_gen]; wr; rewrite ?Dn; reflexivity.
  Qed.

  (* ---- every state a history reaches ---- *)
  Notation step := (step zero minSize deque_growMul).
  Notation run_state := (run_state zero minSize deque_growMul).

  Ltac inv_res :=
    repeat match goal with
           | H : Ok _ = Ok _ |- _ => injection H as H; try subst
           | H : Panic _ = Ok _ |- _ => discriminate H
           | H : (if ?c then _ else _) = Ok _ |- _ => destruct c
           | H : match ?x with _ => _ end = Ok _ |- _ => destruct x eqn:?
           end.

  Lemma resize_gen n d d' : resize zero n d = Ok d' -> gen d' = gen d + 1.
  Proof. unfold resize. intros H. inv_res. reflexivity. Qed.

  Lemma maybe_expand_gen d d' : maybe_expand d = Ok d' -> gen d' <= gen d + 1.
  Proof.
    unfold Model.maybe_expand. destruct (len d =? cap d); intros H.
    - apply resize_gen in H. lia.
    - inv_res. lia.
  Qed.

  Lemma step_gen_le s o : gen (sd (fst (step s o))) <= gen (sd s) + 2.
  Proof.
    destruct s as [d its]. destruct o; cbn [Model.step sd sits fst].
    - destruct (push_front x d) as [d'|c] eqn:E; cbn [fst sd]; [|lia].
      unfold Model.push_front in E. destruct (maybe_expand d) as [d1|] eqn:E1; [|discriminate].
      apply maybe_expand_gen in E1. inv_res. cbn [gen]. lia.
    - destruct (push_back x d) as [d'|c] eqn:E; cbn [fst sd]; [|lia].
      unfold Model.push_back in E. destruct (maybe_expand d) as [d1|] eqn:E1; [|discriminate].
      apply maybe_expand_gen in E1. inv_res. cbn [gen]. lia.
    - destruct (pop_front zero d) as [[x d']|c] eqn:E; cbn [fst sd]; [|lia].
      unfold pop_front in E. inv_res; cbn [gen]; lia.
    - destruct (pop_back zero d) as [[x d']|c] eqn:E; cbn [fst sd]; [|lia].
      unfold pop_back in E. inv_res; cbn [gen]; lia.
    - destruct (peek_front d); cbn [fst sd]; lia.
    - destruct (peek_back d); cbn [fst sd]; lia.
    - destruct (item i d); cbn [fst sd]; lia.
    - destruct (set i x d) as [d'|c] eqn:E; cbn [fst sd]; [|lia].
      unfold set in E. inv_res; cbn [gen]; lia.
    - cbn [fst sd]. lia.
    - destruct (grow zero n d) as [d'|c] eqn:E; cbn [fst sd]; [|lia].
      unfold grow in E. cbv zeta in E. destruct (cap d - len d <? wrap64 n).
      + apply resize_gen in E. lia.
      + inv_res. lia.
    - destruct (shrink zero n d) as [d'|c] eqn:E; cbn [fst sd]; [|lia].
      unfold shrink in E. destruct (n <? 0); [discriminate|]. destruct (n <? cap d - len d).
      + apply resize_gen in E. lia.
      + inv_res. lia.
    - destruct (drain _ _ _) as [[l|c]|]; cbn [fst sd]; lia.
    - cbn [fst sd]. lia.
    - destruct (nth_error its j) as [it|]; cbn [fst sd]; [|lia].
      destruct (iter_next d it). cbn [fst sd]. lia.
  Qed.

  Lemma run_gen_le ops : forall s, gen (sd (run_state s ops)) <= gen (sd s) + 2 * Z.of_nat (length ops).
  Proof.
    induction ops as [|o ops IH]; intros s; cbn [Model.run_state length]; [lia|].
    specialize (IH (fst (step s o))). pose proof (step_gen_le s o). lia.
  Qed.

  (* what "the translated source agrees with the model" means in one state *)
  Definition gi_agrees (d : deque) : Prop :=
    gi_Deque_Len d = Ok (len d) /\
    (forall x, gi_Deque_PushFront zero minSize x d = push_front x d) /\
    (forall x, gi_Deque_PushBack zero minSize x d = push_back x d) /\
    gi_Deque_PopFront zero d = pop_front zero d /\
    gi_Deque_PopBack zero d = pop_back zero d /\
    gi_Deque_Front d = peek_front d /\
    gi_Deque_Back d = peek_back d /\
    (forall i, gi_Deque_Item i d = item i d) /\
    (forall i x, gi_Deque_Set i x d = set i x d) /\
    (forall n, int64 n -> gi_Deque_Grow zero n d = grow zero n d) /\
    (forall n, int64 n -> gi_Deque_Shrink zero n d = shrink zero n d) /\
    (forall it, gi_dequeIterator_Next zero d it = lift_next (iter_next d it)).

  Lemma gi_agrees_wf d : wf d -> capok d -> genok d -> gi_agrees d.
  Proof.
    intros Hwf Hc Hg. unfold gi_agrees.
    split; [apply gi_Len_ok; assumption|].
    split; [intros x; apply gi_PushFront_ok; assumption|].
    split; [intros x; apply gi_PushBack_ok; assumption|].
    split; [apply gi_PopFront_ok; assumption|].
    split; [apply gi_PopBack_ok; assumption|].
    split; [apply gi_Front_ok|].
    split; [apply gi_Back_ok|].
    split; [intros i; apply gi_Item_ok; assumption|].
    split; [intros i x; apply gi_Set_ok; assumption|].
    split; [intros n Hn; apply gi_Grow_ok; assumption|].
    split; [intros n Hn; apply gi_Shrink_ok; assumption|].
    intros it; apply gi_Next_ok; assumption.
  Qed.

  Lemma growMul_ok : 2 <= deque_growMul <= 32768.
  Proof. unfold deque_growMul; lia. Qed.

  (* after EVERY history of fewer than 2^60 calls from the zero value (any mix of operations, failed
     allocations and live iterators included), every method of the translated source returns the result,
     panics with the class, and leaves the state that the model's function does *)
  Theorem translated_agrees_on_histories : forall ops,
      Z.of_nat (length ops) < 2^60 -> gi_agrees (sd (run_state st0 ops)).
  Proof.
    intros ops Hl. change (2^60) with 1152921504606846976 in Hl.
    destruct (reach_inv zero minSize deque_growMul (proj1 Hmin) growMul_ok ops) as (Hwf & _ & Hc & _).
    apply gi_agrees_wf; [exact Hwf|exact Hc|].
    unfold genok. change (2^62) with 4611686018427387904.
    pose proof (run_gen_le ops st0) as Hle. cbn [st0 sd empty gen] in Hle.
    assert (Hge : 0 <= gen (sd (run_state st0 ops))).
    { clear Hle Hl.
      assert (M : forall l s, Inv zero s -> gen (sd s) <= gen (sd (run_state s l))).
      { induction l as [|o l IH]; intros s HI; cbn [Model.run_state]; [lia|].
        destruct (step_inv zero minSize deque_growMul (proj1 Hmin) growMul_ok s o HI) as (HI' & _ & _ & Hg & _).
        specialize (IH _ HI'). destruct Hg as [E|Hlt]; [rewrite E in IH; exact IH|lia]. }
      specialize (M ops st0 (Inv_st0 zero)). cbn [st0 sd empty gen] in M. exact M. }
    lia.
  Qed.
End OK.
