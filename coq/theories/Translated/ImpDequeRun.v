(* END TO END for container/deque/deque.go: the translated source itself (Generated/ImpDeque.v, regenerated from
   the Go source on every run), driven over a whole history of calls, returns call by call what the hand-written
   model returns (gi_run_eq), hence what the ideal double-ended sequence returns (gi_refines_ideal).

   [gi_step] is the dispatch of Model.step in which every call goes to a translated function gi_Deque_* /
   gi_dequeIterator_Next; no function of the model is called (only the record constructors and field
   projections the translated code itself uses).  Translated/ImpDequeOK.v proves the per-method equalities in
   every well-formed state; here they are chained along the history.

   The arguments of Grow/Shrink are Go ints: gi_Deque_Grow takes the int as given, the model reads the Z
   carried by the operation through wrap64; the two coincide exactly on the values an int can hold
   ([ops_int64]).  Stdlib only; no axioms. *)
From Juniper Require Import Common.Base Deque.Model Deque.Spec Deque.Proofs.
From Juniper Require Import Translated.GoImp Generated.Params Generated.ImpDeque Translated.ImpDequeOK.
Open Scope Z_scope.

Section Run.
  Context {T : Type} (zero : T) (minSize : Z).
  Notation deque := (deque T).
  Notation st := (st T).
  Notation op := (op T).
  Notation out := (out T).

  (* ---- the history runner over the translated functions ---- *)

  (* iterator.Collect(d.Iterate()) over the translated Next, with fuel; None = fuel exhausted.
     Next returns (item, true) for an element and (zero, false) at the end. *)
  Fixpoint gi_drain (fuel : nat) (d : deque) (it : Model.iter) : option (result (list T)) :=
    match fuel with
    | O => None
    | S fuel' =>
        match gi_dequeIterator_Next zero d it with
        | Panic c => Some (Panic c)
        | Ok ((_, false), _) => Some (Ok [])
        | Ok ((x, true), it') =>
            match gi_drain fuel' d it' with
            | Some (Ok l) => Some (Ok (x :: l))
            | r => r
            end
        end
    end.

  (* one more call of Next than the translated Len reports *)
  Definition gi_fuel (d : deque) : nat :=
    match gi_Deque_Len d with Ok n => S (Z.to_nat n) | Panic _ => O end.

  (* d.Iterate(): &dequeIterator{d: d, i: d.front, done: false, gen: d.gen} *)
  Definition gi_iterate (d : deque) : Model.iter := mkIter (front d) false (gen d).

  Definition gi_step (s : st) (o : op) : st * out :=
    let d := sd s in
    let keep := fun d' => mkSt d' (sits s) in
    match o with
    | OpPushFront x =>
        match gi_Deque_PushFront zero minSize x d with Ok d' => (keep d', OUnit) | Panic _ => (s, OPanic) end
    | OpPushBack x =>
        match gi_Deque_PushBack zero minSize x d with Ok d' => (keep d', OUnit) | Panic _ => (s, OPanic) end
    | OpPopFront =>
        match gi_Deque_PopFront zero d with Ok (x, d') => (keep d', OVal x) | Panic _ => (s, OPanic) end
    | OpPopBack =>
        match gi_Deque_PopBack zero d with Ok (x, d') => (keep d', OVal x) | Panic _ => (s, OPanic) end
    | OpFront => match gi_Deque_Front d with Ok x => (s, OVal x) | Panic _ => (s, OPanic) end
    | OpBack => match gi_Deque_Back d with Ok x => (s, OVal x) | Panic _ => (s, OPanic) end
    | OpItem i => match gi_Deque_Item i d with Ok x => (s, OVal x) | Panic _ => (s, OPanic) end
    | OpSet i x => match gi_Deque_Set i x d with Ok d' => (keep d', OUnit) | Panic _ => (s, OPanic) end
    | OpLen => match gi_Deque_Len d with Ok n => (s, OInt n) | Panic _ => (s, OPanic) end
    | OpGrow n => match gi_Deque_Grow zero n d with Ok d' => (keep d', OUnit) | Panic _ => (s, OPanic) end
    | OpShrink n => match gi_Deque_Shrink zero n d with Ok d' => (keep d', OUnit) | Panic _ => (s, OPanic) end
    | OpIterate =>
        match gi_drain (gi_fuel d) d (gi_iterate d) with
        | Some (Ok l) => (s, OList l)
        | Some (Panic _) => (s, OPanic)
        | None => (s, OBad)
        end
    | OpIterNew => (mkSt d (sits s ++ [gi_iterate d]), OUnit)
    | OpIterNext j =>
        match nth_error (sits s) j with
        | None => (s, OBad)
        | Some it =>
            match gi_dequeIterator_Next zero d it with
            | Ok ((x, true), it') => (mkSt d (upd (sits s) j it'), OVal x)
            | Ok ((_, false), it') => (mkSt d (upd (sits s) j it'), OEnd)
            (* a panicking Next: the caller keeps the iterator it had *)
            | Panic _ => (mkSt d (upd (sits s) j it), OPanic)
            end
        end
    end.

  Fixpoint gi_run (s : st) (ops : list op) : list out :=
    match ops with
    | [] => []
    | o :: ops' => let '(s', r) := gi_step s o in r :: gi_run s' ops'
    end.

  Fixpoint gi_run_state (s : st) (ops : list op) : st :=
    match ops with
    | [] => s
    | o :: ops' => gi_run_state (fst (gi_step s o)) ops'
    end.

  (* the int arguments of a call are ints *)
  Definition op_int64 (o : op) : Prop :=
    match o with
    | OpGrow n | OpShrink n => int64 n
    | _ => True
    end.

  Definition ops_int64 (ops : list op) : Prop := Forall op_int64 ops.

  (* ---- one call ---- *)
  Hypothesis Hmin : 1 <= minSize <= alloc_max.

  Notation step := (step zero minSize deque_growMul).
  Notation run := (run zero minSize deque_growMul).
  Notation run_state := (run_state zero minSize deque_growMul).

  Lemma gi_drain_eq (d : deque) : wf d -> capok d ->
    forall fuel it, gi_drain fuel d it = drain fuel d it.
  Proof.
    intros Hwf Hc. induction fuel as [|f IH]; intros it; cbn [gi_drain drain]; [reflexivity|].
    rewrite (gi_Next_ok zero d it Hwf Hc). unfold lift_next.
    destruct (iter_next d it) as [[[x|]|c] it']; try reflexivity.
    rewrite IH. reflexivity.
  Qed.

  (* a panicking iter_next returns the iterator it was given *)
  Lemma iter_next_panic_same (d : deque) it c it' : iter_next d it = (Panic c, it') -> it' = it.
  Proof.
    unfold iter_next. intros H.
    destruct (negb (it_gen it =? gen d)); [injection H as _ H; symmetry; exact H|].
    destruct (len d =? 0); [discriminate H|].
    destruct (it_done it); [discriminate H|].
    destruct (zget (buf d) (it_i it)); [discriminate H|].
    injection H as _ H. symmetry. exact H.
  Qed.

  Lemma gi_step_eq s o : Inv zero s -> genok (sd s) -> op_int64 o -> gi_step s o = step s o.
  Proof.
    intros (Hwf & _ & Hc & _) Hg Hi.
    destruct (gi_agrees_wf zero minSize Hmin (sd s) Hwf Hc Hg)
      as (ALen & APf & APb & APof & APob & AFr & ABk & AIt & ASet & AGr & ASh & ANx).
    destruct o as [x|x| | | | |i|i x| |n|n| | |j]; cbn [gi_step Model.step op_int64] in *.
    - rewrite APf. reflexivity.
    - rewrite APb. reflexivity.
    - rewrite APof. reflexivity.
    - rewrite APob. reflexivity.
    - rewrite AFr. reflexivity.
    - rewrite ABk. reflexivity.
    - rewrite AIt. reflexivity.
    - rewrite ASet. reflexivity.
    - rewrite ALen. reflexivity.
    - rewrite (AGr n Hi). reflexivity.
    - rewrite (ASh n Hi). reflexivity.
    - unfold gi_fuel. rewrite ALen. unfold gi_iterate. fold (iterate (sd s)).
      rewrite (gi_drain_eq (sd s) Hwf Hc). reflexivity.
    - reflexivity.
    - destruct (nth_error (sits s) j) as [it|]; [|reflexivity].
      rewrite ANx. unfold lift_next.
      destruct (iter_next (sd s) it) as [[[x|]|c] it'] eqn:E; try reflexivity.
      rewrite (iter_next_panic_same (sd s) it c it' E). reflexivity.
  Qed.

  (* ---- a whole history, from any state the invariant holds in ---- *)
  Lemma gi_run_eq_from ops : forall s,
      Inv zero s -> 0 <= gen (sd s) -> gen (sd s) + 2 * Z.of_nat (length ops) < 2^62 ->
      ops_int64 ops ->
      gi_run s ops = run s ops /\ gi_run_state s ops = run_state s ops.
  Proof.
    induction ops as [|o ops IH]; intros s HI H0 Hb Hops;
      cbn [gi_run gi_run_state Model.run Model.run_state]; [split; reflexivity|].
    assert (Ho : op_int64 o) by (inversion Hops; assumption).
    assert (Hops' : ops_int64 ops) by (inversion Hops; assumption).
    assert (Hl : Z.of_nat (length (o :: ops)) = Z.of_nat (length ops) + 1)
      by (cbn [length]; lia).
    rewrite Hl in Hb.
    assert (Hg : genok (sd s)) by (unfold genok; lia).
    rewrite (gi_step_eq s o HI Hg Ho).
    destruct (step_inv zero minSize deque_growMul (proj1 Hmin) growMul_ok s o HI) as (HI' & _ & _ & Hmono & _).
    pose proof (step_gen_le zero minSize s o) as Hle.
    assert (H0' : 0 <= gen (sd (fst (step s o)))).
    { destruct Hmono as [E|Hlt]; [rewrite E; exact H0|lia]. }
    assert (Hb' : gen (sd (fst (step s o))) + 2 * Z.of_nat (length ops) < 2^62) by lia.
    destruct (IH (fst (step s o)) HI' H0' Hb' Hops') as [IHr IHs].
    destruct (step s o) as [s' r]. cbn [fst] in *.
    split; [rewrite IHr; reflexivity|exact IHs].
  Qed.

  (* every history shorter than 2^60 calls from the zero Deque whose Grow/Shrink arguments are ints: the
     translated source returns, call by call, what the model returns, and ends in the same state (buffer, front,
     back, generation, and every live iterator) *)
  Theorem gi_run_eq : forall ops,
      ops_int64 ops -> Z.of_nat (length ops) < 2^60 ->
      gi_run st0 ops = run st0 ops /\ gi_run_state st0 ops = run_state st0 ops.
  Proof.
    intros ops Hops Hl. change (2^60) with 1152921504606846976 in Hl.
    apply gi_run_eq_from.
    - exact (Inv_st0 zero).
    - cbn [st0 sd empty gen]. lia.
    - cbn [st0 sd empty gen]. change (2^62) with 4611686018427387904. lia.
    - exact Hops.
  Qed.

  Lemma run_state_gen_nonneg ops : forall s,
      Inv zero s -> 0 <= gen (sd s) -> 0 <= gen (sd (run_state s ops)).
  Proof.
    induction ops as [|o ops IH]; intros s HI H0; cbn [Model.run_state]; [exact H0|].
    destruct (step_inv zero minSize deque_growMul (proj1 Hmin) growMul_ok s o HI) as (HI' & _ & _ & Hmono & _).
    apply IH; [exact HI'|]. destruct Hmono as [E|Hlt]; [rewrite E; exact H0|lia].
  Qed.

  (* the same theorem read for explicit iterator handles (C15): the history may create iterators (OpIterNew) and
     step any of them (OpIterNext j) between any other calls; the answers are equal, the live iterators
     (position, done flag, generation) are equal, and one more OpIterNew / OpIterNext j in the state reached
     returns the same and leaves the same state *)
  Theorem gi_run_eq_iters : forall ops j,
      ops_int64 ops -> Z.of_nat (length ops) < 2^60 ->
      gi_run st0 ops = run st0 ops /\
      sits (gi_run_state st0 ops) = sits (run_state st0 ops) /\
      gi_step (gi_run_state st0 ops) OpIterNew = step (run_state st0 ops) OpIterNew /\
      gi_step (gi_run_state st0 ops) (OpIterNext j) = step (run_state st0 ops) (OpIterNext j).
  Proof.
    intros ops j Hops Hl. destruct (gi_run_eq ops Hops Hl) as [Hr Hs].
    change (2^60) with 1152921504606846976 in Hl.
    pose proof (run_state_Inv zero minSize deque_growMul (proj1 Hmin) growMul_ok ops st0 (Inv_st0 zero)) as HI.
    assert (Hg : genok (sd (run_state st0 ops))).
    { unfold genok. change (2^62) with 4611686018427387904.
      pose proof (run_gen_le zero minSize ops st0) as Hle.
      assert (H0 : 0 <= gen (sd (@st0 T))) by (cbn [st0 sd empty gen]; lia).
      pose proof (run_state_gen_nonneg ops st0 (Inv_st0 zero) H0) as Hge.
      cbn [st0 sd empty gen] in Hle. lia. }
    rewrite Hs.
    split; [exact Hr|]. split; [reflexivity|].
    split; apply gi_step_eq; try exact HI; try exact Hg; exact I.
  Qed.

  (* ... hence what the ideal double-ended sequence returns *)
  Theorem gi_refines_ideal : forall ops,
      forallb seq_op ops = true -> in_budget minSize deque_growMul ops ->
      ops_int64 ops -> Z.of_nat (length ops) < 2^60 ->
      gi_run st0 ops = srun [] ops.
  Proof.
    intros ops Hseq Hbud Hops Hl.
    rewrite (proj1 (gi_run_eq ops Hops Hl)).
    exact (deque_refinement zero minSize deque_growMul (proj1 Hmin) growMul_ok ops Hseq Hbud).
  Qed.
End Run.
