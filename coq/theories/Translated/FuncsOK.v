(* The small pure Go functions that tools/gofacts translates literally into Generated/Funcs.v on every run
   are the same functions the hand-written models use.  If one of them is edited in /repo, the regenerated
   definition changes and the corresponding lemma below has to be re-proved: a broken lemma is a broken
   proof obligation of the property named next to it.  No axioms. *)
From Coq Require Import ZifyBool.
From Juniper Require Import Common.Base Deque.Model Heap.Model Pure.Slices Pure.Misc Pure.Sort Generated.Funcs.

(* The proofs do not depend on the exact shape of the Go expressions: conditions are case-split and the
   arithmetic is closed by lia, so that commuting operands or reassociating sums in the Go source (a harmless
   rewrite) does not break them; a change of meaning does. *)
Ltac go_solve :=
  intros;
  repeat match goal with
         | |- context [if ?c then _ else _] => destruct c eqn:?
         end;
  try reflexivity; try lia;
  repeat (f_equal; try lia).

(* C04 / C15: container/deque *)
Lemma go_positiveMod_ok : forall l d, go_positiveMod l d = Deque.Model.positive_mod l d.
Proof. unfold go_positiveMod, Deque.Model.positive_mod; cbv zeta; go_solve. Qed.

Lemma go_Deque_Len_ok : forall (T : Type) (d : deque T), go_Deque_Len d = Deque.Model.len d.
Proof.
  intros T d; unfold go_Deque_Len, Deque.Model.len.
  destruct (isnil d || (back d =? -1)); [reflexivity|].
  destruct (front d <=? back d); lia.
Qed.

(* C05: internal/heap index arithmetic *)
Lemma go_heap_parent_ok : forall i, go_heap_parent i = Heap.Model.parent i.
Proof. unfold go_heap_parent, Heap.Model.parent; go_solve. Qed.

Lemma go_heap_children_ok : forall i, go_heap_children i = Heap.Model.children i.
Proof. unfold go_heap_children, Heap.Model.children; go_solve. Qed.

(* C19: xmath *)
Lemma go_Clamp_ok : forall x lo hi, go_Clamp x lo hi = clamp x lo hi.
Proof. unfold go_Clamp, clamp; go_solve. Qed.

Lemma go_Abs_ok : forall w x, go_Abs (fun y => wrap w (- y)) x = abs_w w x.
Proof. intros; unfold go_Abs, abs_w; reflexivity. Qed.

(* C19 (and C01 through LessCompare's users): xsort comparison helpers *)
Lemma go_Greater_ok : forall less a b, go_Greater less a b = greater less a b.
Proof. reflexivity. Qed.
Lemma go_LessOrEqual_ok : forall less a b, go_LessOrEqual less a b = less_or_equal less a b.
Proof. reflexivity. Qed.
Lemma go_GreaterOrEqual_ok : forall less a b, go_GreaterOrEqual less a b = greater_or_equal less a b.
Proof. reflexivity. Qed.
Lemma go_Equal_ok : forall less a b, go_Equal less a b = equal_ less a b.
Proof. reflexivity. Qed.
