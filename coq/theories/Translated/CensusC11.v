(* The synchronisation census (see tools/gofacts/census.go) that the model Conc/Batch.v was written against:
   per transcribed Go function, the bag of channel operations, select arms, goroutine starts, timer/context/
   sync/atomic calls in its body. Generated/Census.v is re-extracted from the Go source on every run; a function
   that gains or loses such an operation no longer matches, and the obligation below fails: the model then has
   to be re-read against the new code (and this record updated by hand or tools/mkcensus_expected.py). *)
From Coq Require Import String List ZArith.
From Juniper Require Import Generated.Census.
Import ListNotations.
Open Scope string_scope.
Open Scope Z_scope.

(* stream/stream.go: func Batch *)
Lemma census_C11_stream_stream_Batch_ok : census_C11_stream_stream_Batch =
  [].
Proof. reflexivity. Qed.

(* stream/stream.go: func BatchFunc *)
Lemma census_C11_stream_stream_BatchFunc_ok : census_C11_stream_stream_BatchFunc =
  [("arm:recv", 5);
   ("arm:send", 2);
   ("call:.Add", 1);
   ("call:.Done", 4);
   ("call:.Err", 1);
   ("call:.Reset", 1);
   ("call:.Stop", 2);
   ("call:context.Background", 1);
   ("call:context.WithCancel", 1);
   ("call:time.NewTimer", 1);
   ("call:time.Now", 1);
   ("call:time.Since", 3);
   ("close", 2);
   ("go", 2);
   ("makechan", 3);
   ("recv", 1);
   ("select", 3)].
Proof. reflexivity. Qed.

(* stream/stream.go: func (batchStream) Next *)
Lemma census_C11_stream_stream_batchStream_Next_ok : census_C11_stream_stream_batchStream_Next =
  [("arm:recv", 4);
   ("arm:send", 1);
   ("call:.Done", 2);
   ("call:.Err", 2);
   ("select", 2)].
Proof. reflexivity. Qed.

(* stream/stream.go: func (batchStream) Close *)
Lemma census_C11_stream_stream_batchStream_Close_ok : census_C11_stream_stream_batchStream_Close =
  [("call:.Wait", 1);
   ("call:cancel", 1)].
Proof. reflexivity. Qed.

Definition census_expected_C11 : Prop :=
  census_C11_stream_stream_Batch =
  []
  /\ census_C11_stream_stream_BatchFunc =
  [("arm:recv", 5);
   ("arm:send", 2);
   ("call:.Add", 1);
   ("call:.Done", 4);
   ("call:.Err", 1);
   ("call:.Reset", 1);
   ("call:.Stop", 2);
   ("call:context.Background", 1);
   ("call:context.WithCancel", 1);
   ("call:time.NewTimer", 1);
   ("call:time.Now", 1);
   ("call:time.Since", 3);
   ("close", 2);
   ("go", 2);
   ("makechan", 3);
   ("recv", 1);
   ("select", 3)]
  /\ census_C11_stream_stream_batchStream_Next =
  [("arm:recv", 4);
   ("arm:send", 1);
   ("call:.Done", 2);
   ("call:.Err", 2);
   ("select", 2)]
  /\ census_C11_stream_stream_batchStream_Close =
  [("call:.Wait", 1);
   ("call:cancel", 1)].

Lemma census_C11_ok : census_expected_C11.
Proof. unfold census_expected_C11. repeat split; reflexivity. Qed.
