(* Runs and Chunk of xslices/xslices.go: the statement-level translation (Generated/ImpSlices.v, regenerated from
   the Go source on every run) returns the sub-slices themselves; the hand-written models of Pure/Slices.v return
   the (start, end) index bounds of these sub-slices.  On every slice of fewer than 2^62 ints the translated
   functions return Ok of the list of s[start:end] for exactly the bounds the models compute, under the
   configuration of Pure/Config.v (all switches true: the current Go code).  Chunk: for every chunkSize in the
   int64 range (chunkSize <= 0 panics with PNeg on both sides; no product wraps for huge chunkSize; the model's
   index-range test never fires), provided the number of chunks does not exceed alloc_max = 2^47, above which the
   translated make panics; the model has no allocation limit, and [gi_Chunk_ok_unrestricted_refuted] shows that
   the proviso is needed ([gi_Chunk_alloc_differs]: it is the weakest one).

   Method as in Translated/ImpSlicesOK.v: the loop bodies are restated verbatim, the final theorems start with a
   [change] that checks by conversion that the generated function is the loop over that body.  Stdlib only; no
   axioms. *)
From Coq Require Import ZifyBool.
From Juniper Require Import Common.Base Pure.Slices Pure.Config Translated.GoImp Generated.ImpSlices
  Translated.ImpSlicesOK.
From Juniper Require Deque.Model.
Open Scope Z_scope.

(* s[a:b] for a pair of bounds; the final statements spell the function out *)
Definition sl (s : list Z) : Z * Z -> list Z := fun '(a, b) => zslice s a b.

Lemma goslice_ok {A} (l : list A) lo hi : 0 <= lo <= hi -> hi <= zlen l -> goslice l lo hi = Ok (zslice l lo hi).
Proof.
  intros H1 H2. unfold goslice.
  destruct (Z.leb_spec 0 lo) as [Ha|Ha]; [|lia].
  destruct (Z.leb_spec lo hi) as [Hb|Hb]; [|lia].
  destruct (Z.leb_spec hi (zlen l)) as [Hc|Hc]; [|lia]. reflexivity.
Qed.

(* ================================================================ Runs *)

Definition runs_body (s : list Z) (same : Z -> Z -> bool)
  : Z * Z * list (list Z) * Z -> result (ctl (Z * Z * list (list Z) * Z) (list (list Z))) :=
  fun '(end_v, i, runs, start) =>
  if (i <? (zlen s))
  then rbind (goget s (wsub i 1)) (fun v1_ =>
  rbind (goget s i) (fun v2_ =>
  rbind (if (same v1_ v2_)
  then let end_v := (wadd i 1) in
  Ok (end_v, runs, start)
  else rbind (goslice s start end_v) (fun s3_ =>
  let runs := (runs ++ [s3_]) in
  let start := i in
  let end_v := (wadd i 1) in
  Ok (end_v, runs, start))) (fun '(end_v, runs, start) =>
  let i := (wadd i 1) in
  Ok (CNext (end_v, i, runs, start)))))
  else Ok (CBreak (end_v, i, runs, start)).

Definition runs_k (s : list Z)
  : ctl (Z * Z * list (list Z) * Z) (list (list Z)) -> result (list (list Z)) := fun c_ =>
  match c_ with
  | CRet r_ => Ok r_
  | CNext (end_v, i, runs, start) | CBreak (end_v, i, runs, start) =>
  rbind (if ((zlen s) >? 0)
  then rbind (goslice s start (zlen s)) (fun s4_ =>
  let runs := (runs ++ [s4_]) in
  Ok runs)
  else Ok runs) (fun runs =>
  Ok runs)
  end.

(* what the model does with the state its loop ends in (fixed configuration) *)
Definition runs_fin (s : list Z) (r : list (Z * Z) * Z * Z) : list (Z * Z) :=
  let '(rs, start, e) := r in rs ++ [(start, zlen s)].

(* the loop at i = len(pre) + 1 with prev = s[i-1] and rest = s[i:]; 0 <= start < e <= i keeps s[start:e] in range;
   the runs found so far are the slices of the model's bounds *)
Lemma runs_loop_ok (s : list Z) (same : Z -> Z -> bool) : zlen s < 2^62 ->
  forall rest pre prev i start e rs fuel, s = pre ++ prev :: rest -> i = zlen pre + 1 ->
  0 <= start < e -> e <= i -> (length rest < fuel)%nat ->
  rbind (goloop fuel (runs_body s same) (e, i, map (sl s) rs, start)) (runs_k s)
  = Ok (map (sl s) (runs_fin s (runs_loop same prev rest i start e rs))).
Proof.
  intros Hs. change (2^62) with 4611686018427387904 in Hs.
  induction rest as [|x t IH]; intros pre prev i start e rs fuel E Hi Hse Hei Hf;
    (destruct fuel as [|fuel]; [cbn [length] in Hf; lia|]); pose proof (zlen_nonneg pre) as Hp.
  - assert (Hl : zlen s = zlen pre + 1) by (rewrite E, zlen_app, zlen_cons; reflexivity).
    assert (B : runs_body s same (e, i, map (sl s) rs, start) = Ok (CBreak (e, i, map (sl s) rs, start))).
    { unfold runs_body. destruct (Z.ltb_spec i (zlen s)) as [H|H]; [lia|reflexivity]. }
    rewrite (goloop_break _ _ _ _ B). cbn [rbind runs_k runs_loop runs_fin].
    rewrite Z.gtb_ltb. destruct (Z.ltb_spec 0 (zlen s)) as [H|H]; [|lia].
    rewrite goslice_ok by lia. cbn [rbind]. cbv zeta. rewrite map_app. reflexivity.
  - pose proof (zlen_nonneg t) as Ht.
    assert (Hl : zlen s = zlen pre + (1 + (1 + zlen t))) by (rewrite E, zlen_app, !zlen_cons; reflexivity).
    assert (E' : s = (pre ++ [prev]) ++ x :: t) by (rewrite <- app_assoc; exact E).
    assert (L : i <? zlen s = true) by (apply Z.ltb_lt; lia).
    assert (G1 : goget s (i - 1) = Ok prev).
    { replace (i - 1) with (zlen pre) by lia. rewrite E. apply goget_app. }
    assert (G2 : goget s i = Ok x).
    { replace i with (zlen (pre ++ [prev])) by (rewrite zlen_snoc; lia). rewrite E'. apply goget_app. }
    assert (Hi' : i + 1 = zlen (pre ++ [prev]) + 1) by (rewrite zlen_snoc; lia).
    cbn [runs_loop length] in *. destruct (same prev x) eqn:Es.
    + assert (B : runs_body s same (e, i, map (sl s) rs, start) = Ok (CNext (i + 1, i + 1, map (sl s) rs, start))).
      { unfold runs_body. rewrite L. wr. rewrite G1, G2. cbn [rbind]. rewrite Es. cbv zeta. cbn [rbind].
        reflexivity. }
      rewrite (goloop_next _ _ _ _ B). apply (IH (pre ++ [prev])); [exact E'|exact Hi'|lia|lia|lia].
    + assert (B : runs_body s same (e, i, map (sl s) rs, start)
                  = Ok (CNext (i + 1, i + 1, map (sl s) (rs ++ [(start, e)]), i))).
      { unfold runs_body. rewrite L. wr. rewrite G1, G2. cbn [rbind]. rewrite Es.
        rewrite goslice_ok by lia. cbn [rbind]. cbv zeta. cbn [rbind]. rewrite map_app. reflexivity. }
      rewrite (goloop_next _ _ _ _ B). apply (IH (pre ++ [prev])); [exact E'|exact Hi'|lia|lia|lia].
Qed.

Theorem gi_Runs_ok (s : list Z) (same : Z -> Z -> bool) : zlen s < 2^62 ->
  gi_xslices_Runs s same = Ok (map (fun '(a, b) => zslice s a b) (runs xslices_runs_fixed s same)).
Proof.
  intros Hs.
  change (gi_xslices_Runs s same) with (rbind (goloop (S (length s)) (runs_body s same) (1, 1, [], 0)) (runs_k s)).
  change xslices_runs_fixed with true.
  change (fun '(a, b) => zslice s a b) with (sl s).
  destruct s as [|x t].
  - reflexivity.
  - pose proof (runs_loop_ok (x :: t) same Hs t [] x 1 0 1 [] (S (length (x :: t))) eq_refl eq_refl) as H.
    cbn [map] in H. rewrite H by (cbn [length]; lia).
    unfold runs. destruct (runs_loop same x t 1 0 1 []) as [[rs st] e]. reflexivity.
Qed.

(* ================================================================ Chunk *)

Definition chunk_body (s : list Z) (chunkSize : Z) (out0_ : list (list Z))
  : Z * list (list Z) -> result (ctl (Z * list (list Z)) (list (list Z))) := fun '(i, out) =>
  if (i <? zlen out0_)
  then let start := (wmul i chunkSize) in
  let end_v := (wmul (wadd i 1) chunkSize) in
  rbind (if (end_v >? (zlen s))
  then let end_v := (zlen s) in
  Ok end_v
  else Ok end_v) (fun end_v =>
  rbind (goslice s start end_v) (fun s5_ =>
  rbind (goset out i s5_) (fun out =>
  let i := (i + 1) in
  Ok (CNext (i, out)))))
  else Ok (CBreak (i, out)).

Definition chunk_k : ctl (Z * list (list Z)) (list (list Z)) -> result (list (list Z)) := fun c_ =>
  match c_ with
  | CRet r_ => Ok r_
  | CNext (i, out) | CBreak (i, out) =>
  Ok out
  end.

Definition chunk_top (s : list Z) (chunkSize : Z) : result (list (list Z)) :=
  if (chunkSize <=? 0)
  then Panic PNeg
  else rbind (goquo (zlen s) chunkSize) (fun q1_ =>
  let n := q1_ in
  rbind (gorem (zlen s) chunkSize) (fun r2_ =>
  rbind (if (negb (r2_ =? 0))
  then let n := (wadd n 1) in
  Ok n
  else Ok n) (fun n =>
  rbind (gomake [] n) (fun m3_ =>
  let out := m3_ in
  let out0_ := out in
  let i := 0 in
  rbind (goloop (S (length s)) (chunk_body s chunkSize out0_) (i, out)) chunk_k)))).

(* the number of chunks N = ceil(n / c): at most n, and i < N implies i * c < n *)
Lemma chunk_count_facts (n c : Z) : 0 <= n -> 0 < c ->
  0 <= Z.quot n c <= n /\
  0 <= chunk_count true n c <= n /\
  (forall i, 0 <= i < chunk_count true n c -> i * c < n).
Proof.
  intros Hn Hc. unfold chunk_count.
  pose proof (Z.quot_rem' n c) as E. pose proof (Z.rem_bound_pos n c Hn Hc) as R.
  pose proof (Z.quot_pos n c Hn Hc) as Q.
  set (q := Z.quot n c) in *. set (r := Z.rem n c) in *.
  assert (Hq : q <= c * q) by nia.
  split; [lia|].
  destruct (Z.eqb_spec r 0) as [Hr|Hr].
  - split; [lia|]. intros i Hi. assert (Hm : i * c <= (q - 1) * c) by (apply Z.mul_le_mono_nonneg_r; lia). lia.
  - split; [lia|]. intros i Hi. assert (Hm : i * c <= q * c) by (apply Z.mul_le_mono_nonneg_r; lia). lia.
Qed.

(* the loop at i = len(pre): pre holds the chunks cut so far, cnt empty slots are left.  i * c < len(s) keeps both
   products inside int64: (i+1) * c is c for i = 0 and below 2 * len(s) otherwise.  The model's range test holds. *)
Lemma chunk_loop_ok (s : list Z) (c N : Z) : zlen s < 2^62 -> 0 < c -> int64 c -> 0 <= N ->
  (forall i, 0 <= i < N -> i * c < zlen s) ->
  forall cnt pre fuel, zlen pre + Z.of_nat cnt = N -> (cnt < fuel)%nat ->
  exists l, chunk_loop cnt (zlen pre) (zlen s) c = Ok l /\
    rbind (goloop fuel (chunk_body s c (zrepeat [] N)) (zlen pre, pre ++ repeat [] cnt)) chunk_k
    = Ok (pre ++ map (sl s) l).
Proof.
  intros Hs Hc Hc64 HN Hlt. change (2^62) with 4611686018427387904 in Hs.
  pose proof (proj1 (int64_iff c) Hc64) as Hc64'.
  pose proof (zlen_nonneg s) as Hl.
  induction cnt as [|cnt IH]; intros pre fuel Hcnt Hf; (destruct fuel as [|fuel]; [lia|]);
    pose proof (zlen_nonneg pre) as Hp.
  - exists []. split; [reflexivity|].
    assert (B : chunk_body s c (zrepeat [] N) (zlen pre, pre ++ repeat [] 0) = Ok (CBreak (zlen pre, pre ++ repeat [] 0))).
    { unfold chunk_body. rewrite zlen_repeat by exact HN.
      destruct (Z.ltb_spec (zlen pre) N) as [H|H]; [lia|reflexivity]. }
    rewrite (goloop_break _ _ _ _ B). reflexivity.
  - assert (Hi : 0 <= zlen pre < N) by lia.
    pose proof (Hlt _ Hi) as Hic.
    assert (Hic0 : 0 <= zlen pre * c) by (apply Z.mul_nonneg_nonneg; lia).
    assert (Hend : (zlen pre + 1) * c = zlen pre * c + c) by lia.
    assert (Hend64 : zlen pre * c + c < 9223372036854775808).
    { destruct (Z.eq_dec (zlen pre) 0) as [Hz|Hz].
      - rewrite Hz. lia.
      - assert (Hm : 1 * c <= zlen pre * c) by (apply Z.mul_le_mono_nonneg_r; lia). lia. }
    set (e := if (zlen pre + 1) * c >? zlen s then zlen s else (zlen pre + 1) * c).
    assert (He : zlen pre * c <= e <= zlen s).
    { unfold e. rewrite Z.gtb_ltb. destruct (Z.ltb_spec (zlen s) ((zlen pre + 1) * c)) as [H|H]; lia. }
    assert (B : chunk_body s c (zrepeat [] N) (zlen pre, pre ++ repeat [] (S cnt))
                = Ok (CNext (zlen (pre ++ [zslice s (zlen pre * c) e]),
                             (pre ++ [zslice s (zlen pre * c) e]) ++ repeat [] cnt))).
    { unfold chunk_body. rewrite zlen_repeat by exact HN.
      destruct (Z.ltb_spec (zlen pre) N) as [H|H]; [|lia]. cbv zeta. wr. fold e.
      assert (Eb : (if (zlen pre + 1) * c >? zlen s then Ok (zlen s) else Ok ((zlen pre + 1) * c)) = @Ok Z e).
      { unfold e. destruct ((zlen pre + 1) * c >? zlen s); reflexivity. }
      rewrite Eb. cbn [rbind]. rewrite goslice_ok by lia. cbn [rbind repeat].
      rewrite goset_app. cbn [rbind]. rewrite zlen_snoc, <- app_assoc. reflexivity. }
    destruct (IH (pre ++ [zslice s (zlen pre * c) e]) fuel) as (l & M & G); [rewrite zlen_snoc; lia|lia|].
    rewrite zlen_snoc in M.
    exists ((zlen pre * c, e) :: l). split.
    + cbn [chunk_loop]. cbv zeta. fold e.
      destruct (Z.leb_spec 0 (zlen pre * c)) as [Ha|Ha]; [|lia].
      destruct (Z.leb_spec (zlen pre * c) e) as [Hb|Hb]; [|lia]. cbn [andb].
      rewrite M. reflexivity.
    + rewrite (goloop_next _ _ _ _ B). rewrite G. rewrite <- app_assoc. reflexivity.
Qed.

(* make([][]T, n) panics above alloc_max elements (Deque/Model.v), which the model of Chunk does not describe: the
   hypothesis Hm keeps the number of chunks below that bound.  It holds whenever len(s) <= alloc_max. *)
Theorem gi_Chunk_ok_partial (s : list Z) (c : Z) : zlen s < 2^62 -> int64 c ->
  (0 < c -> chunk_count true (zlen s) c <= Deque.Model.alloc_max) ->
  gi_xslices_Chunk s c =
  match chunk xslices_chunk_guard xslices_chunk_no_overflow s c with
  | Ok l => Ok (map (fun '(a, b) => zslice s a b) l)
  | Panic p => Panic p
  end.
Proof.
  intros Hs Hc64 Hm.
  change (gi_xslices_Chunk s c) with (chunk_top s c).
  change xslices_chunk_guard with true. change xslices_chunk_no_overflow with true.
  change (fun '(a, b) => zslice s a b) with (sl s).
  unfold chunk_top, chunk. cbn [andb].
  destruct (Z.leb_spec c 0) as [Hc|Hc]; [reflexivity|].
  destruct (Z.eqb_spec c 0) as [Hz|Hz]; [lia|].
  pose proof (zlen_nonneg s) as Hl. specialize (Hm Hc).
  destruct (chunk_count_facts (zlen s) c Hl Hc) as (Hq & HN & Hlt).
  set (N := chunk_count true (zlen s) c) in *.
  destruct (Z.ltb_spec N 0) as [Hneg|_]; [lia|].
  assert (Hs' : zlen s < 4611686018427387904) by exact Hs.
  unfold goquo, gorem. destruct (Z.eqb_spec c 0) as [Hz'|_]; [lia|]. cbn [rbind]. cbv zeta.
  rewrite wrap64_id by (apply int64_iff; lia).
  assert (En : (if negb (Z.rem (zlen s) c =? 0) then Ok (wadd (Z.quot (zlen s) c) 1) else Ok (Z.quot (zlen s) c))
               = @Ok Z N).
  { unfold N, chunk_count. destruct (Z.rem (zlen s) c =? 0); cbn [negb]; [f_equal; lia|]. wr. reflexivity. }
  rewrite En. cbn [rbind].
  unfold gomake, Deque.Model.make_ok.
  destruct (Z.leb_spec 0 N) as [_|H0]; [|lia].
  destruct (Z.leb_spec N Deque.Model.alloc_max) as [_|H1]; [|lia]. cbn [andb rbind].
  destruct (chunk_loop_ok s c N Hs Hc Hc64 (proj1 HN) Hlt (Z.to_nat N) [] (S (length s))) as (l & M & G).
  - change (zlen (@nil (list Z))) with 0. lia.
  - unfold zlen in HN. lia.
  - change (zlen (@nil (list Z))) with 0 in M, G. rewrite M.
    change ([] ++ repeat [] (Z.to_nat N)) with (@zrepeat (list Z) [] N) in G. rewrite G. reflexivity.
Qed.

Theorem gi_Chunk_ok (s : list Z) (c : Z) : zlen s <= Deque.Model.alloc_max -> int64 c ->
  gi_xslices_Chunk s c =
  match chunk xslices_chunk_guard xslices_chunk_no_overflow s c with
  | Ok l => Ok (map (fun '(a, b) => zslice s a b) l)
  | Panic p => Panic p
  end.
Proof.
  intros Hs Hc64. assert (Ha : Deque.Model.alloc_max = 140737488355328) by reflexivity.
  apply gi_Chunk_ok_partial; [change (2^62) with 4611686018427387904; lia|exact Hc64|].
  intros Hc. pose proof (chunk_count_facts (zlen s) c (zlen_nonneg s) Hc) as (_ & HN & _). lia.
Qed.

(* ---- the hypothesis on the number of chunks cannot be dropped: above alloc_max chunks the translated make panics
   (PAlloc = POther) while the model, which has no allocation limit, returns the bounds.  Such a slice has more
   than 2^47 elements; no test can build one. ---- *)
Theorem gi_Chunk_alloc_differs (s : list Z) (c : Z) : zlen s < 2^62 -> 0 < c -> int64 c ->
  Deque.Model.alloc_max < chunk_count true (zlen s) c ->
  gi_xslices_Chunk s c = Panic POther /\
  exists l, chunk xslices_chunk_guard xslices_chunk_no_overflow s c = Ok l.
Proof.
  intros Hs Hc Hc64 Hm.
  change (gi_xslices_Chunk s c) with (chunk_top s c).
  change xslices_chunk_guard with true. change xslices_chunk_no_overflow with true.
  pose proof (zlen_nonneg s) as Hl.
  destruct (chunk_count_facts (zlen s) c Hl Hc) as (Hq & HN & Hlt).
  assert (Hs' : zlen s < 4611686018427387904) by exact Hs.
  split.
  - unfold chunk_top.
    destruct (Z.leb_spec c 0) as [Hc0|_]; [lia|].
    unfold goquo, gorem. destruct (Z.eqb_spec c 0) as [Hz'|_]; [lia|]. cbn [rbind]. cbv zeta.
    rewrite wrap64_id by (apply int64_iff; lia).
    assert (En : (if negb (Z.rem (zlen s) c =? 0) then Ok (wadd (Z.quot (zlen s) c) 1) else Ok (Z.quot (zlen s) c))
                 = @Ok Z (chunk_count true (zlen s) c)).
    { unfold chunk_count. destruct (Z.rem (zlen s) c =? 0); cbn [negb]; [f_equal; lia|]. wr. reflexivity. }
    rewrite En. cbn [rbind]. unfold gomake, Deque.Model.make_ok.
    destruct (Z.leb_spec (chunk_count true (zlen s) c) Deque.Model.alloc_max) as [H1|_]; [lia|].
    rewrite Bool.andb_false_r. reflexivity.
  - unfold chunk. cbn [andb].
    destruct (Z.leb_spec c 0) as [Hc0|_]; [lia|].
    destruct (Z.eqb_spec c 0) as [Hz|_]; [lia|].
    set (N := chunk_count true (zlen s) c) in *.
    destruct (Z.ltb_spec N 0) as [Hneg|_]; [lia|].
    destruct (chunk_loop_ok s c N Hs Hc Hc64 (proj1 HN) Hlt (Z.to_nat N) [] (S (Z.to_nat N))) as (l & M & _).
    + change (zlen (@nil (list Z))) with 0. lia.
    + lia.
    + exists l. exact M.
Qed.

(* and such an input exists inside the stated range: 2^47 + 1 elements, chunkSize 1 *)
Theorem gi_Chunk_ok_unrestricted_refuted :
  exists (s : list Z) (c : Z), zlen s < 2^62 /\ int64 c /\
    gi_xslices_Chunk s c = Panic POther /\
    exists l, chunk xslices_chunk_guard xslices_chunk_no_overflow s c = Ok l.
Proof.
  assert (G : forall s : list Z, zlen s = 140737488355329 ->
              zlen s < 2^62 /\ int64 1 /\ gi_xslices_Chunk s 1 = Panic POther /\
              exists l, chunk xslices_chunk_guard xslices_chunk_no_overflow s 1 = Ok l).
  { intros s Hl.
    assert (Hs : zlen s < 2^62) by (change (2^62) with 4611686018427387904; lia).
    assert (H1 : int64 1) by (apply int64_iff; lia).
    split; [exact Hs|]. split; [exact H1|].
    apply gi_Chunk_alloc_differs; [exact Hs|lia|exact H1|].
    unfold chunk_count. rewrite Z.quot_1_r, Z.rem_1_r, Hl. reflexivity. }
  exists (repeat 0 (Z.to_nat 140737488355329)), 1. apply G.
  unfold zlen. rewrite repeat_length. apply Z2Nat.id. lia.
Qed.
