(* Primitives of the statement-level Go -> Gallina translation (tools/gofacts/imp.go).  Hand-written and
   trusted to say what the Go operation does: 64-bit wrapping int arithmetic, the run-time panics of
   indexing, slicing, division and make, the builtin copy, and the loop combinator.  No proofs about the
   library here; the lemmas below are about these primitives only.  Stdlib only; no axioms. *)
From Coq Require Import ZifyBool.
From Juniper Require Import Common.Base Deque.Model.
Open Scope Z_scope.

Definition rbind {A B} (r : result A) (f : A -> result B) : result B :=
  match r with Ok a => f a | Panic c => Panic c end.

(* int is 64 bits wide on every platform the library is tested on; +, -, * and unary - wrap *)
Definition wadd (a b : Z) : Z := wrap64 (a + b).
Definition wsub (a b : Z) : Z := wrap64 (a - b).
Definition wmul (a b : Z) : Z := wrap64 (a * b).
Definition wneg (a : Z) : Z := wrap64 (- a).

Definition int64 (x : Z) : Prop := - 2^63 <= x < 2^63.

(* a % b and a / b panic for b = 0; MinInt / -1 wraps to MinInt and MinInt % -1 = 0 *)
Definition gorem (a b : Z) : result Z := if b =? 0 then Panic PDivZero else Ok (Z.rem a b).
Definition goquo (a b : Z) : result Z := if b =? 0 then Panic PDivZero else Ok (wrap64 (Z.quot a b)).

(* s[i] as a value and as an assignment target *)
Definition goget {A} (l : list A) (i : Z) : result A :=
  match zget l i with Some x => Ok x | None => Panic PIndex end.
Definition goset {A} (l : list A) (i : Z) (x : A) : result (list A) :=
  match zset l i x with Some l' => Ok l' | None => Panic PIndex end.

(* s[lo:hi] of a slice whose capacity equals its length (every slice below comes from make([]T, n)) *)
Definition goslice {A} (l : list A) (lo hi : Z) : result (list A) :=
  if (0 <=? lo) && (lo <=? hi) && (hi <=? zlen l) then Ok (zslice l lo hi) else Panic PIndex.

(* make([]T, n) *)
Definition gomake {A} (zero : A) (n : Z) : result (list A) :=
  if make_ok n then Ok (zrepeat zero n) else Panic PAlloc.

(* copy(dst, src): the first min(len dst, len src) elements of dst are overwritten *)
Definition gocopy {A} (dst src : list A) : list A :=
  firstn (length dst) src ++ skipn (length src) dst.

(* copy(dst[off:], src) *)
Definition gocopy_at {A} (dst : list A) (off : Z) (src : list A) : result (list A) :=
  if (0 <=? off) && (off <=? zlen dst)
  then Ok (firstn (Z.to_nat off) dst ++ gocopy (skipn (Z.to_nat off) dst) src)
  else Panic PIndex.

(* loops: the body maps the loop state to the next state, a break, or a return from the function *)
Inductive ctl (S R : Type) : Type :=
| CNext (s : S)
| CBreak (s : S)
| CRet (r : R).
Arguments CNext {S R} s.
Arguments CBreak {S R} s.
Arguments CRet {S R} r.

(* running out of fuel is reported as Panic POther; the equivalence theorems show it does not happen *)
Fixpoint goloop {S R} (fuel : nat) (body : S -> result (ctl S R)) (s : S) : result (ctl S R) :=
  match fuel with
  | O => Panic POther
  | S f =>
      match body s with
      | Panic c => Panic c
      | Ok (CNext s') => goloop f body s'
      | Ok (CBreak s') => Ok (CBreak s')
      | Ok (CRet r) => Ok (CRet r)
      end
  end.

(* ---- facts about the primitives ---- *)

Lemma wrap64_id x : int64 x -> wrap64 x = x.
Proof.
  unfold int64, wrap64; intros H.
  change (2^63) with 9223372036854775808 in *. change (2^64) with 18446744073709551616.
  rewrite Z.mod_small; lia.
Qed.

Lemma wadd_id a b : int64 (a + b) -> wadd a b = a + b.
Proof. apply wrap64_id. Qed.
Lemma wsub_id a b : int64 (a - b) -> wsub a b = a - b.
Proof. apply wrap64_id. Qed.
Lemma wmul_id a b : int64 (a * b) -> wmul a b = a * b.
Proof. apply wrap64_id. Qed.

Lemma int64_iff x : int64 x <-> -9223372036854775808 <= x < 9223372036854775808.
Proof. unfold int64. change (2^63) with 9223372036854775808. tauto. Qed.

Lemma gocopy_zeros {A} (zero : A) (n : Z) (src : list A) :
  0 <= n -> gocopy (zrepeat zero n) src = firstn (Z.to_nat n) (src ++ zrepeat zero n).
Proof.
  intros Hn. unfold gocopy, zrepeat. rewrite repeat_length.
  destruct (Nat.le_gt_cases (Z.to_nat n) (length src)) as [H|H].
  - rewrite firstn_app. replace (Z.to_nat n - length src)%nat with O by lia.
    rewrite firstn_O, app_nil_r.
    rewrite skipn_all2 by (rewrite repeat_length; lia). rewrite app_nil_r. reflexivity.
  - rewrite firstn_all2 by lia.
    rewrite firstn_app, (firstn_all2 src) by lia. f_equal.
    assert (E : forall k m, (k <= m)%nat -> skipn k (repeat zero m) = repeat zero (m - k)).
    { induction k as [|k IH]; intros [|m] Hkm; simpl; try reflexivity; try lia.
      - f_equal. apply IH. lia. }
    rewrite E by lia.
    assert (F : forall k m, (k <= m)%nat -> firstn k (repeat zero m) = repeat zero k).
    { induction k as [|k IH]; intros [|m] Hkm; simpl; try reflexivity; try lia.
      f_equal. apply IH. lia. }
    rewrite F by lia. reflexivity.
Qed.

(* ---- maps with comparable keys, as association lists (the representation of Heap/Model.v: m_get / m_set / m_del) ---- *)
Section GoMap.
  Context {K : Type} (keqb : K -> K -> bool).
  Fixpoint gomap_find (m : list (K * Z)) (k : K) : option Z :=
    match m with
    | [] => None
    | (k', v) :: r => if keqb k k' then Some v else gomap_find r k
    end.
  (* v, ok := m[k]: the zero value and false for an absent key *)
  Definition gomapget (m : list (K * Z)) (k : K) : Z * bool :=
    match gomap_find m k with Some v => (v, true) | None => (0, false) end.
  (* delete(m, k) *)
  Fixpoint gomapdel (k : K) (m : list (K * Z)) : list (K * Z) :=
    match m with
    | [] => []
    | (k', v') :: r => if keqb k k' then gomapdel k r else (k', v') :: gomapdel k r
    end.
End GoMap.
