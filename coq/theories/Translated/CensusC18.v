(* The synchronisation census (see tools/gofacts/census.go) that the model Conc/Watch.v and Conc/Future.v was written against:
   per transcribed Go function, the bag of channel operations, select arms, goroutine starts, timer/context/
   sync/atomic calls in its body. Generated/Census.v is re-extracted from the Go source on every run; a function
   that gains or loses such an operation no longer matches, and the obligation below fails: the model then has
   to be re-read against the new code (and this record updated by hand or tools/mkcensus_expected.py). *)
From Coq Require Import String List ZArith.
From Juniper Require Import Generated.Census.
Import ListNotations.
Open Scope string_scope.
Open Scope Z_scope.

(* xsync/xsync.go: func NewFuture *)
Lemma census_C18_xsync_xsync_NewFuture_ok : census_C18_xsync_xsync_NewFuture =
  [("makechan", 1)].
Proof. reflexivity. Qed.

(* xsync/xsync.go: func (Future) Fill *)
Lemma census_C18_xsync_xsync_Future_Fill_ok : census_C18_xsync_xsync_Future_Fill =
  [("call:atomic.CompareAndSwapUint32", 1);
   ("close", 1)].
Proof. reflexivity. Qed.

(* xsync/xsync.go: func (Future) Wait *)
Lemma census_C18_xsync_xsync_Future_Wait_ok : census_C18_xsync_xsync_Future_Wait =
  [("recv", 1)].
Proof. reflexivity. Qed.

(* xsync/xsync.go: func (Future) WaitContext *)
Lemma census_C18_xsync_xsync_Future_WaitContext_ok : census_C18_xsync_xsync_Future_WaitContext =
  [("arm:default", 1);
   ("arm:recv", 3);
   ("call:.Done", 1);
   ("call:.Err", 1);
   ("select", 2)].
Proof. reflexivity. Qed.

(* xsync/xsync_go1.19.go: func (Watchable) Set *)
Lemma census_C18_xsync_xsync_go1_19_Watchable_Set_ok : census_C18_xsync_xsync_go1_19_Watchable_Set =
  [("call:.Swap", 1);
   ("close", 1);
   ("makechan", 1)].
Proof. reflexivity. Qed.

(* xsync/xsync_go1.19.go: func (Watchable) Value *)
Lemma census_C18_xsync_xsync_go1_19_Watchable_Value_ok : census_C18_xsync_xsync_go1_19_Watchable_Value =
  [("call:.CompareAndSwap", 1);
   ("call:.Load", 2);
   ("makechan", 1)].
Proof. reflexivity. Qed.

(* xsync/xsync_go1.21.go: func Lazy *)
Lemma census_C18_xsync_xsync_go1_21_Lazy_ok : census_C18_xsync_xsync_go1_21_Lazy =
  [("call:sync.OnceValue", 1)].
Proof. reflexivity. Qed.

Definition census_expected_C18 : Prop :=
  census_C18_xsync_xsync_NewFuture =
  [("makechan", 1)]
  /\ census_C18_xsync_xsync_Future_Fill =
  [("call:atomic.CompareAndSwapUint32", 1);
   ("close", 1)]
  /\ census_C18_xsync_xsync_Future_Wait =
  [("recv", 1)]
  /\ census_C18_xsync_xsync_Future_WaitContext =
  [("arm:default", 1);
   ("arm:recv", 3);
   ("call:.Done", 1);
   ("call:.Err", 1);
   ("select", 2)]
  /\ census_C18_xsync_xsync_go1_19_Watchable_Set =
  [("call:.Swap", 1);
   ("close", 1);
   ("makechan", 1)]
  /\ census_C18_xsync_xsync_go1_19_Watchable_Value =
  [("call:.CompareAndSwap", 1);
   ("call:.Load", 2);
   ("makechan", 1)]
  /\ census_C18_xsync_xsync_go1_21_Lazy =
  [("call:sync.OnceValue", 1)].

Lemma census_C18_ok : census_expected_C18.
Proof. unfold census_expected_C18. repeat split; reflexivity. Qed.
