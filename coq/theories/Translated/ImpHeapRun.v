(* END TO END: the translated source, run over a whole history, returns the outputs of the model's machine.
   Translated/ImpHeapOK.v and ImpPQOK.v show, method by method, that the statement-level translation of
   internal/heap/heap.go and of xheap.PriorityQueue (Generated/ImpHeap.v, Generated/ImpPQ.v, regenerated from
   the Go source on every run) equals the hand-written model Heap/Model.v in every state a history reaches.
   Here the history machines themselves are rebuilt ON the translated functions (gi_hstep / gi_qstep call
   gi_Heap_Push, gi_Heap_Pop, ..., gi_PQ_Update, ... where Model.hstep / Model.qstep call push, pop, ...,
   pq_update, ...), started from the translated constructor (gi_Heap_New), and shown to print the same list
   of outputs and to reach the same state as Model.hrun / Model.qrun for every initial slice shorter than
   2^60 and every history shorter than 2^60 calls.  Hence every theorem of Properties/C05.v that is stated
   on hrun / qrun holds of the runs of the translated source; two of them are transferred below.
   What is NOT translated (and is therefore still the model's clause inside gi_hstep / gi_qstep):
     - Grow / Shrink (they go through slices.Grow / xslices.Shrink, outside internal/heap),
     - the iterator operations (IterNew, IterNext, Iterate: heapIterator over the slice iterator),
     - NewPriorityQueue (the de-duplicating constructor of the queue): gi_qrun starts from Model.qnew.
   Stdlib only; no axioms. *)
From Coq Require Import ZifyBool Permutation.
From Juniper Require Import Common.Base Heap.Model Heap.Spec Heap.Lemmas Heap.Proofs.
From Juniper Require Import Translated.GoImp Generated.ImpHeap Generated.ImpPQ.
From Juniper Require Import Translated.ImpHeapOK Translated.ImpPQOK.
Open Scope Z_scope.

(* ================= xheap.Heap[int] ================= *)
Section HeapRun.
  Variable less : Z -> Z -> bool.

  (* Model.hstep with every call of a translated method replaced by the translation.  gi_Heap_Len returns a
     [result Z] (the translator's uniform return type); its Panic branch is dead code (gi_Heap_Len_safe) and
     is mapped like every other panic.
     NOT translated, the model's clauses reused unchanged through the last branch: HGrow, HShrink (xslices),
     HIterNew, HIterNext, HIterate (the slice iterator). *)
  Definition gi_hstep (s : hst) (o : hop) : hst * out :=
    let h := hh s in
    let keep := fun h' => mkHst h' (hits s) in
    match o with
    | HPush x =>
        match gi_Heap_Push less no_index x h with Ok h' => (keep h', OUnit) | Panic _ => (s, OPanic) end
    | HPop =>
        match gi_Heap_Pop 0 less no_index h with Ok (x, h') => (keep h', OVal x) | Panic _ => (s, OPanic) end
    | HPeek => match gi_Heap_Peek h with Ok x => (s, OVal x) | Panic _ => (s, OPanic) end
    | HLen => match gi_Heap_Len h with Ok v => (s, OInt v) | Panic _ => (s, OPanic) end
    | HGrow _ | HShrink _ | HIterNew | HIterNext _ | HIterate => hstep less s o
    end.

  Fixpoint gi_hrun_from (s : hst) (ops : list hop) : list out :=
    match ops with
    | [] => []
    | o :: ops' => let '(s', r) := gi_hstep s o in r :: gi_hrun_from s' ops'
    end.

  Fixpoint gi_hrun_state_from (s : hst) (ops : list hop) : hst :=
    match ops with
    | [] => s
    | o :: ops' => gi_hrun_state_from (fst (gi_hstep s o)) ops'
    end.

  (* the translated New where Model.hinit / Model.hrun call hnew *)
  Definition gi_hinit (initial : list Z) : hst :=
    match gi_Heap_New less no_index initial tt with
    | Ok h => mkHst h []
    | Panic _ => mkHst (mkHeap initial (-2) tt) []
    end.

  Definition gi_hrun (initial : list Z) (ops : list hop) : list out :=
    match gi_Heap_New less no_index initial tt with
    | Ok h => gi_hrun_from (mkHst h []) ops
    | Panic _ => [OBad]
    end.

  Definition gi_hrun_state (initial : list Z) (ops : list hop) : hst :=
    gi_hrun_state_from (gi_hinit initial) ops.

  (* ---- one step ---- *)
  Lemma gi_hstep_eq s o : small (hh s) -> gi_hstep s o = hstep less s o.
  Proof.
    intros Hs. destruct o; cbv beta iota zeta delta [gi_hstep Model.hstep].
    - rewrite gi_Push_ok by exact Hs. reflexivity.
    - rewrite gi_Pop_ok by exact Hs. reflexivity.
    - rewrite gi_Peek_ok. reflexivity.
    - rewrite gi_Len_ok. reflexivity.
    - reflexivity.
    - reflexivity.
    - reflexivity.
    - reflexivity.
    - reflexivity.
  Qed.

  (* ---- a whole history from any state with room left: the bound on length + remaining calls and on
          generation + remaining calls decreases by at most one per step (hstep_bound), and the generation
          stays nonnegative (hstep_gen_inv) ---- *)
  Definition hroom (s : hst) (ops : list hop) : Prop :=
    zlen (ha (hh s)) + Z.of_nat (length ops) < 2^61 /\ hgen (hh s) + Z.of_nat (length ops) < 2^62.

  Lemma hroom_small s ops : hgen_inv s -> hroom s ops -> small (hh s).
  Proof.
    unfold hroom, small. change (2^61) with 2305843009213693952. change (2^62) with 4611686018427387904.
    intros [Hg _] [Hl Hgb]. lia.
  Qed.

  Lemma hroom_step s o ops : hroom s (o :: ops) -> hroom (fst (hstep less s o)) ops.
  Proof.
    unfold hroom. change (2^61) with 2305843009213693952. change (2^62) with 4611686018427387904.
    cbn [length]. intros [Hl Hgb]. pose proof (hstep_bound less s o) as [Bl Bg]. lia.
  Qed.

  Lemma gi_hrun_from_eq : forall ops s,
      hgen_inv s -> hroom s ops -> gi_hrun_from s ops = hrun_from less s ops.
  Proof.
    induction ops as [|o ops IH]; intros s Hinv Hroom; cbn [gi_hrun_from Model.hrun_from]; [reflexivity|].
    rewrite (gi_hstep_eq s o (hroom_small s (o :: ops) Hinv Hroom)).
    pose proof (hstep_gen_inv less s o Hinv) as Hinv'.
    pose proof (hroom_step s o ops Hroom) as Hroom'.
    destruct (hstep less s o) as [s' r]. cbn [fst] in Hinv', Hroom'.
    rewrite (IH s' Hinv' Hroom'). reflexivity.
  Qed.

  Lemma gi_hrun_state_from_eq : forall ops s,
      hgen_inv s -> hroom s ops -> gi_hrun_state_from s ops = hrun_state_from less s ops.
  Proof.
    induction ops as [|o ops IH]; intros s Hinv Hroom; cbn [gi_hrun_state_from Model.hrun_state_from];
      [reflexivity|].
    rewrite (gi_hstep_eq s o (hroom_small s (o :: ops) Hinv Hroom)).
    apply IH; [apply hstep_gen_inv; exact Hinv|apply hroom_step; exact Hroom].
  Qed.

  (* the statement asked for, with the plain arithmetic hypotheses *)
  Lemma gi_hrun_from_eq_bounds : forall ops s,
      zlen (ha (hh s)) + Z.of_nat (length ops) < 2^61 -> hgen_inv s ->
      hgen (hh s) + Z.of_nat (length ops) < 2^62 ->
      gi_hrun_from s ops = hrun_from less s ops.
  Proof. intros ops s Hl Hinv Hg. apply gi_hrun_from_eq; [exact Hinv|split; assumption]. Qed.

  (* ---- from New ---- *)
  Lemma gi_hinit_eq initial : zlen initial < 2^60 -> gi_hinit initial = hinit less initial.
  Proof.
    intros Hi. unfold gi_hinit, Model.hinit. rewrite (translated_heap_new_agrees less initial Hi). reflexivity.
  Qed.

  Lemma hinit_room initial ops :
    zlen initial < 2^60 -> Z.of_nat (length ops) < 2^60 -> hroom (hinit less initial) ops.
  Proof.
    change (2^60) with 1152921504606846976. intros Hi Ho.
    unfold hroom. change (2^61) with 2305843009213693952. change (2^62) with 4611686018427387904.
    destruct (hinit_eq less initial) as [h0 [_ [E [G0 [Hp _]]]]]. rewrite E. cbn [hh].
    apply perm_zlen in Hp. lia.
  Qed.

  Theorem gi_hrun_eq : forall initial ops,
      zlen initial < 2^60 -> Z.of_nat (length ops) < 2^60 -> gi_hrun initial ops = hrun less initial ops.
  Proof.
    intros initial ops Hi Ho.
    pose proof (hinit_gen_inv less initial) as Hinv. pose proof (hinit_room initial ops Hi Ho) as Hroom.
    unfold gi_hrun, Model.hrun. rewrite (translated_heap_new_agrees less initial Hi).
    destruct (hinit_eq less initial) as [h0 [E0 [E _]]]. rewrite E in Hinv, Hroom. rewrite E0.
    apply gi_hrun_from_eq; [exact Hinv|exact Hroom].
  Qed.

  Theorem gi_hrun_state_eq : forall initial ops,
      zlen initial < 2^60 -> Z.of_nat (length ops) < 2^60 ->
      gi_hrun_state initial ops = hrun_state less initial ops.
  Proof.
    intros initial ops Hi Ho. unfold gi_hrun_state, Model.hrun_state. rewrite (gi_hinit_eq initial Hi).
    apply gi_hrun_state_from_eq; [apply hinit_gen_inv|apply hinit_room; assumption].
  Qed.

  (* ---- C05 on the runs of the translated source ---- *)

  (* every call of the translated source returns what the ideal multiset (initial + pushes - pops) allows *)
  Theorem gi_heap_refines_multiset : strict_weak less -> forall initial ops,
      zlen initial < 2^60 -> Z.of_nat (length ops) < 2^60 ->
      hspec_run less initial ops (gi_hrun initial ops).
  Proof.
    intros SWO initial ops Hi Ho. rewrite (gi_hrun_eq initial ops Hi Ho).
    exact (heap_refines_multiset less SWO initial ops).
  Qed.

  (* the heap order holds in every state the translated source reaches *)
  Theorem gi_heap_ordered_reach : strict_weak less -> forall initial ops,
      zlen initial < 2^60 -> Z.of_nat (length ops) < 2^60 ->
      heap_ordered less (ha (hh (gi_hrun_state initial ops))).
  Proof.
    intros SWO initial ops Hi Ho. rewrite (gi_hrun_state_eq initial ops Hi Ho).
    exact (heap_ordered_reach less SWO initial ops).
  Qed.
End HeapRun.

(* ================= xheap.PriorityQueue[int, int] ================= *)
Section QueueRun.
  Variable pless : Z -> Z -> bool.

  (* Model.qstep with every call of a translated method replaced by the translation.  gi_PQ_Contains and
     gi_PQ_Len return [result bool] / [result Z]; their Panic branches are dead code.
     NOT translated, the model's clauses reused unchanged through the last branch: QGrow (slices.Grow),
     QIterNew, QIterNext, QIterate (iterator.Map over the heap iterator). *)
  Definition gi_qstep (s : qst) (o : qop) : qst * out :=
    let q := qq s in
    let keep := fun q' => mkQst q' (qits s) in
    match o with
    | QUpdate k p =>
        match gi_PQ_Update Z.eqb pless k p q with Ok q' => (keep q', OUnit) | Panic _ => (s, OPanic) end
    | QPop =>
        match gi_PQ_Pop Z.eqb 0 0 pless q with Ok (k, q') => (keep q', OVal k) | Panic _ => (s, OPanic) end
    | QPeek => match gi_PQ_Peek q with Ok k => (s, OVal k) | Panic _ => (s, OPanic) end
    | QContains k => match gi_PQ_Contains Z.eqb k q with Ok b => (s, OBool b) | Panic _ => (s, OPanic) end
    | QPriority k =>
        match gi_PQ_Priority Z.eqb 0 k q with Ok p => (s, OInt p) | Panic _ => (s, OPanic) end
    | QRemove k =>
        match gi_PQ_Remove Z.eqb 0 0 pless k q with Ok q' => (keep q', OUnit) | Panic _ => (s, OPanic) end
    | QLen => match gi_PQ_Len q with Ok v => (s, OInt v) | Panic _ => (s, OPanic) end
    | QGrow _ | QIterNew | QIterNext _ | QIterate => qstep pless s o
    end.

  Fixpoint gi_qrun_from (s : qst) (ops : list qop) : list out :=
    match ops with
    | [] => []
    | o :: ops' => let '(s', r) := gi_qstep s o in r :: gi_qrun_from s' ops'
    end.

  Fixpoint gi_qrun_state_from (s : qst) (ops : list qop) : qst :=
    match ops with
    | [] => s
    | o :: ops' => gi_qrun_state_from (fst (gi_qstep s o)) ops'
    end.

  (* NewPriorityQueue is not translated: the run starts from the model's constructor, as Model.qrun does *)
  Definition gi_qrun (initial : list (Z * Z)) (ops : list qop) : list out :=
    match qnew pless initial with
    | Ok q => gi_qrun_from (mkQst q []) ops
    | Panic _ => [OBad]
    end.

  Definition gi_qrun_state (initial : list (Z * Z)) (ops : list qop) : qst :=
    gi_qrun_state_from (qinit pless initial) ops.

  (* ---- one step ---- *)
  Lemma gi_qstep_eq s o : small (qq s) -> gi_qstep s o = qstep pless s o.
  Proof.
    intros Hs. destruct o; cbv beta iota zeta delta [gi_qstep Model.qstep].
    - rewrite gi_PQ_Update_ok by exact Hs. reflexivity.
    - rewrite gi_PQ_Pop_ok by exact Hs. reflexivity.
    - rewrite gi_PQ_Peek_ok. reflexivity.
    - rewrite gi_PQ_Contains_ok. reflexivity.
    - rewrite gi_PQ_Priority_ok. reflexivity.
    - rewrite gi_PQ_Remove_ok by exact Hs. reflexivity.
    - rewrite gi_PQ_Len_ok. reflexivity.
    - reflexivity.
    - reflexivity.
    - reflexivity.
    - reflexivity.
  Qed.

  Definition qroom (s : qst) (ops : list qop) : Prop :=
    zlen (ha (qq s)) + Z.of_nat (length ops) < 2^61 /\ hgen (qq s) + Z.of_nat (length ops) < 2^62.

  Lemma qroom_small s ops : qgen_inv s -> qroom s ops -> small (qq s).
  Proof.
    unfold qroom, small. change (2^61) with 2305843009213693952. change (2^62) with 4611686018427387904.
    intros [Hg _] [Hl Hgb]. lia.
  Qed.

  Lemma qroom_step s o ops : qroom s (o :: ops) -> qroom (fst (qstep pless s o)) ops.
  Proof.
    unfold qroom. change (2^61) with 2305843009213693952. change (2^62) with 4611686018427387904.
    cbn [length]. intros [Hl Hgb]. pose proof (qstep_bound pless s o) as [Bl Bg]. lia.
  Qed.

  Lemma gi_qrun_from_eq : forall ops s,
      qgen_inv s -> qroom s ops -> gi_qrun_from s ops = qrun_from pless s ops.
  Proof.
    induction ops as [|o ops IH]; intros s Hinv Hroom; cbn [gi_qrun_from Model.qrun_from]; [reflexivity|].
    rewrite (gi_qstep_eq s o (qroom_small s (o :: ops) Hinv Hroom)).
    pose proof (qstep_gen_inv pless s o Hinv) as Hinv'.
    pose proof (qroom_step s o ops Hroom) as Hroom'.
    destruct (qstep pless s o) as [s' r]. cbn [fst] in Hinv', Hroom'.
    rewrite (IH s' Hinv' Hroom'). reflexivity.
  Qed.

  Lemma gi_qrun_state_from_eq : forall ops s,
      qgen_inv s -> qroom s ops -> gi_qrun_state_from s ops = qrun_state_from pless s ops.
  Proof.
    induction ops as [|o ops IH]; intros s Hinv Hroom; cbn [gi_qrun_state_from Model.qrun_state_from];
      [reflexivity|].
    rewrite (gi_qstep_eq s o (qroom_small s (o :: ops) Hinv Hroom)).
    apply IH; [apply qstep_gen_inv; exact Hinv|apply qroom_step; exact Hroom].
  Qed.

  Lemma qinit_room initial ops :
    zlen initial < 2^60 -> Z.of_nat (length ops) < 2^60 -> qroom (qinit pless initial) ops.
  Proof.
    change (2^60) with 1152921504606846976. intros Hi Ho.
    unfold qroom. change (2^61) with 2305843009213693952. change (2^62) with 4611686018427387904.
    pose proof (qinit_bound pless initial) as [Hl0 Hg0]. lia.
  Qed.

  (* no hypothesis on pless: NewPriorityQueue never fails (qinit_eq) *)
  Theorem gi_qrun_eq : forall initial ops,
      zlen initial < 2^60 -> Z.of_nat (length ops) < 2^60 -> gi_qrun initial ops = qrun pless initial ops.
  Proof.
    intros initial ops Hi Ho.
    pose proof (qinit_gen_inv pless initial) as Hinv. pose proof (qinit_room initial ops Hi Ho) as Hroom.
    unfold gi_qrun, Model.qrun.
    destruct (qinit_eq pless initial) as [q0 [E0 [E _]]]. rewrite E in Hinv, Hroom. rewrite E0.
    apply gi_qrun_from_eq; [exact Hinv|exact Hroom].
  Qed.

  Theorem gi_qrun_state_eq : forall initial ops,
      zlen initial < 2^60 -> Z.of_nat (length ops) < 2^60 ->
      gi_qrun_state initial ops = qrun_state pless initial ops.
  Proof.
    intros initial ops Hi Ho. unfold gi_qrun_state, Model.qrun_state.
    apply gi_qrun_state_from_eq; [apply qinit_gen_inv|apply qinit_room; assumption].
  Qed.

  (* ---- C05 on the runs of the translated source ---- *)

  (* every call of the translated source returns what the ideal finite map (first occurrences of initial,
     then updates and removals) allows *)
  Theorem gi_queue_refines_map : strict_weak pless -> forall initial ops,
      zlen initial < 2^60 -> Z.of_nat (length ops) < 2^60 ->
      qspec_run pless (first_occ initial) ops (gi_qrun initial ops).
  Proof.
    intros SWO initial ops Hi Ho. rewrite (gi_qrun_eq initial ops Hi Ho).
    exact (queue_refines_map pless SWO initial ops).
  Qed.

  (* the index map is exact and the heap order holds in every state the translated source reaches *)
  Theorem gi_queue_inv_reach : strict_weak pless -> forall initial ops,
      zlen initial < 2^60 -> Z.of_nat (length ops) < 2^60 ->
      let q := qq (gi_qrun_state initial ops) in
      index_exact Z.eqb (ha q) (hs q) /\ heap_ordered (@kpless Z Z pless) (ha q).
  Proof.
    intros SWO initial ops Hi Ho. rewrite (gi_qrun_state_eq initial ops Hi Ho).
    exact (queue_inv_reach pless SWO initial ops).
  Qed.
End QueueRun.
