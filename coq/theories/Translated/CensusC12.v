(* The synchronisation census (see tools/gofacts/census.go) that the model Conc/Merge.v was written against:
   per transcribed Go function, the bag of channel operations, select arms, goroutine starts, timer/context/
   sync/atomic calls in its body. Generated/Census.v is re-extracted from the Go source on every run; a function
   that gains or loses such an operation no longer matches, and the obligation below fails: the model then has
   to be re-read against the new code (and this record updated by hand or tools/mkcensus_expected.py). *)
From Coq Require Import String List ZArith.
From Juniper Require Import Generated.Census.
Import ListNotations.
Open Scope string_scope.
Open Scope Z_scope.

(* chans/chans.go: func Merge *)
Lemma census_C12_chans_chans_Merge_ok : census_C12_chans_chans_Merge =
  [("call:reflect.Select", 1);
   ("call:reflect.ValueOf", 1);
   ("range", 1);
   ("send", 2)].
Proof. reflexivity. Qed.

(* chans/chans.go: func merge2 *)
Lemma census_C12_chans_chans_merge2_ok : census_C12_chans_chans_merge2 =
  [("arm:recv", 2);
   ("select", 1);
   ("send", 2)].
Proof. reflexivity. Qed.

(* chans/chans.go: func merge3 *)
Lemma census_C12_chans_chans_merge3_ok : census_C12_chans_chans_merge3 =
  [("arm:recv", 3);
   ("select", 1);
   ("send", 3)].
Proof. reflexivity. Qed.

(* chans/chans.go: func Replicate *)
Lemma census_C12_chans_chans_Replicate_ok : census_C12_chans_chans_Replicate =
  [("range", 2);
   ("send", 1)].
Proof. reflexivity. Qed.

(* stream/stream.go: func Merge *)
Lemma census_C12_stream_stream_Merge_ok : census_C12_stream_stream_Merge =
  [("call:.Add", 1);
   ("call:.Done", 1);
   ("call:.Wait", 1);
   ("call:atomic.AddUint32", 1);
   ("call:atomic.CompareAndSwapUint32", 1);
   ("call:atomic.LoadUint32", 1);
   ("call:cancel", 2);
   ("call:context.Background", 1);
   ("call:context.WithCancel", 1);
   ("go", 1)].
Proof. reflexivity. Qed.

(* stream/stream.go: func (mergeStream) Next *)
Lemma census_C12_stream_stream_mergeStream_Next_ok : census_C12_stream_stream_mergeStream_Next =
  [].
Proof. reflexivity. Qed.

(* stream/stream.go: func (mergeStream) Close *)
Lemma census_C12_stream_stream_mergeStream_Close_ok : census_C12_stream_stream_mergeStream_Close =
  [("call:cancel", 1)].
Proof. reflexivity. Qed.

Definition census_expected_C12 : Prop :=
  census_C12_chans_chans_Merge =
  [("call:reflect.Select", 1);
   ("call:reflect.ValueOf", 1);
   ("range", 1);
   ("send", 2)]
  /\ census_C12_chans_chans_merge2 =
  [("arm:recv", 2);
   ("select", 1);
   ("send", 2)]
  /\ census_C12_chans_chans_merge3 =
  [("arm:recv", 3);
   ("select", 1);
   ("send", 3)]
  /\ census_C12_chans_chans_Replicate =
  [("range", 2);
   ("send", 1)]
  /\ census_C12_stream_stream_Merge =
  [("call:.Add", 1);
   ("call:.Done", 1);
   ("call:.Wait", 1);
   ("call:atomic.AddUint32", 1);
   ("call:atomic.CompareAndSwapUint32", 1);
   ("call:atomic.LoadUint32", 1);
   ("call:cancel", 2);
   ("call:context.Background", 1);
   ("call:context.WithCancel", 1);
   ("go", 1)]
  /\ census_C12_stream_stream_mergeStream_Next =
  []
  /\ census_C12_stream_stream_mergeStream_Close =
  [("call:cancel", 1)].

Lemma census_C12_ok : census_expected_C12.
Proof. unfold census_expected_C12. repeat split; reflexivity. Qed.
