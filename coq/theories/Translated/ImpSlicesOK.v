(* The statement-level translation of seven functions of xslices/xslices.go (Generated/ImpSlices.v, regenerated
   from the Go source on every run by tools/gofacts/imp.go: All, CountFunc, Fill, LastIndexFunc, Partition, Reduce,
   Reverse) computes, on every slice of fewer than 2^62 elements and for every callback, exactly what the
   hand-written models of Pure/Slices.v compute: the translated code returns Ok of the model's value, so it never
   panics (every index is in range), no 64-bit wrap happens, and the fuel S (length s) given to every loop suffices.
   Together with Properties/C19.v this carries the C19 specifications of these functions from the models to the
   translated source.

   Method: the body of every loop of the generated file is restated here VERBATIM as a definition ([.._body], and
   [.._k] for the code after the loop); the final theorems start with a [change] that checks, by conversion, that
   the generated function is the loop over that body.  Each loop has a lemma, by induction on the number of
   iterations left, relating [goloop] started in an intermediate state to the model's recursion started in the
   corresponding state.  Stdlib only; no axioms. *)
From Coq Require Import ZifyBool.
From Juniper Require Import Common.Base Pure.Slices Translated.GoImp Generated.ImpSlices.
Open Scope Z_scope.

Ltac wr1 :=
  match goal with
  | |- context [wadd ?a ?b] => rewrite (wadd_id a b) by (apply int64_iff; lia)
  | |- context [wsub ?a ?b] => rewrite (wsub_id a b) by (apply int64_iff; lia)
  | |- context [wmul ?a ?b] => rewrite (wmul_id a b) by (apply int64_iff; lia)
  end.
Ltac wr := change (wneg 1) with (-1) in *; repeat wr1.

(* ---- the primitives: one step of a loop, reads and writes in range ---- *)
Section Prims.
  Context {St R : Type}.
  Implicit Types (body : St -> result (ctl St R)) (st : St).

  Lemma goloop_next fuel body st st' :
    body st = Ok (CNext st') -> goloop (S fuel) body st = goloop fuel body st'.
  Proof. intros H. simpl. rewrite H. reflexivity. Qed.

  Lemma goloop_break fuel body st st' :
    body st = Ok (CBreak st') -> goloop (S fuel) body st = Ok (CBreak st').
  Proof. intros H. simpl. rewrite H. reflexivity. Qed.

  Lemma goloop_ret fuel body st r :
    body st = Ok (CRet r) -> goloop (S fuel) body st = Ok (CRet r).
  Proof. intros H. simpl. rewrite H. reflexivity. Qed.
End Prims.

Lemma upd_app_here {A} (pre : list A) y t x : upd (pre ++ y :: t) (length pre) x = pre ++ x :: t.
Proof. induction pre as [|h pre IH]; cbn [app length upd]; [reflexivity|]. rewrite IH. reflexivity. Qed.

(* s[len(pre)] of pre ++ x :: t *)
Lemma goget_app {A} (pre : list A) x t : goget (pre ++ x :: t) (zlen pre) = Ok x.
Proof.
  unfold goget, zget, zlen. destruct (Z.ltb_spec (Z.of_nat (length pre)) 0) as [H|H]; [lia|].
  rewrite Nat2Z.id, nth_error_app2 by lia. rewrite Nat.sub_diag. reflexivity.
Qed.

Lemma goset_app {A} (pre : list A) y t x : goset (pre ++ y :: t) (zlen pre) x = Ok (pre ++ x :: t).
Proof.
  unfold goset, zset. rewrite zlen_app, zlen_cons. pose proof (zlen_nonneg pre) as Hp. pose proof (zlen_nonneg t) as Ht.
  destruct (Z.ltb_spec (zlen pre) 0) as [H|H]; [lia|].
  destruct (Z.leb_spec (zlen pre + (1 + zlen t)) (zlen pre)) as [H2|H2]; [lia|]. cbn [orb].
  unfold zlen. rewrite Nat2Z.id, upd_app_here. reflexivity.
Qed.

Lemma goget_znth (s : list Z) i : 0 <= i < zlen s -> goget s i = Ok (znth s i).
Proof.
  intros H. unfold goget, zget, znth. destruct (Z.ltb_spec i 0) as [Hn|Hn]; [lia|].
  destruct (nth_error s (Z.to_nat i)) as [x|] eqn:E.
  - rewrite (nth_error_nth _ _ 0 E). reflexivity.
  - apply nth_error_None in E. unfold zlen in H. lia.
Qed.

Lemma goset_zupd (s : list Z) i x : 0 <= i < zlen s -> goset s i x = Ok (zupd s i x).
Proof.
  intros H. unfold goset, zset, zupd. destruct (Z.ltb_spec i 0) as [Hn|Hn]; [lia|].
  destruct (Z.leb_spec (zlen s) i) as [Hl|Hl]; [lia|]. reflexivity.
Qed.

Lemma zlen_zupd (s : list Z) i x : zlen (zupd s i x) = zlen s.
Proof. unfold zlen, zupd. rewrite upd_length. reflexivity. Qed.

Lemma zlen_swap (s : list Z) i j : zlen (swap s i j) = zlen s.
Proof. unfold swap. rewrite !zlen_zupd. reflexivity. Qed.

Lemma zlen_snoc {A} (pre : list A) x : zlen (pre ++ [x]) = zlen pre + 1.
Proof. rewrite zlen_app. reflexivity. Qed.

(* ================================================================ All *)

Definition all_body (s : list Z) (f : Z -> bool) : Z -> result (ctl Z bool) := fun i =>
  if (i <? zlen s)
  then rbind (goget s i) (fun v2_ =>
  if (negb (f v2_))
  then Ok (CRet false)
  else let i := (i + 1) in
  Ok (CNext i))
  else Ok (CBreak i).

Definition all_k : ctl Z bool -> result bool := fun c_ =>
  match c_ with
  | CRet r_ => Ok r_
  | CNext i | CBreak i =>
  Ok true
  end.

(* the loop at i = len(pre), with t = s[i:] still to be read *)
Lemma all_loop (s : list Z) (f : Z -> bool) : forall t pre, s = pre ++ t ->
  rbind (goloop (S (length t)) (all_body s f) (zlen pre)) all_k = Ok (all f t).
Proof.
  induction t as [|x t IH]; intros pre E.
  - assert (B : all_body s f (zlen pre) = Ok (CBreak (zlen pre))).
    { unfold all_body. rewrite E, app_nil_r.
      destruct (Z.ltb_spec (zlen pre) (zlen pre)) as [H|H]; [lia|reflexivity]. }
    rewrite (goloop_break _ _ _ _ B). reflexivity.
  - pose proof (zlen_nonneg t) as Ht.
    assert (L : zlen pre <? zlen s = true).
    { rewrite E, zlen_app, zlen_cons. apply Z.ltb_lt. lia. }
    assert (G : goget s (zlen pre) = Ok x) by (rewrite E; apply goget_app).
    cbn [all length]. destruct (f x) eqn:Ef.
    + assert (B : all_body s f (zlen pre) = Ok (CNext (zlen (pre ++ [x])))).
      { unfold all_body. rewrite L, G. cbn [rbind]. rewrite Ef. cbn [negb]. rewrite zlen_snoc. reflexivity. }
      rewrite (goloop_next _ _ _ _ B). apply IH. rewrite <- app_assoc. exact E.
    + assert (B : all_body s f (zlen pre) = Ok (CRet false)).
      { unfold all_body. rewrite L, G. cbn [rbind]. rewrite Ef. reflexivity. }
      rewrite (goloop_ret _ _ _ _ B). reflexivity.
Qed.

Theorem gi_All_ok (s : list Z) (f : Z -> bool) : gi_xslices_All s f = Ok (all f s).
Proof.
  change (gi_xslices_All s f) with (rbind (goloop (S (length s)) (all_body s f) (zlen (@nil Z))) all_k).
  apply all_loop. reflexivity.
Qed.

(* ================================================================ CountFunc *)

Definition count_body (s0_ : list Z) (f : Z -> bool) : Z * Z -> result (ctl (Z * Z) Z) := fun '(i1_, n) =>
  if (i1_ <? zlen s0_)
  then rbind (goget s0_ i1_) (fun s =>
  rbind (if (f s)
  then let n := (wadd n 1) in
  Ok n
  else Ok n) (fun n =>
  let i1_ := (i1_ + 1) in
  Ok (CNext (i1_, n))))
  else Ok (CBreak (i1_, n)).

Definition count_k : ctl (Z * Z) Z -> result Z := fun c_ =>
  match c_ with
  | CRet r_ => Ok r_
  | CNext (i1_, n) | CBreak (i1_, n) =>
  Ok n
  end.

(* n counts matches among the first len(pre) items, so n <= len(pre) < 2^62: n + 1 does not wrap *)
Lemma count_loop_ok (s : list Z) (f : Z -> bool) : zlen s < 2^62 -> forall t pre n, s = pre ++ t ->
  0 <= n <= zlen pre ->
  rbind (goloop (S (length t)) (count_body s f) (zlen pre, n)) count_k = Ok (count_loop f t n).
Proof.
  intros Hs. change (2^62) with 4611686018427387904 in Hs.
  induction t as [|x t IH]; intros pre n E Hn.
  - assert (B : count_body s f (zlen pre, n) = Ok (CBreak (zlen pre, n))).
    { unfold count_body. rewrite E, app_nil_r.
      destruct (Z.ltb_spec (zlen pre) (zlen pre)) as [H|H]; [lia|reflexivity]. }
    rewrite (goloop_break _ _ _ _ B). reflexivity.
  - pose proof (zlen_nonneg t) as Ht.
    assert (Hl : zlen s = zlen pre + (1 + zlen t)) by (rewrite E, zlen_app, zlen_cons; reflexivity).
    assert (L : zlen pre <? zlen s = true) by (apply Z.ltb_lt; lia).
    assert (G : goget s (zlen pre) = Ok x) by (rewrite E; apply goget_app).
    assert (B : count_body s f (zlen pre, n) = Ok (CNext (zlen (pre ++ [x]), if f x then n + 1 else n))).
    { unfold count_body. rewrite L, G. cbn [rbind]. rewrite zlen_snoc.
      destruct (f x); cbv zeta; cbn [rbind]; wr; reflexivity. }
    rewrite (goloop_next _ _ _ _ B). cbn [count_loop]. apply IH.
    + rewrite <- app_assoc. exact E.
    + rewrite zlen_snoc. destruct (f x); lia.
Qed.

Theorem gi_CountFunc_ok (s : list Z) (f : Z -> bool) : zlen s < 2^62 ->
  gi_xslices_CountFunc s f = Ok (count_func f s).
Proof.
  intros Hs.
  change (gi_xslices_CountFunc s f) with (rbind (goloop (S (length s)) (count_body s f) (zlen (@nil Z), 0)) count_k).
  unfold count_func. apply count_loop_ok; [exact Hs|reflexivity|]. change (zlen (@nil Z)) with 0. lia.
Qed.

(* ================================================================ Fill *)

Definition fill_body (s0_ : list Z) (x : Z) : Z * list Z -> result (ctl (Z * list Z) (list Z)) := fun '(i, s) =>
  if (i <? zlen s0_)
  then rbind (goset s i x) (fun s =>
  let i := (i + 1) in
  Ok (CNext (i, s)))
  else Ok (CBreak (i, s)).

Definition fill_k : ctl (Z * list Z) (list Z) -> result (list Z) := fun c_ =>
  match c_ with
  | CRet r_ => Ok r_
  | CNext (i, s) | CBreak (i, s) =>
  Ok s
  end.

(* the slice is pre ++ t with i = len(pre); len(s0_) is the length before the loop, which the writes keep *)
Lemma fill_loop (s0 : list Z) (x : Z) : forall t pre, zlen s0 = zlen pre + zlen t ->
  rbind (goloop (S (length t)) (fill_body s0 x) (zlen pre, pre ++ t)) fill_k = Ok (pre ++ fill t x).
Proof.
  induction t as [|y t IH]; intros pre E.
  - assert (B : fill_body s0 x (zlen pre, pre ++ []) = Ok (CBreak (zlen pre, pre ++ []))).
    { unfold fill_body. rewrite E. change (zlen (@nil Z)) with 0.
      destruct (Z.ltb_spec (zlen pre) (zlen pre + 0)) as [H|H]; [lia|reflexivity]. }
    rewrite (goloop_break _ _ _ _ B). reflexivity.
  - pose proof (zlen_nonneg t) as Ht. rewrite zlen_cons in E.
    assert (L : zlen pre <? zlen s0 = true) by (apply Z.ltb_lt; lia).
    assert (B : fill_body s0 x (zlen pre, pre ++ y :: t) = Ok (CNext (zlen (pre ++ [x]), (pre ++ [x]) ++ t))).
    { unfold fill_body. rewrite L, goset_app. cbn [rbind]. rewrite zlen_snoc, <- app_assoc. reflexivity. }
    cbn [length]. rewrite (goloop_next _ _ _ _ B). rewrite IH by (rewrite zlen_snoc; lia).
    rewrite <- app_assoc. reflexivity.
Qed.

Theorem gi_Fill_ok (s : list Z) (x : Z) : gi_xslices_Fill s x = Ok (fill s x).
Proof.
  change (gi_xslices_Fill s x) with (rbind (goloop (S (length s)) (fill_body s x) (zlen (@nil Z), [] ++ s)) fill_k).
  apply (fill_loop s x s []). change (zlen (@nil Z)) with 0. lia.
Qed.

(* ================================================================ Reduce *)

Definition reduce_body (s : list Z) (f : Z -> Z -> Z) : Z * Z -> result (ctl (Z * Z) Z) := fun '(i, out) =>
  if (i <? zlen s)
  then rbind (goget s i) (fun v2_ =>
  let out := (f out v2_) in
  let i := (i + 1) in
  Ok (CNext (i, out)))
  else Ok (CBreak (i, out)).

Definition reduce_k : ctl (Z * Z) Z -> result Z := fun c_ =>
  match c_ with
  | CRet r_ => Ok r_
  | CNext (i, out) | CBreak (i, out) =>
  Ok out
  end.

Lemma reduce_loop (s : list Z) (f : Z -> Z -> Z) : forall t pre acc, s = pre ++ t ->
  rbind (goloop (S (length t)) (reduce_body s f) (zlen pre, acc)) reduce_k = Ok (reduce f t acc).
Proof.
  induction t as [|x t IH]; intros pre acc E.
  - assert (B : reduce_body s f (zlen pre, acc) = Ok (CBreak (zlen pre, acc))).
    { unfold reduce_body. rewrite E, app_nil_r.
      destruct (Z.ltb_spec (zlen pre) (zlen pre)) as [H|H]; [lia|reflexivity]. }
    rewrite (goloop_break _ _ _ _ B). reflexivity.
  - pose proof (zlen_nonneg t) as Ht.
    assert (L : zlen pre <? zlen s = true).
    { rewrite E, zlen_app, zlen_cons. apply Z.ltb_lt. lia. }
    assert (G : goget s (zlen pre) = Ok x) by (rewrite E; apply goget_app).
    assert (B : reduce_body s f (zlen pre, acc) = Ok (CNext (zlen (pre ++ [x]), f acc x))).
    { unfold reduce_body. rewrite L, G. cbn [rbind]. rewrite zlen_snoc. reflexivity. }
    cbn [length reduce]. rewrite (goloop_next _ _ _ _ B). apply IH. rewrite <- app_assoc. exact E.
Qed.

(* Go: Reduce(s, initial, f); model: reduce f s initial *)
Theorem gi_Reduce_ok (s : list Z) (init : Z) (f : Z -> Z -> Z) : gi_xslices_Reduce s init f = Ok (reduce f s init).
Proof.
  change (gi_xslices_Reduce s init f) with
    (rbind (goloop (S (length s)) (reduce_body s f) (zlen (@nil Z), init)) reduce_k).
  apply reduce_loop. reflexivity.
Qed.

(* ================================================================ LastIndexFunc *)

Definition lif_body (s : list Z) (f : Z -> bool) : Z -> result (ctl Z Z) := fun i =>
  if (i >=? 0)
  then rbind (goget s i) (fun v1_ =>
  if (f v1_)
  then Ok (CRet i)
  else let i := (wsub i 1) in
  Ok (CNext i))
  else Ok (CBreak i).

Definition lif_k : ctl Z Z -> result Z := fun c_ =>
  match c_ with
  | CRet r_ => Ok r_
  | CNext i | CBreak i =>
  Ok (wneg 1)
  end.

(* the loop at i = n - 1, with s[0:n] still to be read *)
Lemma lif_loop (s : list Z) (f : Z -> bool) : zlen s < 2^62 -> forall n, (n <= length s)%nat ->
  rbind (goloop (S n) (lif_body s f) (Z.of_nat n - 1)) lif_k = Ok (last_index_loop f s n).
Proof.
  intros Hs. change (2^62) with 4611686018427387904 in Hs. unfold zlen in Hs.
  induction n as [|n IH]; intros Hn.
  - assert (B : lif_body s f (Z.of_nat 0 - 1) = Ok (CBreak (Z.of_nat 0 - 1))) by reflexivity.
    rewrite (goloop_break _ _ _ _ B). reflexivity.
  - replace (Z.of_nat (S n) - 1) with (Z.of_nat n) by lia.
    assert (L : Z.of_nat n >=? 0 = true) by (rewrite Z.geb_leb; apply Z.leb_le; lia).
    assert (G : goget s (Z.of_nat n) = Ok (znth s (Z.of_nat n))) by (apply goget_znth; unfold zlen; lia).
    cbn [last_index_loop]. destruct (f (znth s (Z.of_nat n))) eqn:Ef.
    + assert (B : lif_body s f (Z.of_nat n) = Ok (CRet (Z.of_nat n))).
      { unfold lif_body. rewrite L, G. cbn [rbind]. rewrite Ef. reflexivity. }
      rewrite (goloop_ret _ _ _ _ B). reflexivity.
    + assert (B : lif_body s f (Z.of_nat n) = Ok (CNext (Z.of_nat n - 1))).
      { unfold lif_body. rewrite L, G. cbn [rbind]. rewrite Ef. cbv zeta. wr. reflexivity. }
      rewrite (goloop_next _ _ _ _ B). apply IH. lia.
Qed.

Theorem gi_LastIndexFunc_ok (s : list Z) (f : Z -> bool) : zlen s < 2^62 ->
  gi_xslices_LastIndexFunc s f = Ok (last_index_func f s).
Proof.
  intros Hs.
  change (gi_xslices_LastIndexFunc s f) with (rbind (goloop (S (length s)) (lif_body s f) (wsub (zlen s) 1)) lif_k).
  pose proof (zlen_nonneg s) as Hl. change (2^62) with 4611686018427387904 in Hs.
  wr. unfold last_index_func. apply (lif_loop s f); [exact Hs|lia].
Qed.

(* ================================================================ Reverse *)

Definition rev_body : Z * list Z -> result (ctl (Z * list Z) (list Z)) := fun '(i, s) =>
  rbind (goquo (zlen s) 2) (fun q5_ =>
  if (i <? q5_)
  then rbind (goget s (wsub (wsub (zlen s) i) 1)) (fun v1_ =>
  rbind (goget s i) (fun v2_ =>
  let p3_ := v1_ in
  let p4_ := v2_ in
  rbind (goset s i p3_) (fun s =>
  rbind (goset s (wsub (wsub (zlen s) i) 1) p4_) (fun s =>
  let i := (wadd i 1) in
  Ok (CNext (i, s))))))
  else Ok (CBreak (i, s))).

Definition rev_k : ctl (Z * list Z) (list Z) -> result (list Z) := fun c_ =>
  match c_ with
  | CRet r_ => Ok r_
  | CNext (i, s) | CBreak (i, s) =>
  Ok s
  end.

Lemma quot2_bounds n : 0 <= n -> 0 <= Z.quot n 2 /\ 2 * Z.quot n 2 <= n.
Proof.
  intros H. pose proof (Z.quot_rem' n 2) as E. pose proof (Z.rem_bound_pos n 2 H) as R.
  pose proof (Z.quot_pos n 2 H) as Q. lia.
Qed.

(* one iteration: len(s)/2 is recomputed from the current slice, whose length the swaps keep *)
Lemma rev_body_eq (i : Z) (s : list Z) : zlen s < 2^62 -> 0 <= i ->
  rev_body (i, s) =
  if i <? Z.quot (zlen s) 2 then Ok (CNext (i + 1, swap s i (zlen s - i - 1))) else Ok (CBreak (i, s)).
Proof.
  intros Hs Hi. change (2^62) with 4611686018427387904 in Hs.
  pose proof (zlen_nonneg s) as Hl. destruct (quot2_bounds (zlen s) Hl) as [Q1 Q2].
  unfold rev_body, goquo. change (2 =? 0) with false. cbv iota. cbn [rbind].
  rewrite wrap64_id by (apply int64_iff; lia).
  destruct (Z.ltb_spec i (Z.quot (zlen s) 2)) as [Hlt|Hge]; [|reflexivity].
  wr. rewrite (goget_znth s (zlen s - i - 1)) by lia. cbn [rbind].
  rewrite (goget_znth s i) by lia. cbn [rbind]. cbv zeta.
  rewrite goset_zupd by lia. cbn [rbind]. rewrite zlen_zupd. wr.
  rewrite goset_zupd by (rewrite zlen_zupd; lia). cbn [rbind]. wr. reflexivity.
Qed.

(* cnt iterations are left: i + cnt = len(s)/2; any fuel above cnt will do *)
Lemma rev_loop : forall cnt i s fuel, zlen s < 2^62 -> 0 <= i -> i + Z.of_nat cnt = Z.quot (zlen s) 2 ->
  (cnt < fuel)%nat ->
  rbind (goloop fuel rev_body (i, s)) rev_k = Ok (reverse_loop cnt i s).
Proof.
  induction cnt as [|c IH]; intros i s fuel Hs Hi Hc Hf; (destruct fuel as [|fuel]; [lia|]).
  - assert (B : rev_body (i, s) = Ok (CBreak (i, s))).
    { rewrite rev_body_eq by assumption. destruct (Z.ltb_spec i (Z.quot (zlen s) 2)) as [H|H]; [lia|reflexivity]. }
    rewrite (goloop_break _ _ _ _ B). reflexivity.
  - assert (B : rev_body (i, s) = Ok (CNext (i + 1, swap s i (zlen s - i - 1)))).
    { rewrite rev_body_eq by assumption. destruct (Z.ltb_spec i (Z.quot (zlen s) 2)) as [H|H]; [reflexivity|lia]. }
    rewrite (goloop_next _ _ _ _ B). cbn [reverse_loop]. apply IH.
    + rewrite zlen_swap. exact Hs.
    + lia.
    + rewrite zlen_swap. lia.
    + lia.
Qed.

Theorem gi_Reverse_ok (s : list Z) : zlen s < 2^62 -> gi_xslices_Reverse s = Ok (reverse s).
Proof.
  intros Hs.
  change (gi_xslices_Reverse s) with (rbind (goloop (S (length s)) rev_body (0, s)) rev_k).
  pose proof (zlen_nonneg s) as Hl. destruct (quot2_bounds (zlen s) Hl) as [Q1 Q2].
  unfold reverse. apply rev_loop; [exact Hs|lia|lia|]. unfold zlen in *. lia.
Qed.

(* ================================================================ Partition *)

(* for i < j { if !f(s[i]) { i++ } else { break } } *)
Definition up_body (f : Z -> bool) (s : list Z) (j : Z) : Z -> result (ctl Z (Z * list Z)) := fun i =>
  if (i <? j)
  then rbind (goget s i) (fun v1_ =>
  if (negb (f v1_))
  then let i := (wadd i 1) in
  Ok (CNext i)
  else Ok (CBreak i))
  else Ok (CBreak i).

(* for j > i { if f(s[j]) { j-- } else { break } } *)
Definition down_body (f : Z -> bool) (s : list Z) (i : Z) : Z -> result (ctl Z (Z * list Z)) := fun j =>
  if (j >? i)
  then rbind (goget s j) (fun v2_ =>
  if (f v2_)
  then let j := (wsub j 1) in
  Ok (CNext j)
  else Ok (CBreak j))
  else Ok (CBreak j).

Definition part_body (f : Z -> bool) : Z * Z * list Z -> result (ctl (Z * Z * list Z) (Z * list Z)) :=
  fun '(i, j, s) =>
  rbind (goloop (S (length s)) (up_body f s j) i) (fun c_ =>
  match c_ with
  | CRet r_ => Ok (CRet r_)
  | CNext i | CBreak i =>
  rbind (goloop (S (length s)) (down_body f s i) j) (fun c_ =>
  match c_ with
  | CRet r_ => Ok (CRet r_)
  | CNext j | CBreak j =>
  if (i >=? j)
  then Ok (CBreak (i, j, s))
  else rbind (goget s j) (fun v3_ =>
  rbind (goget s i) (fun v4_ =>
  let p5_ := v3_ in
  let p6_ := v4_ in
  rbind (goset s i p5_) (fun s =>
  rbind (goset s j p6_) (fun s =>
  let i := (wadd i 1) in
  let j := (wsub j 1) in
  Ok (CNext (i, j, s))))))
  end)
  end).

Definition part_k (f : Z -> bool) : ctl (Z * Z * list Z) (Z * list Z) -> result (Z * list Z) := fun c_ =>
  match c_ with
  | CRet r_ => Ok r_
  | CNext (i, j, s) | CBreak (i, j, s) =>
  rbind (if (i <? (zlen s))
  then rbind (goget s i) (fun v7_ =>
  Ok (negb (f v7_)))
  else Ok false) (fun b8_ =>
  rbind (if b8_
  then let i := (wadd i 1) in
  Ok i
  else Ok i) (fun i =>
  Ok (i, s)))
  end.

Lemma part_up_ge f s : forall fu i j, i <= part_up f s fu i j.
Proof.
  induction fu as [|fu IH]; intros i j; cbn [part_up]; [lia|].
  destruct (i <? j); [|lia]. destruct (negb (f (znth s i))); [|lia]. specialize (IH (i + 1) j). lia.
Qed.

Lemma part_down_le f s : forall fu i j, part_down f s fu i j <= j.
Proof.
  induction fu as [|fu IH]; intros i j; cbn [part_down]; [lia|].
  destruct (j >? i); [|lia]. destruct (f (znth s j)); [|lia]. specialize (IH i (j - 1)). lia.
Qed.

(* the scan upwards: at most j - i <= n iterations; the translated loop needs fuel above n, the model fuel n *)
Lemma up_loop f s j : zlen s < 2^62 -> j < zlen s -> forall n i fuel fu, 0 <= i -> j - i <= Z.of_nat n ->
  (n < fuel)%nat -> (n <= fu)%nat ->
  goloop fuel (up_body f s j) i = Ok (CBreak (part_up f s fu i j)).
Proof.
  intros Hs Hj. change (2^62) with 4611686018427387904 in Hs.
  induction n as [|n IH]; intros i fuel fu Hi Hn Hf Hfu; (destruct fuel as [|fuel]; [lia|]).
  - assert (B : up_body f s j i = Ok (CBreak i)).
    { unfold up_body. destruct (Z.ltb_spec i j) as [H|H]; [lia|reflexivity]. }
    rewrite (goloop_break _ _ _ _ B).
    destruct fu as [|fu]; cbn [part_up]; [reflexivity|].
    destruct (Z.ltb_spec i j) as [H|H]; [lia|reflexivity].
  - destruct fu as [|fu]; [lia|]. cbn [part_up].
    destruct (Z.ltb_spec i j) as [Hlt|Hge].
    + assert (G : goget s i = Ok (znth s i)) by (apply goget_znth; lia).
      destruct (negb (f (znth s i))) eqn:Ef.
      * assert (B : up_body f s j i = Ok (CNext (i + 1))).
        { unfold up_body. destruct (Z.ltb_spec i j) as [H|H]; [|lia]. rewrite G. cbn [rbind]. rewrite Ef.
          cbv zeta. wr. reflexivity. }
        rewrite (goloop_next _ _ _ _ B). apply IH; lia.
      * assert (B : up_body f s j i = Ok (CBreak i)).
        { unfold up_body. destruct (Z.ltb_spec i j) as [H|H]; [|lia]. rewrite G. cbn [rbind]. rewrite Ef.
          reflexivity. }
        rewrite (goloop_break _ _ _ _ B). reflexivity.
    + assert (B : up_body f s j i = Ok (CBreak i)).
      { unfold up_body. destruct (Z.ltb_spec i j) as [H|H]; [lia|reflexivity]. }
      rewrite (goloop_break _ _ _ _ B). reflexivity.
Qed.

(* the scan downwards *)
Lemma down_loop f s i : zlen s < 2^62 -> 0 <= i -> forall n j fuel fu, j < zlen s -> j - i <= Z.of_nat n ->
  (n < fuel)%nat -> (n <= fu)%nat ->
  goloop fuel (down_body f s i) j = Ok (CBreak (part_down f s fu i j)).
Proof.
  intros Hs Hi. change (2^62) with 4611686018427387904 in Hs.
  induction n as [|n IH]; intros j fuel fu Hj Hn Hf Hfu; (destruct fuel as [|fuel]; [lia|]).
  - assert (B : down_body f s i j = Ok (CBreak j)).
    { unfold down_body. rewrite Z.gtb_ltb. destruct (Z.ltb_spec i j) as [H|H]; [lia|reflexivity]. }
    rewrite (goloop_break _ _ _ _ B).
    destruct fu as [|fu]; cbn [part_down]; [reflexivity|].
    rewrite Z.gtb_ltb. destruct (Z.ltb_spec i j) as [H|H]; [lia|reflexivity].
  - destruct fu as [|fu]; [lia|]. cbn [part_down]. rewrite Z.gtb_ltb.
    destruct (Z.ltb_spec i j) as [Hlt|Hge].
    + assert (G : goget s j = Ok (znth s j)) by (apply goget_znth; lia).
      destruct (f (znth s j)) eqn:Ef.
      * assert (B : down_body f s i j = Ok (CNext (j - 1))).
        { unfold down_body. rewrite Z.gtb_ltb. destruct (Z.ltb_spec i j) as [H|H]; [|lia]. rewrite G. cbn [rbind].
          rewrite Ef. cbv zeta. wr. reflexivity. }
        rewrite (goloop_next _ _ _ _ B). apply IH; lia.
      * assert (B : down_body f s i j = Ok (CBreak j)).
        { unfold down_body. rewrite Z.gtb_ltb. destruct (Z.ltb_spec i j) as [H|H]; [|lia]. rewrite G. cbn [rbind].
          rewrite Ef. reflexivity. }
        rewrite (goloop_break _ _ _ _ B). reflexivity.
    + assert (B : down_body f s i j = Ok (CBreak j)).
      { unfold down_body. rewrite Z.gtb_ltb. destruct (Z.ltb_spec i j) as [H|H]; [lia|reflexivity]. }
      rewrite (goloop_break _ _ _ _ B). reflexivity.
Qed.

(* one iteration of the outer loop: both scans with the fuel the generated code gives them, then the swap *)
Lemma part_body_eq f i j s : zlen s < 2^62 -> 0 <= i -> j < zlen s ->
  part_body f (i, j, s) =
  let i1 := part_up f s (length s) i j in
  let j1 := part_down f s (length s) i1 j in
  if i1 >=? j1 then Ok (CBreak (i1, j1, s)) else Ok (CNext (i1 + 1, j1 - 1, swap s i1 j1)).
Proof.
  intros Hs Hi Hj. cbv zeta.
  pose proof (part_up_ge f s (length s) i j) as U.
  set (i1 := part_up f s (length s) i j) in *.
  pose proof (part_down_le f s (length s) i1 j) as D.
  unfold part_body.
  rewrite (up_loop f s j Hs Hj (length s) i (S (length s)) (length s)) by (unfold zlen in *; lia).
  fold i1. cbn [rbind].
  rewrite (down_loop f s i1 Hs (Z.le_trans _ _ _ Hi U) (length s) j (S (length s)) (length s))
    by (unfold zlen in *; lia).
  set (j1 := part_down f s (length s) i1 j) in *. cbn [rbind].
  change (2^62) with 4611686018427387904 in Hs.
  rewrite Z.geb_leb. destruct (Z.leb_spec j1 i1) as [Hge|Hlt]; [reflexivity|].
  rewrite (goget_znth s j1) by lia. cbn [rbind]. rewrite (goget_znth s i1) by lia. cbn [rbind]. cbv zeta.
  rewrite goset_zupd by lia. cbn [rbind]. rewrite goset_zupd by (rewrite zlen_zupd; lia). cbn [rbind].
  wr. reflexivity.
Qed.

(* the outer loop: j - i + 1 <= n bounds the iterations left (every swap shrinks the window by two) *)
Lemma part_outer f : forall n i j s fuel fu, zlen s < 2^62 -> 0 <= i -> j < zlen s -> j - i + 1 <= Z.of_nat n ->
  (n < fuel)%nat -> (n < fu)%nat ->
  exists j', goloop fuel (part_body f) (i, j, s)
             = Ok (CBreak (snd (part_loop f fu s i j), j', fst (part_loop f fu s i j))) /\
             0 <= snd (part_loop f fu s i j) /\
             zlen (fst (part_loop f fu s i j)) = zlen s.
Proof.
  induction n as [|n IH]; intros i j s fuel fu Hs Hi Hj Hn Hf Hfu;
    (destruct fuel as [|fuel]; [lia|]); (destruct fu as [|fu]; [lia|]);
    pose proof (part_body_eq f i j s Hs Hi Hj) as B; cbv zeta in B; cbn [part_loop]; cbv zeta;
    pose proof (part_up_ge f s (length s) i j) as U;
    set (i1 := part_up f s (length s) i j) in *;
    pose proof (part_down_le f s (length s) i1 j) as D;
    set (j1 := part_down f s (length s) i1 j) in *;
    rewrite Z.geb_leb in *; destruct (Z.leb_spec j1 i1) as [Hge|Hlt].
  - exists j1. cbn [fst snd]. rewrite (goloop_break _ _ _ _ B). split; [reflexivity|]. split; [lia|reflexivity].
  - lia.
  - exists j1. cbn [fst snd]. rewrite (goloop_break _ _ _ _ B). split; [reflexivity|]. split; [lia|reflexivity].
  - rewrite (goloop_next _ _ _ _ B).
    destruct (IH (i1 + 1) (j1 - 1) (swap s i1 j1) fuel fu) as (j' & E & P & L);
      try (rewrite zlen_swap); try lia.
    exists j'. split; [exact E|]. split; [exact P|]. rewrite L. apply zlen_swap.
Qed.

Theorem gi_Partition_ok (s : list Z) (f : Z -> bool) : zlen s < 2^62 ->
  gi_xslices_Partition s f = Ok (partition f s).
Proof.
  intros Hs.
  change (gi_xslices_Partition s f) with
    (rbind (goloop (S (length s)) (part_body f) (0, wsub (zlen s) 1, s)) (part_k f)).
  pose proof (zlen_nonneg s) as Hl.
  assert (Hs' : zlen s < 4611686018427387904) by exact Hs.
  wr. unfold partition.
  generalize (part_outer f (length s) 0 (zlen s - 1) s (S (length s)) (S (length s)) Hs).
  destruct (part_loop f (S (length s)) s 0 (zlen s - 1)) as [s' i']. cbn [fst snd].
  intros H. destruct H as (j' & E & P & L); [lia|lia|unfold zlen; lia|lia|lia|].
  rewrite E. cbn [rbind part_k]. rewrite L.
  destruct (Z.ltb_spec i' (zlen s)) as [Hlt|Hge]; cbn [andb rbind]; [|reflexivity].
  rewrite goget_znth by lia. cbn [rbind].
  destruct (negb (f (znth s' i'))); cbv zeta; cbn [rbind]; wr; reflexivity.
Qed.
