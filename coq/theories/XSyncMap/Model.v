(* C18 (part B) — layer M for xsync.Map[K, V] (xsync/xsync.go, xsync/xsync_go1.21.go): a typed
   wrapper over sync.Map.  Executable, total; panics as values; NO proofs in this file.

   sync.Map is a finite map from keys to `interface{}` values.  An `interface{}` holding a value
   of the map's value type V is [AVal v]; the nil interface is [ANil].  Converting a V to
   `interface{}` gives [AVal] for a concrete V (e.g. int) and for a non-nil value of an
   interface-typed V (e.g. error); a nil value of an interface-typed V becomes [ANil].
   A type assertion x.(V) succeeds exactly on [AVal] (asserting the nil interface fails for every
   V): the two-value form then yields (zero, false), the one-value form panics. *)
From Juniper Require Import Common.Base.

Inductive any := ANil | AVal (v : Z).

Definition any_eqb (a b : any) : bool :=
  match a, b with
  | ANil, ANil => true
  | AVal x, AVal y => x =? y
  | _, _ => false
  end.

(* ---------------- sync.Map: finite map Z -> any (association list sorted by key) ---------------- *)
Definition smap := list (Z * any).

Fixpoint sm_get (m : smap) (k : Z) : option any :=
  match m with
  | [] => None
  | (k', v) :: t => if k =? k' then Some v else sm_get t k
  end.

Fixpoint sm_put (m : smap) (k : Z) (v : any) : smap :=
  match m with
  | [] => [(k, v)]
  | (k', v') :: t =>
      if k =? k' then (k, v) :: t
      else if k <? k' then (k, v) :: m
      else (k', v') :: sm_put t k v
  end.

Fixpoint sm_del (m : smap) (k : Z) : smap :=
  match m with
  | [] => []
  | (k', v') :: t => if k =? k' then t else (k', v') :: sm_del t k
  end.

(* operations, generic in the type of values passed by the caller *)
Inductive op (A : Type) :=
| OpLoad (k : Z) | OpStore (k : Z) (v : A) | OpLoadOrStore (k : Z) (v : A) | OpLoadAndDelete (k : Z)
| OpDelete (k : Z) | OpSwap (k : Z) (v : A) | OpCAS (k : Z) (old new : A) | OpCAD (k : Z) (old : A)
| OpRange.
Arguments OpLoad {A} k.
Arguments OpStore {A} k v.
Arguments OpLoadOrStore {A} k v.
Arguments OpLoadAndDelete {A} k.
Arguments OpDelete {A} k.
Arguments OpSwap {A} k v.
Arguments OpCAS {A} k old new.
Arguments OpCAD {A} k old.
Arguments OpRange {A}.

Inductive out (A : Type) :=
| OUnit | OValB (v : A) (b : bool) | OBool (b : bool) | OPairs (l : list (Z * A)).
Arguments OUnit {A}.
Arguments OValB {A} v b.
Arguments OBool {A} b.
Arguments OPairs {A} l.

(* the documented behaviour of the sync.Map methods *)
Definition sm_load (m : smap) (k : Z) : any * bool :=
  match sm_get m k with Some v => (v, true) | None => (ANil, false) end.

Definition sm_load_or_store (m : smap) (k : Z) (v : any) : smap * (any * bool) :=
  match sm_get m k with Some a => (m, (a, true)) | None => (sm_put m k v, (v, false)) end.

Definition sm_load_and_delete (m : smap) (k : Z) : smap * (any * bool) :=
  match sm_get m k with Some a => (sm_del m k, (a, true)) | None => (m, (ANil, false)) end.

Definition sm_swap (m : smap) (k : Z) (v : any) : smap * (any * bool) :=
  match sm_get m k with Some a => (sm_put m k v, (a, true)) | None => (sm_put m k v, (ANil, false)) end.

Definition sm_cas (m : smap) (k : Z) (old new : any) : smap * bool :=
  match sm_get m k with
  | Some a => if any_eqb a old then (sm_put m k new, true) else (m, false)
  | None => (m, false)
  end.

(* "If there is no current value for key in the map, CompareAndDelete returns false (even if the
   old value is the nil interface value)." *)
Definition sm_cad (m : smap) (k : Z) (old : any) : smap * bool :=
  match sm_get m k with
  | Some a => if any_eqb a old then (sm_del m k, true) else (m, false)
  | None => (m, false)
  end.

Definition raw_step (m : smap) (o : op any) : smap * out any :=
  match o with
  | OpLoad k => let '(v, ok) := sm_load m k in (m, OValB v ok)
  | OpStore k v => (sm_put m k v, OUnit)
  | OpLoadOrStore k v => let '(m', (a, l)) := sm_load_or_store m k v in (m', OValB a l)
  | OpLoadAndDelete k => let '(m', (a, l)) := sm_load_and_delete m k in (m', OValB a l)
  | OpDelete k => (sm_del m k, OUnit)
  | OpSwap k v => let '(m', (a, l)) := sm_swap m k v in (m', OValB a l)
  | OpCAS k old new => let '(m', b) := sm_cas m k old new in (m', OBool b)
  | OpCAD k old => let '(m', b) := sm_cad m k old in (m', OBool b)
  | OpRange => (m, OPairs m)         (* all pairs (f never stops the iteration); sorted by key *)
  end.

Fixpoint raw_run (m : smap) (ops : list (op any)) : list (out any) :=
  match ops with
  | [] => []
  | o :: t => let '(m', r) := raw_step m o in r :: raw_run m' t
  end.

(* ---------------- the value type V of the typed wrapper ---------------- *)
Record vty := mkVty {
  V : Type;
  toAny : V -> any;          (* implicit conversion of a V to interface{} *)
  zeroV : V;                 (* `var zero V` *)
  dyn : any -> option V      (* does the type assertion x.(V) succeed, and with what *)
}.

(* `v, ok := x.(V)` *)
Definition assert2 (T : vty) (x : any) : V T * bool :=
  match dyn T x with Some v => (v, true) | None => (zeroV T, false) end.
(* `x.(V)` *)
Definition assert1 (T : vty) (x : any) : result (V T) :=
  match dyn T x with Some v => Ok v | None => Panic POther end.

(* V = int: a concrete type *)
Definition TInt : vty :=
  mkVty Z AVal 0 (fun x => match x with AVal v => Some v | ANil => None end).
(* V = error: an interface type; None is the nil error, Some e a non-nil error (identity e) *)
Definition TErr : vty :=
  mkVty (option Z) (fun e => match e with Some x => AVal x | None => ANil end) None
        (fun x => match x with AVal v => Some (Some v) | ANil => None end).

(* the sync.Map result "projected to V": what is not a V (absent, nil) is the zero value *)
Definition proj (T : vty) (x : any) : V T :=
  match dyn T x with Some v => v | None => zeroV T end.

Section Typed.
  Variable T : vty.

  (* ---- the CURRENT code: two-value assertions ---- *)
  Definition x_load (m : smap) (k : Z) : result (V T * bool) :=
    let '(value_, ok) := sm_load m k in
    if negb ok then Ok (zeroV T, false)
    else let '(value, _) := assert2 T value_ in Ok (value, ok).

  Definition x_load_and_delete (m : smap) (k : Z) : smap * result (V T * bool) :=
    let '(m', (value_, ok)) := sm_load_and_delete m k in
    if negb ok then (m', Ok (zeroV T, false))
    else let '(value, _) := assert2 T value_ in (m', Ok (value, ok)).

  Definition x_load_or_store (m : smap) (k : Z) (value : V T) : smap * result (V T * bool) :=
    let '(m', (actual_, loaded)) := sm_load_or_store m k (toAny T value) in
    let '(actual, _) := assert2 T actual_ in (m', Ok (actual, loaded)).

  Definition x_swap (m : smap) (k : Z) (value : V T) : smap * result (V T * bool) :=
    let '(m', (previousUntyped, loaded)) := sm_swap m k (toAny T value) in
    let '(previous, _) := assert2 T previousUntyped in (m', Ok (previous, loaded)).

  Definition x_range (m : smap) : result (list (Z * V T)) :=
    Ok (map (fun kv => let '(v, _) := assert2 T (snd kv) in (fst kv, v)) m).

  Definition wrap {A} (r : result (A * bool)) : result (out A) :=
    match r with Ok (v, b) => Ok (OValB v b) | Panic c => Panic c end.

  Definition x_step (m : smap) (o : op (V T)) : smap * result (out (V T)) :=
    match o with
    | OpLoad k => (m, wrap (x_load m k))
    | OpStore k v => (sm_put m k (toAny T v), Ok OUnit)
    | OpLoadOrStore k v => let '(m', r) := x_load_or_store m k v in (m', wrap r)
    | OpLoadAndDelete k => let '(m', r) := x_load_and_delete m k in (m', wrap r)
    | OpDelete k => (sm_del m k, Ok OUnit)
    | OpSwap k v => let '(m', r) := x_swap m k v in (m', wrap r)
    | OpCAS k old new => let '(m', b) := sm_cas m k (toAny T old) (toAny T new) in (m', Ok (OBool b))
    | OpCAD k old => let '(m', b) := sm_cad m k (toAny T old) in (m', Ok (OBool b))
    | OpRange => (m, match x_range m with Ok l => Ok (OPairs l) | Panic c => Panic c end)
    end.

  Fixpoint x_run (m : smap) (ops : list (op (V T))) : list (result (out (V T))) :=
    match ops with
    | [] => []
    | o :: t => let '(m', r) := x_step m o in r :: x_run m' t
    end.

  (* ---- the code BEFORE the fix: one-value assertions `x.(V)` ---- *)
  Definition old_load (m : smap) (k : Z) : result (V T * bool) :=
    let '(value_, ok) := sm_load m k in
    if negb ok then Ok (zeroV T, false)
    else match assert1 T value_ with Ok value => Ok (value, ok) | Panic c => Panic c end.

  Definition old_load_and_delete (m : smap) (k : Z) : smap * result (V T * bool) :=
    let '(m', (value_, ok)) := sm_load_and_delete m k in
    if negb ok then (m', Ok (zeroV T, false))
    else (m', match assert1 T value_ with Ok value => Ok (value, ok) | Panic c => Panic c end).

  Definition old_load_or_store (m : smap) (k : Z) (value : V T) : smap * result (V T * bool) :=
    let '(m', (actual_, loaded)) := sm_load_or_store m k (toAny T value) in
    (m', match assert1 T actual_ with Ok actual => Ok (actual, loaded) | Panic c => Panic c end).

  Definition old_swap (m : smap) (k : Z) (value : V T) : smap * result (V T * bool) :=
    let '(m', (previousUntyped, loaded)) := sm_swap m k (toAny T value) in
    (m', match assert1 T previousUntyped with Ok previous => Ok (previous, loaded) | Panic c => Panic c end).

  Fixpoint old_range (m : smap) : result (list (Z * V T)) :=
    match m with
    | [] => Ok []
    | (k, a) :: t =>
        match assert1 T a with
        | Ok v => match old_range t with Ok l => Ok ((k, v) :: l) | Panic c => Panic c end
        | Panic c => Panic c
        end
    end.

  Definition old_step (m : smap) (o : op (V T)) : smap * result (out (V T)) :=
    match o with
    | OpLoad k => (m, wrap (old_load m k))
    | OpLoadOrStore k v => let '(m', r) := old_load_or_store m k v in (m', wrap r)
    | OpLoadAndDelete k => let '(m', r) := old_load_and_delete m k in (m', wrap r)
    | OpSwap k v => let '(m', r) := old_swap m k v in (m', wrap r)
    | OpRange => (m, match old_range m with Ok l => Ok (OPairs l) | Panic c => Panic c end)
    | _ => x_step m o
    end.

  Fixpoint old_run (m : smap) (ops : list (op (V T))) : list (result (out (V T))) :=
    match ops with
    | [] => []
    | o :: t => let '(m', r) := old_step m o in r :: old_run m' t
    end.

  (* ---- the specification side: sync.Map on converted arguments, results projected to V ---- *)
  Definition conv_op (o : op (V T)) : op any :=
    match o with
    | OpLoad k => OpLoad k
    | OpStore k v => OpStore k (toAny T v)
    | OpLoadOrStore k v => OpLoadOrStore k (toAny T v)
    | OpLoadAndDelete k => OpLoadAndDelete k
    | OpDelete k => OpDelete k
    | OpSwap k v => OpSwap k (toAny T v)
    | OpCAS k old new => OpCAS k (toAny T old) (toAny T new)
    | OpCAD k old => OpCAD k (toAny T old)
    | OpRange => OpRange
    end.

  Definition proj_out (r : out any) : out (V T) :=
    match r with
    | OUnit => OUnit
    | OValB v b => OValB (proj T v) b
    | OBool b => OBool b
    | OPairs l => OPairs (map (fun kv => (fst kv, proj T (snd kv))) l)
    end.
End Typed.
