(* C18 (part B) — proofs about the model of xsync.Map (XSyncMap/Model.v): the typed wrapper with
   two-value assertions returns, for every operation sequence and from every state of the
   underlying sync.Map, exactly the sync.Map results projected to V, and never panics; the
   one-value-assertion variant (the code before the fix) panics.  Stdlib only, no axioms. *)
From Juniper Require Import Common.Base XSyncMap.Model.

(* Go: a type assertion on the nil interface value fails, for every asserted type *)
Definition vty_ok (T : vty) : Prop := dyn T ANil = None.

(* converting a V to interface{} and asserting it back gives the same V (a nil value of an
   interface-typed V comes back through the failed assertion as the zero value, which is nil) *)
Definition vty_roundtrip (T : vty) : Prop := forall v : V T, proj T (toAny T v) = v.

Lemma TInt_ok : vty_ok TInt. Proof. reflexivity. Qed.
Lemma TErr_ok : vty_ok TErr. Proof. reflexivity. Qed.
Lemma TInt_roundtrip : vty_roundtrip TInt. Proof. intros v. reflexivity. Qed.
Lemma TErr_roundtrip : vty_roundtrip TErr. Proof. intros [v|]; reflexivity. Qed.

Lemma assert2_proj T x : fst (assert2 T x) = proj T x.
Proof. unfold assert2, proj. destruct (dyn T x); reflexivity. Qed.

Lemma assert2_destr T x : exists b, assert2 T x = (proj T x, b).
Proof. unfold assert2, proj. destruct (dyn T x); eauto. Qed.

Lemma proj_nil T : vty_ok T -> proj T ANil = zeroV T.
Proof. unfold vty_ok, proj. intros ->. reflexivity. Qed.

(* one operation: same state, result = projection of the sync.Map result, no panic *)
Lemma x_step_refines T (HT : vty_ok T) m o :
  x_step T m o = (fst (raw_step m (conv_op T o)), Ok (proj_out T (snd (raw_step m (conv_op T o))))).
Proof.
  destruct o as [k|k v|k v|k|k|k v|k old new|k old| ]; simpl.
  - (* Load *) unfold x_load, sm_load. destruct (sm_get m k) as [a|]; simpl.
    + destruct (assert2_destr T a) as [b ->]. reflexivity.
    + rewrite proj_nil by exact HT. reflexivity.
  - reflexivity.
  - (* LoadOrStore *) unfold x_load_or_store, sm_load_or_store. destruct (sm_get m k) as [a|]; simpl.
    + destruct (assert2_destr T a) as [b ->]. reflexivity.
    + destruct (assert2_destr T (toAny T v)) as [b ->]. reflexivity.
  - (* LoadAndDelete *) unfold x_load_and_delete, sm_load_and_delete. destruct (sm_get m k) as [a|]; simpl.
    + destruct (assert2_destr T a) as [b ->]. reflexivity.
    + rewrite proj_nil by exact HT. reflexivity.
  - reflexivity.
  - (* Swap *) unfold x_swap, sm_swap. destruct (sm_get m k) as [a|]; simpl.
    + destruct (assert2_destr T a) as [b ->]. reflexivity.
    + destruct (assert2_destr T ANil) as [b ->]. reflexivity.
  - (* CompareAndSwap *) destruct (sm_cas m k (toAny T old) (toAny T new)) as [m' b]. reflexivity.
  - (* CompareAndDelete *) destruct (sm_cad m k (toAny T old)) as [m' b]. reflexivity.
  - (* Range *) unfold x_range. f_equal. f_equal. f_equal. apply map_ext. intros [k a]. simpl.
    destruct (assert2_destr T a) as [b ->]. reflexivity.
Qed.

Theorem map_refines T (HT : vty_ok T) :
  forall ops m,
    x_run T m ops = map (fun r => Ok (proj_out T r)) (raw_run m (map (conv_op T) ops)).
Proof.
  induction ops as [|o ops IH]; intros m; simpl; [reflexivity|].
  rewrite (x_step_refines T HT m o). destruct (raw_step m (conv_op T o)) as [m' r]. simpl.
  rewrite IH. reflexivity.
Qed.

Corollary map_never_panics T (HT : vty_ok T) :
  forall ops m, forallb (fun r => negb (is_panic r)) (x_run T m ops) = true.
Proof.
  intros ops m. rewrite (map_refines T HT). induction (raw_run m (map (conv_op T) ops)) as [|r l IH]; simpl; auto.
Qed.

(* the typed results are the stored V values: e.g. Store then Load *)
Lemma sm_get_put m k a : sm_get (sm_put m k a) k = Some a.
Proof.
  induction m as [|[k' a'] m IH]; simpl.
  - rewrite Z.eqb_refl. reflexivity.
  - destruct (k =? k') eqn:E; simpl.
    + rewrite Z.eqb_refl. reflexivity.
    + destruct (k <? k'); simpl.
      * rewrite Z.eqb_refl. reflexivity.
      * rewrite E. exact IH.
Qed.

Lemma store_then_load T (HT : vty_ok T) (HR : vty_roundtrip T) m k v :
  x_run T m [OpStore k v; OpLoad k] = [Ok OUnit; Ok (OValB v true)].
Proof.
  rewrite (map_refines T HT). simpl. unfold sm_load. rewrite sm_get_put. simpl. rewrite HR. reflexivity.
Qed.

(* CompareAndSwap / CompareAndDelete compare V values: the conversion is injective *)
Lemma TInt_inj (a b : V TInt) : any_eqb (toAny TInt a) (toAny TInt b) = true <-> a = b.
Proof. simpl. apply Z.eqb_eq. Qed.
Lemma TErr_inj (a b : V TErr) : any_eqb (toAny TErr a) (toAny TErr b) = true <-> a = b.
Proof.
  destruct a as [x|], b as [y|]; simpl; split; intros H; try discriminate; try reflexivity.
  - apply Z.eqb_eq in H. congruence.
  - inversion H. apply Z.eqb_refl.
Qed.

(* ---- the code before the fix ---- *)
(* Swap of an absent key (any V), and Load of a stored nil value of an interface-typed V, panic
   with the one-value assertions, while the current code returns (zero, false) / (nil, true). *)
Lemma old_swap_absent_panics_int :
  old_run TInt [] [OpSwap 1 5] = [Panic POther] /\ x_run TInt [] [OpSwap 1 5] = [Ok (OValB 0 false)].
Proof. split; vm_compute; reflexivity. Qed.

Lemma old_swap_absent_panics_err :
  old_run TErr [] [OpSwap 1 (Some 5)] = [Panic POther] /\ x_run TErr [] [OpSwap 1 (Some 5)] = [Ok (OValB None false)].
Proof. split; vm_compute; reflexivity. Qed.

Lemma old_load_nil_panics :
  old_run TErr [] [OpStore 1 None; OpLoad 1] = [Ok OUnit; Panic POther] /\
  x_run TErr [] [OpStore 1 None; OpLoad 1] = [Ok OUnit; Ok (OValB None true)].
Proof. split; vm_compute; reflexivity. Qed.
