(* Correspondence evaluator for xsync.Map: runs the typed-wrapper model and the sync.Map model on a
   recorded operation list and compares with what the real xsync.Map[int, V] and the real sync.Map
   returned (harness_watch/xmap.go).  Used by the check through vm_compute; no proofs.

   Encoding of a case: values in operations are integers (for V = error: 0 is the nil error, v >= 1
   the non-nil error number v); recorded results are [out any] for both maps (a typed result is
   printed through the conversion to interface{}: nil error = ANil), or a panic. *)
From Juniper Require Import Common.Base XSyncMap.Model.

Inductive obs := ObsPanic | ObsOut (o : out any).

Definition map_op {A B} (f : A -> B) (o : op A) : op B :=
  match o with
  | OpLoad k => OpLoad k
  | OpStore k v => OpStore k (f v)
  | OpLoadOrStore k v => OpLoadOrStore k (f v)
  | OpLoadAndDelete k => OpLoadAndDelete k
  | OpDelete k => OpDelete k
  | OpSwap k v => OpSwap k (f v)
  | OpCAS k old new => OpCAS k (f old) (f new)
  | OpCAD k old => OpCAD k (f old)
  | OpRange => OpRange
  end.

Definition map_out {A B} (f : A -> B) (o : out A) : out B :=
  match o with
  | OUnit => OUnit
  | OValB v b => OValB (f v) b
  | OBool b => OBool b
  | OPairs l => OPairs (map (fun kv => (fst kv, f (snd kv))) l)
  end.

Fixpoint pairs_eqb (a b : list (Z * any)) : bool :=
  match a, b with
  | [], [] => true
  | (k, v) :: a', (j, w) :: b' => (k =? j) && any_eqb v w && pairs_eqb a' b'
  | _, _ => false
  end.

Definition out_eqb (a b : out any) : bool :=
  match a, b with
  | OUnit, OUnit => true
  | OValB v x, OValB w y => any_eqb v w && Bool.eqb x y
  | OBool x, OBool y => Bool.eqb x y
  | OPairs l, OPairs m => pairs_eqb l m
  | _, _ => false
  end.

Definition obs_eqb (a b : obs) : bool :=
  match a, b with
  | ObsPanic, ObsPanic => true
  | ObsOut x, ObsOut y => out_eqb x y
  | _, _ => false
  end.

Fixpoint obs_list_eqb (a b : list obs) : bool :=
  match a, b with
  | [], [] => true
  | x :: a', y :: b' => obs_eqb x y && obs_list_eqb a' b'
  | _, _ => false
  end.

Definition enc_out (T : vty) (r : result (out (V T))) : obs :=
  match r with Panic _ => ObsPanic | Ok o => ObsOut (map_out (toAny T) o) end.

Definition dec_int (z : Z) : V TInt := z.
Definition dec_err (z : Z) : V TErr := if z =? 0 then None else Some z.

Definition check_T (T : vty) (decV : Z -> V T) (ops : list (op Z)) (xs raw : list obs) : bool :=
  let tops := map (map_op decV) ops in
  obs_list_eqb (map (enc_out T) (x_run T [] tops)) xs
  && obs_list_eqb (map ObsOut (raw_run [] (map (conv_op T) tops))) raw.

(* a case = (V is the interface type error?, operations, (xsync.Map result, sync.Map result) per op) *)
Definition check_M (c : bool * list (op Z) * list (obs * obs)) : bool :=
  let '(is_err, ops, os) := c in
  if is_err then check_T TErr dec_err ops (map fst os) (map snd os)
  else check_T TInt dec_int ops (map fst os) (map snd os).

(* the same evaluator for the code before the fix (used to demonstrate the historical defect) *)
Definition check_old (c : bool * list (op Z) * list (obs * obs)) : bool :=
  let '(is_err, ops, os) := c in
  if is_err then obs_list_eqb (map (enc_out TErr) (old_run TErr [] (map (map_op dec_err) ops))) (map fst os)
  else obs_list_eqb (map (enc_out TInt) (old_run TInt [] (map (map_op dec_int) ops))) (map fst os).
