(* C16 — the history matcher of Conc/Cond.v (xsync.ContextCond) is certified:
   [accepts_history cfg nctx evs] is sound (every accepted history is the visible trace of a run
   of [qstep] from [init cfg nctx]) and, whenever the closures converged within the fuel
   ([cond_converged], an executable test), complete (every rejection is genuine).

   Part 1 (generic, also used by PipeMatcher.v / ParDoMatcher.v): the matcher of GoLTS.v does
   not change when
     - the state-equality test is replaced by another one that agrees with it on an invariant of
       the transition function, and
     - the event-equality test is replaced by another one that agrees with it whenever the second
       argument is the visible event of some label.
   This is what lets the generic completeness theorems of GoLTSProofs.v (which ask for a state
   test that decides equality on ALL states and an event test that is reflexive on ALL events) be
   applied to models whose tests are exact only where the matcher uses them: here events are
   labels and [lab_eqb] is [false] on internal labels (never the event of anything); in Pipe.v
   [st_eqb] does not compare the constant field [cap].

   Part 2: the hypotheses of the generic theorems for Cond.v, and the instantiated theorems.
   Stdlib only, no axioms. *)
From Juniper Require Import Common.Base Conc.GoLTS Conc.GoLTSProofs Conc.Cond.
From Coq Require Import Arith PeanoNat.
Local Open Scope nat_scope.

(* ====================================================================== *)
(* Part 1: the matcher only uses the tests on invariant states / visible events *)
(* ====================================================================== *)

Lemma forallb_ext_in {A} (f g : A -> bool) (l : list A) :
  (forall x, In x l -> f x = g x) -> forallb f l = forallb g l.
Proof.
  induction l as [|a t IH]; intros H; simpl; [reflexivity|].
  rewrite (H a (or_introl eq_refl)), IH; [reflexivity|].
  intros x Hx. apply H. right; exact Hx.
Qed.

Section MatcherExt.
  Variables St Lab Ev : Type.
  Variable step : St -> Lab -> option St.
  Variable vis : Lab -> option Ev.
  Variables ev1 ev2 : Ev -> Ev -> bool.
  Variables eq1 eq2 : St -> St -> bool.
  Variable labels : St -> list Lab.
  Variable labels_ev : St -> Ev -> list Lab.
  Variable Inv : St -> Prop.
  Hypothesis Inv_step : forall s l s', Inv s -> step s l = Some s' -> Inv s'.
  Hypothesis eq_agree : forall a b, Inv a -> Inv b -> eq1 a b = eq2 a b.
  Hypothesis ev_agree : forall e l e', vis l = Some e' -> ev1 e e' = ev2 e e'.

  Local Notation succ_tau := (GoLTS.succ_tau St Lab step Ev vis labels).
  Local Notation succ_ev1 := (GoLTS.succ_ev St Lab step Ev vis ev1 labels_ev).
  Local Notation succ_ev2 := (GoLTS.succ_ev St Lab step Ev vis ev2 labels_ev).
  Local Notation mem1 := (GoLTS.mem St eq1).
  Local Notation mem2 := (GoLTS.mem St eq2).
  Local Notation add_new1 := (GoLTS.add_new St eq1).
  Local Notation add_new2 := (GoLTS.add_new St eq2).
  Local Notation closure1 := (GoLTS.closure St Lab step Ev vis eq1 labels).
  Local Notation closure2 := (GoLTS.closure St Lab step Ev vis eq2 labels).
  Local Notation close1 := (GoLTS.close step vis eq1 labels).
  Local Notation close2 := (GoLTS.close step vis eq2 labels).
  Local Notation first_reject1 := (GoLTS.first_reject step vis ev1 eq1 labels labels_ev).
  Local Notation first_reject2 := (GoLTS.first_reject step vis ev2 eq2 labels labels_ev).
  Local Notation accepts1 := (GoLTS.accepts step vis ev1 eq1 labels labels_ev).
  Local Notation accepts2 := (GoLTS.accepts step vis ev2 eq2 labels labels_ev).
  Local Notation tau_closedb1 := (tau_closedb St Lab Ev step vis eq1 labels).
  Local Notation tau_closedb2 := (tau_closedb St Lab Ev step vis eq2 labels).
  Local Notation closed_alongb1 := (closed_alongb St Lab Ev step vis ev1 eq1 labels labels_ev).
  Local Notation closed_alongb2 := (closed_alongb St Lab Ev step vis ev2 eq2 labels labels_ev).
  Local Notation convergedb1 := (convergedb St Lab Ev step vis ev1 eq1 labels labels_ev).
  Local Notation convergedb2 := (convergedb St Lab Ev step vis ev2 eq2 labels labels_ev).

  Lemma succ_ev_ext e s : succ_ev1 e s = succ_ev2 e s.
  Proof.
    unfold GoLTS.succ_ev. apply flat_map_ext. intros l.
    destruct (vis l) as [e'|] eqn:Evis; [|reflexivity].
    rewrite (ev_agree e l e' Evis). reflexivity.
  Qed.

  Lemma succ_tau_inv s : Inv s -> Forall Inv (succ_tau s).
  Proof.
    intros Hs. apply Forall_forall. intros s' Hin.
    destruct (in_succ_tau St Lab Ev step vis labels s s' Hin) as [l [_ Hst]].
    eapply Inv_step; eassumption.
  Qed.

  Lemma succ_ev_inv e s : Inv s -> Forall Inv (succ_ev1 e s).
  Proof.
    intros Hs. apply Forall_forall. intros s' Hin. unfold GoLTS.succ_ev in Hin.
    apply in_flat_map in Hin. destruct Hin as [l [_ Hl]].
    destruct (vis l) as [e'|]; [|destruct Hl].
    destruct (ev1 e e'); [|destruct Hl].
    destruct (step s l) as [s1|] eqn:Es; [|destruct Hl].
    destruct Hl as [Hl|[]]. subst s1. eapply Inv_step; eassumption.
  Qed.

  Lemma flat_map_inv (f : St -> list St) ss :
    (forall s, Inv s -> Forall Inv (f s)) -> Forall Inv ss -> Forall Inv (flat_map f ss).
  Proof.
    intros Hf Hss. apply Forall_forall. intros x Hx.
    apply in_flat_map in Hx. destruct Hx as [s [Hs Hx]].
    rewrite Forall_forall in Hss. specialize (Hf s (Hss s Hs)).
    rewrite Forall_forall in Hf. apply Hf; exact Hx.
  Qed.

  Lemma mem_ext x l : Inv x -> Forall Inv l -> mem1 x l = mem2 x l.
  Proof.
    intros Hx Hl. induction Hl as [|y t Hy Ht IH]; simpl; [reflexivity|].
    rewrite (eq_agree x y Hx Hy), IH. reflexivity.
  Qed.

  Lemma add_new_ext new : forall seen, Forall Inv new -> Forall Inv seen ->
    add_new1 new seen = add_new2 new seen /\
    Forall Inv (fst (add_new1 new seen)) /\ Forall Inv (snd (add_new1 new seen)).
  Proof.
    induction new as [|a t IH]; intros seen Hn Hs; simpl.
    - split; [reflexivity|]. split; [constructor | exact Hs].
    - inversion Hn as [|a' t' Ha Ht]; subst.
      rewrite <- (mem_ext a seen Ha Hs).
      destruct (mem1 a seen) eqn:Em.
      + apply IH; assumption.
      + destruct (IH (a :: seen) Ht (Forall_cons a Ha Hs)) as [E [F1 F2]].
        rewrite <- E. destruct (add_new1 t (a :: seen)) as [n sn]. simpl in F1, F2. simpl.
        split; [reflexivity|]. split; [constructor; assumption | exact F2].
  Qed.

  Lemma closure_ext fuel : forall fr seen, Forall Inv fr -> Forall Inv seen ->
    closure1 fuel fr seen = closure2 fuel fr seen /\ Forall Inv (closure1 fuel fr seen).
  Proof.
    induction fuel as [|f IH]; intros fr seen Hfr Hs.
    - split; [reflexivity | exact Hs].
    - destruct fr as [|y fr'].
      + split; [reflexivity | exact Hs].
      + assert (Hnew : Forall Inv (flat_map succ_tau (y :: fr'))).
        { apply flat_map_inv; [exact succ_tau_inv | exact Hfr]. }
        destruct (add_new_ext (flat_map succ_tau (y :: fr')) seen Hnew Hs) as [E [F1 F2]].
        change (closure1 (S f) (y :: fr') seen)
          with (let '(n, sn) := add_new1 (flat_map succ_tau (y :: fr')) seen in closure1 f n sn).
        change (closure2 (S f) (y :: fr') seen)
          with (let '(n, sn) := add_new2 (flat_map succ_tau (y :: fr')) seen in closure2 f n sn).
        rewrite <- E.
        destruct (add_new1 (flat_map succ_tau (y :: fr')) seen) as [n sn].
        simpl in F1, F2. apply IH; assumption.
  Qed.

  Lemma close_ext fuel ss : Forall Inv ss ->
    close1 fuel ss = close2 fuel ss /\ Forall Inv (close1 fuel ss).
  Proof.
    intros Hss. unfold GoLTS.close.
    destruct (add_new_ext ss [] Hss (Forall_nil Inv)) as [E [F1 F2]].
    rewrite <- E. destruct (add_new1 ss []) as [n sn]. simpl in F1, F2.
    apply closure_ext; assumption.
  Qed.

  Lemma step_ev_ext fuel e ss : Forall Inv ss ->
    close1 fuel (flat_map (succ_ev1 e) ss) = close2 fuel (flat_map (succ_ev2 e) ss) /\
    Forall Inv (close1 fuel (flat_map (succ_ev1 e) ss)).
  Proof.
    intros Hss.
    rewrite <- (flat_map_ext (succ_ev1 e) (succ_ev2 e) (succ_ev_ext e) ss).
    apply close_ext. apply flat_map_inv; [intros s Hs; apply succ_ev_inv; exact Hs | exact Hss].
  Qed.

  Lemma first_reject_ext fuel evs : forall ss i, Forall Inv ss ->
    first_reject1 fuel ss evs i = first_reject2 fuel ss evs i.
  Proof.
    induction evs as [|e evs IH]; intros ss i Hss; [reflexivity|].
    destruct (step_ev_ext fuel e ss Hss) as [E F].
    change (first_reject1 fuel ss (e :: evs) i)
      with (match close1 fuel (flat_map (succ_ev1 e) ss) with
            | [] => Some i
            | x :: r => first_reject1 fuel (x :: r) evs (S i)
            end).
    change (first_reject2 fuel ss (e :: evs) i)
      with (match close2 fuel (flat_map (succ_ev2 e) ss) with
            | [] => Some i
            | x :: r => first_reject2 fuel (x :: r) evs (S i)
            end).
    rewrite <- E.
    destruct (close1 fuel (flat_map (succ_ev1 e) ss)) as [|x r]; [reflexivity|].
    apply IH. exact F.
  Qed.

  (* the matcher's verdict is the same with either pair of tests *)
  Theorem accepts_ext fuel init evs : Inv init -> accepts1 fuel init evs = accepts2 fuel init evs.
  Proof.
    intros Hi. unfold GoLTS.accepts.
    destruct (close_ext fuel [init] (Forall_cons init Hi (Forall_nil Inv))) as [E F].
    rewrite <- E, <- (first_reject_ext fuel evs (close1 fuel [init]) 0 F). reflexivity.
  Qed.

  Lemma tau_closedb_ext S : Forall Inv S -> tau_closedb1 S = tau_closedb2 S.
  Proof.
    intros HS. unfold tau_closedb. apply forallb_ext_in. intros s Hs.
    apply forallb_ext_in. intros s' Hs'. apply mem_ext; [|exact HS].
    assert (His : Inv s) by (rewrite Forall_forall in HS; apply HS; exact Hs).
    pose proof (succ_tau_inv s His) as H. rewrite Forall_forall in H. apply H; exact Hs'.
  Qed.

  Lemma closed_alongb_ext fuel evs : forall ss, Forall Inv ss ->
    closed_alongb1 fuel ss evs = closed_alongb2 fuel ss evs.
  Proof.
    induction evs as [|e evs IH]; intros ss Hss; [reflexivity|].
    destruct (step_ev_ext fuel e ss Hss) as [E F].
    change (closed_alongb1 fuel ss (e :: evs))
      with (tau_closedb1 (close1 fuel (flat_map (succ_ev1 e) ss))
            && closed_alongb1 fuel (close1 fuel (flat_map (succ_ev1 e) ss)) evs).
    change (closed_alongb2 fuel ss (e :: evs))
      with (tau_closedb2 (close2 fuel (flat_map (succ_ev2 e) ss))
            && closed_alongb2 fuel (close2 fuel (flat_map (succ_ev2 e) ss)) evs).
    rewrite <- E, (tau_closedb_ext _ F), (IH _ F). reflexivity.
  Qed.

  (* ... and so is the convergence test *)
  Theorem convergedb_ext fuel init evs : Inv init ->
    convergedb1 fuel init evs = convergedb2 fuel init evs.
  Proof.
    intros Hi. unfold convergedb.
    destruct (close_ext fuel [init] (Forall_cons init Hi (Forall_nil Inv))) as [E F].
    rewrite <- E, (tau_closedb_ext _ F), (closed_alongb_ext fuel evs _ F). reflexivity.
  Qed.
End MatcherExt.

(* ====================================================================== *)
(* Part 2: Cond.v                                                          *)
(* ====================================================================== *)

(* ---- the equality tests decide equality ---- *)

Lemma list_eqb_spec {A} (eqb : A -> A -> bool) :
  (forall x y, eqb x y = true <-> x = y) ->
  forall a b, list_eqb eqb a b = true <-> a = b.
Proof.
  intros Hspec a. induction a as [|x a IH]; intros [|y b]; simpl.
  - split; reflexivity.
  - split; discriminate.
  - split; discriminate.
  - rewrite andb_true_iff, Hspec, IH. split.
    + intros [Hx Ha]. subst. reflexivity.
    + intros H. inversion H. split; reflexivity.
Qed.

Lemma gpos_eqb_spec a b : gpos_eqb a b = true <-> a = b.
Proof. destruct a, b; simpl; split; intros H; try discriminate; reflexivity. Qed.

Lemma wpc_eqb_sound a b : wpc_eqb a b = true -> a = b.
Proof.
  destruct a, b; simpl; intros H; try discriminate; try reflexivity;
    try (apply Nat.eqb_eq in H; subst; reflexivity).
  apply andb_true_iff in H. destruct H as [Hg Hu].
  apply Nat.eqb_eq in Hg. apply Bool.eqb_prop in Hu. subst. reflexivity.
Qed.

Lemma wpc_eqb_refl a : wpc_eqb a a = true.
Proof. destruct a; simpl; rewrite ?Nat.eqb_refl, ?Bool.eqb_reflx; reflexivity. Qed.

Lemma wpc_eqb_spec a b : wpc_eqb a b = true <-> a = b.
Proof. split; [apply wpc_eqb_sound | intros ->; apply wpc_eqb_refl]. Qed.

Lemma bool_eqb_spec a b : Bool.eqb a b = true <-> a = b.
Proof. split; [apply Bool.eqb_prop | intros ->; apply Bool.eqb_reflx]. Qed.

Lemma waiter_eqb_spec a b : waiter_eqb a b = true <-> a = b.
Proof.
  destruct a as [g1 c1 r1 p1], b as [g2 c2 r2 p2]. unfold waiter_eqb. simpl.
  rewrite !andb_true_iff, gpos_eqb_spec, Nat.eqb_eq, bool_eqb_spec, wpc_eqb_spec. split.
  - intros [[[Hg Hc] Hr] Hp]. subst. reflexivity.
  - intros H. inversion H. repeat split; reflexivity.
Qed.

Lemma chan_eqb_spec a b : chan_eqb a b = true <-> a = b.
Proof.
  destruct a as [t1 c1], b as [t2 c2]. unfold chan_eqb. simpl.
  rewrite andb_true_iff, !bool_eqb_spec. split.
  - intros [Ht Hc]. subst. reflexivity.
  - intros H. inversion H. split; reflexivity.
Qed.

Lemma cstate_eqb_spec a b : cstate_eqb a b = true <-> a = b.
Proof. destruct a, b; simpl; split; intros H; try discriminate; reflexivity. Qed.

Lemma cpc_eqb_spec a b : cpc_eqb a b = true <-> a = b.
Proof. destruct a, b; simpl; split; intros H; try discriminate; reflexivity. Qed.

Lemma optnat_eqb_spec a b : optnat_eqb a b = true <-> a = b.
Proof.
  destruct a as [x|], b as [y|]; simpl; try (split; intros H; try discriminate; reflexivity).
  rewrite Nat.eqb_eq. split; [intros ->; reflexivity | intros H; inversion H; reflexivity].
Qed.

Theorem cond_st_eqb_spec a b : st_eqb a b = true <-> a = b.
Proof.
  destruct a as [w1 c1 x1 l1 p1], b as [w2 c2 x2 l2 p2]. unfold st_eqb. simpl.
  rewrite !andb_true_iff, (list_eqb_spec _ waiter_eqb_spec), (list_eqb_spec _ chan_eqb_spec),
    (list_eqb_spec _ cstate_eqb_spec), optnat_eqb_spec, cpc_eqb_spec. split.
  - intros [[[[Hw Hc] Hx] Hl] Hp]. subst. reflexivity.
  - intros H. inversion H. repeat split; reflexivity.
Qed.

(* ---- events are labels: [vis l = Some e] means [e = l] and [l] is a visible label ---- *)

Lemma cond_vis_some l e : vis l = Some e -> e = l.
Proof. destruct l; simpl; intros H; try discriminate; inversion H; reflexivity. Qed.

Lemma cond_vis_idem l e : vis l = Some e -> vis e = Some e.
Proof. intros H. pose proof (cond_vis_some l e H) as He. subst e. exact H. Qed.

(* [lab_eqb] never confuses two labels (visible or not) *)
Lemma cond_lab_eqb_sound a b : lab_eqb a b = true -> a = b.
Proof.
  destruct a, b; simpl; intros H; try discriminate; try reflexivity;
    try (apply Nat.eqb_eq in H; subst; reflexivity).
  apply andb_true_iff in H. destruct H as [H Hh]. apply andb_true_iff in H. destruct H as [Hw Hn].
  apply Nat.eqb_eq in Hw. apply Bool.eqb_prop in Hn. apply Bool.eqb_prop in Hh. subst. reflexivity.
Qed.

(* it is reflexive on visible labels (it is [false] on internal ones) *)
Lemma cond_lab_eqb_refl_vis a e : vis a = Some e -> lab_eqb a a = true.
Proof.
  destruct a; simpl; intros H; try discriminate;
    rewrite ?Nat.eqb_refl, ?Bool.eqb_reflx; reflexivity.
Qed.

(* on visible labels it decides equality *)
Theorem cond_lab_eqb_spec a b e : vis b = Some e -> (lab_eqb a b = true <-> a = b).
Proof.
  intros Hv. split; [apply cond_lab_eqb_sound|].
  intros ->. eapply cond_lab_eqb_refl_vis; exact Hv.
Qed.

(* ---- the label enumerations contain every enabled label ---- *)

Lemma getw_lt s w : getw s w <> None -> w < length (ws s).
Proof. unfold getw. apply nth_error_Some. Qed.

Ltac in_list := solve [simpl; repeat (first [left; reflexivity | right])].

Ltac waiter_label s w Hs :=
  let Hw := fresh "Hw" in
  let E := fresh "E" in
  assert (Hw : w < length (ws s))
    by (apply getw_lt; intros E; apply Hs; simpl; rewrite E;
        first [reflexivity | destruct (ctl s); reflexivity]);
  apply in_or_app; left; apply in_flat_map; exists w;
  split; [apply in_seq; split; [apply Nat.le_0_l | exact Hw] | in_list].

Theorem cond_tau_labels_complete s l :
  vis l = None -> qstep s l <> None -> In l (tau_labels s).
Proof.
  intros Hv Hs. unfold tau_labels.
  destruct l as [w|w|w|w|w n h| | | | |c|w| |w|w|w|w|w|w|w|w|w| | | |c];
    simpl in Hv; try discriminate Hv; clear Hv.
  - waiter_label s w Hs.
  - waiter_label s w Hs.
  - waiter_label s w Hs.
  - waiter_label s w Hs.
  - waiter_label s w Hs.
  - waiter_label s w Hs.
  - waiter_label s w Hs.
  - waiter_label s w Hs.
  - waiter_label s w Hs.
  - apply in_or_app; right. apply in_or_app; left. in_list.
  - apply in_or_app; right. apply in_or_app; left. in_list.
  - apply in_or_app; right. apply in_or_app; left. in_list.
  - apply in_or_app; right. apply in_or_app; right. apply in_map. apply in_seq.
    split; [apply Nat.le_0_l|]. simpl. apply nth_error_Some.
    intros E. apply Hs. simpl. rewrite E. reflexivity.
Qed.

Theorem cond_labels_ev_complete (s : st) (l e : lab) :
  vis l = Some e -> qstep s l <> None -> In l ((fun (_ : st) (x : lab) => [x]) s e).
Proof. intros Hv _. left. apply (cond_vis_some l e Hv). Qed.

(* ---- the instantiated theorems ---- *)

Definition cond_trace : list lab -> list lab := trace lab lab vis.

(* the executable convergence test for a history *)
Definition cond_converged (cfg : list (gpos * nat)) (nctx : nat) (evs : list lab) : bool :=
  convergedb st lab lab qstep vis lab_eqb st_eqb tau_labels (fun _ e => [e]) 64 (init cfg nctx) evs.

(* SOUNDNESS (unconditional): an accepted history is the visible trace of a run of the model *)
Theorem cond_accepts_sound cfg nctx evs :
  accepts_history cfg nctx evs = true ->
  exists ls s, run qstep (init cfg nctx) ls = Some s /\ cond_trace ls = evs.
Proof.
  unfold accepts_history, cond_trace.
  apply (accepts_sound st lab lab qstep vis lab_eqb st_eqb tau_labels (fun _ e => [e])
           cond_lab_eqb_sound).
Qed.

(* an event test that agrees with [lab_eqb] wherever the matcher uses it and is reflexive everywhere *)
Definition lab_eqb_tot (a b : lab) : bool :=
  match vis b with Some _ => lab_eqb a b | None => true end.

Lemma lab_eqb_tot_refl a : lab_eqb_tot a a = true.
Proof.
  unfold lab_eqb_tot. destruct (vis a) as [e|] eqn:Ev; [|reflexivity].
  eapply cond_lab_eqb_refl_vis; exact Ev.
Qed.

Lemma lab_eqb_tot_agree (e l e' : lab) : vis l = Some e' -> lab_eqb e e' = lab_eqb_tot e e'.
Proof. intros Hv. unfold lab_eqb_tot. rewrite (cond_vis_idem l e' Hv). reflexivity. Qed.

Lemma cond_accepts_tot cfg nctx evs :
  accepts_history cfg nctx evs =
  accepts qstep vis lab_eqb_tot st_eqb tau_labels (fun _ e => [e]) 64 (init cfg nctx) evs.
Proof.
  unfold accepts_history.
  apply (accepts_ext st lab lab qstep vis lab_eqb lab_eqb_tot st_eqb st_eqb tau_labels
           (fun _ e => [e]) (fun _ => True)).
  - intros; exact I.
  - intros; reflexivity.
  - exact lab_eqb_tot_agree.
  - exact I.
Qed.

Lemma cond_converged_tot cfg nctx evs :
  cond_converged cfg nctx evs =
  convergedb st lab lab qstep vis lab_eqb_tot st_eqb tau_labels (fun _ e => [e]) 64 (init cfg nctx) evs.
Proof.
  unfold cond_converged.
  apply (convergedb_ext st lab lab qstep vis lab_eqb lab_eqb_tot st_eqb st_eqb tau_labels
           (fun _ e => [e]) (fun _ => True)).
  - intros; exact I.
  - intros; reflexivity.
  - exact lab_eqb_tot_agree.
  - exact I.
Qed.

(* COMPLETENESS: when the closures converged, a history produced by a run is accepted *)
Theorem cond_accepts_complete cfg nctx evs ls s :
  cond_converged cfg nctx evs = true ->
  run qstep (init cfg nctx) ls = Some s -> cond_trace ls = evs ->
  accepts_history cfg nctx evs = true.
Proof.
  rewrite cond_converged_tot, cond_accepts_tot. unfold cond_trace.
  apply (accepts_complete_b st lab lab qstep vis lab_eqb_tot st_eqb tau_labels (fun _ e => [e])
           cond_st_eqb_spec lab_eqb_tot_refl cond_tau_labels_complete cond_labels_ev_complete).
Qed.

(* a rejection is genuine: no run of the model has this trace *)
Theorem cond_reject_genuine cfg nctx evs :
  cond_converged cfg nctx evs = true -> accepts_history cfg nctx evs = false ->
  forall ls s, run qstep (init cfg nctx) ls = Some s -> cond_trace ls <> evs.
Proof.
  intros Hc Hacc ls s Hr Ht.
  rewrite (cond_accepts_complete cfg nctx evs ls s Hc Hr Ht) in Hacc. discriminate.
Qed.

(* the matcher decides trace membership when the closures converged *)
Theorem cond_accepts_iff cfg nctx evs :
  cond_converged cfg nctx evs = true ->
  (accepts_history cfg nctx evs = true <->
   exists ls s, run qstep (init cfg nctx) ls = Some s /\ cond_trace ls = evs).
Proof.
  intros Hc. split.
  - apply cond_accepts_sound.
  - intros [ls [s [Hr Ht]]]. eapply cond_accepts_complete; eassumption.
Qed.

(* ---- non-vacuity ---- *)
Definition ex_cfg : list (gpos * nat) := [(GNone, 0); (GPost, 0)].
Definition ex_hist : list lab :=
  [LSpawn 0; LCallWait 0; LUnlockEnter 0; LUnlockExit 0; LSpawn 1; LCallWait 1; LUnlockEnter 1;
   LCallSignal; LRetSignal; LRetWait 0 true true; LCancel 0; LRelease 1; LUnlockExit 1;
   LRetWait 1 false false; LQuiesce].

Example ex_accepts : accepts_history ex_cfg 1 ex_hist = true /\ cond_converged ex_cfg 1 ex_hist = true.
Proof. vm_compute. split; reflexivity. Qed.

Example ex_is_trace : exists ls s, run qstep (init ex_cfg 1) ls = Some s /\ cond_trace ls = ex_hist.
Proof. apply cond_accepts_sound. exact (proj1 ex_accepts). Qed.

(* Wait returning nil without a Signal / Broadcast: rejected, and the rejection is genuine *)
Definition ex_bad : list lab :=
  [LSpawn 0; LCallWait 0; LUnlockEnter 0; LUnlockExit 0; LRetWait 0 true true].

Example ex_rejects : accepts_history ex_cfg 1 ex_bad = false /\ cond_converged ex_cfg 1 ex_bad = true.
Proof. vm_compute. split; reflexivity. Qed.

Example ex_no_run : forall ls s, run qstep (init ex_cfg 1) ls = Some s -> cond_trace ls <> ex_bad.
Proof. apply cond_reject_genuine; [exact (proj2 ex_rejects) | exact (proj1 ex_rejects)]. Qed.

Print Assumptions accepts_ext.
Print Assumptions convergedb_ext.
Print Assumptions cond_st_eqb_spec.
Print Assumptions cond_lab_eqb_spec.
Print Assumptions cond_tau_labels_complete.
Print Assumptions cond_labels_ev_complete.
Print Assumptions cond_accepts_sound.
Print Assumptions cond_accepts_complete.
Print Assumptions cond_reject_genuine.
Print Assumptions cond_accepts_iff.
