(* C10 - LTS model of stream.Pipe (stream/stream.go: Pipe, PipeSender.Send / TrySend / Close,
   pipeStream.Next / Close) together with the scenario harness (harness_pipe/pipe.go): any number
   of sender goroutines that call Send / TrySend / PipeSender.Close, one receiver that calls Next
   (one call at a time) and Close, a controller that cancels contexts and waits for quiescence.
   Model only (no proofs here).

   The Go code that is modelled (current tree, i.e. with the "poll senderDone first / drain before
   reporting the end" repair):

     Send:    select { case <-senderDone: return *senderErr; default: }                 (SPre)
              select { case <-ctx.Done(): ...; case <-streamDone: ...;                   (SSel / SParked)
                       case <-senderDone: return *senderErr; case c <- x: return nil }
     TrySend: select { ctx.Done / streamDone / senderDone ...; default: }               (TPoll)
              select { case c <- x: return true, nil; default: return false, nil }       (TSel2)
     Close:   *senderErr = err                                                           (CWrite)
              close(senderDone)                                                          (CCloseCh)
     Next:    select { case <-ctx.Done(): ...; case item := <-c: ...;                    (RSel / RParked)
                       case <-senderDone:
                           select { case item := <-c: return item, nil; default: }       (RDrain)
                           err := *senderErr; if err != nil { return zero, err }; return zero, End }
     Close (receiver): close(streamDone)

   Granularity (DESIGN.md A2.7): every select is one atomic poll-or-park step in which any ready arm
   may be taken (the label carries the arm); a select without default parks when no arm is ready, a
   select with default takes the default arm only when no other arm is ready.  A channel operation
   that makes an arm of a parked select ready completes that select in the same step: a send on c
   with the receiver parked hands the value over (Go's direct hand-off; the buffer is then empty),
   a receive from c with senders parked takes the head of (buffer ++ that sender's value) and
   completes the sender's send (for capacity 0 this is the rendezvous), close(senderDone) /
   close(streamDone) / cancellation wake every select parked on that channel on the corresponding
   arm.  Go wakes the longest-parked sender; the model allows any parked sender (over-approximation:
   every theorem below holds for the larger set of runs, and the matcher accepts a superset).

   PipeSender.Close is two steps (write the error cell, close the channel).  The cell is read only
   after senderDone has been observed closed and it is written only before the close, by the one
   Close call that the scenarios make (the second call would panic in Go: "close of closed
   channel"; [LCallClose] is therefore enabled only if Close has not been invoked yet), so the two
   steps could be fused; they are kept apart to mirror the code and the invariant
   "senderDone closed -> cell holds the argument of Close" is proved instead.

   Values are (sender thread, number of calls that thread completed before this Send) - unique per
   call, so duplication and reordering are observable.  Ghost fields (named g_...) record the history. *)
From Juniper Require Import Common.Base Conc.GoLTS.
From Coq Require Import Arith PeanoNat.
Local Open Scope nat_scope.

Definition val := (nat * nat)%type.

(* error results of Send / TrySend *)
Inductive res := RNil | RCtx | RClosedPipe | RSErr.      (* nil / ctx.Err() / ErrClosedPipe / the non-nil error given to Close *)
(* results of Next *)
Inductive rres := VVal (v : val) | VEnd | VErr | VCtx.   (* item / stream.End / the close error / ctx.Err() *)

Inductive spc :=
| SIdle                               (* between calls *)
| SPre (c : nat)                      (* Send(ctx c, x) called: at the non-blocking poll of senderDone *)
| SSel (c : nat)                      (* about to execute the four-arm select *)
| SParked (c : nat)                   (* parked in the four-arm select *)
| TPoll (c : nat)                     (* TrySend called: at the first select *)
| TSel2 (c : nat)                     (* TrySend: at the second select *)
| CWrite (e : bool)                   (* Close(err) called (e = err is non-nil): about to write *senderErr *)
| CCloseCh                            (* about to close(senderDone) *)
| SRetSend (sent : bool) (r : res)    (* Send about to return r; sent (ghost) = the value entered the channel *)
| SRetTry (ok : bool) (r : res)       (* TrySend about to return (ok, r) *)
| SRetClose.

Record thread := mkT { t_idx : nat; t_pc : spc }.

Inductive rpc :=
| RIdle
| RSel (c : nat)                      (* Next(ctx c) called: about to execute the three-arm select *)
| RParked (c : nat)
| RDrain                              (* took the senderDone arm: at the non-blocking receive *)
| RRet (r : rres).

Inductive rcpc := RCIdle | RCCalled | RCClosed | RCDone.   (* the receiver's Close *)
Inductive cstate := CLive | CReq | CDone.                  (* context: live / cancel() called / Done closed *)

Record st := mkSt {
  cap : nat;                (* bufferSize *)
  buf : list val;           (* contents of c *)
  sdone : bool;             (* senderDone closed *)
  serr : bool;              (* *senderErr != nil *)
  rdone : bool;             (* streamDone closed *)
  ths : list thread;        (* sender goroutines *)
  rcv : rpc;                (* the receiver's Next *)
  rcl : rcpc;               (* the receiver's Close *)
  ctxs : list cstate;
  (* ghost history *)
  g_closing : bool;         (* PipeSender.Close has been invoked *)
  g_cerr : bool;            (* ... with a non-nil error *)
  g_sent : list val;        (* values passed to Send / TrySend calls, in call order *)
  g_comm : list val;        (* values that entered the channel (buffer, hand-off or rendezvous), in that order *)
  g_rcvd : list val;        (* values taken out of the channel by the receiver, in that order *)
  g_ret : list val;         (* values returned by Next, in that order *)
  g_acked : list val        (* values whose Send returned nil / TrySend returned (true, nil) before Close was invoked *)
}.

Inductive lab :=
(* visible events (recorded by the harness) *)
| LCallSend (t c : nat) | LRetSend (t : nat) (r : res)
| LCallTrySend (t c : nat) | LRetTrySend (t : nat) (ok : bool) (r : res)
| LCallClose (t : nat) (e : bool) | LRetClose (t : nat)
| LCallNext (c : nat) | LRetNext (r : rres)
| LCallRClose | LRetRClose
| LCancel (c : nat) | LQuiesce
(* internal steps *)
| TPrePoll (t : nat)          (* Send's first select: senderDone arm or default *)
| TSendCtx (t : nat) | TSendRDone (t : nat) | TSendSDone (t : nat)
| TSendEnq (t : nat)          (* c <- x into the buffer *)
| TSendHand (t : nat)         (* c <- x handed to the parked receiver *)
| TSendPark (t : nat)
| TTryCtx (t : nat) | TTryRDone (t : nat) | TTrySDone (t : nat) | TTryDefault (t : nat)
| TTryEnq (t : nat) | TTryHand (t : nat) | TTryFull (t : nat)
| TCloseWrite (t : nat) | TCloseCh (t : nat)
| TRecvCtx
| TRecvTake (o : option nat)  (* item := <-c; o = the parked sender whose send completes, if any *)
| TRecvSDone | TRecvPark
| TDrainTake (o : option nat) | TDrainEmpty
| TRClose
| TCancelEff (c : nat).

(* ---- helpers ---- *)
Definition getT (s : st) (t : nat) : option thread := nth_error (ths s) t.

Definition set_ths (s : st) (l : list thread) : st :=
  mkSt (cap s) (buf s) (sdone s) (serr s) (rdone s) l (rcv s) (rcl s) (ctxs s)
       (g_closing s) (g_cerr s) (g_sent s) (g_comm s) (g_rcvd s) (g_ret s) (g_acked s).
Definition setT (s : st) (t : nat) (x : thread) : st := set_ths s (upd (ths s) t x).
Definition set_pc (x : thread) (p : spc) : thread := mkT (t_idx x) p.
Definition finish (x : thread) : thread := mkT (S (t_idx x)) SIdle.
Definition set_rcv (s : st) (r : rpc) : st :=
  mkSt (cap s) (buf s) (sdone s) (serr s) (rdone s) (ths s) r (rcl s) (ctxs s)
       (g_closing s) (g_cerr s) (g_sent s) (g_comm s) (g_rcvd s) (g_ret s) (g_acked s).
Definition set_rcl (s : st) (r : rcpc) : st :=
  mkSt (cap s) (buf s) (sdone s) (serr s) (rdone s) (ths s) (rcv s) r (ctxs s)
       (g_closing s) (g_cerr s) (g_sent s) (g_comm s) (g_rcvd s) (g_ret s) (g_acked s).
Definition set_ctxs (s : st) (c : list cstate) : st :=
  mkSt (cap s) (buf s) (sdone s) (serr s) (rdone s) (ths s) (rcv s) (rcl s) c
       (g_closing s) (g_cerr s) (g_sent s) (g_comm s) (g_rcvd s) (g_ret s) (g_acked s).
Definition set_sdone (s : st) : st :=
  mkSt (cap s) (buf s) true (serr s) (rdone s) (ths s) (rcv s) (rcl s) (ctxs s)
       (g_closing s) (g_cerr s) (g_sent s) (g_comm s) (g_rcvd s) (g_ret s) (g_acked s).
Definition set_serr (s : st) (e : bool) : st :=
  mkSt (cap s) (buf s) (sdone s) e (rdone s) (ths s) (rcv s) (rcl s) (ctxs s)
       (g_closing s) (g_cerr s) (g_sent s) (g_comm s) (g_rcvd s) (g_ret s) (g_acked s).
Definition set_rdone (s : st) : st :=
  mkSt (cap s) (buf s) (sdone s) (serr s) true (ths s) (rcv s) (rcl s) (ctxs s)
       (g_closing s) (g_cerr s) (g_sent s) (g_comm s) (g_rcvd s) (g_ret s) (g_acked s).
Definition set_closing (s : st) (e : bool) : st :=
  mkSt (cap s) (buf s) (sdone s) (serr s) (rdone s) (ths s) (rcv s) (rcl s) (ctxs s)
       true e (g_sent s) (g_comm s) (g_rcvd s) (g_ret s) (g_acked s).
Definition add_sent (s : st) (v : val) : st :=
  mkSt (cap s) (buf s) (sdone s) (serr s) (rdone s) (ths s) (rcv s) (rcl s) (ctxs s)
       (g_closing s) (g_cerr s) (g_sent s ++ [v]) (g_comm s) (g_rcvd s) (g_ret s) (g_acked s).
Definition add_ret (s : st) (v : val) : st :=
  mkSt (cap s) (buf s) (sdone s) (serr s) (rdone s) (ths s) (rcv s) (rcl s) (ctxs s)
       (g_closing s) (g_cerr s) (g_sent s) (g_comm s) (g_rcvd s) (g_ret s ++ [v]) (g_acked s).
Definition add_acked (s : st) (v : val) : st :=
  mkSt (cap s) (buf s) (sdone s) (serr s) (rdone s) (ths s) (rcv s) (rcl s) (ctxs s)
       (g_closing s) (g_cerr s) (g_sent s) (g_comm s) (g_rcvd s) (g_ret s) (g_acked s ++ [v]).
(* the value v enters the buffer *)
Definition enqueue (s : st) (v : val) : st :=
  mkSt (cap s) (buf s ++ [v]) (sdone s) (serr s) (rdone s) (ths s) (rcv s) (rcl s) (ctxs s)
       (g_closing s) (g_cerr s) (g_sent s) (g_comm s ++ [v]) (g_rcvd s) (g_ret s) (g_acked s).
(* the value v is handed to the parked receiver, which will return it *)
Definition handoff (s : st) (v : val) : st :=
  mkSt (cap s) (buf s) (sdone s) (serr s) (rdone s) (ths s) (RRet (VVal v)) (rcl s) (ctxs s)
       (g_closing s) (g_cerr s) (g_sent s) (g_comm s ++ [v]) (g_rcvd s ++ [v]) (g_ret s) (g_acked s).
(* the receiver takes v; the buffer becomes b, the thread list l, the committed sequence cm *)
Definition taken (s : st) (v : val) (b : list val) (l : list thread) (cm : list val) : st :=
  mkSt (cap s) b (sdone s) (serr s) (rdone s) l (RRet (VVal v)) (rcl s) (ctxs s)
       (g_closing s) (g_cerr s) (g_sent s) cm (g_rcvd s ++ [v]) (g_ret s) (g_acked s).

Definition cdone (cxs : list cstate) (c : nat) : bool :=
  match nth_error cxs c with Some CDone => true | _ => false end.
Definition ctx_done (s : st) (c : nat) : bool := cdone (ctxs s) c.

Definition errres (s : st) : res := if serr s then RSErr else RNil.     (* *senderErr as a Send result *)
Definition endres (s : st) : rres := if serr s then VErr else VEnd.     (* ... as a Next result *)

Definition is_sparked (x : thread) : bool := match t_pc x with SParked _ => true | _ => false end.
Definition rparked (r : rpc) : bool := match r with RParked _ => true | _ => false end.
Definition has_room (s : st) : bool := length (buf s) <? cap s.

(* wake-ups of parked senders *)
Definition wake_all (r : res) (x : thread) : thread :=
  match t_pc x with SParked _ => set_pc x (SRetSend false r) | _ => x end.
Definition wake_ctx (c : nat) (x : thread) : thread :=
  match t_pc x with
  | SParked c' => if Nat.eqb c' c then set_pc x (SRetSend false RCtx) else x
  | _ => x
  end.

(* item := <-c.  o = Some t: sender t is parked (buffer full, or capacity 0); the receiver gets the
   head of buffer ++ [t's value], the rest is the new buffer, t's send has succeeded.
   o = None: no sender is parked; the receiver gets the head of the buffer. *)
Definition do_take (s : st) (o : option nat) : option st :=
  match o with
  | None =>
      if existsb is_sparked (ths s) then None
      else match buf s with
           | v :: b => Some (taken s v b (ths s) (g_comm s))
           | [] => None
           end
  | Some t =>
      match getT s t with
      | Some x =>
          match t_pc x with
          | SParked _ =>
              let w := (t, t_idx x) in
              match buf s ++ [w] with
              | v :: b => Some (taken s v b (upd (ths s) t (set_pc x (SRetSend true RNil))) (g_comm s ++ [w]))
              | [] => None
              end
          | _ => None
          end
      | None => None
      end
  end.

(* nothing can be received from c right now *)
Definition chan_empty (s : st) : bool :=
  match buf s with [] => negb (existsb is_sparked (ths s)) | _ => false end.

(* ---- the transition function ---- *)
Definition step (s : st) (l : lab) : option st :=
  match l with
  (* ---------------- Send ---------------- *)
  | LCallSend t c =>
      match getT s t with
      | Some x => match t_pc x with
                  | SIdle => Some (add_sent (setT s t (set_pc x (SPre c))) (t, t_idx x))
                  | _ => None end
      | None => None
      end
  | TPrePoll t =>
      match getT s t with
      | Some x => match t_pc x with
                  | SPre c => if sdone s then Some (setT s t (set_pc x (SRetSend false (errres s))))
                              else Some (setT s t (set_pc x (SSel c)))
                  | _ => None end
      | None => None
      end
  | TSendCtx t =>
      match getT s t with
      | Some x => match t_pc x with
                  | SSel c => if ctx_done s c then Some (setT s t (set_pc x (SRetSend false RCtx))) else None
                  | _ => None end
      | None => None
      end
  | TSendRDone t =>
      match getT s t with
      | Some x => match t_pc x with
                  | SSel c => if rdone s then Some (setT s t (set_pc x (SRetSend false RClosedPipe))) else None
                  | _ => None end
      | None => None
      end
  | TSendSDone t =>
      match getT s t with
      | Some x => match t_pc x with
                  | SSel c => if sdone s then Some (setT s t (set_pc x (SRetSend false (errres s)))) else None
                  | _ => None end
      | None => None
      end
  | TSendEnq t =>
      match getT s t with
      | Some x => match t_pc x with
                  | SSel c => if negb (rparked (rcv s)) && has_room s
                              then Some (enqueue (setT s t (set_pc x (SRetSend true RNil))) (t, t_idx x))
                              else None
                  | _ => None end
      | None => None
      end
  | TSendHand t =>
      match getT s t with
      | Some x => match t_pc x with
                  | SSel c => if rparked (rcv s)
                              then Some (handoff (setT s t (set_pc x (SRetSend true RNil))) (t, t_idx x))
                              else None
                  | _ => None end
      | None => None
      end
  | TSendPark t =>
      match getT s t with
      | Some x => match t_pc x with
                  | SSel c => if ctx_done s c || rdone s || sdone s || rparked (rcv s) || has_room s then None
                              else Some (setT s t (set_pc x (SParked c)))
                  | _ => None end
      | None => None
      end
  | LRetSend t r =>
      match getT s t with
      | Some x => match t_pc x with
                  | SRetSend b r' =>
                      match r, r' with
                      | RNil, RNil =>
                          let s' := setT s t (finish x) in
                          Some (if g_closing s then s' else add_acked s' (t, t_idx x))
                      | RCtx, RCtx | RClosedPipe, RClosedPipe | RSErr, RSErr => Some (setT s t (finish x))
                      | _, _ => None
                      end
                  | _ => None end
      | None => None
      end
  (* ---------------- TrySend ---------------- *)
  | LCallTrySend t c =>
      match getT s t with
      | Some x => match t_pc x with
                  | SIdle => Some (add_sent (setT s t (set_pc x (TPoll c))) (t, t_idx x))
                  | _ => None end
      | None => None
      end
  | TTryCtx t =>
      match getT s t with
      | Some x => match t_pc x with
                  | TPoll c => if ctx_done s c then Some (setT s t (set_pc x (SRetTry false RCtx))) else None
                  | _ => None end
      | None => None
      end
  | TTryRDone t =>
      match getT s t with
      | Some x => match t_pc x with
                  | TPoll c => if rdone s then Some (setT s t (set_pc x (SRetTry false RClosedPipe))) else None
                  | _ => None end
      | None => None
      end
  | TTrySDone t =>
      match getT s t with
      | Some x => match t_pc x with
                  | TPoll c => if sdone s then Some (setT s t (set_pc x (SRetTry false (errres s)))) else None
                  | _ => None end
      | None => None
      end
  | TTryDefault t =>
      match getT s t with
      | Some x => match t_pc x with
                  | TPoll c => if ctx_done s c || rdone s || sdone s then None
                               else Some (setT s t (set_pc x (TSel2 c)))
                  | _ => None end
      | None => None
      end
  | TTryEnq t =>
      match getT s t with
      | Some x => match t_pc x with
                  | TSel2 c => if negb (rparked (rcv s)) && has_room s
                               then Some (enqueue (setT s t (set_pc x (SRetTry true RNil))) (t, t_idx x))
                               else None
                  | _ => None end
      | None => None
      end
  | TTryHand t =>
      match getT s t with
      | Some x => match t_pc x with
                  | TSel2 c => if rparked (rcv s)
                               then Some (handoff (setT s t (set_pc x (SRetTry true RNil))) (t, t_idx x))
                               else None
                  | _ => None end
      | None => None
      end
  | TTryFull t =>
      match getT s t with
      | Some x => match t_pc x with
                  | TSel2 c => if rparked (rcv s) || has_room s then None
                               else Some (setT s t (set_pc x (SRetTry false RNil)))
                  | _ => None end
      | None => None
      end
  | LRetTrySend t ok r =>
      match getT s t with
      | Some x => match t_pc x with
                  | SRetTry ok' r' =>
                      if Bool.eqb ok ok' then
                        match r, r' with
                        | RNil, RNil =>
                            let s' := setT s t (finish x) in
                            Some (if ok && negb (g_closing s) then add_acked s' (t, t_idx x) else s')
                        | RCtx, RCtx | RClosedPipe, RClosedPipe | RSErr, RSErr => Some (setT s t (finish x))
                        | _, _ => None
                        end
                      else None
                  | _ => None end
      | None => None
      end
  (* ---------------- PipeSender.Close ---------------- *)
  | LCallClose t e =>
      match getT s t with
      | Some x => match t_pc x with
                  | SIdle => if g_closing s then None     (* Close may only be called once *)
                             else Some (set_closing (setT s t (set_pc x (CWrite e))) e)
                  | _ => None end
      | None => None
      end
  | TCloseWrite t =>
      match getT s t with
      | Some x => match t_pc x with
                  | CWrite e => Some (set_serr (setT s t (set_pc x CCloseCh)) e)
                  | _ => None end
      | None => None
      end
  | TCloseCh t =>
      match getT s t with
      | Some x => match t_pc x with
                  | CCloseCh =>
                      let l := upd (map (wake_all (errres s)) (ths s)) t (set_pc x SRetClose) in
                      let r := match rcv s with RParked _ => RDrain | r => r end in
                      Some (set_sdone (set_rcv (set_ths s l) r))
                  | _ => None end
      | None => None
      end
  | LRetClose t =>
      match getT s t with
      | Some x => match t_pc x with
                  | SRetClose => Some (setT s t (finish x))
                  | _ => None end
      | None => None
      end
  (* ---------------- Next ---------------- *)
  | LCallNext c => match rcv s with RIdle => Some (set_rcv s (RSel c)) | _ => None end
  | TRecvCtx =>
      match rcv s with
      | RSel c => if ctx_done s c then Some (set_rcv s (RRet VCtx)) else None
      | _ => None
      end
  | TRecvTake o => match rcv s with RSel _ => do_take s o | _ => None end
  | TRecvSDone =>
      match rcv s with
      | RSel c => if sdone s then Some (set_rcv s RDrain) else None
      | _ => None
      end
  | TRecvPark =>
      match rcv s with
      | RSel c => if ctx_done s c || negb (chan_empty s) || sdone s then None
                  else Some (set_rcv s (RParked c))
      | _ => None
      end
  | TDrainTake o => match rcv s with RDrain => do_take s o | _ => None end
  | TDrainEmpty =>
      match rcv s with
      | RDrain => if chan_empty s then Some (set_rcv s (RRet (endres s))) else None
      | _ => None
      end
  | LRetNext r =>
      match rcv s with
      | RRet r' =>
          match r, r' with
          | VVal (a, b), VVal (a', b') =>
              if Nat.eqb a a' && Nat.eqb b b' then Some (add_ret (set_rcv s RIdle) (a', b')) else None
          | VEnd, VEnd | VErr, VErr | VCtx, VCtx => Some (set_rcv s RIdle)
          | _, _ => None
          end
      | _ => None
      end
  (* ---------------- receiver Close ---------------- *)
  | LCallRClose => match rcl s with RCIdle => Some (set_rcl s RCCalled) | _ => None end
  | TRClose =>
      match rcl s with
      | RCCalled => Some (set_rdone (set_rcl (set_ths s (map (wake_all RClosedPipe) (ths s))) RCClosed))
      | _ => None
      end
  | LRetRClose => match rcl s with RCClosed => Some (set_rcl s RCDone) | _ => None end
  (* ---------------- contexts ---------------- *)
  | LCancel c =>
      match nth_error (ctxs s) c with
      | Some CLive => Some (set_ctxs s (upd (ctxs s) c CReq))
      | Some _ => Some s                   (* cancelling twice is a no-op *)
      | None => None
      end
  | TCancelEff c =>
      match nth_error (ctxs s) c with
      | Some CReq =>
          let r := match rcv s with
                   | RParked c' => if Nat.eqb c' c then RRet VCtx else RParked c'
                   | r => r end in
          Some (set_rcv (set_ths (set_ctxs s (upd (ctxs s) c CDone)) (map (wake_ctx c) (ths s))) r)
      | _ => None
      end
  | LQuiesce => None     (* see [qstep] *)
  end.

(* ---- label enumeration for the matcher ---- *)
Definition thread_taus (t : nat) : list lab :=
  [TPrePoll t; TSendCtx t; TSendRDone t; TSendSDone t; TSendEnq t; TSendHand t; TSendPark t;
   TTryCtx t; TTryRDone t; TTrySDone t; TTryDefault t; TTryEnq t; TTryHand t; TTryFull t;
   TCloseWrite t; TCloseCh t].

Definition recv_taus (s : st) : list lab :=
  [TRecvCtx; TRecvTake None; TRecvSDone; TRecvPark; TDrainTake None; TDrainEmpty]
  ++ flat_map (fun t => [TRecvTake (Some t); TDrainTake (Some t)]) (seq 0 (length (ths s))).

Definition tau_labels (s : st) : list lab :=
  flat_map thread_taus (seq 0 (length (ths s)))
  ++ recv_taus s ++ [TRClose]
  ++ map TCancelEff (seq 0 (length (ctxs s))).

Definition all_res : list res := [RNil; RCtx; RClosedPipe; RSErr].

(* the return events of thread t *)
Definition thread_rets (t : nat) : list lab :=
  map (LRetSend t) all_res ++ map (LRetTrySend t true) all_res ++ map (LRetTrySend t false) all_res
  ++ [LRetClose t].

(* visible labels that the library / the sender and receiver goroutines (not the controller) emit
   on their own: the pending returns *)
Definition lib_visible (s : st) : list lab :=
  flat_map thread_rets (seq 0 (length (ths s)))
  ++ match rcv s with RRet r => [LRetNext r] | _ => [] end
  ++ [LRetRClose].

Definition enabled (s : st) (l : lab) : bool := match step s l with Some _ => true | None => false end.

(* nothing can happen without the controller: what the harness's quiescence detector observes *)
Definition quiescent (s : st) : bool :=
  negb (existsb (enabled s) (tau_labels s)) && negb (existsb (enabled s) (lib_visible s)).

Definition qstep (s : st) (l : lab) : option st :=
  match l with
  | LQuiesce => if quiescent s then Some s else None
  | _ => step s l
  end.

(* ---- events ---- *)
Definition vis (l : lab) : option lab :=
  match l with
  | LCallSend _ _ | LRetSend _ _ | LCallTrySend _ _ | LRetTrySend _ _ _ | LCallClose _ _ | LRetClose _
  | LCallNext _ | LRetNext _ | LCallRClose | LRetRClose | LCancel _ | LQuiesce => Some l
  | _ => None
  end.

Definition res_eqb (a b : res) : bool :=
  match a, b with RNil, RNil | RCtx, RCtx | RClosedPipe, RClosedPipe | RSErr, RSErr => true | _, _ => false end.
Definition val_eqb (a b : val) : bool := Nat.eqb (fst a) (fst b) && Nat.eqb (snd a) (snd b).
Definition rres_eqb (a b : rres) : bool :=
  match a, b with
  | VVal v, VVal w => val_eqb v w
  | VEnd, VEnd | VErr, VErr | VCtx, VCtx => true
  | _, _ => false
  end.

Definition lab_eqb (a b : lab) : bool :=
  match a, b with
  | LCallSend t c, LCallSend t' c' | LCallTrySend t c, LCallTrySend t' c' => Nat.eqb t t' && Nat.eqb c c'
  | LRetSend t r, LRetSend t' r' => Nat.eqb t t' && res_eqb r r'
  | LRetTrySend t k r, LRetTrySend t' k' r' => Nat.eqb t t' && Bool.eqb k k' && res_eqb r r'
  | LCallClose t e, LCallClose t' e' => Nat.eqb t t' && Bool.eqb e e'
  | LRetClose t, LRetClose t' | LCallNext t, LCallNext t' | LCancel t, LCancel t' => Nat.eqb t t'
  | LRetNext r, LRetNext r' => rres_eqb r r'
  | LCallRClose, LCallRClose | LRetRClose, LRetRClose | LQuiesce, LQuiesce => true
  | _, _ => false
  end.

Definition spc_eqb (a b : spc) : bool :=
  match a, b with
  | SIdle, SIdle | CCloseCh, CCloseCh | SRetClose, SRetClose => true
  | SPre c, SPre d | SSel c, SSel d | SParked c, SParked d | TPoll c, TPoll d | TSel2 c, TSel2 d => Nat.eqb c d
  | CWrite e, CWrite f => Bool.eqb e f
  | SRetSend k r, SRetSend k' r' | SRetTry k r, SRetTry k' r' => Bool.eqb k k' && res_eqb r r'
  | _, _ => false
  end.
Definition thread_eqb (a b : thread) : bool := Nat.eqb (t_idx a) (t_idx b) && spc_eqb (t_pc a) (t_pc b).
Definition rpc_eqb (a b : rpc) : bool :=
  match a, b with
  | RIdle, RIdle | RDrain, RDrain => true
  | RSel c, RSel d | RParked c, RParked d => Nat.eqb c d
  | RRet r, RRet r' => rres_eqb r r'
  | _, _ => false
  end.
Definition rcpc_eqb (a b : rcpc) : bool :=
  match a, b with RCIdle, RCIdle | RCCalled, RCCalled | RCClosed, RCClosed | RCDone, RCDone => true | _, _ => false end.
Definition cstate_eqb (a b : cstate) : bool :=
  match a, b with CLive, CLive | CReq, CReq | CDone, CDone => true | _, _ => false end.
Fixpoint list_eqb {A} (eqb : A -> A -> bool) (a b : list A) : bool :=
  match a, b with
  | [], [] => true
  | x :: a', y :: b' => if eqb x y then list_eqb eqb a' b' else false
  | _, _ => false
  end.

(* lazy conjunction (vm_compute is call-by-value: [&&] would evaluate both sides) *)
Notation "a &&& b" := (if a then b else false) (at level 40, left associativity).

(* all fields, ghosts included (cap never changes) *)
Definition st_eqb (a b : st) : bool :=
  list_eqb thread_eqb (ths a) (ths b) &&& rpc_eqb (rcv a) (rcv b) &&& list_eqb val_eqb (buf a) (buf b)
  &&& Bool.eqb (sdone a) (sdone b) &&& Bool.eqb (serr a) (serr b) &&& Bool.eqb (rdone a) (rdone b)
  &&& rcpc_eqb (rcl a) (rcl b) &&& list_eqb cstate_eqb (ctxs a) (ctxs b)
  &&& Bool.eqb (g_closing a) (g_closing b) &&& Bool.eqb (g_cerr a) (g_cerr b)
  &&& list_eqb val_eqb (g_comm a) (g_comm b) &&& list_eqb val_eqb (g_rcvd a) (g_rcvd b)
  &&& list_eqb val_eqb (g_ret a) (g_ret b) &&& list_eqb val_eqb (g_acked a) (g_acked b)
  &&& list_eqb val_eqb (g_sent a) (g_sent b).

(* the initial state of a scenario: buffer size n, nt sender goroutines, nc contexts *)
Definition init (n nt nc : nat) : st :=
  mkSt n [] false false false (repeat (mkT 0 SIdle) nt) RIdle RCIdle (repeat CLive nc)
       false false [] [] [] [] [].

(* history acceptance: some run of the model produces exactly the recorded events, in order *)
Definition accepts_history (n nt nc : nat) (evs : list lab) : bool :=
  accepts qstep vis lab_eqb st_eqb tau_labels (fun _ e => [e]) 64 (init n nt nc) evs.

Definition first_rejected (n nt nc : nat) (evs : list lab) : option nat :=
  first_reject qstep vis lab_eqb st_eqb tau_labels (fun _ e => [e]) 64
               (close qstep vis st_eqb tau_labels 64 [init n nt nc]) evs O.
