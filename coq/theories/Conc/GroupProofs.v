(* C17 — proofs about the LTS model of xsync.Group (Conc/Group.v).

   Three invariants of every state reachable by [qstep] from [init c], for every scenario [c]
   (any number of registrations, trigger calls, Stop/StopAndWait callers, any interleaving):
     Inv1  per-registration consistency (program counters, timer bits, ghost counters),
     Inv2  RWMutex / WaitGroup / stopped accounting and the StopAndWait barrier,
     Inv3  no trigger token is lost.
   Stdlib only, no axioms. *)
From Juniper Require Import Common.Base Conc.GoLTS Conc.Group.
From Coq Require Import Arith PeanoNat.
Local Open Scope nat_scope.

(* ------------------------------------------------------------------ *)
(* list helpers                                                        *)
(* ------------------------------------------------------------------ *)

Lemma nth_map {A B} (f : A -> B) l n : nth_error (map f l) n = option_map f (nth_error l n).
Proof. revert n; induction l as [|h t IH]; intros [|n]; simpl; auto. Qed.

Lemma nth_lt {A} (l : list A) n x : nth_error l n = Some x -> n < length l.
Proof. intros H. apply nth_error_Some. congruence. Qed.

Lemma nth_upd {A} (l : list A) n m x :
  nth_error (upd l n x) m = if Nat.eq_dec n m then (if lt_dec n (length l) then Some x else None)
                            else nth_error l m.
Proof.
  destruct (Nat.eq_dec n m) as [->|Hne].
  - destruct (lt_dec m (length l)) as [Hlt|Hge].
    + apply nth_error_upd_same; exact Hlt.
    + apply nth_error_None. rewrite upd_length. lia.
  - apply nth_error_upd_other; exact Hne.
Qed.

Lemma nth_upd_inv {A} (l : list A) n m x y :
  nth_error (upd l n x) m = Some y -> (n = m /\ y = x) \/ (n <> m /\ nth_error l m = Some y).
Proof.
  rewrite nth_upd. destruct (Nat.eq_dec n m) as [->|Hne]; [|auto].
  destruct (lt_dec m (length l)); [|discriminate]. intros H; inversion H; auto.
Qed.

Lemma nth_upd_same {A} (l : list A) n x y : nth_error l n = Some y -> nth_error (upd l n x) n = Some x.
Proof. intros H. apply nth_error_upd_same. eapply nth_lt; eauto. Qed.

(* step inversion: split every match / if in the hypothesis *)
Ltac dstep Hs :=
  repeat match type of Hs with
         | match ?e with _ => _ end = Some _ =>
             let E := fresh "E" in destruct e eqn:E; try discriminate Hs
         end.

Definition b2n (b : bool) : nat := if b then 1 else 0.

(* ------------------------------------------------------------------ *)
(* Inv1: per-registration consistency                                  *)
(* ------------------------------------------------------------------ *)

(* registration pcs before the go statement (or on the path that never spawns) *)
Definition rpc_pre (p : rpc) : bool :=
  match p with RSpawned | RRet => false | _ => true end.

(* which goroutine pcs exist for which kind of registration *)
Definition pc_kind_ok (k : kind) (g : gpc) : bool :=
  match g with
  | GNone | GRunF | GInF | GExiting | GExited => true
  | GTop | GSelect | GParked => match k with KDo => false | _ => true end
  | GStart | GReset => has_timer k
  | GStopT | GDrain => match k with KPoT => true | _ => false end
  end.

(* the timer bits (pending, value in channel) at each pc:
   Idle = (false,false), Armed = (true,false), Fired = (false,true); (true,true) would be a stale value *)
Definition timer_ok (k : kind) (g : gpc) (a c : bool) : bool :=
  if has_timer k then
    match g with
    | GNone | GStart | GReset => negb a && negb c
    | GTop | GSelect | GStopT | GRunF | GInF => xorb a c
    | GParked => a && negb c
    | GDrain => negb a && c
    | GExiting => negb (a && c)
    | GExited => negb a
    end
  else negb a && negb c.

Definition reg_okb (d : bool) (k : kind) (rp : rpc) (g : gpc) (tok a c : bool) : bool :=
  pc_kind_ok k g && timer_ok k g a c
  && (if rpc_pre rp then gpc_eqb g GNone else true)
  && match rp with RSpawned => negb (gpc_eqb g GNone) | _ => true end
  && match rp with
     | RNoSpawn | RSkipped => d
     | RRet => match g with GNone => d | _ => true end
     | _ => true end
  && match g with GParked => negb d && negb (has_trig k && tok) | _ => true end
  && match g with GExiting | GExited => match k with KDo => true | _ => d end | _ => true end.

Definition reg_ok (d : bool) (x : reg) : Prop :=
  reg_okb d (r_kind x) (r_rpc x) (r_gpc x) (r_tok x) (r_tact x) (r_tchan x) = true /\
  r_infl x = match r_gpc x with GInF => 1 | _ => 0 end /\
  r_spawns x = match r_gpc x with GNone => 0 | _ => 1 end.

Definition Inv1 (s : st) : Prop := forall r x, nth_error (regs s) r = Some x -> reg_ok (ctxd s) x.

Lemma regs_upd_ok (P : reg -> Prop) l r x' :
  (forall i x, nth_error l i = Some x -> P x) -> P x' ->
  forall i x, nth_error (upd l r x') i = Some x -> P x.
Proof.
  intros Hall Hx i x Hi. destruct (nth_upd_inv _ _ _ _ _ Hi) as [[_ ->]|[_ Hi']]; [exact Hx | eapply Hall; eauto].
Qed.

Lemma regs_map_ok (P Q : reg -> Prop) l f :
  (forall i x, nth_error l i = Some x -> P x) -> (forall x, P x -> Q (f x)) ->
  forall i x, nth_error (map f l) i = Some x -> Q x.
Proof.
  intros Hall Hf i x Hi. rewrite nth_map in Hi. destruct (nth_error l i) as [y|] eqn:Hy; [|discriminate].
  simpl in Hi. inversion Hi; subst x. apply Hf. eapply Hall; eauto.
Qed.

(* brute force over the finite fields of one registration *)
Ltac reg_cases x :=
  destruct x as [k fc o p rp gp tok ta tc runs infl sp]; unfold reg_ok in *; simpl in *; subst;
  repeat match goal with H : _ /\ _ |- _ => destruct H end.

Ltac reg_solve :=
  repeat split; simpl in *; subst; try lia; try congruence; try reflexivity;
  repeat match goal with
         | H : reg_okb _ ?k _ _ _ _ _ = true |- _ =>
             repeat match goal with b : bool |- _ => clear b end;
             revert H;
             repeat match goal with b : bool |- _ => destruct b end;
             repeat match goal with kk : kind |- _ => destruct kk end;
             repeat match goal with pp : rpc |- _ => destruct pp end;
             repeat match goal with pp : gpc |- _ => destruct pp end;
             simpl; intros; try discriminate; try reflexivity; try assumption
         end.

Lemma reg_ok_wake d x : reg_ok d x -> reg_ok true (wake_ctx x).
Proof.
  intros H. unfold wake_ctx. reg_cases x.
  destruct gp; simpl; reg_solve.
Qed.

Lemma Inv1_init c : Inv1 (init c).
Proof.
  intros r x Hx. unfold init in Hx; simpl in Hx. rewrite nth_map in Hx.
  destruct (nth_error (c_regs c) r) as [[[k fc] o]|]; [|discriminate]. simpl in Hx.
  inversion Hx; subst x. unfold reg_ok; simpl. destruct k; auto.
Qed.

(* one registration changes, the context bit stays *)
Ltac inv1_upd HI :=
  match goal with
  | Hx : getr ?s ?r = Some ?x |- _ =>
      let H := fresh "Hok" in
      repeat match goal with Ed : ctxd s = _ |- _ => rewrite Ed in *; clear Ed end;
      pose proof (HI r x Hx) as H;
      eapply regs_upd_ok; [exact HI|]; clear HI Hx;
      let d := fresh "d" in
      remember (ctxd s) as d; clear dependent s;
      reg_cases x; reg_solve
  end.

Lemma Inv1_step s l s' : Inv1 s -> step s l = Some s' -> Inv1 s'.
Proof.
  unfold Inv1. intros HI Hs. unfold step in Hs.
  destruct l; dstep Hs; try discriminate Hs; injection Hs as Hs; subst s'; simpl;
    try exact HI; try (inv1_upd HI; fail).
  all: try (eapply regs_map_ok; [exact HI | intros x0 H0; eapply reg_ok_wake; exact H0]).
Qed.
