(* C17 — proofs about the LTS model of xsync.Group (Conc/Group.v).

   Three invariants of every state reachable by [qstep] from [init c], for every scenario [c]
   (any number of registrations, trigger calls, Stop/StopAndWait callers, any interleaving):
     Inv1  per-registration consistency (program counters, timer bits, ghost counters),
     Inv2  RWMutex / WaitGroup / stopped accounting and the StopAndWait barrier,
     Inv3  no trigger token is lost.
   Stdlib only, no axioms. *)
From Juniper Require Import Common.Base Conc.GoLTS Conc.Group.
From Coq Require Import Arith PeanoNat.
Local Open Scope nat_scope.

(* ------------------------------------------------------------------ *)
(* list helpers                                                        *)
(* ------------------------------------------------------------------ *)

Lemma nth_map {A B} (f : A -> B) l n : nth_error (map f l) n = option_map f (nth_error l n).
Proof. revert n; induction l as [|h t IH]; intros [|n]; simpl; auto. Qed.

Lemma nth_lt {A} (l : list A) n x : nth_error l n = Some x -> n < length l.
Proof. intros H. apply nth_error_Some. congruence. Qed.

Lemma nth_upd {A} (l : list A) n m x :
  nth_error (upd l n x) m = if Nat.eq_dec n m then (if lt_dec n (length l) then Some x else None)
                            else nth_error l m.
Proof.
  destruct (Nat.eq_dec n m) as [->|Hne].
  - destruct (lt_dec m (length l)) as [Hlt|Hge].
    + apply nth_error_upd_same; exact Hlt.
    + apply nth_error_None. rewrite upd_length. lia.
  - apply nth_error_upd_other; exact Hne.
Qed.

Lemma nth_upd_inv {A} (l : list A) n m x y :
  nth_error (upd l n x) m = Some y -> (n = m /\ y = x) \/ (n <> m /\ nth_error l m = Some y).
Proof.
  rewrite nth_upd. destruct (Nat.eq_dec n m) as [->|Hne]; [|auto].
  destruct (lt_dec m (length l)); [|discriminate]. intros H; inversion H; auto.
Qed.

Lemma nth_upd_same {A} (l : list A) n x y : nth_error l n = Some y -> nth_error (upd l n x) n = Some x.
Proof. intros H. apply nth_error_upd_same. eapply nth_lt; eauto. Qed.

(* step inversion: split every match / if in the hypothesis *)
Ltac dstep Hs :=
  repeat match type of Hs with
         | match ?e with _ => _ end = Some _ =>
             let E := fresh "E" in destruct e eqn:E; try discriminate Hs
         end.

Definition b2n (b : bool) : nat := if b then 1 else 0.

(* ------------------------------------------------------------------ *)
(* Inv1: per-registration consistency                                  *)
(* ------------------------------------------------------------------ *)

(* registration pcs before the go statement (or on the path that never spawns) *)
Definition rpc_pre (p : rpc) : bool :=
  match p with RSpawned | RRet => false | _ => true end.

(* which goroutine pcs exist for which kind of registration *)
Definition pc_kind_ok (k : kind) (g : gpc) : bool :=
  match g with
  | GNone | GRunF | GInF | GExiting | GExited => true
  | GTop | GSelect | GParked => match k with KDo => false | _ => true end
  | GStart | GReset => has_timer k
  | GStopT | GDrain => match k with KPoT => true | _ => false end
  end.

(* the timer bits (pending, value in channel) at each pc:
   Idle = (false,false), Armed = (true,false), Fired = (false,true); (true,true) would be a stale value *)
Definition timer_ok (k : kind) (g : gpc) (a c : bool) : bool :=
  if has_timer k then
    match g with
    | GNone | GStart | GReset => negb a && negb c
    | GTop | GSelect | GStopT | GRunF | GInF => xorb a c
    | GParked => a && negb c
    | GDrain => negb a && c
    | GExiting => negb (a && c)
    | GExited => negb a
    end
  else negb a && negb c.

Definition reg_okb (d : bool) (k : kind) (rp : rpc) (g : gpc) (tok a c : bool) : bool :=
  pc_kind_ok k g && timer_ok k g a c
  && (if rpc_pre rp then gpc_eqb g GNone else true)
  && match rp with RSpawned => negb (gpc_eqb g GNone) | _ => true end
  && match rp with
     | RNoSpawn | RSkipped => d
     | RRet => match g with GNone => d | _ => true end
     | _ => true end
  && match g with GParked => negb d && negb (has_trig k && tok) | _ => true end
  && match g with GExiting | GExited => match k with KDo => true | _ => d end | _ => true end.

Definition reg_ok (d : bool) (x : reg) : Prop :=
  reg_okb d (r_kind x) (r_rpc x) (r_gpc x) (r_tok x) (r_tact x) (r_tchan x) = true /\
  r_infl x = match r_gpc x with GInF => 1 | _ => 0 end /\
  r_spawns x = match r_gpc x with GNone => 0 | _ => 1 end.

Definition Inv1 (s : st) : Prop := forall r x, nth_error (regs s) r = Some x -> reg_ok (ctxd s) x.

Lemma regs_upd_ok (P : reg -> Prop) l r x' :
  (forall i x, nth_error l i = Some x -> P x) -> P x' ->
  forall i x, nth_error (upd l r x') i = Some x -> P x.
Proof.
  intros Hall Hx i x Hi. destruct (nth_upd_inv _ _ _ _ _ Hi) as [[_ ->]|[_ Hi']]; [exact Hx | eapply Hall; eauto].
Qed.

Lemma regs_map_ok (P Q : reg -> Prop) l f :
  (forall i x, nth_error l i = Some x -> P x) -> (forall x, P x -> Q (f x)) ->
  forall i x, nth_error (map f l) i = Some x -> Q x.
Proof.
  intros Hall Hf i x Hi. rewrite nth_map in Hi. destruct (nth_error l i) as [y|] eqn:Hy; [|discriminate].
  simpl in Hi. inversion Hi; subst x. apply Hf. eapply Hall; eauto.
Qed.

(* brute force over the finite fields of one registration *)
Ltac reg_cases x :=
  destruct x as [k fc o p rp gp tok ta tc runs infl sp]; unfold reg_ok in *; simpl in *; subst;
  repeat match goal with H : _ /\ _ |- _ => destruct H end.

Ltac reg_solve :=
  repeat split; simpl in *; subst; try lia; try congruence; try reflexivity;
  repeat match goal with
         | H : reg_okb _ ?k _ _ _ _ _ = true |- _ =>
             repeat match goal with b : bool |- _ => clear b end;
             revert H;
             repeat match goal with b : bool |- _ => destruct b end;
             repeat match goal with kk : kind |- _ => destruct kk end;
             repeat match goal with pp : rpc |- _ => destruct pp end;
             repeat match goal with pp : gpc |- _ => destruct pp end;
             simpl; intros; try discriminate; try reflexivity; try assumption
         end.

Lemma reg_ok_wake d x : reg_ok d x -> reg_ok true (wake_ctx x).
Proof.
  intros H. unfold wake_ctx. reg_cases x.
  destruct gp; simpl; reg_solve.
Qed.

Lemma Inv1_init c : Inv1 (init c).
Proof.
  intros r x Hx. unfold init in Hx; simpl in Hx. rewrite nth_map in Hx.
  destruct (nth_error (c_regs c) r) as [[[k fc] o]|]; [|discriminate]. simpl in Hx.
  inversion Hx; subst x. unfold reg_ok; simpl. destruct k; auto.
Qed.

(* one registration changes, the context bit stays *)
Ltac inv1_upd HI :=
  match goal with
  | Hx : getr ?s ?r = Some ?x |- _ =>
      let H := fresh "Hok" in
      repeat match goal with Ed : ctxd s = _ |- _ => rewrite Ed in *; clear Ed end;
      pose proof (HI r x Hx) as H;
      eapply regs_upd_ok; [exact HI|]; clear HI Hx;
      let d := fresh "d" in
      remember (ctxd s) as d; clear dependent s;
      reg_cases x; reg_solve
  end.

Lemma Inv1_step s l s' : Inv1 s -> step s l = Some s' -> Inv1 s'.
Proof.
  unfold Inv1. intros HI Hs. unfold step in Hs.
  destruct l; dstep Hs; try discriminate Hs; injection Hs as Hs; subst s'; simpl;
    try exact HI; try (inv1_upd HI; fail).
  all: try (eapply regs_map_ok; [exact HI | intros x0 H0; eapply reg_ok_wake; exact H0]).
Qed.

Lemma qstep_cases s l s' :
  qstep s l = Some s' -> (l = LQuiesce /\ s' = s) \/ step s l = Some s'.
Proof.
  destruct l; simpl; auto. destruct (quiescent s); [|discriminate]. intros H; inversion H; auto.
Qed.

Lemma Inv1_qstep s l s' : Inv1 s -> qstep s l = Some s' -> Inv1 s'.
Proof.
  intros HI Hq. destruct (qstep_cases _ _ _ Hq) as [(_ & ->)|Hs]; [exact HI | eapply Inv1_step; eauto].
Qed.

(* ------------------------------------------------------------------ *)
(* sums over the thread lists                                          *)
(* ------------------------------------------------------------------ *)

Section Sum.
  Context {A : Type}.
  Fixpoint suml (m : A -> nat) (l : list A) : nat :=
    match l with [] => 0 | x :: t => m x + suml m t end.

  Lemma suml_upd m l n x y : nth_error l n = Some y -> suml m (upd l n x) + m y = suml m l + m x.
  Proof.
    revert n; induction l as [|h t IH]; intros [|n] H; simpl in *; try discriminate.
    - inversion H; subst. lia.
    - specialize (IH n H). lia.
  Qed.

  Lemma suml_map m f l : (forall x, m (f x) = m x) -> suml m (map f l) = suml m l.
  Proof. intros H. induction l as [|h t IH]; simpl; [reflexivity | rewrite H, IH; reflexivity]. Qed.

  Lemma suml_le m l n x : nth_error l n = Some x -> m x <= suml m l.
  Proof.
    revert n; induction l as [|h t IH]; intros [|n] H; simpl in *; try discriminate.
    - inversion H; subst. lia.
    - specialize (IH n H). lia.
  Qed.
End Sum.

(* ------------------------------------------------------------------ *)
(* Inv2: RWMutex, WaitGroup, stopped flag, barrier                     *)
(* ------------------------------------------------------------------ *)

(* registration pcs inside spawn's read-locked section *)
Definition holds_r (p : rpc) : bool :=
  match p with RLocked | RCheckOk | RNoSpawn | RAdded => true | _ => false end.
Definition mr (x : reg) : nat := b2n (holds_r (r_rpc x)).

(* a goroutine that exists and has not yet called wg.Done *)
Definition g_live (g : gpc) : bool := match g with GNone | GExited => false | _ => true end.

(* what a registration contributes to the WaitGroup counter: 1 between wg.Add and the go statement,
   and 1 while its goroutine is alive *)
Definition contrib (x : reg) : nat :=
  match r_rpc x with RAdded | RUnlocked => 1 | _ => b2n (g_live (r_gpc x)) end.

Definition holds_w (p : spc) : bool := match p with SLocked | SCancelled => true | _ => false end.
Definition mw (y : stopper) : nat := b2n (holds_w (s_pc y)).
Definition past_cancel (p : spc) : bool :=
  match p with SCancelled | SUnlocked | SWaited | SRet => true | _ => false end.
(* a StopAndWait whose wg.Wait has returned *)
Definition waited (y : stopper) : bool :=
  s_wait y && match s_pc y with SWaited | SRet => true | _ => false end.

Record Inv2 (s : st) : Prop := mkInv2 {
  i_readers : readers s = suml mr (regs s);
  i_writer : b2n (writer s) = suml mw (stops s);
  i_excl : writer s = true -> readers s = 0;
  i_wg : wg s = suml contrib (regs s);
  i_stopctx : stopped s = true -> ctxd s = true;
  i_nocheck : stopped s = true -> forall r x, nth_error (regs s) r = Some x -> r_rpc x <> RCheckOk;
  i_past : forall k y, nth_error (stops s) k = Some y -> past_cancel (s_pc y) = true -> stopped s = true;
  i_wait : forall k y, nth_error (stops s) k = Some y -> waited y = true -> wg s = 0
}.

Lemma Inv2_init c : Inv2 (init c).
Proof.
  unfold init. constructor; simpl; try discriminate.
  - induction (c_regs c) as [|[[k fc] o] t IH]; simpl; auto.
  - induction (c_stops c) as [|w t IH]; simpl; auto.
  - induction (c_regs c) as [|[[k fc] o] t IH]; simpl; auto.
  - intros k y Hy. rewrite nth_map in Hy. destruct (nth_error (c_stops c) k); [|discriminate].
    simpl in Hy. inversion Hy; subst y. simpl. discriminate.
  - intros k y Hy. rewrite nth_map in Hy. destruct (nth_error (c_stops c) k); [|discriminate].
    simpl in Hy. inversion Hy; subst y. unfold waited; simpl. rewrite andb_false_r. discriminate.
Qed.

(* a registration changes without touching the lock / counter accounting *)
Lemma Inv2_setr s r x x' :
  Inv2 s -> getr s r = Some x ->
  mr x' = mr x -> contrib x' = contrib x ->
  (r_rpc x' = RCheckOk -> r_rpc x = RCheckOk \/ stopped s = false) ->
  Inv2 (setr s r x').
Proof.
  intros [H1 H2 H3 H4 H5 H6 H7 H8] Hx Hm Hc Hk. unfold getr in Hx.
  constructor; simpl; auto.
  - pose proof (suml_upd mr _ _ x' _ Hx). lia.
  - pose proof (suml_upd contrib _ _ x' _ Hx). lia.
  - intros Hst i z Hz. destruct (nth_upd_inv _ _ _ _ _ Hz) as [[-> ->]|[_ Hz']].
    + intros Hc'. destruct (Hk Hc') as [Hk'|Hk']; [exact (H6 Hst _ _ Hx Hk') | congruence].
    + exact (H6 Hst _ _ Hz').
Qed.

(* trigger-call threads are irrelevant for Inv2 *)
Lemma Inv2_sett s t y : Inv2 s -> Inv2 (sett s t y).
Proof. intros [H1 H2 H3 H4 H5 H6 H7 H8]. constructor; simpl; auto. Qed.

Lemma Inv2_gate s r x o p : Inv2 s -> getr s r = Some x -> Inv2 (setr s r (r_gate x o p)).
Proof. intros HI Hx. eapply Inv2_setr; eauto. Qed.

(* a stopper moves between pcs that neither hold the write lock nor are past the cancel *)
Lemma Inv2_sets s k y y' :
  Inv2 s -> gets s k = Some y ->
  mw y' = mw y ->
  (past_cancel (s_pc y') = true -> stopped s = true) ->
  (waited y' = true -> wg s = 0) ->
  Inv2 (sets s k y').
Proof.
  intros [H1 H2 H3 H4 H5 H6 H7 H8] Hy Hm Hp Hw. unfold gets in Hy.
  constructor; simpl; auto.
  - pose proof (suml_upd mw _ _ y' _ Hy). lia.
  - intros i z Hz Hpz. destruct (nth_upd_inv _ _ _ _ _ Hz) as [[-> ->]|[_ Hz']]; [auto | eapply H7; eauto].
  - intros i z Hz Hwz. destruct (nth_upd_inv _ _ _ _ _ Hz) as [[-> ->]|[_ Hz']]; [auto | eapply H8; eauto].
Qed.

Lemma wake_mr x : mr (wake_ctx x) = mr x.
Proof. unfold wake_ctx, mr. destruct (r_gpc x); reflexivity. Qed.
Lemma wake_contrib x : contrib (wake_ctx x) = contrib x.
Proof. unfold wake_ctx, contrib. destruct (r_gpc x) eqn:E; simpl; rewrite ?E; reflexivity. Qed.
Lemma wake_rpc x : r_rpc (wake_ctx x) = r_rpc x.
Proof. unfold wake_ctx. destruct (r_gpc x); reflexivity. Qed.

Lemma suml_zero_nth {A} (m : A -> nat) l : suml m l = 0 -> forall i x, nth_error l i = Some x -> m x = 0.
Proof. intros H i x Hx. pose proof (suml_le m l i x Hx). lia. Qed.

Lemma waited_stopped s k y : Inv2 s -> nth_error (stops s) k = Some y -> waited y = true -> stopped s = true.
Proof.
  intros HI Hy Hw. eapply (i_past s HI); eauto. unfold waited in Hw.
  apply andb_true_iff in Hw. destruct Hw as [_ Hw]. destruct (s_pc y); simpl; auto; discriminate.
Qed.

Ltac use_reg_ok HI1 Hx :=
  let H := fresh "Hok" in
  pose proof (HI1 _ _ Hx) as H; destruct H as (H & _ & _); unfold reg_okb in H.

Ltac simp_reg :=
  unfold mr, contrib; simpl;
  repeat match goal with
         | E : r_rpc _ = _ |- _ => rewrite E
         | E : r_gpc _ = _ |- _ => rewrite E
         end; simpl;
  repeat match goal with
         | |- context [first_pc ?k] => destruct k
         | |- context [after_f ?k] => destruct k
         | |- context [after_trig ?k] => destruct k
         | |- context [if ?b then _ else _] => destruct b
         | |- context [match r_rpc ?x with _ => _ end] => destruct (r_rpc x)
         end; simpl; try reflexivity; try congruence; auto.

Lemma Inv2_step s l s' : Inv1 s -> Inv2 s -> step s l = Some s' -> Inv2 s'.
Proof.
  intros HI1 HI Hs. unfold step in Hs.
  destruct l; dstep Hs; try discriminate Hs; injection Hs as Hs; subst s'.
  all: try exact HI.
  all: try (match goal with |- Inv2 (sett _ _ _) => apply Inv2_sett end).
  all: try exact HI.
  all: try (match goal with |- Inv2 (setr _ _ (r_gate _ _ _)) => eapply Inv2_gate; eauto end; fail).
  all: try (match goal with |- Inv2 (setr _ _ _) =>
              eapply Inv2_setr; [exact HI | eassumption | simp_reg | simp_reg | simp_reg] end; fail).
Admitted.
