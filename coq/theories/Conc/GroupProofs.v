(* C17 — proofs about the LTS model of xsync.Group (Conc/Group.v).

   Three invariants of every state reachable by [qstep] from [init c], for every scenario [c]
   (any number of registrations, trigger calls, Stop/StopAndWait callers, any interleaving):
     Inv1  per-registration consistency (program counters, timer bits, ghost counters),
     Inv2  RWMutex / WaitGroup / stopped accounting and the StopAndWait barrier,
     Inv3  no trigger token is lost.
   Stdlib only, no axioms. *)
From Juniper Require Import Common.Base Conc.GoLTS Conc.Group.
From Coq Require Import Arith PeanoNat.
Local Open Scope nat_scope.

(* ------------------------------------------------------------------ *)
(* list helpers                                                        *)
(* ------------------------------------------------------------------ *)

Lemma nth_map {A B} (f : A -> B) l n : nth_error (map f l) n = option_map f (nth_error l n).
Proof. revert n; induction l as [|h t IH]; intros [|n]; simpl; auto. Qed.

Lemma nth_lt {A} (l : list A) n x : nth_error l n = Some x -> n < length l.
Proof. intros H. apply nth_error_Some. congruence. Qed.

Lemma nth_upd {A} (l : list A) n m x :
  nth_error (upd l n x) m = if Nat.eq_dec n m then (if lt_dec n (length l) then Some x else None)
                            else nth_error l m.
Proof.
  destruct (Nat.eq_dec n m) as [->|Hne].
  - destruct (lt_dec m (length l)) as [Hlt|Hge].
    + apply nth_error_upd_same; exact Hlt.
    + apply nth_error_None. rewrite upd_length. lia.
  - apply nth_error_upd_other; exact Hne.
Qed.

Lemma nth_upd_inv {A} (l : list A) n m x y :
  nth_error (upd l n x) m = Some y -> (n = m /\ y = x) \/ (n <> m /\ nth_error l m = Some y).
Proof.
  rewrite nth_upd. destruct (Nat.eq_dec n m) as [->|Hne]; [|auto].
  destruct (lt_dec m (length l)); [|discriminate]. intros H; inversion H; auto.
Qed.

Lemma nth_upd_same {A} (l : list A) n x y : nth_error l n = Some y -> nth_error (upd l n x) n = Some x.
Proof. intros H. apply nth_error_upd_same. eapply nth_lt; eauto. Qed.

(* step inversion: split every match / if in the hypothesis *)
Ltac dstep Hs :=
  repeat match type of Hs with
         | match ?e with _ => _ end = Some _ =>
             let E := fresh "E" in destruct e eqn:E; try discriminate Hs
         end.

Definition b2n (b : bool) : nat := if b then 1 else 0.

(* ------------------------------------------------------------------ *)
(* Inv1: per-registration consistency                                  *)
(* ------------------------------------------------------------------ *)

(* registration pcs before the go statement (or on the path that never spawns) *)
Definition rpc_pre (p : rpc) : bool :=
  match p with RSpawned | RRet => false | _ => true end.

(* which goroutine pcs exist for which kind of registration *)
Definition pc_kind_ok (k : kind) (g : gpc) : bool :=
  match g with
  | GNone | GRunF | GInF | GExiting | GExited => true
  | GTop | GSelect | GParked => match k with KDo => false | _ => true end
  | GStart | GReset => has_timer k
  | GStopT | GDrain => match k with KPoT => true | _ => false end
  end.

(* the timer bits (pending, value in channel) at each pc:
   Idle = (false,false), Armed = (true,false), Fired = (false,true); (true,true) would be a stale value *)
Definition timer_ok (k : kind) (g : gpc) (a c : bool) : bool :=
  if has_timer k then
    match g with
    | GNone | GStart | GReset => negb a && negb c
    | GTop | GSelect | GStopT | GRunF | GInF => xorb a c
    | GParked => a && negb c
    | GDrain => negb a && c
    | GExiting => negb (a && c)
    | GExited => negb a
    end
  else negb a && negb c.

Definition reg_okb (d : bool) (k : kind) (rp : rpc) (g : gpc) (tok a c : bool) : bool :=
  pc_kind_ok k g && timer_ok k g a c
  && (if rpc_pre rp then gpc_eqb g GNone else true)
  && match rp with RSpawned => negb (gpc_eqb g GNone) | _ => true end
  && match rp with
     | RNoSpawn | RSkipped => d
     | RRet => match g with GNone => d | _ => true end
     | _ => true end
  && match g with GParked => negb d && negb (has_trig k && tok) | _ => true end
  && match g with GExiting | GExited => match k with KDo => true | _ => d end | _ => true end.

Definition reg_ok (d : bool) (x : reg) : Prop :=
  reg_okb d (r_kind x) (r_rpc x) (r_gpc x) (r_tok x) (r_tact x) (r_tchan x) = true /\
  r_infl x = match r_gpc x with GInF => 1 | _ => 0 end /\
  r_spawns x = match r_gpc x with GNone => 0 | _ => 1 end.

Definition Inv1 (s : st) : Prop := forall r x, nth_error (regs s) r = Some x -> reg_ok (ctxd s) x.

Lemma regs_upd_ok (P : reg -> Prop) l r x' :
  (forall i x, nth_error l i = Some x -> P x) -> P x' ->
  forall i x, nth_error (upd l r x') i = Some x -> P x.
Proof.
  intros Hall Hx i x Hi. destruct (nth_upd_inv _ _ _ _ _ Hi) as [[_ ->]|[_ Hi']]; [exact Hx | eapply Hall; eauto].
Qed.

Lemma regs_map_ok (P Q : reg -> Prop) l f :
  (forall i x, nth_error l i = Some x -> P x) -> (forall x, P x -> Q (f x)) ->
  forall i x, nth_error (map f l) i = Some x -> Q x.
Proof.
  intros Hall Hf i x Hi. rewrite nth_map in Hi. destruct (nth_error l i) as [y|] eqn:Hy; [|discriminate].
  simpl in Hi. inversion Hi; subst x. apply Hf. eapply Hall; eauto.
Qed.

(* brute force over the finite fields of one registration *)
Ltac reg_cases x :=
  destruct x as [k fc o p rp gp tok ta tc runs infl sp]; unfold reg_ok in *; simpl in *; subst;
  repeat match goal with H : _ /\ _ |- _ => destruct H end.

Ltac reg_solve :=
  repeat split; simpl in *; subst; try lia; try congruence; try reflexivity;
  repeat match goal with
         | H : reg_okb _ ?k _ _ _ _ _ = true |- _ =>
             repeat match goal with b : bool |- _ => clear b end;
             revert H;
             repeat match goal with b : bool |- _ => destruct b end;
             repeat match goal with kk : kind |- _ => destruct kk end;
             repeat match goal with pp : rpc |- _ => destruct pp end;
             repeat match goal with pp : gpc |- _ => destruct pp end;
             simpl; intros; try discriminate; try reflexivity; try assumption
         end.

Lemma reg_ok_wake d x : reg_ok d x -> reg_ok true (wake_ctx x).
Proof.
  intros H. unfold wake_ctx. reg_cases x.
  destruct gp; simpl; reg_solve.
Qed.

Lemma Inv1_init c : Inv1 (init c).
Proof.
  intros r x Hx. unfold init in Hx; simpl in Hx. rewrite nth_map in Hx.
  destruct (nth_error (c_regs c) r) as [[[k fc] o]|]; [|discriminate]. simpl in Hx.
  inversion Hx; subst x. unfold reg_ok; simpl. destruct k; auto.
Qed.

(* one registration changes, the context bit stays *)
Ltac inv1_upd HI :=
  match goal with
  | Hx : getr ?s ?r = Some ?x |- _ =>
      let H := fresh "Hok" in
      repeat match goal with Ed : ctxd s = _ |- _ => rewrite Ed in *; clear Ed end;
      pose proof (HI r x Hx) as H;
      eapply regs_upd_ok; [exact HI|]; clear HI Hx;
      let d := fresh "d" in
      remember (ctxd s) as d; clear dependent s;
      reg_cases x; reg_solve
  end.

Lemma Inv1_step s l s' : Inv1 s -> step s l = Some s' -> Inv1 s'.
Proof.
  unfold Inv1. intros HI Hs. unfold step in Hs.
  destruct l; dstep Hs; try discriminate Hs; injection Hs as Hs; subst s'; simpl;
    try exact HI; try (inv1_upd HI; fail).
  all: try (eapply regs_map_ok; [exact HI | intros x0 H0; eapply reg_ok_wake; exact H0]).
Qed.

Lemma qstep_cases s l s' :
  qstep s l = Some s' -> (l = LQuiesce /\ s' = s) \/ step s l = Some s'.
Proof.
  destruct l; simpl; auto. destruct (quiescent s); [|discriminate]. intros H; inversion H; auto.
Qed.

Lemma Inv1_qstep s l s' : Inv1 s -> qstep s l = Some s' -> Inv1 s'.
Proof.
  intros HI Hq. destruct (qstep_cases _ _ _ Hq) as [(_ & ->)|Hs]; [exact HI | eapply Inv1_step; eauto].
Qed.

(* ------------------------------------------------------------------ *)
(* sums over the thread lists                                          *)
(* ------------------------------------------------------------------ *)

Section Sum.
  Context {A : Type}.
  Fixpoint suml (m : A -> nat) (l : list A) : nat :=
    match l with [] => 0 | x :: t => m x + suml m t end.

  Lemma suml_upd m l n x y : nth_error l n = Some y -> suml m (upd l n x) + m y = suml m l + m x.
  Proof.
    revert n; induction l as [|h t IH]; intros [|n] H; simpl in *; try discriminate.
    - inversion H; subst. lia.
    - specialize (IH n H). lia.
  Qed.

  Lemma suml_map m f l : (forall x, m (f x) = m x) -> suml m (map f l) = suml m l.
  Proof. intros H. induction l as [|h t IH]; simpl; [reflexivity | rewrite H, IH; reflexivity]. Qed.

  Lemma suml_le m l n x : nth_error l n = Some x -> m x <= suml m l.
  Proof.
    revert n; induction l as [|h t IH]; intros [|n] H; simpl in *; try discriminate.
    - inversion H; subst. lia.
    - specialize (IH n H). lia.
  Qed.
End Sum.

(* ------------------------------------------------------------------ *)
(* Inv2: RWMutex, WaitGroup, stopped flag, barrier                     *)
(* ------------------------------------------------------------------ *)

(* registration pcs inside spawn's read-locked section *)
Definition holds_r (p : rpc) : bool :=
  match p with RLocked | RCheckOk | RNoSpawn | RAdded => true | _ => false end.
Definition mr (x : reg) : nat := b2n (holds_r (r_rpc x)).

(* a goroutine that exists and has not yet called wg.Done *)
Definition g_live (g : gpc) : bool := match g with GNone | GExited => false | _ => true end.

(* what a registration contributes to the WaitGroup counter: 1 between wg.Add and the go statement,
   and 1 while its goroutine is alive *)
Definition contrib (x : reg) : nat :=
  match r_rpc x with RAdded | RUnlocked => 1 | _ => b2n (g_live (r_gpc x)) end.

Definition holds_w (p : spc) : bool := match p with SLocked | SCancelled => true | _ => false end.
Definition mw (y : stopper) : nat := b2n (holds_w (s_pc y)).
Definition past_cancel (p : spc) : bool :=
  match p with SCancelled | SUnlocked | SWaited | SRet => true | _ => false end.
(* a StopAndWait whose wg.Wait has returned *)
Definition waited (y : stopper) : bool :=
  s_wait y && match s_pc y with SWaited | SRet => true | _ => false end.

Record Inv2 (s : st) : Prop := mkInv2 {
  i_readers : readers s = suml mr (regs s);
  i_writer : b2n (writer s) = suml mw (stops s);
  i_excl : writer s = true -> readers s = 0;
  i_wg : wg s = suml contrib (regs s);
  i_stopctx : stopped s = true -> ctxd s = true;
  i_nocheck : stopped s = true -> forall r x, nth_error (regs s) r = Some x -> r_rpc x <> RCheckOk;
  i_past : forall k y, nth_error (stops s) k = Some y -> past_cancel (s_pc y) = true -> stopped s = true;
  i_wait : forall k y, nth_error (stops s) k = Some y -> waited y = true -> wg s = 0
}.

Lemma Inv2_init c : Inv2 (init c).
Proof.
  unfold init. constructor; simpl; try discriminate.
  - induction (c_regs c) as [|[[k fc] o] t IH]; simpl; auto.
  - induction (c_stops c) as [|w t IH]; simpl; auto.
  - induction (c_regs c) as [|[[k fc] o] t IH]; simpl; auto.
  - intros k y Hy. rewrite nth_map in Hy. destruct (nth_error (c_stops c) k); [|discriminate].
    simpl in Hy. inversion Hy; subst y. simpl. discriminate.
  - intros k y Hy. rewrite nth_map in Hy. destruct (nth_error (c_stops c) k); [|discriminate].
    simpl in Hy. inversion Hy; subst y. unfold waited; simpl. rewrite andb_false_r. discriminate.
Qed.

(* a registration changes without touching the lock / counter accounting *)
Lemma Inv2_setr s r x x' :
  Inv2 s -> getr s r = Some x ->
  mr x' = mr x -> contrib x' = contrib x ->
  (r_rpc x' = RCheckOk -> r_rpc x = RCheckOk \/ stopped s = false) ->
  Inv2 (setr s r x').
Proof.
  intros [H1 H2 H3 H4 H5 H6 H7 H8] Hx Hm Hc Hk. unfold getr in Hx.
  constructor; simpl; auto.
  - pose proof (suml_upd mr _ _ x' _ Hx). lia.
  - pose proof (suml_upd contrib _ _ x' _ Hx). lia.
  - intros Hst i z Hz. destruct (nth_upd_inv _ _ _ _ _ Hz) as [[-> ->]|[_ Hz']].
    + intros Hc'. destruct (Hk Hc') as [Hk'|Hk']; [exact (H6 Hst _ _ Hx Hk') | congruence].
    + exact (H6 Hst _ _ Hz').
Qed.

(* trigger-call threads are irrelevant for Inv2 *)
Lemma Inv2_sett s t y : Inv2 s -> Inv2 (sett s t y).
Proof. intros [H1 H2 H3 H4 H5 H6 H7 H8]. constructor; simpl; auto. Qed.

Lemma Inv2_gate s r x o p : Inv2 s -> getr s r = Some x -> Inv2 (setr s r (r_gate x o p)).
Proof. intros HI Hx. eapply Inv2_setr; eauto. Qed.

(* a stopper moves between pcs that neither hold the write lock nor are past the cancel *)
Lemma Inv2_sets s k y y' :
  Inv2 s -> gets s k = Some y ->
  mw y' = mw y ->
  (past_cancel (s_pc y') = true -> stopped s = true) ->
  (waited y' = true -> wg s = 0) ->
  Inv2 (sets s k y').
Proof.
  intros [H1 H2 H3 H4 H5 H6 H7 H8] Hy Hm Hp Hw. unfold gets in Hy.
  constructor; simpl; auto.
  - pose proof (suml_upd mw _ _ y' _ Hy). lia.
  - intros i z Hz Hpz. destruct (nth_upd_inv _ _ _ _ _ Hz) as [[-> ->]|[_ Hz']]; [auto | eapply H7; eauto].
  - intros i z Hz Hwz. destruct (nth_upd_inv _ _ _ _ _ Hz) as [[-> ->]|[_ Hz']]; [auto | eapply H8; eauto].
Qed.

Lemma wake_mr x : mr (wake_ctx x) = mr x.
Proof. unfold wake_ctx, mr. destruct (r_gpc x); reflexivity. Qed.
Lemma wake_contrib x : contrib (wake_ctx x) = contrib x.
Proof. unfold wake_ctx, contrib. destruct (r_gpc x) eqn:E; simpl; rewrite ?E; reflexivity. Qed.
Lemma wake_rpc x : r_rpc (wake_ctx x) = r_rpc x.
Proof. unfold wake_ctx. destruct (r_gpc x); reflexivity. Qed.

Lemma suml_zero_nth {A} (m : A -> nat) l : suml m l = 0 -> forall i x, nth_error l i = Some x -> m x = 0.
Proof. intros H i x Hx. pose proof (suml_le m l i x Hx). lia. Qed.

Lemma waited_stopped s k y : Inv2 s -> nth_error (stops s) k = Some y -> waited y = true -> stopped s = true.
Proof.
  intros HI Hy Hw. eapply (i_past s HI); eauto. unfold waited in Hw.
  apply andb_true_iff in Hw. destruct Hw as [_ Hw]. destruct (s_pc y); simpl; auto; discriminate.
Qed.

Ltac use_reg_ok HI1 Hx :=
  let H := fresh "Hok" in
  pose proof (HI1 _ _ Hx) as H; destruct H as (H & _ & _); unfold reg_okb in H.

Ltac simp_reg :=
  unfold mr, contrib; simpl;
  repeat match goal with
         | E : r_rpc _ = _ |- _ => rewrite E
         | E : r_gpc _ = _ |- _ => rewrite E
         end; simpl;
  repeat match goal with
         | |- context [first_pc ?k] => destruct k; simpl
         | |- context [after_f ?k] => destruct k; simpl
         | |- context [after_trig ?k] => destruct k; simpl
         | |- context [if ?b then _ else _] => destruct b; simpl
         | |- context [match r_rpc ?x with _ => _ end] => destruct (r_rpc x); simpl
         end; simpl; try reflexivity; try congruence; auto.

Ltac slia := unfold mr, mw, contrib in *; lia.

Lemma Inv2_rlock s r x :
  Inv2 s -> getr s r = Some x -> r_rpc x = RCalled -> writer s = false ->
  Inv2 (with_lock (setr s r (r_setr x RLocked)) (S (readers s)) false).
Proof.
  intros [H1 H2 H3 H4 H5 H6 H7 H8] Hx Hp Hw. unfold getr in Hx.
  constructor; simpl; auto; try discriminate.
  - pose proof (suml_upd mr _ _ (r_setr x RLocked) _ Hx) as Hu. unfold mr in *. simpl in Hu.
    rewrite Hp in Hu. simpl in Hu. slia.
  - rewrite <- H2, Hw. reflexivity.
  - pose proof (suml_upd contrib _ _ (r_setr x RLocked) _ Hx) as Hu. unfold contrib in *. simpl in Hu.
    rewrite Hp in Hu. slia.
  - intros Hst i z Hz. destruct (nth_upd_inv _ _ _ _ _ Hz) as [[-> ->]|[_ Hz']]; [simpl; discriminate | eauto].
Qed.

Lemma Inv2_check s r x :
  Inv2 s -> getr s r = Some x -> r_rpc x = RLocked ->
  Inv2 (setr s r (r_setr x (if ctxd s then RNoSpawn else RCheckOk))).
Proof.
  intros HI Hx Hp. eapply Inv2_setr; [exact HI | exact Hx | | |].
  - unfold mr; simpl. rewrite Hp. destruct (ctxd s); reflexivity.
  - unfold contrib; simpl. rewrite Hp. destruct (ctxd s); reflexivity.
  - simpl. destruct (ctxd s) eqn:Ed; [discriminate|]. intros _. right.
    destruct (stopped s) eqn:Es; [|reflexivity]. rewrite (i_stopctx s HI Es) in Ed. discriminate.
Qed.

Lemma Inv2_add s r x :
  Inv1 s -> Inv2 s -> getr s r = Some x -> r_rpc x = RCheckOk ->
  Inv2 (with_wg (setr s r (r_setr x RAdded)) (S (wg s))).
Proof.
  intros HI1 HI Hx Hp. pose proof HI as [H1 H2 H3 H4 H5 H6 H7 H8]. unfold getr in Hx.
  assert (Hns : stopped s = false).
  { destruct (stopped s) eqn:Es; [|reflexivity]. exfalso. exact (H6 eq_refl _ _ Hx Hp). }
  assert (Hg : r_gpc x = GNone).
  { destruct (HI1 _ _ Hx) as (Hok & _ & _). unfold reg_okb in Hok. rewrite Hp in Hok. simpl in Hok.
    destruct (r_gpc x); try reflexivity; rewrite ?andb_false_r in Hok; simpl in Hok; discriminate. }
  constructor; simpl; auto.
  - pose proof (suml_upd mr _ _ (r_setr x RAdded) _ Hx) as Hu. unfold mr in *. simpl in Hu.
    rewrite Hp in Hu. simpl in Hu. slia.
  - pose proof (suml_upd contrib _ _ (r_setr x RAdded) _ Hx) as Hu. unfold contrib in *. simpl in Hu.
    rewrite Hp, Hg in Hu. simpl in Hu. slia.
  - intros Hst. congruence.
  - intros k y Hy Hw. pose proof (waited_stopped s k y HI Hy Hw). congruence.
Qed.

Lemma Inv2_runlock s r x p' :
  Inv2 s -> getr s r = Some x -> holds_r (r_rpc x) = true -> holds_r p' = false ->
  contrib (r_setr x p') = contrib x -> p' <> RCheckOk ->
  Inv2 (with_lock (setr s r (r_setr x p')) (pred (readers s)) (writer s)).
Proof.
  intros [H1 H2 H3 H4 H5 H6 H7 H8] Hx Hp Hp' Hc Hk. unfold getr in Hx.
  pose proof (suml_upd mr _ _ (r_setr x p') _ Hx) as Hu. unfold mr in *. simpl in Hu.
  rewrite Hp, Hp' in Hu. simpl in Hu.
  constructor; simpl; auto.
  - slia.
  - intros Hw. specialize (H3 Hw). slia.
  - pose proof (suml_upd contrib _ _ (r_setr x p') _ Hx). slia.
  - intros Hst i z Hz. destruct (nth_upd_inv _ _ _ _ _ Hz) as [[-> ->]|[_ Hz']]; [simpl; exact Hk | eauto].
Qed.

Lemma Inv2_done s r x n c :
  Inv1 s -> Inv2 s -> getr s r = Some x -> r_gpc x = GExiting -> wg s = S n ->
  Inv2 (with_wg (setr s r (r_settimer (r_setg x GExited) false c)) n).
Proof.
  intros HI1 HI Hx Hg Hwg. pose proof HI as [H1 H2 H3 H4 H5 H6 H7 H8]. unfold getr in Hx.
  assert (Hc : contrib x = 1 /\ contrib (r_settimer (r_setg x GExited) false c) = 0).
  { destruct (HI1 _ _ Hx) as (Hok & _ & _). unfold reg_okb in Hok. rewrite Hg in Hok.
    unfold contrib; simpl. rewrite Hg.
    destruct (r_rpc x); simpl in Hok; rewrite ?andb_false_r in Hok; simpl in Hok; try discriminate; auto. }
  destruct Hc as [Hc1 Hc2].
  constructor; simpl; auto.
  - pose proof (suml_upd mr _ _ (r_settimer (r_setg x GExited) false c) _ Hx) as Hu. unfold mr in *. simpl in Hu. slia.
  - pose proof (suml_upd contrib _ _ (r_settimer (r_setg x GExited) false c) _ Hx). slia.
  - intros Hst i z Hz. destruct (nth_upd_inv _ _ _ _ _ Hz) as [[-> ->]|[_ Hz']]; [simpl; eauto | eauto].
  - intros k y Hy Hw. specialize (H8 k y Hy Hw). slia.
Qed.

Lemma mw_pos_writer s k y : Inv2 s -> gets s k = Some y -> holds_w (s_pc y) = true -> writer s = true /\ suml mw (stops s) = 1.
Proof.
  intros HI Hy Hh. pose proof (i_writer s HI) as H2. unfold gets in Hy.
  pose proof (suml_le mw _ _ _ Hy) as Hle. unfold mw in Hle at 1. rewrite Hh in Hle. simpl in Hle.
  destruct (writer s); simpl in H2; [split; [reflexivity | lia] | lia].
Qed.

Lemma Inv2_wlock s k y :
  Inv2 s -> gets s k = Some y -> s_pc y = SCalled -> readers s = 0 -> writer s = false ->
  Inv2 (with_lock (sets s k (mkS (s_wait y) SLocked)) 0 true).
Proof.
  intros [H1 H2 H3 H4 H5 H6 H7 H8] Hy Hp Hr Hw. unfold gets in Hy.
  constructor; simpl; auto.
  - slia.
  - pose proof (suml_upd mw _ _ (mkS (s_wait y) SLocked) _ Hy) as Hu. unfold mw in *. simpl in Hu.
    rewrite Hp in Hu. simpl in Hu. rewrite Hw in H2. simpl in H2. slia.
  - intros i z Hz Hpz. destruct (nth_upd_inv _ _ _ _ _ Hz) as [[-> ->]|[_ Hz']]; [discriminate | eauto].
  - intros i z Hz Hwz. destruct (nth_upd_inv _ _ _ _ _ Hz) as [[-> ->]|[_ Hz']]; [|eauto].
    unfold waited in Hwz; simpl in Hwz. rewrite andb_false_r in Hwz. discriminate.
Qed.

Lemma Inv2_stopcancel s k y :
  Inv2 s -> gets s k = Some y -> s_pc y = SLocked ->
  Inv2 (with_ctx (with_regs (sets s k (mkS (s_wait y) SCancelled)) (map wake_ctx (regs s))) true (parent s) true).
Proof.
  intros HI Hy Hp. destruct (mw_pos_writer s k y HI Hy) as [Hw _]; [rewrite Hp; reflexivity|].
  destruct HI as [H1 H2 H3 H4 H5 H6 H7 H8]. unfold gets in Hy.
  constructor; simpl; auto.
  - rewrite suml_map by apply wake_mr. exact H1.
  - pose proof (suml_upd mw _ _ (mkS (s_wait y) SCancelled) _ Hy) as Hu. unfold mw in *. simpl in Hu.
    rewrite Hp in Hu. simpl in Hu. slia.
  - rewrite suml_map by apply wake_contrib. exact H4.
  - intros _ i z Hz. rewrite nth_map in Hz. destruct (nth_error (regs s) i) as [x|] eqn:Hx; [|discriminate].
    simpl in Hz. inversion Hz; subst z. rewrite wake_rpc.
    specialize (H3 Hw). rewrite H3 in H1. symmetry in H1.
    pose proof (suml_zero_nth mr _ H1 _ _ Hx) as Hm. unfold mr in Hm. intros Hc. rewrite Hc in Hm. discriminate.
  - intros i z Hz Hwz. destruct (nth_upd_inv _ _ _ _ _ Hz) as [[-> ->]|[_ Hz']]; [|eauto].
    unfold waited in Hwz; simpl in Hwz. rewrite andb_false_r in Hwz. discriminate.
Qed.

Lemma Inv2_wunlock s k y :
  Inv2 s -> gets s k = Some y -> s_pc y = SCancelled ->
  Inv2 (with_lock (sets s k (mkS (s_wait y) SUnlocked)) (readers s) false).
Proof.
  intros HI Hy Hp. destruct (mw_pos_writer s k y HI Hy) as [Hw Hone]; [rewrite Hp; reflexivity|].
  pose proof (i_past s HI k y Hy) as Hst. rewrite Hp in Hst. specialize (Hst eq_refl).
  destruct HI as [H1 H2 H3 H4 H5 H6 H7 H8]. unfold gets in Hy.
  constructor; simpl; auto; try discriminate.
  - pose proof (suml_upd mw _ _ (mkS (s_wait y) SUnlocked) _ Hy) as Hu. unfold mw in *. simpl in Hu.
    rewrite Hp in Hu. simpl in Hu. slia.
  - intros i z Hz Hwz. destruct (nth_upd_inv _ _ _ _ _ Hz) as [[-> ->]|[_ Hz']]; [|eauto].
    unfold waited in Hwz; simpl in Hwz. rewrite andb_false_r in Hwz. discriminate.
Qed.

Lemma Inv2_parenteff s p :
  Inv2 s -> Inv2 (with_ctx (with_regs s (map wake_ctx (regs s))) true p (stopped s)).
Proof.
  intros [H1 H2 H3 H4 H5 H6 H7 H8]. constructor; simpl; auto.
  - rewrite suml_map by apply wake_mr. exact H1.
  - rewrite suml_map by apply wake_contrib. exact H4.
  - intros Hst i z Hz. rewrite nth_map in Hz. destruct (nth_error (regs s) i) as [x|] eqn:Hx; [|discriminate].
    simpl in Hz. inversion Hz; subst z. rewrite wake_rpc. eauto.
Qed.

Lemma Inv2_step s l s' : Inv1 s -> Inv2 s -> step s l = Some s' -> Inv2 s'.
Proof.
  intros HI1 HI Hs. unfold step in Hs.
  destruct l; dstep Hs; try discriminate Hs; injection Hs as Hs; subst s'.
  all: try exact HI.
  all: try (match goal with |- Inv2 (sett _ _ _) => apply Inv2_sett end).
  all: try exact HI.
  all: try (match goal with |- Inv2 (setr _ _ (r_gate _ _ _)) => eapply Inv2_gate; eauto end; fail).
  all: try (match goal with |- Inv2 (setr _ _ _) =>
              eapply Inv2_setr; [exact HI | eassumption | simp_reg | simp_reg | simp_reg] end; fail).
  - (* LCallStop *)
    eapply Inv2_sets; [exact HI | eassumption | unfold mw; simpl | simpl; discriminate
                      | unfold waited; simpl; rewrite andb_false_r; discriminate].
    match goal with E : s_pc _ = _ |- _ => rewrite E end. reflexivity.
  - (* LRetStop, Stop *)
    match goal with Hy : gets s k = Some ?y, Ep : s_pc ?y = SUnlocked |- _ =>
      eapply Inv2_sets; [exact HI | exact Hy | unfold mw; simpl; rewrite Ep; reflexivity
                        | intros _; eapply (i_past s HI k y Hy); rewrite Ep; reflexivity
                        | unfold waited; simpl; discriminate] end.
  - (* LRetStop, StopAndWait *)
    match goal with Hy : gets s k = Some ?y, Ep : s_pc ?y = SWaited, Ew : s_wait ?y = true |- _ =>
      eapply Inv2_sets; [exact HI | exact Hy | unfold mw; simpl; rewrite Ep; reflexivity
                        | intros _; eapply (i_past s HI k y Hy); rewrite Ep; reflexivity
                        | intros _; eapply (i_wait s HI k y Hy); unfold waited; rewrite Ew, Ep; reflexivity] end.
  - (* LCancelParent *)
    destruct HI as [H1 H2 H3 H4 H5 H6 H7 H8]. constructor; simpl; auto.
  - (* TRLock *) eapply Inv2_rlock; eauto.
  - (* TCheck *) eapply Inv2_check; eauto.
  - (* TAdd *) eapply Inv2_add; eauto.
  - (* TRUnlock, not spawning *)
    match goal with Ep : r_rpc _ = RNoSpawn |- _ =>
      eapply Inv2_runlock; [exact HI | eassumption | rewrite Ep; reflexivity | reflexivity
                           | unfold contrib; simpl; rewrite Ep; reflexivity | discriminate] end.
  - (* TRUnlock, spawning *)
    match goal with Ep : r_rpc _ = RAdded |- _ =>
      eapply Inv2_runlock; [exact HI | eassumption | rewrite Ep; reflexivity | reflexivity
                           | unfold contrib; simpl; rewrite Ep; reflexivity | discriminate] end.
  - (* TDone *) eapply Inv2_done; eauto.
  - (* TWLock *) eapply Inv2_wlock; eauto.
  - (* TStopCancel *) eapply Inv2_stopcancel; eauto.
  - (* TWUnlock *) eapply Inv2_wunlock; eauto.
  - (* TWait *)
    match goal with Hy : gets s k = Some ?y, Ep : s_pc ?y = SUnlocked |- _ =>
      eapply Inv2_sets; [exact HI | exact Hy | unfold mw; simpl; rewrite Ep; reflexivity
                        | intros _; eapply (i_past s HI k y Hy); rewrite Ep; reflexivity
                        | intros _; assumption] end.
  - (* TParentEff *) apply Inv2_parenteff; exact HI.
Qed.


Lemma Inv2_qstep s l s' : Inv1 s -> Inv2 s -> qstep s l = Some s' -> Inv2 s'.
Proof.
  intros HI1 HI Hq. destruct (qstep_cases _ _ _ Hq) as [(_ & ->)|Hs]; [exact HI | eapply Inv2_step; eauto].
Qed.

(* ------------------------------------------------------------------ *)
(* Inv3: no trigger token is lost                                      *)
(* ------------------------------------------------------------------ *)

(* the goroutine has taken its decision to run f: its next visible event is f-enter *)
Definition pre_run (g : gpc) : bool :=
  match g with GStopT | GDrain | GReset | GRunF => true | _ => false end.

(* what is owed to a trigger call that saw [n] runs at its Call event: the group is cancelled, or
   the token is in the one-slot channel, or the goroutine is on its way into f, or a run of f has
   begun after the call *)
Definition kept (d : bool) (x : reg) (n : nat) : Prop :=
  d = true \/ r_tok x = true \/ pre_run (r_gpc x) = true \/ n < r_runs x.

Definition sent (p : tpc) : bool := match p with TSent | TRet => true | _ => false end.

Definition trig_ok (s : st) (y : trig) : Prop :=
  t_pc y <> TIdle ->
  exists x, nth_error (regs s) (t_reg y) = Some x /\ has_trig (r_kind x) = true /\ r_rpc x = RRet /\
            t_runs0 y <= r_runs x /\ (sent (t_pc y) = true -> kept (ctxd s) x (t_runs0 y)).

Definition Inv3 (s : st) : Prop := forall t y, nth_error (trigs s) t = Some y -> trig_ok s y.

Lemma Inv3_init c : Inv3 (init c).
Proof.
  intros t y Hy. unfold init in Hy; simpl in Hy. rewrite nth_map in Hy.
  destruct (nth_error (c_trigs c) t); [|discriminate]. simpl in Hy. inversion Hy; subst y.
  intros H. simpl in H. congruence.
Qed.

(* how one registration may change in one step, as far as trigger calls are concerned *)
Definition rtr (d d' : bool) (x x' : reg) : Prop :=
  r_kind x' = r_kind x /\ (r_rpc x = RRet -> r_rpc x' = RRet) /\ r_runs x <= r_runs x' /\
  (forall n, n <= r_runs x -> kept d x n -> kept d' x' n).

Lemma rtr_refl d d' x : (d = true -> d' = true) -> rtr d d' x x.
Proof. intros Hd. unfold rtr, kept. repeat split; auto. intros n _ [H|H]; auto. Qed.

Lemma Inv3_regs s s' :
  trigs s' = trigs s ->
  (forall i x, nth_error (regs s) i = Some x -> exists x', nth_error (regs s') i = Some x' /\ rtr (ctxd s) (ctxd s') x x') ->
  Inv3 s -> Inv3 s'.
Proof.
  intros Ht Hr HI t y Hy. rewrite Ht in Hy. intros Hpc.
  destruct (HI t y Hy Hpc) as (x & Hx & Hk & Hp & Hle & Hs).
  destruct (Hr _ _ Hx) as (x' & Hx' & Hk' & Hp' & Hle' & Hkept).
  exists x'. repeat split; auto; try congruence; try lia.
  all: intros Hsent; apply Hkept; auto.
Qed.

Lemma rel_upd (R : reg -> reg -> Prop) l r x x' :
  nth_error l r = Some x -> R x x' -> (forall z, R z z) ->
  forall i z, nth_error l i = Some z -> exists z', nth_error (upd l r x') i = Some z' /\ R z z'.
Proof.
  intros Hx HR Hrefl i z Hz. destruct (Nat.eq_dec r i) as [->|Hne].
  - exists x'. split; [eapply nth_upd_same; eauto | congruence].
  - exists z. rewrite nth_error_upd_other by exact Hne. auto.
Qed.

Lemma rel_map (R : reg -> reg -> Prop) l f :
  (forall z, R z (f z)) ->
  forall i z, nth_error l i = Some z -> exists z', nth_error (map f l) i = Some z' /\ R z z'.
Proof. intros HR i z Hz. exists (f z). rewrite nth_map, Hz. auto. Qed.

(* one registration changes; context bit and trigger-call threads stay *)
Lemma Inv3_setr s r x x' :
  Inv3 s -> getr s r = Some x -> rtr (ctxd s) (ctxd s) x x' -> Inv3 (setr s r x').
Proof.
  intros HI Hx HR. apply (Inv3_regs s (setr s r x')); [reflexivity | | exact HI]. simpl.
  eapply rel_upd; [exact Hx | exact HR | intros z; apply rtr_refl; auto].
Qed.

Lemma Inv3_wake s s' :
  trigs s' = trigs s -> regs s' = map wake_ctx (regs s) -> ctxd s' = true -> Inv3 s -> Inv3 s'.
Proof.
  intros Ht Hr Hd HI. apply (Inv3_regs s s'); [exact Ht | | exact HI]. rewrite Hr, Hd.
  apply rel_map. intros z. unfold rtr, kept, wake_ctx. destruct (r_gpc z); simpl; repeat split; auto.
Qed.

Lemma Inv3_same s s' :
  trigs s' = trigs s -> regs s' = regs s -> ctxd s' = ctxd s -> Inv3 s -> Inv3 s'.
Proof.
  intros Ht Hr Hd HI. apply (Inv3_regs s s'); [exact Ht | | exact HI]. rewrite Hr, Hd.
  intros i x Hx. exists x. split; [exact Hx | apply rtr_refl; auto].
Qed.

Ltac rtr_solve :=
  unfold rtr, kept; simpl;
  repeat match goal with
         | E : r_gpc _ = _ |- _ => rewrite E
         | E : r_rpc _ = _ |- _ => rewrite E
         end; simpl;
  repeat split; auto; try lia; try congruence;
  let n := fresh "n" in let Hn := fresh "Hn" in let Hk := fresh "Hk" in
  intros n Hn Hk; decompose [or] Hk; clear Hk; simpl in *; try discriminate; auto;
  try (right; right; right; lia);
  repeat match goal with
         | |- context [after_trig ?k] => destruct k; simpl
         | |- context [after_f ?k] => destruct k; simpl
         | |- context [first_pc ?k] => destruct k; simpl
         | |- context [if ?b then _ else _] => destruct b; simpl
         end; auto.

Lemma Inv3_with_lock s a b : Inv3 s -> Inv3 (with_lock s a b).
Proof. intros H; exact H. Qed.
Lemma Inv3_with_wg s n : Inv3 s -> Inv3 (with_wg s n).
Proof. intros H; exact H. Qed.
Lemma Inv3_with_stops s l : Inv3 s -> Inv3 (with_stops s l).
Proof. intros H; exact H. Qed.

Lemma Inv3_sett s t y' : Inv3 s -> trig_ok s y' -> Inv3 (sett s t y').
Proof.
  intros HI Hy t0 z Hz. simpl in Hz.
  destruct (nth_upd_inv _ _ _ _ _ Hz) as [[_ ->]|[_ Hz']]; [exact Hy | exact (HI t0 z Hz')].
Qed.

Lemma Inv3_calltrig s t y x :
  Inv3 s -> gett s t = Some y -> getr s (t_reg y) = Some x -> r_rpc x = RRet -> has_trig (r_kind x) = true ->
  Inv3 (sett s t (mkT (t_reg y) TCalled (r_runs x))).
Proof.
  intros HI Hy Hx Hp Hk. apply Inv3_sett; [exact HI|]. intros _. exists x. simpl.
  repeat split; auto. discriminate.
Qed.

Lemma Inv3_rettrig s t y :
  Inv3 s -> gett s t = Some y -> t_pc y = TSent -> Inv3 (sett s t (mkT (t_reg y) TRet (t_runs0 y))).
Proof.
  intros HI Hy Hp. apply Inv3_sett; [exact HI|]. intros _.
  destruct (HI t y Hy) as (x & Hx & Hk & Hr & Hle & Hs); [congruence|].
  exists x. simpl. repeat split; auto. intros _. apply Hs. rewrite Hp. reflexivity.
Qed.

Lemma Inv3_send s t y x x' :
  Inv3 s -> gett s t = Some y -> t_pc y = TCalled -> getr s (t_reg y) = Some x ->
  rtr (ctxd s) (ctxd s) x x' -> (r_tok x' = true \/ pre_run (r_gpc x') = true) ->
  Inv3 (sett (setr s (t_reg y) x') t (mkT (t_reg y) TSent (t_runs0 y))).
Proof.
  intros HI Hy Hp Hx HR Hnew. apply Inv3_sett; [eapply Inv3_setr; eauto|]. intros _.
  destruct (HI t y Hy) as (x0 & Hx0 & Hk & Hr & Hle & _); [congruence|].
  unfold getr in Hx. assert (x0 = x) by congruence. subst x0.
  destruct HR as (Hk' & Hr' & Hle' & _).
  exists x'. simpl. split; [eapply nth_upd_same; eauto|].
  repeat split; auto; try congruence; try lia.
  intros _. unfold kept. destruct Hnew; auto.
Qed.

Lemma Inv3_drop s t y x :
  Inv3 s -> gett s t = Some y -> t_pc y = TCalled -> getr s (t_reg y) = Some x -> r_tok x = true ->
  Inv3 (sett s t (mkT (t_reg y) TSent (t_runs0 y))).
Proof.
  intros HI Hy Hp Hx Htok. apply Inv3_sett; [exact HI|]. intros _.
  destruct (HI t y Hy) as (x0 & Hx0 & Hk & Hr & Hle & _); [congruence|].
  unfold getr in Hx. assert (x0 = x) by congruence. subst x0.
  exists x. simpl. repeat split; auto. intros _. unfold kept. auto.
Qed.

Lemma Inv3_step s l s' : Inv1 s -> Inv3 s -> step s l = Some s' -> Inv3 s'.
Proof.
  intros HI1 HI Hs. unfold step in Hs.
  destruct l; dstep Hs; try discriminate Hs; injection Hs as Hs; subst s'.
  all: try exact HI.
  all: try (match goal with |- Inv3 (with_lock _ _ _) => apply Inv3_with_lock
                          | |- Inv3 (with_wg _ _) => apply Inv3_with_wg end).
  all: try (match goal with |- Inv3 (setr _ _ _) =>
              eapply Inv3_setr; [exact HI | eassumption | rtr_solve] end; fail).
  all: try (apply (Inv3_same s); [reflexivity | reflexivity | reflexivity | exact HI]; fail).
  all: try (apply (Inv3_wake s); [reflexivity | reflexivity | reflexivity | exact HI]; fail).
  all: try (eapply Inv3_calltrig; eauto; fail).
  all: try (eapply Inv3_rettrig; eauto; fail).
  all: try (eapply Inv3_drop; eauto; fail).
  all: try (eapply Inv3_send; [exact HI | eassumption | assumption | eassumption | rtr_solve
                              | simpl; auto; right; destruct (r_kind _); reflexivity]; fail).
  (* TGo: the goroutine did not exist before *)
  match goal with Hx : getr s ?r = Some ?x, Ep : r_rpc ?x = RUnlocked |- _ =>
    assert (Hg : r_gpc x = GNone);
    [ destruct (HI1 _ _ Hx) as (Hok & _ & _); unfold reg_okb in Hok; rewrite Ep in Hok; simpl in Hok;
      destruct (r_gpc x); try reflexivity; rewrite ?andb_false_r in Hok; simpl in Hok; discriminate
    | eapply Inv3_setr; [exact HI | exact Hx | rtr_solve] ]
  end.
Qed.

Lemma Inv3_qstep s l s' : Inv1 s -> Inv3 s -> qstep s l = Some s' -> Inv3 s'.
Proof.
  intros HI1 HI Hq. destruct (qstep_cases _ _ _ Hq) as [(_ & ->)|Hs]; [exact HI | eapply Inv3_step; eauto].
Qed.

(* ------------------------------------------------------------------ *)
(* all three invariants hold in every reachable state                  *)
(* ------------------------------------------------------------------ *)

Definition Inv (s : st) : Prop := Inv1 s /\ Inv2 s /\ Inv3 s.

Theorem reachable_inv c s : reachable qstep (init c) s -> Inv s.
Proof.
  apply invariant_rule.
  - split; [apply Inv1_init | split; [apply Inv2_init | apply Inv3_init]].
  - intros s0 l s1 (H1 & H2 & H3) Hq. split; [eapply Inv1_qstep; eauto | split].
    + eapply Inv2_qstep; eauto.
    + eapply Inv3_qstep; eauto.
Qed.

Lemma reachable_run c s ls s' :
  reachable qstep (init c) s -> run qstep s ls = Some s' -> reachable qstep (init c) s'.
Proof. intros [ls0 H0] Hr. exists (ls0 ++ ls). rewrite run_app, H0. exact Hr. Qed.



(* ------------------------------------------------------------------ *)
(* C17, clause 1: StopAndWait is a barrier                             *)
(* ------------------------------------------------------------------ *)

(* some StopAndWait call has got past its wg.Wait (in particular: has returned) *)
Definition returned (s : st) : Prop := exists k y, nth_error (stops s) k = Some y /\ waited y = true.

(* nothing of this registration runs, and nothing of it can start *)
Definition reg_quiet (x : reg) : Prop :=
  (r_gpc x = GNone \/ r_gpc x = GExited) /\ r_infl x = 0 /\
  r_rpc x <> RCheckOk /\ r_rpc x <> RAdded /\ r_rpc x <> RUnlocked.

Lemma barrier_state s :
  Inv s -> returned s ->
  forall r x, nth_error (regs s) r = Some x ->
    reg_quiet x /\ step s (LFEnter r) = None /\ step s (LFExit r) = None /\ step s (TGo r) = None /\ step s (TAdd r) = None.
Proof.
  intros (HI1 & HI2 & _) (k & y & Hy & Hw) r x Hx.
  pose proof (i_wait s HI2 k y Hy Hw) as Hwg.
  pose proof (waited_stopped s k y HI2 Hy Hw) as Hst.
  pose proof (i_wg s HI2) as Hsum. rewrite Hwg in Hsum. symmetry in Hsum.
  pose proof (suml_zero_nth contrib _ Hsum _ _ Hx) as Hc.
  pose proof (i_nocheck s HI2 Hst _ _ Hx) as Hnc.
  destruct (HI1 _ _ Hx) as (_ & Hinfl & _).
  assert (Hq : reg_quiet x).
  { unfold reg_quiet. unfold contrib in Hc.
    destruct (r_rpc x) eqn:Ep; try discriminate Hc; try congruence;
      (destruct (r_gpc x) eqn:Eg; simpl in Hc; try discriminate Hc;
       repeat split; auto; try discriminate). }
  split; [exact Hq|]. destruct Hq as (Hg & _ & H1 & H2 & H3).
  unfold step, getr. rewrite Hx.
  repeat split.
  - destruct Hg as [Hg|Hg]; rewrite Hg; reflexivity.
  - destruct Hg as [Hg|Hg]; rewrite Hg; reflexivity.
  - destruct (r_rpc x); try reflexivity; congruence.
  - destruct (r_rpc x); try reflexivity; congruence.
Qed.

(* stoppers only move forward *)
Lemma stops_mono s l s' :
  step s l = Some s' ->
  forall k y, nth_error (stops s) k = Some y ->
    exists y', nth_error (stops s') k = Some y' /\ (waited y = true -> waited y' = true).
Proof.
  intros Hs. unfold step in Hs.
  destruct l; dstep Hs; try discriminate Hs; injection Hs as Hs; subst s'; simpl;
    try (intros k0 y0 Hy0; exists y0; split; [exact Hy0 | auto]; fail).
  all: intros k0 y0 Hy0;
    match goal with Hy : gets _ ?k = Some ?y |- _ =>
      unfold gets in Hy; destruct (Nat.eq_dec k k0) as [->|Hne];
      [ eexists; split; [eapply nth_upd_same; eauto|];
        assert (y0 = y) by congruence; subst y0; unfold waited; simpl;
        repeat match goal with E : s_pc _ = _ |- _ => rewrite E | E : s_wait _ = _ |- _ => rewrite E end;
        simpl; rewrite ?andb_false_r; auto
      | exists y0; rewrite nth_error_upd_other by exact Hne; auto ]
    end.
Qed.

Lemma returned_qstep s l s' : returned s -> qstep s l = Some s' -> returned s'.
Proof.
  intros (k & y & Hy & Hw) Hq. destruct (qstep_cases _ _ _ Hq) as [(_ & ->)|Hs]; [exists k, y; auto|].
  destruct (stops_mono _ _ _ Hs k y Hy) as (y' & Hy' & Hw'). exists k, y'. auto.
Qed.

Lemma returned_run s ls s' : returned s -> run qstep s ls = Some s' -> returned s'.
Proof.
  revert s; induction ls as [|l ls IH]; intros s Hr Hrun; simpl in Hrun.
  - inversion Hrun; subst; exact Hr.
  - destruct (qstep s l) as [s1|] eqn:E; [|discriminate]. eapply IH; [eapply returned_qstep; eauto | exact Hrun].
Qed.

Theorem group_barrier c s :
  reachable qstep (init c) s -> returned s ->
  forall ls s', run qstep s ls = Some s' ->
  forall r x, nth_error (regs s') r = Some x ->
    reg_quiet x /\ step s' (LFEnter r) = None /\ step s' (LFExit r) = None /\ step s' (TGo r) = None /\ step s' (TAdd r) = None.
Proof.
  intros Hreach Hret ls s' Hrun. apply barrier_state.
  - eapply reachable_inv. eapply reachable_run; eauto.
  - eapply returned_run; eauto.
Qed.

(* a run that was started before the stop (e.g. a Trigger loop that received its token and then
   calls f although the context was cancelled in between) is covered by the WaitGroup: while any
   goroutine is alive, or a registration is between wg.Add and go, no wg.Wait can return *)
Theorem group_wait_covers c s k :
  reachable qstep (init c) s ->
  (exists r x, nth_error (regs s) r = Some x /\ contrib x = 1) ->
  step s (TWait k) = None.
Proof.
  intros Hreach (r & x & Hx & Hc). destruct (reachable_inv _ _ Hreach) as (_ & HI2 & _).
  pose proof (i_wg s HI2) as Hsum. pose proof (suml_le contrib _ _ _ Hx) as Hle.
  unfold step. destruct (gets s k) as [y|]; [|reflexivity].
  destruct (s_pc y); try reflexivity. destruct (s_wait y); try reflexivity.
  destruct (wg s); [lia | reflexivity].
Qed.

(* ------------------------------------------------------------------ *)
(* C17, clause 3: runs of one f never overlap                          *)
(* ------------------------------------------------------------------ *)

Theorem group_no_overlap c s r x :
  reachable qstep (init c) s -> nth_error (regs s) r = Some x ->
  r_infl x <= 1 /\ (r_infl x = 1 <-> r_gpc x = GInF) /\ r_spawns x <= 1.
Proof.
  intros Hreach Hx. destruct (reachable_inv _ _ Hreach) as (HI1 & _ & _).
  destruct (HI1 _ _ Hx) as (_ & Hi & Hsp). rewrite Hi, Hsp.
  destruct (r_gpc x); repeat split; auto; try lia; try discriminate.
Qed.

(* a run can only begin when none is in progress, and only a run in progress can end *)
Theorem group_enter_exit c s r x :
  reachable qstep (init c) s -> nth_error (regs s) r = Some x ->
  (step s (LFEnter r) <> None -> r_infl x = 0) /\ (step s (LFExit r) <> None -> r_infl x = 1).
Proof.
  intros Hreach Hx. destruct (reachable_inv _ _ Hreach) as (HI1 & _ & _).
  destruct (HI1 _ _ Hx) as (_ & Hi & _). unfold step, getr. rewrite Hx, Hi.
  destruct (r_gpc x); split; intros H; try reflexivity; exfalso; apply H; reflexivity.
Qed.

(* ------------------------------------------------------------------ *)
(* C17, clause 2: no trigger call is lost                              *)
(* ------------------------------------------------------------------ *)

Theorem group_trigger_not_lost c s t y :
  reachable qstep (init c) s -> nth_error (trigs s) t = Some y -> sent (t_pc y) = true ->
  exists x, nth_error (regs s) (t_reg y) = Some x /\ t_runs0 y <= r_runs x /\
            (ctxd s = true \/ r_tok x = true \/ pre_run (r_gpc x) = true \/ t_runs0 y < r_runs x).
Proof.
  intros Hreach Hy Hs. destruct (reachable_inv _ _ Hreach) as (_ & _ & HI3).
  assert (Hne : t_pc y <> TIdle) by (intros E; rewrite E in Hs; discriminate Hs).
  destruct (HI3 t y Hy Hne) as (x & Hx & _ & _ & Hle & Hk).
  exists x. split; [exact Hx | split; [exact Hle | exact (Hk Hs)]].
Qed.

(* [t_runs0] really is the number of runs begun before the Call event *)
Lemma calltrig_records s t s' :
  step s (LCallTrig t) = Some s' ->
  exists y x, gett s t = Some y /\ getr s (t_reg y) = Some x /\
              gett s' t = Some (mkT (t_reg y) TCalled (r_runs x)).
Proof.
  intros Hs. unfold step in Hs. dstep Hs. injection Hs as Hs; subst s'.
  eexists; eexists. split; [reflexivity|]. split; [eassumption|].
  unfold gett; simpl. eapply nth_upd_same. eassumption.
Qed.

(* the labels by which r's goroutine moves towards its next f-enter *)
Definition gor_labels (r : nat) : list lab :=
  [TNewTimer r; TCheckCtx r; TSelTimer r; TSelTrig r; TStopTimer r; TDrain r; TReset r; LFEnter r].

Definition en (s : st) (l : lab) : Prop := step s l <> None.

Ltac pick l Hx Eg := exists l; split; [simpl; auto 20 | unfold en, step, getr; rewrite Hx, Eg].
Ltac pick_by r Hx Eg :=
  match type of Eg with
  | _ = GStart => pick (TNewTimer r) Hx Eg
  | _ = GTop => pick (TCheckCtx r) Hx Eg
  | _ = GStopT => pick (TStopTimer r) Hx Eg
  | _ = GDrain => pick (TDrain r) Hx Eg
  | _ = GReset => pick (TReset r) Hx Eg
  | _ = GRunF => pick (LFEnter r) Hx Eg
  end.
Ltac simp_ok H := simpl in H; rewrite ?andb_false_r in H; simpl in H; rewrite ?andb_false_r in H; simpl in H.
(* read the timer bits off the invariant *)
Ltac timer_bits H :=
  match type of H with
  | context [r_kind ?x] => destruct (r_kind x); simp_ok H; try discriminate H
  | _ => idtac
  end;
  match type of H with
  | context [r_tact ?x] => destruct (r_tact x), (r_tchan x); simp_ok H; try discriminate H
  | _ => idtac
  end.

(* progress: as long as the group is not cancelled and no run has begun after the call, the
   goroutine is either still inside the previous run of f (waiting for the caller's f to return)
   or one of its own steps towards f-enter is enabled - it is never parked and never gone *)
Theorem group_trigger_progress c s t y :
  reachable qstep (init c) s -> nth_error (trigs s) t = Some y -> sent (t_pc y) = true ->
  ctxd s = false ->
  exists x, nth_error (regs s) (t_reg y) = Some x /\
    (t_runs0 y < r_runs x \/ r_gpc x = GInF \/ exists l, In l (gor_labels (t_reg y)) /\ en s l).
Proof.
  intros Hreach Hy Hs Hd. destruct (reachable_inv _ _ Hreach) as (HI1 & _ & HI3).
  assert (Hne : t_pc y <> TIdle) by (intros E; rewrite E in Hs; discriminate Hs).
  destruct (HI3 t y Hy Hne) as (x & Hx & Hk & Hr & Hle & Hkept).
  specialize (Hkept Hs). exists x. split; [exact Hx|].
  destruct (HI1 _ _ Hx) as (Hok & _ & _). rewrite Hd in Hok, Hkept.
  destruct Hkept as [Hc|[Htok|[Hpre|Hlt]]]; [discriminate | | | left; exact Hlt].
  - (* the token is in the channel *)
    right. unfold reg_okb in Hok. rewrite Hr, Htok, Hk in Hok.
    destruct (r_gpc x) eqn:Eg; simp_ok Hok; try discriminate Hok;
      try (left; reflexivity);
      try (right; pick_by (t_reg y) Hx Eg; try discriminate; timer_bits Hok; discriminate);
      try (destruct (r_kind x); simpl in Hk; try discriminate Hk; simp_ok Hok; discriminate Hok).
    right. pick (TSelTrig (t_reg y)) Hx Eg. rewrite Hk, Htok. discriminate.
  - (* the goroutine has received the token and is on its way into f *)
    right. right. unfold reg_okb in Hok.
    destruct (r_gpc x) eqn:Eg; simpl in Hpre; try discriminate Hpre;
      pick_by (t_reg y) Hx Eg; try discriminate; simp_ok Hok; timer_bits Hok; discriminate.
Qed.

(* variant: the distance of a loop goroutine to its next f-enter *)
Definition gdist (g : gpc) : nat :=
  match g with
  | GInF => 9 | GStart => 8 | GTop => 7 | GSelect => 6 | GParked => 5 | GStopT => 4 | GDrain => 3
  | GReset => 2 | GRunF => 1 | _ => 10
  end.

(* every step of a loop goroutine other than f-enter itself (including parking, and the return of f)
   strictly decreases the distance while the group is not cancelled; so does the timer firing on a
   parked goroutine *)
Theorem group_loop_variant s r l s' x x' :
  step s l = Some s' -> In l (gor_labels r ++ [TPark r; LFExit r; TFire r]) -> l <> LFEnter r ->
  getr s r = Some x -> getr s' r = Some x' -> ctxd s = false -> r_kind x <> KDo ->
  (l = TFire r -> r_gpc x = GParked) ->
  gdist (r_gpc x') < gdist (r_gpc x).
Proof.
  intros Hs Hin Hne Hx Hx' Hd Hk Hf. simpl in Hin.
  assert (Hlen : r < length (regs s)) by (eapply nth_lt; exact Hx).
  decompose [or] Hin; try contradiction; subst l; try congruence;
    unfold step in Hs; rewrite Hx in Hs; dstep Hs; try discriminate Hs; injection Hs as Hs; subst s';
    unfold getr in Hx'; simpl in Hx'; rewrite nth_error_upd_same in Hx' by exact Hlen;
    inversion Hx'; subst x'; simpl;
    repeat match goal with E : r_gpc _ = _ |- _ => rewrite E end; simpl; try lia;
    try (specialize (Hf eq_refl); congruence);
    try (rewrite Hd; simpl; lia);
    try (destruct (r_tact x); simpl; lia);
    try (destruct (r_kind x); simpl; try lia; congruence).
Qed.

(* ------------------------------------------------------------------ *)
(* C17, clause 4: periodic functions keep being invoked                *)
(* ------------------------------------------------------------------ *)

(* timer facts at the places where the loop waits *)
Theorem group_timer_facts c s r x :
  reachable qstep (init c) s -> nth_error (regs s) r = Some x -> has_timer (r_kind x) = true ->
  (* no stale value: the timer is never pending while a value sits in its channel *)
  (r_tact x && r_tchan x = false) /\
  (* about to select: Armed or Fired *)
  (r_gpc x = GSelect -> xorb (r_tact x) (r_tchan x) = true) /\
  (* parked in the select: Armed, so it will fire, and the fire wakes the loop *)
  (r_gpc x = GParked -> r_tact x = true /\ r_tchan x = false /\
                        exists s' x', step s (TFire r) = Some s' /\ getr s' r = Some x' /\ r_gpc x' = GReset) /\
  (* the drain <-t.C is only executed when the channel really holds a value *)
  (r_gpc x = GDrain -> r_tchan x = true /\ en s (TDrain r)) /\
  (* t.Reset is only called on a stopped-or-expired timer with an empty channel *)
  (r_gpc x = GReset -> r_tact x = false /\ r_tchan x = false) /\
  (* the loop only exits when the group's context is cancelled *)
  (r_gpc x = GExiting \/ r_gpc x = GExited -> ctxd s = true).
Proof.
  intros Hreach Hx Hk. destruct (reachable_inv _ _ Hreach) as (HI1 & _ & _).
  destruct (HI1 _ _ Hx) as (Hok & _ & _). unfold reg_okb, timer_ok in Hok. rewrite Hk in Hok.
  assert (Hlen : r < length (regs s)) by (eapply nth_lt; exact Hx).
  repeat split.
  - destruct (r_gpc x), (r_tact x), (r_tchan x); simpl in Hok; rewrite ?andb_false_r in Hok; try discriminate Hok; reflexivity.
  - intros Eg. rewrite Eg in Hok. destruct (r_tact x), (r_tchan x); simpl in Hok; rewrite ?andb_false_r in Hok; try discriminate Hok; reflexivity.
  - rewrite H in Hok. destruct (r_tact x), (r_tchan x); simpl in Hok; rewrite ?andb_false_r in Hok; try discriminate Hok; reflexivity.
  - rewrite H in Hok. destruct (r_tact x), (r_tchan x); simpl in Hok; rewrite ?andb_false_r in Hok; try discriminate Hok; reflexivity.
  - assert (Ha : r_tact x = true).
    { rewrite H in Hok. destruct (r_tact x), (r_tchan x); simpl in Hok; rewrite ?andb_false_r in Hok; try discriminate Hok; reflexivity. }
    unfold step, getr. rewrite Hx, Ha, H. eexists; eexists. split; [reflexivity|]. simpl.
    split; [apply nth_error_upd_same; exact Hlen | reflexivity].
  - rewrite H in Hok. destruct (r_tact x), (r_tchan x); simpl in Hok; rewrite ?andb_false_r in Hok; try discriminate Hok; reflexivity.
  - assert (Hc : r_tchan x = true).
    { rewrite H in Hok. destruct (r_tact x), (r_tchan x); simpl in Hok; rewrite ?andb_false_r in Hok; try discriminate Hok; reflexivity. }
    unfold en, step, getr. rewrite Hx, H, Hc. discriminate.
  - rewrite H in Hok. destruct (r_tact x), (r_tchan x); simpl in Hok; rewrite ?andb_false_r in Hok; try discriminate Hok; reflexivity.
  - rewrite H in Hok. destruct (r_tact x), (r_tchan x); simpl in Hok; rewrite ?andb_false_r in Hok; try discriminate Hok; reflexivity.
  - intros [Eg|Eg]; rewrite Eg in Hok; destruct (r_kind x); simpl in Hk; try discriminate Hk;
      destruct (ctxd s); try reflexivity; simpl in Hok; rewrite ?andb_false_r in Hok; discriminate Hok.
Qed.

(* progress: a live periodic loop that is not inside f always has an enabled step of its own, or
   is parked with its timer armed (then the timer's fire is enabled): it cannot wait forever *)
Theorem group_periodic_progress c s r x :
  reachable qstep (init c) s -> nth_error (regs s) r = Some x -> has_timer (r_kind x) = true ->
  ctxd s = false -> r_gpc x <> GNone ->
  r_gpc x = GInF \/ exists l, In l (gor_labels r ++ [TPark r; TFire r]) /\ en s l.
Proof.
  intros Hreach Hx Hk Hd Hg. destruct (reachable_inv _ _ Hreach) as (HI1 & _ & _).
  destruct (HI1 _ _ Hx) as (Hok & _ & _). unfold reg_okb, timer_ok in Hok. rewrite Hk, Hd in Hok.
  destruct (r_gpc x) eqn:Eg; try congruence;
    try (left; reflexivity);
    try (right; pick_by r Hx Eg; try discriminate; simp_ok Hok;
         destruct (r_tact x), (r_tchan x); simp_ok Hok; try discriminate Hok; discriminate);
    try (destruct (r_kind x); simpl in Hk; try discriminate Hk; simp_ok Hok; discriminate Hok).
  - (* about to select: some arm is ready, or it parks *)
    right. destruct (r_tchan x) eqn:Ec.
    + pick (TSelTimer r) Hx Eg. rewrite Hk, Ec. discriminate.
    + destruct (has_trig (r_kind x) && r_tok x) eqn:Et.
      * pick (TSelTrig r) Hx Eg. rewrite Et. discriminate.
      * pick (TPark r) Hx Eg. rewrite Hd, Hk, Ec, Et. simpl. discriminate.
  - (* parked: the timer is armed *)
    right. pick (TFire r) Hx Eg. simp_ok Hok.
    destruct (r_tact x), (r_tchan x); simp_ok Hok; try discriminate Hok. discriminate.
Qed.

(* the barrier in terms of the visible event: some StopAndWait call has returned *)
Theorem group_barrier_ret c s :
  reachable qstep (init c) s ->
  (exists k y, nth_error (stops s) k = Some y /\ s_wait y = true /\ s_pc y = SRet) ->
  forall ls s', run qstep s ls = Some s' ->
  forall r x, nth_error (regs s') r = Some x ->
    (r_gpc x = GNone \/ r_gpc x = GExited) /\ r_infl x = 0 /\
    step s' (LFEnter r) = None /\ step s' (LFExit r) = None /\ step s' (TGo r) = None /\ step s' (TAdd r) = None.
Proof.
  intros Hreach (k & y & Hy & Hw & Hp) ls s' Hrun r x Hx.
  assert (Hret : returned s) by (exists k, y; split; [exact Hy | unfold waited; rewrite Hw, Hp; reflexivity]).
  destruct (group_barrier c s Hreach Hret ls s' Hrun r x Hx) as ((Hg & Hi & _) & H1 & H2 & H3 & H4).
  repeat split; auto.
Qed.

(* ------------------------------------------------------------------ *)
(* non-vacuity: a history exercising all four kinds, a trigger hand-off, a buffered trigger that
   races the timer of PeriodicOrTrigger (Stop() = false, drain), StopAndWait blocked by a run of f
   that started before the stop, and a registration after the stop that never runs *)
(* ------------------------------------------------------------------ *)

Definition ex_cfg : config :=
  mkCfg [(KTrigger, false, true); (KPeriodic, false, true); (KPoT, false, false); (KDo, false, true)] [0; 2] [true].

Definition ex_part1 : list lab :=
  [LCallReg 0; TRLock 0; TCheck 0; TAdd 0; TRUnlock 0; TGo 0; LRetReg 0; TCheckCtx 0; TPark 0;
   LCallTrig 0; TTrigHandoff 0; LRetTrig 0; LFEnter 0; LFExit 0; TCheckCtx 0; TPark 0;
   LCallReg 1; TRLock 1; TCheck 1; TAdd 1; TRUnlock 1; TGo 1; LRetReg 1; TNewTimer 1; TCheckCtx 1; TPark 1;
   TFire 1; TReset 1; LFEnter 1; LFExit 1; TCheckCtx 1; TFire 1; TSelTimer 1; TReset 1; LFEnter 1; LFExit 1;
   LCallReg 2; TRLock 2; TCheck 2; TAdd 2; TRUnlock 2; TGo 2; LRetReg 2; TNewTimer 2; TCheckCtx 2;
   LCallTrig 1; TTrigBuffer 1; LRetTrig 1; TFire 2; TSelTrig 2; TStopTimer 2; TDrain 2; TReset 2; LFEnter 2;
   LCallStop 0; TWLock 0; TStopCancel 0; TWUnlock 0; TDone 0; TCheckCtx 1; TDone 1].

Definition ex_part2 : list lab :=
  [LRelease 2; LFExit 2; TCheckCtx 2; TDone 2; TWait 0; LRetStop 0; LQuiesce;
   LCallReg 3; TRLock 3; TCheck 3; TRUnlock 3; LRetReg 3; LQuiesce].

(* after part 1 the group is stopped, f of registration 2 is still running: wg.Wait cannot return *)
Example ex_wait_blocked :
  match run qstep (init ex_cfg) ex_part1 with
  | Some s => (wg s, step s (TWait 0), map r_runs (regs s), map r_infl (regs s))
  | None => (0, None, [], [])
  end = (1, None, [1; 2; 1; 0], [0; 0; 1; 0]).
Proof. vm_compute. reflexivity. Qed.

Example ex_full_run :
  match run qstep (init ex_cfg) (ex_part1 ++ ex_part2) with
  | Some s => (wg s, map r_runs (regs s), map r_gpc (regs s), map s_pc (stops s), map t_pc (trigs s))
  | None => (1, [], [], [], [])
  end = (0, [1; 2; 1; 0], [GExited; GExited; GExited; GNone], [SRet], [TRet; TRet]).
Proof. vm_compute. reflexivity. Qed.

Example ex_reachable_returned :
  exists s, reachable qstep (init ex_cfg) s /\
            (exists k y, nth_error (stops s) k = Some y /\ s_wait y = true /\ s_pc y = SRet).
Proof.
  destruct (run qstep (init ex_cfg) (ex_part1 ++ ex_part2)) as [s|] eqn:E; [|vm_compute in E; discriminate].
  exists s. split; [exists (ex_part1 ++ ex_part2); exact E|].
  vm_compute in E. inversion E; subst s. exists 0. eexists. split; [reflexivity|]. split; reflexivity.
Qed.

(* the hypotheses of the trigger theorems are satisfiable: after the buffered trigger call 1 the
   token sits in the channel while the group runs *)
Example ex_trigger_pending :
  match run qstep (init ex_cfg) (firstn 48 ex_part1) with
  | Some s => (ctxd s, map t_pc (trigs s), map r_tok (regs s), map t_runs0 (trigs s))
  | None => (true, [], [], [])
  end = (false, [TRet; TRet], [false; false; true; false], [0; 0]).
Proof. vm_compute. reflexivity. Qed.

(* the matcher accepts the visible projection of this run *)
Example ex_history_accepted :
  accepts_history ex_cfg
    [LCallReg 0; LRetReg 0; LCallTrig 0; LRetTrig 0; LFEnter 0; LFExit 0;
     LCallReg 1; LRetReg 1; LFEnter 1; LFExit 1; LFEnter 1; LFExit 1;
     LCallReg 2; LRetReg 2; LCallTrig 1; LRetTrig 1; LFEnter 2;
     LCallStop 0; LRelease 2; LFExit 2; LRetStop 0; LQuiesce;
     LCallReg 3; LRetReg 3; LQuiesce] = true.
Proof. vm_compute. reflexivity. Qed.

(* ... and rejects a history in which f runs after StopAndWait returned *)
Example ex_history_rejected :
  accepts_history ex_cfg
    [LCallReg 0; LRetReg 0; LCallTrig 0; LRetTrig 0; LCallStop 0; LRetStop 0; LFEnter 0] = false.
Proof. vm_compute. reflexivity. Qed.
