(* C11 — the history matcher of Conc/Batch.v (stream.Batch / stream.BatchFunc) is certified.

   The correspondence check calls [Batch.accepts_history mw m calls nctx evs] (props/batch_common.py,
   [chk]).  That is the generic matcher [GoLTS.accepts] run NOT on the model's transition function
   [qstep] but on the reduced system [vstep s l = option_map view (qstep s l)] with the label
   enumeration [tau_labels].  Three reductions are involved:
     (R1) [view] erases what no transition reads: the ghost fields, the results of finished consumer
          calls, absolute time (only  clock - batchStart  capped at maxWait+1, and  deadline - clock
          floored at 0, survive);
     (R2) [view] completes a requested context cancellation at once (XReq -> XDone);
     (R3) [tick_labels] advances the clock by two amounts only: to the deadline of the armed timer,
          and to just past batchStart + maxWait when a consumer is about to announce itself.

   Proved here, for every maxWait, mode, list of consumer calls, number of contexts and history:

   SOUNDNESS (unconditional) — [batch_accepts_sound]:
       accepts_history mw m calls nctx evs = true ->
       exists ls s, run qstep (init mw m calls nctx) ls = Some s /\ batch_trace ls = evs
     by a simulation ([step_sim], [vstep_sim], [vrun_sim]): [sim a c] relates a state of the reduced
     system to a state of the model that agrees with it on everything a transition can read;
     [step] respects [sim] in both directions (so [quiescent] agrees, [quiescent_sim]); [view s] is
     [sim]-related to [s]; a requested cancellation is completed in the model by the internal step
     TCancelEff right after LCancel.

   COMPLETENESS (when every closure computed along the history converged within the fuel,
   [batch_converged], an executable test) — [batch_accepts_complete], [batch_reject_genuine],
   [batch_accepts_iff]:
       batch_converged mw m calls nctx evs = true -> accepts_history mw m calls nctx evs = false ->
       forall ls s, run qstep (init mw m calls nctx) ls = Some s -> batch_trace ls <> evs
     in three steps:
     - [batch_quotient_complete] (R1, R2 lose nothing): every run of [qstep] is matched by a run of
       [vstep] that is ahead in cancellations ([fincomp]); TCancelEff is matched by no step;
       a quiescent state has no cancellation half-way;
     - [batch_threshold_complete] (R3 loses nothing): every run of [vstep] with arbitrary ticks is
       matched by a run of [vstep_thr] (threshold ticks only) that ticks as late as possible; the
       relation is [lag] (batch at most as old, timer at least as long to go); the lazy run catches
       up when the other one fires the timer ([catch_timer]) or takes the overdue branch
       ([catch_overdue]); this uses the invariant "armed timer deadline = batchStart + maxWait while
       the age is still read" ([kinv]), obtained from G1/G5 of BatchProofs.v through soundness;
     - the generic completeness theorem of GoLTSProofs.v instantiated for [vstep_thr]
       ([batch_st_eqb_spec], [batch_tau_labels_complete], [batch_labels_ev_complete]), transported to
       the shipped functions by [accepts_sext] (the matcher applies the transition function to
       enumerated labels only) and CondMatcher.accepts_ext ([lab_eqb] is reflexive on events only).
   What remains conditional is only the fuel: [batch_converged] must be evaluated per history (no
   a-priori bound on the number of tau-reachable quotient states is proved).
   Stdlib only, no axioms. *)
From Juniper Require Import Common.Base Conc.GoLTS Conc.GoLTSProofs Conc.Batch Conc.BatchProofs.
From Juniper Require Conc.CondMatcher.
From Coq Require Import Arith PeanoNat.

(* ====================================================================== *)
(* Part 0: small list facts                                                *)
(* ====================================================================== *)

Lemma map_upd {A B} (f : A -> B) (l : list A) k x : map f (upd l k x) = upd (map f l) k (f x).
Proof.
  revert k; induction l as [|h t IH]; intros [|k]; simpl; try reflexivity.
  rewrite IH; reflexivity.
Qed.

Lemma upd_upd {A} (l : list A) k x y : upd (upd l k x) k y = upd l k y.
Proof.
  revert k; induction l as [|h t IH]; intros [|k]; simpl; try reflexivity.
  rewrite IH; reflexivity.
Qed.

Lemma existsb_ext_in {A} (f g : A -> bool) (l : list A) :
  (forall x, In x l -> f x = g x) -> existsb f l = existsb g l.
Proof.
  induction l as [|a t IH]; intros H; simpl; [reflexivity|].
  rewrite (H a (or_introl eq_refl)), IH; [reflexivity|].
  intros x Hx. apply H. right; exact Hx.
Qed.

(* ====================================================================== *)
(* Part 1: the equivalence that [view] quotients by                        *)
(* ====================================================================== *)

Definition fin (x : cstate) : cstate := match x with XReq => XDone | _ => x end.

(* no context cancellation is half-way (requested, Done not yet closed) *)
Definition noreq (s : st) : Prop := map fin (ctxs s) = ctxs s.

Definition age (s : st) : Z := clock s - bstart s.

(* the states in which the age of the batch can still be read by a later transition: the only
   reader is the [case <-out.waiting] arm (batcher at BLoop, batch non-empty); a one-item batch
   under evaluation by full gets a fresh batchStart (or is flushed) before the batcher is back at
   the loop head *)
Definition age_rel (s : st) : bool :=
  match batch s, bpc_ s with
  | _ :: _, BLoop => true
  | _ :: _ :: _, BFull | _ :: _ :: _, BInFull => true
  | _, _ => false
  end.

Definition tmr_rel (a c : st) : Prop :=
  match tmr a, tmr c with
  | TmArmed da, TmArmed dc => Z.max (da - clock a) 0 = Z.max (dc - clock c) 0
  | TmNone, TmNone | TmIdle, TmIdle | TmFired, TmFired => True
  | _, _ => False
  end.

Definition pc_sim (p q : cpc) : Prop :=
  match p, q with CDone _, CDone _ => True | _, _ => p = q end.

(* [sim a c]: a and c agree on everything a transition can read *)
Record sim (a c : st) : Prop := mkSim {
  s_maxw : maxw a = maxw c;
  s_mode : mode a = mode c;
  s_srcq : srcq a = srcq c;
  s_fulltok : fulltok a = fulltok c;
  s_ctxs : ctxs a = ctxs c;
  s_bgdone : bgdone a = bgdone c;
  s_ppc : ppc_ a = ppc_ c;
  s_perr : perr a = perr c;
  s_cclosed : cclosed a = cclosed c;
  s_bpc : bpc_ a = bpc_ c;
  s_batch : batch a = batch c;
  s_tc : tc a = tc c;
  s_wae : wae a = wae c;
  s_bclosed : bclosed a = bclosed c;
  s_wg : wg a = wg c;
  s_cons : map norm_consumer (cons a) = map norm_consumer (cons c);
  s_kpc : kpc_ a = kpc_ c;
  s_age : age_rel c = true -> Z.min (age a) (maxw c + 1) = Z.min (age c) (maxw c + 1);
  s_tmr : tmr_rel a c
}.

Ltac dsim H :=
  destruct H as [Hmaxw Hmode Hsrcq Hfull Hctxs Hbg Hppc Hperr Hcc Hbpc Hbatch Htc Hwae Hbc Hwg
                 Hcons Hkpc Hage Htmr].

Ltac sim_triv H :=
  dsim H; constructor; unfold age_rel, age, tmr_rel in *; simpl; auto; try congruence.

Lemma sim_refl s : sim s s.
Proof.
  constructor; try reflexivity. unfold tmr_rel. destruct (tmr s); auto.
Qed.

Lemma sim_sym a c : sim a c -> sim c a.
Proof.
  intros H. dsim H. constructor; try (symmetry; assumption).
  - unfold age_rel in *. rewrite Hbatch, Hbpc, Hmaxw. intros Hr. symmetry. apply Hage; exact Hr.
  - unfold tmr_rel in *. destruct (tmr a), (tmr c); auto.
Qed.

(* ---- setters ---- *)
Lemma sim_set_srcq a c x : sim a c -> sim (set_srcq a x) (set_srcq c x).
Proof. intros H. sim_triv H. Qed.
Lemma sim_set_fulltok a c x : sim a c -> sim (set_fulltok a x) (set_fulltok c x).
Proof. intros H. sim_triv H. Qed.
Lemma sim_set_ctxs a c x : sim a c -> sim (set_ctxs a x) (set_ctxs c x).
Proof. intros H. sim_triv H. Qed.
Lemma sim_set_bgdone a c x : sim a c -> sim (set_bgdone a x) (set_bgdone c x).
Proof. intros H. sim_triv H. Qed.
Lemma sim_set_ppc a c x : sim a c -> sim (set_ppc a x) (set_ppc c x).
Proof. intros H. sim_triv H. Qed.
Lemma sim_set_perr a c x : sim a c -> sim (set_perr a x) (set_perr c x).
Proof. intros H. sim_triv H. Qed.
Lemma sim_set_cclosed a c x : sim a c -> sim (set_cclosed a x) (set_cclosed c x).
Proof. intros H. sim_triv H. Qed.
Lemma sim_set_wae a c x : sim a c -> sim (set_wae a x) (set_wae c x).
Proof. intros H. sim_triv H. Qed.
Lemma sim_set_bclosed a c x : sim a c -> sim (set_bclosed a x) (set_bclosed c x).
Proof. intros H. sim_triv H. Qed.
Lemma sim_set_wg a c x : sim a c -> sim (set_wg a x) (set_wg c x).
Proof. intros H. sim_triv H. Qed.
Lemma sim_set_kpc a c x : sim a c -> sim (set_kpc a x) (set_kpc c x).
Proof. intros H. sim_triv H. Qed.
(* ghost fields: any values *)
Lemma sim_set_src a c x y : sim a c -> sim (set_src a x) (set_src c y).
Proof. intros H. sim_triv H. Qed.
Lemma sim_set_srcres a c x y : sim a c -> sim (set_srcres a x) (set_srcres c y).
Proof. intros H. sim_triv H. Qed.
Lemma sim_set_delivered a c x y : sim a c -> sim (set_delivered a x) (set_delivered c y).
Proof. intros H. sim_triv H. Qed.
Lemma sim_set_lostb a c x y : sim a c -> sim (set_lostb a x) (set_lostb c y).
Proof. intros H. sim_triv H. Qed.
Lemma sim_set_lostp a c x y : sim a c -> sim (set_lostp a x) (set_lostp c y).
Proof. intros H. sim_triv H. Qed.
Lemma sim_set_nclose a c x y : sim a c -> sim (set_nclose a x) (set_nclose c y).
Proof. intros H. sim_triv H. Qed.
Lemma sim_set_ann a c x y : sim a c -> sim (set_ann a x) (set_ann c y).
Proof. intros H. sim_triv H. Qed.
Lemma sim_set_stale a c x y : sim a c -> sim (set_stale a x) (set_stale c y).
Proof. intros H. sim_triv H. Qed.

(* the batcher's pc: to a value at which the age is not read any more *)
Definition bpc_noage (p : bpc) : bool :=
  match p with BLoop | BFull | BInFull => false | _ => true end.

Lemma sim_set_bpc_noage a c p : bpc_noage p = true -> sim a c -> sim (set_bpc a p) (set_bpc c p).
Proof.
  intros Hp H. dsim H. constructor; unfold age_rel, age, tmr_rel in *; simpl; auto.
  intros Hr. exfalso. destruct (batch c) as [|x [|y t]], p; simpl in *; discriminate.
Qed.

(* the batch is handed out or dropped *)
Lemma sim_set_batch_nil a c : sim a c -> sim (set_batch a []) (set_batch c []).
Proof.
  intros H. dsim H. constructor; unfold age_rel, age, tmr_rel in *; simpl; auto.
  intros Hr. discriminate Hr.
Qed.

(* ---- consumers ---- *)
Lemma norm_consumer_eq x y :
  norm_consumer x = norm_consumer y <-> c_ctx x = c_ctx y /\ pc_sim (c_pc x) (c_pc y).
Proof.
  destruct x as [cx px], y as [cy py]. unfold norm_consumer, pc_sim. simpl.
  destruct px, py; simpl; split; intros H;
    try (inversion H; subst; split; auto; fail);
    try (destruct H as [H1 H2]; try discriminate H2; try inversion H2; subst; reflexivity).
Qed.

Lemma sim_getc a c k : sim a c ->
  match getc a k, getc c k with
  | Some x, Some y => c_ctx x = c_ctx y /\ pc_sim (c_pc x) (c_pc y)
  | None, None => True
  | _, _ => False
  end.
Proof.
  intros H. dsim H. unfold getc.
  assert (E : nth_error (map norm_consumer (cons a)) k = nth_error (map norm_consumer (cons c)) k)
    by (rewrite Hcons; reflexivity).
  rewrite !nth_error_map in E.
  destruct (nth_error (cons a) k) as [x|], (nth_error (cons c) k) as [y|]; simpl in E;
    try discriminate E; auto.
  apply norm_consumer_eq. inversion E. reflexivity.
Qed.

Lemma sim_setc a c k p : sim a c -> sim (setc a k p) (setc c k p).
Proof.
  intros H. pose proof (sim_getc a c k H) as Hg. unfold setc.
  destruct (getc a k) as [x|], (getc c k) as [y|]; try contradiction; [|exact H].
  destruct Hg as [Hx _]. dsim H. constructor; unfold age_rel, age, tmr_rel in *; simpl; auto.
  rewrite !map_upd, Hcons, Hx. reflexivity.
Qed.

(* ---- the timer helpers ---- *)
Lemma sim_stop_timer a c : sim a c ->
  match stop_timer a, stop_timer c with
  | Some a1, Some c1 => sim a1 c1
  | None, None => True
  | _, _ => False
  end.
Proof.
  intros H. pose proof H as H0. dsim H. unfold stop_timer. rewrite Htc.
  unfold tmr_rel in Htmr.
  destruct (tmr a) eqn:Ea, (tmr c) eqn:Ec; try contradiction; try exact H0;
    destruct (tc c); auto;
    constructor; unfold age_rel, age, tmr_rel; simpl; auto.
Qed.

(* the new deadline is batchStart + maxWait *)
Lemma sim_start_timer a c : sim a c ->
  Z.max (maxw a - age a) 0 = Z.max (maxw c - age c) 0 ->
  sim (start_timer a) (start_timer c).
Proof.
  intros H Hd. pose proof (sim_stop_timer a c H) as Hs. unfold start_timer.
  assert (Hk : forall s s1, stop_timer s = Some s1 ->
                 bstart s1 = bstart s /\ maxw s1 = maxw s /\ clock s1 = clock s).
  { intros s s1. unfold stop_timer.
    destruct (tmr s); [| destruct (tc s) | | destruct (tc s)]; intros E; inversion E; subst;
      simpl; auto. }
  destruct (stop_timer a) as [a1|] eqn:Ea, (stop_timer c) as [c1|] eqn:Ec; try contradiction.
  - destruct (Hk _ _ Ea) as [A1 [A2 A3]]. destruct (Hk _ _ Ec) as [C1 [C2 C3]].
    dsim Hs. constructor; unfold age_rel, age, tmr_rel in *; simpl; auto.
    rewrite A1, A2, A3, C1, C2, C3. lia.
  - apply sim_set_bpc_noage; [reflexivity | exact H].
Qed.

(* the code after full(batch) returned *)
Lemma sim_after_full a c r : sim a c -> bpc_ c = BFull \/ bpc_ c = BInFull ->
  sim (after_full a r) (after_full c r).
Proof.
  intros H Hb. pose proof (sim_stop_timer a c H) as Hs. unfold after_full.
  destruct r.
  - destruct (stop_timer a) as [a1|], (stop_timer c) as [c1|]; try contradiction;
      apply sim_set_bpc_noage; auto.
  - pose proof H as H0. dsim H. rewrite Hbatch, Hwae.
    destruct (batch c) as [|x [|y t]] eqn:Eb.
    + constructor; unfold age_rel, age, tmr_rel in *; simpl; auto; try congruence.
      rewrite Eb. intros Hr; discriminate Hr.
    + assert (H1 : sim (set_bstart (set_bpc a BLoop) (clock a)) (set_bstart (set_bpc c BLoop) (clock c))).
      { constructor; unfold age_rel, age, tmr_rel in *; simpl; auto; try congruence.
        intros _. rewrite !Z.sub_diag. reflexivity. }
      destruct (wae c); [|exact H1].
      apply sim_start_timer; [exact H1|]. unfold age; simpl. rewrite !Z.sub_diag, Hmaxw. reflexivity.
    + constructor; unfold age_rel, age, tmr_rel in *; simpl; auto; try congruence.
      intros _. apply Hage. rewrite Eb. destruct Hb as [Hb|Hb]; rewrite Hb; reflexivity.
Qed.

Lemma sim_getc_some a c k x : sim a c -> getc a k = Some x ->
  exists y, getc c k = Some y /\ c_ctx x = c_ctx y /\ pc_sim (c_pc x) (c_pc y).
Proof.
  intros H E. pose proof (sim_getc a c k H) as Hg. rewrite E in Hg.
  destruct (getc c k) as [y|]; [|contradiction]. exists y. split; [reflexivity | exact Hg].
Qed.

Lemma pc_sim_in_select p q : pc_sim p q -> in_select p = in_select q.
Proof. unfold pc_sim. destruct p, q; simpl; intros H; try discriminate H; reflexivity. Qed.

Lemma sim_set_bpc_infull a c : sim a c -> bpc_ c = BFull -> sim (set_bpc a BInFull) (set_bpc c BInFull).
Proof.
  intros H Hb. dsim H. constructor; unfold age_rel, age, tmr_rel in *; simpl; auto.
  rewrite Hb in Hage. exact Hage.
Qed.

Lemma sim_set_bpc_nil a c p : sim a c -> batch c = [] -> sim (set_bpc a p) (set_bpc c p).
Proof.
  intros H Hb. dsim H. constructor; unfold age_rel, age, tmr_rel in *; simpl; auto.
  rewrite Hb. intros Hr; discriminate Hr.
Qed.

Lemma sim_tick a c d : sim a c -> 0 < d -> sim (set_clock a (clock a + d)) (set_clock c (clock c + d)).
Proof.
  intros H Hd. dsim H. constructor; unfold age_rel, age, tmr_rel in *; simpl; auto.
  - intros Hr. specialize (Hage Hr). lia.
  - destruct (tmr a), (tmr c); auto. lia.
Qed.

Lemma sim_timer_set a c t : sim a c -> (forall d, t <> TmArmed d) -> sim (set_tmr a t) (set_tmr c t).
Proof.
  intros H Ht. dsim H. constructor; unfold age_rel, age, tmr_rel in *; simpl; auto.
  destruct t; auto. exfalso. eapply Ht; reflexivity.
Qed.

Lemma sim_set_tc a c x : sim a c -> sim (set_tc a x) (set_tc c x).
Proof. intros H. sim_triv H. Qed.

Lemma sim_recv_item a c v : sim a c -> bpc_ c = BLoop ->
  sim (set_bpc (set_batch a (batch c ++ [v])) BFull) (set_bpc (set_batch c (batch c ++ [v])) BFull).
Proof.
  intros H Hb. dsim H. constructor; unfold age_rel, age, tmr_rel in *; simpl; auto.
  rewrite Hb in Hage. destruct (batch c) as [|x [|y t]]; simpl; auto; try (intros Hr; discriminate Hr).
Qed.

Lemma sim_stop_on_exit a c : sim a c ->
  sim (set_tmr a (stop_on_exit (tmr a))) (set_tmr c (stop_on_exit (tmr c))).
Proof.
  intros H. dsim H. constructor; unfold age_rel, age, tmr_rel in *; simpl; auto.
  destruct (tmr a), (tmr c); simpl; auto.
Qed.

(* ====================================================================== *)
(* Part 2: [step] respects [sim]                                           *)
(* ====================================================================== *)

Ltac sim_auto :=
  repeat first
    [ assumption
    | apply sim_set_srcq | apply sim_set_fulltok | apply sim_set_ctxs | apply sim_set_bgdone
    | apply sim_set_ppc | apply sim_set_perr | apply sim_set_cclosed | apply sim_set_wae
    | apply sim_set_bclosed | apply sim_set_wg | apply sim_set_kpc | apply sim_set_src
    | apply sim_set_srcres | apply sim_set_delivered | apply sim_set_lostb | apply sim_set_lostp
    | apply sim_set_nclose | apply sim_set_ann | apply sim_set_stale | apply sim_setc
    | apply sim_set_batch_nil | apply sim_set_tc
    | (apply sim_set_bpc_noage; [reflexivity|]) ].

Ltac getc_cases a c k H0 Hs x y Hcx Hpc :=
  let Ea := fresh "Ea" in let Ec := fresh "Ec" in
  destruct (getc a k) as [x|] eqn:Ea; [|discriminate Hs];
  destruct (sim_getc_some a c k x H0 Ea) as [y [Ec [Hcx Hpc]]];
  rewrite Ec.

Lemma step_sim a c l a' : sim a c -> step a l = Some a' -> exists c', step c l = Some c' /\ sim a' c'.
Proof.
  intros H Hs. pose proof H as H0. dsim H.
  destruct l; simpl in Hs |- *;
    rewrite ?Hmaxw, ?Hmode, ?Hsrcq, ?Hfull, ?Hctxs, ?Hbg, ?Hppc, ?Hperr, ?Hcc, ?Hbpc, ?Hbatch,
      ?Htc, ?Hwae, ?Hbc, ?Hwg, ?Hkpc in Hs;
    try (brk Hs; eexists; (split; [reflexivity|]); sim_auto; fail).
  - (* LFullEnter *)
    brk Hs. eexists; split; [reflexivity|]. apply sim_set_bpc_infull; assumption.
  - (* LFullExit *)
    brk Hs; (eexists; split; [reflexivity|]); apply sim_after_full; sim_auto; right; assumption.
  - (* LCallNext *)
    getc_cases a c k H0 Hs x0 y Hcx Hpc. unfold pc_sim in Hpc.
    destruct (c_pc x0), (c_pc y); try discriminate Hs; try discriminate Hpc.
    inversion Hs; subst. eexists; split; [reflexivity|]. sim_auto.
  - (* LRetNext *)
    getc_cases a c k H0 Hs x0 y Hcx Hpc. unfold pc_sim in Hpc.
    destruct (c_pc x0), (c_pc y); try discriminate Hs; try discriminate Hpc.
    inversion Hpc; subst. destruct (cres_eqb r r1); [|discriminate Hs].
    inversion Hs; subst. eexists; split; [reflexivity|]. sim_auto.
  - (* LTick *)
    destruct (0 <? d) eqn:Ed; [|discriminate Hs]. inversion Hs; subst.
    eexists; split; [reflexivity|]. apply sim_tick; [exact H0 | apply Z.ltb_lt; exact Ed].
  - (* TTimerFire *)
    unfold tmr_rel in Htmr.
    destruct (tmr a) as [| |da|] eqn:Eta; try discriminate Hs.
    destruct (tmr c) as [| |dc|] eqn:Etc; try contradiction.
    destruct (da <=? clock a) eqn:Ea; [|discriminate Hs]. inversion Hs; subst.
    apply Z.leb_le in Ea.
    assert (Ec : (dc <=? clock c) = true) by (apply Z.leb_le; lia).
    rewrite Ec. eexists; split; [reflexivity|].
    apply sim_timer_set; [exact H0 | intros d; discriminate].
  - (* TRecvItem *)
    brk Hs. eexists; split; [reflexivity|].
    apply (sim_recv_item (set_ppc a PStart) (set_ppc c PStart)); [sim_auto | assumption].
  - (* TFullEval *)
    brk Hs. eexists; split; [reflexivity|]. apply sim_after_full; [exact H0 | left; assumption].
  - (* TTimerArm *)
    unfold tmr_rel in Htmr.
    destruct (bpc_ c) eqn:Eb; try discriminate Hs.
    destruct (tmr a) eqn:Eta; try discriminate Hs.
    destruct (tmr c) eqn:Etc; try contradiction.
    destruct (tc c) eqn:Etcc; [|discriminate Hs]. inversion Hs; subst.
    eexists; split; [reflexivity|]. sim_auto.
    apply sim_timer_set; [exact H0 | intros d; discriminate].
  - (* TRecvWaiting *)
    destruct (bpc_ c) eqn:Eb; try discriminate Hs.
    getc_cases a c k H0 Hs x0 y Hcx Hpc. unfold pc_sim in Hpc.
    destruct (c_pc x0), (c_pc y); try discriminate Hs; try discriminate Hpc.
    assert (H1 : sim (set_ann (setc a k CInner) true) (set_ann (setc c k CInner) true)) by sim_auto.
    destruct (batch c) as [|b0 bt] eqn:Ebt.
    + inversion Hs; subst. eexists; split; [reflexivity|]. sim_auto.
    + assert (Hag : Z.min (age a) (maxw c + 1) = Z.min (age c) (maxw c + 1)).
      { apply Hage. unfold age_rel. rewrite Ebt, Eb. destruct bt; reflexivity. }
      unfold age in Hag.
      destruct (maxw c <? clock a - bstart a) eqn:Eo.
      * apply Z.ltb_lt in Eo.
        assert (Eo' : (maxw c <? clock c - bstart c) = true) by (apply Z.ltb_lt; lia).
        rewrite Eo'. pose proof (sim_stop_timer _ _ H1) as Hst.
        destruct (stop_timer (set_ann (setc a k CInner) true)) as [a2|];
          destruct (stop_timer (set_ann (setc c k CInner) true)) as [c2|]; try contradiction;
          inversion Hs; subst; (eexists; split; [reflexivity|]); sim_auto.
      * apply Z.ltb_ge in Eo.
        assert (Eo' : (maxw c <? clock c - bstart c) = false) by (apply Z.ltb_ge; lia).
        rewrite Eo'. inversion Hs; subst. eexists; split; [reflexivity|].
        apply sim_start_timer; [exact H1|].
        unfold age, setc. destruct (getc a k), (getc c k); simpl; lia.
  - (* TFlushSend *)
    destruct (bpc_ c) eqn:Eb; try discriminate Hs.
    getc_cases a c k H0 Hs x0 y Hcx Hpc. rewrite <- (pc_sim_in_select _ _ Hpc).
    destruct (in_select (c_pc x0)); [|discriminate Hs]. inversion Hs; subst.
    eexists; split; [reflexivity|].
    apply sim_set_bpc_nil; [sim_auto | reflexivity].
  - (* TCloseBatchC *)
    brk Hs. eexists; split; [reflexivity|]. sim_auto. apply sim_stop_on_exit; exact H0.
  - (* TConsClosed *)
    getc_cases a c k H0 Hs x0 y Hcx Hpc. rewrite <- (pc_sim_in_select _ _ Hpc).
    destruct (in_select (c_pc x0) && bclosed c); [|discriminate Hs]. inversion Hs; subst.
    eexists; split; [reflexivity|]. sim_auto.
  - (* TConsCtx *)
    getc_cases a c k H0 Hs x0 y Hcx Hpc. rewrite <- (pc_sim_in_select _ _ Hpc).
    assert (Ecd : ctx_done a (c_ctx x0) = ctx_done c (c_ctx y))
      by (unfold ctx_done; rewrite Hctxs, Hcx; reflexivity).
    rewrite <- Ecd.
    destruct (in_select (c_pc x0) && ctx_done a (c_ctx x0)); [|discriminate Hs]. inversion Hs; subst.
    eexists; split; [reflexivity|]. sim_auto.
Qed.

(* [sim] is symmetric, so the two states have the same enabled labels *)
Lemma enabled_sim a c l : sim a c -> enabled a l = enabled c l.
Proof.
  intros H. unfold enabled.
  destruct (step a l) as [a'|] eqn:Ea.
  - destruct (step_sim a c l a' H Ea) as [c' [Ec _]]. rewrite Ec. reflexivity.
  - destruct (step c l) as [c'|] eqn:Ec; [|reflexivity].
    destruct (step_sim c a l c' (sim_sym _ _ H) Ec) as [a' [Ea' _]]. congruence.
Qed.

Lemma lib_tau_labels_sim a c : sim a c -> lib_tau_labels a = lib_tau_labels c.
Proof.
  intros H. dsim H. unfold lib_tau_labels.
  assert (El : length (cons a) = length (cons c)).
  { rewrite <- (map_length norm_consumer (cons a)), Hcons. apply map_length. }
  rewrite El, Hctxs. reflexivity.
Qed.

Lemma lib_visible_sim a c : sim a c -> lib_visible a = lib_visible c.
Proof.
  intros H. pose proof H as H0. dsim H. unfold lib_visible.
  assert (El : length (cons a) = length (cons c)).
  { rewrite <- (map_length norm_consumer (cons a)), Hcons. apply map_length. }
  rewrite El, Hbatch, Hsrcq. f_equal. f_equal.
  apply flat_map_ext. intros k. pose proof (sim_getc a c k H0) as Hg.
  destruct (getc a k) as [x|], (getc c k) as [y|]; try contradiction; [|reflexivity].
  destruct Hg as [_ Hpc]. unfold pc_sim in Hpc.
  destruct (c_pc x), (c_pc y); try discriminate Hpc; try reflexivity.
  inversion Hpc; reflexivity.
Qed.

Lemma quiescent_sim a c : sim a c -> quiescent a = quiescent c.
Proof.
  intros H. unfold quiescent.
  rewrite (lib_tau_labels_sim a c H), (lib_visible_sim a c H).
  rewrite (existsb_ext_in (enabled a) (enabled c) (lib_tau_labels c)) by (intros; apply enabled_sim; exact H).
  rewrite (existsb_ext_in (enabled a) (enabled c) (lib_visible c)) by (intros; apply enabled_sim; exact H).
  f_equal. f_equal. dsim H. unfold timer_armed, tmr_rel in *.
  destruct (tmr a), (tmr c); try contradiction; reflexivity.
Qed.

Lemma qstep_sim a c l a' : sim a c -> qstep a l = Some a' -> exists c', qstep c l = Some c' /\ sim a' c'.
Proof.
  intros H Hq. destruct (qstep_step _ _ _ Hq) as [[-> ->]|Hs].
  - simpl in Hq |- *. rewrite <- (quiescent_sim a c H).
    destruct (quiescent a); [|discriminate Hq]. exists c. split; [reflexivity | exact H].
  - destruct (step_sim a c l a' H Hs) as [c' [Ec Hc]]. exists c'. split; [|exact Hc].
    destruct l; try exact Ec. simpl in Hs. discriminate Hs.
Qed.

(* ====================================================================== *)
(* Part 3: [view] picks a representative of the [sim]-class                *)
(* ====================================================================== *)

Lemma norm_consumer_idem x : norm_consumer (norm_consumer x) = norm_consumer x.
Proof. destruct x as [cx px]. unfold norm_consumer. simpl. destruct px; reflexivity. Qed.

Lemma view_sim s : noreq s -> sim (view s) s.
Proof.
  intros Hn. unfold noreq in Hn. constructor; simpl; try reflexivity.
  - exact Hn.
  - rewrite map_map. apply map_ext. intros x. apply norm_consumer_idem.
  - unfold age_rel, age. simpl. destruct (batch s) as [|x t]; [intros Hr; discriminate Hr|].
    intros _. lia.
  - unfold tmr_rel. simpl. destruct (tmr s); auto. lia.
Qed.

Lemma sim_trans a b c : sim a b -> sim b c -> sim a c.
Proof.
  intros H1 H2. destruct H1 as [A1 A2 A3 A4 A5 A6 A7 A8 A9 A10 A11 A12 A13 A14 A15 A16 A17 A18 A19].
  dsim H2. constructor; try congruence.
  - intros Hr. rewrite <- (Hage Hr), <- Hmaxw. apply A18.
    unfold age_rel in *. rewrite Hbatch, Hbpc. exact Hr.
  - unfold tmr_rel in *. destruct (tmr a), (tmr b), (tmr c); try contradiction; auto. congruence.
Qed.

Lemma noreq_ctxs a c : ctxs a = ctxs c -> noreq c -> noreq a.
Proof. unfold noreq. intros ->. auto. Qed.

(* ====================================================================== *)
(* Part 4: every run of the matcher's system [vstep] is matched by a run   *)
(* of the model [qstep] with the same visible trace                        *)
(* ====================================================================== *)

Definition batch_trace : list lab -> list lab := trace lab lab vis.

Lemma nth_error_noreq l k : map fin l = l -> nth_error l k <> Some XReq.
Proof.
  intros E Hk. assert (E' : nth_error (map fin l) k = Some XReq) by (rewrite E; exact Hk).
  rewrite nth_error_map, Hk in E'. discriminate E'.
Qed.

(* only the two cancellation labels write the contexts *)
Lemma ctxs_stop s s1 : stop_timer s = Some s1 -> ctxs s1 = ctxs s.
Proof.
  unfold stop_timer.
  destruct (tmr s); [| destruct (tc s) | | destruct (tc s)]; intros E; inversion E; reflexivity.
Qed.

Lemma ctxs_start s : ctxs (start_timer s) = ctxs s.
Proof.
  unfold start_timer. destruct (stop_timer s) as [s1|] eqn:E; simpl; [|reflexivity].
  apply (ctxs_stop _ _ E).
Qed.

Lemma ctxs_after_full s r : ctxs (after_full s r) = ctxs s.
Proof.
  unfold after_full. destruct r.
  - destruct (stop_timer s) as [s1|] eqn:E; simpl; [|reflexivity]. apply (ctxs_stop _ _ E).
  - destruct (batch s) as [|x [|y t]]; try reflexivity.
    destruct (wae s); [|reflexivity]. rewrite ctxs_start. reflexivity.
Qed.

Lemma ctxs_setc s k p : ctxs (setc s k p) = ctxs s.
Proof. unfold setc. destruct (getc s k); reflexivity. Qed.

Lemma step_ctxs c l c' : step c l = Some c' ->
  (forall k, l <> LCancel k) -> (forall k, l <> TCancelEff k) -> ctxs c' = ctxs c.
Proof.
  intros H N1 N2.
  destruct l; simpl in H;
    try (exfalso; eapply N1; reflexivity); try (exfalso; eapply N2; reflexivity);
    brk H; simpl; rewrite ?ctxs_after_full, ?ctxs_start, ?ctxs_setc; simpl;
    rewrite ?ctxs_setc; try reflexivity.
  match goal with E : stop_timer _ = Some _ |- _ => rewrite (ctxs_stop _ _ E) end.
  simpl. apply ctxs_setc.
Qed.

Lemma step_noreq c l c' : step c l = Some c' -> (forall k, l <> LCancel k) -> noreq c -> noreq c'.
Proof.
  intros H N1 Hn. unfold noreq in *.
  destruct (match l with TCancelEff _ => true | _ => false end) eqn:El.
  - destruct l; try discriminate El. simpl in H.
    destruct (nth_error (ctxs c) c0) as [[| |]|] eqn:Ek; try discriminate H.
    exfalso. exact (nth_error_noreq _ _ Hn Ek).
  - rewrite (step_ctxs c l c' H N1); [exact Hn|]. intros k ->. discriminate El.
Qed.

(* one step of the matcher's system; a requested cancellation is completed at once in the model *)
Lemma vstep_sim a c l a' : sim a c -> noreq c -> vstep a l = Some a' ->
  exists ls c', run qstep c ls = Some c' /\ batch_trace ls = batch_trace [l] /\ sim a' c' /\ noreq c'.
Proof.
  intros H Hn Hv. unfold vstep in Hv.
  destruct (qstep a l) as [a1|] eqn:Hq; [|discriminate Hv]. inversion Hv; subst a'. clear Hv.
  assert (Hna : noreq a) by (apply (noreq_ctxs a c); [apply (s_ctxs _ _ H) | exact Hn]).
  destruct (match l with LCancel _ => true | _ => false end) eqn:El.
  - destruct l as [| | | | | | | | |k| | | | | | | | | | | | | | | | | | | | | |]; try discriminate El.
    simpl in Hq.
    destruct (nth_error (ctxs a) k) as [x|] eqn:Ek; [|discriminate Hq].
    assert (Ekc : nth_error (ctxs c) k = Some x) by (rewrite <- (s_ctxs _ _ H); exact Ek).
    destruct x.
    + (* XLive: LCancel k; TCancelEff k *)
      inversion Hq; subst a1. clear Hq.
      assert (Hlt : (k < length (ctxs c))%nat) by (apply nth_error_Some; congruence).
      exists [LCancel k; TCancelEff k], (set_ctxs c (upd (ctxs c) k XDone)).
      split; [|split; [reflexivity|split]].
      * simpl. rewrite Ekc. simpl. rewrite (nth_error_upd_same _ _ _ Hlt), upd_upd. reflexivity.
      * assert (Ev : view (set_ctxs a (upd (ctxs a) k XReq)) = view (set_ctxs a (upd (ctxs a) k XDone))).
        { unfold view. simpl. rewrite !map_upd. reflexivity. }
        rewrite Ev.
        assert (Hn2 : noreq (set_ctxs a (upd (ctxs a) k XDone))).
        { unfold noreq in *. simpl. rewrite map_upd, Hna. reflexivity. }
        apply (sim_trans _ _ _ (view_sim _ Hn2)).
        rewrite (s_ctxs _ _ H). apply sim_set_ctxs. exact H.
      * unfold noreq in *. simpl. rewrite map_upd, Hn. reflexivity.
    + exfalso. exact (nth_error_noreq _ _ Hna Ek).
    + inversion Hq; subst a1. exists [LCancel k], c. split; [|split; [reflexivity|split]].
      * simpl. rewrite Ekc. reflexivity.
      * apply (sim_trans _ _ _ (view_sim _ Hna)). exact H.
      * exact Hn.
  - destruct (qstep_sim a c l a1 H Hq) as [c1 [Hc1 Hs1]].
    assert (Hn1 : noreq c1).
    { destruct (qstep_step _ _ _ Hc1) as [[_ ->]|Hst]; [exact Hn|].
      apply (step_noreq c l c1 Hst); [|exact Hn]. intros k ->. discriminate El. }
    exists [l], c1. split; [|split; [reflexivity|split]].
    + simpl. rewrite Hc1. reflexivity.
    + assert (Hna1 : noreq a1) by (apply (noreq_ctxs a1 c1); [apply (s_ctxs _ _ Hs1) | exact Hn1]).
      apply (sim_trans _ _ _ (view_sim _ Hna1)). exact Hs1.
    + exact Hn1.
Qed.

Lemma vrun_sim ls : forall a c a', sim a c -> noreq c -> run vstep a ls = Some a' ->
  exists ls' c', run qstep c ls' = Some c' /\ batch_trace ls' = batch_trace ls /\ sim a' c' /\ noreq c'.
Proof.
  induction ls as [|l ls IH]; intros a c a' H Hn Hr; simpl in Hr.
  - inversion Hr; subst a'. exists [], c. split; [reflexivity|]. split; [reflexivity|]. split; assumption.
  - destruct (vstep a l) as [a1|] eqn:Hv; [|discriminate Hr].
    destruct (vstep_sim a c l a1 H Hn Hv) as [ls1 [c1 [Hr1 [Ht1 [Hs1 Hn1]]]]].
    destruct (IH a1 c1 a' Hs1 Hn1 Hr) as [ls2 [c2 [Hr2 [Ht2 [Hs2 Hn2]]]]].
    exists (ls1 ++ ls2), c2. split; [|split; [|split; assumption]].
    + rewrite run_app, Hr1. exact Hr2.
    + unfold batch_trace in *. rewrite trace_app, Ht1, Ht2.
      change (l :: ls) with ([l] ++ ls). rewrite trace_app. reflexivity.
Qed.

Lemma noreq_init mw m calls nctx : noreq (init mw m calls nctx).
Proof.
  unfold noreq. simpl. induction nctx as [|n IH]; simpl; [reflexivity|]. rewrite IH. reflexivity.
Qed.

(* ====================================================================== *)
(* Part 5: SOUNDNESS of [accepts_history]                                  *)
(* ====================================================================== *)

Lemma list_eqb_spec {A} (eqb : A -> A -> bool) :
  (forall x y, eqb x y = true <-> x = y) ->
  forall a b, list_eqb eqb a b = true <-> a = b.
Proof.
  intros Hspec a. induction a as [|x a IH]; intros [|y b]; simpl.
  - split; reflexivity.
  - split; discriminate.
  - split; discriminate.
  - rewrite andb_true_iff, Hspec, IH. split.
    + intros [Hx Ha]. subst. reflexivity.
    + intros H. inversion H. split; reflexivity.
Qed.

Lemma listZ_eqb_spec (a b : list Z) : list_eqb Z.eqb a b = true <-> a = b.
Proof. apply list_eqb_spec. intros x y. apply Z.eqb_eq. Qed.

Lemma bool_eqb_spec a b : Bool.eqb a b = true <-> a = b.
Proof. split; [apply Bool.eqb_prop | intros ->; apply Bool.eqb_reflx]. Qed.

Lemma tok_eqb_spec a b : tok_eqb a b = true <-> a = b.
Proof.
  destruct a, b; simpl; rewrite ?Z.eqb_eq; split; intros H;
    try discriminate H; try reflexivity; try (inversion H; reflexivity); subst; reflexivity.
Qed.

Lemma sres_eqb_spec a b : sres_eqb a b = true <-> a = b.
Proof.
  destruct a, b; simpl; rewrite ?Z.eqb_eq; split; intros H;
    try discriminate H; try reflexivity; try (inversion H; reflexivity); subst; reflexivity.
Qed.

Lemma cres_eqb_spec a b : cres_eqb a b = true <-> a = b.
Proof.
  destruct a, b; simpl; rewrite ?Z.eqb_eq, ?listZ_eqb_spec; split; intros H;
    try discriminate H; try reflexivity; try (inversion H; reflexivity); subst; reflexivity.
Qed.

(* [lab_eqb] never confuses two labels (visible or not) *)
Lemma batch_lab_eqb_sound a b : lab_eqb a b = true -> a = b.
Proof.
  destruct a, b; simpl; intros H; try discriminate H; try reflexivity;
    try (apply tok_eqb_spec in H; subst; reflexivity);
    try (apply sres_eqb_spec in H; subst; reflexivity);
    try (apply listZ_eqb_spec in H; subst; reflexivity);
    try (apply Bool.eqb_prop in H; subst; reflexivity);
    try (apply Nat.eqb_eq in H; subst; reflexivity).
  apply andb_true_iff in H. destruct H as [H1 H2].
  apply Nat.eqb_eq in H1. apply cres_eqb_spec in H2. subst. reflexivity.
Qed.

(* whatever the matcher accepts is the visible trace of a run of its own system [vstep] *)
Lemma batch_accepts_vrun mw m calls nctx evs :
  accepts_history mw m calls nctx evs = true ->
  exists ls s, run vstep (init mw m calls nctx) ls = Some s /\ batch_trace ls = evs.
Proof.
  unfold accepts_history, batch_trace.
  apply (accepts_sound st lab lab vstep vis lab_eqb st_eqb tau_labels (fun _ e => [e])
           batch_lab_eqb_sound).
Qed.

(* SOUNDNESS (unconditional): an accepted history is the visible trace of a run of the
   UNREDUCED model [qstep] (all ghost fields, absolute time, two-phase cancellation) from [init] *)
Theorem batch_accepts_sound mw m calls nctx evs :
  accepts_history mw m calls nctx evs = true ->
  exists ls s, run qstep (init mw m calls nctx) ls = Some s /\ batch_trace ls = evs.
Proof.
  intros Hacc. destruct (batch_accepts_vrun _ _ _ _ _ Hacc) as [ls [a [Hr Ht]]].
  destruct (vrun_sim ls _ _ a (sim_refl _) (noreq_init mw m calls nctx) Hr)
    as [ls' [c' [Hr' [Ht' _]]]].
  exists ls', c'. split; [exact Hr' | rewrite Ht'; exact Ht].
Qed.

(* the same for the set of states the matcher holds after the history: each of them is the
   [sim]-image of a state the model can be in *)
Theorem batch_states_after_sound mw m calls nctx evs a :
  In a (states_after vstep vis lab_eqb st_eqb tau_labels (fun _ e => [e]) fuel
          (close vstep vis st_eqb tau_labels fuel [init mw m calls nctx]) evs) ->
  exists ls c, run qstep (init mw m calls nctx) ls = Some c /\ batch_trace ls = evs /\ sim a c.
Proof.
  intros Hin.
  destruct (states_after_sound st lab lab vstep vis lab_eqb st_eqb tau_labels (fun _ e => [e])
              batch_lab_eqb_sound fuel _ evs a Hin) as [ls [Hr Ht]].
  destruct (vrun_sim ls _ _ a (sim_refl _) (noreq_init mw m calls nctx) Hr)
    as [ls' [c' [Hr' [Ht' [Hs _]]]]].
  exists ls', c'. split; [exact Hr'|]. split; [rewrite Ht'; exact Ht | exact Hs].
Qed.

(* ====================================================================== *)
(* Part 6: COMPLETENESS, first half: the quotient loses no history.        *)
(* Every run of the model [qstep] is matched by a run of the matcher's     *)
(* system [vstep] (any labels, any tick amounts) with the same trace.      *)
(* The vstep run is "ahead" in cancellations: it holds XDone where the     *)
(* model still holds XReq ([fincomp]).                                     *)
(* ====================================================================== *)

Definition fincomp (s : st) : st := set_ctxs s (map fin (ctxs s)).

Lemma fin_idem x : fin (fin x) = fin x.
Proof. destruct x; reflexivity. Qed.

Lemma map_fin_idem l : map fin (map fin l) = map fin l.
Proof. rewrite map_map. apply map_ext. exact fin_idem. Qed.

Lemma noreq_fincomp s : noreq (fincomp s).
Proof. unfold noreq, fincomp. simpl. apply map_fin_idem. Qed.

Lemma sim_fincomp_noreq s : noreq s -> sim (fincomp s) s.
Proof.
  intros Hn. unfold noreq in Hn. constructor; simpl; try reflexivity.
  - exact Hn.
  - unfold tmr_rel. simpl. destruct (tmr s); auto.
Qed.

Lemma view_fincomp s : sim (view s) (fincomp s).
Proof.
  constructor; simpl; try reflexivity.
  - rewrite map_map. apply map_ext. intros x. apply norm_consumer_idem.
  - unfold age_rel, age. simpl. destruct (batch s) as [|x t]; [intros Hr; discriminate Hr|].
    intros _. lia.
  - unfold tmr_rel. simpl. destruct (tmr s); auto. lia.
Qed.

Lemma sim_fincomp_cong a d : sim a d -> sim (fincomp a) (fincomp d).
Proof. intros H. unfold fincomp. rewrite (s_ctxs _ _ H). apply sim_set_ctxs. exact H. Qed.

Lemma upd_same_val {A} (l : list A) k x : nth_error l k = Some x -> upd l k x = l.
Proof.
  revert k; induction l as [|h t IH]; intros [|k] H; simpl in *; try discriminate H.
  - inversion H; reflexivity.
  - rewrite (IH k H). reflexivity.
Qed.

(* ---- no transition other than the cancellation labels and TConsCtx reads the contexts ---- *)
Lemma stop_timer_ctxs s X :
  stop_timer (set_ctxs s X) = option_map (fun s1 => set_ctxs s1 X) (stop_timer s).
Proof.
  unfold stop_timer; simpl. destruct (tmr s); [| destruct (tc s) | | destruct (tc s)]; reflexivity.
Qed.

Lemma start_timer_ctxs s X : start_timer (set_ctxs s X) = set_ctxs (start_timer s) X.
Proof. unfold start_timer. rewrite stop_timer_ctxs. destruct (stop_timer s); reflexivity. Qed.

Lemma after_full_ctxs s r X : after_full (set_ctxs s X) r = set_ctxs (after_full s r) X.
Proof.
  unfold after_full. rewrite stop_timer_ctxs. destruct r.
  - destruct (stop_timer s); reflexivity.
  - simpl. destruct (batch s) as [|x [|y t]]; try reflexivity.
    destruct (wae s); [|reflexivity].
    exact (start_timer_ctxs (set_bstart (set_bpc s BLoop) (clock s)) X).
Qed.

Lemma setc_ctxs s k p X : setc (set_ctxs s X) k p = set_ctxs (setc s k p) X.
Proof. unfold setc, getc. simpl. destruct (nth_error (cons s) k); reflexivity. Qed.

Definition reads_ctxs (l : lab) : bool :=
  match l with LCancel _ | TCancelEff _ | TConsCtx _ => true | _ => false end.

Lemma step_frame_ctxs c l X : reads_ctxs l = false ->
  step (set_ctxs c X) l = option_map (fun c' => set_ctxs c' X) (step c l).
Proof.
  intros Hl. destruct l; try discriminate Hl; simpl;
    rewrite ?after_full_ctxs, ?start_timer_ctxs, ?setc_ctxs, ?stop_timer_ctxs;
    unfold getc; simpl;
    try match goal with
        | |- context [stop_timer (set_ann (set_ctxs ?S ?Y) true)] =>
            change (set_ann (set_ctxs S Y) true) with (set_ctxs (set_ann S true) Y);
            rewrite stop_timer_ctxs; destruct (stop_timer (set_ann S true)); simpl
        end;
    goal_cases; simpl in *; try reflexivity; try congruence;
    match goal with
    | |- Some _ = Some (set_ctxs (after_full ?s ?r) ?Y) => exact (f_equal Some (after_full_ctxs s r Y))
    | |- Some _ = Some (set_ctxs (setc ?s ?k ?p) ?Y) => exact (f_equal Some (setc_ctxs s k p Y))
    | |- Some _ = Some (set_ctxs (start_timer ?s) ?Y) => exact (f_equal Some (start_timer_ctxs s Y))
    end.
Qed.

(* a transition of the model is a transition of the state with all requested cancellations
   completed, except TCancelEff itself (which that state has already done) *)
Lemma fstep c l c' : step c l = Some c' -> (forall k, l <> TCancelEff k) ->
  exists d, step (fincomp c) l = Some d /\ sim (fincomp d) (fincomp c').
Proof.
  intros H N.
  destruct (reads_ctxs l) eqn:Hl.
  - destruct l; try discriminate Hl.
    + (* LCancel *)
      simpl in H |- *. rewrite nth_error_map.
      destruct (nth_error (ctxs c) c0) as [[| |]|] eqn:Ek; simpl; try discriminate H;
        inversion H; subst c'; eexists; (split; [reflexivity|]).
      * unfold fincomp. simpl. rewrite !map_upd, map_fin_idem. simpl. apply sim_refl.
      * apply sim_fincomp_noreq. apply noreq_fincomp.
      * apply sim_fincomp_noreq. apply noreq_fincomp.
    + (* TConsCtx *)
      simpl in H |- *. unfold getc in *. simpl.
      destruct (nth_error (cons c) k) as [x|] eqn:Ex; [|discriminate H].
      destruct (in_select (c_pc x)); [|discriminate H]. simpl in H |- *.
      unfold ctx_done in *. simpl. rewrite nth_error_map.
      destruct (nth_error (ctxs c) (c_ctx x)) as [[| |]|]; try discriminate H. simpl.
      inversion H; subst c'. eexists; split; [reflexivity|].
      change (fincomp c) with (set_ctxs c (map fin (ctxs c))). rewrite setc_ctxs.
      rewrite <- (ctxs_setc c k (CRet CCtx)).
      apply (sim_fincomp_noreq (fincomp (setc c k (CRet CCtx)))). apply noreq_fincomp.
    + exfalso. eapply N; reflexivity.
  - unfold fincomp at 1. rewrite (step_frame_ctxs c l _ Hl), H. simpl.
    eexists; split; [reflexivity|].
    assert (Ec : ctxs c' = ctxs c).
    { apply (step_ctxs c l c' H); intros k ->; discriminate Hl. }
    rewrite <- Ec. apply (sim_fincomp_noreq (fincomp c')). apply noreq_fincomp.
Qed.

Lemma noreq_nth l : (forall k, nth_error l k <> Some XReq) -> map fin l = l.
Proof.
  induction l as [|x t IH]; intros H; simpl; [reflexivity|].
  rewrite IH; [|intros k; exact (H (S k))].
  destruct x; try reflexivity. exfalso. exact (H O eq_refl).
Qed.

(* a quiescent state has no cancellation half-way *)
Lemma quiescent_noreq c : quiescent c = true -> noreq c.
Proof.
  intros Hq. unfold noreq. apply noreq_nth. intros k Hk.
  unfold quiescent in Hq. apply andb_true_iff in Hq. destruct Hq as [Hq _].
  apply andb_true_iff in Hq. destruct Hq as [Hq _].
  apply negb_true_iff in Hq.
  assert (Ht : existsb (enabled c) (lib_tau_labels c) = true); [|congruence].
  apply existsb_exists. exists (TCancelEff k). split.
  - unfold lib_tau_labels. apply in_or_app. right. apply in_or_app. right.
    apply in_map. apply in_seq. split; [apply Nat.le_0_l|]. simpl.
    apply nth_error_Some. congruence.
  - unfold enabled. simpl. rewrite Hk. reflexivity.
Qed.

Lemma qstep_vsim a c l c' : sim a (fincomp c) -> qstep c l = Some c' ->
  exists ls a', run vstep a ls = Some a' /\ batch_trace ls = batch_trace [l] /\ sim a' (fincomp c').
Proof.
  intros H Hq.
  destruct (qstep_step _ _ _ Hq) as [[-> ->]|Hs].
  - (* LQuiesce *)
    simpl in Hq. destruct (quiescent c) eqn:Eq; [|discriminate Hq].
    pose proof (quiescent_noreq c Eq) as Hn.
    assert (Hac : sim a c) by (apply (sim_trans _ _ _ H); apply sim_fincomp_noreq; exact Hn).
    exists [LQuiesce], (view a). split; [|split; [reflexivity|]].
    + simpl. unfold vstep. simpl. rewrite (quiescent_sim a c Hac), Eq. reflexivity.
    + apply (sim_trans _ _ _ (view_fincomp a)). apply sim_fincomp_cong. exact Hac.
  - destruct (match l with TCancelEff _ => true | _ => false end) eqn:El.
    + (* TCancelEff: the matcher's state has done it already *)
      destruct l; try discriminate El. simpl in Hs.
      destruct (nth_error (ctxs c) c0) as [[| |]|] eqn:Ek; try discriminate Hs.
      inversion Hs; subst c'. exists [], a. split; [reflexivity|]. split; [reflexivity|].
      assert (E : map fin (upd (ctxs c) c0 XDone) = map fin (ctxs c)).
      { rewrite map_upd. apply upd_same_val. rewrite nth_error_map, Ek. reflexivity. }
      unfold fincomp in *. simpl. rewrite E. exact H.
    + assert (N : forall k, l <> TCancelEff k) by (intros k ->; discriminate El).
      destruct (fstep c l c' Hs N) as [d [Hd Hdc]].
      destruct (step_sim (fincomp c) a l d (sim_sym _ _ H) Hd) as [a1 [Ha1 Hs1]].
      exists [l], (view a1). split; [|split; [reflexivity|]].
      * simpl. unfold vstep.
        assert (Eq : qstep a l = Some a1).
        { destruct l; try exact Ha1. simpl in Ha1. discriminate Ha1. }
        rewrite Eq. reflexivity.
      * apply (sim_trans _ _ _ (view_fincomp a1)).
        apply (sim_trans _ (fincomp d)); [|exact Hdc].
        apply sim_fincomp_cong. apply sim_sym. exact Hs1.
Qed.

(* QUOTIENT COMPLETENESS: [view] (ghost fields, results of finished calls, absolute time,
   two-phase cancellation) loses no history *)
Theorem batch_quotient_complete mw m calls nctx ls c :
  run qstep (init mw m calls nctx) ls = Some c ->
  exists ls' a, run vstep (init mw m calls nctx) ls' = Some a /\
                batch_trace ls' = batch_trace ls /\ sim a (fincomp c).
Proof.
  assert (G : forall ls a c0 c, sim a (fincomp c0) -> run qstep c0 ls = Some c ->
            exists ls' a', run vstep a ls' = Some a' /\ batch_trace ls' = batch_trace ls /\
                           sim a' (fincomp c)).
  { clear. induction ls as [|l ls IH]; intros a c0 c H Hr; simpl in Hr.
    - inversion Hr; subst c. exists [], a. split; [reflexivity|]. split; [reflexivity | exact H].
    - destruct (qstep c0 l) as [c1|] eqn:Hq; [|discriminate Hr].
      destruct (qstep_vsim a c0 l c1 H Hq) as [ls1 [a1 [Hr1 [Ht1 Hs1]]]].
      destruct (IH a1 c1 c Hs1 Hr) as [ls2 [a2 [Hr2 [Ht2 Hs2]]]].
      exists (ls1 ++ ls2), a2. split; [|split; [|exact Hs2]].
      + rewrite run_app, Hr1. exact Hr2.
      + unfold batch_trace in *. rewrite trace_app, Ht1, Ht2.
        change (l :: ls) with ([l] ++ ls). rewrite trace_app. reflexivity. }
  intros Hr. apply (G ls (init mw m calls nctx) (init mw m calls nctx) c); [|exact Hr].
  apply sim_sym. apply sim_fincomp_noreq. apply noreq_init.
Qed.

(* ====================================================================== *)
(* Part 7: COMPLETENESS, second half: threshold ticks are enough.          *)
(* The matcher advances the clock only by the two amounts of [tick_labels] *)
(* (to the deadline of the armed timer; to just past batchStart + maxWait   *)
(* when a consumer is about to announce itself).  Every run of [vstep] with *)
(* arbitrary ticks is matched, with the same trace, by a run that uses only *)
(* those ticks and takes them as late as possible: the lazy run LAGS behind *)
(* ([lag]: its batch is at most as old, its timer has at least as long to   *)
(* go) and catches up exactly when the other run fires the timer or takes   *)
(* the overdue branch.                                                      *)
(* ====================================================================== *)

(* time left on the armed timer *)
Definition rem (s : st) : Z := match tmr s with TmArmed d => Z.max (d - clock s) 0 | _ => 0 end.

Definition tmr_shape (a c : st) : Prop :=
  match tmr a, tmr c with
  | TmArmed _, TmArmed _ | TmNone, TmNone | TmIdle, TmIdle | TmFired, TmFired => True
  | _, _ => False
  end.

Lemma rem_nonneg s : 0 <= rem s.
Proof. unfold rem. destruct (tmr s); lia. Qed.

Record lag (a b : st) : Prop := mkLag {
  l_maxw : maxw a = maxw b;
  l_mode : mode a = mode b;
  l_srcq : srcq a = srcq b;
  l_fulltok : fulltok a = fulltok b;
  l_ctxs : ctxs a = ctxs b;
  l_bgdone : bgdone a = bgdone b;
  l_ppc : ppc_ a = ppc_ b;
  l_perr : perr a = perr b;
  l_cclosed : cclosed a = cclosed b;
  l_bpc : bpc_ a = bpc_ b;
  l_batch : batch a = batch b;
  l_tc : tc a = tc b;
  l_wae : wae a = wae b;
  l_bclosed : bclosed a = bclosed b;
  l_wg : wg a = wg b;
  l_cons : map norm_consumer (cons a) = map norm_consumer (cons b);
  l_kpc : kpc_ a = kpc_ b;
  l_age : age_rel b = true -> Z.min (age a) (maxw b + 1) <= Z.min (age b) (maxw b + 1);
  l_shape : tmr_shape a b;
  l_rem : rem b <= rem a
}.

Ltac dlag H :=
  destruct H as [Hmaxw Hmode Hsrcq Hfull Hctxs Hbg Hppc Hperr Hcc Hbpc Hbatch Htc Hwae Hbc Hwg
                 Hcons Hkpc Hage Hshape Hrem].

Ltac lag_unf := unfold age_rel, age, tmr_shape, rem in *.
Ltac lag_triv H := dlag H; constructor; lag_unf; simpl; auto; try congruence.

Lemma lag_refl s : lag s s.
Proof.
  constructor; try reflexivity; lag_unf; try (intros _; lia); try lia.
  destruct (tmr s); auto.
Qed.

Lemma sim_lag a c : sim a c -> lag a c.
Proof.
  intros H. dsim H. constructor; auto; unfold tmr_rel in Htmr; lag_unf.
  - intros Hr. specialize (Hage Hr). unfold age in Hage. lia.
  - destruct (tmr a), (tmr c); auto.
  - destruct (tmr a), (tmr c); try contradiction; lia.
Qed.

(* ---- setters ---- *)
Lemma lag_set_srcq a c x : lag a c -> lag (set_srcq a x) (set_srcq c x).
Proof. intros H. lag_triv H. Qed.
Lemma lag_set_fulltok a c x : lag a c -> lag (set_fulltok a x) (set_fulltok c x).
Proof. intros H. lag_triv H. Qed.
Lemma lag_set_ctxs a c x : lag a c -> lag (set_ctxs a x) (set_ctxs c x).
Proof. intros H. lag_triv H. Qed.
Lemma lag_set_bgdone a c x : lag a c -> lag (set_bgdone a x) (set_bgdone c x).
Proof. intros H. lag_triv H. Qed.
Lemma lag_set_ppc a c x : lag a c -> lag (set_ppc a x) (set_ppc c x).
Proof. intros H. lag_triv H. Qed.
Lemma lag_set_perr a c x : lag a c -> lag (set_perr a x) (set_perr c x).
Proof. intros H. lag_triv H. Qed.
Lemma lag_set_cclosed a c x : lag a c -> lag (set_cclosed a x) (set_cclosed c x).
Proof. intros H. lag_triv H. Qed.
Lemma lag_set_wae a c x : lag a c -> lag (set_wae a x) (set_wae c x).
Proof. intros H. lag_triv H. Qed.
Lemma lag_set_bclosed a c x : lag a c -> lag (set_bclosed a x) (set_bclosed c x).
Proof. intros H. lag_triv H. Qed.
Lemma lag_set_wg a c x : lag a c -> lag (set_wg a x) (set_wg c x).
Proof. intros H. lag_triv H. Qed.
Lemma lag_set_kpc a c x : lag a c -> lag (set_kpc a x) (set_kpc c x).
Proof. intros H. lag_triv H. Qed.
Lemma lag_set_tc a c x : lag a c -> lag (set_tc a x) (set_tc c x).
Proof. intros H. lag_triv H. Qed.
Lemma lag_set_src a c x y : lag a c -> lag (set_src a x) (set_src c y).
Proof. intros H. lag_triv H. Qed.
Lemma lag_set_srcres a c x y : lag a c -> lag (set_srcres a x) (set_srcres c y).
Proof. intros H. lag_triv H. Qed.
Lemma lag_set_delivered a c x y : lag a c -> lag (set_delivered a x) (set_delivered c y).
Proof. intros H. lag_triv H. Qed.
Lemma lag_set_lostb a c x y : lag a c -> lag (set_lostb a x) (set_lostb c y).
Proof. intros H. lag_triv H. Qed.
Lemma lag_set_lostp a c x y : lag a c -> lag (set_lostp a x) (set_lostp c y).
Proof. intros H. lag_triv H. Qed.
Lemma lag_set_nclose a c x y : lag a c -> lag (set_nclose a x) (set_nclose c y).
Proof. intros H. lag_triv H. Qed.
Lemma lag_set_ann a c x y : lag a c -> lag (set_ann a x) (set_ann c y).
Proof. intros H. lag_triv H. Qed.
Lemma lag_set_stale a c x y : lag a c -> lag (set_stale a x) (set_stale c y).
Proof. intros H. lag_triv H. Qed.

Lemma lag_set_bpc_noage a c p : bpc_noage p = true -> lag a c -> lag (set_bpc a p) (set_bpc c p).
Proof.
  intros Hp H. dlag H. constructor; lag_unf; simpl; auto.
  intros Hr. exfalso. destruct (batch c) as [|x [|y t]], p; simpl in *; discriminate.
Qed.

Lemma lag_set_batch_nil a c : lag a c -> lag (set_batch a []) (set_batch c []).
Proof.
  intros H. dlag H. constructor; lag_unf; simpl; auto.
  intros Hr. discriminate Hr.
Qed.

Lemma lag_set_bpc_infull a c : lag a c -> bpc_ c = BFull -> lag (set_bpc a BInFull) (set_bpc c BInFull).
Proof.
  intros H Hb. dlag H. constructor; lag_unf; simpl; auto.
  rewrite Hb in Hage. exact Hage.
Qed.

Lemma lag_set_bpc_nil a c p : lag a c -> batch c = [] -> lag (set_bpc a p) (set_bpc c p).
Proof.
  intros H Hb. dlag H. constructor; lag_unf; simpl; auto.
  rewrite Hb. intros Hr; discriminate Hr.
Qed.

Lemma lag_timer_set a c t : lag a c -> (forall d, t <> TmArmed d) -> lag (set_tmr a t) (set_tmr c t).
Proof.
  intros H Ht. dlag H. constructor; lag_unf; simpl; auto.
  - destruct t; auto.
  - destruct t; try lia. exfalso. eapply Ht; reflexivity.
Qed.

Lemma lag_recv_item a c v : lag a c -> bpc_ c = BLoop ->
  lag (set_bpc (set_batch a (batch c ++ [v])) BFull) (set_bpc (set_batch c (batch c ++ [v])) BFull).
Proof.
  intros H Hb. dlag H. constructor; lag_unf; simpl; auto.
  rewrite Hb in Hage. destruct (batch c) as [|x [|y t]]; simpl; auto; try (intros Hr; discriminate Hr).
Qed.

Lemma lag_stop_on_exit a c : lag a c ->
  lag (set_tmr a (stop_on_exit (tmr a))) (set_tmr c (stop_on_exit (tmr c))).
Proof.
  intros H. dlag H. constructor; lag_unf; simpl; auto.
  - destruct (tmr a), (tmr c); simpl; auto.
  - destruct (tmr a), (tmr c); simpl; try contradiction; lia.
Qed.

(* ---- consumers ---- *)
Lemma lag_getc_some a c k x : lag a c -> getc a k = Some x ->
  exists y, getc c k = Some y /\ c_ctx x = c_ctx y /\ pc_sim (c_pc x) (c_pc y).
Proof.
  intros H E. dlag H. unfold getc in *.
  assert (E' : nth_error (map norm_consumer (cons a)) k = nth_error (map norm_consumer (cons c)) k)
    by (rewrite Hcons; reflexivity).
  rewrite !nth_error_map, E in E'. simpl in E'.
  destruct (nth_error (cons c) k) as [y|]; [|discriminate E'].
  exists y. split; [reflexivity|]. apply norm_consumer_eq. inversion E'. reflexivity.
Qed.

Lemma lag_setc a c k p : lag a c -> lag (setc a k p) (setc c k p).
Proof.
  intros H. unfold setc.
  destruct (getc a k) as [x|] eqn:Ea.
  - destruct (lag_getc_some a c k x H Ea) as [y [Ec [Hx _]]]. rewrite Ec.
    dlag H. constructor; lag_unf; simpl; auto.
    rewrite !map_upd, Hcons, Hx. reflexivity.
  - destruct (getc c k) as [y|] eqn:Ec; [|exact H]. exfalso.
    dlag H. unfold getc in *.
    assert (E' : nth_error (map norm_consumer (cons a)) k = nth_error (map norm_consumer (cons c)) k)
      by (rewrite Hcons; reflexivity).
    rewrite !nth_error_map, Ea, Ec in E'. discriminate E'.
Qed.

(* ---- the timer helpers ---- *)
Lemma lag_stop_timer a c : lag a c ->
  match stop_timer a, stop_timer c with
  | Some a1, Some c1 => lag a1 c1
  | None, None => True
  | _, _ => False
  end.
Proof.
  intros H. pose proof H as H0. dlag H. unfold stop_timer. rewrite Htc.
  unfold tmr_shape in Hshape.
  destruct (tmr a) eqn:Ea, (tmr c) eqn:Ec; try contradiction; try exact H0;
    destruct (tc c); auto;
    constructor; lag_unf; simpl; auto; lia.
Qed.

Lemma stop_timer_keeps s s1 : stop_timer s = Some s1 ->
  bstart s1 = bstart s /\ maxw s1 = maxw s /\ clock s1 = clock s.
Proof.
  unfold stop_timer.
  destruct (tmr s); [| destruct (tc s) | | destruct (tc s)]; intros E; inversion E; subst;
    simpl; auto.
Qed.

Lemma lag_start_timer a c : lag a c ->
  Z.max (maxw c - age c) 0 <= Z.max (maxw a - age a) 0 ->
  lag (start_timer a) (start_timer c).
Proof.
  intros H Hd. pose proof (lag_stop_timer a c H) as Hs. unfold start_timer.
  destruct (stop_timer a) as [a1|] eqn:Ea, (stop_timer c) as [c1|] eqn:Ec; try contradiction.
  - destruct (stop_timer_keeps _ _ Ea) as [A1 [A2 A3]].
    destruct (stop_timer_keeps _ _ Ec) as [C1 [C2 C3]].
    dlag Hs. constructor; lag_unf; simpl; auto.
    rewrite A1, A2, A3, C1, C2, C3. lia.
  - apply lag_set_bpc_noage; [reflexivity | exact H].
Qed.

Lemma lag_after_full a c r : lag a c -> bpc_ c = BFull \/ bpc_ c = BInFull ->
  lag (after_full a r) (after_full c r).
Proof.
  intros H Hb. pose proof (lag_stop_timer a c H) as Hs. unfold after_full.
  destruct r.
  - destruct (stop_timer a) as [a1|], (stop_timer c) as [c1|]; try contradiction;
      apply lag_set_bpc_noage; auto.
  - pose proof H as H0. dlag H. rewrite Hbatch, Hwae.
    destruct (batch c) as [|x [|y t]] eqn:Eb.
    + constructor; lag_unf; simpl; auto; try congruence.
      rewrite Eb. intros Hr; discriminate Hr.
    + assert (H1 : lag (set_bstart (set_bpc a BLoop) (clock a)) (set_bstart (set_bpc c BLoop) (clock c))).
      { constructor; lag_unf; simpl; auto; try congruence.
        intros _. rewrite !Z.sub_diag. lia. }
      destruct (wae c); [|exact H1].
      apply lag_start_timer; [exact H1|]. unfold age; simpl. rewrite !Z.sub_diag, Hmaxw. lia.
    + constructor; lag_unf; simpl; auto; try congruence.
      intros _. apply Hage. rewrite Eb. destruct Hb as [Hb|Hb]; rewrite Hb; reflexivity.
Qed.

(* ---- lock-step: the lazy run follows every transition except LTick, provided it has caught
   up where the transition reads the time ---- *)
Definition ready (a b : st) (l : lab) : Prop :=
  match l with
  | LTick _ => False
  | TTimerFire => rem a = 0
  | TRecvWaiting _ => batch b <> [] -> maxw b < age b -> maxw a < age a
  | _ => True
  end.

Ltac lag_auto :=
  repeat first
    [ assumption
    | apply lag_set_srcq | apply lag_set_fulltok | apply lag_set_ctxs | apply lag_set_bgdone
    | apply lag_set_ppc | apply lag_set_perr | apply lag_set_cclosed | apply lag_set_wae
    | apply lag_set_bclosed | apply lag_set_wg | apply lag_set_kpc | apply lag_set_src
    | apply lag_set_srcres | apply lag_set_delivered | apply lag_set_lostb | apply lag_set_lostp
    | apply lag_set_nclose | apply lag_set_ann | apply lag_set_stale | apply lag_setc
    | apply lag_set_batch_nil | apply lag_set_tc
    | (apply lag_set_bpc_noage; [reflexivity|]) ].

Lemma lag_getc_some_r a c k y : lag a c -> getc c k = Some y ->
  exists x, getc a k = Some x /\ c_ctx x = c_ctx y /\ pc_sim (c_pc x) (c_pc y).
Proof.
  intros H E. dlag H. unfold getc in *.
  assert (E' : nth_error (map norm_consumer (cons a)) k = nth_error (map norm_consumer (cons c)) k)
    by (rewrite Hcons; reflexivity).
  rewrite !nth_error_map, E in E'. simpl in E'.
  destruct (nth_error (cons a) k) as [x|]; [|discriminate E'].
  exists x. split; [reflexivity|]. apply norm_consumer_eq. inversion E'. reflexivity.
Qed.

Ltac rgetc_cases a b k H0 Hs y x Hcx Hpc :=
  let Ea := fresh "Ea" in let Eb := fresh "Eb" in
  destruct (getc b k) as [y|] eqn:Eb; [|discriminate Hs];
  destruct (lag_getc_some_r a b k y H0 Eb) as [x [Ea [Hcx Hpc]]];
  rewrite Ea.

Lemma step_lag a b l b1 : lag a b -> ready a b l -> step b l = Some b1 ->
  exists a1, step a l = Some a1 /\ lag a1 b1.
Proof.
  intros H Hrd Hs. pose proof H as H0. dlag H.
  destruct l; simpl in Hs, Hrd |- *;
    rewrite ?Hmaxw, ?Hmode, ?Hsrcq, ?Hfull, ?Hctxs, ?Hbg, ?Hppc, ?Hperr, ?Hcc, ?Hbpc, ?Hbatch,
      ?Htc, ?Hwae, ?Hbc, ?Hwg, ?Hkpc;
    try (brk Hs; eexists; (split; [reflexivity|]); lag_auto; fail).
  - (* LFullEnter *)
    brk Hs. eexists; split; [reflexivity|]. apply lag_set_bpc_infull; assumption.
  - (* LFullExit *)
    brk Hs; (eexists; split; [reflexivity|]); apply lag_after_full; lag_auto; right; assumption.
  - (* LCallNext *)
    rgetc_cases a b k H0 Hs y x Hcx Hpc. unfold pc_sim in Hpc.
    destruct (c_pc x), (c_pc y); try discriminate Hs; try discriminate Hpc.
    inversion Hs; subst. eexists; split; [reflexivity|]. lag_auto.
  - (* LRetNext *)
    rgetc_cases a b k H0 Hs y x Hcx Hpc. unfold pc_sim in Hpc.
    destruct (c_pc x), (c_pc y); try discriminate Hs; try discriminate Hpc.
    inversion Hpc; subst. destruct (cres_eqb r r1); [|discriminate Hs].
    inversion Hs; subst. eexists; split; [reflexivity|]. lag_auto.
  - (* LTick *)
    contradiction.
  - (* TTimerFire *)
    unfold tmr_shape, rem in *.
    destruct (tmr b) as [| |db|] eqn:Etb; try discriminate Hs.
    destruct (tmr a) as [| |da|] eqn:Eta; try contradiction.
    destruct (db <=? clock b) eqn:Eb; [|discriminate Hs]. inversion Hs; subst.
    assert (Ea : (da <=? clock a) = true) by (apply Z.leb_le; lia).
    rewrite Ea. eexists; split; [reflexivity|].
    apply lag_timer_set; [exact H0 | intros d; discriminate].
  - (* TRecvItem *)
    brk Hs. eexists; split; [reflexivity|].
    apply (lag_recv_item (set_ppc a PStart) (set_ppc b PStart)); [lag_auto | assumption].
  - (* TFullEval *)
    brk Hs. eexists; split; [reflexivity|]. apply lag_after_full; [exact H0 | left; assumption].
  - (* TTimerArm *)
    unfold tmr_shape in Hshape.
    destruct (bpc_ b) eqn:Eb; try discriminate Hs.
    destruct (tmr b) eqn:Etb; try discriminate Hs.
    destruct (tmr a) eqn:Eta; try contradiction.
    destruct (tc b) eqn:Etcc; [|discriminate Hs]. inversion Hs; subst.
    eexists; split; [reflexivity|]. lag_auto.
    apply lag_timer_set; [exact H0 | intros d; discriminate].
  - (* TRecvWaiting *)
    destruct (bpc_ b) eqn:Eb; try discriminate Hs.
    rgetc_cases a b k H0 Hs y x Hcx Hpc. unfold pc_sim in Hpc.
    destruct (c_pc x), (c_pc y); try discriminate Hs; try discriminate Hpc.
    assert (H1 : lag (set_ann (setc a k CInner) true) (set_ann (setc b k CInner) true)) by lag_auto.
    destruct (batch b) as [|b0 bt] eqn:Ebt.
    + inversion Hs; subst. eexists; split; [reflexivity|]. lag_auto.
    + assert (Hag : Z.min (age a) (maxw b + 1) <= Z.min (age b) (maxw b + 1)).
      { apply Hage. unfold age_rel. rewrite Ebt, Eb. destruct bt; reflexivity. }
      unfold age in Hag, Hrd.
      destruct (maxw b <? clock b - bstart b) eqn:Eo.
      * apply Z.ltb_lt in Eo.
        assert (Hne : b0 :: bt <> []) by discriminate. specialize (Hrd Hne).
        assert (Eo' : (maxw b <? clock a - bstart a) = true) by (apply Z.ltb_lt; lia).
        rewrite Eo'. pose proof (lag_stop_timer _ _ H1) as Hst.
        destruct (stop_timer (set_ann (setc a k CInner) true)) as [a2|];
          destruct (stop_timer (set_ann (setc b k CInner) true)) as [c2|]; try contradiction;
          inversion Hs; subst; (eexists; split; [reflexivity|]); lag_auto.
      * apply Z.ltb_ge in Eo.
        assert (Eo' : (maxw b <? clock a - bstart a) = false) by (apply Z.ltb_ge; lia).
        rewrite Eo'. inversion Hs; subst. eexists; split; [reflexivity|].
        apply lag_start_timer; [exact H1|].
        unfold age, setc. destruct (getc a k), (getc b k); simpl; lia.
  - (* TFlushSend *)
    destruct (bpc_ b) eqn:Eb; try discriminate Hs.
    rgetc_cases a b k H0 Hs y x Hcx Hpc. rewrite (pc_sim_in_select _ _ Hpc).
    destruct (in_select (c_pc y)); [|discriminate Hs]. inversion Hs; subst.
    eexists; split; [reflexivity|].
    apply lag_set_bpc_nil; [lag_auto | reflexivity].
  - (* TCloseBatchC *)
    brk Hs. eexists; split; [reflexivity|]. lag_auto. apply lag_stop_on_exit; exact H0.
  - (* TConsClosed *)
    rgetc_cases a b k H0 Hs y x Hcx Hpc. rewrite (pc_sim_in_select _ _ Hpc).
    destruct (in_select (c_pc y) && bclosed b); [|discriminate Hs]. inversion Hs; subst.
    eexists; split; [reflexivity|]. lag_auto.
  - (* TConsCtx *)
    rgetc_cases a b k H0 Hs y x Hcx Hpc. rewrite (pc_sim_in_select _ _ Hpc).
    assert (Ecd : ctx_done a (c_ctx x) = ctx_done b (c_ctx y))
      by (unfold ctx_done; rewrite Hctxs, Hcx; reflexivity).
    rewrite Ecd.
    destruct (in_select (c_pc y) && ctx_done b (c_ctx y)); [|discriminate Hs]. inversion Hs; subst.
    eexists; split; [reflexivity|]. lag_auto.
Qed.

(* ---- ticks ---- *)
Lemma lag_tick_b a b d : lag a b -> 0 < d -> lag a (set_clock b (clock b + d)).
Proof.
  intros H Hd. dlag H. constructor; lag_unf; simpl; auto.
  - intros Hr. specialize (Hage Hr). lia.
  - destruct (tmr a), (tmr b); try contradiction; lia.
Qed.

Lemma lag_tick_a a b d : lag a b ->
  (age_rel b = true -> Z.min (age a + d) (maxw b + 1) <= Z.min (age b) (maxw b + 1)) ->
  rem b = 0 ->
  lag (set_clock a (clock a + d)) b.
Proof.
  intros H Ha Hr. dlag H. constructor; lag_unf; simpl; auto.
  - intros Hx. specialize (Ha Hx). lia.
  - rewrite Hr. destruct (tmr a); lia.
Qed.

(* ---- [view] ---- *)
Lemma map_norm_idem l : map norm_consumer (map norm_consumer l) = map norm_consumer l.
Proof. rewrite map_map. apply map_ext. intros x. apply norm_consumer_idem. Qed.

Lemma lag_view_both a b : lag a b -> lag (view a) (view b).
Proof.
  intros H. dlag H. constructor; simpl; auto; try congruence;
    try (rewrite ?map_norm_idem; exact Hcons).
  - lag_unf. simpl. rewrite Hbatch, Hmaxw. destruct (batch b) as [|x t]; [intros Hr; discriminate Hr|].
    intros Hr. specialize (Hage Hr). lia.
  - lag_unf. simpl. destruct (tmr a), (tmr b); auto.
  - lag_unf. simpl. destruct (tmr a), (tmr b); try contradiction; lia.
Qed.

Lemma lag_view_l a b : lag a b -> noreq a -> lag (view a) b.
Proof.
  intros H Hn. unfold noreq in Hn. dlag H. constructor; simpl; auto; try congruence;
    try (rewrite ?map_norm_idem; exact Hcons).
  - rewrite <- Hctxs. exact Hn.
  - lag_unf. simpl. rewrite Hbatch, Hmaxw. destruct (batch b) as [|x t]; [intros Hr; discriminate Hr|].
    intros Hr. specialize (Hage Hr). lia.
  - lag_unf. simpl. destruct (tmr a), (tmr b); auto.
  - lag_unf. simpl. destruct (tmr a), (tmr b); try contradiction; lia.
Qed.

Lemma lag_view_r a b : lag a b -> noreq b -> lag a (view b).
Proof.
  intros H Hn. unfold noreq in Hn. dlag H. constructor; simpl; auto; try congruence;
    try (rewrite ?map_norm_idem; exact Hcons).
  - rewrite Hctxs. symmetry. exact Hn.
  - lag_unf. simpl. destruct (batch b) as [|x t]; [intros Hr; discriminate Hr|].
    intros Hr. specialize (Hage Hr). lia.
  - lag_unf. simpl. destruct (tmr a), (tmr b); auto.
  - lag_unf. simpl. destruct (tmr a), (tmr b); try contradiction; lia.
Qed.

Lemma rem_view s : rem (view s) = rem s.
Proof. unfold rem. simpl. destruct (tmr s); lia. Qed.

Lemma noreq_view s : noreq (view s).
Proof. unfold noreq. simpl. apply map_fin_idem. Qed.

(* ---- the timer deadline is batchStart + maxWait whenever the age is still read ---- *)
Definition kinv (s : st) : Prop :=
  forall d, tmr s = TmArmed d -> age_rel s = true ->
            Z.max (d - clock s) 0 = Z.max (maxw s - age s) 0.

Lemma kinv_reach mw m calls nctx c : Reach mw m calls nctx c -> kinv c.
Proof.
  intros Hr d Ht Ha.
  pose proof (G1_reach _ _ _ _ _ Hr) as G1c.
  pose proof (G5_reach _ _ _ _ _ Hr (stale_never _ _ _ _ _ Hr)) as G5c.
  assert (Hb : in_body (bpc_ c) = true /\ b_run (bpc_ c) = true).
  { unfold age_rel in Ha. destruct (batch c) as [|x [|y t]], (bpc_ c); simpl in *;
      try discriminate Ha; split; reflexivity. }
  destruct Hb as [Hb1 Hb2].
  assert (Htc : tc c = true) by (rewrite (g_tc _ G1c Hb2), Ht; reflexivity).
  destruct (g5_loop _ G5c Hb1 Htc) as [_ [Hok _]]. unfold tmr_ok in Hok. rewrite Ht in Hok.
  subst d. unfold age. f_equal. lia.
Qed.

Lemma kinv_sim b c : sim b c -> kinv c -> kinv b.
Proof.
  intros H Hk d Ht Ha. dsim H. unfold kinv, tmr_rel, age_rel, age in *.
  rewrite Ht in Htmr. destruct (tmr c) as [| |dc|] eqn:Etc; try contradiction.
  rewrite Hbatch, Hbpc in Ha. specialize (Hk dc eq_refl Ha). specialize (Hage Ha). lia.
Qed.

(* the states of the matcher's system: reachable by [vstep] from [init] *)
Definition VReach (mw : Z) (m : fmode) (calls : list nat) (nctx : nat) (s : st) : Prop :=
  exists ls, run vstep (init mw m calls nctx) ls = Some s.

Lemma vreach_inv mw m calls nctx s : VReach mw m calls nctx s -> noreq s /\ kinv s.
Proof.
  intros [ls Hr].
  destruct (vrun_sim ls _ _ s (sim_refl _) (noreq_init mw m calls nctx) Hr)
    as [ls' [c [Hrc [_ [Hs Hn]]]]].
  split.
  - apply (noreq_ctxs s c); [apply (s_ctxs _ _ Hs) | exact Hn].
  - apply (kinv_sim s c Hs). apply (kinv_reach mw m calls nctx). exists ls'. exact Hrc.
Qed.

Lemma vreach_step mw m calls nctx s l s' :
  VReach mw m calls nctx s -> vstep s l = Some s' -> VReach mw m calls nctx s'.
Proof.
  intros [ls Hr] Hs. exists (ls ++ [l]). rewrite run_app, Hr. simpl. rewrite Hs. reflexivity.
Qed.

(* ---- which labels are enabled does not depend on the time (except TTimerFire) ---- *)
Lemma step_enabled_lag a b l a1 : lag a b -> step a l = Some a1 -> l <> TTimerFire ->
  exists b1, step b l = Some b1.
Proof.
  intros H Hs Hl. pose proof H as H0. dlag H.
  destruct l; simpl in Hs |- *;
    rewrite <- ?Hmaxw, <- ?Hmode, <- ?Hsrcq, <- ?Hfull, <- ?Hctxs, <- ?Hbg, <- ?Hppc, <- ?Hperr,
      <- ?Hcc, <- ?Hbpc, <- ?Hbatch, <- ?Htc, <- ?Hwae, <- ?Hbc, <- ?Hwg, <- ?Hkpc;
    try (brk Hs; eexists; reflexivity).
  - (* LCallNext *)
    destruct (getc a k) as [x|] eqn:Ea; [|discriminate Hs].
    destruct (lag_getc_some a b k x H0 Ea) as [y [Eb [_ Hpc]]]. rewrite Eb. unfold pc_sim in Hpc.
    destruct (c_pc x), (c_pc y); try discriminate Hs; try discriminate Hpc. eexists; reflexivity.
  - (* LRetNext *)
    destruct (getc a k) as [x|] eqn:Ea; [|discriminate Hs].
    destruct (lag_getc_some a b k x H0 Ea) as [y [Eb [_ Hpc]]]. rewrite Eb. unfold pc_sim in Hpc.
    destruct (c_pc x), (c_pc y); try discriminate Hs; try discriminate Hpc.
    inversion Hpc; subst. destruct (cres_eqb r r1); [|discriminate Hs]. eexists; reflexivity.
  - (* TTimerFire *)
    exfalso. apply Hl. reflexivity.
  - (* TTimerArm *)
    unfold tmr_shape in Hshape.
    destruct (bpc_ a); try discriminate Hs.
    destruct (tmr a); try discriminate Hs. destruct (tmr b); try contradiction.
    destruct (tc a); [|discriminate Hs]. eexists; reflexivity.
  - (* TRecvWaiting *)
    destruct (bpc_ a); try discriminate Hs.
    destruct (getc a k) as [x|] eqn:Ea; [|discriminate Hs].
    destruct (lag_getc_some a b k x H0 Ea) as [y [Eb [_ Hpc]]]. rewrite Eb. unfold pc_sim in Hpc.
    destruct (c_pc x), (c_pc y); try discriminate Hs; try discriminate Hpc.
    destruct (batch a); [eexists; reflexivity|].
    destruct (maxw a <? clock b - bstart b); [|eexists; reflexivity].
    destruct (stop_timer (set_ann (setc b k CInner) true)); eexists; reflexivity.
  - (* TFlushSend *)
    destruct (bpc_ a); try discriminate Hs.
    destruct (getc a k) as [x|] eqn:Ea; [|discriminate Hs].
    destruct (lag_getc_some a b k x H0 Ea) as [y [Eb [_ Hpc]]]. rewrite Eb.
    rewrite <- (pc_sim_in_select _ _ Hpc).
    destruct (in_select (c_pc x)); [|discriminate Hs]. eexists; reflexivity.
  - (* TConsClosed *)
    destruct (getc a k) as [x|] eqn:Ea; [|discriminate Hs].
    destruct (lag_getc_some a b k x H0 Ea) as [y [Eb [_ Hpc]]]. rewrite Eb.
    rewrite <- (pc_sim_in_select _ _ Hpc).
    destruct (in_select (c_pc x) && bclosed a); [|discriminate Hs]. eexists; reflexivity.
  - (* TConsCtx *)
    destruct (getc a k) as [x|] eqn:Ea; [|discriminate Hs].
    destruct (lag_getc_some a b k x H0 Ea) as [y [Eb [Hcx Hpc]]]. rewrite Eb.
    rewrite <- (pc_sim_in_select _ _ Hpc).
    assert (Ecd : ctx_done a (c_ctx x) = ctx_done b (c_ctx y))
      by (unfold ctx_done; rewrite Hctxs, Hcx; reflexivity).
    rewrite <- Ecd.
    destruct (in_select (c_pc x) && ctx_done a (c_ctx x)); [|discriminate Hs]. eexists; reflexivity.
Qed.

Lemma lib_tau_labels_lag a c : lag a c -> lib_tau_labels a = lib_tau_labels c.
Proof.
  intros H. dlag H. unfold lib_tau_labels.
  assert (El : length (cons a) = length (cons c)).
  { rewrite <- (map_length norm_consumer (cons a)), Hcons. apply map_length. }
  rewrite El, Hctxs. reflexivity.
Qed.

Lemma lib_visible_lag a c : lag a c -> lib_visible a = lib_visible c.
Proof.
  intros H. pose proof H as H0. dlag H. unfold lib_visible.
  assert (El : length (cons a) = length (cons c)).
  { rewrite <- (map_length norm_consumer (cons a)), Hcons. apply map_length. }
  rewrite El, Hbatch, Hsrcq. f_equal. f_equal.
  apply flat_map_ext. intros k.
  destruct (getc a k) as [x|] eqn:Ea.
  - destruct (lag_getc_some a c k x H0 Ea) as [y [Ec [_ Hpc]]]. rewrite Ec. unfold pc_sim in Hpc.
    destruct (c_pc x), (c_pc y); try discriminate Hpc; try reflexivity.
    inversion Hpc; reflexivity.
  - destruct (getc c k) as [y|] eqn:Ec; [|reflexivity].
    destruct (lag_getc_some_r a c k y H0 Ec) as [x [Ea' _]]. congruence.
Qed.

Lemma existsb_false_impl {A} (f g : A -> bool) (l : list A) :
  (forall x, In x l -> f x = true -> g x = true) -> existsb g l = false -> existsb f l = false.
Proof.
  intros Himp Hg. destruct (existsb f l) eqn:Ef; [|reflexivity].
  apply existsb_exists in Ef. destruct Ef as [x [Hin Hx]].
  assert (Hg' : existsb g l = true) by (apply existsb_exists; exists x; split; auto).
  congruence.
Qed.

Lemma quiescent_lag a b : lag a b -> quiescent b = true -> quiescent a = true.
Proof.
  intros H Hq. unfold quiescent in *.
  apply andb_true_iff in Hq. destruct Hq as [Hq Harm].
  apply andb_true_iff in Hq. destruct Hq as [Ht Hv].
  apply negb_true_iff in Ht, Hv, Harm.
  assert (Harm' : timer_armed a = false).
  { pose proof (l_shape _ _ H) as Hsh. unfold timer_armed, tmr_shape in *.
    destruct (tmr a), (tmr b); try contradiction; try reflexivity; discriminate Harm. }
  assert (Hen : forall l, enabled a l = true -> enabled b l = true).
  { intros l. unfold enabled. destruct (step a l) as [a1|] eqn:Ea; [|discriminate]. intros _.
    assert (Hd : l = TTimerFire \/ l <> TTimerFire)
      by (destruct l; (left; reflexivity) || (right; discriminate)).
    destruct Hd as [->|Hd].
    - exfalso. simpl in Ea. unfold timer_armed in Harm'. destruct (tmr a); discriminate.
    - destruct (step_enabled_lag a b l a1 H Ea Hd) as [b1 ->]. reflexivity. }
  rewrite (lib_tau_labels_lag a b H), (lib_visible_lag a b H), Harm'.
  rewrite (existsb_false_impl (enabled a) (enabled b) _ (fun l _ => Hen l) Ht).
  rewrite (existsb_false_impl (enabled a) (enabled b) _ (fun l _ => Hen l) Hv).
  reflexivity.
Qed.

(* ---- the system the matcher explores: [vstep] with threshold ticks only ---- *)
Definition is_thr (s : st) (l : lab) : bool :=
  match l with
  | LTick d => existsb (fun l' => match l' with LTick d' => d =? d' | _ => false end) (tick_labels s)
  | _ => true
  end.

Definition vstep_thr (s : st) (l : lab) : option st := if is_thr s l then vstep s l else None.

Lemma vstep_thr_sub s l s' : vstep_thr s l = Some s' -> vstep s l = Some s'.
Proof. unfold vstep_thr. destruct (is_thr s l); [auto | discriminate]. Qed.

Lemma vrun_thr_sub ls : forall s s', run vstep_thr s ls = Some s' -> run vstep s ls = Some s'.
Proof.
  induction ls as [|l ls IH]; intros s s' H; simpl in *; [exact H|].
  destruct (vstep_thr s l) as [s1|] eqn:E; [|discriminate H].
  rewrite (vstep_thr_sub _ _ _ E). apply IH; exact H.
Qed.

(* catch-up 1: the other run fires the timer *)
Lemma catch_timer a b db : lag a b -> noreq a -> kinv a -> kinv b ->
  tmr b = TmArmed db -> db <= clock b ->
  exists ls a', run vstep_thr a ls = Some a' /\ batch_trace ls = [] /\ lag a' b /\ rem a' = 0.
Proof.
  intros H Hna Hka Hkb Etb Hdb.
  assert (Hrb : rem b = 0) by (unfold rem; rewrite Etb; lia).
  destruct (Z.eq_dec (rem a) 0) as [Hra|Hra].
  { exists [], a. split; [reflexivity|]. split; [reflexivity|]. split; assumption. }
  pose proof (l_shape _ _ H) as Hsh. unfold tmr_shape in Hsh. rewrite Etb in Hsh.
  destruct (tmr a) as [| |da|] eqn:Eta; try contradiction.
  unfold rem in Hra. rewrite Eta in Hra.
  assert (Hpos : 0 < da - clock a) by lia.
  set (t := da - clock a) in *.
  assert (Hlag : lag (set_clock a (clock a + t)) b).
  { apply lag_tick_a; [exact H | | exact Hrb].
    intros Har.
    assert (Har' : age_rel a = true).
    { unfold age_rel in *. rewrite (l_batch _ _ H), (l_bpc _ _ H). exact Har. }
    pose proof (Hka da Eta Har') as Ka. pose proof (Hkb db Etb Har) as Kb.
    rewrite (l_maxw _ _ H) in Ka. unfold t. lia. }
  exists [LTick t], (view (set_clock a (clock a + t))).
  split; [|split; [reflexivity|split]].
  - simpl. unfold vstep_thr, is_thr, tick_labels. rewrite Eta.
    assert (El : (clock a <? da) = true) by (apply Z.ltb_lt; lia). rewrite El.
    simpl. fold t. rewrite Z.eqb_refl. simpl.
    unfold vstep. simpl.
    assert (Et : (0 <? t) = true) by (apply Z.ltb_lt; exact Hpos). rewrite Et. reflexivity.
  - apply lag_view_l; [exact Hlag | exact Hna].
  - rewrite rem_view. unfold rem. simpl. rewrite Eta. unfold t. lia.
Qed.

(* catch-up 2: the other run takes the overdue branch of the [case <-out.waiting] arm *)
Lemma catch_overdue a b k y b0 bt : lag a b -> noreq a -> kinv b ->
  bpc_ b = BLoop -> batch b = b0 :: bt -> getc b k = Some y -> c_pc y = CSel -> maxw b < age b ->
  exists ls a', run vstep_thr a ls = Some a' /\ batch_trace ls = [] /\ lag a' b /\ maxw a' < age a'.
Proof.
  intros H Hna Hkb Eb Ebt Egb Epy Hov.
  destruct (Z_lt_dec (maxw a) (age a)) as [Hoa|Hoa].
  { exists [], a. split; [reflexivity|]. split; [reflexivity|]. split; assumption. }
  assert (Har : age_rel b = true) by (unfold age_rel; rewrite Ebt, Eb; destruct bt; reflexivity).
  assert (Hrb : rem b = 0).
  { unfold rem. destruct (tmr b) as [| |db|] eqn:Etb; try reflexivity.
    rewrite (Hkb db Etb Har). lia. }
  pose proof (l_maxw _ _ H) as Hm.
  set (t := bstart a + maxw a + 1 - clock a).
  assert (Hpos : 0 < t) by (unfold t, age in *; lia).
  assert (Hlag : lag (set_clock a (clock a + t)) b).
  { apply lag_tick_a; [exact H | | exact Hrb]. intros _. unfold t, age in *. lia. }
  destruct (lag_getc_some_r a b k y H Egb) as [x [Ega [_ Hpc]]].
  unfold pc_sim in Hpc. rewrite Epy in Hpc.
  assert (Epx : c_pc x = CSel) by (destruct (c_pc x); try discriminate Hpc; reflexivity).
  exists [LTick t], (view (set_clock a (clock a + t))).
  split; [|split; [reflexivity|split]].
  - simpl. unfold vstep_thr, is_thr, tick_labels.
    rewrite (l_batch _ _ H), Ebt, (l_bpc _ _ H), Eb.
    assert (E1 : (clock a <=? bstart a + maxw a) = true) by (apply Z.leb_le; unfold age in *; lia).
    assert (E2 : existsb (fun x0 => match c_pc x0 with CSel => true | _ => false end) (cons a) = true).
    { apply existsb_exists. exists x. split; [|rewrite Epx; reflexivity].
      unfold getc in Ega. eapply nth_error_In; exact Ega. }
    rewrite E1, E2. simpl. rewrite existsb_app. simpl. fold t. rewrite Z.eqb_refl.
    rewrite orb_true_r.
    unfold vstep. simpl.
    assert (Et : (0 <? t) = true) by (apply Z.ltb_lt; exact Hpos). rewrite Et. reflexivity.
  - apply lag_view_l; [exact Hlag | exact Hna].
  - unfold age. simpl. rewrite (l_batch _ _ H), Ebt. unfold t, age in *. lia.
Qed.

(* the last step of a catch-up: the lazy run takes the same label *)
Lemma thr_finish a b l b1 : lag a b -> ready a b l -> step b l = Some b1 ->
  exists a1, vstep_thr a l = Some (view a1) /\ lag (view a1) (view b1).
Proof.
  intros H Hrd Hs. destruct (step_lag a b l b1 H Hrd Hs) as [a1 [Ha Hl]].
  exists a1. split; [|apply lag_view_both; exact Hl].
  unfold vstep_thr, vstep.
  assert (Hq : qstep a l = Some a1) by (destruct l; try exact Ha; simpl in Ha; discriminate Ha).
  rewrite Hq. destruct l; try reflexivity. simpl in Hrd. contradiction.
Qed.

(* one step of [vstep] with any tick amount is matched by threshold ticks *)
Lemma thr_step a b l b' : lag a b -> noreq a -> kinv a -> noreq b -> kinv b ->
  vstep b l = Some b' ->
  exists ls a', run vstep_thr a ls = Some a' /\ batch_trace ls = batch_trace [l] /\ lag a' b'.
Proof.
  intros H Hna Hka Hnb Hkb Hv. unfold vstep in Hv.
  destruct (qstep b l) as [b1|] eqn:Hq; [|discriminate Hv]. inversion Hv; subst b'. clear Hv.
  destruct (qstep_step _ _ _ Hq) as [[-> ->]|Hs].
  - (* LQuiesce *)
    simpl in Hq. destruct (quiescent b) eqn:Eq; [|discriminate Hq].
    exists [LQuiesce], (view a). split; [|split; [reflexivity | apply lag_view_both; exact H]].
    simpl. unfold vstep_thr, vstep. simpl. rewrite (quiescent_lag a b H Eq). reflexivity.
  - assert (Hgen : ready a b l -> exists ls a', run vstep_thr a ls = Some a' /\
                     batch_trace ls = batch_trace [l] /\ lag a' (view b1)).
    { intros Hrd. destruct (thr_finish a b l b1 H Hrd Hs) as [a1 [Ha Hl]].
      exists [l], (view a1). split; [simpl; rewrite Ha; reflexivity|]. split; [reflexivity | exact Hl]. }
    assert (Hcatch : forall ls0 a0, run vstep_thr a ls0 = Some a0 -> batch_trace ls0 = [] ->
                       lag a0 b -> ready a0 b l ->
                       exists ls a', run vstep_thr a ls = Some a' /\
                                     batch_trace ls = batch_trace [l] /\ lag a' (view b1)).
    { intros ls0 a0 Hr0 Ht0 Hl0 Hrd0.
      destruct (thr_finish a0 b l b1 Hl0 Hrd0 Hs) as [a1 [Ha Hl]].
      exists (ls0 ++ [l]), (view a1). split; [|split; [|exact Hl]].
      - rewrite run_app, Hr0. simpl. rewrite Ha. reflexivity.
      - unfold batch_trace in *. rewrite trace_app, Ht0. reflexivity. }
    destruct l; try (apply Hgen; exact I).
    + (* LTick: the lazy run waits *)
      simpl in Hs. destruct (0 <? d) eqn:Ed; [|discriminate Hs]. inversion Hs; subst b1.
      exists [], a. split; [reflexivity|]. split; [reflexivity|].
      apply lag_view_r; [apply lag_tick_b; [exact H | apply Z.ltb_lt; exact Ed] | exact Hnb].
    + (* TTimerFire *)
      pose proof Hs as Hs'. simpl in Hs'.
      destruct (tmr b) as [| |db|] eqn:Etb; try discriminate Hs'.
      destruct (db <=? clock b) eqn:Edb; [|discriminate Hs']. apply Z.leb_le in Edb.
      destruct (catch_timer a b db H Hna Hka Hkb Etb Edb) as [ls0 [a0 [Hr0 [Ht0 [Hl0 Hrem0]]]]].
      apply (Hcatch ls0 a0 Hr0 Ht0 Hl0). exact Hrem0.
    + (* TRecvWaiting *)
      pose proof Hs as Hs'. simpl in Hs'.
      destruct (bpc_ b) eqn:Eb; try discriminate Hs'.
      destruct (getc b k) as [y|] eqn:Egb; [|discriminate Hs'].
      destruct (c_pc y) eqn:Epy; try discriminate Hs'.
      destruct (batch b) as [|b0 bt] eqn:Ebt.
      * apply Hgen. simpl. rewrite Ebt. intros Hne. exfalso. apply Hne. reflexivity.
      * destruct (Z_lt_dec (maxw b) (age b)) as [Hov|Hov].
        -- destruct (catch_overdue a b k y b0 bt H Hna Hkb Eb Ebt Egb Epy Hov)
             as [ls0 [a0 [Hr0 [Ht0 [Hl0 Hov0]]]]].
           apply (Hcatch ls0 a0 Hr0 Ht0 Hl0). simpl. intros _ _. exact Hov0.
        -- apply Hgen. simpl. intros _ Hx. contradiction.
Qed.

Lemma vreach_run mw m calls nctx ls : forall s s',
  VReach mw m calls nctx s -> run vstep s ls = Some s' -> VReach mw m calls nctx s'.
Proof.
  induction ls as [|l ls IH]; intros s s' Hs Hr; simpl in Hr.
  - inversion Hr; subst; exact Hs.
  - destruct (vstep s l) as [s1|] eqn:E; [|discriminate Hr].
    apply (IH s1 s'); [exact (vreach_step _ _ _ _ s l s1 Hs E) | exact Hr].
Qed.

(* THRESHOLD TICKS SUFFICE: every run of [vstep] is matched by a run of [vstep_thr] *)
Theorem batch_threshold_complete mw m calls nctx ls b :
  run vstep (init mw m calls nctx) ls = Some b ->
  exists ls' a, run vstep_thr (init mw m calls nctx) ls' = Some a /\
                batch_trace ls' = batch_trace ls /\ lag a b.
Proof.
  assert (G : forall ks a b0 b2, lag a b0 -> VReach mw m calls nctx a -> VReach mw m calls nctx b0 ->
            run vstep b0 ks = Some b2 ->
            exists ls' a', run vstep_thr a ls' = Some a' /\ batch_trace ls' = batch_trace ks /\ lag a' b2).
  { induction ks as [|l ks IH]; intros a b0 b2 H Ha Hb Hr; simpl in Hr.
    - inversion Hr; subst b2. exists [], a. split; [reflexivity|]. split; [reflexivity | exact H].
    - destruct (vstep b0 l) as [b1|] eqn:Hv; [|discriminate Hr].
      destruct (vreach_inv _ _ _ _ _ Ha) as [Hna Hka].
      destruct (vreach_inv _ _ _ _ _ Hb) as [Hnb Hkb].
      destruct (thr_step a b0 l b1 H Hna Hka Hnb Hkb Hv) as [ls1 [a1 [Hr1 [Ht1 Hl1]]]].
      assert (Ha1 : VReach mw m calls nctx a1)
        by (apply (vreach_run _ _ _ _ ls1 a a1 Ha); apply vrun_thr_sub; exact Hr1).
      assert (Hb1 : VReach mw m calls nctx b1) by (exact (vreach_step _ _ _ _ b0 l b1 Hb Hv)).
      destruct (IH a1 b1 b2 Hl1 Ha1 Hb1 Hr) as [ls2 [a2 [Hr2 [Ht2 Hl2]]]].
      exists (ls1 ++ ls2), a2. split; [|split; [|exact Hl2]].
      + rewrite run_app, Hr1. exact Hr2.
      + unfold batch_trace in *. rewrite trace_app, Ht1, Ht2.
        change (l :: ks) with ([l] ++ ks). rewrite trace_app. reflexivity. }
  intros Hr.
  assert (H0 : VReach mw m calls nctx (init mw m calls nctx)) by (exists []; reflexivity).
  apply (G ls (init mw m calls nctx) (init mw m calls nctx) b (lag_refl _) H0 H0 Hr).
Qed.

(* every history of the model is a history of the system the matcher explores *)
Theorem batch_reduction_complete mw m calls nctx ls c :
  run qstep (init mw m calls nctx) ls = Some c ->
  exists ls' a, run vstep_thr (init mw m calls nctx) ls' = Some a /\
                batch_trace ls' = batch_trace ls.
Proof.
  intros Hr.
  destruct (batch_quotient_complete mw m calls nctx ls c Hr) as [ls1 [b [Hr1 [Ht1 _]]]].
  destruct (batch_threshold_complete mw m calls nctx ls1 b Hr1) as [ls2 [a [Hr2 [Ht2 _]]]].
  exists ls2, a. split; [exact Hr2 | rewrite Ht2; exact Ht1].
Qed.

(* ====================================================================== *)
(* Part 8: COMPLETENESS of [accepts_history] when the closures converged   *)
(* ====================================================================== *)

(* ---- generic: the matcher applies [step] only to enumerated labels, so two transition
   functions that agree on those give the same verdicts ---- *)
Lemma flat_map_ext_in {A B} (f g : A -> list B) (l : list A) :
  (forall x, In x l -> f x = g x) -> flat_map f l = flat_map g l.
Proof.
  induction l as [|a t IH]; intros H; simpl; [reflexivity|].
  rewrite (H a (or_introl eq_refl)), IH; [reflexivity|].
  intros x Hx. apply H. right; exact Hx.
Qed.

Section StepExt.
  Variables St Lab Ev : Type.
  Variables step1 step2 : St -> Lab -> option St.
  Variable vis : Lab -> option Ev.
  Variable ev_eqb : Ev -> Ev -> bool.
  Variable st_eqb : St -> St -> bool.
  Variable labels : St -> list Lab.
  Variable labels_ev : St -> Ev -> list Lab.
  Hypothesis step_tau : forall s l, In l (labels s) -> vis l = None -> step1 s l = step2 s l.
  Hypothesis step_ev : forall s e l, In l (labels_ev s e) -> vis l <> None -> step1 s l = step2 s l.

  Lemma succ_tau_sext s :
    GoLTS.succ_tau St Lab step1 Ev vis labels s = GoLTS.succ_tau St Lab step2 Ev vis labels s.
  Proof.
    unfold GoLTS.succ_tau. apply flat_map_ext_in. intros l Hl.
    destruct (vis l) eqn:Ev0; [reflexivity|]. rewrite (step_tau s l Hl Ev0). reflexivity.
  Qed.

  Lemma succ_ev_sext e s :
    GoLTS.succ_ev St Lab step1 Ev vis ev_eqb labels_ev e s =
    GoLTS.succ_ev St Lab step2 Ev vis ev_eqb labels_ev e s.
  Proof.
    unfold GoLTS.succ_ev. apply flat_map_ext_in. intros l Hl.
    destruct (vis l) eqn:Ev0; [|reflexivity].
    rewrite (step_ev s e l Hl); [reflexivity|]. rewrite Ev0. discriminate.
  Qed.

  Lemma closure_sext fuel : forall fr seen,
    GoLTS.closure St Lab step1 Ev vis st_eqb labels fuel fr seen =
    GoLTS.closure St Lab step2 Ev vis st_eqb labels fuel fr seen.
  Proof.
    induction fuel as [|f IH]; intros fr seen; simpl; [reflexivity|].
    destruct fr as [|y fr']; [reflexivity|].
    rewrite (flat_map_ext _ _ succ_tau_sext (y :: fr')).
    destruct (GoLTS.add_new St st_eqb _ seen) as [n sn]. apply IH.
  Qed.

  Lemma close_sext fuel ss :
    GoLTS.close step1 vis st_eqb labels fuel ss = GoLTS.close step2 vis st_eqb labels fuel ss.
  Proof. unfold GoLTS.close. destruct (GoLTS.add_new St st_eqb ss []) as [n sn]. apply closure_sext. Qed.

  Lemma step_ev_sext fuel e ss :
    GoLTS.close step1 vis st_eqb labels fuel
      (flat_map (GoLTS.succ_ev St Lab step1 Ev vis ev_eqb labels_ev e) ss) =
    GoLTS.close step2 vis st_eqb labels fuel
      (flat_map (GoLTS.succ_ev St Lab step2 Ev vis ev_eqb labels_ev e) ss).
  Proof. rewrite (flat_map_ext _ _ (succ_ev_sext e) ss). apply close_sext. Qed.

  Lemma first_reject_sext fuel evs : forall ss i,
    GoLTS.first_reject step1 vis ev_eqb st_eqb labels labels_ev fuel ss evs i =
    GoLTS.first_reject step2 vis ev_eqb st_eqb labels labels_ev fuel ss evs i.
  Proof.
    induction evs as [|e evs IH]; intros ss i; simpl; [reflexivity|].
    rewrite step_ev_sext. destruct (GoLTS.close step2 vis st_eqb labels fuel _); [reflexivity|].
    apply IH.
  Qed.

  Theorem accepts_sext fuel init evs :
    GoLTS.accepts step1 vis ev_eqb st_eqb labels labels_ev fuel init evs =
    GoLTS.accepts step2 vis ev_eqb st_eqb labels labels_ev fuel init evs.
  Proof. unfold GoLTS.accepts. rewrite close_sext, first_reject_sext. reflexivity. Qed.

  Lemma tau_closedb_sext S :
    tau_closedb St Lab Ev step1 vis st_eqb labels S = tau_closedb St Lab Ev step2 vis st_eqb labels S.
  Proof.
    unfold tau_closedb. apply CondMatcher.forallb_ext_in. intros s _. rewrite succ_tau_sext. reflexivity.
  Qed.

  Lemma closed_alongb_sext fuel evs : forall ss,
    closed_alongb St Lab Ev step1 vis ev_eqb st_eqb labels labels_ev fuel ss evs =
    closed_alongb St Lab Ev step2 vis ev_eqb st_eqb labels labels_ev fuel ss evs.
  Proof.
    induction evs as [|e evs IH]; intros ss; simpl; [reflexivity|].
    rewrite step_ev_sext, tau_closedb_sext, IH. reflexivity.
  Qed.

  Theorem convergedb_sext fuel init evs :
    convergedb St Lab Ev step1 vis ev_eqb st_eqb labels labels_ev fuel init evs =
    convergedb St Lab Ev step2 vis ev_eqb st_eqb labels labels_ev fuel init evs.
  Proof. unfold convergedb. rewrite close_sext, tau_closedb_sext, closed_alongb_sext. reflexivity. Qed.
End StepExt.

(* ---- the equality tests decide equality ---- *)
Lemma fmode_eqb_spec a b : fmode_eqb a b = true <-> a = b.
Proof.
  destruct a, b; simpl; rewrite ?Z.eqb_eq, ?bool_eqb_spec; split; intros H;
    try discriminate H; try (inversion H; reflexivity); subst; reflexivity.
Qed.
Lemma cstate_eqb_spec a b : cstate_eqb a b = true <-> a = b.
Proof. destruct a, b; simpl; split; intros H; try discriminate H; reflexivity. Qed.
Lemma freason_eqb_spec a b : freason_eqb a b = true <-> a = b.
Proof. destruct a, b; simpl; split; intros H; try discriminate H; reflexivity. Qed.
Lemma tstate_eqb_spec a b : tstate_eqb a b = true <-> a = b.
Proof.
  destruct a, b; simpl; rewrite ?Z.eqb_eq; split; intros H;
    try discriminate H; try reflexivity; try (inversion H; reflexivity); subst; reflexivity.
Qed.
Lemma ppc_eqb_spec a b : ppc_eqb a b = true <-> a = b.
Proof.
  destruct a, b; simpl; rewrite ?Z.eqb_eq; split; intros H;
    try discriminate H; try reflexivity; try (inversion H; reflexivity); subst; reflexivity.
Qed.
Lemma bpc_eqb_spec a b : bpc_eqb a b = true <-> a = b.
Proof.
  destruct a, b; simpl; rewrite ?freason_eqb_spec; split; intros H;
    try discriminate H; try reflexivity; try (inversion H; reflexivity); subst; reflexivity.
Qed.
Lemma cpc_eqb_spec a b : cpc_eqb a b = true <-> a = b.
Proof.
  destruct a, b; simpl; rewrite ?cres_eqb_spec; split; intros H;
    try discriminate H; try reflexivity; try (inversion H; reflexivity); subst; reflexivity.
Qed.
Lemma kpc_eqb_spec a b : kpc_eqb a b = true <-> a = b.
Proof. destruct a, b; simpl; split; intros H; try discriminate H; reflexivity. Qed.
Lemma optz_eqb_spec a b : optz_eqb a b = true <-> a = b.
Proof.
  destruct a, b; simpl; rewrite ?Z.eqb_eq; split; intros H;
    try discriminate H; try reflexivity; try (inversion H; reflexivity); subst; reflexivity.
Qed.
Lemma optsres_eqb_spec a b : optsres_eqb a b = true <-> a = b.
Proof.
  destruct a, b; simpl; rewrite ?sres_eqb_spec; split; intros H;
    try discriminate H; try reflexivity; try (inversion H; reflexivity); subst; reflexivity.
Qed.
Lemma consumer_eqb_spec a b : consumer_eqb a b = true <-> a = b.
Proof.
  destruct a as [c1 p1], b as [c2 p2]. unfold consumer_eqb. simpl.
  rewrite andb_true_iff, Nat.eqb_eq, cpc_eqb_spec. split.
  - intros [H1 H2]. subst. reflexivity.
  - intros H. inversion H. split; reflexivity.
Qed.
Lemma drec_eqb_spec a b : drec_eqb a b = true <-> a = b.
Proof.
  destruct a as [w1 b1 r1 c1 s1 a1], b as [w2 b2 r2 c2 s2 a2]. unfold drec_eqb. simpl.
  rewrite !andb_true_iff, Nat.eqb_eq, listZ_eqb_spec, freason_eqb_spec, !Z.eqb_eq, bool_eqb_spec.
  split.
  - intros H. decompose [and] H. subst. reflexivity.
  - intros H. inversion H. repeat split; reflexivity.
Qed.

Theorem batch_st_eqb_spec a b : st_eqb a b = true <-> a = b.
Proof.
  destruct a as [a1 a2 a3 a4 a5 a6 a7 a8 a9 a10 a11 a12 a13 a14 a15 a16 a17 a18 a19 a20 a21 a22 a23
                 a24 a25 a26 a27 a28],
           b as [b1 b2 b3 b4 b5 b6 b7 b8 b9 b10 b11 b12 b13 b14 b15 b16 b17 b18 b19 b20 b21 b22 b23
                 b24 b25 b26 b27 b28].
  unfold st_eqb.
  cbn [maxw mode clock srcq fulltok ctxs bgdone ppc_ perr cclosed bpc_ batch bstart tmr tc wae bclosed
       wg cons kpc_ src srcres delivered lostb lostp nclose ann stale].
  rewrite !andb_true_iff, !Z.eqb_eq, fmode_eqb_spec, (list_eqb_spec _ tok_eqb_spec), !Nat.eqb_eq,
    (list_eqb_spec _ cstate_eqb_spec), !bool_eqb_spec, ppc_eqb_spec, optz_eqb_spec, bpc_eqb_spec,
    !listZ_eqb_spec, tstate_eqb_spec, (list_eqb_spec _ consumer_eqb_spec), kpc_eqb_spec,
    optsres_eqb_spec, (list_eqb_spec _ drec_eqb_spec).
  split.
  - intros H. decompose [and] H. subst. reflexivity.
  - intros H. inversion H. subst. repeat split; reflexivity.
Qed.

(* ---- events are labels ---- *)
Lemma batch_vis_some l e : vis l = Some e -> e = l.
Proof. destruct l; simpl; intros H; try discriminate H; inversion H; reflexivity. Qed.

Lemma batch_vis_idem l e : vis l = Some e -> vis e = Some e.
Proof. intros H. pose proof (batch_vis_some l e H) as He. subst e. exact H. Qed.

Lemma batch_lab_eqb_refl_vis a e : vis a = Some e -> lab_eqb a a = true.
Proof.
  destruct a; simpl; intros H; try discriminate H; try reflexivity;
    try (apply tok_eqb_spec; reflexivity); try (apply sres_eqb_spec; reflexivity);
    try (apply listZ_eqb_spec; reflexivity); try (apply bool_eqb_spec; reflexivity);
    try (apply Nat.eqb_refl).
  apply andb_true_iff. split; [apply Nat.eqb_refl | apply cres_eqb_spec; reflexivity].
Qed.

Definition lab_eqb_tot (a b : lab) : bool :=
  match vis b with Some _ => lab_eqb a b | None => true end.

Lemma lab_eqb_tot_refl a : lab_eqb_tot a a = true.
Proof.
  unfold lab_eqb_tot. destruct (vis a) as [e|] eqn:Ev; [|reflexivity].
  eapply batch_lab_eqb_refl_vis; exact Ev.
Qed.

Lemma lab_eqb_tot_agree (e l e' : lab) : vis l = Some e' -> lab_eqb e e' = lab_eqb_tot e e'.
Proof. intros Hv. unfold lab_eqb_tot. rewrite (batch_vis_idem l e' Hv). reflexivity. Qed.

(* ---- the label enumerations contain every enabled label of [vstep_thr] ---- *)
Lemma not_tick_in_lib s d : ~ In (LTick d) (lib_tau_labels s).
Proof.
  unfold lib_tau_labels. intros Hin.
  apply in_app_or in Hin. destruct Hin as [Hin|Hin].
  - simpl in Hin. repeat (destruct Hin as [Hin|Hin]; [discriminate Hin|]). exact Hin.
  - apply in_app_or in Hin. destruct Hin as [Hin|Hin].
    + apply in_flat_map in Hin. destruct Hin as [k [_ Hin]]. simpl in Hin.
      repeat (destruct Hin as [Hin|Hin]; [discriminate Hin|]). exact Hin.
    + apply in_map_iff in Hin. destruct Hin as [k [Hk _]]. discriminate Hk.
Qed.

Lemma is_thr_tau s l : In l (tau_labels s) -> is_thr s l = true.
Proof.
  intros Hin. destruct l; try reflexivity. simpl.
  unfold tau_labels in Hin. apply in_app_or in Hin. destruct Hin as [Hin|Hin].
  - apply existsb_exists. exists (LTick d). split; [exact Hin | apply Z.eqb_refl].
  - exfalso. exact (not_tick_in_lib s d Hin).
Qed.

Lemma vstep_thr_tau s l : In l (tau_labels s) -> vis l = None -> vstep s l = vstep_thr s l.
Proof. intros Hin _. unfold vstep_thr. rewrite (is_thr_tau s l Hin). reflexivity. Qed.

Lemma vstep_thr_ev (s : st) (e l : lab) :
  In l ((fun (_ : st) (x : lab) => [x]) s e) -> vis l <> None -> vstep s l = vstep_thr s l.
Proof.
  intros _ Hv. unfold vstep_thr. destruct l; try reflexivity. exfalso. apply Hv. reflexivity.
Qed.

Lemma getc_lt s k : getc s k <> None -> (k < length (cons s))%nat.
Proof. unfold getc. apply nth_error_Some. Qed.

Ltac in_list := solve [simpl; repeat (first [left; reflexivity | right])].

Ltac cons_label s k Hs :=
  let Hk := fresh "Hk" in
  assert (Hk : (k < length (cons s))%nat)
    by (apply getc_lt; intros E; apply Hs; simpl; rewrite E; destruct (bpc_ s); reflexivity);
  apply in_or_app; right; apply in_or_app; left; apply in_flat_map; exists k;
  split; [apply in_seq; split; [apply Nat.le_0_l | exact Hk] | in_list].

Theorem batch_tau_labels_complete s l :
  vis l = None -> vstep_thr s l <> None -> In l (tau_labels s).
Proof.
  intros Hv Hs. unfold tau_labels.
  destruct l; simpl in Hv; try discriminate Hv; clear Hv.
  - (* LTick *)
    apply in_or_app. left. unfold vstep_thr in Hs. simpl in Hs.
    destruct (existsb _ (tick_labels s)) eqn:Ex; [|exfalso; apply Hs; reflexivity].
    apply existsb_exists in Ex. destruct Ex as [l' [Hin Hl']].
    destruct l'; try discriminate Hl'. apply Z.eqb_eq in Hl'. subst. exact Hin.
  - apply in_or_app; right. unfold lib_tau_labels. apply in_or_app; left. in_list.
  - apply in_or_app; right. unfold lib_tau_labels. apply in_or_app; left. in_list.
  - apply in_or_app; right. unfold lib_tau_labels. apply in_or_app; left. in_list.
  - apply in_or_app; right. unfold lib_tau_labels. apply in_or_app; left. in_list.
  - apply in_or_app; right. unfold lib_tau_labels. apply in_or_app; left. in_list.
  - apply in_or_app; right. unfold lib_tau_labels. apply in_or_app; left. in_list.
  - apply in_or_app; right. unfold lib_tau_labels. apply in_or_app; left. in_list.
  - apply in_or_app; right. unfold lib_tau_labels. apply in_or_app; left. in_list.
  - (* TRecvWaiting *)
    apply in_or_app; right. unfold lib_tau_labels. unfold vstep_thr, vstep in Hs. simpl in Hs.
    cons_label s k Hs.
  - (* TFlushSend *)
    apply in_or_app; right. unfold lib_tau_labels. unfold vstep_thr, vstep in Hs. simpl in Hs.
    cons_label s k Hs.
  - apply in_or_app; right. unfold lib_tau_labels. apply in_or_app; left. in_list.
  - apply in_or_app; right. unfold lib_tau_labels. apply in_or_app; left. in_list.
  - apply in_or_app; right. unfold lib_tau_labels. apply in_or_app; left. in_list.
  - (* TConsClosed *)
    apply in_or_app; right. unfold lib_tau_labels. unfold vstep_thr, vstep in Hs. simpl in Hs.
    cons_label s k Hs.
  - (* TConsCtx *)
    apply in_or_app; right. unfold lib_tau_labels. unfold vstep_thr, vstep in Hs. simpl in Hs.
    cons_label s k Hs.
  - (* TCancelEff *)
    apply in_or_app; right. unfold lib_tau_labels. apply in_or_app; right. apply in_or_app; right.
    apply in_map. apply in_seq. split; [apply Nat.le_0_l|]. simpl. apply nth_error_Some.
    intros E. apply Hs. unfold vstep_thr, vstep. simpl. rewrite E. reflexivity.
  - apply in_or_app; right. unfold lib_tau_labels. apply in_or_app; left. in_list.
  - apply in_or_app; right. unfold lib_tau_labels. apply in_or_app; left. in_list.
Qed.

Theorem batch_labels_ev_complete (s : st) (l e : lab) :
  vis l = Some e -> vstep_thr s l <> None -> In l ((fun (_ : st) (x : lab) => [x]) s e).
Proof. intros Hv _. left. apply (batch_vis_some l e Hv). Qed.

(* ---- the instantiated theorems ---- *)

(* the executable convergence test for a history: every closure the matcher computed along it
   reached its fixpoint within the fuel *)
Definition batch_converged (mw : Z) (m : fmode) (calls : list nat) (nctx : nat) (evs : list lab) : bool :=
  convergedb st lab lab vstep vis lab_eqb st_eqb tau_labels (fun _ e => [e]) fuel
             (init mw m calls nctx) evs.

Lemma batch_accepts_thr mw m calls nctx evs :
  accepts_history mw m calls nctx evs =
  accepts vstep_thr vis lab_eqb_tot st_eqb tau_labels (fun _ e => [e]) fuel (init mw m calls nctx) evs.
Proof.
  unfold accepts_history.
  rewrite (accepts_sext st lab lab vstep vstep_thr vis lab_eqb st_eqb tau_labels (fun _ e => [e])
             vstep_thr_tau vstep_thr_ev).
  apply (CondMatcher.accepts_ext st lab lab vstep_thr vis lab_eqb lab_eqb_tot st_eqb st_eqb tau_labels
           (fun _ e => [e]) (fun _ => True)).
  - intros; exact I.
  - intros; reflexivity.
  - exact lab_eqb_tot_agree.
  - exact I.
Qed.

Lemma batch_converged_thr mw m calls nctx evs :
  batch_converged mw m calls nctx evs =
  convergedb st lab lab vstep_thr vis lab_eqb_tot st_eqb tau_labels (fun _ e => [e]) fuel
             (init mw m calls nctx) evs.
Proof.
  unfold batch_converged.
  rewrite (convergedb_sext st lab lab vstep vstep_thr vis lab_eqb st_eqb tau_labels (fun _ e => [e])
             vstep_thr_tau vstep_thr_ev).
  apply (CondMatcher.convergedb_ext st lab lab vstep_thr vis lab_eqb lab_eqb_tot st_eqb st_eqb tau_labels
           (fun _ e => [e]) (fun _ => True)).
  - intros; exact I.
  - intros; reflexivity.
  - exact lab_eqb_tot_agree.
  - exact I.
Qed.

(* COMPLETENESS: when the closures converged, a history produced by a run of the UNREDUCED model
   is accepted *)
Theorem batch_accepts_complete mw m calls nctx evs ls s :
  batch_converged mw m calls nctx evs = true ->
  run qstep (init mw m calls nctx) ls = Some s -> batch_trace ls = evs ->
  accepts_history mw m calls nctx evs = true.
Proof.
  intros Hc Hr Ht.
  destruct (batch_reduction_complete mw m calls nctx ls s Hr) as [ls' [a [Hr' Ht']]].
  rewrite batch_converged_thr in Hc. rewrite batch_accepts_thr.
  apply (accepts_complete_b st lab lab vstep_thr vis lab_eqb_tot st_eqb tau_labels (fun _ e => [e])
           batch_st_eqb_spec lab_eqb_tot_refl batch_tau_labels_complete batch_labels_ev_complete
           fuel (init mw m calls nctx) evs ls' a Hc Hr').
  unfold batch_trace in *. rewrite Ht'. exact Ht.
Qed.

(* a rejection is genuine: no run of the model has this trace *)
Theorem batch_reject_genuine mw m calls nctx evs :
  batch_converged mw m calls nctx evs = true -> accepts_history mw m calls nctx evs = false ->
  forall ls s, run qstep (init mw m calls nctx) ls = Some s -> batch_trace ls <> evs.
Proof.
  intros Hc Hacc ls s Hr Ht.
  rewrite (batch_accepts_complete mw m calls nctx evs ls s Hc Hr Ht) in Hacc. discriminate.
Qed.

(* the matcher decides trace membership when the closures converged *)
Theorem batch_accepts_iff mw m calls nctx evs :
  batch_converged mw m calls nctx evs = true ->
  (accepts_history mw m calls nctx evs = true <->
   exists ls s, run qstep (init mw m calls nctx) ls = Some s /\ batch_trace ls = evs).
Proof.
  intros Hc. split.
  - apply batch_accepts_sound.
  - intros [ls [s [Hr Ht]]]. eapply batch_accepts_complete; eassumption.
Qed.

(* ---- non-vacuity ---- *)
(* an underfilled batch handed out by the timer: the matcher has to tick to the deadline *)
Definition ex_hist : list lab :=
  [LRelease (KItem 1); LSrcNextEnter; LSrcNextExit (RItem 1); LSrcNextEnter;
   LCallNext 0%nat; LRetNext 0%nat (CBatch [1]); LQuiesce].

Example ex_accepts :
  accepts_history 10 (FBatch 3) [0%nat] 1 ex_hist = true /\
  batch_converged 10 (FBatch 3) [0%nat] 1 ex_hist = true.
Proof. vm_compute. split; reflexivity. Qed.

Example ex_is_trace :
  exists ls s, run qstep (init 10 (FBatch 3) [0%nat] 1) ls = Some s /\ batch_trace ls = ex_hist.
Proof. apply batch_accepts_sound. exact (proj1 ex_accepts). Qed.

(* an empty batch: rejected, and the rejection is genuine *)
Definition ex_bad : list lab :=
  [LRelease (KItem 1); LSrcNextEnter; LSrcNextExit (RItem 1); LSrcNextEnter;
   LCallNext 0%nat; LRetNext 0%nat (CBatch [])].

Example ex_rejects :
  accepts_history 10 (FBatch 3) [0%nat] 1 ex_bad = false /\
  batch_converged 10 (FBatch 3) [0%nat] 1 ex_bad = true.
Proof. vm_compute. split; reflexivity. Qed.

Example ex_no_run :
  forall ls s, run qstep (init 10 (FBatch 3) [0%nat] 1) ls = Some s -> batch_trace ls <> ex_bad.
Proof. apply batch_reject_genuine; [exact (proj2 ex_rejects) | exact (proj1 ex_rejects)]. Qed.

(* a cancelled context and Close: the two-phase cancellation and the hang scenario *)
Definition ex_hist2 : list lab :=
  [LCallNext 0%nat; LCancel 0%nat; LRetNext 0%nat CCtx; LRelease (KItem 1); LSrcNextEnter;
   LSrcNextExit (RItem 1); LSrcNextEnter; LQuiesce; LCallClose; LSrcNextExit RCanceled; LSrcClose;
   LRetClose; LQuiesce].

Example ex_accepts2 :
  accepts_history 10 (FBatch 1) [0%nat] 1 ex_hist2 = true /\
  batch_converged 10 (FBatch 1) [0%nat] 1 ex_hist2 = true.
Proof. vm_compute. split; reflexivity. Qed.

Print Assumptions batch_accepts_sound.
Print Assumptions batch_states_after_sound.
Print Assumptions batch_quotient_complete.
Print Assumptions batch_threshold_complete.
Print Assumptions batch_st_eqb_spec.
Print Assumptions batch_tau_labels_complete.
Print Assumptions batch_accepts_complete.
Print Assumptions batch_reject_genuine.
Print Assumptions batch_accepts_iff.
