(* C16 — LTS model of xsync.ContextCond (xsync/xsync.go) together with the scenario harness
   (harness/cond.go): waiter goroutines that take the caller's Locker, call Wait, and can be held
   by a gate inside the Locker's Unlock; a sequential controller that calls Signal / Broadcast,
   cancels contexts, releases gates and waits for quiescence.  Model only (no proofs here).

   Granularity (DESIGN.md A2.7): the three critical sections under c.m (the channel snapshot in
   Wait, the non-blocking send in Signal, close-and-replace in Broadcast) contain no blocking
   operation and are single steps; the select in Wait is one poll-or-park step; a send to a channel
   on which a receiver is parked hands the token to that receiver in the same step. *)
From Juniper Require Import Common.Base Conc.GoLTS.

Inductive gpos := GNone | GPre | GPost.

Inductive wpc :=
| WIdle                       (* goroutine not spawned yet *)
| WStart                      (* spawned; about to L.Lock() *)
| WHasLock                    (* holds L; about to call Wait *)
| WCalled                     (* inside Wait, before the snapshot *)
| WSnap (g : nat)             (* ch := c.ch taken (generation g); about to call L.Unlock *)
| WInUnlock (g : nat) (unlocked : bool)   (* inside L.Unlock; real unlock done or not *)
| WSelect (g : nat)           (* L.Unlock returned; about to execute the select *)
| WParked (g : nat)           (* parked on ch g and ctx.Done *)
| WWoken                      (* received from ch (token or close); about to L.Lock *)
| WLocked                     (* re-acquired L; about to return nil *)
| WCtxErr                     (* took the ctx.Done arm; about to return ctx.Err() *)
| WRetNil                     (* returned nil, harness still holds L; about to unlock it *)
| WDone.

Inductive cstate := CLive | CReq | CDone.        (* context: live / cancel() called / Done closed *)

Inductive cpc := CtlIdle | CtlSig | CtlSigDone | CtlBc | CtlBcDone.

Record waiter := mkW { w_gate : gpos; w_ctx : nat; w_released : bool; w_pc : wpc }.
Record chan := mkCh { ch_tok : bool; ch_closed : bool }.

Record st := mkSt {
  ws : list waiter;
  chans : list chan;       (* indexed by generation; the current one is the last *)
  ctxs : list cstate;
  lck : option nat;        (* owner of the caller's Locker L *)
  ctl : cpc
}.

Definition cur (s : st) : nat := pred (length (chans s)).

Inductive lab :=
(* visible events (recorded by the harness) *)
| LSpawn (w : nat) | LCallWait (w : nat) | LUnlockEnter (w : nat) | LUnlockExit (w : nat)
| LRetWait (w : nat) (nil_ : bool) (held : bool)
| LCallSignal | LRetSignal | LCallBroadcast | LRetBroadcast
| LCancel (c : nat) | LRelease (w : nat) | LQuiesce
(* internal steps *)
| TLockL (w : nat)            (* waiter's initial L.Lock() *)
| TSnapshot (w : nat)
| TRealUnlock (w : nat)
| TSelCh (w : nat)            (* select takes the channel arm *)
| TSelCtx (w : nat)           (* select takes the ctx.Done arm *)
| TPark (w : nat)
| TRelock (w : nat)           (* L.Lock() at the end of Wait *)
| THarnessUnlock (w : nat)    (* the caller leaves its critical section *)
| TSigHandoff (w : nat)       (* Signal: token handed to parked waiter w *)
| TSigBuffer                  (* Signal: token stored in the one-slot buffer *)
| TSigDrop                    (* Signal: buffer full, default arm *)
| TBroadcast
| TCancelEff (c : nat).

(* ---- helpers ---- *)
Definition getw (s : st) (w : nat) : option waiter := nth_error (ws s) w.
Definition setw (s : st) (w : nat) (x : waiter) : st :=
  mkSt (upd (ws s) w x) (chans s) (ctxs s) (lck s) (ctl s).
Definition set_pc (x : waiter) (p : wpc) : waiter := mkW (w_gate x) (w_ctx x) (w_released x) p.
Definition with_lck (s : st) (l : option nat) : st := mkSt (ws s) (chans s) (ctxs s) l (ctl s).
Definition with_ctl (s : st) (c : cpc) : st := mkSt (ws s) (chans s) (ctxs s) (lck s) c.
Definition with_chans (s : st) (c : list chan) : st := mkSt (ws s) c (ctxs s) (lck s) (ctl s).
Definition with_ctxs (s : st) (c : list cstate) : st := mkSt (ws s) (chans s) c (lck s) (ctl s).
Definition with_ws (s : st) (l : list waiter) : st := mkSt l (chans s) (ctxs s) (lck s) (ctl s).

Definition ctx_done (s : st) (c : nat) : bool :=
  match nth_error (ctxs s) c with Some CDone => true | _ => false end.

Definition wpc_eqb (a b : wpc) : bool :=
  match a, b with
  | WIdle, WIdle | WStart, WStart | WHasLock, WHasLock | WCalled, WCalled
  | WWoken, WWoken | WLocked, WLocked | WCtxErr, WCtxErr | WRetNil, WRetNil | WDone, WDone => true
  | WSnap g, WSnap h | WSelect g, WSelect h | WParked g, WParked h => Nat.eqb g h
  | WInUnlock g u, WInUnlock h v => Nat.eqb g h && Bool.eqb u v
  | _, _ => false
  end.

Definition is_parked_on (g : nat) (x : waiter) : bool :=
  match w_pc x with WParked h => Nat.eqb g h | _ => false end.

Definition gate_open (x : waiter) (p : gpos) : bool :=
  match w_gate x, p with
  | GPre, GPre | GPost, GPost => w_released x
  | _, _ => true
  end.

(* ---- the transition function ---- *)
Definition step (s : st) (l : lab) : option st :=
  match l with
  | LSpawn w =>
      match getw s w with
      | Some x => match w_pc x with WIdle => Some (setw s w (set_pc x WStart)) | _ => None end
      | None => None
      end
  | TLockL w =>
      match getw s w, lck s with
      | Some x, None => match w_pc x with
                        | WStart => Some (with_lck (setw s w (set_pc x WHasLock)) (Some w))
                        | _ => None end
      | _, _ => None
      end
  | LCallWait w =>
      match getw s w with
      | Some x => match w_pc x with WHasLock => Some (setw s w (set_pc x WCalled)) | _ => None end
      | None => None
      end
  | TSnapshot w =>
      match getw s w with
      | Some x => match w_pc x with WCalled => Some (setw s w (set_pc x (WSnap (cur s)))) | _ => None end
      | None => None
      end
  | LUnlockEnter w =>
      match getw s w with
      | Some x => match w_pc x with WSnap g => Some (setw s w (set_pc x (WInUnlock g false))) | _ => None end
      | None => None
      end
  | TRealUnlock w =>
      match getw s w with
      | Some x => match w_pc x with
                  | WInUnlock g false =>
                      if gate_open x GPre
                      then Some (with_lck (setw s w (set_pc x (WInUnlock g true))) None)
                      else None
                  | _ => None end
      | None => None
      end
  | LUnlockExit w =>
      match getw s w with
      | Some x => match w_pc x with
                  | WInUnlock g true =>
                      if gate_open x GPost then Some (setw s w (set_pc x (WSelect g))) else None
                  | _ => None end
      | None => None
      end
  | TSelCh w =>
      match getw s w with
      | Some x => match w_pc x with
                  | WSelect g =>
                      match nth_error (chans s) g with
                      | Some c =>
                          if ch_closed c then Some (setw s w (set_pc x WWoken))
                          else if ch_tok c
                               then Some (setw (with_chans s (upd (chans s) g (mkCh false false))) w (set_pc x WWoken))
                               else None
                      | None => None
                      end
                  | _ => None end
      | None => None
      end
  | TSelCtx w =>
      match getw s w with
      | Some x => match w_pc x with
                  | WSelect g => if ctx_done s (w_ctx x) then Some (setw s w (set_pc x WCtxErr)) else None
                  | _ => None end
      | None => None
      end
  | TPark w =>
      match getw s w with
      | Some x => match w_pc x with
                  | WSelect g =>
                      match nth_error (chans s) g with
                      | Some c =>
                          if ch_closed c || ch_tok c || ctx_done s (w_ctx x) then None
                          else Some (setw s w (set_pc x (WParked g)))
                      | None => None
                      end
                  | _ => None end
      | None => None
      end
  | TRelock w =>
      match getw s w, lck s with
      | Some x, None => match w_pc x with
                        | WWoken => Some (with_lck (setw s w (set_pc x WLocked)) (Some w))
                        | _ => None end
      | _, _ => None
      end
  | LRetWait w nil_ held =>
      match getw s w with
      | Some x =>
          match w_pc x, nil_ with
          | WLocked, true =>
              if held then Some (setw s w (set_pc x WRetNil)) else None
          | WCtxErr, false =>
              (* the harness reports whether the calling goroutine owns L *)
              if held then None else Some (setw s w (set_pc x WDone))
          | _, _ => None
          end
      | None => None
      end
  | THarnessUnlock w =>
      match getw s w with
      | Some x => match w_pc x with
                  | WRetNil => Some (with_lck (setw s w (set_pc x WDone)) None)
                  | _ => None end
      | None => None
      end
  | LCallSignal => match ctl s with CtlIdle => Some (with_ctl s CtlSig) | _ => None end
  | TSigHandoff w =>
      match ctl s, getw s w with
      | CtlSig, Some x =>
          if is_parked_on (cur s) x then Some (with_ctl (setw s w (set_pc x WWoken)) CtlSigDone) else None
      | _, _ => None
      end
  | TSigBuffer =>
      match ctl s, nth_error (chans s) (cur s) with
      | CtlSig, Some c =>
          if existsb (is_parked_on (cur s)) (ws s) || ch_tok c then None
          else Some (with_ctl (with_chans s (upd (chans s) (cur s) (mkCh true (ch_closed c)))) CtlSigDone)
      | _, _ => None
      end
  | TSigDrop =>
      match ctl s, nth_error (chans s) (cur s) with
      | CtlSig, Some c =>
          if existsb (is_parked_on (cur s)) (ws s) || negb (ch_tok c) then None
          else Some (with_ctl s CtlSigDone)
      | _, _ => None
      end
  | LRetSignal => match ctl s with CtlSigDone => Some (with_ctl s CtlIdle) | _ => None end
  | LCallBroadcast => match ctl s with CtlIdle => Some (with_ctl s CtlBc) | _ => None end
  | TBroadcast =>
      match ctl s, nth_error (chans s) (cur s) with
      | CtlBc, Some c =>
          let g := cur s in
          let ws' := map (fun x => if is_parked_on g x then set_pc x WWoken else x) (ws s) in
          Some (with_ctl (with_ws (with_chans s (upd (chans s) g (mkCh (ch_tok c) true) ++ [mkCh false false])) ws') CtlBcDone)
      | _, _ => None
      end
  | LRetBroadcast => match ctl s with CtlBcDone => Some (with_ctl s CtlIdle) | _ => None end
  | LCancel c =>
      match ctl s, nth_error (ctxs s) c with
      | CtlIdle, Some CLive => Some (with_ctxs s (upd (ctxs s) c CReq))
      | CtlIdle, Some _ => Some s          (* cancelling twice is a no-op *)
      | _, _ => None
      end
  | TCancelEff c =>
      match nth_error (ctxs s) c with
      | Some CReq =>
          let ws' := map (fun x => match w_pc x with
                                   | WParked _ => if Nat.eqb (w_ctx x) c then set_pc x WCtxErr else x
                                   | _ => x end) (ws s) in
          Some (with_ws (with_ctxs s (upd (ctxs s) c CDone)) ws')
      | _ => None
      end
  | LRelease w =>
      match ctl s, getw s w with
      | CtlIdle, Some x => Some (setw s w (mkW (w_gate x) (w_ctx x) true (w_pc x)))
      | _, _ => None
      end
  | LQuiesce => None     (* replaced by [qstep] below: needs the enabledness of other labels *)
  end.

(* ---- label enumeration for the matcher ---- *)
Definition tau_labels (s : st) : list lab :=
  let n := length (ws s) in
  flat_map (fun w => [TLockL w; TSnapshot w; TRealUnlock w; TSelCh w; TSelCtx w; TPark w; TRelock w;
                      THarnessUnlock w; TSigHandoff w]) (seq 0 n)
  ++ [TSigBuffer; TSigDrop; TBroadcast]
  ++ map TCancelEff (seq 0 (length (ctxs s))).

(* visible labels that the library/harness goroutines (not the controller) can emit *)
Definition lib_visible (s : st) : list lab :=
  flat_map (fun w => [LCallWait w; LUnlockEnter w; LUnlockExit w;
                      LRetWait w true true; LRetWait w true false; LRetWait w false true; LRetWait w false false])
           (seq 0 (length (ws s)))
  ++ [LRetSignal; LRetBroadcast].

Definition enabled (s : st) (l : lab) : bool := match step s l with Some _ => true | None => false end.

(* nothing can happen without the controller: what the harness's quiescence detector observes *)
Definition quiescent (s : st) : bool :=
  negb (existsb (enabled s) (tau_labels s)) && negb (existsb (enabled s) (lib_visible s)).

Definition qstep (s : st) (l : lab) : option st :=
  match l with
  | LQuiesce => if quiescent s then Some s else None
  | _ => step s l
  end.

(* ---- events ---- *)
Definition vis (l : lab) : option lab :=
  match l with
  | LSpawn _ | LCallWait _ | LUnlockEnter _ | LUnlockExit _ | LRetWait _ _ _
  | LCallSignal | LRetSignal | LCallBroadcast | LRetBroadcast | LCancel _ | LRelease _ | LQuiesce => Some l
  | _ => None
  end.

Definition lab_eqb (a b : lab) : bool :=
  match a, b with
  | LSpawn x, LSpawn y | LCallWait x, LCallWait y | LUnlockEnter x, LUnlockEnter y
  | LUnlockExit x, LUnlockExit y | LCancel x, LCancel y | LRelease x, LRelease y => Nat.eqb x y
  | LRetWait x n h, LRetWait y m k => Nat.eqb x y && Bool.eqb n m && Bool.eqb h k
  | LCallSignal, LCallSignal | LRetSignal, LRetSignal | LCallBroadcast, LCallBroadcast
  | LRetBroadcast, LRetBroadcast | LQuiesce, LQuiesce => true
  | _, _ => false
  end.

Definition gpos_eqb (a b : gpos) : bool :=
  match a, b with GNone, GNone | GPre, GPre | GPost, GPost => true | _, _ => false end.
Definition waiter_eqb (a b : waiter) : bool :=
  gpos_eqb (w_gate a) (w_gate b) && Nat.eqb (w_ctx a) (w_ctx b) && Bool.eqb (w_released a) (w_released b)
  && wpc_eqb (w_pc a) (w_pc b).
Definition chan_eqb (a b : chan) : bool := Bool.eqb (ch_tok a) (ch_tok b) && Bool.eqb (ch_closed a) (ch_closed b).
Definition cstate_eqb (a b : cstate) : bool :=
  match a, b with CLive, CLive | CReq, CReq | CDone, CDone => true | _, _ => false end.
Definition cpc_eqb (a b : cpc) : bool :=
  match a, b with
  | CtlIdle, CtlIdle | CtlSig, CtlSig | CtlSigDone, CtlSigDone | CtlBc, CtlBc | CtlBcDone, CtlBcDone => true
  | _, _ => false end.
Fixpoint list_eqb {A} (eqb : A -> A -> bool) (a b : list A) : bool :=
  match a, b with
  | [], [] => true
  | x :: a', y :: b' => eqb x y && list_eqb eqb a' b'
  | _, _ => false
  end.
Definition optnat_eqb (a b : option nat) : bool :=
  match a, b with None, None => true | Some x, Some y => Nat.eqb x y | _, _ => false end.
Definition st_eqb (a b : st) : bool :=
  list_eqb waiter_eqb (ws a) (ws b) && list_eqb chan_eqb (chans a) (chans b)
  && list_eqb cstate_eqb (ctxs a) (ctxs b) && optnat_eqb (lck a) (lck b) && cpc_eqb (ctl a) (ctl b).

(* the initial state of a scenario: waiter w has gate position and context id as configured *)
Definition init (cfg : list (gpos * nat)) (nctx : nat) : st :=
  mkSt (map (fun p => mkW (fst p) (snd p) false WIdle) cfg) [mkCh false false] (repeat CLive nctx) None CtlIdle.

(* history acceptance: some run of the model produces exactly the recorded events, in order *)
Definition accepts_history (cfg : list (gpos * nat)) (nctx : nat) (evs : list lab) : bool :=
  accepts qstep vis lab_eqb st_eqb tau_labels (fun _ e => [e]) 64 (init cfg nctx) evs.

Definition first_rejected (cfg : list (gpos * nat)) (nctx : nat) (evs : list lab) : option nat :=
  first_reject qstep vis lab_eqb st_eqb tau_labels (fun _ e => [e]) 64
               (close qstep vis st_eqb tau_labels 64 [init cfg nctx]) evs O.
