(* C13 — proofs about the LTS model of parallel.Do / DoContext / Map / MapContext (Conc/ParDo.v).

   Invariants of every state reachable by [qstep] from [init c gated], for every configuration
   (any n, any requested parallelism, any GOMAXPROCS >= 1, any gating, any results chosen by f, any
   cancellation of the caller's context), in five groups:
     InvA  index bookkeeping (each index is handed out once; started / finished ghosts)
     InvB  structure (number of workers, what holds once the caller is past Wait, provenance of a Done context)
     InvC  errors and completeness (what the first-error cell contains; nothing is skipped unless something failed)
     InvD  calls that begin with a cancelled context
     InvP  positional writes of the Map wrappers
   then the C13 lemmas, the variant, progress, and the soundness of the matcher's eager steps.
   Stdlib only, no axioms. *)
From Juniper Require Import Common.Base Conc.GoLTS Conc.ParDo.
From Coq Require Import Arith PeanoNat Permutation.
Local Open Scope nat_scope.

(* ------------------------------------------------------------------ *)
(* list helpers                                                        *)
(* ------------------------------------------------------------------ *)

Lemma nth_upd {A} (l : list A) n m x :
  nth_error (upd l n x) m = if Nat.eq_dec n m then (if lt_dec n (length l) then Some x else None)
                            else nth_error l m.
Proof.
  destruct (Nat.eq_dec n m) as [->|Hne].
  - destruct (lt_dec m (length l)) as [Hlt|Hge].
    + apply nth_error_upd_same; exact Hlt.
    + apply nth_error_None. rewrite upd_length. lia.
  - apply nth_error_upd_other; exact Hne.
Qed.

Lemma nth_lt {A} (l : list A) n x : nth_error l n = Some x -> n < length l.
Proof. intros H. apply nth_error_Some. congruence. Qed.

Lemma nth_upd_same {A} (l : list A) n x y : nth_error l n = Some y -> nth_error (upd l n x) n = Some x.
Proof. intros H. apply nth_error_upd_same. eapply nth_lt; eauto. Qed.

(* case analysis on a read of an updated worker list *)
Lemma nth_upd_inv {A} (l : list A) n m x y :
  nth_error (upd l n x) m = Some y -> (n = m /\ y = x) \/ (n <> m /\ nth_error l m = Some y).
Proof.
  rewrite nth_upd. destruct (Nat.eq_dec n m) as [E|E].
  - destruct (lt_dec n (length l)); [|discriminate]. intros H; inversion H; auto.
  - auto.
Qed.

Lemma nth_repeat {A} (x y : A) n m : nth_error (repeat x n) m = Some y -> y = x.
Proof. intros H. apply nth_error_In in H. apply repeat_spec in H. exact H. Qed.

Fixpoint cnt {A} (f : A -> bool) (l : list A) : nat :=
  match l with [] => 0 | x :: t => (if f x then 1 else 0) + cnt f t end.

Lemma cnt_le {A} (f : A -> bool) l : cnt f l <= length l.
Proof. induction l as [|x t IH]; simpl; [lia|]. destruct (f x); lia. Qed.

Lemma cnt_upd {A} (f : A -> bool) l n x y :
  nth_error l n = Some y ->
  cnt f (upd l n x) + (if f y then 1 else 0) = cnt f l + (if f x then 1 else 0).
Proof.
  revert n; induction l as [|h t IH]; intros [|n] H; simpl in *; try discriminate.
  - inversion H; subst. lia.
  - specialize (IH n H). lia.
Qed.

Lemma cnt_lt {A} (f : A -> bool) l n y : nth_error l n = Some y -> f y = false -> cnt f l + 1 <= length l.
Proof.
  revert n; induction l as [|h t IH]; intros [|n] H Hf; simpl in *; try discriminate.
  - inversion H; subst. rewrite Hf. pose proof (cnt_le f t). lia.
  - specialize (IH n H Hf). destruct (f h); lia.
Qed.

Lemma cnt_zero {A} (f : A -> bool) l : (forall n y, nth_error l n = Some y -> f y = false) -> cnt f l = 0.
Proof.
  induction l as [|h t IH]; intros H; simpl; [reflexivity|].
  rewrite (H 0 h eq_refl). rewrite IH; [reflexivity|]. intros n y Hn. apply (H (S n) y Hn).
Qed.

Lemma cnt_pos {A} (f : A -> bool) l n y : nth_error l n = Some y -> f y = true -> 1 <= cnt f l.
Proof.
  revert n; induction l as [|h t IH]; intros [|n] H Hf; simpl in *; try discriminate.
  - inversion H; subst. rewrite Hf. lia.
  - specialize (IH n H Hf). lia.
Qed.

Lemma forallb_nth {A} (f : A -> bool) l : forallb f l = true <-> (forall n y, nth_error l n = Some y -> f y = true).
Proof.
  rewrite forallb_forall. split.
  - intros H n y Hn. apply H. eapply nth_error_In; eauto.
  - intros H x Hx. apply In_nth_error in Hx. destruct Hx as [n Hn]. eauto.
Qed.

Lemma forallb_or_witness {A} (f : A -> bool) l :
  forallb f l = true \/ exists n y, nth_error l n = Some y /\ f y = false.
Proof.
  induction l as [|h t IH]; simpl; [left; reflexivity|].
  destruct (f h) eqn:E.
  - destruct IH as [IH|(n & y & Hn & Hy)]; [left; exact IH | right; exists (S n), y; auto].
  - right. exists 0, h. auto.
Qed.

Lemma in_map_fst_app {A B} (f : A -> B) l x y : In y (map f (l ++ [x])) <-> In y (map f l) \/ y = f x.
Proof. rewrite map_app, in_app_iff. simpl. intuition. Qed.

Lemma NoDup_snoc {A} (l : list A) x : NoDup l -> ~ In x l -> NoDup (l ++ [x]).
Proof.
  intros Hnd Hx. induction l as [|h t IH]; simpl.
  - constructor; [intros []|constructor].
  - inversion Hnd as [|? ? Hh Ht]; subst. constructor.
    + rewrite in_app_iff. simpl. intros [H|[H|[]]]; [auto|]. subst. apply Hx. left; reflexivity.
    + apply IH; [exact Ht|]. intros H. apply Hx. right; exact H.
Qed.

(* ------------------------------------------------------------------ *)
(* inversion of the transition function, one lemma per label           *)
(* ------------------------------------------------------------------ *)

Ltac inv_step H :=
  unfold step in H;
  repeat (match type of H with
          | context [match ?x with _ => _ end] => destruct x eqn:?; try discriminate
          end);
  inversion H; subst; clear H.

Lemma step_LCall s s' : step s LCall = Some s' ->
  pc s = MIdle /\
  s' = mkSt (cfg s) MWait (repeat WFetch (eff (cfg s))) (next s) (cctx s) (dctx s) (errc s)
            (out s) (gopen s) (owner s) (started s) (finished s) (cstarts s).
Proof. intros H. inv_step H. auto. Qed.

Lemma step_TFetch s w s' : step s (TFetch w) = Some s' ->
  nth_error (ws s) w = Some WFetch /\
  s' = mkSt (cfg s) (pc s)
            (upd (ws s) w (if next s <? c_n (cfg s)
                           then (if use_eg (cfg s) then WCheck (next s) else WCall (next s))
                           else WRet None))
            (S (next s)) (cctx s) (dctx s) (errc s) (out s) (gopen s)
            (owner s ++ [w]) (started s) (finished s) (cstarts s).
Proof. intros H. inv_step H; auto. Qed.

Lemma step_TCheck s w s' : step s (TCheck w) = Some s' ->
  exists i, nth_error (ws s) w = Some (WCheck i) /\
            s' = setw s w (if dctx s then WRet (Some ECtx) else WCall i).
Proof. intros H. inv_step H; eauto. Qed.

Lemma step_LEnter s w i c s' : step s (LEnter w i c) = Some s' ->
  nth_error (ws s) w = Some (WCall i) /\ c = dctx s /\
  s' = mkSt (cfg s) (pc s) (upd (ws s) w (WIn i)) (next s) (cctx s) (dctx s) (errc s) (out s)
            (gopen s) (owner s) (started s ++ [i]) (finished s)
            (cstarts s + (if c && negb (cdone (cctx s)) then 1 else 0)).
Proof.
  intros H. unfold step in H.
  destruct (nth_error (ws s) w) as [[| | j | | | |]|] eqn:Hw; try discriminate.
  destruct ((i =? j) && Bool.eqb c (dctx s)) eqn:Hc; [|discriminate].
  apply andb_true_iff in Hc. destruct Hc as [Hi Hc]. apply Nat.eqb_eq in Hi. apply eqb_prop in Hc. subst j.
  inversion H; subst. auto.
Qed.

Lemma step_LExit s w i r v s' : step s (LExit w i r v) = Some s' ->
  nth_error (ws s) w = Some (WIn i) /\ gate_open s i = true /\
  (c_ctx (cfg s) = false -> r = None) /\ (c_map (cfg s) = false -> v = 0%Z) /\
  s' = mkSt (cfg s) (pc s) (upd (ws s) w (if c_map (cfg s) then WWrite i v r else after_call r))
            (next s) (cctx s) (dctx s) (errc s) (out s) (gopen s) (owner s) (started s)
            (finished s ++ [(i, r, v)]) (cstarts s).
Proof.
  intros H. unfold step in H.
  destruct (nth_error (ws s) w) as [[| | | j | | |]|] eqn:Hw; try discriminate.
  match type of H with (if ?b then _ else _) = _ => destruct b eqn:Hc; [|discriminate] end.
  repeat (apply andb_true_iff in Hc; destruct Hc as [Hc ?]).
  apply Nat.eqb_eq in Hc. subst j. inversion H; subst.
  repeat split; auto.
  - intros E. rewrite E in *. simpl in *. destruct r; [discriminate|reflexivity].
  - intros E. rewrite E in *. simpl in *. apply Z.eqb_eq. assumption.
Qed.

Lemma step_TWrite s w s' : step s (TWrite w) = Some s' ->
  exists i v r, nth_error (ws s) w = Some (WWrite i v r) /\
  s' = mkSt (cfg s) (pc s) (upd (ws s) w (after_call r)) (next s) (cctx s) (dctx s) (errc s)
            (upd (out s) i v) (gopen s) (owner s) (started s) (finished s) (cstarts s).
Proof. intros H. inv_step H; eauto. Qed.

Lemma step_TFinish s w s' : step s (TFinish w) = Some s' ->
  exists r, nth_error (ws s) w = Some (WRet r) /\
  ((exists e, r = Some e /\ errc s = None /\
              s' = mkSt (cfg s) (pc s) (upd (ws s) w WDone) (next s) (cctx s) (dctx s || use_eg (cfg s)) (Some e)
                        (out s) (gopen s) (owner s) (started s) (finished s) (cstarts s))
   \/ ((r = None \/ errc s <> None) /\ s' = setw s w WDone)).
Proof.
  intros H. unfold step in H.
  destruct (nth_error (ws s) w) as [[| | | | | r |]|] eqn:Hw; try discriminate.
  exists r. split; [reflexivity|].
  destruct r as [e|]; [destruct (errc s) eqn:He|]; inversion H; subst.
  - right. split; [right; congruence | reflexivity].
  - left. exists e. auto.
  - right. auto.
Qed.

Lemma step_TWait s s' : step s TWait = Some s' ->
  pc s = MWait /\ (forall w p, nth_error (ws s) w = Some p -> p = WDone) /\
  s' = mkSt (cfg s) (MRetp (errc s)) (ws s) (next s) (cctx s) (dctx s || use_eg (cfg s)) (errc s)
            (out s) (gopen s) (owner s) (started s) (finished s) (cstarts s).
Proof.
  intros H. unfold step in H. destruct (pc s) eqn:Hp; try discriminate.
  destruct (forallb is_done (ws s)) eqn:Hf; [|discriminate]. inversion H; subst.
  split; [reflexivity|]. split; [|reflexivity].
  intros w p Hw. rewrite forallb_nth in Hf. specialize (Hf w p Hw). destruct p; try discriminate. reflexivity.
Qed.

Lemma orerr_eqb_eq a b : orerr_eqb a b = true -> a = b.
Proof.
  destruct a as [[|x]|], b as [[|y]|]; simpl; try discriminate; auto.
  intros H. apply Nat.eqb_eq in H. subst. reflexivity.
Qed.

Lemma zlist_eqb_eq a : forall b, zlist_eqb a b = true -> a = b.
Proof.
  induction a as [|x a IH]; intros [|y b]; simpl; try discriminate; auto.
  intros H. apply andb_true_iff in H. destruct H as [H1 H2]. apply Z.eqb_eq in H1. subst. f_equal. auto.
Qed.

Lemma zlist_eqb_refl a : zlist_eqb a a = true.
Proof. induction a as [|x a IH]; simpl; [reflexivity|]. rewrite Z.eqb_refl. exact IH. Qed.

Lemma ozlist_eqb_eq a b : ozlist_eqb a b = true -> a = b.
Proof. destruct a, b; simpl; try discriminate; auto. intros H. f_equal. apply zlist_eqb_eq; exact H. Qed.

Lemma orerr_eqb_refl a : orerr_eqb a a = true.
Proof. destruct a as [[|x]|]; simpl; auto. apply Nat.eqb_refl. Qed.

Lemma step_LRet s r o s' : step s (LRet r o) = Some s' ->
  pc s = MRetp r /\ o = ret_out s r /\
  s' = mkSt (cfg s) (MDone r) (ws s) (next s) (cctx s) (dctx s) (errc s) (out s) (gopen s)
            (owner s) (started s) (finished s) (cstarts s).
Proof.
  intros H. unfold step in H. destruct (pc s) as [| |r'|] eqn:Hp; try discriminate.
  destruct (orerr_eqb r r' && ozlist_eqb o (ret_out s r)) eqn:Hc; [|discriminate].
  apply andb_true_iff in Hc. destruct Hc as [H1 H2]. apply orerr_eqb_eq in H1. apply ozlist_eqb_eq in H2.
  subst. inversion H; subst. auto.
Qed.

Lemma step_LCancel s s' : step s LCancel = Some s' ->
  s' = mkSt (cfg s) (pc s) (ws s) (next s) (match cctx s with CLive => CReq | c => c end) (dctx s) (errc s)
            (out s) (gopen s) (owner s) (started s) (finished s) (cstarts s).
Proof. intros H. simpl in H. inversion H; reflexivity. Qed.

Lemma step_TCancelEff s s' : step s TCancelEff = Some s' ->
  cctx s = CReq /\
  s' = mkSt (cfg s) (pc s) (ws s) (next s) CDone (dctx s || c_ctx (cfg s)) (errc s)
            (out s) (gopen s) (owner s) (started s) (finished s) (cstarts s).
Proof. intros H. simpl in H. destruct (cctx s); try discriminate. inversion H; auto. Qed.

Lemma step_LCancelDone s s' : step s LCancelDone = Some s' -> cctx s = CDone /\ s' = s.
Proof. intros H. simpl in H. destruct (cctx s); simpl in H; try discriminate. inversion H; auto. Qed.

Lemma step_LRelease s i s' : step s (LRelease i) = Some s' ->
  s' = mkSt (cfg s) (pc s) (ws s) (next s) (cctx s) (dctx s) (errc s) (out s) (upd (gopen s) i true)
            (owner s) (started s) (finished s) (cstarts s).
Proof. intros H. simpl in H. inversion H; reflexivity. Qed.

Lemma qstep_LQuiesce s s' : qstep s LQuiesce = Some s' -> s' = s.
Proof. simpl. destruct (quiescent s); [|discriminate]. intros H; inversion H; reflexivity. Qed.

(* ------------------------------------------------------------------ *)
(* InvA: index bookkeeping                                             *)
(* ------------------------------------------------------------------ *)

Definition pidx (p : wpc) : option nat :=
  match p with WCheck i | WCall i | WIn i | WWrite i _ _ => Some i | _ => None end.
Definition held (p : wpc) : option nat :=
  match p with WCheck i | WCall i => Some i | _ => None end.
Definition fidx (x : nat * option nat * Z) : nat := fst (fst x).
Definition ferr (x : nat * option nat * Z) : option nat := snd (fst x).

Record InvA (s : st) : Prop := mkInvA {
  A_idle : pc s = MIdle -> ws s = [] /\ started s = [];
  A_next : next s = length (owner s);
  A_own : forall w p i, nth_error (ws s) w = Some p -> pidx p = Some i ->
                        nth_error (owner s) i = Some w /\ i < c_n (cfg s);
  A_st_lt : forall i, In i (started s) -> i < next s /\ i < c_n (cfg s);
  A_st_nd : NoDup (started s);
  A_held : forall w p i, nth_error (ws s) w = Some p -> held p = Some i -> ~ In i (started s);
  A_run : forall w p i, nth_error (ws s) w = Some p -> pidx p = Some i -> held p = None -> In i (started s);
  A_fin_nd : NoDup (map fidx (finished s));
  A_fin_st : forall x, In x (finished s) -> In (fidx x) (started s);
  A_in_nf : forall w i, nth_error (ws s) w = Some (WIn i) -> ~ In i (map fidx (finished s));
  A_wr_fin : forall w i v r, nth_error (ws s) w = Some (WWrite i v r) -> In (i, r, v) (finished s);
  A_st_cov : forall i, In i (started s) ->
                       In i (map fidx (finished s)) \/ exists w, nth_error (ws s) w = Some (WIn i)
}.

(* two workers never hold the same index *)
Lemma A_unique s w1 w2 p1 p2 i :
  InvA s -> nth_error (ws s) w1 = Some p1 -> nth_error (ws s) w2 = Some p2 ->
  pidx p1 = Some i -> pidx p2 = Some i -> w1 = w2.
Proof.
  intros HA H1 H2 P1 P2.
  destruct (A_own s HA w1 p1 i H1 P1) as [E1 _]. destruct (A_own s HA w2 p2 i H2 P2) as [E2 _]. congruence.
Qed.

(* a worker changes its pc without touching the counter or the ghosts; it does not leave f *)
Lemma InvA_local s s' w p p' :
  InvA s -> (pc s' = MIdle -> pc s = MIdle) ->
  cfg s' = cfg s -> next s' = next s -> owner s' = owner s -> started s' = started s ->
  finished s' = finished s -> ws s' = upd (ws s) w p' ->
  nth_error (ws s) w = Some p -> (forall i, p <> WIn i) ->
  (pidx p' = None \/ exists i, p = WCheck i /\ p' = WCall i) ->
  InvA s'.
Proof.
  intros HA Epc Ec En Eo Es Ef Ew Hw Hnin Hp'.
  constructor; rewrite ?Ec, ?En, ?Eo, ?Es, ?Ef, ?Ew.
  - intros Hi. destruct (A_idle s HA (Epc Hi)) as [E _]. rewrite E in Hw. destruct w; discriminate.
  - apply (A_next s HA).
  - intros w2 q i Hq Pq. apply nth_upd_inv in Hq. destruct Hq as [[-> ->]|[Hne Hq]].
    + destruct Hp' as [Hn|(j & -> & ->)]; [congruence|]. simpl in Pq. inversion Pq; subst.
      apply (A_own s HA w2 (WCheck i) i Hw eq_refl).
    + apply (A_own s HA w2 q i Hq Pq).
  - apply (A_st_lt s HA).
  - apply (A_st_nd s HA).
  - intros w2 q i Hq Pq. apply nth_upd_inv in Hq. destruct Hq as [[-> ->]|[Hne Hq]].
    + destruct Hp' as [Hn|(j & -> & ->)]; [destruct p'; simpl in *; congruence|].
      simpl in Pq. inversion Pq; subst. apply (A_held s HA w2 (WCheck i) i Hw eq_refl).
    + apply (A_held s HA w2 q i Hq Pq).
  - intros w2 q i Hq Pq Hh. apply nth_upd_inv in Hq. destruct Hq as [[-> ->]|[Hne Hq]].
    + destruct Hp' as [Hn|(j & -> & ->)]; [congruence|]. simpl in Hh. discriminate.
    + apply (A_run s HA w2 q i Hq Pq Hh).
  - apply (A_fin_nd s HA).
  - apply (A_fin_st s HA).
  - intros w2 i Hq. apply nth_upd_inv in Hq. destruct Hq as [[-> E]|[Hne Hq]].
    + destruct Hp' as [Hn|(j & _ & Hj)]; [rewrite <- E in Hn; simpl in Hn; discriminate | congruence].
    + apply (A_in_nf s HA w2 i Hq).
  - intros w2 i v r Hq. apply nth_upd_inv in Hq. destruct Hq as [[-> E]|[Hne Hq]].
    + destruct Hp' as [Hn|(j & _ & Hj)]; [rewrite <- E in Hn; simpl in Hn; discriminate | congruence].
    + apply (A_wr_fin s HA w2 i v r Hq).
  - intros i Hi. destruct (A_st_cov s HA i Hi) as [H|[w2 H2]]; [left; exact H|]. right.
    exists w2. rewrite nth_upd. destruct (Nat.eq_dec w w2) as [E|E]; [|exact H2].
    subst w2. rewrite Hw in H2. inversion H2. exfalso. eapply Hnin; eauto.
Qed.

(* nothing that InvA looks at changes *)
Lemma InvA_same s s' :
  InvA s -> (pc s' = MIdle -> pc s = MIdle) ->
  cfg s' = cfg s -> next s' = next s -> owner s' = owner s -> started s' = started s ->
  finished s' = finished s -> ws s' = ws s -> InvA s'.
Proof.
  intros HA Epc Ec En Eo Es Ef Ew. destruct HA.
  constructor; rewrite ?Ec, ?En, ?Eo, ?Es, ?Ef, ?Ew; try assumption.
  intros Hi. auto.
Qed.

Lemma InvA_init c g : InvA (init c g).
Proof.
  constructor; simpl; auto.
  all: try (intros w; intros; destruct w; discriminate).
  all: try (intros; contradiction).
  all: constructor.
Qed.

Lemma after_call_pidx r : pidx (after_call r) = None.
Proof. destruct r; reflexivity. Qed.

Lemma InvA_step s l s' : InvA s -> qstep s l = Some s' -> InvA s'.
Proof.
  intros HA H.
  destruct l as [| w i c | w i r v | r o | | | i | | w | w | w | w | | ]; simpl qstep in H.
  - (* LCall *) apply step_LCall in H. destruct H as [Hp ->].
    destruct (A_idle s HA Hp) as [Ews Est].
    destruct HA. constructor; simpl; auto.
    + discriminate.
    + intros w p i Hw Pp. apply nth_repeat in Hw. subst p. discriminate.
    + intros w p i Hw Pp. apply nth_repeat in Hw. subst p. discriminate.
    + intros w p i Hw Pp. apply nth_repeat in Hw. subst p. discriminate.
    + intros w i Hw. apply nth_repeat in Hw. discriminate.
    + intros w i v r Hw. apply nth_repeat in Hw. discriminate.
    + intros i Hi. rewrite Est in Hi. contradiction.
  - (* LEnter *) apply step_LEnter in H. destruct H as (Hw & Hc & ->).
    assert (Hwlt : w < length (ws s)) by (eapply nth_lt; eauto).
    pose proof (A_own s HA w (WCall i) i Hw eq_refl) as [Hown Hin].
    pose proof (A_held s HA w (WCall i) i Hw eq_refl) as Hnst.
    constructor; simpl.
    + intros Hi. destruct (A_idle s HA Hi) as [E _]. rewrite E in Hw. destruct w; discriminate.
    + apply (A_next s HA).
    + intros w2 q j Hq Pq. apply nth_upd_inv in Hq. destruct Hq as [[<- ->]|[Hne Hq]].
      * simpl in Pq. inversion Pq; subst. auto.
      * apply (A_own s HA w2 q j Hq Pq).
    + intros j Hj. apply in_app_iff in Hj. destruct Hj as [Hj|[<-|[]]].
      * apply (A_st_lt s HA j Hj).
      * split; [|exact Hin]. rewrite (A_next s HA). eapply nth_lt; eauto.
    + apply NoDup_snoc; [apply (A_st_nd s HA) | exact Hnst].
    + intros w2 q j Hq Pq. apply nth_upd_inv in Hq. destruct Hq as [[<- ->]|[Hne Hq]]; [discriminate|].
      intros Hj. apply in_app_iff in Hj. destruct Hj as [Hj|[<-|[]]].
      * apply (A_held s HA w2 q j Hq Pq Hj).
      * apply Hne. apply (A_unique s w w2 (WCall i) q i HA Hw Hq eq_refl).
        destruct q; simpl in Pq; try discriminate; exact Pq.
    + intros w2 q j Hq Pq Hh. apply in_app_iff. apply nth_upd_inv in Hq. destruct Hq as [[<- ->]|[Hne Hq]].
      * simpl in Pq. inversion Pq. right; left; reflexivity.
      * left. apply (A_run s HA w2 q j Hq Pq Hh).
    + apply (A_fin_nd s HA).
    + intros x Hx. apply in_app_iff. left. apply (A_fin_st s HA x Hx).
    + intros w2 j Hq. apply nth_upd_inv in Hq. destruct Hq as [[<- E]|[Hne Hq]].
      * inversion E; subst j. intros Hf. apply Hnst. apply in_map_iff in Hf. destruct Hf as (x & Ex & Hx).
        rewrite <- Ex. apply (A_fin_st s HA x Hx).
      * apply (A_in_nf s HA w2 j Hq).
    + intros w2 j v r Hq. apply nth_upd_inv in Hq. destruct Hq as [[<- E]|[Hne Hq]]; [discriminate|].
      apply (A_wr_fin s HA w2 j v r Hq).
    + intros j Hj. apply in_app_iff in Hj. destruct Hj as [Hj|[<-|[]]].
      * destruct (A_st_cov s HA j Hj) as [Hf|[w2 H2]]; [left; exact Hf|]. right. exists w2.
        rewrite nth_upd. destruct (Nat.eq_dec w w2) as [E|E]; [|exact H2]. subst w2. congruence.
      * right. exists w. eapply nth_upd_same; eauto.
  - (* LExit *) apply step_LExit in H. destruct H as (Hw & Hg & Hr & Hv & ->).
    pose proof (A_own s HA w (WIn i) i Hw eq_refl) as [Hown Hin].
    pose proof (A_run s HA w (WIn i) i Hw eq_refl eq_refl) as Hst.
    pose proof (A_in_nf s HA w i Hw) as Hnf.
    set (pn := if c_map (cfg s) then WWrite i v r else after_call r).
    assert (Hpn : pn = WWrite i v r \/ pidx pn = None).
    { unfold pn. destruct (c_map (cfg s)); [left; reflexivity | right; apply after_call_pidx]. }
    constructor; simpl; fold pn.
    + intros Hi. destruct (A_idle s HA Hi) as [E _]. rewrite E in Hw. destruct w; discriminate.
    + apply (A_next s HA).
    + intros w2 q j Hq Pq. apply nth_upd_inv in Hq. destruct Hq as [[<- ->]|[Hne Hq]].
      * destruct Hpn as [E|E]; [|congruence]. rewrite E in Pq. simpl in Pq. inversion Pq; subst. auto.
      * apply (A_own s HA w2 q j Hq Pq).
    + apply (A_st_lt s HA).
    + apply (A_st_nd s HA).
    + intros w2 q j Hq Pq. apply nth_upd_inv in Hq. destruct Hq as [[<- ->]|[Hne Hq]].
      * destruct Hpn as [E|E]; [rewrite E in Pq; discriminate|]. destruct pn; simpl in *; congruence.
      * apply (A_held s HA w2 q j Hq Pq).
    + intros w2 q j Hq Pq Hh. apply nth_upd_inv in Hq. destruct Hq as [[<- ->]|[Hne Hq]].
      * destruct Hpn as [E|E]; [|congruence]. rewrite E in Pq. simpl in Pq. inversion Pq; subst. exact Hst.
      * apply (A_run s HA w2 q j Hq Pq Hh).
    + rewrite map_app. simpl. apply NoDup_snoc; [apply (A_fin_nd s HA) | exact Hnf].
    + intros x Hx. apply in_app_iff in Hx. destruct Hx as [Hx|[<-|[]]]; [apply (A_fin_st s HA x Hx) | exact Hst].
    + intros w2 j Hq. apply nth_upd_inv in Hq. destruct Hq as [[<- E]|[Hne Hq]].
      * destruct Hpn as [E'|E']; [congruence | rewrite <- E in E'; discriminate].
      * intros Hf. apply in_map_fst_app in Hf. destruct Hf as [Hf|Hf].
        -- apply (A_in_nf s HA w2 j Hq Hf).
        -- simpl in Hf. subst j. apply Hne. apply (A_unique s w w2 (WIn i) (WIn i) i HA Hw Hq eq_refl eq_refl).
    + intros w2 j v2 r2 Hq. apply in_app_iff. apply nth_upd_inv in Hq. destruct Hq as [[<- E]|[Hne Hq]].
      * destruct Hpn as [E'|E']; [|rewrite <- E in E'; discriminate].
        rewrite E' in E. inversion E; subst. right; left; reflexivity.
      * left. apply (A_wr_fin s HA w2 j v2 r2 Hq).
    + intros j Hj. destruct (A_st_cov s HA j Hj) as [Hf|[w2 H2]].
      * left. apply in_map_fst_app. left; exact Hf.
      * destruct (Nat.eq_dec w w2) as [E|E].
        -- subst w2. rewrite Hw in H2. inversion H2; subst j. left. apply in_map_fst_app. right; reflexivity.
        -- right. exists w2. rewrite nth_upd. destruct (Nat.eq_dec w w2); [contradiction|exact H2].
  - (* LRet *) apply step_LRet in H. destruct H as (Hp & Ho & ->).
    apply (InvA_same s); auto. simpl. discriminate.
  - (* LCancel *) apply step_LCancel in H. subst s'. apply (InvA_same s); auto.
  - (* LCancelDone *) apply step_LCancelDone in H. destruct H as [_ ->]. exact HA.
  - (* LRelease *) apply step_LRelease in H. subst s'. apply (InvA_same s); auto.
  - (* LQuiesce *) apply qstep_LQuiesce in H. subst s'. exact HA.
  - (* TFetch *) apply step_TFetch in H. destruct H as (Hw & ->).
    set (pn := if next s <? c_n (cfg s) then (if use_eg (cfg s) then WCheck (next s) else WCall (next s)) else WRet None).
    assert (Hpn : (pidx pn = None /\ held pn = None) \/ (next s < c_n (cfg s) /\ pidx pn = Some (next s) /\ held pn = Some (next s))).
    { unfold pn. destruct (next s <? c_n (cfg s)) eqn:E; [right|left; auto].
      apply Nat.ltb_lt in E. destruct (use_eg (cfg s)); auto. }
    assert (Hnin : forall j, pn <> WIn j) by (intros j; unfold pn; destruct (next s <? c_n (cfg s)), (use_eg (cfg s)); discriminate).
    assert (Hnwr : forall j v r, pn <> WWrite j v r) by (intros j v r; unfold pn; destruct (next s <? c_n (cfg s)), (use_eg (cfg s)); discriminate).
    constructor; simpl; fold pn.
    + intros Hi. destruct (A_idle s HA Hi) as [E _]. rewrite E in Hw. destruct w; discriminate.
    + rewrite app_length. simpl. rewrite (A_next s HA). lia.
    + intros w2 q j Hq Pq. apply nth_upd_inv in Hq. destruct Hq as [[<- ->]|[Hne Hq]].
      * destruct Hpn as [[E _]|(Hlt & E & _)]; [congruence|]. rewrite E in Pq. inversion Pq; subst j.
        split; [|exact Hlt]. rewrite (A_next s HA). rewrite nth_error_app2 by lia.
        rewrite Nat.sub_diag. reflexivity.
      * destruct (A_own s HA w2 q j Hq Pq) as [Ho Hlt]. split; [|exact Hlt].
        rewrite nth_error_app1; [exact Ho | eapply nth_lt; eauto].
    + intros j Hj. destruct (A_st_lt s HA j Hj). split; [lia|assumption].
    + apply (A_st_nd s HA).
    + intros w2 q j Hq Pq. apply nth_upd_inv in Hq. destruct Hq as [[<- ->]|[Hne Hq]].
      * destruct Hpn as [[_ E]|(Hlt & _ & E)]; [congruence|]. rewrite E in Pq. inversion Pq; subst j.
        intros Hj. destruct (A_st_lt s HA _ Hj). lia.
      * apply (A_held s HA w2 q j Hq Pq).
    + intros w2 q j Hq Pq Hh. apply nth_upd_inv in Hq. destruct Hq as [[<- ->]|[Hne Hq]].
      * destruct Hpn as [[E _]|(_ & _ & E)]; congruence.
      * apply (A_run s HA w2 q j Hq Pq Hh).
    + apply (A_fin_nd s HA).
    + apply (A_fin_st s HA).
    + intros w2 j Hq. apply nth_upd_inv in Hq. destruct Hq as [[<- E]|[Hne Hq]].
      * exfalso. eapply Hnin; eauto.
      * apply (A_in_nf s HA w2 j Hq).
    + intros w2 j v r Hq. apply nth_upd_inv in Hq. destruct Hq as [[<- E]|[Hne Hq]].
      * exfalso. eapply Hnwr; eauto.
      * apply (A_wr_fin s HA w2 j v r Hq).
    + intros j Hj. destruct (A_st_cov s HA j Hj) as [Hf|[w2 H2]]; [left; exact Hf|]. right. exists w2.
      rewrite nth_upd. destruct (Nat.eq_dec w w2) as [E|E]; [|exact H2]. subst w2. congruence.
  - (* TCheck *) apply step_TCheck in H. destruct H as (i & Hw & ->).
    eapply (InvA_local s _ w (WCheck i)); simpl; eauto; try discriminate.
    destruct (dctx s); [left; reflexivity | right; eauto].
  - (* TWrite *) apply step_TWrite in H. destruct H as (i & v & r & Hw & ->).
    eapply (InvA_local s _ w (WWrite i v r)); simpl; eauto; try discriminate.
    left. apply after_call_pidx.
  - (* TFinish *) apply step_TFinish in H. destruct H as (r & Hw & [(e & -> & He & ->)|(_ & ->)]).
    + eapply (InvA_local s _ w (WRet (Some e))); simpl; eauto; discriminate.
    + eapply (InvA_local s _ w (WRet r)); simpl; eauto; discriminate.
  - (* TWait *) apply step_TWait in H. destruct H as (Hp & Hall & ->).
    apply (InvA_same s); auto. simpl. discriminate.
  - (* TCancelEff *) apply step_TCancelEff in H. destruct H as (Hc & ->). apply (InvA_same s); auto.
Qed.

(* ------------------------------------------------------------------ *)
(* InvB: structure                                                     *)
(* ------------------------------------------------------------------ *)

Definition past_wait (s : st) : Prop := exists r, pc s = MRetp r \/ pc s = MDone r.

Record InvB (c : config) (s : st) : Prop := mkInvB {
  B_cfg : cfg s = c;
  B_len : pc s <> MIdle -> length (ws s) = eff c;
  B_retp : forall r, pc s = MRetp r \/ pc s = MDone r ->
           r = errc s /\ (forall w p, nth_error (ws s) w = Some p -> p = WDone)
           /\ (use_eg c = true -> dctx s = true);
  B_out : length (out s) = c_n c;
  B_dctx : dctx s = true -> cctx s = CDone \/ (use_eg c = true /\ (errc s <> None \/ past_wait s));
  B_nochk : use_eg c = false -> forall w i, nth_error (ws s) w <> Some (WCheck i);
  B_noctx : c_ctx c = false -> dctx s = false
}.

Lemma InvB_init c g : InvB c (init c g).
Proof.
  constructor; simpl; auto.
  - intros H; contradiction.
  - intros r [H|H]; discriminate.
  - apply repeat_length.
  - discriminate.
  - intros _ w i. destruct w; discriminate.
Qed.

(* a worker that is not finished changes its pc; pc, error cell and contexts are untouched *)
Lemma InvB_local c s s' w p p' :
  InvB c s ->
  cfg s' = cfg s -> pc s' = pc s -> errc s' = errc s -> dctx s' = dctx s -> cctx s' = cctx s ->
  length (out s') = length (out s) -> ws s' = upd (ws s) w p' ->
  nth_error (ws s) w = Some p -> p <> WDone -> (forall i, p' = WCheck i -> use_eg c = true) ->
  InvB c s'.
Proof.
  intros HB Ec Ep Ee Ed Ex Eo Ew Hw Hnd Hchk.
  assert (Hnp : forall r, pc s = MRetp r \/ pc s = MDone r -> False).
  { intros r Hr. destruct (B_retp c s HB r Hr) as (_ & Hall & _). apply Hnd. eapply Hall; eauto. }
  constructor; rewrite ?Ec, ?Ep, ?Ee, ?Ed, ?Ex, ?Eo, ?Ew.
  - apply (B_cfg c s HB).
  - rewrite upd_length. apply (B_len c s HB).
  - intros r Hr. exfalso. eauto.
  - apply (B_out c s HB).
  - intros Hd. destruct (B_dctx c s HB Hd) as [H|(Hu & [H|(r & Hr)])].
    + left. exact H.
    + right. split; [exact Hu|]. left. exact H.
    + exfalso. eauto.
  - intros Hu w2 i Hq. apply nth_upd_inv in Hq. destruct Hq as [[_ E]|[_ Hq]].
    + symmetry in E. apply Hchk in E. congruence.
    + apply (B_nochk c s HB Hu w2 i Hq).
  - apply (B_noctx c s HB).
Qed.

(* the worker list is untouched *)
Lemma InvB_same c s s' :
  InvB c s ->
  cfg s' = cfg s -> pc s' = pc s -> errc s' = errc s -> dctx s' = dctx s ->
  (cctx s = CDone -> cctx s' = CDone) -> out s' = out s -> ws s' = ws s ->
  InvB c s'.
Proof.
  intros HB Ec Ep Ee Ed Ex Eo Ew.
  constructor; unfold past_wait; rewrite ?Ec, ?Ep, ?Ee, ?Ed, ?Eo, ?Ew.
  - apply (B_cfg c s HB).
  - apply (B_len c s HB).
  - apply (B_retp c s HB).
  - apply (B_out c s HB).
  - intros Hd. destruct (B_dctx c s HB Hd) as [H|H]; [left; auto | right; exact H].
  - apply (B_nochk c s HB).
  - apply (B_noctx c s HB).
Qed.

Lemma InvB_step c s l s' : InvB c s -> qstep s l = Some s' -> InvB c s'.
Proof.
  intros HB H. pose proof (B_cfg c s HB) as Hcfg.
  destruct l as [| w i b | w i r v | r o | | | i | | w | w | w | w | | ]; simpl qstep in H.
  - (* LCall *) apply step_LCall in H. destruct H as [Hp ->].
    constructor; simpl; rewrite ?Hcfg.
    + reflexivity.
    + intros _. apply repeat_length.
    + intros r [E|E]; discriminate.
    + apply (B_out c s HB).
    + intros Hd. destruct (B_dctx c s HB Hd) as [E|(Hu & [E|(r & [E|E])])]; auto; rewrite Hp in E; discriminate.
    + intros _ w i Hw. apply nth_repeat in Hw. discriminate.
    + apply (B_noctx c s HB).
  - (* LEnter *) apply step_LEnter in H. destruct H as (Hw & Hc & ->).
    eapply (InvB_local c s _ w (WCall i)); simpl; eauto; discriminate.
  - (* LExit *) apply step_LExit in H. destruct H as (Hw & Hg & Hr & Hv & ->).
    eapply (InvB_local c s _ w (WIn i)); simpl; eauto; try discriminate.
    intros j. destruct (c_map (cfg s)); [discriminate|]. destruct r; discriminate.
  - (* LRet *) apply step_LRet in H. destruct H as (Hp & Ho & ->).
    destruct (B_retp c s HB r (or_introl Hp)) as (Hr & Hall & Hd).
    constructor; simpl; rewrite ?Hcfg.
    + reflexivity.
    + intros _. apply (B_len c s HB). rewrite Hp. discriminate.
    + intros r' [E|E]; [discriminate|]. inversion E; subst r'. auto.
    + apply (B_out c s HB).
    + intros Hd'. destruct (B_dctx c s HB Hd') as [E|(Hu & _)]; [left; exact E|].
      right. split; [exact Hu|]. right. exists r. right. reflexivity.
    + apply (B_nochk c s HB).
    + apply (B_noctx c s HB).
  - (* LCancel *) apply step_LCancel in H. subst s'.
    apply (InvB_same c s); simpl; auto. intros E; rewrite E; reflexivity.
  - (* LCancelDone *) apply step_LCancelDone in H. destruct H as [_ ->]. exact HB.
  - (* LRelease *) apply step_LRelease in H. subst s'. apply (InvB_same c s); simpl; auto.
  - (* LQuiesce *) apply qstep_LQuiesce in H. subst s'. exact HB.
  - (* TFetch *) apply step_TFetch in H. destruct H as (Hw & ->).
    eapply (InvB_local c s _ w WFetch); simpl; eauto; try discriminate.
    intros j. rewrite Hcfg. destruct (next s <? c_n c); [|discriminate].
    destruct (use_eg c) eqn:E; [reflexivity | discriminate].
  - (* TCheck *) apply step_TCheck in H. destruct H as (i & Hw & ->).
    eapply (InvB_local c s _ w (WCheck i)); simpl; eauto; try discriminate.
    intros j. destruct (dctx s); discriminate.
  - (* TWrite *) apply step_TWrite in H. destruct H as (i & v & r & Hw & ->).
    eapply (InvB_local c s _ w (WWrite i v r)); simpl; eauto; try discriminate.
    + apply upd_length.
    + intros j. destruct r; discriminate.
  - (* TFinish *) apply step_TFinish in H. destruct H as (r & Hw & [(e & -> & He & ->)|(_ & ->)]).
    + assert (Hnp : forall r, pc s = MRetp r \/ pc s = MDone r -> False).
      { intros r Hr. destruct (B_retp c s HB r Hr) as (_ & Hall & _). specialize (Hall w _ Hw). discriminate. }
      constructor; simpl; rewrite ?Hcfg.
      * reflexivity.
      * rewrite upd_length. apply (B_len c s HB).
      * intros r Hr. exfalso. eauto.
      * apply (B_out c s HB).
      * intros Hd. apply orb_true_iff in Hd. destruct Hd as [Hd|Hu].
        -- destruct (B_dctx c s HB Hd) as [E|(Hu & _)]; [left; exact E|]. right. split; [exact Hu|]. left. discriminate.
        -- right. split; [exact Hu|]. left. discriminate.
      * intros Hu w2 i Hq. apply nth_upd_inv in Hq. destruct Hq as [[_ E]|[_ Hq]]; [discriminate|].
        apply (B_nochk c s HB Hu w2 i Hq).
      * intros Hc. rewrite (B_noctx c s HB Hc). unfold use_eg. rewrite Hc. reflexivity.
    + eapply (InvB_local c s _ w (WRet r)); simpl; eauto; discriminate.
  - (* TWait *) apply step_TWait in H. destruct H as (Hp & Hall & ->).
    constructor; simpl; rewrite ?Hcfg.
    + reflexivity.
    + intros _. apply (B_len c s HB). rewrite Hp. discriminate.
    + intros r [E|E]; [|discriminate]. inversion E; subst r. split; [reflexivity|]. split; [exact Hall|].
      intros Hu. rewrite Hu. apply orb_true_r.
    + apply (B_out c s HB).
    + intros Hd. apply orb_true_iff in Hd. destruct Hd as [Hd|Hu].
      * destruct (B_dctx c s HB Hd) as [E|(Hu & _)]; [left; exact E|]. right. split; [exact Hu|].
        right. exists (errc s). left. reflexivity.
      * right. split; [exact Hu|]. right. exists (errc s). left. reflexivity.
    + apply (B_nochk c s HB).
    + intros Hc. rewrite (B_noctx c s HB Hc). unfold use_eg. rewrite Hc. reflexivity.
  - (* TCancelEff *) apply step_TCancelEff in H. destruct H as (Hc & ->).
    constructor; simpl; rewrite ?Hcfg.
    + reflexivity.
    + apply (B_len c s HB).
    + intros r Hr. destruct (B_retp c s HB r Hr) as (E & Hall & Hd). split; [exact E|]. split; [exact Hall|].
      intros Hu. rewrite (Hd Hu). reflexivity.
    + apply (B_out c s HB).
    + intros _. left. reflexivity.
    + apply (B_nochk c s HB).
    + intros Hx. rewrite (B_noctx c s HB Hx), Hx. reflexivity.
Qed.

(* ------------------------------------------------------------------ *)
(* InvC: errors and completeness                                       *)
(* ------------------------------------------------------------------ *)

(* a worker that carries an error it has not yet delivered to the error cell *)
Definition errpc (p : wpc) : bool :=
  match p with WRet (Some _) | WWrite _ _ (Some _) => true | _ => false end.

(* "something failed": a call returned an error or a worker saw a cancelled context *)
Definition bad (s : st) : Prop :=
  errc s <> None \/ exists w p, nth_error (ws s) w = Some p /\ errpc p = true.

Record InvC (s : st) : Prop := mkInvC {
  C_idle : pc s = MIdle -> errc s = None;
  C_cov : ~ bad s -> forall i, i < next s -> i < c_n (cfg s) ->
          In i (started s) \/ exists w p, nth_error (ws s) w = Some p /\ held p = Some i;
  C_fin : forall w p, nth_error (ws s) w = Some p -> (p = WRet None \/ p = WDone) ->
          bad s \/ c_n (cfg s) <= next s;
  C_failrec : forall x, In x (finished s) -> ferr x <> None -> bad s;
  C_errF : forall c, errc s = Some (EF c) -> exists i v, In (i, Some c, v) (finished s);
  C_errC : errc s = Some ECtx -> cctx s = CDone /\ use_eg (cfg s) = true;
  C_retF : forall w c, nth_error (ws s) w = Some (WRet (Some (EF c))) ->
                       exists i v, In (i, Some c, v) (finished s);
  C_retC : forall w, nth_error (ws s) w = Some (WRet (Some ECtx)) ->
                     (cctx s = CDone \/ errc s <> None) /\ use_eg (cfg s) = true;
  C_noerr : c_ctx (cfg s) = false -> forall x, In x (finished s) -> ferr x = None;
  C_seq1 : seqm (cfg s) = true -> errc s <> None -> forall w p, nth_error (ws s) w = Some p -> p = WDone;
  C_seqfail : seqm (cfg s) = true -> forall x y, In x (finished s) -> In y (finished s) ->
                                     ferr x <> None -> ferr y <> None -> x = y
}.

Lemma InvC_init c g : InvC (init c g).
Proof.
  constructor; simpl; auto; try (intros; contradiction); try discriminate.
  - intros _ i Hi. lia.
  - intros w p Hw. destruct w; discriminate.
  - intros w c0 Hw. destruct w; discriminate.
  - intros w Hw. destruct w; discriminate.
Qed.

(* "something failed" is stable: one worker moves, the error cell only fills *)
Lemma bad_upd s s' w p p' :
  nth_error (ws s) w = Some p -> ws s' = upd (ws s) w p' ->
  (errc s <> None -> errc s' <> None) ->
  (errpc p = true -> errpc p' = true \/ errc s' <> None) ->
  bad s -> bad s'.
Proof.
  intros Hw Ew He Hp [Hb|(w2 & q & Hq & Eq)].
  - left. auto.
  - destruct (Nat.eq_dec w w2) as [E|E].
    + subst w2. rewrite Hw in Hq. inversion Hq; subst q. destruct (Hp Eq) as [H|H]; [|left; exact H].
      right. exists w, p'. split; [|exact H]. rewrite Ew. eapply nth_upd_same; eauto.
    + right. exists w2, q. split; [|exact Eq]. rewrite Ew, nth_upd.
      destruct (Nat.eq_dec w w2); [contradiction|exact Hq].
Qed.

Lemma bad_upd_rev s s' w p p' :
  nth_error (ws s) w = Some p -> ws s' = upd (ws s) w p' ->
  (errc s' <> None -> errc s <> None) ->
  (errpc p' = true -> errpc p = true \/ errc s <> None) ->
  bad s' -> bad s.
Proof.
  intros Hw Ew He Hp [Hb|(w2 & q & Hq & Eq)].
  - left. auto.
  - rewrite Ew in Hq. apply nth_upd_inv in Hq. destruct Hq as [[<- ->]|[Hne Hq]].
    + destruct (Hp Eq) as [H|H]; [|left; exact H]. right. exists w, p. auto.
    + right. exists w2, q. auto.
Qed.

Lemma bad_same s s' : ws s' = ws s -> (errc s <> None -> errc s' <> None) -> bad s -> bad s'.
Proof. intros Ew He [Hb|Hb]; [left; auto | right; rewrite Ew; exact Hb]. Qed.

(* the stepping worker holds no index before and after, or keeps the one it holds *)
Lemma cov_upd (wl : list wpc) w p p' st0 i :
  nth_error wl w = Some p -> (forall j, held p = Some j -> held p' = Some j) ->
  (In i st0 \/ exists w2 q, nth_error wl w2 = Some q /\ held q = Some i) ->
  (In i st0 \/ exists w2 q, nth_error (upd wl w p') w2 = Some q /\ held q = Some i).
Proof.
  intros Hw Hh [H|(w2 & q & Hq & Eq)]; [left; exact H|]. right.
  destruct (Nat.eq_dec w w2) as [E|E].
  - subst w2. rewrite Hw in Hq. inversion Hq; subst q. exists w, p'. split; [eapply nth_upd_same; eauto | auto].
  - exists w2, q. split; [|exact Eq]. rewrite nth_upd. destruct (Nat.eq_dec w w2); [contradiction|exact Hq].
Qed.

Lemma InvC_same s s' :
  InvC s -> (pc s' = MIdle -> pc s = MIdle) ->
  cfg s' = cfg s -> next s' = next s -> started s' = started s -> finished s' = finished s ->
  ws s' = ws s -> errc s' = errc s -> (cctx s = CDone -> cctx s' = CDone) -> InvC s'.
Proof.
  intros HC Ep Ec En Es Ef Ew Ee Ex.
  assert (Hb : bad s' <-> bad s) by (unfold bad; rewrite Ew, Ee; tauto).
  constructor; rewrite ?Ec, ?En, ?Es, ?Ef, ?Ew, ?Ee.
  - intros H. apply (C_idle s HC). auto.
  - intros Hnb. apply (C_cov s HC). tauto.
  - intros w p Hw Hp. destruct (C_fin s HC w p Hw Hp) as [H|H]; [left; tauto | right; exact H].
  - intros x Hx Hf. apply Hb. apply (C_failrec s HC x Hx Hf).
  - apply (C_errF s HC).
  - intros H. destruct (C_errC s HC H). auto.
  - apply (C_retF s HC).
  - intros w H. destruct (C_retC s HC w H) as [[H1|H1] H2]; auto.
  - apply (C_noerr s HC).
  - apply (C_seq1 s HC).
  - apply (C_seqfail s HC).
Qed.

Lemma seq_single c s w w2 p :
  InvA s -> InvB c s -> seqm c = true -> nth_error (ws s) w = Some p -> w2 < length (ws s) -> w2 = w.
Proof.
  intros HA HB Hs Hw Hlt. pose proof (nth_lt _ _ _ Hw) as Hwlt.
  assert (Hp : pc s <> MIdle).
  { intros E. destruct (A_idle s HA E) as [E' _]. rewrite E' in Hw. destruct w; discriminate. }
  rewrite (B_len c s HB Hp) in *. unfold seqm in Hs. apply Nat.eqb_eq in Hs. lia.
Qed.

Lemma after_call_errpc r : errpc (after_call r) = match r with Some _ => true | None => false end.
Proof. destruct r; reflexivity. Qed.

Lemma InvC_step c s l s' : InvA s -> InvB c s -> InvC s -> qstep s l = Some s' -> InvC s'.
Proof.
  intros HA HB HC H. pose proof (B_cfg c s HB) as Hcfg.
  destruct l as [| w i b | w i r v | r o | | | i | | w | w | w | w | | ]; simpl qstep in H.
  - (* LCall *) apply step_LCall in H. destruct H as [Hp ->].
    destruct (A_idle s HA Hp) as [Ews Est]. pose proof (C_idle s HC Hp) as Herr.
    constructor; simpl.
    + discriminate.
    + intros Hnb i Hi Hn. destruct (C_cov s HC) with (i := i) as [Hs|(w & p & Hw & _)]; auto.
      * intros [Hb|(w & p & Hw & _)]; [congruence|]. rewrite Ews in Hw. destruct w; discriminate.
      * rewrite Ews in Hw. destruct w; discriminate.
    + intros w p Hw [E|E]; apply nth_repeat in Hw; congruence.
    + intros x Hx Hf. left. simpl. pose proof (C_failrec s HC x Hx Hf) as [Hb|(w & p & Hw & _)]; [exact Hb|].
      rewrite Ews in Hw. destruct w; discriminate.
    + apply (C_errF s HC).
    + apply (C_errC s HC).
    + intros w c0 Hw. apply nth_repeat in Hw. discriminate.
    + intros w Hw. apply nth_repeat in Hw. discriminate.
    + apply (C_noerr s HC).
    + intros _ He. congruence.
    + apply (C_seqfail s HC).
  - (* LEnter *) apply step_LEnter in H. destruct H as (Hw & Hc & ->).
    set (s1 := mkSt (cfg s) (pc s) (upd (ws s) w (WIn i)) (next s) (cctx s) (dctx s) (errc s) (out s)
                    (gopen s) (owner s) (started s ++ [i]) (finished s)
                    (cstarts s + (if b && negb (cdone (cctx s)) then 1 else 0))).
    assert (Hmono : bad s -> bad s1) by (apply (bad_upd s s1 w (WCall i) (WIn i)); simpl; auto; discriminate).
    assert (Hrev : bad s1 -> bad s) by (apply (bad_upd_rev s s1 w (WCall i) (WIn i)); simpl; auto; discriminate).
    constructor; simpl.
    + intros E. destruct (A_idle s HA E) as [E' _]. rewrite E' in Hw. destruct w; discriminate.
    + intros Hnb j Hj Hn. fold s1 in Hnb.
      assert (Hold : In j (started s) \/ exists w2 q, nth_error (ws s) w2 = Some q /\ held q = Some j)
        by (apply (C_cov s HC); auto).
      destruct Hold as [Hs|(w2 & q & Hq & Eq)]; [left; apply in_app_iff; left; exact Hs|].
      destruct (Nat.eq_dec w w2) as [E|E].
      * subst w2. rewrite Hw in Hq. inversion Hq; subst q. simpl in Eq. inversion Eq; subst j.
        left. apply in_app_iff. right; left; reflexivity.
      * right. exists w2, q. split; [|exact Eq]. rewrite nth_upd. destruct (Nat.eq_dec w w2); [contradiction|exact Hq].
    + intros w2 p Hq Hp. apply nth_upd_inv in Hq. destruct Hq as [[_ ->]|[_ Hq]]; [destruct Hp; discriminate|].
      destruct (C_fin s HC w2 p Hq Hp) as [Hb|Hn]; [left; auto | right; exact Hn].
    + intros x Hx Hf. apply Hmono. apply (C_failrec s HC x Hx Hf).
    + apply (C_errF s HC).
    + apply (C_errC s HC).
    + intros w2 c0 Hq. apply nth_upd_inv in Hq. destruct Hq as [[_ E]|[_ Hq]]; [discriminate|]. apply (C_retF s HC w2 c0 Hq).
    + intros w2 Hq. apply nth_upd_inv in Hq. destruct Hq as [[_ E]|[_ Hq]]; [discriminate|]. apply (C_retC s HC w2 Hq).
    + apply (C_noerr s HC).
    + intros Hs He w2 p Hq. pose proof (C_seq1 s HC Hs He w _ Hw). discriminate.
    + apply (C_seqfail s HC).
  - admit.
  - admit.
  - admit.
  - admit.
  - admit.
  - admit.
  - admit.
  - admit.
  - admit.
  - admit.
  - admit.
  - admit.
Admitted.
