(* C13 — proofs about the LTS model of parallel.Do / DoContext / Map / MapContext (Conc/ParDo.v).

   Invariants of every state reachable by [qstep] from [init c gated], for every configuration
   (any n, any requested parallelism, any GOMAXPROCS >= 1, any gating, any results chosen by f, any
   cancellation of the caller's context), in five groups:
     InvA  index bookkeeping (each index is handed out once; started / finished ghosts)
     InvB  structure (number of workers, what holds once the caller is past Wait, provenance of a Done context)
     InvC  errors and completeness (what the first-error cell contains; nothing is skipped unless something failed)
     InvD  calls that begin with a cancelled context
     InvP  positional writes of the Map wrappers
   then the C13 lemmas, the variant, progress, and the soundness of the matcher's eager steps.
   Stdlib only, no axioms. *)
From Juniper Require Import Common.Base Conc.GoLTS Conc.ParDo.
From Coq Require Import Arith PeanoNat Permutation.
Local Open Scope nat_scope.

(* ------------------------------------------------------------------ *)
(* list helpers                                                        *)
(* ------------------------------------------------------------------ *)

Lemma nth_upd {A} (l : list A) n m x :
  nth_error (upd l n x) m = if Nat.eq_dec n m then (if lt_dec n (length l) then Some x else None)
                            else nth_error l m.
Proof.
  destruct (Nat.eq_dec n m) as [->|Hne].
  - destruct (lt_dec m (length l)) as [Hlt|Hge].
    + apply nth_error_upd_same; exact Hlt.
    + apply nth_error_None. rewrite upd_length. lia.
  - apply nth_error_upd_other; exact Hne.
Qed.

Lemma nth_lt {A} (l : list A) n x : nth_error l n = Some x -> n < length l.
Proof. intros H. apply nth_error_Some. congruence. Qed.

Lemma nth_upd_same {A} (l : list A) n x y : nth_error l n = Some y -> nth_error (upd l n x) n = Some x.
Proof. intros H. apply nth_error_upd_same. eapply nth_lt; eauto. Qed.

(* case analysis on a read of an updated worker list *)
Lemma nth_upd_inv {A} (l : list A) n m x y :
  nth_error (upd l n x) m = Some y -> (n = m /\ y = x) \/ (n <> m /\ nth_error l m = Some y).
Proof.
  rewrite nth_upd. destruct (Nat.eq_dec n m) as [E|E].
  - destruct (lt_dec n (length l)); [|discriminate]. intros H; inversion H; auto.
  - auto.
Qed.

Lemma nth_repeat {A} (x y : A) n m : nth_error (repeat x n) m = Some y -> y = x.
Proof. intros H. apply nth_error_In in H. apply repeat_spec in H. exact H. Qed.

Fixpoint cnt {A} (f : A -> bool) (l : list A) : nat :=
  match l with [] => 0 | x :: t => (if f x then 1 else 0) + cnt f t end.

Lemma cnt_le {A} (f : A -> bool) l : cnt f l <= length l.
Proof. induction l as [|x t IH]; simpl; [lia|]. destruct (f x); lia. Qed.

Lemma cnt_upd {A} (f : A -> bool) l n x y :
  nth_error l n = Some y ->
  cnt f (upd l n x) + (if f y then 1 else 0) = cnt f l + (if f x then 1 else 0).
Proof.
  revert n; induction l as [|h t IH]; intros [|n] H; simpl in *; try discriminate.
  - inversion H; subst. lia.
  - specialize (IH n H). lia.
Qed.

Lemma cnt_lt {A} (f : A -> bool) l n y : nth_error l n = Some y -> f y = false -> cnt f l + 1 <= length l.
Proof.
  revert n; induction l as [|h t IH]; intros [|n] H Hf; simpl in *; try discriminate.
  - inversion H; subst. rewrite Hf. pose proof (cnt_le f t). lia.
  - specialize (IH n H Hf). destruct (f h); lia.
Qed.

Lemma cnt_zero {A} (f : A -> bool) l : (forall n y, nth_error l n = Some y -> f y = false) -> cnt f l = 0.
Proof.
  induction l as [|h t IH]; intros H; simpl; [reflexivity|].
  rewrite (H 0 h eq_refl). rewrite IH; [reflexivity|]. intros n y Hn. apply (H (S n) y Hn).
Qed.

Lemma cnt_pos {A} (f : A -> bool) l n y : nth_error l n = Some y -> f y = true -> 1 <= cnt f l.
Proof.
  revert n; induction l as [|h t IH]; intros [|n] H Hf; simpl in *; try discriminate.
  - inversion H; subst. rewrite Hf. lia.
  - specialize (IH n H Hf). lia.
Qed.

Lemma forallb_nth {A} (f : A -> bool) l : forallb f l = true <-> (forall n y, nth_error l n = Some y -> f y = true).
Proof.
  rewrite forallb_forall. split.
  - intros H n y Hn. apply H. eapply nth_error_In; eauto.
  - intros H x Hx. apply In_nth_error in Hx. destruct Hx as [n Hn]. eauto.
Qed.

Lemma forallb_or_witness {A} (f : A -> bool) l :
  forallb f l = true \/ exists n y, nth_error l n = Some y /\ f y = false.
Proof.
  induction l as [|h t IH]; simpl; [left; reflexivity|].
  destruct (f h) eqn:E.
  - destruct IH as [IH|(n & y & Hn & Hy)]; [left; exact IH | right; exists (S n), y; auto].
  - right. exists 0, h. auto.
Qed.

Lemma in_map_fst_app {A B} (f : A -> B) l x y : In y (map f (l ++ [x])) <-> In y (map f l) \/ y = f x.
Proof. rewrite map_app, in_app_iff. simpl. intuition. Qed.

Lemma NoDup_snoc {A} (l : list A) x : NoDup l -> ~ In x l -> NoDup (l ++ [x]).
Proof.
  intros Hnd Hx. induction l as [|h t IH]; simpl.
  - constructor; [intros []|constructor].
  - inversion Hnd as [|? ? Hh Ht]; subst. constructor.
    + rewrite in_app_iff. simpl. intros [H|[H|[]]]; [auto|]. subst. apply Hx. left; reflexivity.
    + apply IH; [exact Ht|]. intros H. apply Hx. right; exact H.
Qed.

(* ------------------------------------------------------------------ *)
(* inversion of the transition function, one lemma per label           *)
(* ------------------------------------------------------------------ *)

Ltac inv_step H :=
  unfold step in H;
  repeat (match type of H with
          | context [match ?x with _ => _ end] => destruct x eqn:?; try discriminate
          end);
  inversion H; subst; clear H.

Lemma step_LCall s s' : step s LCall = Some s' ->
  pc s = MIdle /\
  s' = mkSt (cfg s) MWait (repeat WFetch (eff (cfg s))) (next s) (cctx s) (dctx s) (errc s)
            (out s) (gopen s) (owner s) (started s) (finished s) (cstarts s).
Proof. intros H. inv_step H. auto. Qed.

Lemma step_TFetch s w s' : step s (TFetch w) = Some s' ->
  nth_error (ws s) w = Some WFetch /\
  s' = mkSt (cfg s) (pc s)
            (upd (ws s) w (if next s <? c_n (cfg s)
                           then (if use_eg (cfg s) then WCheck (next s) else WCall (next s))
                           else WRet None))
            (S (next s)) (cctx s) (dctx s) (errc s) (out s) (gopen s)
            (owner s ++ [w]) (started s) (finished s) (cstarts s).
Proof. intros H. inv_step H; auto. Qed.

Lemma step_TCheck s w s' : step s (TCheck w) = Some s' ->
  exists i, nth_error (ws s) w = Some (WCheck i) /\
            s' = setw s w (if dctx s then WRet (Some ECtx) else WCall i).
Proof. intros H. inv_step H; eauto. Qed.

Lemma step_LEnter s w i c s' : step s (LEnter w i c) = Some s' ->
  nth_error (ws s) w = Some (WCall i) /\ c = dctx s /\
  s' = mkSt (cfg s) (pc s) (upd (ws s) w (WIn i)) (next s) (cctx s) (dctx s) (errc s) (out s)
            (gopen s) (owner s) (started s ++ [i]) (finished s)
            (cstarts s + (if c && negb (cdone (cctx s)) then 1 else 0)).
Proof.
  intros H. unfold step in H.
  destruct (nth_error (ws s) w) as [[| | j | | | |]|] eqn:Hw; try discriminate.
  destruct ((i =? j) && Bool.eqb c (dctx s)) eqn:Hc; [|discriminate].
  apply andb_true_iff in Hc. destruct Hc as [Hi Hc]. apply Nat.eqb_eq in Hi. apply eqb_prop in Hc. subst j.
  inversion H; subst. auto.
Qed.

Lemma step_LExit s w i r v s' : step s (LExit w i r v) = Some s' ->
  nth_error (ws s) w = Some (WIn i) /\ gate_open s i = true /\
  (c_ctx (cfg s) = false -> r = None) /\ (c_map (cfg s) = false -> v = 0%Z) /\
  s' = mkSt (cfg s) (pc s) (upd (ws s) w (if c_map (cfg s) then WWrite i v r else after_call r))
            (next s) (cctx s) (dctx s) (errc s) (out s) (gopen s) (owner s) (started s)
            (finished s ++ [(i, r, v)]) (cstarts s).
Proof.
  intros H. unfold step in H.
  destruct (nth_error (ws s) w) as [[| | | j | | |]|] eqn:Hw; try discriminate.
  match type of H with (if ?b then _ else _) = _ => destruct b eqn:Hc; [|discriminate] end.
  repeat (apply andb_true_iff in Hc; destruct Hc as [Hc ?]).
  apply Nat.eqb_eq in Hc. subst j. inversion H; subst.
  repeat split; auto.
  - intros E. rewrite E in *. simpl in *. destruct r; [discriminate|reflexivity].
  - intros E. rewrite E in *. simpl in *. apply Z.eqb_eq. assumption.
Qed.

Lemma step_TWrite s w s' : step s (TWrite w) = Some s' ->
  exists i v r, nth_error (ws s) w = Some (WWrite i v r) /\
  s' = mkSt (cfg s) (pc s) (upd (ws s) w (after_call r)) (next s) (cctx s) (dctx s) (errc s)
            (upd (out s) i v) (gopen s) (owner s) (started s) (finished s) (cstarts s).
Proof. intros H. inv_step H; eauto. Qed.

Lemma step_TFinish s w s' : step s (TFinish w) = Some s' ->
  exists r, nth_error (ws s) w = Some (WRet r) /\
  ((exists e, r = Some e /\ errc s = None /\
              s' = mkSt (cfg s) (pc s) (upd (ws s) w WDone) (next s) (cctx s) (dctx s || use_eg (cfg s)) (Some e)
                        (out s) (gopen s) (owner s) (started s) (finished s) (cstarts s))
   \/ ((r = None \/ errc s <> None) /\ s' = setw s w WDone)).
Proof.
  intros H. unfold step in H.
  destruct (nth_error (ws s) w) as [[| | | | | r |]|] eqn:Hw; try discriminate.
  exists r. split; [reflexivity|].
  destruct r as [e|]; [destruct (errc s) eqn:He|]; inversion H; subst.
  - right. split; [right; congruence | reflexivity].
  - left. exists e. auto.
  - right. auto.
Qed.

Lemma step_TWait s s' : step s TWait = Some s' ->
  pc s = MWait /\ (forall w p, nth_error (ws s) w = Some p -> p = WDone) /\
  s' = mkSt (cfg s) (MRetp (errc s)) (ws s) (next s) (cctx s) (dctx s || use_eg (cfg s)) (errc s)
            (out s) (gopen s) (owner s) (started s) (finished s) (cstarts s).
Proof.
  intros H. unfold step in H. destruct (pc s) eqn:Hp; try discriminate.
  destruct (forallb is_done (ws s)) eqn:Hf; [|discriminate]. inversion H; subst.
  split; [reflexivity|]. split; [|reflexivity].
  intros w p Hw. rewrite forallb_nth in Hf. specialize (Hf w p Hw). destruct p; try discriminate. reflexivity.
Qed.

Lemma orerr_eqb_eq a b : orerr_eqb a b = true -> a = b.
Proof.
  destruct a as [[|x]|], b as [[|y]|]; simpl; try discriminate; auto.
  intros H. apply Nat.eqb_eq in H. subst. reflexivity.
Qed.

Lemma zlist_eqb_eq a : forall b, zlist_eqb a b = true -> a = b.
Proof.
  induction a as [|x a IH]; intros [|y b]; simpl; try discriminate; auto.
  intros H. apply andb_true_iff in H. destruct H as [H1 H2]. apply Z.eqb_eq in H1. subst. f_equal. auto.
Qed.

Lemma zlist_eqb_refl a : zlist_eqb a a = true.
Proof. induction a as [|x a IH]; simpl; [reflexivity|]. rewrite Z.eqb_refl. exact IH. Qed.

Lemma ozlist_eqb_eq a b : ozlist_eqb a b = true -> a = b.
Proof. destruct a, b; simpl; try discriminate; auto. intros H. f_equal. apply zlist_eqb_eq; exact H. Qed.

Lemma orerr_eqb_refl a : orerr_eqb a a = true.
Proof. destruct a as [[|x]|]; simpl; auto. apply Nat.eqb_refl. Qed.

Lemma step_LRet s r o s' : step s (LRet r o) = Some s' ->
  pc s = MRetp r /\ o = ret_out s r /\
  s' = mkSt (cfg s) (MDone r) (ws s) (next s) (cctx s) (dctx s) (errc s) (out s) (gopen s)
            (owner s) (started s) (finished s) (cstarts s).
Proof.
  intros H. unfold step in H. destruct (pc s) as [| |r'|] eqn:Hp; try discriminate.
  destruct (orerr_eqb r r' && ozlist_eqb o (ret_out s r)) eqn:Hc; [|discriminate].
  apply andb_true_iff in Hc. destruct Hc as [H1 H2]. apply orerr_eqb_eq in H1. apply ozlist_eqb_eq in H2.
  subst. inversion H; subst. auto.
Qed.

Lemma step_LCancel s s' : step s LCancel = Some s' ->
  s' = mkSt (cfg s) (pc s) (ws s) (next s) (match cctx s with CLive => CReq | c => c end) (dctx s) (errc s)
            (out s) (gopen s) (owner s) (started s) (finished s) (cstarts s).
Proof. intros H. simpl in H. inversion H; reflexivity. Qed.

Lemma step_TCancelEff s s' : step s TCancelEff = Some s' ->
  cctx s = CReq /\
  s' = mkSt (cfg s) (pc s) (ws s) (next s) CDone (dctx s || c_ctx (cfg s)) (errc s)
            (out s) (gopen s) (owner s) (started s) (finished s) (cstarts s).
Proof. intros H. simpl in H. destruct (cctx s); try discriminate. inversion H; auto. Qed.

Lemma step_LCancelDone s s' : step s LCancelDone = Some s' -> cctx s = CDone /\ s' = s.
Proof. intros H. simpl in H. destruct (cctx s); simpl in H; try discriminate. inversion H; auto. Qed.

Lemma step_LRelease s i s' : step s (LRelease i) = Some s' ->
  s' = mkSt (cfg s) (pc s) (ws s) (next s) (cctx s) (dctx s) (errc s) (out s) (upd (gopen s) i true)
            (owner s) (started s) (finished s) (cstarts s).
Proof. intros H. simpl in H. inversion H; reflexivity. Qed.

Lemma qstep_LQuiesce s s' : qstep s LQuiesce = Some s' -> s' = s.
Proof. simpl. destruct (quiescent s); [|discriminate]. intros H; inversion H; reflexivity. Qed.

(* ------------------------------------------------------------------ *)
(* InvA: index bookkeeping                                             *)
(* ------------------------------------------------------------------ *)

Definition pidx (p : wpc) : option nat :=
  match p with WCheck i | WCall i | WIn i | WWrite i _ _ => Some i | _ => None end.
Definition held (p : wpc) : option nat :=
  match p with WCheck i | WCall i => Some i | _ => None end.
Definition fidx (x : nat * option nat * Z) : nat := fst (fst x).
Definition ferr (x : nat * option nat * Z) : option nat := snd (fst x).

Record InvA (s : st) : Prop := mkInvA {
  A_idle : pc s = MIdle -> ws s = [] /\ started s = [];
  A_next : next s = length (owner s);
  A_own : forall w p i, nth_error (ws s) w = Some p -> pidx p = Some i ->
                        nth_error (owner s) i = Some w /\ i < c_n (cfg s);
  A_st_lt : forall i, In i (started s) -> i < next s /\ i < c_n (cfg s);
  A_st_nd : NoDup (started s);
  A_held : forall w p i, nth_error (ws s) w = Some p -> held p = Some i -> ~ In i (started s);
  A_run : forall w p i, nth_error (ws s) w = Some p -> pidx p = Some i -> held p = None -> In i (started s);
  A_fin_nd : NoDup (map fidx (finished s));
  A_fin_st : forall x, In x (finished s) -> In (fidx x) (started s);
  A_in_nf : forall w i, nth_error (ws s) w = Some (WIn i) -> ~ In i (map fidx (finished s));
  A_wr_fin : forall w i v r, nth_error (ws s) w = Some (WWrite i v r) -> In (i, r, v) (finished s);
  A_st_cov : forall i, In i (started s) ->
                       In i (map fidx (finished s)) \/ exists w, nth_error (ws s) w = Some (WIn i)
}.

(* two workers never hold the same index *)
Lemma A_unique s w1 w2 p1 p2 i :
  InvA s -> nth_error (ws s) w1 = Some p1 -> nth_error (ws s) w2 = Some p2 ->
  pidx p1 = Some i -> pidx p2 = Some i -> w1 = w2.
Proof.
  intros HA H1 H2 P1 P2.
  destruct (A_own s HA w1 p1 i H1 P1) as [E1 _]. destruct (A_own s HA w2 p2 i H2 P2) as [E2 _]. congruence.
Qed.

(* a worker changes its pc without touching the counter or the ghosts; it does not leave f *)
Lemma InvA_local s s' w p p' :
  InvA s -> (pc s' = MIdle -> pc s = MIdle) ->
  cfg s' = cfg s -> next s' = next s -> owner s' = owner s -> started s' = started s ->
  finished s' = finished s -> ws s' = upd (ws s) w p' ->
  nth_error (ws s) w = Some p -> (forall i, p <> WIn i) ->
  (pidx p' = None \/ exists i, p = WCheck i /\ p' = WCall i) ->
  InvA s'.
Proof.
  intros HA Epc Ec En Eo Es Ef Ew Hw Hnin Hp'.
  constructor; rewrite ?Ec, ?En, ?Eo, ?Es, ?Ef, ?Ew.
  - intros Hi. destruct (A_idle s HA (Epc Hi)) as [E _]. rewrite E in Hw. destruct w; discriminate.
  - apply (A_next s HA).
  - intros w2 q i Hq Pq. apply nth_upd_inv in Hq. destruct Hq as [[-> ->]|[Hne Hq]].
    + destruct Hp' as [Hn|(j & -> & ->)]; [congruence|]. simpl in Pq. inversion Pq; subst.
      apply (A_own s HA w2 (WCheck i) i Hw eq_refl).
    + apply (A_own s HA w2 q i Hq Pq).
  - apply (A_st_lt s HA).
  - apply (A_st_nd s HA).
  - intros w2 q i Hq Pq. apply nth_upd_inv in Hq. destruct Hq as [[-> ->]|[Hne Hq]].
    + destruct Hp' as [Hn|(j & -> & ->)]; [destruct p'; simpl in *; congruence|].
      simpl in Pq. inversion Pq; subst. apply (A_held s HA w2 (WCheck i) i Hw eq_refl).
    + apply (A_held s HA w2 q i Hq Pq).
  - intros w2 q i Hq Pq Hh. apply nth_upd_inv in Hq. destruct Hq as [[-> ->]|[Hne Hq]].
    + destruct Hp' as [Hn|(j & -> & ->)]; [congruence|]. simpl in Hh. discriminate.
    + apply (A_run s HA w2 q i Hq Pq Hh).
  - apply (A_fin_nd s HA).
  - apply (A_fin_st s HA).
  - intros w2 i Hq. apply nth_upd_inv in Hq. destruct Hq as [[-> E]|[Hne Hq]].
    + destruct Hp' as [Hn|(j & _ & Hj)]; [rewrite <- E in Hn; simpl in Hn; discriminate | congruence].
    + apply (A_in_nf s HA w2 i Hq).
  - intros w2 i v r Hq. apply nth_upd_inv in Hq. destruct Hq as [[-> E]|[Hne Hq]].
    + destruct Hp' as [Hn|(j & _ & Hj)]; [rewrite <- E in Hn; simpl in Hn; discriminate | congruence].
    + apply (A_wr_fin s HA w2 i v r Hq).
  - intros i Hi. destruct (A_st_cov s HA i Hi) as [H|[w2 H2]]; [left; exact H|]. right.
    exists w2. rewrite nth_upd. destruct (Nat.eq_dec w w2) as [E|E]; [|exact H2].
    subst w2. rewrite Hw in H2. inversion H2. exfalso. eapply Hnin; eauto.
Qed.

(* nothing that InvA looks at changes *)
Lemma InvA_same s s' :
  InvA s -> (pc s' = MIdle -> pc s = MIdle) ->
  cfg s' = cfg s -> next s' = next s -> owner s' = owner s -> started s' = started s ->
  finished s' = finished s -> ws s' = ws s -> InvA s'.
Proof.
  intros HA Epc Ec En Eo Es Ef Ew. destruct HA.
  constructor; rewrite ?Ec, ?En, ?Eo, ?Es, ?Ef, ?Ew; try assumption.
  intros Hi. auto.
Qed.

Lemma InvA_init c g : InvA (init c g).
Proof.
  constructor; simpl; auto.
  all: try (intros w; intros; destruct w; discriminate).
  all: try (intros; contradiction).
  all: constructor.
Qed.

Lemma after_call_pidx r : pidx (after_call r) = None.
Proof. destruct r; reflexivity. Qed.

Lemma InvA_step s l s' : InvA s -> qstep s l = Some s' -> InvA s'.
Proof.
  intros HA H.
  destruct l as [| w i c | w i r v | r o | | | i | | w | w | w | w | | ]; simpl qstep in H.
  - (* LCall *) apply step_LCall in H. destruct H as [Hp ->].
    destruct (A_idle s HA Hp) as [Ews Est].
    destruct HA. constructor; simpl; auto.
    + discriminate.
    + intros w p i Hw Pp. apply nth_repeat in Hw. subst p. discriminate.
    + intros w p i Hw Pp. apply nth_repeat in Hw. subst p. discriminate.
    + intros w p i Hw Pp. apply nth_repeat in Hw. subst p. discriminate.
    + intros w i Hw. apply nth_repeat in Hw. discriminate.
    + intros w i v r Hw. apply nth_repeat in Hw. discriminate.
    + intros i Hi. rewrite Est in Hi. contradiction.
  - (* LEnter *) apply step_LEnter in H. destruct H as (Hw & Hc & ->).
    assert (Hwlt : w < length (ws s)) by (eapply nth_lt; eauto).
    pose proof (A_own s HA w (WCall i) i Hw eq_refl) as [Hown Hin].
    pose proof (A_held s HA w (WCall i) i Hw eq_refl) as Hnst.
    constructor; simpl.
    + intros Hi. destruct (A_idle s HA Hi) as [E _]. rewrite E in Hw. destruct w; discriminate.
    + apply (A_next s HA).
    + intros w2 q j Hq Pq. apply nth_upd_inv in Hq. destruct Hq as [[<- ->]|[Hne Hq]].
      * simpl in Pq. inversion Pq; subst. auto.
      * apply (A_own s HA w2 q j Hq Pq).
    + intros j Hj. apply in_app_iff in Hj. destruct Hj as [Hj|[<-|[]]].
      * apply (A_st_lt s HA j Hj).
      * split; [|exact Hin]. rewrite (A_next s HA). eapply nth_lt; eauto.
    + apply NoDup_snoc; [apply (A_st_nd s HA) | exact Hnst].
    + intros w2 q j Hq Pq. apply nth_upd_inv in Hq. destruct Hq as [[<- ->]|[Hne Hq]]; [discriminate|].
      intros Hj. apply in_app_iff in Hj. destruct Hj as [Hj|[<-|[]]].
      * apply (A_held s HA w2 q j Hq Pq Hj).
      * apply Hne. apply (A_unique s w w2 (WCall i) q i HA Hw Hq eq_refl).
        destruct q; simpl in Pq; try discriminate; exact Pq.
    + intros w2 q j Hq Pq Hh. apply in_app_iff. apply nth_upd_inv in Hq. destruct Hq as [[<- ->]|[Hne Hq]].
      * simpl in Pq. inversion Pq. right; left; reflexivity.
      * left. apply (A_run s HA w2 q j Hq Pq Hh).
    + apply (A_fin_nd s HA).
    + intros x Hx. apply in_app_iff. left. apply (A_fin_st s HA x Hx).
    + intros w2 j Hq. apply nth_upd_inv in Hq. destruct Hq as [[<- E]|[Hne Hq]].
      * inversion E; subst j. intros Hf. apply Hnst. apply in_map_iff in Hf. destruct Hf as (x & Ex & Hx).
        rewrite <- Ex. apply (A_fin_st s HA x Hx).
      * apply (A_in_nf s HA w2 j Hq).
    + intros w2 j v r Hq. apply nth_upd_inv in Hq. destruct Hq as [[<- E]|[Hne Hq]]; [discriminate|].
      apply (A_wr_fin s HA w2 j v r Hq).
    + intros j Hj. apply in_app_iff in Hj. destruct Hj as [Hj|[<-|[]]].
      * destruct (A_st_cov s HA j Hj) as [Hf|[w2 H2]]; [left; exact Hf|]. right. exists w2.
        rewrite nth_upd. destruct (Nat.eq_dec w w2) as [E|E]; [|exact H2]. subst w2. congruence.
      * right. exists w. eapply nth_upd_same; eauto.
  - (* LExit *) apply step_LExit in H. destruct H as (Hw & Hg & Hr & Hv & ->).
    pose proof (A_own s HA w (WIn i) i Hw eq_refl) as [Hown Hin].
    pose proof (A_run s HA w (WIn i) i Hw eq_refl eq_refl) as Hst.
    pose proof (A_in_nf s HA w i Hw) as Hnf.
    set (pn := if c_map (cfg s) then WWrite i v r else after_call r).
    assert (Hpn : pn = WWrite i v r \/ pidx pn = None).
    { unfold pn. destruct (c_map (cfg s)); [left; reflexivity | right; apply after_call_pidx]. }
    constructor; simpl; fold pn.
    + intros Hi. destruct (A_idle s HA Hi) as [E _]. rewrite E in Hw. destruct w; discriminate.
    + apply (A_next s HA).
    + intros w2 q j Hq Pq. apply nth_upd_inv in Hq. destruct Hq as [[<- ->]|[Hne Hq]].
      * destruct Hpn as [E|E]; [|congruence]. rewrite E in Pq. simpl in Pq. inversion Pq; subst. auto.
      * apply (A_own s HA w2 q j Hq Pq).
    + apply (A_st_lt s HA).
    + apply (A_st_nd s HA).
    + intros w2 q j Hq Pq. apply nth_upd_inv in Hq. destruct Hq as [[<- ->]|[Hne Hq]].
      * destruct Hpn as [E|E]; [rewrite E in Pq; discriminate|]. destruct pn; simpl in *; congruence.
      * apply (A_held s HA w2 q j Hq Pq).
    + intros w2 q j Hq Pq Hh. apply nth_upd_inv in Hq. destruct Hq as [[<- ->]|[Hne Hq]].
      * destruct Hpn as [E|E]; [|congruence]. rewrite E in Pq. simpl in Pq. inversion Pq; subst. exact Hst.
      * apply (A_run s HA w2 q j Hq Pq Hh).
    + rewrite map_app. simpl. apply NoDup_snoc; [apply (A_fin_nd s HA) | exact Hnf].
    + intros x Hx. apply in_app_iff in Hx. destruct Hx as [Hx|[<-|[]]]; [apply (A_fin_st s HA x Hx) | exact Hst].
    + intros w2 j Hq. apply nth_upd_inv in Hq. destruct Hq as [[<- E]|[Hne Hq]].
      * destruct Hpn as [E'|E']; [congruence | rewrite <- E in E'; discriminate].
      * intros Hf. apply in_map_fst_app in Hf. destruct Hf as [Hf|Hf].
        -- apply (A_in_nf s HA w2 j Hq Hf).
        -- simpl in Hf. subst j. apply Hne. apply (A_unique s w w2 (WIn i) (WIn i) i HA Hw Hq eq_refl eq_refl).
    + intros w2 j v2 r2 Hq. apply in_app_iff. apply nth_upd_inv in Hq. destruct Hq as [[<- E]|[Hne Hq]].
      * destruct Hpn as [E'|E']; [|rewrite <- E in E'; discriminate].
        rewrite E' in E. inversion E; subst. right; left; reflexivity.
      * left. apply (A_wr_fin s HA w2 j v2 r2 Hq).
    + intros j Hj. destruct (A_st_cov s HA j Hj) as [Hf|[w2 H2]].
      * left. apply in_map_fst_app. left; exact Hf.
      * destruct (Nat.eq_dec w w2) as [E|E].
        -- subst w2. rewrite Hw in H2. inversion H2; subst j. left. apply in_map_fst_app. right; reflexivity.
        -- right. exists w2. rewrite nth_upd. destruct (Nat.eq_dec w w2); [contradiction|exact H2].
  - (* LRet *) apply step_LRet in H. destruct H as (Hp & Ho & ->).
    apply (InvA_same s); auto. simpl. discriminate.
  - (* LCancel *) apply step_LCancel in H. subst s'. apply (InvA_same s); auto.
  - (* LCancelDone *) apply step_LCancelDone in H. destruct H as [_ ->]. exact HA.
  - (* LRelease *) apply step_LRelease in H. subst s'. apply (InvA_same s); auto.
  - (* LQuiesce *) apply qstep_LQuiesce in H. subst s'. exact HA.
  - (* TFetch *) apply step_TFetch in H. destruct H as (Hw & ->).
    set (pn := if next s <? c_n (cfg s) then (if use_eg (cfg s) then WCheck (next s) else WCall (next s)) else WRet None).
    assert (Hpn : (pidx pn = None /\ held pn = None) \/ (next s < c_n (cfg s) /\ pidx pn = Some (next s) /\ held pn = Some (next s))).
    { unfold pn. destruct (next s <? c_n (cfg s)) eqn:E; [right|left; auto].
      apply Nat.ltb_lt in E. destruct (use_eg (cfg s)); auto. }
    assert (Hnin : forall j, pn <> WIn j) by (intros j; unfold pn; destruct (next s <? c_n (cfg s)), (use_eg (cfg s)); discriminate).
    assert (Hnwr : forall j v r, pn <> WWrite j v r) by (intros j v r; unfold pn; destruct (next s <? c_n (cfg s)), (use_eg (cfg s)); discriminate).
    constructor; simpl; fold pn.
    + intros Hi. destruct (A_idle s HA Hi) as [E _]. rewrite E in Hw. destruct w; discriminate.
    + rewrite app_length. simpl. rewrite (A_next s HA). lia.
    + intros w2 q j Hq Pq. apply nth_upd_inv in Hq. destruct Hq as [[<- ->]|[Hne Hq]].
      * destruct Hpn as [[E _]|(Hlt & E & _)]; [congruence|]. rewrite E in Pq. inversion Pq; subst j.
        split; [|exact Hlt]. rewrite (A_next s HA). rewrite nth_error_app2 by lia.
        rewrite Nat.sub_diag. reflexivity.
      * destruct (A_own s HA w2 q j Hq Pq) as [Ho Hlt]. split; [|exact Hlt].
        rewrite nth_error_app1; [exact Ho | eapply nth_lt; eauto].
    + intros j Hj. destruct (A_st_lt s HA j Hj). split; [lia|assumption].
    + apply (A_st_nd s HA).
    + intros w2 q j Hq Pq. apply nth_upd_inv in Hq. destruct Hq as [[<- ->]|[Hne Hq]].
      * destruct Hpn as [[_ E]|(Hlt & _ & E)]; [congruence|]. rewrite E in Pq. inversion Pq; subst j.
        intros Hj. destruct (A_st_lt s HA _ Hj). lia.
      * apply (A_held s HA w2 q j Hq Pq).
    + intros w2 q j Hq Pq Hh. apply nth_upd_inv in Hq. destruct Hq as [[<- ->]|[Hne Hq]].
      * destruct Hpn as [[E _]|(_ & _ & E)]; congruence.
      * apply (A_run s HA w2 q j Hq Pq Hh).
    + apply (A_fin_nd s HA).
    + apply (A_fin_st s HA).
    + intros w2 j Hq. apply nth_upd_inv in Hq. destruct Hq as [[<- E]|[Hne Hq]].
      * exfalso. eapply Hnin; eauto.
      * apply (A_in_nf s HA w2 j Hq).
    + intros w2 j v r Hq. apply nth_upd_inv in Hq. destruct Hq as [[<- E]|[Hne Hq]].
      * exfalso. eapply Hnwr; eauto.
      * apply (A_wr_fin s HA w2 j v r Hq).
    + intros j Hj. destruct (A_st_cov s HA j Hj) as [Hf|[w2 H2]]; [left; exact Hf|]. right. exists w2.
      rewrite nth_upd. destruct (Nat.eq_dec w w2) as [E|E]; [|exact H2]. subst w2. congruence.
  - (* TCheck *) apply step_TCheck in H. destruct H as (i & Hw & ->).
    eapply (InvA_local s _ w (WCheck i)); simpl; eauto; try discriminate.
    destruct (dctx s); [left; reflexivity | right; eauto].
  - (* TWrite *) apply step_TWrite in H. destruct H as (i & v & r & Hw & ->).
    eapply (InvA_local s _ w (WWrite i v r)); simpl; eauto; try discriminate.
    left. apply after_call_pidx.
  - (* TFinish *) apply step_TFinish in H. destruct H as (r & Hw & [(e & -> & He & ->)|(_ & ->)]).
    + eapply (InvA_local s _ w (WRet (Some e))); simpl; eauto; discriminate.
    + eapply (InvA_local s _ w (WRet r)); simpl; eauto; discriminate.
  - (* TWait *) apply step_TWait in H. destruct H as (Hp & Hall & ->).
    apply (InvA_same s); auto. simpl. discriminate.
  - (* TCancelEff *) apply step_TCancelEff in H. destruct H as (Hc & ->). apply (InvA_same s); auto.
Qed.

(* ------------------------------------------------------------------ *)
(* InvB: structure                                                     *)
(* ------------------------------------------------------------------ *)

Definition past_wait (s : st) : Prop := exists r, pc s = MRetp r \/ pc s = MDone r.

Record InvB (c : config) (s : st) : Prop := mkInvB {
  B_cfg : cfg s = c;
  B_len : pc s <> MIdle -> length (ws s) = eff c;
  B_retp : forall r, pc s = MRetp r \/ pc s = MDone r ->
           r = errc s /\ (forall w p, nth_error (ws s) w = Some p -> p = WDone)
           /\ (use_eg c = true -> dctx s = true);
  B_out : length (out s) = c_n c;
  B_dctx : dctx s = true -> cctx s = CDone \/ (use_eg c = true /\ (errc s <> None \/ past_wait s));
  B_nochk : use_eg c = false -> forall w i, nth_error (ws s) w <> Some (WCheck i);
  B_noctx : c_ctx c = false -> dctx s = false
}.

Lemma InvB_init c g : InvB c (init c g).
Proof.
  constructor; simpl; auto.
  - intros H; contradiction.
  - intros r [H|H]; discriminate.
  - apply repeat_length.
  - discriminate.
  - intros _ w i. destruct w; discriminate.
Qed.

(* a worker that is not finished changes its pc; pc, error cell and contexts are untouched *)
Lemma InvB_local c s s' w p p' :
  InvB c s ->
  cfg s' = cfg s -> pc s' = pc s -> errc s' = errc s -> dctx s' = dctx s -> cctx s' = cctx s ->
  length (out s') = length (out s) -> ws s' = upd (ws s) w p' ->
  nth_error (ws s) w = Some p -> p <> WDone -> (forall i, p' = WCheck i -> use_eg c = true) ->
  InvB c s'.
Proof.
  intros HB Ec Ep Ee Ed Ex Eo Ew Hw Hnd Hchk.
  assert (Hnp : forall r, pc s = MRetp r \/ pc s = MDone r -> False).
  { intros r Hr. destruct (B_retp c s HB r Hr) as (_ & Hall & _). apply Hnd. eapply Hall; eauto. }
  constructor; rewrite ?Ec, ?Ep, ?Ee, ?Ed, ?Ex, ?Eo, ?Ew.
  - apply (B_cfg c s HB).
  - rewrite upd_length. apply (B_len c s HB).
  - intros r Hr. exfalso. eauto.
  - apply (B_out c s HB).
  - intros Hd. destruct (B_dctx c s HB Hd) as [H|(Hu & [H|(r & Hr)])].
    + left. exact H.
    + right. split; [exact Hu|]. left. exact H.
    + exfalso. eauto.
  - intros Hu w2 i Hq. apply nth_upd_inv in Hq. destruct Hq as [[_ E]|[_ Hq]].
    + symmetry in E. apply Hchk in E. congruence.
    + apply (B_nochk c s HB Hu w2 i Hq).
  - apply (B_noctx c s HB).
Qed.

(* the worker list is untouched *)
Lemma InvB_same c s s' :
  InvB c s ->
  cfg s' = cfg s -> pc s' = pc s -> errc s' = errc s -> dctx s' = dctx s ->
  (cctx s = CDone -> cctx s' = CDone) -> out s' = out s -> ws s' = ws s ->
  InvB c s'.
Proof.
  intros HB Ec Ep Ee Ed Ex Eo Ew.
  constructor; unfold past_wait; rewrite ?Ec, ?Ep, ?Ee, ?Ed, ?Eo, ?Ew.
  - apply (B_cfg c s HB).
  - apply (B_len c s HB).
  - apply (B_retp c s HB).
  - apply (B_out c s HB).
  - intros Hd. destruct (B_dctx c s HB Hd) as [H|H]; [left; auto | right; exact H].
  - apply (B_nochk c s HB).
  - apply (B_noctx c s HB).
Qed.

Lemma InvB_step c s l s' : InvB c s -> qstep s l = Some s' -> InvB c s'.
Proof.
  intros HB H. pose proof (B_cfg c s HB) as Hcfg.
  destruct l as [| w i b | w i r v | r o | | | i | | w | w | w | w | | ]; simpl qstep in H.
  - (* LCall *) apply step_LCall in H. destruct H as [Hp ->].
    constructor; simpl; rewrite ?Hcfg.
    + reflexivity.
    + intros _. apply repeat_length.
    + intros r [E|E]; discriminate.
    + apply (B_out c s HB).
    + intros Hd. destruct (B_dctx c s HB Hd) as [E|(Hu & [E|(r & [E|E])])]; auto; rewrite Hp in E; discriminate.
    + intros _ w i Hw. apply nth_repeat in Hw. discriminate.
    + apply (B_noctx c s HB).
  - (* LEnter *) apply step_LEnter in H. destruct H as (Hw & Hc & ->).
    eapply (InvB_local c s _ w (WCall i)); simpl; eauto; discriminate.
  - (* LExit *) apply step_LExit in H. destruct H as (Hw & Hg & Hr & Hv & ->).
    eapply (InvB_local c s _ w (WIn i)); simpl; eauto; try discriminate.
    intros j. destruct (c_map (cfg s)); [discriminate|]. destruct r; discriminate.
  - (* LRet *) apply step_LRet in H. destruct H as (Hp & Ho & ->).
    destruct (B_retp c s HB r (or_introl Hp)) as (Hr & Hall & Hd).
    constructor; simpl; rewrite ?Hcfg.
    + reflexivity.
    + intros _. apply (B_len c s HB). rewrite Hp. discriminate.
    + intros r' [E|E]; [discriminate|]. inversion E; subst r'. auto.
    + apply (B_out c s HB).
    + intros Hd'. destruct (B_dctx c s HB Hd') as [E|(Hu & _)]; [left; exact E|].
      right. split; [exact Hu|]. right. exists r. right. reflexivity.
    + apply (B_nochk c s HB).
    + apply (B_noctx c s HB).
  - (* LCancel *) apply step_LCancel in H. subst s'.
    apply (InvB_same c s); simpl; auto. intros E; rewrite E; reflexivity.
  - (* LCancelDone *) apply step_LCancelDone in H. destruct H as [_ ->]. exact HB.
  - (* LRelease *) apply step_LRelease in H. subst s'. apply (InvB_same c s); simpl; auto.
  - (* LQuiesce *) apply qstep_LQuiesce in H. subst s'. exact HB.
  - (* TFetch *) apply step_TFetch in H. destruct H as (Hw & ->).
    eapply (InvB_local c s _ w WFetch); simpl; eauto; try discriminate.
    intros j. rewrite Hcfg. destruct (next s <? c_n c); [|discriminate].
    destruct (use_eg c) eqn:E; [reflexivity | discriminate].
  - (* TCheck *) apply step_TCheck in H. destruct H as (i & Hw & ->).
    eapply (InvB_local c s _ w (WCheck i)); simpl; eauto; try discriminate.
    intros j. destruct (dctx s); discriminate.
  - (* TWrite *) apply step_TWrite in H. destruct H as (i & v & r & Hw & ->).
    eapply (InvB_local c s _ w (WWrite i v r)); simpl; eauto; try discriminate.
    + apply upd_length.
    + intros j. destruct r; discriminate.
  - (* TFinish *) apply step_TFinish in H. destruct H as (r & Hw & [(e & -> & He & ->)|(_ & ->)]).
    + assert (Hnp : forall r, pc s = MRetp r \/ pc s = MDone r -> False).
      { intros r Hr. destruct (B_retp c s HB r Hr) as (_ & Hall & _). specialize (Hall w _ Hw). discriminate. }
      constructor; simpl; rewrite ?Hcfg.
      * reflexivity.
      * rewrite upd_length. apply (B_len c s HB).
      * intros r Hr. exfalso. eauto.
      * apply (B_out c s HB).
      * intros Hd. apply orb_true_iff in Hd. destruct Hd as [Hd|Hu].
        -- destruct (B_dctx c s HB Hd) as [E|(Hu & _)]; [left; exact E|]. right. split; [exact Hu|]. left. discriminate.
        -- right. split; [exact Hu|]. left. discriminate.
      * intros Hu w2 i Hq. apply nth_upd_inv in Hq. destruct Hq as [[_ E]|[_ Hq]]; [discriminate|].
        apply (B_nochk c s HB Hu w2 i Hq).
      * intros Hc. rewrite (B_noctx c s HB Hc). unfold use_eg. rewrite Hc. reflexivity.
    + eapply (InvB_local c s _ w (WRet r)); simpl; eauto; discriminate.
  - (* TWait *) apply step_TWait in H. destruct H as (Hp & Hall & ->).
    constructor; simpl; rewrite ?Hcfg.
    + reflexivity.
    + intros _. apply (B_len c s HB). rewrite Hp. discriminate.
    + intros r [E|E]; [|discriminate]. inversion E; subst r. split; [reflexivity|]. split; [exact Hall|].
      intros Hu. rewrite Hu. apply orb_true_r.
    + apply (B_out c s HB).
    + intros Hd. apply orb_true_iff in Hd. destruct Hd as [Hd|Hu].
      * destruct (B_dctx c s HB Hd) as [E|(Hu & _)]; [left; exact E|]. right. split; [exact Hu|].
        right. exists (errc s). left. reflexivity.
      * right. split; [exact Hu|]. right. exists (errc s). left. reflexivity.
    + apply (B_nochk c s HB).
    + intros Hc. rewrite (B_noctx c s HB Hc). unfold use_eg. rewrite Hc. reflexivity.
  - (* TCancelEff *) apply step_TCancelEff in H. destruct H as (Hc & ->).
    constructor; simpl; rewrite ?Hcfg.
    + reflexivity.
    + apply (B_len c s HB).
    + intros r Hr. destruct (B_retp c s HB r Hr) as (E & Hall & Hd). split; [exact E|]. split; [exact Hall|].
      intros Hu. rewrite (Hd Hu). reflexivity.
    + apply (B_out c s HB).
    + intros _. left. reflexivity.
    + apply (B_nochk c s HB).
    + intros Hx. rewrite (B_noctx c s HB Hx), Hx. reflexivity.
Qed.

(* ------------------------------------------------------------------ *)
(* InvC: errors and completeness                                       *)
(* ------------------------------------------------------------------ *)

(* a worker that carries an error it has not yet delivered to the error cell *)
Definition errpc (p : wpc) : bool :=
  match p with WRet (Some _) | WWrite _ _ (Some _) => true | _ => false end.

(* "something failed": a call returned an error or a worker saw a cancelled context *)
Definition bad (s : st) : Prop :=
  errc s <> None \/ exists w p, nth_error (ws s) w = Some p /\ errpc p = true.

Record InvC (s : st) : Prop := mkInvC {
  C_idle : pc s = MIdle -> errc s = None;
  C_cov : ~ bad s -> forall i, i < next s -> i < c_n (cfg s) ->
          In i (started s) \/ exists w p, nth_error (ws s) w = Some p /\ held p = Some i;
  C_fin : forall w p, nth_error (ws s) w = Some p -> (p = WRet None \/ p = WDone) ->
          bad s \/ c_n (cfg s) <= next s;
  C_failrec : forall x, In x (finished s) -> ferr x <> None -> bad s;
  C_errF : forall c, errc s = Some (EF c) -> exists i v, In (i, Some c, v) (finished s);
  C_errC : errc s = Some ECtx -> cctx s = CDone /\ use_eg (cfg s) = true;
  C_retF : forall w c, nth_error (ws s) w = Some (WRet (Some (EF c))) ->
                       exists i v, In (i, Some c, v) (finished s);
  C_retC : forall w, nth_error (ws s) w = Some (WRet (Some ECtx)) ->
                     (cctx s = CDone \/ errc s <> None) /\ use_eg (cfg s) = true;
  C_noerr : c_ctx (cfg s) = false -> forall x, In x (finished s) -> ferr x = None;
  C_seq1 : seqm (cfg s) = true -> errc s <> None -> forall w p, nth_error (ws s) w = Some p -> p = WDone;
  C_seqfail : seqm (cfg s) = true -> forall x y, In x (finished s) -> In y (finished s) ->
                                     ferr x <> None -> ferr y <> None -> x = y
}.

Lemma InvC_init c g : InvC (init c g).
Proof.
  constructor; simpl; auto; try (intros; contradiction); try discriminate.
  - intros _ i Hi. lia.
  - intros w p Hw. destruct w; discriminate.
  - intros w c0 Hw. destruct w; discriminate.
  - intros w Hw. destruct w; discriminate.
Qed.

(* "something failed" is stable: one worker moves, the error cell only fills *)
Lemma bad_upd s s' w p p' :
  nth_error (ws s) w = Some p -> ws s' = upd (ws s) w p' ->
  (errc s <> None -> errc s' <> None) ->
  (errpc p = true -> errpc p' = true \/ errc s' <> None) ->
  bad s -> bad s'.
Proof.
  intros Hw Ew He Hp [Hb|(w2 & q & Hq & Eq)].
  - left. auto.
  - destruct (Nat.eq_dec w w2) as [E|E].
    + subst w2. rewrite Hw in Hq. inversion Hq; subst q. destruct (Hp Eq) as [H|H]; [|left; exact H].
      right. exists w, p'. split; [|exact H]. rewrite Ew. eapply nth_upd_same; eauto.
    + right. exists w2, q. split; [|exact Eq]. rewrite Ew, nth_upd.
      destruct (Nat.eq_dec w w2); [contradiction|exact Hq].
Qed.

Lemma bad_upd_rev s s' w p p' :
  nth_error (ws s) w = Some p -> ws s' = upd (ws s) w p' ->
  (errc s' <> None -> errc s <> None) ->
  (errpc p' = true -> errpc p = true \/ errc s <> None) ->
  bad s' -> bad s.
Proof.
  intros Hw Ew He Hp [Hb|(w2 & q & Hq & Eq)].
  - left. auto.
  - rewrite Ew in Hq. apply nth_upd_inv in Hq. destruct Hq as [[<- ->]|[Hne Hq]].
    + destruct (Hp Eq) as [H|H]; [|left; exact H]. right. exists w, p. auto.
    + right. exists w2, q. auto.
Qed.

Lemma bad_same s s' : ws s' = ws s -> (errc s <> None -> errc s' <> None) -> bad s -> bad s'.
Proof. intros Ew He [Hb|Hb]; [left; auto | right; rewrite Ew; exact Hb]. Qed.

(* the stepping worker holds no index before and after, or keeps the one it holds *)
Lemma cov_upd (wl : list wpc) w p p' st0 i :
  nth_error wl w = Some p -> (forall j, held p = Some j -> held p' = Some j) ->
  (In i st0 \/ exists w2 q, nth_error wl w2 = Some q /\ held q = Some i) ->
  (In i st0 \/ exists w2 q, nth_error (upd wl w p') w2 = Some q /\ held q = Some i).
Proof.
  intros Hw Hh [H|(w2 & q & Hq & Eq)]; [left; exact H|]. right.
  destruct (Nat.eq_dec w w2) as [E|E].
  - subst w2. rewrite Hw in Hq. inversion Hq; subst q. exists w, p'. split; [eapply nth_upd_same; eauto | auto].
  - exists w2, q. split; [|exact Eq]. rewrite nth_upd. destruct (Nat.eq_dec w w2); [contradiction|exact Hq].
Qed.

Lemma InvC_same s s' :
  InvC s -> (pc s' = MIdle -> pc s = MIdle) ->
  cfg s' = cfg s -> next s' = next s -> started s' = started s -> finished s' = finished s ->
  ws s' = ws s -> errc s' = errc s -> (cctx s = CDone -> cctx s' = CDone) -> InvC s'.
Proof.
  intros HC Ep Ec En Es Ef Ew Ee Ex.
  assert (Hb : bad s' <-> bad s) by (unfold bad; rewrite Ew, Ee; tauto).
  constructor; rewrite ?Ec, ?En, ?Es, ?Ef, ?Ew, ?Ee.
  - intros H. apply (C_idle s HC). auto.
  - intros Hnb. apply (C_cov s HC). tauto.
  - intros w p Hw Hp. destruct (C_fin s HC w p Hw Hp) as [H|H]; [left; tauto | right; exact H].
  - intros x Hx Hf. apply Hb. apply (C_failrec s HC x Hx Hf).
  - apply (C_errF s HC).
  - intros H. destruct (C_errC s HC H). auto.
  - apply (C_retF s HC).
  - intros w H. destruct (C_retC s HC w H) as [[H1|H1] H2]; auto.
  - apply (C_noerr s HC).
  - apply (C_seq1 s HC).
  - apply (C_seqfail s HC).
Qed.

Lemma seq_single c s w w2 p :
  InvA s -> InvB c s -> seqm c = true -> nth_error (ws s) w = Some p -> w2 < length (ws s) -> w2 = w.
Proof.
  intros HA HB Hs Hw Hlt. pose proof (nth_lt _ _ _ Hw) as Hwlt.
  assert (Hp : pc s <> MIdle).
  { intros E. destruct (A_idle s HA E) as [E' _]. rewrite E' in Hw. destruct w; discriminate. }
  rewrite (B_len c s HB Hp) in *. unfold seqm in Hs. apply Nat.eqb_eq in Hs. lia.
Qed.

Lemma after_call_errpc r : errpc (after_call r) = match r with Some _ => true | None => false end.
Proof. destruct r; reflexivity. Qed.

(* a worker moves; started / finished / error cell / contexts are untouched, the counter may grow *)
Lemma InvC_local s s' w p p' :
  InvC s ->
  cfg s' = cfg s -> pc s' = pc s -> started s' = started s -> finished s' = finished s ->
  errc s' = errc s -> cctx s' = cctx s -> ws s' = upd (ws s) w p' -> next s <= next s' ->
  nth_error (ws s) w = Some p -> p <> WDone ->
  (forall j, held p = Some j -> held p' = Some j \/ errpc p' = true) ->
  (forall i, next s <= i -> i < next s' -> i < c_n (cfg s) -> held p' = Some i) ->
  (errpc p = true -> errpc p' = true \/ errc s <> None) ->
  (p' = WRet None \/ p' = WDone -> bad s' \/ c_n (cfg s) <= next s') ->
  (forall c, p' = WRet (Some (EF c)) -> exists i v, In (i, Some c, v) (finished s)) ->
  (p' = WRet (Some ECtx) -> (cctx s = CDone \/ errc s <> None) /\ use_eg (cfg s) = true) ->
  InvC s'.
Proof.
  intros HC Ec Ep Es Ef Ee Ex Ew Hn Hw Hnd Hheld Hnew Herr Hfin HrF HrC.
  assert (Hmono : bad s -> bad s').
  { apply (bad_upd s s' w p p'); auto; rewrite Ee; auto. }
  constructor; rewrite ?Ec, ?Ep, ?Es, ?Ef, ?Ee, ?Ex.
  - apply (C_idle s HC).
  - intros Hnb i Hi Hlt. rewrite Ew.
    destruct (lt_dec i (next s)) as [Hold|Hnew'].
    + assert (Hc : In i (started s) \/ exists w2 q, nth_error (ws s) w2 = Some q /\ held q = Some i)
        by (apply (C_cov s HC); auto).
      destruct Hc as [Hc|(w2 & q & Hq & Eq)]; [left; exact Hc|]. right.
      destruct (Nat.eq_dec w w2) as [E|E].
      * subst w2. rewrite Hw in Hq. inversion Hq; subst q. destruct (Hheld i Eq) as [H|H].
        -- exists w, p'. split; [eapply nth_upd_same; eauto | exact H].
        -- exfalso. apply Hnb. right. exists w, p'. split; [|exact H]. rewrite Ew. eapply nth_upd_same; eauto.
      * exists w2, q. split; [|exact Eq]. rewrite nth_upd. destruct (Nat.eq_dec w w2); [contradiction|exact Hq].
    + right. exists w, p'. split; [eapply nth_upd_same; eauto|]. apply Hnew; [lia | exact Hi | exact Hlt].
  - intros w2 q Hq Hp. rewrite Ew in Hq. apply nth_upd_inv in Hq. destruct Hq as [[_ ->]|[_ Hq]].
    + apply Hfin. exact Hp.
    + destruct (C_fin s HC w2 q Hq Hp) as [H|H]; [left; auto | right; lia].
  - intros x Hx Hf. apply Hmono. apply (C_failrec s HC x Hx Hf).
  - apply (C_errF s HC).
  - apply (C_errC s HC).
  - intros w2 c Hq. rewrite Ew in Hq. apply nth_upd_inv in Hq. destruct Hq as [[_ E]|[_ Hq]].
    + apply HrF. symmetry; exact E.
    + apply (C_retF s HC w2 c Hq).
  - intros w2 Hq. rewrite Ew in Hq. apply nth_upd_inv in Hq. destruct Hq as [[_ E]|[_ Hq]].
    + apply HrC. symmetry; exact E.
    + apply (C_retC s HC w2 Hq).
  - apply (C_noerr s HC).
  - intros Hs He w2 q Hq. exfalso. apply Hnd. apply (C_seq1 s HC Hs He w p Hw).
  - apply (C_seqfail s HC).
Qed.

Lemma InvC_step c s l s' : InvA s -> InvB c s -> InvC s -> qstep s l = Some s' -> InvC s'.
Proof.
  intros HA HB HC H. pose proof (B_cfg c s HB) as Hcfg.
  destruct l as [| w i b | w i r v | r o | | | i | | w | w | w | w | | ]; simpl qstep in H.
  - (* LCall *) apply step_LCall in H. destruct H as [Hp ->].
    destruct (A_idle s HA Hp) as [Ews Est]. pose proof (C_idle s HC Hp) as Herr.
    constructor; simpl.
    + discriminate.
    + intros Hnb i Hi Hn. destruct (C_cov s HC) with (i := i) as [Hs|(w & p & Hw & _)]; auto.
      * intros [Hb|(w & p & Hw & _)]; [congruence|]. rewrite Ews in Hw. destruct w; discriminate.
      * rewrite Ews in Hw. destruct w; discriminate.
    + intros w p Hw [E|E]; apply nth_repeat in Hw; congruence.
    + intros x Hx Hf. left. simpl. pose proof (C_failrec s HC x Hx Hf) as [Hb|(w & p & Hw & _)]; [exact Hb|].
      rewrite Ews in Hw. destruct w; discriminate.
    + apply (C_errF s HC).
    + apply (C_errC s HC).
    + intros w c0 Hw. apply nth_repeat in Hw. discriminate.
    + intros w Hw. apply nth_repeat in Hw. discriminate.
    + apply (C_noerr s HC).
    + intros _ He. congruence.
    + apply (C_seqfail s HC).
  - (* LEnter *) apply step_LEnter in H. destruct H as (Hw & Hc & ->).
    set (s1 := mkSt (cfg s) (pc s) (upd (ws s) w (WIn i)) (next s) (cctx s) (dctx s) (errc s) (out s)
                    (gopen s) (owner s) (started s ++ [i]) (finished s)
                    (cstarts s + (if b && negb (cdone (cctx s)) then 1 else 0))).
    assert (Hmono : bad s -> bad s1) by (apply (bad_upd s s1 w (WCall i) (WIn i)); simpl; auto; discriminate).
    assert (Hrev : bad s1 -> bad s) by (apply (bad_upd_rev s s1 w (WCall i) (WIn i)); simpl; auto; discriminate).
    constructor; simpl.
    + intros E. destruct (A_idle s HA E) as [E' _]. rewrite E' in Hw. destruct w; discriminate.
    + intros Hnb j Hj Hn. fold s1 in Hnb.
      assert (Hold : In j (started s) \/ exists w2 q, nth_error (ws s) w2 = Some q /\ held q = Some j)
        by (apply (C_cov s HC); auto).
      destruct Hold as [Hs|(w2 & q & Hq & Eq)]; [left; apply in_app_iff; left; exact Hs|].
      destruct (Nat.eq_dec w w2) as [E|E].
      * subst w2. rewrite Hw in Hq. inversion Hq; subst q. simpl in Eq. inversion Eq; subst j.
        left. apply in_app_iff. right; left; reflexivity.
      * right. exists w2, q. split; [|exact Eq]. rewrite nth_upd. destruct (Nat.eq_dec w w2); [contradiction|exact Hq].
    + intros w2 p Hq Hp. apply nth_upd_inv in Hq. destruct Hq as [[_ ->]|[_ Hq]]; [destruct Hp; discriminate|].
      destruct (C_fin s HC w2 p Hq Hp) as [Hb|Hn]; [left; auto | right; exact Hn].
    + intros x Hx Hf. apply Hmono. apply (C_failrec s HC x Hx Hf).
    + apply (C_errF s HC).
    + apply (C_errC s HC).
    + intros w2 c0 Hq. apply nth_upd_inv in Hq. destruct Hq as [[_ E]|[_ Hq]]; [discriminate|]. apply (C_retF s HC w2 c0 Hq).
    + intros w2 Hq. apply nth_upd_inv in Hq. destruct Hq as [[_ E]|[_ Hq]]; [discriminate|]. apply (C_retC s HC w2 Hq).
    + apply (C_noerr s HC).
    + intros Hs He w2 p Hq. pose proof (C_seq1 s HC Hs He w _ Hw). discriminate.
    + apply (C_seqfail s HC).
  - (* LExit *) apply step_LExit in H. destruct H as (Hw & Hg & Hr & Hv & ->).
    set (pn := if c_map (cfg s) then WWrite i v r else after_call r).
    set (s1 := mkSt (cfg s) (pc s) (upd (ws s) w pn) (next s) (cctx s) (dctx s) (errc s) (out s) (gopen s)
                    (owner s) (started s) (finished s ++ [(i, r, v)]) (cstarts s)).
    assert (Hpn : pn = WWrite i v r \/ pn = after_call r) by (unfold pn; destruct (c_map (cfg s)); auto).
    assert (Hmono : bad s -> bad s1) by (apply (bad_upd s s1 w (WIn i) pn); simpl; auto; discriminate).
    assert (Hnh : held pn = None) by (destruct Hpn as [-> | ->]; [reflexivity | destruct r; reflexivity]).
    constructor; simpl; fold pn.
    + intros E. destruct (A_idle s HA E) as [E' _]. rewrite E' in Hw. destruct w; discriminate.
    + intros Hnb j Hj Hn. fold s1 in Hnb.
      assert (Hold : In j (started s) \/ exists w2 q, nth_error (ws s) w2 = Some q /\ held q = Some j)
        by (apply (C_cov s HC); auto).
      destruct Hold as [Hs|(w2 & q & Hq & Eq)]; [left; exact Hs|]. right.
      destruct (Nat.eq_dec w w2) as [E|E].
      * subst w2. rewrite Hw in Hq. inversion Hq; subst q. discriminate.
      * exists w2, q. split; [|exact Eq]. rewrite nth_upd. destruct (Nat.eq_dec w w2); [contradiction|exact Hq].
    + intros w2 p Hq Hp. apply nth_upd_inv in Hq. destruct Hq as [[_ ->]|[_ Hq]].
      * exfalso. destruct Hpn as [E|E]; rewrite E in Hp; destruct Hp as [Hp|Hp]; try discriminate;
          destruct r; discriminate.
      * destruct (C_fin s HC w2 p Hq Hp) as [Hb|Hn]; [left; auto | right; exact Hn].
    + intros x Hx Hf. fold s1. apply in_app_iff in Hx. destruct Hx as [Hx|[<-|[]]].
      * apply Hmono. apply (C_failrec s HC x Hx Hf).
      * unfold ferr in Hf. simpl in Hf. right. exists w, pn. split; [simpl; eapply nth_upd_same; eauto|].
        destruct r as [c0|]; [|congruence]. destruct Hpn as [-> | ->]; reflexivity.
    + intros c0 He. destruct (C_errF s HC c0 He) as (j & u & Hj). exists j, u. apply in_app_iff. left; exact Hj.
    + apply (C_errC s HC).
    + intros w2 c0 Hq. apply nth_upd_inv in Hq. destruct Hq as [[_ E]|[_ Hq]].
      * destruct Hpn as [E'|E']; rewrite E' in E; [discriminate|]. destruct r as [c1|]; [|discriminate].
        simpl in E. inversion E; subst c1. exists i, v. apply in_app_iff. right; left; reflexivity.
      * destruct (C_retF s HC w2 c0 Hq) as (j & u & Hj). exists j, u. apply in_app_iff. left; exact Hj.
    + intros w2 Hq. apply nth_upd_inv in Hq. destruct Hq as [[_ E]|[_ Hq]].
      * destruct Hpn as [E'|E']; rewrite E' in E; [discriminate|]. destruct r; discriminate.
      * apply (C_retC s HC w2 Hq).
    + intros Hx x Hin. apply in_app_iff in Hin. destruct Hin as [Hin|[<-|[]]].
      * apply (C_noerr s HC Hx x Hin).
      * unfold ferr. simpl. apply Hr. exact Hx.
    + intros Hs He w2 p Hq. pose proof (C_seq1 s HC Hs He w _ Hw). discriminate.
    + intros Hs x y Hx Hy Fx Fy.
      assert (Hnb : ~ bad s).
      { intros [Hb|(w2 & q & Hq & Eq)].
        - pose proof (C_seq1 s HC Hs Hb w _ Hw). discriminate.
        - rewrite <- Hcfg in HB. assert (w2 = w) by (eapply (seq_single (cfg s) s w w2); eauto; eapply nth_lt; eauto).
          subst w2. rewrite Hw in Hq. inversion Hq; subst q. discriminate. }
      assert (Hold : forall z, In z (finished s) -> ferr z <> None -> False).
      { intros z Hz Fz. apply Hnb. apply (C_failrec s HC z Hz Fz). }
      apply in_app_iff in Hx. apply in_app_iff in Hy.
      destruct Hx as [Hx|[<-|[]]]; [exfalso; eauto|]. destruct Hy as [Hy|[<-|[]]]; [exfalso; eauto|]. reflexivity.
  - (* LRet *) apply step_LRet in H. destruct H as (Hp & Ho & ->).
    apply (InvC_same s); simpl; auto. discriminate.
  - (* LCancel *) apply step_LCancel in H. subst s'. apply (InvC_same s); simpl; auto.
    intros E; rewrite E; reflexivity.
  - (* LCancelDone *) apply step_LCancelDone in H. destruct H as [_ ->]. exact HC.
  - (* LRelease *) apply step_LRelease in H. subst s'. apply (InvC_same s); simpl; auto.
  - (* LQuiesce *) apply qstep_LQuiesce in H. subst s'. exact HC.
  - (* TFetch *) apply step_TFetch in H. destruct H as (Hw & ->).
    set (pn := if next s <? c_n (cfg s) then (if use_eg (cfg s) then WCheck (next s) else WCall (next s)) else WRet None).
    eapply (InvC_local s _ w WFetch pn); simpl; fold pn; eauto; try discriminate.
    + intros j Hj Hlt Hn. assert (j = next s) by lia. subst j. unfold pn.
      apply Nat.ltb_lt in Hn. rewrite Hn. destruct (use_eg (cfg s)); reflexivity.
    + intros Hp. right. unfold pn in Hp. destruct (next s <? c_n (cfg s)) eqn:E.
      * destruct (use_eg (cfg s)); destruct Hp; discriminate.
      * apply Nat.ltb_ge in E. lia.
    + intros c0 E. unfold pn in E. destruct (next s <? c_n (cfg s)), (use_eg (cfg s)); discriminate.
    + intros E. unfold pn in E. destruct (next s <? c_n (cfg s)), (use_eg (cfg s)); discriminate.
  - (* TCheck *) apply step_TCheck in H. destruct H as (i & Hw & ->).
    set (pn := if dctx s then WRet (Some ECtx) else WCall i).
    eapply (InvC_local s _ w (WCheck i) pn); simpl; fold pn; eauto; try discriminate.
    + intros j E. inversion E; subst j. unfold pn. destruct (dctx s); [right|left]; reflexivity.
    + intros j Hj Hlt. lia.
    + intros Hp. unfold pn in Hp. destruct (dctx s); destruct Hp; discriminate.
    + intros c0 E. unfold pn in E. destruct (dctx s); discriminate.
    + intros E. unfold pn in E. destruct (dctx s) eqn:Hd; [|discriminate].
      assert (Hu : use_eg c = true).
      { destruct (use_eg c) eqn:Eu; [reflexivity|]. exfalso. eapply (B_nochk c s HB Eu); eauto. }
      rewrite Hcfg. split; [|exact Hu].
      destruct (B_dctx c s HB Hd) as [Hx|(_ & [Hx|(r & Hr)])]; auto.
      exfalso. destruct (B_retp c s HB r Hr) as (_ & Hall & _). specialize (Hall w _ Hw). discriminate.
  - (* TWrite *) apply step_TWrite in H. destruct H as (i & v & r & Hw & ->).
    eapply (InvC_local s _ w (WWrite i v r) (after_call r)); simpl; eauto; try discriminate.
    + intros j Hj Hlt. lia.
    + intros Hp. left. rewrite after_call_errpc. destruct r; [reflexivity|discriminate].
    + intros Hp. destruct r; destruct Hp; discriminate.
    + intros c0 E. destruct r as [c1|]; [|discriminate]. simpl in E. inversion E; subst c1.
      exists i, v. apply (A_wr_fin s HA w i v (Some c0) Hw).
    + intros E. destruct r; discriminate.
  - (* TFinish *) apply step_TFinish in H. destruct H as (r & Hw & [(e & -> & He & ->)|(Hr & ->)]).
    + (* the first error is recorded *)
      set (s1 := mkSt (cfg s) (pc s) (upd (ws s) w WDone) (next s) (cctx s) (dctx s || use_eg (cfg s)) (Some e)
                      (out s) (gopen s) (owner s) (started s) (finished s) (cstarts s)).
      assert (Hb1 : bad s1) by (left; simpl; discriminate).
      constructor; simpl; fold s1.
      * intros E. destruct (A_idle s HA E) as [E' _]. rewrite E' in Hw. destruct w; discriminate.
      * intros Hnb. contradiction.
      * intros; left; exact Hb1.
      * intros; exact Hb1.
      * intros c0 E. inversion E; subst e. apply (C_retF s HC w c0 Hw).
      * intros E. inversion E; subst e. destruct (C_retC s HC w Hw) as [[Hx|Hx] Hu]; [auto|congruence].
      * intros w2 c0 Hq. apply nth_upd_inv in Hq. destruct Hq as [[_ E]|[_ Hq]]; [discriminate|]. apply (C_retF s HC w2 c0 Hq).
      * intros w2 Hq. apply nth_upd_inv in Hq. destruct Hq as [[_ E]|[_ Hq]]; [discriminate|].
        destruct (C_retC s HC w2 Hq) as [_ Hu]. split; [right; discriminate | exact Hu].
      * apply (C_noerr s HC).
      * intros Hs _ w2 p Hq. rewrite <- Hcfg in HB.
        assert (w2 = w).
        { eapply (seq_single (cfg s) s w w2); eauto. apply nth_lt in Hq. rewrite upd_length in Hq. exact Hq. }
        subst w2. rewrite (nth_upd_same _ _ _ _ Hw) in Hq. inversion Hq; reflexivity.
      * apply (C_seqfail s HC).
    + eapply (InvC_local s _ w (WRet r) WDone); simpl; eauto; try discriminate.
      * intros j Hj Hlt. lia.
      * intros Hp. right. destruct r; [|discriminate]. destruct Hr; [discriminate|assumption].
      * intros _. destruct r as [e|].
        -- left. left. simpl. destruct Hr; [discriminate|assumption].
        -- destruct (C_fin s HC w (WRet None) Hw (or_introl eq_refl)) as [Hb|Hn]; [|right; exact Hn].
           left. eapply (bad_upd s _ w (WRet None) WDone); simpl; eauto; discriminate.
  - (* TWait *) apply step_TWait in H. destruct H as (Hp & Hall & ->).
    apply (InvC_same s); simpl; auto. discriminate.
  - (* TCancelEff *) apply step_TCancelEff in H. destruct H as (Hc & ->).
    apply (InvC_same s); simpl; auto.
Qed.

(* ------------------------------------------------------------------ *)
(* InvD: calls that begin with a cancelled context                     *)
(* ------------------------------------------------------------------ *)

Definition is_call (p : wpc) : bool := match p with WCall _ => true | _ => false end.

(* D_win is the counting argument: once the derived context is Done (and the caller's is not), every
   further cancelled start is one of the workers that already passed its ctx.Err() check (is at WCall);
   the worker whose error cancelled the context is not among them. *)
Record InvD (s : st) : Prop := mkInvD {
  D_live : dctx s = false -> cstarts s = 0;
  D_win : cctx s <> CDone -> dctx s = true -> pc s = MWait ->
          cstarts s + cnt is_call (ws s) + 1 <= length (ws s);
  D_bound : cstarts s + 1 <= length (ws s) \/ cstarts s = 0
}.

Lemma InvD_init c g : InvD (init c g).
Proof. constructor; simpl; auto. discriminate. Qed.

Lemma cnt_upd_same {A} (f : A -> bool) l n x y :
  nth_error l n = Some y -> f x = f y -> cnt f (upd l n x) = cnt f l.
Proof. intros H E. pose proof (cnt_upd f l n x y H) as Hc. rewrite E in Hc. lia. Qed.

(* a worker moves between pcs that are not WCall; pc, contexts and the counter of cancelled starts are untouched *)
Lemma InvD_local s s' w p p' :
  InvD s -> pc s' = pc s -> cctx s' = cctx s -> dctx s' = dctx s -> cstarts s' = cstarts s ->
  ws s' = upd (ws s) w p' -> nth_error (ws s) w = Some p ->
  (dctx s = true -> cctx s <> CDone -> is_call p' = is_call p) -> InvD s'.
Proof.
  intros HD Ep Ex Ed Ec Ew Hw Hcall.
  constructor; rewrite ?Ep, ?Ex, ?Ed, ?Ec, ?Ew, ?upd_length.
  - apply (D_live s HD).
  - intros Hx Hd Hp. rewrite (cnt_upd_same is_call (ws s) w p' p Hw (Hcall Hd Hx)). apply (D_win s HD Hx Hd Hp).
  - apply (D_bound s HD).
Qed.

Lemma InvD_same s s' :
  InvD s -> (pc s' = MWait -> pc s = MWait) -> (cctx s' <> CDone -> cctx s <> CDone) ->
  (dctx s = true -> dctx s' = true) -> (dctx s' = true -> cctx s' <> CDone -> pc s' = MWait -> dctx s = true) ->
  cstarts s' = cstarts s -> ws s' = ws s -> InvD s'.
Proof.
  intros HD Ep Ex Ed Ed' Ec Ew.
  constructor; rewrite ?Ec, ?Ew.
  - intros H. apply (D_live s HD). destruct (dctx s); [|reflexivity]. rewrite Ed in H; [discriminate|reflexivity].
  - intros Hx Hd Hp. apply (D_win s HD); auto.
  - apply (D_bound s HD).
Qed.

Lemma InvD_step c s l s' : InvA s -> InvB c s -> InvC s -> InvD s -> qstep s l = Some s' -> InvD s'.
Proof.
  intros HA HB HC HD H. pose proof (B_cfg c s HB) as Hcfg.
  destruct l as [| w i b | w i r v | r o | | | i | | w | w | w | w | | ]; simpl qstep in H.
  - (* LCall *) apply step_LCall in H. destruct H as [Hp ->].
    destruct (A_idle s HA Hp) as [Ews _].
    assert (H0 : cstarts s = 0) by (destruct (D_bound s HD) as [Hb|Hb]; [rewrite Ews in Hb; simpl in Hb; lia | exact Hb]).
    constructor; simpl.
    + apply (D_live s HD).
    + intros Hx Hd _. exfalso. destruct (B_dctx c s HB Hd) as [E|(_ & [E|(r & [E|E])])].
      * contradiction.
      * apply E. apply (C_idle s HC Hp).
      * congruence.
      * congruence.
    + right. exact H0.
  - (* LEnter *) apply step_LEnter in H. destruct H as (Hw & Hc & ->).
    assert (Hpc : pc s = MWait).
    { destruct (pc s) as [| |r|r] eqn:E; [|reflexivity| |].
      - destruct (A_idle s HA E) as [E' _]. rewrite E' in Hw. destruct w; discriminate.
      - destruct (B_retp c s HB r (or_introl E)) as (_ & Hall & _). specialize (Hall w _ Hw). discriminate.
      - destruct (B_retp c s HB r (or_intror E)) as (_ & Hall & _). specialize (Hall w _ Hw). discriminate. }
    pose proof (cnt_upd is_call (ws s) w (WIn i) (WCall i) Hw) as Hcnt. simpl in Hcnt.
    pose proof (cnt_pos is_call (ws s) w (WCall i) Hw eq_refl) as Hpos.
    constructor; simpl; rewrite ?upd_length.
    + intros Hd. subst b. rewrite Hd. simpl. rewrite (D_live s HD Hd). reflexivity.
    + intros Hx Hd _. pose proof (D_win s HD Hx Hd Hpc) as Hwin.
      destruct (b && negb (cdone (cctx s))); lia.
    + destruct (b && negb (cdone (cctx s))) eqn:E.
      * apply andb_true_iff in E. destruct E as [Eb Ex]. subst b.
        assert (Hx : cctx s <> CDone) by (intros E; rewrite E in Ex; discriminate).
        pose proof (D_win s HD Hx Eb Hpc) as Hwin. left. lia.
      * rewrite Nat.add_0_r. apply (D_bound s HD).
  - (* LExit *) apply step_LExit in H. destruct H as (Hw & Hg & Hr & Hv & ->).
    eapply (InvD_local s _ w (WIn i)); simpl; eauto.
    intros _ _. destruct (c_map (cfg s)); [reflexivity|]. destruct r; reflexivity.
  - (* LRet *) apply step_LRet in H. destruct H as (Hp & Ho & ->).
    apply (InvD_same s); simpl; auto; discriminate.
  - (* LCancel *) apply step_LCancel in H. subst s'. apply (InvD_same s); simpl; auto.
    intros Hx E. apply Hx. rewrite E. reflexivity.
  - (* LCancelDone *) apply step_LCancelDone in H. destruct H as [_ ->]. exact HD.
  - (* LRelease *) apply step_LRelease in H. subst s'. apply (InvD_same s); simpl; auto.
  - (* LQuiesce *) apply qstep_LQuiesce in H. subst s'. exact HD.
  - (* TFetch *) apply step_TFetch in H. destruct H as (Hw & ->).
    eapply (InvD_local s _ w WFetch); simpl; eauto.
    intros Hd Hx. destruct (next s <? c_n (cfg s)); [|reflexivity].
    destruct (use_eg (cfg s)) eqn:Eu; [reflexivity|].
    exfalso. destruct (B_dctx c s HB Hd) as [E|(Hu & _)]; [contradiction|]. rewrite Hcfg in Eu. congruence.
  - (* TCheck *) apply step_TCheck in H. destruct H as (i & Hw & ->).
    eapply (InvD_local s _ w (WCheck i)); simpl; eauto.
    intros Hd _. rewrite Hd. reflexivity.
  - (* TWrite *) apply step_TWrite in H. destruct H as (i & v & r & Hw & ->).
    eapply (InvD_local s _ w (WWrite i v r)); simpl; eauto.
    intros _ _. destruct r; reflexivity.
  - (* TFinish *) apply step_TFinish in H. destruct H as (r & Hw & [(e & -> & He & ->)|(_ & ->)]).
    + constructor; simpl; rewrite ?upd_length.
      * intros Hd. apply orb_false_iff in Hd. destruct Hd as [Hd _]. apply (D_live s HD Hd).
      * intros Hx _ Hp. destruct (dctx s) eqn:Hd.
        -- rewrite (cnt_upd_same is_call (ws s) w WDone (WRet (Some e)) Hw eq_refl). apply (D_win s HD Hx Hd Hp).
        -- rewrite (D_live s HD Hd). simpl.
           pose proof (cnt_lt is_call (upd (ws s) w WDone) w WDone (nth_upd_same _ _ _ _ Hw) eq_refl) as Hlt.
           rewrite upd_length in Hlt. exact Hlt.
      * apply (D_bound s HD).
    + eapply (InvD_local s _ w (WRet r)); simpl; eauto.
  - (* TWait *) apply step_TWait in H. destruct H as (Hp & Hall & ->).
    constructor; simpl.
    + intros Hd. apply orb_false_iff in Hd. destruct Hd as [Hd _]. apply (D_live s HD Hd).
    + intros _ _ E. discriminate.
    + apply (D_bound s HD).
  - (* TCancelEff *) apply step_TCancelEff in H. destruct H as (Hc & ->).
    constructor; simpl.
    + intros Hd. apply orb_false_iff in Hd. destruct Hd as [Hd _]. apply (D_live s HD Hd).
    + intros E. contradiction.
    + apply (D_bound s HD).
Qed.

(* ------------------------------------------------------------------ *)
(* InvP: positional writes                                             *)
(* ------------------------------------------------------------------ *)

Record InvP (s : st) : Prop := mkInvP {
  P_out : c_map (cfg s) = true -> forall i r v, In (i, r, v) (finished s) ->
          (exists w, nth_error (ws s) w = Some (WWrite i v r)) \/ nth_error (out s) i = Some v
}.

Lemma InvP_init c g : InvP (init c g).
Proof. constructor; simpl. intros _ i r v H. contradiction. Qed.

Lemma InvP_keep s s' :
  InvP s -> cfg s' = cfg s -> finished s' = finished s -> out s' = out s ->
  (forall w i v r, nth_error (ws s) w = Some (WWrite i v r) -> nth_error (ws s') w = Some (WWrite i v r)) ->
  InvP s'.
Proof.
  intros HP Ec Ef Eo Hk. constructor; rewrite Ec, Ef, Eo. intros Hm i r v Hin.
  destruct (P_out s HP Hm i r v Hin) as [(w & Hw)|H]; [left; exists w; auto | right; exact H].
Qed.

Lemma keep_upd (wl : list wpc) w p p' :
  nth_error wl w = Some p -> (forall i v r, p <> WWrite i v r) ->
  forall w2 i v r, nth_error wl w2 = Some (WWrite i v r) -> nth_error (upd wl w p') w2 = Some (WWrite i v r).
Proof.
  intros Hw Hn w2 i v r Hq. rewrite nth_upd. destruct (Nat.eq_dec w w2) as [E|E]; [|exact Hq].
  subst w2. rewrite Hw in Hq. inversion Hq. exfalso. eapply Hn; eauto.
Qed.

Lemma fidx_inj (l : list (nat * option nat * Z)) x y :
  NoDup (map fidx l) -> In x l -> In y l -> fidx x = fidx y -> x = y.
Proof.
  induction l as [|h t IH]; intros Hnd Hx Hy E; [contradiction|].
  simpl in Hnd. inversion Hnd as [|? ? Hh Ht]; subst.
  destruct Hx as [Hx|Hx], Hy as [Hy|Hy]; subst.
  - reflexivity.
  - exfalso. apply Hh. rewrite E. apply in_map. exact Hy.
  - exfalso. apply Hh. rewrite <- E. apply in_map. exact Hx.
  - apply IH; auto.
Qed.

Lemma InvP_step c s l s' : InvA s -> InvB c s -> InvP s -> qstep s l = Some s' -> InvP s'.
Proof.
  intros HA HB HP H. pose proof (B_cfg c s HB) as Hcfg.
  destruct l as [| w i b | w i r v | r o | | | i | | w | w | w | w | | ]; simpl qstep in H.
  - (* LCall *) apply step_LCall in H. destruct H as [Hp ->].
    destruct (A_idle s HA Hp) as [Ews _].
    apply (InvP_keep s); simpl; auto. intros w i v r Hw. rewrite Ews in Hw. destruct w; discriminate.
  - (* LEnter *) apply step_LEnter in H. destruct H as (Hw & Hc & ->).
    apply (InvP_keep s); simpl; auto. apply (keep_upd _ _ _ _ Hw). discriminate.
  - (* LExit *) apply step_LExit in H. destruct H as (Hw & Hg & Hr & Hv & ->).
    constructor; simpl. intros Hm j r2 v2 Hin. rewrite Hm.
    apply in_app_iff in Hin. destruct Hin as [Hin|[E|[]]].
    + destruct (P_out s HP Hm j r2 v2 Hin) as [(w2 & Hq)|Ho]; [left|right; exact Ho].
      exists w2. apply (keep_upd _ _ _ _ Hw); [discriminate | exact Hq].
    + inversion E; subst. left. exists w. eapply nth_upd_same; eauto.
  - (* LRet *) apply step_LRet in H. destruct H as (Hp & Ho & ->). apply (InvP_keep s); simpl; auto.
  - (* LCancel *) apply step_LCancel in H. subst s'. apply (InvP_keep s); simpl; auto.
  - (* LCancelDone *) apply step_LCancelDone in H. destruct H as [_ ->]. exact HP.
  - (* LRelease *) apply step_LRelease in H. subst s'. apply (InvP_keep s); simpl; auto.
  - (* LQuiesce *) apply qstep_LQuiesce in H. subst s'. exact HP.
  - (* TFetch *) apply step_TFetch in H. destruct H as (Hw & ->).
    apply (InvP_keep s); simpl; auto. apply (keep_upd _ _ _ _ Hw). discriminate.
  - (* TCheck *) apply step_TCheck in H. destruct H as (i & Hw & ->).
    apply (InvP_keep s); simpl; auto. apply (keep_upd _ _ _ _ Hw). discriminate.
  - (* TWrite *) apply step_TWrite in H. destruct H as (i & v & r & Hw & ->).
    pose proof (A_own s HA w _ i Hw eq_refl) as [_ Hin].
    assert (Hlen : i < length (out s)) by (rewrite (B_out c s HB), <- Hcfg; exact Hin).
    pose proof (A_wr_fin s HA w i v r Hw) as Hrec.
    constructor; simpl. intros Hm j r2 v2 Hj.
    destruct (Nat.eq_dec j i) as [E|E].
    + subst j. assert (Heq : (i, r2, v2) = (i, r, v)) by (apply (fidx_inj (finished s)); auto; apply (A_fin_nd s HA)).
      inversion Heq; subst. right. apply nth_error_upd_same. exact Hlen.
    + destruct (P_out s HP Hm j r2 v2 Hj) as [(w2 & Hq)|Ho].
      * left. exists w2. rewrite nth_upd. destruct (Nat.eq_dec w w2) as [E2|E2]; [|exact Hq].
        subst w2. rewrite Hw in Hq. inversion Hq. congruence.
      * right. rewrite nth_error_upd_other; auto.
  - (* TFinish *) apply step_TFinish in H. destruct H as (r & Hw & [(e & -> & He & ->)|(_ & ->)]).
    + apply (InvP_keep s); simpl; auto. apply (keep_upd _ _ _ _ Hw). discriminate.
    + apply (InvP_keep s); simpl; auto. apply (keep_upd _ _ _ _ Hw). discriminate.
  - (* TWait *) apply step_TWait in H. destruct H as (Hp & Hall & ->). apply (InvP_keep s); simpl; auto.
  - (* TCancelEff *) apply step_TCancelEff in H. destruct H as (Hc & ->). apply (InvP_keep s); simpl; auto.
Qed.

(* ------------------------------------------------------------------ *)
(* all invariants, every reachable state                               *)
(* ------------------------------------------------------------------ *)

Definition reach (c : config) (g : list bool) (s : st) : Prop := reachable qstep (init c g) s.

Definition Inv (c : config) (s : st) : Prop := InvA s /\ InvB c s /\ InvC s /\ InvD s /\ InvP s.

Theorem Inv_reach c g s : reach c g s -> Inv c s.
Proof.
  apply (invariant_rule qstep (Inv c)).
  - split; [apply InvA_init|]. split; [apply InvB_init|]. split; [apply InvC_init|].
    split; [apply InvD_init | apply InvP_init].
  - intros s0 l s1 (HA & HB & HC & HD & HP) Hs.
    split; [eapply InvA_step; eauto|]. split; [eapply InvB_step; eauto|].
    split; [eapply InvC_step; eauto|]. split; [eapply InvD_step; eauto | eapply InvP_step; eauto].
Qed.

(* ------------------------------------------------------------------ *)
(* consequences at and after the return                                *)
(* ------------------------------------------------------------------ *)

Definition returning (s : st) (r : option rerr) : Prop := pc s = MRetp r \/ pc s = MDone r.

(* a call of f (including the positional write of the Map wrappers) is in progress *)
Definition busy (p : wpc) : bool := match p with WIn _ | WWrite _ _ _ => true | _ => false end.
Definition inprogress (s : st) : nat := cnt busy (ws s).

Lemma eff_zero c : 1 <= c_gmp c -> eff c = 0 -> c_n c = 0.
Proof. unfold eff. destruct (c_par c <=? 0)%Z eqn:E; [lia|]. apply Z.leb_gt in E. lia. Qed.

Lemma returning_done c s r : InvB c s -> returning s r ->
  r = errc s /\ forall w p, nth_error (ws s) w = Some p -> p = WDone.
Proof. intros HB Hr. destruct (B_retp c s HB r Hr) as (E & Hall & _). auto. Qed.

Lemma returning_bad c s r : InvB c s -> returning s r -> bad s -> r <> None.
Proof.
  intros HB Hr Hb. destruct (returning_done c s r HB Hr) as [-> Hall].
  destruct Hb as [Hb|(w & p & Hw & Hp)]; [exact Hb|]. rewrite (Hall w p Hw) in Hp. discriminate.
Qed.

(* nil is returned only after every index has been started and finished *)
Lemma nil_all_run c g s :
  1 <= c_gmp c -> reach c g s -> returning s None ->
  (forall i, In i (started s) <-> i < c_n c) /\ (forall i, In i (map fidx (finished s)) <-> i < c_n c).
Proof.
  intros Hg Hr Hret. destruct (Inv_reach c g s Hr) as (HA & HB & HC & HD & HP).
  pose proof (B_cfg c s HB) as Hcfg.
  destruct (returning_done c s None HB Hret) as [He Hall].
  assert (Hnb : ~ bad s) by (intros Hb; apply (returning_bad c s None HB Hret Hb); reflexivity).
  assert (Hp : pc s <> MIdle) by (destruct Hret as [E|E]; rewrite E; discriminate).
  assert (Hnext : c_n c <= next s).
  { destruct (nth_error (ws s) 0) as [p0|] eqn:H0.
    2:{ apply nth_error_None in H0. pose proof (B_len c s HB Hp) as Hl.
        assert (Hz : eff c = 0) by lia. rewrite (eff_zero c Hg Hz). lia. }
    - pose proof (Hall 0 p0 H0) as E0. destruct (C_fin s HC 0 p0 H0 (or_intror E0)) as [Hb|Hn]; [contradiction|].
      rewrite Hcfg in Hn. exact Hn. }
  assert (Hst : forall i, In i (started s) <-> i < c_n c).
  { intros i. split.
    - intros Hi. destruct (A_st_lt s HA i Hi) as [_ H]. rewrite Hcfg in H. exact H.
    - intros Hi. destruct (C_cov s HC Hnb i) as [H|(w & p & Hw & Hh)]; [lia | rewrite Hcfg; exact Hi | exact H |].
      rewrite (Hall w p Hw) in Hh. discriminate. }
  split; [exact Hst|]. intros i. split.
  - intros Hi. apply in_map_iff in Hi. destruct Hi as (x & <- & Hx). apply Hst. apply (A_fin_st s HA x Hx).
  - intros Hi. apply Hst in Hi. destruct (A_st_cov s HA i Hi) as [H|(w & Hw)]; [exact H|].
    specialize (Hall w _ Hw). discriminate.
Qed.

Lemma noctx_noerr c g s : reach c g s -> c_ctx c = false -> errc s = None.
Proof.
  intros Hr Hc. destruct (Inv_reach c g s Hr) as (HA & HB & HC & HD & HP).
  pose proof (B_cfg c s HB) as Hcfg.
  destruct (errc s) as [[|k]|] eqn:E; [| |reflexivity].
  - destruct (C_errC s HC E) as [_ Hu]. unfold use_eg in Hu. rewrite Hcfg, Hc in Hu. discriminate.
  - destruct (C_errF s HC k E) as (i & v & Hin). rewrite <- Hcfg in Hc.
    pose proof (C_noerr s HC Hc _ Hin) as Hf. discriminate.
Qed.

(* ---- C13_exactly_once ---- *)
Lemma pardo_no_double_start c g s : reach c g s ->
  NoDup (started s) /\ (forall i, In i (started s) -> i < c_n c) /\ NoDup (map fidx (finished s)).
Proof.
  intros Hr. destruct (Inv_reach c g s Hr) as (HA & HB & _). pose proof (B_cfg c s HB) as Hcfg.
  split; [apply (A_st_nd s HA)|]. split; [|apply (A_fin_nd s HA)].
  intros i Hi. destruct (A_st_lt s HA i Hi) as [_ H]. rewrite Hcfg in H. exact H.
Qed.

Lemma pardo_error_source c g s r : reach c g s -> returning s r ->
  (forall k, r = Some (EF k) -> exists i v, In (i, Some k, v) (finished s)) /\
  (r = Some ECtx -> cctx s = CDone /\ use_eg c = true).
Proof.
  intros Hr Hret. destruct (Inv_reach c g s Hr) as (HA & HB & HC & HD & HP).
  pose proof (B_cfg c s HB) as Hcfg. destruct (returning_done c s r HB Hret) as [-> _]. split.
  - apply (C_errF s HC).
  - intros E. rewrite <- Hcfg. apply (C_errC s HC E).
Qed.

Lemma pardo_exactly_once c g s r :
  1 <= c_gmp c -> reach c g s -> returning s r ->
  (forall x, In x (finished s) -> ferr x = None) ->      (* no call failed *)
  cctx s <> CDone ->                                      (* the caller's context is (still) not Done *)
  r = None /\ Permutation (started s) (seq 0 (c_n c)) /\ Permutation (map fidx (finished s)) (seq 0 (c_n c)).
Proof.
  intros Hg Hr Hret Hnf Hlive.
  destruct (pardo_error_source c g s r Hr Hret) as [HF HX].
  assert (E : r = None).
  { destruct r as [[|k]|]; [| |reflexivity].
    - destruct (HX eq_refl) as [E _]. contradiction.
    - destruct (HF k eq_refl) as (i & v & Hin). specialize (Hnf _ Hin). discriminate. }
  subst r. split; [reflexivity|].
  destruct (nil_all_run c g s Hg Hr Hret) as [Hs Hf].
  destruct (pardo_no_double_start c g s Hr) as (Hnd & _ & Hndf).
  split; apply NoDup_Permutation; auto using seq_NoDup; intros i; rewrite in_seq; [rewrite Hs | rewrite Hf]; lia.
Qed.

Lemma pardo_nil_exactly_once c g s :
  1 <= c_gmp c -> reach c g s -> returning s None ->
  Permutation (started s) (seq 0 (c_n c)) /\ Permutation (map fidx (finished s)) (seq 0 (c_n c)).
Proof.
  intros Hg Hr Hret.
  destruct (nil_all_run c g s Hg Hr Hret) as [Hs Hf].
  destruct (pardo_no_double_start c g s Hr) as (Hnd & _ & Hndf).
  split; apply NoDup_Permutation; auto using seq_NoDup; intros i; rewrite in_seq; [rewrite Hs | rewrite Hf]; lia.
Qed.

(* ---- C13_bounded ---- *)
Lemma pardo_bounded c g s : reach c g s ->
  inprogress s <= eff c /\
  ((0 < c_par c)%Z -> inprogress s <= Z.to_nat (c_par c)) /\
  ((c_par c <= 0)%Z -> inprogress s <= c_gmp c).
Proof.
  intros Hr. destruct (Inv_reach c g s Hr) as (HA & HB & _).
  assert (H : inprogress s <= eff c).
  { unfold inprogress. pose proof (cnt_le busy (ws s)) as Hle.
    destruct (pc s) eqn:Ep.
    - destruct (A_idle s HA Ep) as [E _]. rewrite E. simpl. lia.
    - rewrite <- (B_len c s HB); [exact Hle | congruence].
    - rewrite <- (B_len c s HB); [exact Hle | congruence].
    - rewrite <- (B_len c s HB); [exact Hle | congruence]. }
  split; [exact H|]. unfold eff in H. split; intros Hp.
  - destruct (c_par c <=? 0)%Z eqn:E; [apply Z.leb_le in E; lia | lia].
  - destruct (c_par c <=? 0)%Z eqn:E; [lia | apply Z.leb_gt in E; lia].
Qed.

(* ---- C13_barrier ---- *)
Lemma pardo_barrier_ret c g s r o s' : reach c g s -> step s (LRet r o) = Some s' ->
  inprogress s = 0 /\ (forall w p, nth_error (ws s) w = Some p -> p = WDone).
Proof.
  intros Hr Hs. destruct (Inv_reach c g s Hr) as (HA & HB & _).
  apply step_LRet in Hs. destruct Hs as (Hp & _ & _).
  destruct (returning_done c s r HB (or_introl Hp)) as [_ Hall]. split; [|exact Hall].
  apply cnt_zero. intros w p Hw. rewrite (Hall w p Hw). reflexivity.
Qed.

Lemma pardo_barrier_after c g s r : reach c g s -> pc s = MDone r ->
  (forall w i b, step s (LEnter w i b) = None) /\
  (forall w p, nth_error (ws s) w = Some p -> p = WDone) /\ inprogress s = 0.
Proof.
  intros Hr Hp. destruct (Inv_reach c g s Hr) as (HA & HB & _).
  destruct (returning_done c s r HB (or_intror Hp)) as [_ Hall].
  split; [|split; [exact Hall|]].
  - intros w i b. destruct (step s (LEnter w i b)) as [s'|] eqn:E; [|reflexivity].
    apply step_LEnter in E. destruct E as (Hw & _). specialize (Hall w _ Hw). discriminate.
  - apply cnt_zero. intros w p Hw. rewrite (Hall w p Hw). reflexivity.
Qed.

(* ---- C13_positional ---- *)
Lemma nth_error_map_seq (f : nat -> Z) (l : list Z) n :
  length l = n -> (forall i, i < n -> nth_error l i = Some (f i)) -> l = map f (seq 0 n).
Proof.
  intros Hl Hn. apply (nth_ext _ _ 0%Z 0%Z).
  - rewrite map_length, seq_length. exact Hl.
  - intros i Hi. rewrite Hl in Hi. specialize (Hn i Hi).
    rewrite (nth_error_nth l i 0%Z Hn).
    assert (E : nth_error (map f (seq 0 n)) i = Some (f i)).
    { rewrite nth_error_map. rewrite (nth_error_nth' (seq 0 n) 0) by (rewrite seq_length; exact Hi).
      rewrite seq_nth by exact Hi. reflexivity. }
    rewrite (nth_error_nth _ i 0%Z E). reflexivity.
Qed.

Lemma pardo_positional c g s o s' :
  1 <= c_gmp c -> c_map c = true -> reach c g s -> step s (LRet None o) = Some s' ->
  o = Some (out s) /\ length (out s) = c_n c /\
  (forall i, i < c_n c -> exists v, In (i, None, v) (finished s) /\ nth_error (out s) i = Some v /\
                                    forall r' v', In (i, r', v') (finished s) -> r' = None /\ v' = v) /\
  (forall f : nat -> Z, (forall i r v, In (i, r, v) (finished s) -> v = f i) -> out s = map f (seq 0 (c_n c))).
Proof.
  intros Hg Hm Hr Hs. destruct (Inv_reach c g s Hr) as (HA & HB & HC & HD & HP).
  pose proof (B_cfg c s HB) as Hcfg.
  apply step_LRet in Hs. destruct Hs as (Hp & Ho & _).
  assert (Hret : returning s None) by (left; exact Hp).
  destruct (returning_done c s None HB Hret) as [He Hall].
  destruct (nil_all_run c g s Hg Hr Hret) as [_ Hf].
  assert (Hnf : forall x, In x (finished s) -> ferr x = None).
  { intros x Hx. destruct (ferr x) eqn:E; [|reflexivity]. exfalso.
    apply (returning_bad c s None HB Hret); [|reflexivity]. apply (C_failrec s HC x Hx). congruence. }
  assert (Hpos : forall i r v, In (i, r, v) (finished s) -> nth_error (out s) i = Some v).
  { intros i r v Hin. rewrite <- Hcfg in Hm. destruct (P_out s HP Hm i r v Hin) as [(w & Hw)|H]; [|exact H].
    specialize (Hall w _ Hw). discriminate. }
  assert (Hex : forall i, i < c_n c -> exists v, In (i, None, v) (finished s)).
  { intros i Hi. apply Hf in Hi. apply in_map_iff in Hi. destruct Hi as ([[j r] v] & Ej & Hin).
    unfold fidx in Ej. simpl in Ej. subst j. pose proof (Hnf _ Hin) as E. unfold ferr in E. simpl in E. subst r.
    exists v. exact Hin. }
  split.
  - rewrite Ho. unfold ret_out. rewrite Hcfg, Hm. destruct (c_ctx c); reflexivity.
  - split; [apply (B_out c s HB)|]. split.
    + intros i Hi. destruct (Hex i Hi) as (v & Hin). exists v. split; [exact Hin|]. split; [apply (Hpos i None v Hin)|].
      intros r' v' Hin'. assert (E : (i, r', v') = (i, None, v)) by (apply (fidx_inj (finished s)); auto; apply (A_fin_nd s HA)).
      inversion E; auto.
    + intros f Hfv. apply nth_error_map_seq; [apply (B_out c s HB)|].
      intros i Hi. destruct (Hex i Hi) as (v & Hin). rewrite (Hpos i None v Hin). f_equal. apply (Hfv i None v Hin).
Qed.

(* ---- C13_error_contract ---- *)
Lemma pardo_error_contract c g s r : reach c g s -> returning s r ->
  (* the error was returned by a call of f ... *)
  (forall k, r = Some (EF k) -> exists i v, In (i, Some k, v) (finished s)) /\
  (* ... or is the caller's context error: only when the caller's context is Done, and only on the
     parallel path (the sequential path never looks at the context) *)
  (r = Some ECtx -> cctx s = CDone /\ use_eg c = true) /\
  (* the derived context is cancelled before the return (parallel path of the context API) *)
  (use_eg c = true -> dctx s = true) /\
  (* nil only if no started call failed; the context-free API never returns an error *)
  (r = None -> forall x, In x (finished s) -> ferr x = None) /\
  (c_ctx c = false -> r = None) /\
  (* sequential path: at most one call failed, and its error is the one returned *)
  (seqm c = true -> (forall x y, In x (finished s) -> In y (finished s) -> ferr x <> None -> ferr y <> None -> x = y) /\
                    (forall i k v, In (i, Some k, v) (finished s) -> r = Some (EF k))).
Proof.
  intros Hr Hret. destruct (Inv_reach c g s Hr) as (HA & HB & HC & HD & HP).
  pose proof (B_cfg c s HB) as Hcfg.
  destruct (pardo_error_source c g s r Hr Hret) as [HF HX].
  destruct (B_retp c s HB r Hret) as (He & Hall & Hd).
  split; [exact HF|]. split; [exact HX|]. split; [exact Hd|]. split; [|split].
  - intros -> x Hx. destruct (ferr x) eqn:E; [|reflexivity]. exfalso.
    apply (returning_bad c s None HB Hret); [|reflexivity]. apply (C_failrec s HC x Hx). congruence.
  - intros Hc. rewrite He. apply (noctx_noerr c g s Hr Hc).
  - intros Hs. rewrite <- Hcfg in Hs. split; [apply (C_seqfail s HC Hs)|].
    intros i k v Hin.
    assert (Hb : bad s) by (apply (C_failrec s HC _ Hin); discriminate).
    pose proof (returning_bad c s r HB Hret Hb) as Hne.
    destruct r as [[|k']|]; [| |congruence].
    + destruct (HX eq_refl) as [_ Hu]. unfold use_eg in Hu. rewrite Hcfg in Hs. rewrite Hs in Hu.
      rewrite andb_false_r in Hu. discriminate.
    + destruct (HF k' eq_refl) as (i' & v' & Hin').
      assert (E : (i, Some k, v) = (i', Some k', v')) by (apply (C_seqfail s HC Hs); auto; discriminate).
      inversion E; reflexivity.
Qed.

(* ---- C13_cancelled_starts ---- *)
Lemma pardo_cancelled_starts c g s : reach c g s -> cstarts s <= eff c - 1.
Proof.
  intros Hr. destruct (Inv_reach c g s Hr) as (HA & HB & HC & HD & HP).
  destruct (D_bound s HD) as [H|H]; [|lia].
  destruct (pc s) eqn:Ep.
  - destruct (A_idle s HA Ep) as [E _]. rewrite E in H. simpl in H. lia.
  - rewrite (B_len c s HB) in H; [lia | congruence].
  - rewrite (B_len c s HB) in H; [lia | congruence].
  - rewrite (B_len c s HB) in H; [lia | congruence].
Qed.

(* what the ghost counter counts: calls entered with a Done context while the caller's context is not Done *)
Lemma cstarts_spec s l s' : qstep s l = Some s' ->
  cstarts s' = cstarts s + match l with
                           | LEnter _ _ true => if cdone (cctx s) then 0 else 1
                           | _ => 0
                           end.
Proof.
  intros H.
  destruct l as [| w i b | w i r v | r o | | | i | | w | w | w | w | | ]; simpl qstep in H.
  - apply step_LCall in H. destruct H as [_ ->]. simpl. lia.
  - apply step_LEnter in H. destruct H as (_ & _ & ->). simpl. destruct b; simpl; [|lia]. destruct (cdone (cctx s)); simpl; lia.
  - apply step_LExit in H. destruct H as (_ & _ & _ & _ & ->). simpl. lia.
  - apply step_LRet in H. destruct H as (_ & _ & ->). simpl. lia.
  - apply step_LCancel in H. subst s'. simpl. lia.
  - apply step_LCancelDone in H. destruct H as [_ ->]. lia.
  - apply step_LRelease in H. subst s'. simpl. lia.
  - apply qstep_LQuiesce in H. subst s'. lia.
  - apply step_TFetch in H. destruct H as (_ & ->). simpl. lia.
  - apply step_TCheck in H. destruct H as (i & _ & ->). simpl. lia.
  - apply step_TWrite in H. destruct H as (i & v & r & _ & ->). simpl. lia.
  - apply step_TFinish in H. destruct H as (r & _ & [(e & _ & _ & ->)|(_ & ->)]); simpl; lia.
  - apply step_TWait in H. destruct H as (_ & _ & ->). simpl. lia.
  - apply step_TCancelEff in H. destruct H as (_ & ->). simpl. lia.
Qed.

(* ------------------------------------------------------------------ *)
(* C13_terminates: progress and variant                                *)
(* ------------------------------------------------------------------ *)

(* steps of the library (and of f returning / cancel() taking effect): everything except the
   controller's Call / Cancel / CancelDone / Release / Quiesce *)
Definition lib_label (l : lab) : bool :=
  match l with
  | LEnter _ _ _ | LExit _ _ _ _ | LRet _ _ | TFetch _ | TCheck _ | TWrite _ | TFinish _ | TWait | TCancelEff => true
  | _ => false
  end.

Definition thread_of (l : lab) : option nat :=
  match l with
  | LEnter w _ _ | LExit w _ _ _ | TFetch w | TCheck w | TWrite w | TFinish w => Some w
  | _ => None
  end.

(* every unfinished worker can take a step of its own, unless it is inside f and the scenario holds f's gate closed *)
Lemma pardo_progress_worker s w p :
  nth_error (ws s) w = Some p -> p <> WDone ->
  (exists l, lib_label l = true /\ thread_of l = Some w /\ step s l <> None) \/
  (exists i, p = WIn i /\ gate_open s i = false).
Proof.
  intros Hw Hnd. destruct p as [|i|i|i|i v r|r|].
  - left. exists (TFetch w). simpl. rewrite Hw. repeat split; discriminate.
  - left. exists (TCheck w). simpl. rewrite Hw. repeat split; discriminate.
  - left. exists (LEnter w i (dctx s)). simpl. rewrite Hw, Nat.eqb_refl, eqb_reflx. repeat split; discriminate.
  - destruct (gate_open s i) eqn:Hg; [left | right; eauto].
    exists (LExit w i None 0%Z). simpl. rewrite Hw, Nat.eqb_refl, Hg. simpl.
    rewrite !orb_true_r. repeat split; discriminate.
  - left. exists (TWrite w). simpl. rewrite Hw. repeat split; discriminate.
  - left. exists (TFinish w). simpl. rewrite Hw. repeat split; try reflexivity.
    destruct r; [destruct (errc s)|]; discriminate.
  - congruence.
Qed.

Lemma ozlist_eqb_refl a : ozlist_eqb a a = true.
Proof. destruct a; simpl; [apply zlist_eqb_refl | reflexivity]. Qed.

(* a pending call can always move: some library step is enabled, or a call of f is being held by the scenario *)
Lemma pardo_progress s :
  pc s = MWait \/ (exists r, pc s = MRetp r) ->
  (exists l, lib_label l = true /\ step s l <> None) \/
  (exists w i, nth_error (ws s) w = Some (WIn i) /\ gate_open s i = false).
Proof.
  intros [Hp|(r & Hp)].
  - destruct (forallb_or_witness is_done (ws s)) as [Hall|(w & p & Hw & Hd)].
    + left. exists TWait. simpl. rewrite Hp, Hall. split; [reflexivity|discriminate].
    + assert (Hnd : p <> WDone) by (intros ->; discriminate).
      destruct (pardo_progress_worker s w p Hw Hnd) as [(l & Hl & _ & He)|(i & -> & Hg)].
      * left. exists l. auto.
      * right. exists w, i. auto.
  - left. exists (LRet r (ret_out s r)). simpl. rewrite Hp, orerr_eqb_refl, ozlist_eqb_refl.
    split; [reflexivity|discriminate].
Qed.

Definition wrank (p : wpc) : nat :=
  match p with
  | WDone => 0 | WRet _ => 1 | WFetch => 2 | WWrite _ _ _ => 3 | WIn _ => 4 | WCall _ => 5 | WCheck _ => 6
  end.
Fixpoint wsum (l : list wpc) : nat := match l with [] => 0 | p :: t => wrank p + wsum t end.
Definition mrank (p : mpc) : nat := match p with MIdle => 3 | MWait => 2 | MRetp _ => 1 | MDone _ => 0 end.
Definition crank (c : cstate) : nat := match c with CReq => 1 | _ => 0 end.

(* the variant: 6 per index not yet handed out, plus the distance of every thread from its end *)
Definition mu (s : st) : nat :=
  6 * (c_n (cfg s) - next s) + wsum (ws s) + mrank (pc s) + crank (cctx s).

Lemma wsum_upd l w p p' : nth_error l w = Some p -> wsum (upd l w p') + wrank p = wsum l + wrank p'.
Proof.
  revert w; induction l as [|h t IH]; intros [|w] H; simpl in *; try discriminate.
  - inversion H; subst. lia.
  - specialize (IH w H). lia.
Qed.

Lemma pardo_variant s l s' : step s l = Some s' -> lib_label l = true -> mu s' < mu s.
Proof.
  intros H Hl. unfold mu.
  destruct l as [| w i b | w i r v | r o | | | i | | w | w | w | w | | ]; try discriminate.
  - apply step_LEnter in H. destruct H as (Hw & _ & ->). simpl.
    pose proof (wsum_upd (ws s) w _ (WIn i) Hw) as E. simpl in E. lia.
  - apply step_LExit in H. destruct H as (Hw & _ & _ & _ & ->). simpl.
    pose proof (wsum_upd (ws s) w _ (if c_map (cfg s) then WWrite i v r else after_call r) Hw) as E. simpl in E.
    destruct (c_map (cfg s)); [|destruct r]; simpl; simpl in E; lia.
  - apply step_LRet in H. destruct H as (Hp & _ & ->). simpl. rewrite Hp. simpl. lia.
  - apply step_TFetch in H. destruct H as (Hw & ->). simpl.
    pose proof (wsum_upd (ws s) w _ (if next s <? c_n (cfg s) then if use_eg (cfg s) then WCheck (next s) else WCall (next s) else WRet None) Hw) as E.
    simpl in E. destruct (next s <? c_n (cfg s)) eqn:El.
    + apply Nat.ltb_lt in El. destruct (use_eg (cfg s)); simpl; simpl in E; lia.
    + apply Nat.ltb_ge in El. simpl in E. lia.
  - apply step_TCheck in H. destruct H as (i & Hw & ->). simpl.
    pose proof (wsum_upd (ws s) w _ (if dctx s then WRet (Some ECtx) else WCall i) Hw) as E. simpl in E.
    destruct (dctx s); simpl; simpl in E; lia.
  - apply step_TWrite in H. destruct H as (i & v & r & Hw & ->). simpl.
    pose proof (wsum_upd (ws s) w _ (after_call r) Hw) as E. simpl in E. destruct r; simpl; simpl in E; lia.
  - apply step_TFinish in H. destruct H as (r & Hw & [(e & _ & _ & ->)|(_ & ->)]); simpl;
      pose proof (wsum_upd (ws s) w _ WDone Hw) as E; simpl in E; lia.
  - apply step_TWait in H. destruct H as (Hp & _ & ->). simpl. rewrite Hp. simpl. lia.
  - apply step_TCancelEff in H. destruct H as (Hc & ->). simpl. rewrite Hc. simpl. lia.
Qed.

(* the controller's Cancel / CancelDone / Release / Quiesce never add work for the library, except that a
   Cancel adds the one step in which it takes effect *)
Lemma pardo_variant_env s l s' : qstep s l = Some s' ->
  match l with LCancel => mu s' <= mu s + 1 | LCancelDone | LRelease _ | LQuiesce => mu s' = mu s | _ => True end.
Proof.
  intros H. destruct l; auto.
  - apply step_LCancel in H. subst s'. unfold mu. simpl. destruct (cctx s); simpl; lia.
  - apply step_LCancelDone in H. destruct H as [_ ->]. reflexivity.
  - apply step_LRelease in H. subst s'. reflexivity.
  - apply qstep_LQuiesce in H. subst s'. reflexivity.
Qed.

(* ------------------------------------------------------------------ *)
(* the matcher's eager steps are genuine steps                         *)
(* ------------------------------------------------------------------ *)

Lemma qstep_tau s l : vis l = None -> qstep s l = step s l.
Proof. destruct l; simpl; try discriminate; reflexivity. Qed.

Lemma safe_of_tau will s w p l : safe_of will s w p = Some l -> vis l = None.
Proof.
  destruct p as [|i|i|i|i v r|r|]; simpl; try discriminate.
  - intros H; inversion H; reflexivity.
  - destruct (dctx s || nth i will false); [|discriminate]. intros H; inversion H; reflexivity.
  - intros H; inversion H; reflexivity.
  - destruct r; [destruct (is_none (errc s)); [discriminate|]|]; intros H; inversion H; reflexivity.
Qed.

Lemma first_safe_tau will s l : forall w x, first_safe will s w l = Some x -> vis x = None.
Proof.
  induction l as [|p t IH]; intros w x; simpl; [discriminate|].
  destruct (safe_of will s w p) eqn:E.
  - intros H; inversion H; subst. eapply safe_of_tau; eauto.
  - apply IH.
Qed.

Lemma safe_tau_tau will s x : safe_tau will s = Some x -> vis x = None.
Proof.
  unfold safe_tau. destruct (first_safe will s 0 (ws s)) eqn:E.
  - intros H; inversion H; subst. eapply first_safe_tau; eauto.
  - destruct (pc s); try discriminate. destruct (forallb is_done (ws s)); [|discriminate].
    intros H; inversion H; reflexivity.
Qed.

Lemma settle_run will f : forall s, exists ls, Forall (fun l => vis l = None) ls /\ run qstep s ls = Some (settle will f s).
Proof.
  induction f as [|f IH]; intros s; simpl.
  - exists []. split; [constructor | reflexivity].
  - destruct (safe_tau will s) as [l|] eqn:E; [|exists []; split; [constructor | reflexivity]].
    destruct (step s l) as [s1|] eqn:Es; [|exists []; split; [constructor | reflexivity]].
    destruct (IH s1) as (ls & Hf & Hr). exists (l :: ls). pose proof (safe_tau_tau will s l E) as Hv. split.
    + constructor; assumption.
    + simpl. rewrite (qstep_tau s l Hv), Es. exact Hr.
Qed.

(* a step of the matcher is the label followed by internal steps of the model *)
Lemma mstep_run will s l s' : mstep will s l = Some s' ->
  exists ls, Forall (fun x => vis x = None) ls /\ run qstep s (l :: ls) = Some s'.
Proof.
  unfold mstep. destruct (qstep s l) as [s1|] eqn:E; [|discriminate]. intros H; inversion H; subst s'.
  destruct (settle_run will (settle_fuel s1) s1) as (ls & Hf & Hr). exists ls. split; [exact Hf|].
  simpl. rewrite E. exact Hr.
Qed.

Corollary mstep_reach will c g s l s' : reach c g s -> mstep will s l = Some s' -> reach c g s'.
Proof.
  intros [ls0 H0] H. destruct (mstep_run will s l s' H) as (ls & _ & Hr).
  exists (ls0 ++ l :: ls). rewrite run_app, H0. exact Hr.
Qed.

(* ------------------------------------------------------------------ *)
(* non-vacuity: concrete runs of the model                             *)
(* ------------------------------------------------------------------ *)

Definition view (s : st) := (pc s, out s, started s, map fidx (finished s), cstarts s).

(* MapContext, n = 3, parallelism 2: every index once, late result first, positional output *)
Definition ex_cfg_map := mkCfg true true 3 2%Z 8.
Definition ex_run_map : list lab :=
  [LCall; TFetch 0; TCheck 0; LEnter 0 0 false; TFetch 1; TCheck 1; LEnter 1 1 false;
   LExit 1 1 None 11%Z; TWrite 1; TFetch 1; TCheck 1; LEnter 1 2 false; LExit 1 2 None 12%Z; TWrite 1;
   TFetch 1; TFinish 1; LRelease 0; LExit 0 0 None 10%Z; TWrite 0; TFetch 0; TFinish 0; TWait;
   LRet None (Some [10; 11; 12]%Z)].
Example ex_map_runs :
  option_map view (run qstep (init ex_cfg_map [true; false; false]) ex_run_map)
  = Some (MDone None, [10; 11; 12]%Z, [0; 1; 2], [1; 2; 0], 0).
Proof. vm_compute. reflexivity. Qed.

Lemma ex_map_reach : exists s, reach ex_cfg_map [true; false; false] s /\ returning s None /\ c_map ex_cfg_map = true.
Proof.
  destruct (run qstep (init ex_cfg_map [true; false; false]) ex_run_map) as [s|] eqn:E; [|vm_compute in E; discriminate].
  exists s. split; [exists ex_run_map; exact E|]. split; [|reflexivity].
  right. vm_compute in E. inversion E; reflexivity.
Qed.

(* DoContext, n = 4, parallelism 2: f(0) fails after worker 1 has passed its ctx.Err() check: exactly
   parallelism - 1 = 1 call begins with a cancelled context; index 2 is handed out but never run; index 3 never *)
Definition ex_cfg_err := mkCfg true false 4 2%Z 8.
Definition ex_run_err : list lab :=
  [LCall; TFetch 0; TCheck 0; LEnter 0 0 false; TFetch 1; TCheck 1; LExit 0 0 (Some 7) 0%Z; TFinish 0;
   LEnter 1 1 true; LExit 1 1 None 0%Z; TFetch 1; TCheck 1; TFinish 1; TWait; LRet (Some (EF 7)) None].
Example ex_err_runs :
  option_map (fun s => (pc s, started s, cstarts s, dctx s, eff (cfg s) - 1))
             (run qstep (init ex_cfg_err []) ex_run_err)
  = Some (MDone (Some (EF 7)), [0; 1], 1, true, 1).
Proof. vm_compute. reflexivity. Qed.

(* the sequential path (parallelism 1) never looks at the context: with an already cancelled context
   every index is still run, each call sees the cancelled context, and nil is returned *)
Definition ex_cfg_seq := mkCfg true false 2 1%Z 8.
Definition ex_run_seq : list lab :=
  [LCancel; TCancelEff; LCancelDone; LCall; TFetch 0; LEnter 0 0 true; LExit 0 0 None 0%Z; TFetch 0;
   LEnter 0 1 true; LExit 0 1 None 0%Z; TFetch 0; TFinish 0; TWait; LRet None None].
Example ex_seq_ignores_ctx :
  option_map (fun s => (pc s, started s, cstarts s, cctx s))
             (run qstep (init ex_cfg_seq []) ex_run_seq)
  = Some (MDone None, [0; 1], 0, CDone).
Proof. vm_compute. reflexivity. Qed.

(* the parallel path with an already cancelled context starts nothing and returns the context error *)
Definition ex_cfg_pre := mkCfg true false 2 2%Z 8.
Definition ex_run_pre : list lab :=
  [LCancel; TCancelEff; LCancelDone; LCall; TFetch 0; TFetch 1; TCheck 0; TCheck 1; TFinish 1; TFinish 0; TWait;
   LRet (Some ECtx) None; LQuiesce].
Example ex_pre_cancelled :
  option_map (fun s => (pc s, started s, errc s)) (run qstep (init ex_cfg_pre []) ex_run_pre)
  = Some (MDone (Some ECtx), [], Some ECtx).
Proof. vm_compute. reflexivity. Qed.

(* the matcher accepts exactly such histories and rejects a second cancelled start *)
Example ex_matcher_accepts :
  accepts_history ex_cfg_err []
    [ECall; EEnter 0 false; EExit 0 (Some 7) 0%Z; EEnter 1 true; EExit 1 None 0%Z; ERet (Some (EF 7)) None; EQuiesce] = true.
Proof. vm_compute. reflexivity. Qed.

Example ex_matcher_rejects :
  first_rejected ex_cfg_err []
    [ECall; EEnter 0 false; EExit 0 (Some 7) 0%Z; EEnter 1 true; EExit 1 None 0%Z; EEnter 2 true] = Some 5.
Proof. vm_compute. reflexivity. Qed.
