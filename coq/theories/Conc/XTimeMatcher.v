(* C20 — the history matchers of Conc/XTime.v (xtime.SleepContext, xtime.JitterTicker) are certified.

   SleepContext.  [check_sleep (d, dl, evs)] is the plain generic matcher of GoLTS.v on [sstep],
   [svis], [slab_eqb], [sst_eqb], the constant enumeration [s_tau_labels] and [fun _ e => [e]], fuel 32.
   It is SOUND unconditionally ([sleep_check_sound]) and COMPLETE whenever the closures converged
   within the fuel ([sleep_converged], executable): [sleep_reject_genuine], [sleep_check_iff].

   JitterTicker.  [accepts_history n evs] (= [check_ticker (n, evs)]) runs the generic matcher on the
   GUIDED relation [mstep] over pairs (state, ticks still to be received) with the enumeration
   [tau_labels], in which the oracle of the two rand draws is fixed to 0 (sign 1, magnitude jitter-1: the
   smallest offset -jitter, hence the earliest deadline); when the timers fire is then decided by the
   recorded tick timestamps ([mstep]).
     1. SOUND, unconditionally ([ticker_accepts_sound], [ticker_check_sound],
        [ticker_first_rejected_sound]): every accepted history is the visible trace of a run of the
        UNREDUCED model [step] from [tinit n].  (Projection of a run of [mstep] by
        XTimeProofs.mstep_sound; the guidance can only prune.)
     2. COMPLETE RELATIVE TO THE GUIDED RELATION [mstep0] (= [mstep] with the oracle of
        TBodySched / TCbSchedule restricted to 0), whenever the closures converged
        ([ticker_converged], executable): [ticker_guided_complete], [ticker_guided_reject_genuine],
        [ticker_guided_iff].  The matcher computes exactly the same thing on [mstep] and on [mstep0]
        because it only ever applies the relation to the enumerated labels (Part 0, [accepts_sx]).
     3. Reduction (a), "the oracle can be fixed to 0", is PROVED for histories all of whose New/Reset
        arguments are [oracle_safe] ([hist_safe]).  For the code in /repo (offset drawn as magnitude and
        sign, added with saturation) EVERY pair of int64 arguments is oracle-safe: the delay is exactly
        min (d + (r - jitter), MaxInt64), monotone in the outcome number r - [oracle_safe_int64] (any
        int64 d, 0 < jitter, d - jitter >= MinInt64; covers every argument pair that passes or fails the
        argument check), [oracle_safe_documented] (0 <= jitter < d <= MaxInt64, no side condition on
        d + jitter any more), [oracle_safe_no_jitter] (jitter <= 0).  [step_zero_sim] is a simulation for
        the order [earlier s0 s] ("equal except that every timer's tm_dl is not later in s0": TFire is the
        only label reading tm_dl and it is monotone), and [ticker_oracle_zero] turns every run of [step]
        into a run with the same trace in which every oracle is 0.
     4. Completeness with respect to the UNREDUCED model is still FALSE as a statement over the model's
        labels, which range over Z: [ticker_unreduced_completeness_refuted] uses d = 2^63 + 1, which is
        not an int64 (outcome 1 wraps d - 1 = 2^63 to -2^63, outcome 0 gives MaxInt64).  No pair of int64
        arguments is affected (3.); with the ORIGINAL code the same failure occurred for the int64 pair
        (MaxInt64, 2) ([ticker_orig_not_oracle_safe]).
     5. NOT proved (and what would be needed): [guidance_complete] - every run of [step] with oracles 0
        whose trace evs has the recorded format has a counterpart in [mstep0] from
        (tinit n, recv_values evs).  [reduction_from_guidance] and [ticker_reject_genuine_if_reduction]
        show that this is the ONLY missing piece for "a rejection is genuine for the unreduced model".
        It needs two commutation arguments:
          (b) clock advances only while t.m is free: an LTick t taken while a goroutine holds t.m
              commutes to after the TUnlock of that critical section (the section reads the clock only
              to compute deadlines now + next, which become earlier - the order of (a) again); for a
              callback holding t.m the opposite move is needed, because TCbSend stamps the tick with
              the clock: the whole callback (TFire, TCbLock, TCbSend, ...) is postponed to the clock
              value it stamps, see (c);
          (c) timers fire only at the clock value of the next tick still to be received: a TFire k whose
              callback sends nothing that is received later (stale generation, full buffer, or value
              never received) is deleted together with its callback steps - the timer stays armed and
              is stopped by the next schedule()/Stop exactly as the fired one is ignored - and a TFire k
              whose callback sends v is postponed to the clock value v (firing late is allowed).
              Deleting a callback that rescheduled (full buffer) changes the indices of all later
              timers, so the simulation relation must relate timer lists up to an injective renaming
              and treat a dropped-tick chain of timers as one still-armed timer.
   Stdlib only, no axioms. *)
From Juniper Require Import Common.Base Conc.GoLTS Conc.GoLTSProofs Conc.XTime Conc.XTimeProofs.
From Juniper Require Conc.CondMatcher.
From Coq Require Import Arith PeanoNat.
Local Open Scope Z_scope.

(* ====================================================================== *)
(* Part 0 (generic): the matcher applies the transition function to enumerated labels only *)
(* ====================================================================== *)

Lemma flat_map_ext_in' {A B} (f g : A -> list B) (l : list A) :
  (forall x, In x l -> f x = g x) -> flat_map f l = flat_map g l.
Proof.
  induction l as [|a t IH]; intros H; simpl; [reflexivity|].
  rewrite (H a (or_introl eq_refl)), IH; [reflexivity|].
  intros x Hx. apply H. right; exact Hx.
Qed.

Section StepExt.
  Variables St Lab Ev : Type.
  Variables step1 step2 : St -> Lab -> option St.
  Variable vis : Lab -> option Ev.
  Variable ev_eqb : Ev -> Ev -> bool.
  Variable st_eqb : St -> St -> bool.
  Variable labels : St -> list Lab.
  Variable labels_ev : St -> Ev -> list Lab.
  Hypothesis tau_agree : forall s l, In l (labels s) -> vis l = None -> step1 s l = step2 s l.
  Hypothesis ev_agree : forall s e l, In l (labels_ev s e) -> vis l <> None -> step1 s l = step2 s l.

  Local Notation succ_tau1 := (GoLTS.succ_tau St Lab step1 Ev vis labels).
  Local Notation succ_tau2 := (GoLTS.succ_tau St Lab step2 Ev vis labels).
  Local Notation succ_ev1 := (GoLTS.succ_ev St Lab step1 Ev vis ev_eqb labels_ev).
  Local Notation succ_ev2 := (GoLTS.succ_ev St Lab step2 Ev vis ev_eqb labels_ev).
  Local Notation add_new := (GoLTS.add_new St st_eqb).
  Local Notation closure1 := (GoLTS.closure St Lab step1 Ev vis st_eqb labels).
  Local Notation closure2 := (GoLTS.closure St Lab step2 Ev vis st_eqb labels).
  Local Notation close1 := (GoLTS.close step1 vis st_eqb labels).
  Local Notation close2 := (GoLTS.close step2 vis st_eqb labels).
  Local Notation first_reject1 := (GoLTS.first_reject step1 vis ev_eqb st_eqb labels labels_ev).
  Local Notation first_reject2 := (GoLTS.first_reject step2 vis ev_eqb st_eqb labels labels_ev).
  Local Notation accepts1 := (GoLTS.accepts step1 vis ev_eqb st_eqb labels labels_ev).
  Local Notation accepts2 := (GoLTS.accepts step2 vis ev_eqb st_eqb labels labels_ev).
  Local Notation tau_closedb1 := (tau_closedb St Lab Ev step1 vis st_eqb labels).
  Local Notation tau_closedb2 := (tau_closedb St Lab Ev step2 vis st_eqb labels).
  Local Notation closed_alongb1 := (closed_alongb St Lab Ev step1 vis ev_eqb st_eqb labels labels_ev).
  Local Notation closed_alongb2 := (closed_alongb St Lab Ev step2 vis ev_eqb st_eqb labels labels_ev).
  Local Notation convergedb1 := (convergedb St Lab Ev step1 vis ev_eqb st_eqb labels labels_ev).
  Local Notation convergedb2 := (convergedb St Lab Ev step2 vis ev_eqb st_eqb labels labels_ev).

  Lemma succ_tau_sx s : succ_tau1 s = succ_tau2 s.
  Proof.
    unfold GoLTS.succ_tau. apply flat_map_ext_in'. intros l Hl.
    destruct (vis l) as [e|] eqn:Evis; [reflexivity|].
    rewrite (tau_agree s l Hl Evis). reflexivity.
  Qed.

  Lemma succ_ev_sx e s : succ_ev1 e s = succ_ev2 e s.
  Proof.
    unfold GoLTS.succ_ev. apply flat_map_ext_in'. intros l Hl.
    destruct (vis l) as [e'|] eqn:Evis; [|reflexivity].
    rewrite (ev_agree s e l Hl); [reflexivity|]. rewrite Evis. discriminate.
  Qed.

  Lemma closure_sx fuel : forall fr seen, closure1 fuel fr seen = closure2 fuel fr seen.
  Proof.
    induction fuel as [|f IH]; intros fr seen; [reflexivity|].
    destruct fr as [|y fr']; [reflexivity|].
    change (closure1 (S f) (y :: fr') seen)
      with (let '(n, sn) := add_new (flat_map succ_tau1 (y :: fr')) seen in closure1 f n sn).
    change (closure2 (S f) (y :: fr') seen)
      with (let '(n, sn) := add_new (flat_map succ_tau2 (y :: fr')) seen in closure2 f n sn).
    rewrite (flat_map_ext succ_tau1 succ_tau2 succ_tau_sx).
    destruct (add_new (flat_map succ_tau2 (y :: fr')) seen) as [n sn]. apply IH.
  Qed.

  Lemma close_sx fuel ss : close1 fuel ss = close2 fuel ss.
  Proof. unfold GoLTS.close. destruct (add_new ss []) as [n sn]. apply closure_sx. Qed.

  Lemma step_ev_sx fuel e ss :
    close1 fuel (flat_map (succ_ev1 e) ss) = close2 fuel (flat_map (succ_ev2 e) ss).
  Proof. rewrite (flat_map_ext (succ_ev1 e) (succ_ev2 e) (succ_ev_sx e)). apply close_sx. Qed.

  Lemma first_reject_sx fuel evs : forall ss i,
    first_reject1 fuel ss evs i = first_reject2 fuel ss evs i.
  Proof.
    induction evs as [|e evs IH]; intros ss i; [reflexivity|].
    change (first_reject1 fuel ss (e :: evs) i)
      with (match close1 fuel (flat_map (succ_ev1 e) ss) with
            | [] => Some i
            | x :: r => first_reject1 fuel (x :: r) evs (S i)
            end).
    change (first_reject2 fuel ss (e :: evs) i)
      with (match close2 fuel (flat_map (succ_ev2 e) ss) with
            | [] => Some i
            | x :: r => first_reject2 fuel (x :: r) evs (S i)
            end).
    rewrite (step_ev_sx fuel e ss).
    destruct (close2 fuel (flat_map (succ_ev2 e) ss)) as [|x r]; [reflexivity|]. apply IH.
  Qed.

  Theorem accepts_sx fuel init evs : accepts1 fuel init evs = accepts2 fuel init evs.
  Proof. unfold GoLTS.accepts. rewrite close_sx, first_reject_sx. reflexivity. Qed.

  Lemma tau_closedb_sx S : tau_closedb1 S = tau_closedb2 S.
  Proof.
    unfold tau_closedb. apply CondMatcher.forallb_ext_in. intros s _.
    rewrite succ_tau_sx. reflexivity.
  Qed.

  Lemma closed_alongb_sx fuel evs : forall ss,
    closed_alongb1 fuel ss evs = closed_alongb2 fuel ss evs.
  Proof.
    induction evs as [|e evs IH]; intros ss; [reflexivity|].
    change (closed_alongb1 fuel ss (e :: evs))
      with (tau_closedb1 (close1 fuel (flat_map (succ_ev1 e) ss))
            && closed_alongb1 fuel (close1 fuel (flat_map (succ_ev1 e) ss)) evs).
    change (closed_alongb2 fuel ss (e :: evs))
      with (tau_closedb2 (close2 fuel (flat_map (succ_ev2 e) ss))
            && closed_alongb2 fuel (close2 fuel (flat_map (succ_ev2 e) ss)) evs).
    rewrite (step_ev_sx fuel e ss), tau_closedb_sx, IH. reflexivity.
  Qed.

  Theorem convergedb_sx fuel init evs : convergedb1 fuel init evs = convergedb2 fuel init evs.
  Proof. unfold convergedb. rewrite close_sx, tau_closedb_sx, closed_alongb_sx. reflexivity. Qed.
End StepExt.

(* ====================================================================== *)
(* shared: the elementary equality tests decide equality                   *)
(* ====================================================================== *)

Lemma list_eqb_spec {A} (eqb : A -> A -> bool) :
  (forall x y, eqb x y = true <-> x = y) ->
  forall a b, list_eqb eqb a b = true <-> a = b.
Proof.
  intros Hspec a. induction a as [|x a IH]; intros [|y b]; simpl.
  - split; reflexivity.
  - split; discriminate.
  - split; discriminate.
  - rewrite andb_true_iff, Hspec, IH. split.
    + intros [Hx Ha]. subst. reflexivity.
    + intros H. inversion H. split; reflexivity.
Qed.

Lemma bool_eqb_spec a b : Bool.eqb a b = true <-> a = b.
Proof. split; [apply Bool.eqb_prop | intros ->; apply Bool.eqb_reflx]. Qed.

Lemma optz_eqb_spec a b : optz_eqb a b = true <-> a = b.
Proof.
  destruct a as [x|], b as [y|]; simpl; try (split; intros H; try discriminate; reflexivity).
  rewrite Z.eqb_eq. split; [intros ->; reflexivity | intros H; inversion H; reflexivity].
Qed.

Lemma optnat_eqb_spec a b : optnat_eqb a b = true <-> a = b.
Proof.
  destruct a as [x|], b as [y|]; simpl; try (split; intros H; try discriminate; reflexivity).
  rewrite Nat.eqb_eq. split; [intros ->; reflexivity | intros H; inversion H; reflexivity].
Qed.

Ltac in_list := solve [simpl; repeat (first [left; reflexivity | right])].

(* ====================================================================== *)
(* Part 1: SleepContext                                                    *)
(* ====================================================================== *)

Lemma cerr_eqb_spec a b : cerr_eqb a b = true <-> a = b.
Proof. destruct a, b; simpl; split; intros H; try discriminate; reflexivity. Qed.

Lemma sres_eqb_spec a b : sres_eqb a b = true <-> a = b.
Proof.
  destruct a as [| |e], b as [| |f]; simpl; try (split; intros H; try discriminate; reflexivity).
  rewrite cerr_eqb_spec. split; [intros ->; reflexivity | intros H; inversion H; reflexivity].
Qed.

Lemma cst_eqb_spec a b : cst_eqb a b = true <-> a = b.
Proof.
  destruct a as [| |e], b as [| |f]; simpl; try (split; intros H; try discriminate; reflexivity).
  rewrite cerr_eqb_spec. split; [intros ->; reflexivity | intros H; inversion H; reflexivity].
Qed.

Lemma tst_eqb_spec a b : tst_eqb a b = true <-> a = b.
Proof.
  destruct a as [|x|], b as [|y|]; simpl; try (split; intros H; try discriminate; reflexivity).
  rewrite Z.eqb_eq. split; [intros ->; reflexivity | intros H; inversion H; reflexivity].
Qed.

Lemma spc_eqb_spec a b : spc_eqb a b = true <-> a = b.
Proof.
  destruct a as [| | | | |r|r], b as [| | | | |q|q]; simpl;
    try (split; intros H; try discriminate; reflexivity);
    rewrite sres_eqb_spec; (split; [intros ->; reflexivity | intros H; inversion H; reflexivity]).
Qed.

Theorem sleep_sst_eqb_spec a b : sst_eqb a b = true <-> a = b.
Proof.
  destruct a as [d1 l1 n1 c1 t1 p1 s1 e1], b as [d2 l2 n2 c2 t2 p2 s2 e2]. unfold sst_eqb.
  cbn [s_d s_dl snow sctx stm spc_ sstart stdec].
  rewrite !andb_true_iff, !Z.eqb_eq, optz_eqb_spec, cst_eqb_spec, tst_eqb_spec, spc_eqb_spec. split.
  - intros H. decompose [and] H. subst. reflexivity.
  - intros H. inversion H. subst. repeat split; reflexivity.
Qed.

(* events are labels *)
Lemma sleep_vis_some l e : svis l = Some e -> e = l.
Proof. destruct l; simpl; intros H; try discriminate; inversion H; reflexivity. Qed.

Lemma sleep_vis_idem l e : svis l = Some e -> svis e = Some e.
Proof. intros H. pose proof (sleep_vis_some l e H) as He. subst e. exact H. Qed.

Lemma slab_eqb_sound a b : slab_eqb a b = true -> a = b.
Proof.
  destruct a, b; simpl; intros H; try discriminate H; try reflexivity.
  - apply Z.eqb_eq in H. subst. reflexivity.
  - apply sres_eqb_spec in H. subst. reflexivity.
Qed.

Lemma slab_eqb_refl_vis a e : svis a = Some e -> slab_eqb a a = true.
Proof.
  destruct a; simpl; intros H; try discriminate H; try reflexivity.
  - apply Z.eqb_refl.
  - apply sres_eqb_spec. reflexivity.
Qed.

Theorem slab_eqb_spec a b e : svis b = Some e -> (slab_eqb a b = true <-> a = b).
Proof.
  intros Hv. split; [apply slab_eqb_sound|]. intros ->. eapply slab_eqb_refl_vis; exact Hv.
Qed.

(* the enumerations are complete, for the current and for the historical code *)
Theorem sleep_tau_labels_complete inv (s : sst) (l : slab) :
  svis l = None -> sstep_gen inv s l <> None -> In l ((fun _ : sst => s_tau_labels) s).
Proof.
  intros Hv _. unfold s_tau_labels. destruct l; simpl in Hv; try discriminate Hv; in_list.
Qed.

Theorem sleep_labels_ev_complete inv (s : sst) (l e : slab) :
  svis l = Some e -> sstep_gen inv s l <> None -> In l ((fun (_ : sst) (x : slab) => [x]) s e).
Proof. intros Hv _. left. apply (sleep_vis_some l e Hv). Qed.

Definition sleep_trace : list slab -> list slab := trace slab slab svis.

Definition sleep_converged (c : Z * option Z * list slab) : bool :=
  let '(d, dl, evs) := c in
  convergedb sst slab slab sstep svis slab_eqb sst_eqb (fun _ => s_tau_labels) (fun _ e => [e]) 32
             (sinit d dl 0) evs.

(* SOUNDNESS (unconditional) *)
Theorem sleep_check_sound d dl evs :
  check_sleep (d, dl, evs) = true ->
  exists ls s, run sstep (sinit d dl 0) ls = Some s /\ sleep_trace ls = evs.
Proof.
  unfold check_sleep, sleep_trace.
  apply (accepts_sound sst slab slab sstep svis slab_eqb sst_eqb (fun _ => s_tau_labels)
           (fun _ e => [e]) slab_eqb_sound).
Qed.

(* the matcher for the historical code is sound for the historical model *)
Theorem sleep_check_old_sound d dl evs :
  check_sleep_old (d, dl, evs) = true ->
  exists ls s, run sstep_old (sinit d dl 0) ls = Some s /\ sleep_trace ls = evs.
Proof.
  unfold check_sleep_old, sleep_trace.
  apply (accepts_sound sst slab slab sstep_old svis slab_eqb sst_eqb (fun _ => s_tau_labels)
           (fun _ e => [e]) slab_eqb_sound).
Qed.

Definition slab_eqb_tot (a b : slab) : bool :=
  match svis b with Some _ => slab_eqb a b | None => true end.

Lemma slab_eqb_tot_refl a : slab_eqb_tot a a = true.
Proof.
  unfold slab_eqb_tot. destruct (svis a) as [e|] eqn:Ev; [|reflexivity].
  eapply slab_eqb_refl_vis; exact Ev.
Qed.

Lemma slab_eqb_tot_agree (e l e' : slab) : svis l = Some e' -> slab_eqb e e' = slab_eqb_tot e e'.
Proof. intros Hv. unfold slab_eqb_tot. rewrite (sleep_vis_idem l e' Hv). reflexivity. Qed.

Lemma sleep_check_tot d dl evs :
  check_sleep (d, dl, evs) =
  accepts sstep svis slab_eqb_tot sst_eqb (fun _ => s_tau_labels) (fun _ e => [e]) 32 (sinit d dl 0) evs.
Proof.
  unfold check_sleep.
  apply (CondMatcher.accepts_ext sst slab slab sstep svis slab_eqb slab_eqb_tot sst_eqb sst_eqb
           (fun _ => s_tau_labels) (fun _ e => [e]) (fun _ => True)).
  - intros; exact I.
  - intros; reflexivity.
  - exact slab_eqb_tot_agree.
  - exact I.
Qed.

Lemma sleep_converged_tot d dl evs :
  sleep_converged (d, dl, evs) =
  convergedb sst slab slab sstep svis slab_eqb_tot sst_eqb (fun _ => s_tau_labels) (fun _ e => [e]) 32
             (sinit d dl 0) evs.
Proof.
  unfold sleep_converged.
  apply (CondMatcher.convergedb_ext sst slab slab sstep svis slab_eqb slab_eqb_tot sst_eqb sst_eqb
           (fun _ => s_tau_labels) (fun _ e => [e]) (fun _ => True)).
  - intros; exact I.
  - intros; reflexivity.
  - exact slab_eqb_tot_agree.
  - exact I.
Qed.

(* COMPLETENESS: when the closures converged, a history produced by a run is accepted *)
Theorem sleep_check_complete d dl evs ls s :
  sleep_converged (d, dl, evs) = true ->
  run sstep (sinit d dl 0) ls = Some s -> sleep_trace ls = evs ->
  check_sleep (d, dl, evs) = true.
Proof.
  rewrite sleep_converged_tot, sleep_check_tot. unfold sleep_trace.
  apply (accepts_complete_b sst slab slab sstep svis slab_eqb_tot sst_eqb (fun _ => s_tau_labels)
           (fun _ e => [e]) sleep_sst_eqb_spec slab_eqb_tot_refl
           (sleep_tau_labels_complete false) (sleep_labels_ev_complete false)).
Qed.

Theorem sleep_reject_genuine d dl evs :
  sleep_converged (d, dl, evs) = true -> check_sleep (d, dl, evs) = false ->
  forall ls s, run sstep (sinit d dl 0) ls = Some s -> sleep_trace ls <> evs.
Proof.
  intros Hc Hacc ls s Hr Ht.
  rewrite (sleep_check_complete d dl evs ls s Hc Hr Ht) in Hacc. discriminate.
Qed.

Theorem sleep_check_iff d dl evs :
  sleep_converged (d, dl, evs) = true ->
  (check_sleep (d, dl, evs) = true <->
   exists ls s, run sstep (sinit d dl 0) ls = Some s /\ sleep_trace ls = evs).
Proof.
  intros Hc. split.
  - apply sleep_check_sound.
  - intros [ls [s [Hr Ht]]]. eapply sleep_check_complete; eassumption.
Qed.

(* ---- non-vacuity ---- *)
(* d = 5 ms-units, no deadline: nil after 7 >= 5 *)
Definition sleep_ex_good : Z * option Z * list slab :=
  (5, None, [SLTick 0; SLCall; SLTick 7; SLRet SNil]).
(* cancelled while asleep *)
Definition sleep_ex_cancel : Z * option Z * list slab :=
  (50, Some 200, [SLTick 1; SLCall; SLTick 10; SLCancel; SLTick 12; SLRet (SErr ECanceled)]).
(* nil after only 3 < 5: no run of the model *)
Definition sleep_ex_bad : Z * option Z * list slab :=
  (5, None, [SLTick 0; SLCall; SLTick 3; SLRet SNil]).

Example sleep_ex_accepts :
  check_sleep sleep_ex_good = true /\ sleep_converged sleep_ex_good = true /\
  check_sleep sleep_ex_cancel = true /\ sleep_converged sleep_ex_cancel = true.
Proof. vm_compute. repeat split; reflexivity. Qed.

Example sleep_ex_is_trace :
  exists ls s, run sstep (sinit 5 None 0) ls = Some s
               /\ sleep_trace ls = [SLTick 0; SLCall; SLTick 7; SLRet SNil].
Proof. apply sleep_check_sound. exact (proj1 sleep_ex_accepts). Qed.

Example sleep_ex_rejects : check_sleep sleep_ex_bad = false /\ sleep_converged sleep_ex_bad = true.
Proof. vm_compute. split; reflexivity. Qed.

Example sleep_ex_no_run :
  forall ls s, run sstep (sinit 5 None 0) ls = Some s
               -> sleep_trace ls <> [SLTick 0; SLCall; SLTick 3; SLRet SNil].
Proof.
  apply sleep_reject_genuine; [exact (proj2 sleep_ex_rejects) | exact (proj1 sleep_ex_rejects)].
Qed.

(* ====================================================================== *)
(* Part 2: JitterTicker                                                    *)
(* ====================================================================== *)

(* ---- the equality tests decide equality ---- *)

Lemma op_eqb_spec a b : op_eqb a b = true <-> a = b.
Proof.
  destruct a as [d j|d j|], b as [d' j'|d' j'|]; simpl;
    try (split; intros H; try discriminate; reflexivity);
    rewrite andb_true_iff, !Z.eqb_eq;
    (split; [intros [-> ->]; reflexivity | intros H; inversion H; split; reflexivity]).
Qed.

Lemma res_eqb_spec a b : res_eqb a b = true <-> a = b.
Proof. destruct a, b; simpl; split; intros H; try discriminate; reflexivity. Qed.

Lemma tpc_eqb_spec a b : tpc_eqb a b = true <-> a = b.
Proof.
  destruct a as [|o|o|o|o|o|o], b as [|p|p|p|p|p|p]; simpl;
    try (split; intros H; try discriminate; reflexivity);
    rewrite op_eqb_spec; (split; [intros ->; reflexivity | intros H; inversion H; reflexivity]).
Qed.

Lemma tmst_eqb_spec a b : tmst_eqb a b = true <-> a = b.
Proof. destruct a, b; simpl; split; intros H; try discriminate; reflexivity. Qed.

Lemma cbpc_eqb_spec a b : cbpc_eqb a b = true <-> a = b.
Proof. destruct a, b; simpl; split; intros H; try discriminate; reflexivity. Qed.

Lemma life_eqb_spec a b : life_eqb a b = true <-> a = b.
Proof. destruct a, b; simpl; split; intros H; try discriminate; reflexivity. Qed.

Lemma owner_eqb_spec a b : owner_eqb a b = true <-> a = b.
Proof.
  destruct a as [|x|x|], b as [|y|y|]; simpl;
    try (split; intros H; try discriminate; reflexivity);
    rewrite Nat.eqb_eq; (split; [intros ->; reflexivity | intros H; inversion H; reflexivity]).
Qed.

Lemma timer_eqb_spec a b : timer_eqb a b = true <-> a = b.
Proof.
  destruct a as [g1 l1 d1 j1 s1 c1], b as [g2 l2 d2 j2 s2 c2]. unfold timer_eqb.
  cbn [tm_gen tm_dl tm_d tm_j tm_st tm_cb].
  rewrite !andb_true_iff, !Z.eqb_eq, tmst_eqb_spec, cbpc_eqb_spec. split.
  - intros H. decompose [and] H. subst. reflexivity.
  - intros H. inversion H. subst. repeat split; reflexivity.
Qed.

Lemma tick_eqb_spec a b : tick_eqb a b = true <-> a = b.
Proof.
  destruct a as [[t d] j], b as [[t' d'] j']. simpl.
  rewrite !andb_true_iff, !Z.eqb_eq. split.
  - intros [[-> ->] ->]. reflexivity.
  - intros H. inversion H. repeat split; reflexivity.
Qed.

Theorem ticker_st_eqb_spec a b : st_eqb a b = true <-> a = b.
Proof.
  destruct a as [a1 a2 a3 a4 a5 a6 a7 a8 a9 a10 a11 a12 a13],
           b as [b1 b2 b3 b4 b5 b6 b7 b8 b9 b10 b11 b12 b13]. unfold st_eqb.
  cbn [now life fd fj gen tmr timers mu buf thr sent recvd stopped].
  rewrite !andb_true_iff, !Z.eqb_eq, life_eqb_spec, optnat_eqb_spec, (list_eqb_spec _ timer_eqb_spec),
    owner_eqb_spec, optz_eqb_spec, (list_eqb_spec _ tpc_eqb_spec), (list_eqb_spec _ tick_eqb_spec),
    (list_eqb_spec _ Z.eqb_eq), bool_eqb_spec.
  split.
  - intros H. decompose [and] H. subst. reflexivity.
  - intros H. inversion H. subst. repeat split; reflexivity.
Qed.

Theorem ticker_mst_eqb_spec (a b : mst) : mst_eqb a b = true <-> a = b.
Proof.
  destruct a as [s p], b as [s' p']. unfold mst_eqb. cbn [fst snd].
  rewrite andb_true_iff, ticker_st_eqb_spec, (list_eqb_spec _ Z.eqb_eq). split.
  - intros [-> ->]. reflexivity.
  - intros H. inversion H. split; reflexivity.
Qed.

(* ---- events are labels ---- *)

Lemma ticker_vis_some l e : vis l = Some e -> e = l.
Proof. destruct l; simpl; intros H; try discriminate; inversion H; reflexivity. Qed.

Lemma ticker_vis_idem l e : vis l = Some e -> vis e = Some e.
Proof. intros H. pose proof (ticker_vis_some l e H) as He. subst e. exact H. Qed.

Ltac teqb_crush :=
  repeat match goal with
  | H : (_ && _) = true |- _ => apply andb_true_iff in H; destruct H
  | H : Nat.eqb _ _ = true |- _ => apply Nat.eqb_eq in H
  | H : Z.eqb _ _ = true |- _ => apply Z.eqb_eq in H
  | H : op_eqb _ _ = true |- _ => apply op_eqb_spec in H
  | H : res_eqb _ _ = true |- _ => apply res_eqb_spec in H
  end; subst.

Lemma ticker_lab_eqb_sound a b : lab_eqb a b = true -> a = b.
Proof. destruct a, b; simpl; intros H; try discriminate H; teqb_crush; reflexivity. Qed.

Lemma op_eqb_refl o : op_eqb o o = true.
Proof. apply op_eqb_spec. reflexivity. Qed.
Lemma res_eqb_refl r : res_eqb r r = true.
Proof. apply res_eqb_spec. reflexivity. Qed.

Lemma ticker_lab_eqb_refl_vis a e : vis a = Some e -> lab_eqb a a = true.
Proof.
  destruct a; simpl; intros H; try discriminate H;
    rewrite ?Z.eqb_refl, ?Nat.eqb_refl, ?op_eqb_refl, ?res_eqb_refl; reflexivity.
Qed.

Theorem ticker_lab_eqb_spec a b e : vis b = Some e -> (lab_eqb a b = true <-> a = b).
Proof.
  intros Hv. split; [apply ticker_lab_eqb_sound|]. intros ->. eapply ticker_lab_eqb_refl_vis; exact Hv.
Qed.

(* ---- runs of the guided relation are runs of the model ---- *)

Definition ticker_trace : list lab -> list lab := trace lab lab vis.

Lemma run_mstep_step ls : forall s pend ms',
  run mstep (s, pend) ls = Some ms' -> run step s ls = Some (fst ms').
Proof.
  induction ls as [|l ls IH]; intros s pend ms' Hr; cbn [GoLTS.run] in Hr.
  - inversion Hr; subst. reflexivity.
  - destruct (mstep (s, pend) l) as [[s1 p1]|] eqn:E; [|discriminate Hr].
    cbn [GoLTS.run]. rewrite (mstep_sound s pend l s1 p1 E). eapply IH; exact Hr.
Qed.

(* SOUNDNESS with respect to the guided relation *)
Theorem ticker_accepts_guided_sound n evs :
  accepts_history n evs = true ->
  exists ls ms, run mstep (tinit n, recv_values evs) ls = Some ms /\ ticker_trace ls = evs.
Proof.
  unfold accepts_history, ticker_trace.
  apply (accepts_sound mst lab lab mstep vis lab_eqb mst_eqb (fun ms => tau_labels (fst ms))
           (fun _ e => [e]) ticker_lab_eqb_sound).
Qed.

(* SOUNDNESS (unconditional) with respect to the UNREDUCED model *)
Theorem ticker_accepts_sound n evs :
  accepts_history n evs = true ->
  exists ls s, run step (tinit n) ls = Some s /\ ticker_trace ls = evs.
Proof.
  intros Ha. destruct (ticker_accepts_guided_sound n evs Ha) as [ls [ms [Hr Ht]]].
  exists ls, (fst ms). split; [eapply run_mstep_step; exact Hr | exact Ht].
Qed.

(* the function props/xtime_common.py calls *)
Theorem ticker_check_sound n evs :
  check_ticker (n, evs) = true ->
  exists ls s, run step (tinit n) ls = Some s /\ ticker_trace ls = evs.
Proof. unfold check_ticker. apply ticker_accepts_sound. Qed.

(* the diagnostic variant *)
Theorem ticker_first_rejected_sound n evs :
  first_rejected n evs = None ->
  exists ls s, run step (tinit n) ls = Some s /\ ticker_trace ls = evs.
Proof.
  unfold first_rejected. intros Hf.
  destruct (first_reject_sound mst lab lab mstep vis lab_eqb mst_eqb (fun ms => tau_labels (fst ms))
              (fun _ e => [e]) ticker_lab_eqb_sound 64 (tinit n, recv_values evs) evs 0%nat Hf)
    as [ls [ms [Hr Ht]]].
  exists ls, (fst ms). split; [eapply run_mstep_step; exact Hr | exact Ht].
Qed.

(* the matcher for the historical code is sound for the historical model *)
Lemma mstep_old_sound s pend l s' pend' :
  mstep_old (s, pend) l = Some (s', pend') -> step_old s l = Some s'.
Proof.
  unfold mstep_old. intros H.
  destruct l;
    try (destruct (step_old s _) as [s1|] eqn:E; [simpl in H; injection H as <- _; reflexivity | discriminate H]).
  - destruct (mu s); try discriminate H;
      (destruct (step_old s (LTick t)) as [s1|] eqn:E; [simpl in H; injection H as <- _; reflexivity | discriminate H]).
  - destruct pend as [|v' pend0]; [discriminate H|]. destruct (v =? v'); [|discriminate H].
    destruct (step_old s (LRecv v)) as [s1|] eqn:E; [simpl in H; injection H as <- _; reflexivity | discriminate H].
  - destruct pend as [|v' pend0]; [discriminate H|]. destruct (now s =? v'); [|discriminate H].
    destruct (step_old s (TFire k)) as [s1|] eqn:E; [simpl in H; injection H as <- _; reflexivity | discriminate H].
Qed.

Lemma run_mstep_old_step ls : forall s pend ms',
  run mstep_old (s, pend) ls = Some ms' -> run step_old s ls = Some (fst ms').
Proof.
  induction ls as [|l ls IH]; intros s pend ms' Hr; cbn [GoLTS.run] in Hr.
  - inversion Hr; subst. reflexivity.
  - destruct (mstep_old (s, pend) l) as [[s1 p1]|] eqn:E; [|discriminate Hr].
    cbn [GoLTS.run]. rewrite (mstep_old_sound s pend l s1 p1 E). eapply IH; exact Hr.
Qed.

Theorem ticker_check_old_sound n evs :
  check_ticker_old (n, evs) = true ->
  exists ls s, run step_old (tinit n) ls = Some s /\ ticker_trace ls = evs.
Proof.
  unfold check_ticker_old, ticker_trace. intros Ha.
  destruct (accepts_sound mst lab lab mstep_old vis lab_eqb mst_eqb (fun ms => tau_labels (fst ms))
              (fun _ e => [e]) ticker_lab_eqb_sound 64 (tinit n, recv_values evs) evs Ha)
    as [ls [ms [Hr Ht]]].
  exists ls, (fst ms). split; [eapply run_mstep_old_step; exact Hr | exact Ht].
Qed.

(* ---- the guided relation with the oracle fixed to 0 ---- *)

Definition zero_oracle (l : lab) : bool :=
  match l with TBodySched _ r | TCbSchedule _ r => r =? 0 | _ => true end.

Definition mstep0 (ms : mst) (l : lab) : option mst := if zero_oracle l then mstep ms l else None.

Lemma mstep0_mstep ms l ms' : mstep0 ms l = Some ms' -> mstep ms l = Some ms'.
Proof. unfold mstep0. destruct (zero_oracle l); [intros H; exact H | discriminate]. Qed.

Lemma run_mstep0_mstep ls : forall ms ms', run mstep0 ms ls = Some ms' -> run mstep ms ls = Some ms'.
Proof.
  induction ls as [|l ls IH]; intros ms ms' Hr; cbn [GoLTS.run] in *; [exact Hr|].
  destruct (mstep0 ms l) as [ms1|] eqn:E; [|discriminate Hr].
  rewrite (mstep0_mstep ms l ms1 E). apply IH; exact Hr.
Qed.

(* every run of [mstep0] is a run of the unreduced model *)
Theorem run_mstep0_step ls s pend ms' :
  run mstep0 (s, pend) ls = Some ms' -> run step s ls = Some (fst ms').
Proof. intros Hr. eapply run_mstep_step. apply run_mstep0_mstep. exact Hr. Qed.

Lemma in_tau_labels_zero s l : In l (tau_labels s) -> zero_oracle l = true.
Proof.
  unfold tau_labels. intros Hin. apply in_app_or in Hin. destruct Hin as [Hin|Hin];
    apply in_flat_map in Hin; destruct Hin as [x [_ Hx]]; simpl in Hx;
    repeat (destruct Hx as [Hx|Hx]; [subst l; reflexivity|]); destruct Hx.
Qed.

Lemma vis_zero l : vis l <> None -> zero_oracle l = true.
Proof. destruct l; simpl; intros H; try reflexivity; exfalso; apply H; reflexivity. Qed.

(* the shipped matcher is literally the generic matcher on [mstep0] *)
Lemma ticker_accepts_mstep0 n evs :
  accepts_history n evs =
  accepts mstep0 vis lab_eqb mst_eqb (fun ms => tau_labels (fst ms)) (fun _ e => [e]) 64
          (tinit n, recv_values evs) evs.
Proof.
  unfold accepts_history.
  apply (accepts_sx mst lab lab mstep mstep0 vis lab_eqb mst_eqb (fun ms => tau_labels (fst ms))
           (fun _ e => [e])).
  - intros ms l Hin _. unfold mstep0. rewrite (in_tau_labels_zero (fst ms) l Hin). reflexivity.
  - intros ms e l _ Hv. unfold mstep0. rewrite (vis_zero l Hv). reflexivity.
Qed.

(* the executable convergence test for a history *)
Definition ticker_converged (n : nat) (evs : list lab) : bool :=
  convergedb mst lab lab mstep vis lab_eqb mst_eqb (fun ms => tau_labels (fst ms)) (fun _ e => [e]) 64
             (tinit n, recv_values evs) evs.

Lemma ticker_converged_mstep0 n evs :
  ticker_converged n evs =
  convergedb mst lab lab mstep0 vis lab_eqb mst_eqb (fun ms => tau_labels (fst ms)) (fun _ e => [e]) 64
             (tinit n, recv_values evs) evs.
Proof.
  unfold ticker_converged.
  apply (convergedb_sx mst lab lab mstep mstep0 vis lab_eqb mst_eqb (fun ms => tau_labels (fst ms))
           (fun _ e => [e])).
  - intros ms l Hin _. unfold mstep0. rewrite (in_tau_labels_zero (fst ms) l Hin). reflexivity.
  - intros ms e l _ Hv. unfold mstep0. rewrite (vis_zero l Hv). reflexivity.
Qed.

(* ---- the enumeration contains every internal label enabled in [mstep0] ---- *)

Lemma mstep_enabled s pend l : mstep (s, pend) l <> None -> step s l <> None.
Proof.
  intros H. destruct (mstep (s, pend) l) as [[s' p']|] eqn:E; [|congruence].
  rewrite (mstep_sound s pend l s' p' E). discriminate.
Qed.

Ltac thr_label s th Hs :=
  let Hlt := fresh "Hlt" in
  let E := fresh "E" in
  assert (Hlt : (th < length (thr s))%nat)
    by (apply nth_error_Some; intros E; apply Hs; unfold step, step_gen; rewrite E; reflexivity);
  unfold tau_labels; apply in_or_app; left; apply in_flat_map; exists th;
  split; [apply in_seq; split; [apply Nat.le_0_l | exact Hlt] | in_list].

Ltac tm_label s k Hs :=
  let Hlt := fresh "Hlt" in
  let E := fresh "E" in
  assert (Hlt : (k < length (timers s))%nat)
    by (apply nth_error_Some; intros E; apply Hs; unfold step, step_gen; rewrite E; reflexivity);
  unfold tau_labels; apply in_or_app; right; apply in_flat_map; exists k;
  split; [apply in_seq; split; [apply Nat.le_0_l | exact Hlt] | in_list].

Theorem ticker_tau_labels_complete (ms : mst) (l : lab) :
  vis l = None -> mstep0 ms l <> None -> In l ((fun ms : mst => tau_labels (fst ms)) ms).
Proof.
  destruct ms as [s pend]. intros Hv H0. cbn [fst]. unfold mstep0 in H0.
  destruct (zero_oracle l) eqn:Ez; [|congruence].
  pose proof (mstep_enabled s pend l H0) as Hs. clear H0.
  destruct l as [t|th o|th o r|v|th|th|th r|th|th|k|k|k|k r|k]; simpl in Hv; try discriminate Hv; clear Hv;
    simpl in Ez; try (apply Z.eqb_eq in Ez; subst r).
  - thr_label s th Hs.
  - thr_label s th Hs.
  - thr_label s th Hs.
  - thr_label s th Hs.
  - thr_label s th Hs.
  - tm_label s k Hs.
  - tm_label s k Hs.
  - tm_label s k Hs.
  - tm_label s k Hs.
  - tm_label s k Hs.
Qed.

Theorem ticker_labels_ev_complete (ms : mst) (l e : lab) :
  vis l = Some e -> mstep0 ms l <> None -> In l ((fun (_ : mst) (x : lab) => [x]) ms e).
Proof. intros Hv _. left. apply (ticker_vis_some l e Hv). Qed.

(* ---- completeness relative to [mstep0] ---- *)

Definition lab_eqb_tot (a b : lab) : bool :=
  match vis b with Some _ => lab_eqb a b | None => true end.

Lemma lab_eqb_tot_refl a : lab_eqb_tot a a = true.
Proof.
  unfold lab_eqb_tot. destruct (vis a) as [e|] eqn:Ev; [|reflexivity].
  eapply ticker_lab_eqb_refl_vis; exact Ev.
Qed.

Lemma lab_eqb_tot_agree (e l e' : lab) : vis l = Some e' -> lab_eqb e e' = lab_eqb_tot e e'.
Proof. intros Hv. unfold lab_eqb_tot. rewrite (ticker_vis_idem l e' Hv). reflexivity. Qed.

Lemma ticker_accepts_tot n evs :
  accepts_history n evs =
  accepts mstep0 vis lab_eqb_tot mst_eqb (fun ms => tau_labels (fst ms)) (fun _ e => [e]) 64
          (tinit n, recv_values evs) evs.
Proof.
  rewrite ticker_accepts_mstep0.
  apply (CondMatcher.accepts_ext mst lab lab mstep0 vis lab_eqb lab_eqb_tot mst_eqb mst_eqb
           (fun ms => tau_labels (fst ms)) (fun _ e => [e]) (fun _ => True)).
  - intros; exact I.
  - intros; reflexivity.
  - exact lab_eqb_tot_agree.
  - exact I.
Qed.

Lemma ticker_converged_tot n evs :
  ticker_converged n evs =
  convergedb mst lab lab mstep0 vis lab_eqb_tot mst_eqb (fun ms => tau_labels (fst ms)) (fun _ e => [e]) 64
             (tinit n, recv_values evs) evs.
Proof.
  rewrite ticker_converged_mstep0.
  apply (CondMatcher.convergedb_ext mst lab lab mstep0 vis lab_eqb lab_eqb_tot mst_eqb mst_eqb
           (fun ms => tau_labels (fst ms)) (fun _ e => [e]) (fun _ => True)).
  - intros; exact I.
  - intros; reflexivity.
  - exact lab_eqb_tot_agree.
  - exact I.
Qed.

(* COMPLETENESS (guided): when the closures converged, a history produced by a run of [mstep0] from the
   matcher's initial state is accepted *)
Theorem ticker_guided_complete n evs ls ms :
  ticker_converged n evs = true ->
  run mstep0 (tinit n, recv_values evs) ls = Some ms -> ticker_trace ls = evs ->
  accepts_history n evs = true.
Proof.
  rewrite ticker_converged_tot, ticker_accepts_tot. unfold ticker_trace.
  apply (accepts_complete_b mst lab lab mstep0 vis lab_eqb_tot mst_eqb (fun ms => tau_labels (fst ms))
           (fun _ e => [e]) ticker_mst_eqb_spec lab_eqb_tot_refl
           ticker_tau_labels_complete ticker_labels_ev_complete).
Qed.

Theorem ticker_guided_reject_genuine n evs :
  ticker_converged n evs = true -> accepts_history n evs = false ->
  forall ls ms, run mstep0 (tinit n, recv_values evs) ls = Some ms -> ticker_trace ls <> evs.
Proof.
  intros Hc Hacc ls ms Hr Ht.
  rewrite (ticker_guided_complete n evs ls ms Hc Hr Ht) in Hacc. discriminate.
Qed.

(* soundness also holds with respect to [mstep0] (the run found uses oracle 0 only) *)
Theorem ticker_accepts_mstep0_sound n evs :
  accepts_history n evs = true ->
  exists ls ms, run mstep0 (tinit n, recv_values evs) ls = Some ms /\ ticker_trace ls = evs.
Proof.
  rewrite ticker_accepts_mstep0. unfold ticker_trace.
  apply (accepts_sound mst lab lab mstep0 vis lab_eqb mst_eqb (fun ms => tau_labels (fst ms))
           (fun _ e => [e]) ticker_lab_eqb_sound).
Qed.

Theorem ticker_guided_iff n evs :
  ticker_converged n evs = true ->
  (accepts_history n evs = true <->
   exists ls ms, run mstep0 (tinit n, recv_values evs) ls = Some ms /\ ticker_trace ls = evs).
Proof.
  intros Hc. split.
  - apply ticker_accepts_mstep0_sound.
  - intros [ls [ms [Hr Ht]]]. eapply ticker_guided_complete; eassumption.
Qed.

(* ---- completeness with respect to the UNREDUCED model ---- *)

(* REFUTED as a general claim over the model's labels (which range over Z) - but only by a d that is NOT an
   int64: for d = 2^63 + 1, jitter = 2 the outcome number 1 (magnitude 0, sign 1: offset -1) computes
   wrap64 (2^63) = -2^63, so the timer fires at once and a tick stamped 5 ns is received; the matcher, which
   only tries outcome 0 (offset -2: wrap64 (2^63 - 1) = MaxInt64), rejects the history.  For int64 arguments
   the reduction is sound: [oracle_safe_int64]. *)
Definition ovf_d : Z := 9223372036854775809.      (* 2^63 + 1 : not an int64 *)
Definition ovf_hist : list lab :=
  [LTick 0; LCall 0 (ONew ovf_d 2); LRet 0 (ONew ovf_d 2) RNormal; LTick 5; LRecv 5].
Definition ovf_run : list lab :=
  [LTick 0; LCall 0 (ONew ovf_d 2); TValidate 0; TLock 0; TBodySched 0 1; TUnlock 0;
   LRet 0 (ONew ovf_d 2) RNormal; LTick 5; TFire 0; TCbLock 0; TCbSend 0; LRecv 5].

Theorem ticker_unreduced_completeness_refuted :
  max_i64 < ovf_d /\
  exists n evs,
    ticker_converged n evs = true /\ accepts_history n evs = false /\
    exists ls s, run step (tinit n) ls = Some s /\ ticker_trace ls = evs.
Proof.
  split; [reflexivity|].
  exists 1%nat, ovf_hist. split; [vm_compute; reflexivity|]. split; [vm_compute; reflexivity|].
  exists ovf_run. eexists. split; vm_compute; reflexivity.
Qed.

(* The arguments for which oracle 0 does give the earliest deadline: whatever delay schedule() can
   compute with a valid oracle r, it can compute a delay that is not longer with oracle 0. *)
Definition oracle_safe (d j : Z) : Prop :=
  forall r nx, r_valid VCur j r = true -> next_delay VCur d j r = Some nx ->
    exists nx0, next_delay VCur d j 0 = Some nx0 /\ nx0 <= nx.

Lemma oracle_safe_no_jitter d j : j <= 0 -> oracle_safe d j.
Proof.
  intros Hj r nx _ Hn. rewrite next_delay_no_jitter in Hn by exact Hj. injection Hn as <-.
  exists d. split; [apply next_delay_no_jitter; exact Hj | lia].
Qed.

(* every pair of int64 arguments with jitter > 0 whose difference is an int64 (in particular every pair
   with d >= 0 or jitter < d: all documented pairs, and the pairs rejected by the argument check) *)
Lemma oracle_safe_int64 d j :
  0 < j <= max_i64 -> - 9223372036854775808 <= d - j -> d <= max_i64 -> oracle_safe d j.
Proof.
  intros Hj Hlo Hd r nx Hv Hn.
  pose proof (r_valid_cur_pos j r (proj1 Hj) Hv) as Hr.
  rewrite next_delay_exact in Hn by assumption. injection Hn as <-.
  exists (Z.min (d + (0 - j)) max_i64). split; [apply next_delay_exact; try assumption; lia | lia].
Qed.

(* the documented range of the spacing property (see [spaced]): ALL of it *)
Lemma oracle_safe_documented d j : 0 <= j < d -> d <= max_i64 -> oracle_safe d j.
Proof.
  intros Hj Hd. destruct (Z.eq_dec j 0) as [->|Hj0]; [apply oracle_safe_no_jitter; lia|].
  apply oracle_safe_int64; unfold max_i64 in *; lia.
Qed.

Example oracle_unsafe_overflow : ~ oracle_safe ovf_d 2.
Proof.
  intros H. destruct (H 1 (- 9223372036854775808) eq_refl eq_refl) as [nx0 [E Hle]].
  vm_compute in E. injection E as <-. vm_compute in Hle. apply Hle. reflexivity.
Qed.

(* with the ORIGINAL computation the reduction failed for a pair of int64 arguments: d = MaxInt64, jitter = 2,
   rand.Int63n(4) = 3 wraps d + 1 to -2^63, while oracle 0 gives MaxInt64 - 2 *)
Example ticker_orig_not_oracle_safe :
  r_valid VOrig 2 3 = true /\ next_delay VOrig max_i64 2 3 = Some (- 9223372036854775808)
  /\ next_delay VOrig max_i64 2 0 = Some (max_i64 - 2)
  /\ oracle_safe max_i64 2.
Proof.
  split; [reflexivity|]. split; [reflexivity|]. split; [reflexivity|].
  apply oracle_safe_documented; unfold max_i64; lia.
Qed.

Definition hist_safe (evs : list lab) : Prop :=
  forall th d j, In (LCall th (ONew d j)) evs \/ In (LCall th (OReset d j)) evs -> oracle_safe d j.

(* every trace of the unreduced model is a trace of the guided relation.  NOT proved in general; false
   without [hist_safe] ([ticker_reduction_fails_on_overflow]); Part 3 reduces it, under [hist_safe], to
   [guidance_complete] (runs whose oracles are all 0). *)
Definition reduction_complete (n : nat) (evs : list lab) : Prop :=
  forall ls s, run step (tinit n) ls = Some s -> ticker_trace ls = evs ->
    exists ls0 ms, run mstep0 (tinit n, recv_values evs) ls0 = Some ms /\ ticker_trace ls0 = evs.

Theorem ticker_reduction_fails_on_overflow : ~ reduction_complete 1 ovf_hist.
Proof.
  intros H. destruct (H ovf_run) with (s := match run step (tinit 1) ovf_run with Some s => s | None => tinit 1 end)
    as [ls0 [ms [Hr Ht]]]; [vm_compute; reflexivity | vm_compute; reflexivity|].
  apply (ticker_guided_reject_genuine 1%nat ovf_hist) with (ls := ls0) (ms := ms);
    [vm_compute; reflexivity | vm_compute; reflexivity | exact Hr | exact Ht].
Qed.

(* it is the ONLY missing piece: with it, rejections are genuine for the unreduced model *)
Theorem ticker_reject_genuine_if_reduction n evs :
  reduction_complete n evs ->
  ticker_converged n evs = true -> accepts_history n evs = false ->
  forall ls s, run step (tinit n) ls = Some s -> ticker_trace ls <> evs.
Proof.
  intros Hred Hc Hacc ls s Hr Ht.
  destruct (Hred ls s Hr Ht) as [ls0 [ms [Hr0 Ht0]]].
  exact (ticker_guided_reject_genuine n evs Hc Hacc ls0 ms Hr0 Ht0).
Qed.

Theorem ticker_accepts_iff_if_reduction n evs :
  reduction_complete n evs -> ticker_converged n evs = true ->
  (accepts_history n evs = true <->
   exists ls s, run step (tinit n) ls = Some s /\ ticker_trace ls = evs).
Proof.
  intros Hred Hc. split.
  - apply ticker_accepts_sound.
  - intros [ls [s [Hr Ht]]]. destruct (Hred ls s Hr Ht) as [ls0 [ms [Hr0 Ht0]]].
    eapply ticker_guided_complete; eassumption.
Qed.

(* ---- non-vacuity ---- *)
(* New(100, 10); ticks at 95 and 190 (>= 90 apart); a Reset(50, 0) from a second goroutine; a tick at
   245 (>= 50 after the Reset was called at 192); Stop *)
Definition ticker_ex_good : list lab :=
  [LTick 0; LCall 0 (ONew 100 10); LRet 0 (ONew 100 10) RNormal;
   LTick 95; LRecv 95; LTick 190; LRecv 190;
   LTick 192; LCall 1 (OReset 50 0); LRet 1 (OReset 50 0) RNormal;
   LTick 245; LRecv 245;
   LTick 250; LCall 0 OStop; LRet 0 OStop RNormal].

(* the second tick only 55 < 100 - 10 after the first *)
Definition ticker_ex_bad : list lab :=
  [LTick 0; LCall 0 (ONew 100 10); LRet 0 (ONew 100 10) RNormal;
   LTick 95; LRecv 95; LTick 150; LRecv 150].

(* a tick stamped after Stop returned *)
Definition ticker_ex_bad2 : list lab :=
  [LTick 0; LCall 0 (ONew 100 10); LTick 10; LCall 0 OStop].

Example ticker_ex_accepts :
  accepts_history 2 ticker_ex_good = true /\ ticker_converged 2 ticker_ex_good = true /\
  first_rejected 2 ticker_ex_good = None.
Proof. vm_compute. repeat split; reflexivity. Qed.

Example ticker_ex_is_trace :
  exists ls s, run step (tinit 2) ls = Some s /\ ticker_trace ls = ticker_ex_good.
Proof. apply ticker_accepts_sound. exact (proj1 ticker_ex_accepts). Qed.

Example ticker_ex_rejects :
  accepts_history 2 ticker_ex_bad = false /\ ticker_converged 2 ticker_ex_bad = true /\
  first_rejected 2 ticker_ex_bad = Some 6%nat.
Proof. vm_compute. repeat split; reflexivity. Qed.

Example ticker_ex_no_guided_run :
  forall ls ms, run mstep0 (tinit 2, recv_values ticker_ex_bad) ls = Some ms -> ticker_trace ls <> ticker_ex_bad.
Proof.
  apply ticker_guided_reject_genuine;
    [exact (proj1 (proj2 ticker_ex_rejects)) | exact (proj1 ticker_ex_rejects)].
Qed.

(* a second call by a goroutine whose first call has not returned: rejected *)
Example ticker_ex_rejects2 :
  accepts_history 1 ticker_ex_bad2 = false /\ ticker_converged 1 ticker_ex_bad2 = true.
Proof. vm_compute. split; reflexivity. Qed.

(* huge documented arguments (the ORIGINAL code panicked on the first and could tick at once on the third):
   NewJitterTicker(2^62+1, 2^62) returns normally and ticks 40 ns / 90 ns later are accepted (the smallest delay
   is d - jitter = 1 ns); a recorded panic of that call is rejected; a tick 7 ns after
   NewJitterTicker(MaxInt64, 2^61) is rejected (the smallest delay is MaxInt64 - 2^61) *)
Definition ticker_ex_huge : list lab :=
  [LTick 0; LCall 0 (ONew huge_d huge_j); LRet 0 (ONew huge_d huge_j) RNormal; LTick 40; LRecv 40;
   LTick 90; LRecv 90; LTick 100; LCall 0 OStop; LRet 0 OStop RNormal].
Definition ticker_ex_huge_panic : list lab :=
  [LTick 0; LCall 0 (ONew huge_d huge_j); LRet 0 (ONew huge_d huge_j) RPanic].
Definition ticker_ex_huge_early : list lab :=
  [LTick 0; LCall 0 (ONew max_i64 p61); LRet 0 (ONew max_i64 p61) RNormal; LTick 7; LRecv 7].

Example ticker_ex_huge_checks :
  accepts_history 1 ticker_ex_huge = true /\ ticker_converged 1 ticker_ex_huge = true
  /\ accepts_history 1 ticker_ex_huge_panic = false /\ ticker_converged 1 ticker_ex_huge_panic = true
  /\ accepts_history 1 ticker_ex_huge_early = false /\ ticker_converged 1 ticker_ex_huge_early = true
  /\ check_ticker_old (1%nat, ticker_ex_huge_panic) = true
  /\ hist_safe ticker_ex_huge /\ hist_safe ticker_ex_huge_early.
Proof.
  do 7 (split; [vm_compute; reflexivity|]).
  assert (H1 : oracle_safe huge_d huge_j) by (apply oracle_safe_documented; unfold max_i64, huge_d, huge_j; lia).
  assert (H2 : oracle_safe max_i64 p61) by (apply oracle_safe_documented; unfold max_i64, p61; lia).
  split; intros th d j [Hin|Hin]; simpl in Hin;
    repeat (destruct Hin as [Hin|Hin]; [try discriminate Hin; injection Hin as <- <- <-; assumption|]);
    destruct Hin.
Qed.

Example oracle_safe_example : oracle_safe 100 10 /\ oracle_safe 50 0 /\ hist_safe ticker_ex_good.
Proof.
  assert (H1 : oracle_safe 100 10) by (apply oracle_safe_documented; unfold max_i64; lia).
  assert (H2 : oracle_safe 50 0) by (apply oracle_safe_documented; unfold max_i64; lia).
  split; [exact H1|]. split; [exact H2|].
  intros th d j [Hin|Hin]; simpl in Hin;
    repeat (destruct Hin as [Hin|Hin]; [try discriminate Hin; injection Hin as <- <- <-; assumption|]);
    destruct Hin.
Qed.

(* ====================================================================== *)
(* Part 3: reduction (a) - the oracle of the rand draws can be fixed to 0   *)
(* ====================================================================== *)

(* [earlier s0 s]: s0 is s except that every timer's deadline is not later in s0.  Every label enabled
   in s is enabled, with its oracle replaced by 0, in s0 (TFire is the only label that reads a deadline
   and it is monotone), provided the (d, jitter) used by schedule() is [oracle_safe]. *)

Definition zero_r (l : lab) : lab :=
  match l with TBodySched th _ => TBodySched th 0 | TCbSchedule k _ => TCbSchedule k 0 | _ => l end.

Definition tle (t0 t : timer) : Prop :=
  tm_gen t0 = tm_gen t /\ tm_d t0 = tm_d t /\ tm_j t0 = tm_j t /\ tm_st t0 = tm_st t /\
  tm_cb t0 = tm_cb t /\ tm_dl t0 <= tm_dl t.

Definition earlier (s0 s : st) : Prop :=
  exists tms0, s0 = set_timers s tms0 /\ Forall2 tle tms0 (timers s).

Definition timer_free (l : lab) : bool :=
  match l with
  | LTick _ | LCall _ _ | LRet _ _ _ | LRecv _ | TValidate _ | TLock _ | TUnlock _ => true
  | _ => false
  end.

Lemma step_frame l s x : timer_free l = true ->
  step (set_timers s x) l = option_map (fun s' => set_timers s' x) (step s l).
Proof.
  intros Hf. destruct l; try discriminate Hf; unfold step, step_gen; cbn;
    repeat match goal with
    | |- context [match ?y with _ => _ end] => destruct y; try reflexivity
    end.
Qed.

Lemma step_free_timers l s s' : timer_free l = true -> step s l = Some s' -> timers s' = timers s.
Proof.
  intros Hf H. destruct l; try discriminate Hf; unfold step, step_gen in H;
    dmatch H; inversion H; subst; reflexivity.
Qed.

Lemma tle_refl t : tle t t.
Proof. unfold tle. repeat split; try reflexivity; lia. Qed.

Lemma F2_nth a b : Forall2 tle a b -> forall k t, nth_error b k = Some t ->
  exists t0, nth_error a k = Some t0 /\ tle t0 t.
Proof.
  intros H. induction H as [|x y a b Hxy Hab IH]; intros k t Hk.
  - destruct k; discriminate Hk.
  - destruct k as [|k]; simpl in *.
    + inversion Hk; subst. exists x. split; [reflexivity | exact Hxy].
    + apply IH; exact Hk.
Qed.

Lemma F2_length a b : Forall2 tle a b -> length a = length b.
Proof. intros H. induction H as [|x y a b _ _ IH]; simpl; [reflexivity | rewrite IH; reflexivity]. Qed.

Lemma F2_nth_none a b : Forall2 tle a b -> forall k, nth_error b k = None -> nth_error a k = None.
Proof.
  intros H k Hk. apply nth_error_None. apply nth_error_None in Hk.
  rewrite (F2_length a b H). exact Hk.
Qed.

Lemma F2_upd a b : Forall2 tle a b -> forall k x y, tle x y -> Forall2 tle (upd a k x) (upd b k y).
Proof.
  intros H. induction H as [|x0 y0 a b Hxy Hab IH]; intros k x y Hle.
  - destruct k; constructor.
  - destruct k as [|k]; simpl; constructor; auto.
Qed.

Lemma F2_stop a b k : Forall2 tle a b -> Forall2 tle (stop_timer a k) (stop_timer b k).
Proof.
  intros H. unfold stop_timer.
  destruct (nth_error b k) as [t|] eqn:Eb.
  - destruct (F2_nth a b H k t Eb) as [t0 [Ea Hle]]. rewrite Ea.
    destruct Hle as [Hg [Hd [Hj [Hs [Hc Hl]]]]]. rewrite Hs.
    destruct (tm_st t); try exact H.
    apply F2_upd; [exact H|]. unfold tle, tm_set_st; cbn. repeat split; assumption.
  - rewrite (F2_nth_none a b H k Eb). exact H.
Qed.

Lemma F2_stop_opt a b (o : option nat) : Forall2 tle a b ->
  Forall2 tle (match o with Some k => stop_timer a k | None => a end)
              (match o with Some k => stop_timer b k | None => b end).
Proof. intros H. destruct o; [apply F2_stop; exact H | exact H]. Qed.

Lemma earlier_refl s : earlier s s.
Proof.
  exists (timers s). split; [destruct s; reflexivity|].
  induction (timers s); constructor; [apply tle_refl | assumption].
Qed.

(* schedule with oracle 0 from the earlier state *)
Lemma schedule_earlier s tms0 r s2 :
  Forall2 tle tms0 (timers s) -> oracle_safe (fd s) (fj s) -> r_valid VCur (fj s) r = true ->
  schedule VCur s r = Some s2 ->
  exists tms2, schedule VCur (set_timers s tms0) 0 = Some (set_timers s2 tms2) /\ Forall2 tle tms2 (timers s2).
Proof.
  intros HF Hsafe Hv Hs. unfold schedule in *. cbn [fd fj tmr timers set_timers now gen] in *.
  destruct (next_delay VCur (fd s) (fj s) r) as [nx|] eqn:En; [|discriminate Hs].
  destruct (Hsafe r nx Hv En) as [nx0 [E0 Hle]]. rewrite E0.
  inversion Hs; subst s2; clear Hs.
  pose proof (F2_stop_opt tms0 (timers s) (tmr s) HF) as HF1.
  eexists. split.
  - cbn. rewrite (F2_length _ _ HF1). reflexivity.
  - cbn. apply Forall2_app; [exact HF1|]. constructor; [|constructor].
    unfold tle; cbn. repeat split; try reflexivity. lia.
Qed.

Lemma schedule_none_earlier s tms0 r :
  r_valid VCur (fj s) r = true ->
  schedule VCur s r = None -> schedule VCur (set_timers s tms0) 0 = None.
Proof. intros _ Hs. exfalso. exact (schedule_cur_some s r Hs). Qed.

Lemma r_valid_zero j r : r_valid VCur j r = true -> r_valid VCur j 0 = true.
Proof.
  cbn [r_valid]. destruct (0 <? j) eqn:E; [|reflexivity].
  intros _. apply Z.ltb_lt in E. apply andb_true_iff. split; [reflexivity | apply Z.ltb_lt; lia].
Qed.

Definition op_safe (o : op) : Prop :=
  match o with ONew d j | OReset d j => oracle_safe d j | OStop => True end.

Definition sched_safe (s : st) (l : lab) : Prop :=
  match l with
  | TBodySched th _ => match nth_error (thr s) th with Some (PLocked o) => op_safe o | _ => True end
  | TCbSchedule _ _ => oracle_safe (fd s) (fj s)
  | _ => True
  end.

Lemma sim_TFire s tms0 k s' : Forall2 tle tms0 (timers s) -> step s (TFire k) = Some s' ->
  exists tms', step (set_timers s tms0) (TFire k) = Some (set_timers s' tms') /\ Forall2 tle tms' (timers s').
Proof.
  intros HF H. unfold step, step_gen in *. cbn [timers set_timers now] in *.
  destruct (nth_error (timers s) k) as [tm|] eqn:Ek; [|discriminate H].
  destruct (F2_nth _ _ HF k tm Ek) as [t0 [E0 Hle]]. rewrite E0.
  destruct Hle as [Hg [Hd [Hj [Hs [Hc Hl]]]]]. rewrite Hs.
  destruct (tm_st tm); try discriminate H.
  destruct (tm_dl tm <=? now s) eqn:El; [|discriminate H]. apply Z.leb_le in El.
  assert (E0l : (tm_dl t0 <=? now s) = true) by (apply Z.leb_le; lia). rewrite E0l.
  inversion H; subst s'; clear H.
  eexists. split; [reflexivity|]. cbn.
  apply F2_upd; [exact HF|]. unfold tle; cbn. repeat split; assumption.
Qed.

Ltac tle_cb := unfold tle, tm_set_cb, tm_set_st; cbn; repeat split; assumption.

Lemma sim_TCbLock s tms0 k s' : Forall2 tle tms0 (timers s) -> step s (TCbLock k) = Some s' ->
  exists tms', step (set_timers s tms0) (TCbLock k) = Some (set_timers s' tms') /\ Forall2 tle tms' (timers s').
Proof.
  intros HF H. unfold step, step_gen in *. cbn [timers set_timers mu] in *.
  destruct (nth_error (timers s) k) as [tm|] eqn:Ek; [|discriminate H].
  destruct (F2_nth _ _ HF k tm Ek) as [t0 [E0 Hle]]. rewrite E0.
  destruct Hle as [Hg [Hd [Hj [Hs [Hc Hl]]]]]. rewrite Hc.
  destruct (mu s); try discriminate H.
  destruct (tm_cb tm); try discriminate H.
  inversion H; subst s'; clear H.
  eexists. split; [reflexivity|]. cbn. apply F2_upd; [exact HF | tle_cb].
Qed.

Lemma sim_TCbUnlock s tms0 k s' : Forall2 tle tms0 (timers s) -> step s (TCbUnlock k) = Some s' ->
  exists tms', step (set_timers s tms0) (TCbUnlock k) = Some (set_timers s' tms') /\ Forall2 tle tms' (timers s').
Proof.
  intros HF H. unfold step, step_gen in *. cbn [timers set_timers mu] in *.
  destruct (nth_error (timers s) k) as [tm|] eqn:Ek; [|discriminate H].
  destruct (F2_nth _ _ HF k tm Ek) as [t0 [E0 Hle]]. rewrite E0.
  destruct Hle as [Hg [Hd [Hj [Hs [Hc Hl]]]]]. rewrite Hc.
  destruct (tm_cb tm); try discriminate H.
  inversion H; subst s'; clear H.
  eexists. split; [reflexivity|]. cbn. apply F2_upd; [exact HF | tle_cb].
Qed.

Lemma sim_TCbSend s tms0 k s' : Forall2 tle tms0 (timers s) -> step s (TCbSend k) = Some s' ->
  exists tms', step (set_timers s tms0) (TCbSend k) = Some (set_timers s' tms') /\ Forall2 tle tms' (timers s').
Proof.
  intros HF H. unfold step, step_gen in *. cbn [timers set_timers gen buf now sent] in *.
  destruct (nth_error (timers s) k) as [tm|] eqn:Ek; [|discriminate H].
  destruct (F2_nth _ _ HF k tm Ek) as [t0 [E0 Hle]]. rewrite E0.
  destruct Hle as [Hg [Hd [Hj [Hs [Hc Hl]]]]]. rewrite Hc, Hg, Hd, Hj.
  destruct (tm_cb tm); try discriminate H.
  destruct (gen s =? tm_gen tm).
  - destruct (buf s); inversion H; subst s'; clear H;
      (eexists; split; [reflexivity|]; cbn; apply F2_upd; [exact HF | tle_cb]).
  - inversion H; subst s'; clear H.
    eexists. split; [reflexivity|]. cbn. apply F2_upd; [exact HF | tle_cb].
Qed.

Lemma sim_TBodyStop s tms0 th s' : Forall2 tle tms0 (timers s) -> step s (TBodyStop th) = Some s' ->
  exists tms', step (set_timers s tms0) (TBodyStop th) = Some (set_timers s' tms') /\ Forall2 tle tms' (timers s').
Proof.
  intros HF H. unfold step, step_gen in *. cbn [timers set_timers thr tmr gen] in *.
  destruct (nth_error (thr s) th) as [p|]; [|discriminate H].
  destruct p as [|o|o|o|o|o|o]; try discriminate H. destruct o; try discriminate H.
  destruct (tmr s) as [k|]; inversion H; subst s'; clear H.
  - eexists. split; [reflexivity|]. cbn. apply F2_stop. exact HF.
  - eexists. split; [reflexivity|]. cbn. exact HF.
Qed.

Lemma sim_TBodySched s tms0 th r s' : Forall2 tle tms0 (timers s) ->
  sched_safe s (TBodySched th r) -> step s (TBodySched th r) = Some s' ->
  exists tms', step (set_timers s tms0) (TBodySched th 0) = Some (set_timers s' tms') /\ Forall2 tle tms' (timers s').
Proof.
  intros HF Hsafe H. unfold step, step_gen in *. cbn [sched_safe timers set_timers thr] in *.
  destruct (nth_error (thr s) th) as [p|]; [|discriminate H].
  destruct p as [|o|o|o|o|o|o]; try discriminate H.
  destruct o as [d j|d j|]; try discriminate H; cbn [op_safe] in Hsafe;
    (destruct (r_valid VCur j r) eqn:Hv; [|discriminate H]);
    rewrite (r_valid_zero j r Hv); cbv zeta in *;
    change (set_fj (set_fd (set_timers s tms0) d) j) with (set_timers (set_fj (set_fd s d) j) tms0);
    (destruct (schedule VCur (set_fj (set_fd s d) j) r) as [s2|] eqn:Es;
     [ destruct (schedule_earlier (set_fj (set_fd s d) j) tms0 r s2 HF Hsafe Hv Es) as [tms2 [Es0 HF2]];
       rewrite Es0; inversion H; subst s'; clear H;
       eexists; split; [reflexivity | cbn; exact HF2]
     | rewrite (schedule_none_earlier (set_fj (set_fd s d) j) tms0 r Hv Es);
       inversion H; subst s'; clear H;
       eexists; split; [reflexivity | cbn; exact HF] ]).
Qed.

Lemma sim_TCbSchedule s tms0 k r s' : Forall2 tle tms0 (timers s) ->
  sched_safe s (TCbSchedule k r) -> step s (TCbSchedule k r) = Some s' ->
  exists tms', step (set_timers s tms0) (TCbSchedule k 0) = Some (set_timers s' tms') /\ Forall2 tle tms' (timers s').
Proof.
  intros HF Hsafe H. unfold step, step_gen in *. cbn [sched_safe timers set_timers fj] in *.
  destruct (nth_error (timers s) k) as [tm|] eqn:Ek; [|discriminate H].
  destruct (F2_nth _ _ HF k tm Ek) as [t0 [E0 Hle]]. rewrite E0.
  destruct Hle as [Hg [Hd [Hj [Hs [Hc Hl]]]]]. rewrite Hc.
  destruct (tm_cb tm) eqn:Ecb; try discriminate H.
  destruct (r_valid VCur (fj s) r) eqn:Hv; [|discriminate H].
  rewrite (r_valid_zero (fj s) r Hv).
  destruct (schedule VCur s r) as [s2|] eqn:Es.
  - destruct (schedule_earlier s tms0 r s2 HF Hsafe Hv Es) as [tms2 [Es0 HF2]].
    rewrite Es0. cbn [timers set_timers].
    destruct (nth_error (timers s2) k) as [tm2|] eqn:Ek2; [|discriminate H].
    destruct (F2_nth _ _ HF2 k tm2 Ek2) as [t2 [E2 Hle2]]. rewrite E2.
    destruct Hle2 as [Hg2 [Hd2 [Hj2 [Hs2 [Hc2 Hl2]]]]].
    inversion H; subst s'; clear H.
    eexists. split; [reflexivity|]. cbn. apply F2_upd; [exact HF2 | tle_cb].
  - rewrite (schedule_none_earlier s tms0 r Hv Es).
    inversion H; subst s'; clear H.
    eexists. split; [reflexivity|]. cbn. apply F2_upd; [exact HF|].
    unfold tle, tm_set_cb; cbn. repeat split; assumption.
Qed.

Theorem step_zero_sim s0 s l s' :
  earlier s0 s -> sched_safe s l -> step s l = Some s' ->
  exists s0', step s0 (zero_r l) = Some s0' /\ earlier s0' s'.
Proof.
  intros [tms0 [-> HF]] Hsafe H.
  destruct (timer_free l) eqn:Ef.
  - assert (Ez : zero_r l = l) by (destruct l; try discriminate Ef; reflexivity).
    rewrite Ez, (step_frame l s tms0 Ef), H. cbn [option_map].
    exists (set_timers s' tms0). split; [reflexivity|].
    exists tms0. split; [reflexivity|]. rewrite (step_free_timers l s s' Ef H). exact HF.
  - destruct l as [t|th o|th o r|v|th|th|th r|th|th|k|k|k|k r|k]; try discriminate Ef; cbn [zero_r].
    + destruct (sim_TBodySched s tms0 th r s' HF Hsafe H) as [tms' [E HF']].
      exists (set_timers s' tms'). split; [exact E | exists tms'; split; [reflexivity | exact HF']].
    + destruct (sim_TBodyStop s tms0 th s' HF H) as [tms' [E HF']].
      exists (set_timers s' tms'). split; [exact E | exists tms'; split; [reflexivity | exact HF']].
    + destruct (sim_TFire s tms0 k s' HF H) as [tms' [E HF']].
      exists (set_timers s' tms'). split; [exact E | exists tms'; split; [reflexivity | exact HF']].
    + destruct (sim_TCbLock s tms0 k s' HF H) as [tms' [E HF']].
      exists (set_timers s' tms'). split; [exact E | exists tms'; split; [reflexivity | exact HF']].
    + destruct (sim_TCbSend s tms0 k s' HF H) as [tms' [E HF']].
      exists (set_timers s' tms'). split; [exact E | exists tms'; split; [reflexivity | exact HF']].
    + destruct (sim_TCbSchedule s tms0 k r s' HF Hsafe H) as [tms' [E HF']].
      exists (set_timers s' tms'). split; [exact E | exists tms'; split; [reflexivity | exact HF']].
    + destruct (sim_TCbUnlock s tms0 k s' HF H) as [tms' [E HF']].
      exists (set_timers s' tms'). split; [exact E | exists tms'; split; [reflexivity | exact HF']].
Qed.

Definition pc_safe (p : tpc) : Prop :=
  match p with
  | PIdle => True
  | PCalled o | PWantLock o | PLocked o | PUnlock o | PReturning o | PPanicked o => op_safe o
  end.

Definition OpInv (s : st) : Prop := oracle_safe (fd s) (fj s) /\ Forall pc_safe (thr s).

Definition lab_safe (l : lab) : Prop := match l with LCall _ o => op_safe o | _ => True end.

Lemma Forall_upd {A} (P : A -> Prop) (l : list A) k x : Forall P l -> P x -> Forall P (upd l k x).
Proof.
  intros H Hx. revert k. induction H as [|a t Ha Ht IH]; intros k; destruct k; simpl; constructor; auto.
Qed.

Lemma Forall_nth_error {A} (P : A -> Prop) (l : list A) k x : Forall P l -> nth_error l k = Some x -> P x.
Proof. intros H E. rewrite Forall_forall in H. apply H. eapply nth_error_In; exact E. Qed.

Lemma schedule_fields g s r s2 :
  schedule g s r = Some s2 -> fd s2 = fd s /\ fj s2 = fj s /\ thr s2 = thr s.
Proof.
  unfold schedule. destruct (next_delay g (fd s) (fj s) r); [|discriminate].
  intros H. inversion H; subst. cbn. repeat split; reflexivity.
Qed.

Lemma opinv_step s l s' : lab_safe l -> OpInv s -> step s l = Some s' -> OpInv s'.
Proof.
  intros Hl [Hfd Hthr] H.
  destruct l; unfold step, step_gen in H; cbn [lab_safe] in Hl; dmatch H;
    inversion H; subst; clear H;
    try match goal with
        | E : nth_error (thr _) _ = Some _ |- _ =>
            let F := fresh "Hpc" in
            pose proof (Forall_nth_error pc_safe _ _ _ Hthr E) as F; cbn [pc_safe op_safe] in F
        end;
    try match goal with
        | E : schedule _ _ _ = Some _ |- _ =>
            let F1 := fresh "Hf1" in let F2 := fresh "Hf2" in let F3 := fresh "Hf3" in
            destruct (schedule_fields _ _ _ _ E) as [F1 [F2 F3]]; cbn in F1, F2, F3
        end;
    (split; cbn;
     [ rewrite ?Hf1, ?Hf2; first [assumption | exact Hfd]
     | rewrite ?Hf3;
       first [assumption | exact Hthr
             | apply Forall_upd; [exact Hthr | cbn [pc_safe op_safe]; first [assumption | exact I]]] ]).
Qed.

Lemma opinv_sched_safe s l : OpInv s -> sched_safe s l.
Proof.
  intros [Hfd Hthr]. destruct l; cbn [sched_safe]; try exact I; [|exact Hfd].
  destruct (nth_error (thr s) th) as [p|] eqn:E; [|exact I].
  destruct p; try exact I. exact (Forall_nth_error pc_safe _ _ _ Hthr E).
Qed.

Lemma opinv_init n : OpInv (tinit n).
Proof.
  split; cbn.
  - apply oracle_safe_no_jitter. lia.
  - induction n; simpl; constructor; [exact I | assumption].
Qed.

Theorem run_zero_sim ls : forall s0 s s',
  earlier s0 s -> OpInv s -> Forall lab_safe ls -> run step s ls = Some s' ->
  exists s0', run step s0 (map zero_r ls) = Some s0' /\ earlier s0' s'.
Proof.
  induction ls as [|l ls IH]; intros s0 s s' He Hi Hl Hr; cbn [GoLTS.run map] in *.
  - inversion Hr; subst. exists s0. split; [reflexivity | exact He].
  - destruct (step s l) as [s1|] eqn:Es; [|discriminate Hr].
    inversion Hl as [|l' ls' Hl1 Hl2]; subst.
    destruct (step_zero_sim s0 s l s1 He (opinv_sched_safe s l Hi) Es) as [s01 [Es0 He1]].
    rewrite Es0. apply (IH s01 s1 s' He1 (opinv_step s l s1 Hl1 Hi Es) Hl2 Hr).
Qed.

Lemma trace_zero ls : ticker_trace (map zero_r ls) = ticker_trace ls.
Proof.
  unfold ticker_trace. induction ls as [|l ls IH]; [reflexivity|].
  cbn [map trace]. rewrite IH. destruct l; reflexivity.
Qed.

Lemma zero_r_zero ls : Forall (fun l => zero_oracle l = true) (map zero_r ls).
Proof. induction ls as [|l ls IH]; simpl; constructor; [destruct l; reflexivity | exact IH]. Qed.

Lemma in_trace l ls : In l ls -> vis l = Some l -> In l (ticker_trace ls).
Proof.
  unfold ticker_trace. induction ls as [|x ls IH]; intros Hin Hv; [destruct Hin|].
  cbn [trace]. destruct Hin as [->|Hin].
  - rewrite Hv. left; reflexivity.
  - destruct (vis x); [right|]; apply IH; assumption.
Qed.

Lemma hist_safe_labels ls : hist_safe (ticker_trace ls) -> Forall lab_safe ls.
Proof.
  intros Hh. apply Forall_forall. intros l Hin.
  destruct l as [t|th o|th o r|v|th|th|th r|th|th|k|k|k|k r|k]; cbn [lab_safe]; try exact I.
  pose proof (in_trace (LCall th o) ls Hin eq_refl) as Ht.
  destruct o as [d j|d j|]; cbn [op_safe]; [| |exact I].
  - apply (Hh th d j). left; exact Ht.
  - apply (Hh th d j). right; exact Ht.
Qed.

(* REDUCTION (a), proved: when every New/Reset of the history has [oracle_safe] arguments, every trace
   of the model is the trace of a run in which every oracle is 0 *)
Theorem ticker_oracle_zero n evs ls s :
  hist_safe evs -> run step (tinit n) ls = Some s -> ticker_trace ls = evs ->
  exists ls0 s0, run step (tinit n) ls0 = Some s0 /\ Forall (fun l => zero_oracle l = true) ls0
                 /\ ticker_trace ls0 = evs /\ earlier s0 s.
Proof.
  intros Hh Hr Ht. subst evs.
  destruct (run_zero_sim ls (tinit n) (tinit n) s (earlier_refl _) (opinv_init n)
              (hist_safe_labels ls Hh) Hr) as [s0 [Hr0 He]].
  exists (map zero_r ls), s0. split; [exact Hr0|]. split; [apply zero_r_zero|].
  split; [apply trace_zero | exact He].
Qed.

(* what remains: reductions (b) and (c) *)
Definition guidance_complete (n : nat) (evs : list lab) : Prop :=
  forall ls s, run step (tinit n) ls = Some s -> Forall (fun l => zero_oracle l = true) ls ->
    ticker_trace ls = evs ->
    exists ls0 ms, run mstep0 (tinit n, recv_values evs) ls0 = Some ms /\ ticker_trace ls0 = evs.

Theorem reduction_from_guidance n evs :
  hist_safe evs -> guidance_complete n evs -> reduction_complete n evs.
Proof.
  intros Hh Hg ls s Hr Ht.
  destruct (ticker_oracle_zero n evs ls s Hh Hr Ht) as [ls0 [s0 [Hr0 [Hz [Ht0 _]]]]].
  exact (Hg ls0 s0 Hr0 Hz Ht0).
Qed.

(* non-vacuity: XTimeProofs.example_run uses oracle 19; the theorem gives a run with oracles 0 *)
Example ticker_oracle_zero_example :
  exists ls0 s0, run step (tinit 2) ls0 = Some s0 /\ Forall (fun l => zero_oracle l = true) ls0
                 /\ ticker_trace ls0 = ticker_trace example_run
                 /\ existsb (fun l => negb (zero_oracle l)) example_run = true.
Proof.
  destruct ticker_runs as [s [Hr _]].
  assert (H1 : oracle_safe 100 10) by (apply oracle_safe_documented; unfold max_i64; lia).
  assert (H2 : oracle_safe 50 0) by (apply oracle_safe_documented; unfold max_i64; lia).
  assert (Hh : hist_safe (ticker_trace example_run)).
  { intros th d j [Hin|Hin]; vm_compute in Hin;
      repeat (destruct Hin as [Hin|Hin]; [try discriminate Hin; injection Hin as <- <- <-; assumption|]);
      destruct Hin. }
  destruct (ticker_oracle_zero 2%nat _ example_run s Hh Hr eq_refl) as [ls0 [s0 [Hr0 [Hz [Ht _]]]]].
  exists ls0, s0. split; [exact Hr0|]. split; [exact Hz|]. split; [exact Ht|]. vm_compute. reflexivity.
Qed.

Print Assumptions accepts_sx.
Print Assumptions convergedb_sx.
Print Assumptions sleep_sst_eqb_spec.
Print Assumptions sleep_check_sound.
Print Assumptions sleep_check_old_sound.
Print Assumptions sleep_check_complete.
Print Assumptions sleep_reject_genuine.
Print Assumptions sleep_check_iff.
Print Assumptions ticker_mst_eqb_spec.
Print Assumptions ticker_tau_labels_complete.
Print Assumptions ticker_accepts_guided_sound.
Print Assumptions ticker_accepts_sound.
Print Assumptions ticker_check_sound.
Print Assumptions ticker_first_rejected_sound.
Print Assumptions ticker_check_old_sound.
Print Assumptions ticker_guided_complete.
Print Assumptions ticker_guided_reject_genuine.
Print Assumptions ticker_guided_iff.
Print Assumptions ticker_unreduced_completeness_refuted.
Print Assumptions oracle_safe_int64.
Print Assumptions oracle_safe_documented.
Print Assumptions ticker_reduction_fails_on_overflow.
Print Assumptions ticker_reject_genuine_if_reduction.
Print Assumptions ticker_accepts_iff_if_reduction.
Print Assumptions step_zero_sim.
Print Assumptions ticker_oracle_zero.
Print Assumptions reduction_from_guidance.
